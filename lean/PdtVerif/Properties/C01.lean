import PdtVerif.Lemmas.StringMatch
import PdtVerif.Lemmas.StringMatchBatch
import PdtVerif.Lemmas.StringMatchOracle
import PdtVerif.Lemmas.StringMatchModule
/-!
# C01 — edit distance is the weighted Levenshtein distance, per pair and per prefix

Property theorems only. The model (`Model/StringMatch.lean`) is the per-column behaviour of
`_string.py::_string_matching` on the *padded* columns `ref` (`R = ref.length` entries) and
`hyp` (`H = hyp.length`), whatever sits after the end-of-sequence token included. The spec is
`Spec/Levenshtein.lean`: `IsLevDist c r h d` — `d` is the cost of some edit script turning
`r` into `h` and no script is cheaper; `lev` is the textbook recursion, proved to be that
minimum in `Lemmas/Levenshtein.lean`.

`cut eos include_eos col` is the part of a padded column that counts: everything before the
first eos, the eos itself kept iff `include_eos` (`C01_cut_*` pin this down on explicit
`content ++ eos :: garbage` columns).

The second half (`C01_delmat_inf*`, `C01_batch_*`) is about the TENSOR-level model
(`Model/StringMatchBatch.lean`: whole `(L, N)` tensors, row-wise operations vectorised over the
batch as in the code, `del_mat` with explicit `+inf` entries, `batch_first` as a transposition,
the batch-size `RuntimeError`): every entry of its result is the per-column model on that
sequence of the batch, hence everything above holds for every pair of every batch in either layout.

The last part: `C01_oracle_prefix` (the one-pass oracle the driver uses for the long pairs sampled from
large batches is the weighted Levenshtein distance of every prefix) and `C01_lens_ties` /
`C01_batch_lens_ties` (`_lens_from_eos` gives the first-eos index whatever maximal index `torch.max`
reports — the tie-break is immaterial, so the "first hit" reading of the tensor-level model loses nothing).

All statements hold for every cost triple (no sign condition is needed: the uniform-cost
shortcut carries its own `> 0` test), every token type, every `R`, `H`, and every eos setting.
-/
namespace PdtVerif.StringMatch
open PdtVerif.Lev

variable {α : Type} [DecidableEq α]

/-! ### What "cut at the first eos" means -/

theorem firstEos_append_eos (e : α) (s g : List α) (hs : e ∉ s) : firstEos e (s ++ e :: g) = s.length := by
  induction s with
  | nil => simp [firstEos]
  | cons x xs ih =>
    have hx : ¬ x = e := fun h => hs (by simp [h])
    have : e ∉ xs := fun h => hs (by simp [h])
    simp [firstEos, hx, ih this]

theorem firstEos_absent (e : α) (s : List α) (hs : e ∉ s) : firstEos e s = s.length := by
  induction s with
  | nil => simp [firstEos]
  | cons x xs ih =>
    have hx : ¬ x = e := fun h => hs (by simp [h])
    have : e ∉ xs := fun h => hs (by simp [h])
    simp [firstEos, hx, ih this]

/-- eos unset: the whole padded column counts. -/
theorem C01_cut_unset (inc : Bool) (s : List α) : cut none inc s = s := by
  simp [cut, seqLen]

/-- `content ++ eos :: garbage` with eos-free content is cut to `content`
(`content ++ [eos]` under `include_eos`), whatever the garbage and its length. -/
theorem C01_cut_eos (e : α) (inc : Bool) (s g : List α) (hs : e ∉ s) :
    cut (some e) inc (s ++ e :: g) = if inc then s ++ [e] else s := by
  unfold cut seqLen
  simp only [firstEos_append_eos e s g hs]
  cases inc
  · simp
  · have : ¬ s.length = (s ++ e :: g).length := by simp
    simp only [if_true, if_neg this]
    simp [List.take_append]
    exact List.take_of_length_le (by omega)

/-- A column without any eos counts entirely, and `include_eos` adds nothing to it. -/
theorem C01_cut_no_eos (e : α) (inc : Bool) (s : List α) (hs : e ∉ s) : cut (some e) inc s = s := by
  unfold cut seqLen
  simp only [firstEos_absent e s hs]
  cases inc <;> simp

/-! ### The row update -/

/-- **delmat_eq_sweep** (restated; NOT counted as an obligation of its own — the counted one is
`delmat_eq_sweep` in `Lemmas/StringMatch.lean`): the vectorised deletion `(del_mat + v).min(1)` equals the
sequential loop `v[i] = min(v[i], v[i-1] + d)`, for every row and every `d`. -/
theorem C01_delmat_eq_sweep (d : Rat) (v : List Rat) : delMatStep d v = seqSweep d v :=
  delmat_eq_sweep d v

/-- One loop iteration of the code: while the hypothesis is not exhausted it is exactly the
shared textbook row step `Lev.stepRow` over the full padded reference; afterwards the row is
frozen. -/
theorem C01_step (c : Costs) (ref : List α) (hypLen : Nat) (excl : Bool) (idx : Nat) (y : α)
    (last : List Rat) :
    stepCol c ref hypLen excl idx y last
      = if idx < hypLen + exclOff excl then stepRow c ref y last else last := by
  split
  · exact stepCol_notDone _ _ _ _ _ _ _ ‹_›
  · exact stepCol_done _ _ _ _ _ _ _ ‹_›

/-- The padded row only looks left: entries `j ≤ n` of the DP row over the padded reference
column equal those of the DP row over the column cut to `n` tokens. -/
theorem C01_padded_row (c : Costs) (ref h : List α) (n j : Nat) (hj : j ≤ n) (hn : n ≤ ref.length) :
    (dpRow c ref h)[j]? = (dpRow c (ref.take n) h)[j]? := dpRow_take c ref h n j hj hn

/-- Row `i` of the code's loop (after iteration `hyp_idx = i + 1`, freeze included) is the
sequential DP row of the padded reference against the first `min (i+1) (hypLen + e − 1)`
hypothesis tokens (`e = 0` under `exclude_last`, else `1`). -/
theorem C01_loop_rows (c : Costs) (ref hyp : List α) (hypLen : Nat) (excl : Bool)
    (hl : hypLen ≤ hyp.length) (i : Nat) (hi : i + 1 < hyp.length + exclOff excl) :
    (loopRows c ref hyp hypLen excl)[i]?
      = some (dpRow c ref (hyp.take (min (i + 1) (hypLen + exclOff excl - 1)))) := by
  rw [loopRows_getElem? c ref hyp hypLen excl hl i hi, dpRow_eq]

/-! ### Per pair -/

/-- The reported distance is `lev` of the cut sequences. -/
theorem C01_pair_lev (c : Costs) (eos : Option α) (inc : Bool) (ref hyp : List α) :
    editDistance c eos inc false ref hyp = lev c (cut eos inc ref) (cut eos inc hyp) := by
  rw [editDistance_eq]; simp [cutDistance]

/-- **C01_pair**: for every padded reference and hypothesis column (any `R`, `H`, any garbage
after the eos), every cost triple and every eos setting, the value reported by the model of
`edit_distance` is the weighted edit distance of the cut sequences: some edit script turning
`ref'` into `hyp'` costs exactly that much, and no script costs less. -/
theorem C01_pair (c : Costs) (eos : Option α) (inc : Bool) (ref hyp : List α) :
    IsLevDist c (cut eos inc ref) (cut eos inc hyp) (editDistance c eos inc false ref hyp) := by
  rw [C01_pair_lev]; exact lev_isLevDist c _ _

/-- `C01_pair` on explicit columns `content ++ eos :: garbage`. -/
theorem C01_pair_explicit (c : Costs) (e : α) (inc : Bool) (r' h' g₁ g₂ : List α)
    (hr : e ∉ r') (hh : e ∉ h') :
    IsLevDist c (if inc then r' ++ [e] else r') (if inc then h' ++ [e] else h')
      (editDistance c (some e) inc false (r' ++ e :: g₁) (h' ++ e :: g₂)) := by
  have := C01_pair c (some e) inc (r' ++ e :: g₁) (h' ++ e :: g₂)
  rwa [C01_cut_eos e inc r' g₁ hr, C01_cut_eos e inc h' g₂ hh] at this

/-- **C01_norm**: with `norm` the distance is divided by the reference length (non-empty
reference; for an empty one the property is silent, see `C01_norm_empty_ref`). -/
theorem C01_norm (c : Costs) (eos : Option α) (inc : Bool) (ref hyp : List α)
    (hne : cut eos inc ref ≠ []) :
    editDistance c eos inc true ref hyp
      = lev c (cut eos inc ref) (cut eos inc hyp) / ((cut eos inc ref).length : Rat) := by
  rw [editDistance_eq]
  have : (cut eos inc ref).length ≠ 0 := fun h => hne (List.eq_nil_of_length_eq_zero h)
  simp [cutDistance, this]

/-- What the code substitutes for `0/0` and `x/0` (documented behaviour of the model, not a
clause of the property): 1 if the hypothesis is non-empty, else 0. -/
theorem C01_norm_empty_ref (c : Costs) (eos : Option α) (inc : Bool) (ref hyp : List α)
    (he : cut eos inc ref = []) :
    editDistance c eos inc true ref hyp = if cut eos inc hyp ≠ [] then 1 else 0 := by
  rw [editDistance_eq]
  simp only [cutDistance, he, List.length_nil, if_true]
  by_cases h : cut eos inc hyp = []
  · simp [h]
  · have : 0 < (cut eos inc hyp).length := List.length_pos_iff.mpr h
    simp [h, this]

/-! ### Uniform costs -/

/-- **C01_uniform_scale**: equal non-negative costs scale the unit-cost distance… -/
theorem C01_uniform_scale (k : Rat) (hk : 0 ≤ k) (r h : List α) :
    lev ⟨k, k, k⟩ r h = k * lev unitCosts r h := lev_uniform_scale k hk r h

/-- …so the code's shortcut (`ins == del == sub > 0` ⇒ compute with unit costs, multiply by
`mult`) returns the same number as the computation with the given costs; when the test
fails nothing is changed. -/
theorem C01_shortcut (c : Costs) (r h : List α) :
    lev (shortcut c).1 r h * (shortcut c).2 = lev c r h := shortcut_scale c r h

/-- Definitional (the two branches of `shortcut` unfolded), kept for documentation, NOT counted as
obligations: the content is `C01_shortcut`, which covers both branches. -/
theorem C01_shortcut_taken (k : Rat) (hk : 0 < k) : shortcut ⟨k, k, k⟩ = (unitCosts, k) := by
  simp [shortcut, hk]

theorem C01_shortcut_not_taken (c : Costs) (h : ¬ (c.ins = c.del ∧ c.del = c.sub ∧ 0 < c.sub)) :
    shortcut c = (c, 1) := by
  simp only [shortcut, if_neg h]

/-! ### Per prefix -/

/-- The table has `H + 1` entries, `H` under `exclude_last`. -/
theorem C01_prefix_length (c : Costs) (eos : Option α) (inc norm excl : Bool) (padding : Int)
    (ref hyp : List α) :
    (prefixEditDistances c eos inc norm excl padding ref hyp).length
      = hyp.length + (if excl then 0 else 1) :=
  prefixEditDistances_length c eos inc norm excl padding ref hyp

theorem cut_length_le (eos : Option α) (inc : Bool) (l : List α) : (cut eos inc l).length ≤ l.length := by
  rw [cut_length]; exact seqLen_le eos inc l

/-- **C01_prefix**: entry `k` of the table is the weighted edit distance between the cut
reference and the length-`k` prefix of the cut hypothesis, for every `k ≤ |hyp'|`
(`k < |hyp'|` under `exclude_last`: the full hypothesis is omitted). -/
theorem C01_prefix (c : Costs) (eos : Option α) (inc excl : Bool) (padding : Int) (ref hyp : List α)
    (k : Nat) (hk : k < (cut eos inc hyp).length + (if excl then 0 else 1)) :
    (prefixEditDistances c eos inc false excl padding ref hyp)[k]?
      = some (lev c (cut eos inc ref) ((cut eos inc hyp).take k)) := by
  have hk' : k < (cut eos inc hyp).length + exclOff excl := hk
  have hle := cut_length_le eos inc hyp
  rw [prefixEditDistances_eq, List.getElem?_map, List.getElem?_range (by omega)]
  have : ¬ k ≥ (cut eos inc hyp).length + exclOff excl := by omega
  simp [cutPrefixEntry, this]

/-- The same as a statement about edit scripts. -/
theorem C01_prefix_isLevDist (c : Costs) (eos : Option α) (inc excl : Bool) (padding : Int)
    (ref hyp : List α) (k : Nat) (hk : k < (cut eos inc hyp).length + (if excl then 0 else 1)) :
    ∃ d, (prefixEditDistances c eos inc false excl padding ref hyp)[k]? = some d
      ∧ IsLevDist c (cut eos inc ref) ((cut eos inc hyp).take k) d :=
  ⟨_, C01_prefix c eos inc excl padding ref hyp k hk, lev_isLevDist c _ _⟩

/-- With `norm`, every such entry is divided by the reference length (non-empty reference). -/
theorem C01_prefix_norm (c : Costs) (eos : Option α) (inc excl : Bool) (padding : Int) (ref hyp : List α)
    (hne : cut eos inc ref ≠ [])
    (k : Nat) (hk : k < (cut eos inc hyp).length + (if excl then 0 else 1)) :
    (prefixEditDistances c eos inc true excl padding ref hyp)[k]?
      = some (lev c (cut eos inc ref) ((cut eos inc hyp).take k) / ((cut eos inc ref).length : Rat)) := by
  have hk' : k < (cut eos inc hyp).length + exclOff excl := hk
  have hle := cut_length_le eos inc hyp
  rw [prefixEditDistances_eq, List.getElem?_map, List.getElem?_range (by omega)]
  have h1 : ¬ k ≥ (cut eos inc hyp).length + exclOff excl := by omega
  have h2 : (cut eos inc ref).length ≠ 0 := fun h => hne (List.eq_nil_of_length_eq_zero h)
  simp [cutPrefixEntry, h1, h2]

/-- Positions past the hypothesis's own length hold the padding value (in every mode). -/
theorem C01_prefix_padding (c : Costs) (eos : Option α) (inc norm excl : Bool) (padding : Int)
    (ref hyp : List α) (k : Nat)
    (hk : (cut eos inc hyp).length + (if excl then 0 else 1) ≤ k)
    (hH : k < hyp.length + (if excl then 0 else 1)) :
    (prefixEditDistances c eos inc norm excl padding ref hyp)[k]? = some (padding : Rat) := by
  have hk' : (cut eos inc hyp).length + exclOff excl ≤ k := hk
  have hH' : k < hyp.length + exclOff excl := hH
  rw [prefixEditDistances_eq, List.getElem?_map, List.getElem?_range hH']
  simp [cutPrefixEntry, hk']

/-! ### Independence -/

/-- **C01_independent**: a column's result is a function of the cut sequences only — it does
not depend on the padded sizes `R`, `H` nor on any token after the first eos. (The model is
per column; that the real batched code keeps columns apart is what the correspondence checks.) -/
theorem C01_independent (c : Costs) (eos : Option α) (inc norm : Bool) (ref₁ hyp₁ ref₂ hyp₂ : List α)
    (hr : cut eos inc ref₁ = cut eos inc ref₂) (hh : cut eos inc hyp₁ = cut eos inc hyp₂) :
    editDistance c eos inc norm ref₁ hyp₁ = editDistance c eos inc norm ref₂ hyp₂ := by
  rw [editDistance_eq, editDistance_eq, hr, hh]

/-- Explicit form: change the garbage after the eos and its length at will. -/
theorem C01_independent_garbage (c : Costs) (e : α) (inc norm : Bool) (r' h' g₁ g₂ g₃ g₄ : List α)
    (hr : e ∉ r') (hh : e ∉ h') :
    editDistance c (some e) inc norm (r' ++ e :: g₁) (h' ++ e :: g₂)
      = editDistance c (some e) inc norm (r' ++ e :: g₃) (h' ++ e :: g₄) := by
  apply C01_independent
  · rw [C01_cut_eos e inc r' g₁ hr, C01_cut_eos e inc r' g₃ hr]
  · rw [C01_cut_eos e inc h' g₂ hh, C01_cut_eos e inc h' g₄ hh]

/-- Without `include_eos`, a sequence that fills its column (no eos) and the same sequence
followed by eos and garbage give the same result. -/
theorem C01_independent_fill (c : Costs) (e : α) (norm : Bool) (r' h' g₁ g₂ : List α)
    (hr : e ∉ r') (hh : e ∉ h') :
    editDistance c (some e) false norm r' h'
      = editDistance c (some e) false norm (r' ++ e :: g₁) (h' ++ e :: g₂) := by
  apply C01_independent
  · rw [C01_cut_eos e false r' g₁ hr, C01_cut_no_eos e false r' hr]; rfl
  · rw [C01_cut_eos e false h' g₂ hh, C01_cut_no_eos e false h' hh]; rfl

/-- The per-prefix table: entries at common positions agree whenever the cut sequences agree. -/
theorem C01_prefix_independent (c : Costs) (eos : Option α) (inc norm excl : Bool) (padding : Int)
    (ref₁ hyp₁ ref₂ hyp₂ : List α)
    (hr : cut eos inc ref₁ = cut eos inc ref₂) (hh : cut eos inc hyp₁ = cut eos inc hyp₂)
    (k : Nat) (h₁ : k < hyp₁.length + (if excl then 0 else 1))
    (h₂ : k < hyp₂.length + (if excl then 0 else 1)) :
    (prefixEditDistances c eos inc norm excl padding ref₁ hyp₁)[k]?
      = (prefixEditDistances c eos inc norm excl padding ref₂ hyp₂)[k]? := by
  have h₁' : k < hyp₁.length + exclOff excl := h₁
  have h₂' : k < hyp₂.length + exclOff excl := h₂
  rw [prefixEditDistances_eq, prefixEditDistances_eq, List.getElem?_map, List.getElem?_map,
    List.getElem?_range h₁', List.getElem?_range h₂', hr, hh]

/-! ### The `+inf` entries of `del_mat`, explicitly -/

/-- Entry `(i, j)` of `del_mat` as the code builds it (`row.unsqueeze(1) - row` plus
`full_like(inf).triu(1)`), in the extended rationals (`none` = `+∞`). -/
def delMatAt (d : Rat) (R1 i j : Nat) : ERat := ((delMat d R1).getD i []).getD j none

/-- `del_mat` is `i·d − j·d` on and below the diagonal and `+∞` strictly above it. -/
theorem C01_delmat_entries (d : Rat) (R1 i j : Nat) (hi : i < R1) (hj : j < R1) :
    delMatAt d R1 i j = if i < j then none else some ((i : Rat) * d - (j : Rat) * d) := by
  unfold delMatAt delMat
  simp only [List.getD_eq_getElem?_getD, List.getElem?_map, List.getElem?_range hi, List.getElem?_range hj,
    Option.map_some, Option.getD_some]
  split <;> simp [eadd]

/-- **C01_delmat_inf**: the minimum over ALL `R + 1` entries of line `i` of `del_mat + v` — the `+∞`
entries included, computed in the extended rationals — is a finite number, and it is the minimum
over `j ≤ i` that the per-column model (`delMatEntry`, hence `delmat_eq_sweep`) uses. An infinite
entry never wins and never leaks. -/
theorem C01_delmat_inf (d : Rat) (v : List Rat) (i : Nat) (hi : i < v.length) :
    (List.range v.length).foldl (fun acc j => emin acc (eadd (delMatAt d v.length i j) (some (v.getD j 0)))) none
      = some (delMatEntry d v i) := by
  rw [← delMat_min_eq d v v.length i hi]
  apply foldl_congr_mem
  intro a j hj
  have hj' : j < v.length := List.mem_range.mp hj
  rw [C01_delmat_entries d v.length i j hi hj']
  split <;> simp [eadd]

/-- The same inside the batched computation: before `(del_mat + row).min(1)` is read back as a
number, its entry `(i, n)` is the finite value `delMatEntry` of column `n` (never `+∞`), for every
line `i` and every column `n` of every `(R + 1, N)` block. -/
theorem C01_delmat_inf_batch (d : Rat) (N n : Nat) (hn : n < N) (v : List (List Rat)) (hv : Wide N v)
    (i : Nat) (hi : i < v.length) :
    (minRows N (List.zipWith (fun (e : ERat) (vr : List Rat) => vr.map (fun x => eadd e (some x)))
        (delMatLine d v.length i) v))[n]?
      = some (some (delMatEntry d (colOf v n 0) i)) :=
  delMatStepB_finite d N n hn v hv i hi

/-! ### Batch level: every entry is the per-column model on that pair, in either layout -/

/-- One iteration of the loop on a whole `(R + 1, N)` block, restricted to column `n`, is the
per-column iteration (`C01_step`) on column `n`: the other columns are not looked at. -/
theorem C01_batch_step (c : Costs) (N n : Nat) (hn : n < N) (ref : List (List α)) (hypLens : List Nat)
    (excl : Bool) (idx : Nat) (y : List α) (last : List (List Rat)) (href : Wide N ref)
    (hl : hypLens.length = N) (hy : y.length = N) (hlast : Wide N last)
    (hlen : last.length = ref.length + 1) (dα : α) :
    colOf (stepB c N ref hypLens excl idx y last) n 0
      = stepCol c (colOf ref n dα) (hypLens.getD n 0) excl idx (y.getD n dα) (colOf last n 0) :=
  stepB_col c N n hn ref hypLens excl idx y last href hl hy hlast hlen dα

/-- `_lens_from_eos` as the code computes it on a tensor (`cumsum`, first hit, `masked_fill`) and
the `include_eos` arithmetic give, in entry `n`, the length of the cut of column `n`. -/
theorem C01_batch_lens (eos : Option α) (inc : Bool) (N n : Nat) (hn : n < N) (tok : List (List α))
    (hW : Wide N tok) (dα : α) :
    (seqLensB eos inc N tok).getD n 0 = (cut eos inc (colOf tok n dα)).length := by
  rw [seqLensB_getD eos inc N n hn tok hW dα, cut_length]

/-- **C01_batch_eq**: `edit_distance` on a whole batch in either layout, equal batch sizes `N`:
the call succeeds and its result is, entry by entry, the per-column model on sequence `n` of `ref`
and sequence `n` of `hyp` (column `n`, or row `n` under `batch_first`). -/
theorem C01_batch_eq (c : Costs) (eos : Option α) (inc norm bf : Bool) (ref hyp : Tensor2 α) (dα : α)
    (hr : ref.WF) (hh : hyp.WF) (N : Nat) (hN : batchSize bf ref = N) (hN' : batchSize bf hyp = N) :
    editDistanceT c eos inc norm bf ref hyp dα
      = .ok ((List.range N).map (fun n => editDistance c eos inc norm (seqOf bf ref n dα) (seqOf bf hyp n dα))) :=
  editDistanceT_eq c eos inc norm bf ref hyp dα hr hh N hN hN'

/-- **C01_batch_pair**: for every batch (any `N`, `R`, `H`, either layout) the value reported for
pair `n` is the weighted edit distance of ITS cut sequences: attained by a script, below every script. -/
theorem C01_batch_pair (c : Costs) (eos : Option α) (inc bf : Bool) (ref hyp : Tensor2 α) (dα : α)
    (hr : ref.WF) (hh : hyp.WF) (N : Nat) (hN : batchSize bf ref = N) (hN' : batchSize bf hyp = N) :
    ∃ out, editDistanceT c eos inc false bf ref hyp dα = .ok out ∧ out.length = N ∧
      ∀ n, n < N → ∃ v, out[n]? = some v ∧
        IsLevDist c (cut eos inc (seqOf bf ref n dα)) (cut eos inc (seqOf bf hyp n dα)) v := by
  refine ⟨_, C01_batch_eq c eos inc false bf ref hyp dα hr hh N hN hN', by simp, ?_⟩
  intro n hn
  refine ⟨editDistance c eos inc false (seqOf bf ref n dα) (seqOf bf hyp n dα), ?_, C01_pair c eos inc _ _⟩
  simp [List.getElem?_range hn]

/-- **C01_batch_norm**: with `norm`, pair `n` is divided by the length of ITS reference. -/
theorem C01_batch_norm (c : Costs) (eos : Option α) (inc bf : Bool) (ref hyp : Tensor2 α) (dα : α)
    (hr : ref.WF) (hh : hyp.WF) (N : Nat) (hN : batchSize bf ref = N) (hN' : batchSize bf hyp = N) :
    ∃ out, editDistanceT c eos inc true bf ref hyp dα = .ok out ∧
      ∀ n, n < N → cut eos inc (seqOf bf ref n dα) ≠ [] →
        out[n]? = some (lev c (cut eos inc (seqOf bf ref n dα)) (cut eos inc (seqOf bf hyp n dα))
          / ((cut eos inc (seqOf bf ref n dα)).length : Rat)) := by
  refine ⟨_, C01_batch_eq c eos inc true bf ref hyp dα hr hh N hN hN', ?_⟩
  intro n hn hne
  simp [List.getElem?_range hn, C01_norm c eos inc _ _ hne]

/-- **C01_batch_independent**: a pair's result does not depend on the other pairs of the batch, on its
position in the batch, on the batch size, on the padded sizes, on the layout, or on tokens after its
end-of-sequence token: two batches (possibly of different shapes and layouts) that hold the same cut
sequences at positions `n₁`, `n₂` report the same number there. -/
theorem C01_batch_independent (c : Costs) (eos : Option α) (inc norm bf₁ bf₂ : Bool)
    (ref₁ hyp₁ ref₂ hyp₂ : Tensor2 α) (dα : α)
    (hr₁ : ref₁.WF) (hh₁ : hyp₁.WF) (hr₂ : ref₂.WF) (hh₂ : hyp₂.WF) (N₁ N₂ : Nat)
    (hN₁ : batchSize bf₁ ref₁ = N₁) (hN₁' : batchSize bf₁ hyp₁ = N₁)
    (hN₂ : batchSize bf₂ ref₂ = N₂) (hN₂' : batchSize bf₂ hyp₂ = N₂)
    (n₁ n₂ : Nat) (hn₁ : n₁ < N₁) (hn₂ : n₂ < N₂)
    (hr : cut eos inc (seqOf bf₁ ref₁ n₁ dα) = cut eos inc (seqOf bf₂ ref₂ n₂ dα))
    (hh : cut eos inc (seqOf bf₁ hyp₁ n₁ dα) = cut eos inc (seqOf bf₂ hyp₂ n₂ dα)) :
    ∃ o₁ o₂, editDistanceT c eos inc norm bf₁ ref₁ hyp₁ dα = .ok o₁
      ∧ editDistanceT c eos inc norm bf₂ ref₂ hyp₂ dα = .ok o₂
      ∧ o₁[n₁]? = o₂[n₂]? ∧ (o₁[n₁]?).isSome := by
  refine ⟨_, _, C01_batch_eq c eos inc norm bf₁ ref₁ hyp₁ dα hr₁ hh₁ N₁ hN₁ hN₁',
    C01_batch_eq c eos inc norm bf₂ ref₂ hyp₂ dα hr₂ hh₂ N₂ hN₂ hN₂', ?_, ?_⟩
  · simp only [List.getElem?_map, List.getElem?_range hn₁, List.getElem?_range hn₂, Option.map_some]
    rw [C01_independent c eos inc norm _ _ _ _ hr hh]
  · simp [List.getElem?_range hn₁]

/-- **C01_batch_first**: `batch_first` is a transposition of the two inputs … (DEFINITIONAL: the proof is
`rfl` — this is how the tensor-level model is written, mirroring `if batch_first: ref = ref.t()`; kept for
documentation, NOT counted as an obligation. The statement with content about the layout is `C01_batch_eq`:
under `batch_first` pair `n` is computed from ROW `n` of both inputs.) -/
theorem C01_batch_first (c : Costs) (eos : Option α) (inc norm : Bool) (ref hyp : Tensor2 α) (dα : α) :
    editDistanceT c eos inc norm true ref hyp dα = editDistanceT c eos inc norm false (ref.t dα) (hyp.t dα) dα :=
  editDistanceT_batch_first c eos inc norm ref hyp dα

/-- … and, for the per-prefix table, of the result as well. (DEFINITIONAL, not counted; content:
`C01_batch_prefix` / `C01_batch_prefix_eq`.) -/
theorem C01_batch_first_prefix (c : Costs) (eos : Option α) (inc norm excl : Bool) (padding : Int)
    (ref hyp : Tensor2 α) (dα : α) :
    prefixEditDistancesT c eos inc norm true excl padding ref hyp dα
      = (prefixEditDistancesT c eos inc norm false excl padding (ref.t dα) (hyp.t dα) dα).map (fun T => T.t 0) := by
  unfold prefixEditDistancesT
  simp only [if_true, Bool.false_eq_true, if_false]
  split <;> rfl

/-- **C01_batch_prefix**: `prefix_edit_distances` on a whole batch in either layout: the call succeeds,
the table is `(H + 1 | H, N)` (`(N, H + 1 | H)` under `batch_first`), and for every pair `n` entry `k`
of ITS line of the table is the weighted distance between its cut reference and the length-`k` prefix
of its cut hypothesis for `k ≤ |hyp'|` (`<` under `exclude_last`), the padding value beyond. -/
theorem C01_batch_prefix (c : Costs) (eos : Option α) (inc bf excl : Bool) (padding : Int)
    (ref hyp : Tensor2 α) (dα : α) (hr : ref.WF) (hh : hyp.WF) (N : Nat) (hN : batchSize bf ref = N)
    (hN' : batchSize bf hyp = N) :
    ∃ T, prefixEditDistancesT c eos inc false bf excl padding ref hyp dα = .ok T
      ∧ batchSize bf T = N
      ∧ (if bf then T.d1 else T.d0) = (if bf then hyp.d1 else hyp.d0) + (if excl then 0 else 1)
      ∧ ∀ n, n < N → ∀ k,
          (k < (cut eos inc (seqOf bf hyp n dα)).length + (if excl then 0 else 1) →
            (seqOf bf T n 0)[k]?
              = some (lev c (cut eos inc (seqOf bf ref n dα)) ((cut eos inc (seqOf bf hyp n dα)).take k)))
          ∧ ((cut eos inc (seqOf bf hyp n dα)).length + (if excl then 0 else 1) ≤ k →
              k < (seqOf bf hyp n dα).length + (if excl then 0 else 1) →
            (seqOf bf T n 0)[k]? = some (padding : Rat)) := by
  obtain ⟨T, hT, hb, hs, hcol⟩ :=
    prefixEditDistancesT_eq c eos inc false bf excl padding ref hyp dα hr hh N hN hN'
  refine ⟨T, hT, hb, hs, ?_⟩
  intro n hn k
  rw [hcol n hn]
  exact ⟨fun hk => C01_prefix c eos inc excl padding _ _ k hk,
    fun hk hH => C01_prefix_padding c eos inc false excl padding _ _ k hk hH⟩

/-- The whole table of pair `n` (any `norm`) is the per-column table of pair `n`. -/
theorem C01_batch_prefix_eq (c : Costs) (eos : Option α) (inc norm bf excl : Bool) (padding : Int)
    (ref hyp : Tensor2 α) (dα : α) (hr : ref.WF) (hh : hyp.WF) (N : Nat) (hN : batchSize bf ref = N)
    (hN' : batchSize bf hyp = N) :
    ∃ T, prefixEditDistancesT c eos inc norm bf excl padding ref hyp dα = .ok T
      ∧ ∀ n, n < N → seqOf bf T n 0
          = prefixEditDistances c eos inc norm excl padding (seqOf bf ref n dα) (seqOf bf hyp n dα) := by
  obtain ⟨T, hT, _, _, hcol⟩ :=
    prefixEditDistancesT_eq c eos inc norm bf excl padding ref hyp dα hr hh N hN hN'
  exact ⟨T, hT, hcol⟩

/-- **C01_batch_mismatch**: the model raises (the documented `RuntimeError`) exactly when the two
batch sizes differ, for both functions and both layouts. -/
theorem C01_batch_mismatch (c : Costs) (eos : Option α) (inc norm bf excl : Bool) (padding : Int)
    (ref hyp : Tensor2 α) (dα : α) :
    (editDistanceT c eos inc norm bf ref hyp dα = .error "RuntimeError" ↔ batchSize bf ref ≠ batchSize bf hyp)
    ∧ (prefixEditDistancesT c eos inc norm bf excl padding ref hyp dα = .error "RuntimeError"
        ↔ batchSize bf ref ≠ batchSize bf hyp) :=
  ⟨editDistanceT_error_iff c eos inc norm bf ref hyp dα,
    prefixEditDistancesT_error_iff c eos inc norm bf excl padding ref hyp dα⟩

/-! ### Non-vacuity: the hypotheses above are satisfiable on concrete, non-trivial inputs -/

-- `ref = [7,7,2,9]`, `hyp = [7,2,2]`, eos `2`, include_eos: `ref' = [7,7,2]`, `hyp' = [7,2]`
example : cut (some (2 : Int)) true [7, 7, 2, 9] = [7, 7, 2] := by decide
example : cut (some (2 : Int)) false [7, 2, 2] = [7] := by decide
example : (2 : Int) ∉ [7, 7] := by decide
example : cut (some (2 : Int)) true [7, 7, 2, 9] ≠ [] := by decide
example : 1 < (cut (some (2 : Int)) true [7, 2, 2]).length + (if false then 0 else 1) := by decide
example : (cut (some (2 : Int)) true [7, 2, 2]).length + (if true then 0 else 1) ≤ 2
    ∧ 2 < [7, 2, 2].length + (if true then 0 else 1) := by decide
example : cut (some (2 : Int)) false [7, 7, 2, 9] = cut (some 2) false [7, 7, 2, 0, 0, 2] := by decide

/-- `C01_pair` instantiated: padded columns `[7,7,2,9]`, `[7,2,2]`, eos `2` counted, costs
(1/2, 1, 3/2): the model's value is the weighted distance between `[7,7,2]` and `[7,2]`. -/
example : IsLevDist ⟨1/2, 1, 3/2⟩ [(7 : Int), 7, 2] [7, 2]
    (editDistance ⟨1/2, 1, 3/2⟩ (some (2 : Int)) true false [7, 7, 2, 9] [7, 2, 2]) := by
  have h := C01_pair ⟨1/2, 1, 3/2⟩ (some (2 : Int)) true [7, 7, 2, 9] [7, 2, 2]
  rw [show cut (some (2 : Int)) true [7, 7, 2, 9] = [7, 7, 2] by decide,
    show cut (some (2 : Int)) true [7, 2, 2] = [7, 2] by decide] at h
  exact h

/-- The shortcut is taken for (2,2,2) and not for (1/2,1,3/2). -/
example : shortcut ⟨2, 2, 2⟩ = (unitCosts, 2) := C01_shortcut_taken 2 (by norm_num)
example : shortcut ⟨1/2, 1, 3/2⟩ = (⟨1/2, 1, 3/2⟩, 1) :=
  C01_shortcut_not_taken _ (by norm_num)

/-! #### Batch level -/

-- a 2 x 3 reference tensor and a 2 x 2 hypothesis tensor, batch-first (N = 2), and their shapes
example : (⟨2, 3, [[7, 7, 2], [5, 2, 9]]⟩ : Tensor2 Int).WF := ⟨rfl, by simp [Wide]⟩
example : (⟨2, 2, [[7, 2], [2, 2]]⟩ : Tensor2 Int).WF := ⟨rfl, by simp [Wide]⟩
example : batchSize true (⟨2, 3, [[7, 7, 2], [5, 2, 9]]⟩ : Tensor2 Int) = 2 := rfl
example : seqOf true (⟨2, 3, [[7, 7, 2], [5, 2, 9]]⟩ : Tensor2 Int) 1 0 = [5, 2, 9] := rfl
example : seqOf false ((⟨2, 3, [[7, 7, 2], [5, 2, 9]]⟩ : Tensor2 Int).t 0) 1 0 = [5, 2, 9] := by decide
-- the tensor model really runs: both layouts give the two distances 1 and 1 (eos 2 not counted)
example : editDistanceT unitCosts (some (2 : Int)) false false true
    ⟨2, 3, [[7, 7, 2], [5, 2, 9]]⟩ ⟨2, 2, [[7, 2], [2, 2]]⟩ 0 = .ok [1, 1] := by decide +kernel
example : editDistanceT unitCosts (some (2 : Int)) false false false
    ((⟨2, 3, [[7, 7, 2], [5, 2, 9]]⟩ : Tensor2 Int).t 0) ((⟨2, 2, [[7, 2], [2, 2]]⟩ : Tensor2 Int).t 0) 0
      = .ok [1, 1] := by decide +kernel
-- different batch sizes
example : batchSize false (⟨3, 2, [[1, 1], [1, 1], [1, 1]]⟩ : Tensor2 Int)
    ≠ batchSize false (⟨3, 3, [[1, 1, 1], [1, 1, 1], [1, 1, 1]]⟩ : Tensor2 Int) := by decide
-- hypotheses of C01_batch_step / C01_delmat_inf_batch: a 3 x 2 block
example : Wide 2 [[(0 : Rat), 0], [1, 1], [2, 2]] := by simp [Wide]
-- del_mat for d = 2, R + 1 = 3, with its +inf entries
example : delMat 2 3 = [[some 0, none, none], [some 2, some 0, none], [some 4, some 2, some 0]] := by
  decide +kernel

/-! ### The one-pass prefix oracle; `_lens_from_eos` under any tie-break of `torch.max` -/

/-- **C01_oracle_prefix**: the list the driver computes for a long pair with ONE run of the textbook DP
(`prefixDists`, keeping every intermediate row) has `|hyp| + 1` entries and entry `k` is the weighted
Levenshtein distance between `ref` and the length-`k` prefix of `hyp`: attained by an edit script, and no
script is cheaper. -/
theorem C01_oracle_prefix (c : Costs) (ref hyp : List α) :
    (prefixDists c ref hyp).length = hyp.length + 1 ∧
    ∀ k, k ≤ hyp.length → IsLevDist c ref (hyp.take k) ((prefixDists c ref hyp).getD k 0) := by
  refine ⟨prefixDists_length c ref hyp, fun k hk => ?_⟩
  rw [prefixDists_eq, List.getD_eq_getElem?_getD, List.getElem?_map,
    List.getElem?_range (by omega)]
  exact dpDist_isLevDist c ref (hyp.take k)

/-- **C01_lens_ties**: `_lens_from_eos` on one column — `mask = tok.eq(eos)`, `x = cumsum(mask)`,
`max_, argmax = (x.eq(1) & mask).max(dim)`, `argmax.masked_fill(max_.eq(0), L)` — where `argmax` is ANY
index at which `x.eq(1) & mask` attains its maximum (the only thing `torch.max` promises; in a column
without eos every index qualifies): the result is `|cut|` without `include_eos`, i.e. the index of the
first eos, and the padded length when there is none. -/
theorem C01_lens_ties (eos : α) (tok : List α) (argmax : Nat)
    (h : tok ≠ [] → IsArgmax (hitCol eos tok) argmax) :
    lensColAny eos tok argmax = (cut (some eos) false tok).length := by
  rw [lensColAny_eq eos tok argmax h, cut_length]
  rfl

/-- The contract is satisfiable on every non-empty column, and in a column without eos every position
satisfies it (the ties the theorem is about do occur). -/
theorem C01_lens_ties_nonvacuous (eos : α) (tok : List α) (hne : tok ≠ []) :
    (∃ i, IsArgmax (hitCol eos tok) i) ∧
    (firstEos eos tok = tok.length → ∀ i, i < tok.length → IsArgmax (hitCol eos tok) i) :=
  ⟨exists_isArgmax eos tok hne, fun hno i hi => isArgmax_of_no_eos eos tok hno i hi⟩

/-- **C01_batch_lens_ties**: the same on the whole `(L, N)` tensor. Whatever vector of indices
`(x.eq(1) & mask).max(0)` reports — one admissible index per column — `_lens_from_eos` is the
tensor-level model's `lensFromEosB` (which reads the maximum as "first hit"), and its entry `n` is the
first-eos index of column `n`. So nothing in `C01_batch_*` depends on how `torch.max` breaks ties. -/
theorem C01_batch_lens_ties (eos : α) (N : Nat) (tok : List (List α)) (hW : Wide N tok) (argmax : List Nat)
    (hA : tok ≠ [] → ∀ n, n < N → IsArgmax (colOf (hitB eos N tok) n false) (argmax.getD n 0)) :
    lensFromEosAny eos N tok argmax = lensFromEosB eos N tok ∧
    ∀ n, n < N → ∀ dα : α,
      (lensFromEosAny eos N tok argmax).getD n 0 = (cut (some eos) false (colOf tok n dα)).length := by
  have h := lensFromEosAny_eq eos N tok hW argmax hA
  refine ⟨h, fun n hn dα => ?_⟩
  rw [h, lensFromEosB_getD eos N n hn tok hW dα, cut_length]
  rfl

-- the prefix oracle on a concrete pair: distances of [7,7,2] to [], [7], [7,2] under (1/2, 1, 3/2)
example : prefixDists ⟨1/2, 1, 3/2⟩ [(7 : Int), 7, 2] [7, 2] = [3, 2, 1] := by decide +kernel
-- a column with eos 2 at position 2 (and again later): the only admissible index is 2
example : hitCol (2 : Int) [7, 7, 2, 9, 2] = [false, false, true, false, false] := by decide
example : IsArgmax (hitCol (2 : Int) [7, 7, 2, 9, 2]) 2 := ⟨by decide, by decide⟩
example : lensColAny (2 : Int) [7, 7, 2, 9, 2] 2 = 2 := by decide
-- a column without eos: indices 0 and 3 are both admissible and both give the padded length 4
example : IsArgmax (hitCol (2 : Int) [7, 7, 5, 9]) 0 ∧ IsArgmax (hitCol (2 : Int) [7, 7, 5, 9]) 3 :=
  ⟨⟨by decide, by decide⟩, ⟨by decide, by decide⟩⟩
example : lensColAny (2 : Int) [7, 7, 5, 9] 0 = 4 ∧ lensColAny (2 : Int) [7, 7, 5, 9] 3 = 4 := by decide
-- the tensor: a 3 x 2 batch (columns [7,2,2] and [5,9,9]), reported indices [1, 2] (column 1 has no eos)
example : hitB (2 : Int) 2 [[7, 5], [2, 9], [2, 9]] = [[false, false], [true, false], [false, false]] := by
  decide
example : lensFromEosAny (2 : Int) 2 [[7, 5], [2, 9], [2, 9]] [1, 2] = [1, 3] := by decide

/-! ### Audit: every theorem above applied to ONE concrete non-trivial instance (all its hypotheses together)

Per-column instance: padded `ref = [7,7,2,9]`, `hyp = [7,2,2]`, eos `2` counted (`ref' = [7,7,2]`, `hyp' = [7,2]`:
garbage after the eos in both, a deletion is needed), costs (1/2, 1, 3/2) (shortcut not taken).
Batch instance: batch-first `ref = [[7,7,2],[5,2,9]]`, `hyp = [[7,2],[2,2]]` (N = 2, second hypothesis empty after
the cut), eos `2` not counted. -/

-- C01_loop_rows: row 1 (a live row) and row 2 (frozen: the hypothesis has only 2 counted tokens)
example : (loopRows ⟨1/2, 1, 3/2⟩ [(7 : Int), 7, 2, 9] [7, 2, 2] 2 false)[2]?
    = some (dpRow ⟨1/2, 1, 3/2⟩ [(7 : Int), 7, 2, 9] [7, 2]) :=
  C01_loop_rows ⟨1/2, 1, 3/2⟩ [(7 : Int), 7, 2, 9] [7, 2, 2] 2 false (by decide) 2 (by decide)
-- C01_padded_row
example := C01_padded_row ⟨1/2, 1, 3/2⟩ [(7 : Int), 7, 2, 9] [7, 2] 3 2 (by decide) (by decide)
-- C01_pair_explicit (hr, hh together)
example := C01_pair_explicit ⟨1/2, 1, 3/2⟩ (2 : Int) true [7, 7] [7] [9] [2] (by decide) (by decide)
-- C01_norm: the normalised value is 1/3 = lev / 3
example := C01_norm ⟨1/2, 1, 3/2⟩ (some (2 : Int)) true [7, 7, 2, 9] [7, 2, 2] (by decide)
example : editDistance ⟨1/2, 1, 3/2⟩ (some (2 : Int)) true true [7, 7, 2, 9] [7, 2, 2] = 1 / 3 := by decide +kernel
-- C01_norm_empty_ref: reference column starting with the eos, eos not counted
example : editDistance ⟨1/2, 1, 3/2⟩ (some (2 : Int)) false true [2, 7] [7, 2] = 1 :=
  (C01_norm_empty_ref _ _ _ _ _ (by decide)).trans (by decide)
-- C01_prefix / C01_prefix_isLevDist / C01_prefix_norm at k = 1, C01_prefix_padding at k = 3 (and k = 2 under exclude_last)
example := C01_prefix ⟨1/2, 1, 3/2⟩ (some (2 : Int)) true false (-1) [7, 7, 2, 9] [7, 2, 2] 1 (by decide)
example := C01_prefix_isLevDist ⟨1/2, 1, 3/2⟩ (some (2 : Int)) true true (-1) [7, 7, 2, 9] [7, 2, 2] 1 (by decide)
example := C01_prefix_norm ⟨1/2, 1, 3/2⟩ (some (2 : Int)) true false (-1) [7, 7, 2, 9] [7, 2, 2] (by decide) 2 (by decide)
example := C01_prefix_padding ⟨1/2, 1, 3/2⟩ (some (2 : Int)) true true false (-1) [7, 7, 2, 9] [7, 2, 2] 3
  (by decide) (by decide)
example := C01_prefix_padding ⟨1/2, 1, 3/2⟩ (some (2 : Int)) true false true (-1) [7, 7, 2, 9] [7, 2, 2] 2
  (by decide) (by decide)
-- the whole tables
example : prefixEditDistances ⟨1/2, 1, 3/2⟩ (some (2 : Int)) true false false (-1) [7, 7, 2, 9] [7, 2, 2]
    = [3, 2, 1, -1] := by decide +kernel
example : prefixEditDistances ⟨1/2, 1, 3/2⟩ (some (2 : Int)) true false true (-1) [7, 7, 2, 9] [7, 2, 2]
    = [3, 2, -1] := by decide +kernel
-- C01_independent / C01_prefix_independent: different padded sizes and garbage, same cut sequences
example := C01_independent ⟨1/2, 1, 3/2⟩ (some (2 : Int)) true true [7, 7, 2, 9] [7, 2, 2] [7, 7, 2] [7, 2, 5, 5, 2]
  (by decide) (by decide)
example := C01_prefix_independent ⟨1/2, 1, 3/2⟩ (some (2 : Int)) true true false (-1)
  [7, 7, 2, 9] [7, 2, 2] [7, 7, 2] [7, 2, 5, 5, 2] (by decide) (by decide) 3 (by decide) (by decide)
example := C01_independent_garbage ⟨1/2, 1, 3/2⟩ (2 : Int) true false [7, 7] [7] [9] [2] [] [5, 5, 2] (by decide) (by decide)
example := C01_independent_fill ⟨1/2, 1, 3/2⟩ (2 : Int) true [7, 7] [7] [9] [2] (by decide) (by decide)
-- C01_uniform_scale with k = 2
example := C01_uniform_scale 2 (by norm_num) [(7 : Int), 7, 2] [7, 2]
-- C01_delmat_entries / C01_delmat_inf on the row v = [3, 1, 2], d = 2, line 2 (one +inf-free line) and line 0
-- (two +inf entries)
example := C01_delmat_entries 2 3 0 2 (by decide) (by decide)
example := C01_delmat_inf 2 [3, 1, 2] 0 (by decide)
example : delMatEntry 2 [3, 1, 2] 2 = 2 ∧ delMatEntry 2 [5, 1, 9] 2 = 3 := by decide +kernel
-- C01_delmat_inf_batch: a 3 x 2 block
example := C01_delmat_inf_batch 2 2 1 (by decide) [[(3 : Rat), 5], [1, 1], [2, 9]] (by simp [Wide]) 2 (by decide)
-- C01_batch_step: R = 2, N = 2, iteration 2; column 0 is live (hyp_len 2), column 1 frozen (hyp_len 1)
example := C01_batch_step ⟨1/2, 1, 3/2⟩ 2 1 (by decide) [[(7 : Int), 5], [7, 2]] [2, 1] false 2 [2, 9]
  [[1/2, 1/2], [1, 3/2], [2, 5/2]] (by simp [Wide]) rfl rfl (by simp [Wide]) rfl 0
example : stepB ⟨1/2, 1, 3/2⟩ 2 [[(7 : Int), 5], [7, 2]] [2, 1] false 2 [2, 9] [[1/2, 1/2], [1, 3/2], [2, 5/2]]
    = [[1, 1/2], [3/2, 3/2], [5/2, 5/2]] := by decide +kernel
-- C01_batch_lens
example := C01_batch_lens (some (2 : Int)) true 2 1 (by decide) [[7, 5], [2, 9], [2, 9]] (by simp [Wide]) 0

/-- The batch instance with all four hypotheses of the `C01_batch_*` theorems. -/
def audRef : Tensor2 Int := ⟨2, 3, [[7, 7, 2], [5, 2, 9]]⟩
def audHyp : Tensor2 Int := ⟨2, 2, [[7, 2], [2, 2]]⟩
theorem audRef_wf : audRef.WF := ⟨rfl, by simp [audRef, Wide]⟩
theorem audHyp_wf : audHyp.WF := ⟨rfl, by simp [audHyp, Wide]⟩

example := C01_batch_eq ⟨1/2, 1, 3/2⟩ (some (2 : Int)) false true true audRef audHyp 0 audRef_wf audHyp_wf 2 rfl rfl
example := C01_batch_pair ⟨1/2, 1, 3/2⟩ (some (2 : Int)) false true audRef audHyp 0 audRef_wf audHyp_wf 2 rfl rfl
example := C01_batch_norm ⟨1/2, 1, 3/2⟩ (some (2 : Int)) false true audRef audHyp 0 audRef_wf audHyp_wf 2 rfl rfl
example : editDistanceT ⟨1/2, 1, 3/2⟩ (some (2 : Int)) false true true audRef audHyp 0 = .ok [1/2, 1] := by
  decide +kernel
-- the inner hypothesis of C01_batch_norm (non-empty cut reference) holds for both pairs
example : cut (some (2 : Int)) false (seqOf true audRef 0 0) ≠ [] ∧ cut (some (2 : Int)) false (seqOf true audRef 1 0) ≠ [] := by
  decide
-- C01_batch_independent: pair 1 of the batch-first batch and pair 0 of a column-major batch of another shape
example := C01_batch_independent ⟨1/2, 1, 3/2⟩ (some (2 : Int)) false true true false
  audRef audHyp ⟨2, 1, [[5], [2]]⟩ ⟨3, 1, [[2], [7], [7]]⟩ 0 audRef_wf audHyp_wf
  ⟨rfl, by simp [Wide]⟩ ⟨rfl, by simp [Wide]⟩ 2 1 rfl rfl rfl rfl 1 0 (by decide) (by decide) (by decide) (by decide)
-- C01_batch_prefix / C01_batch_prefix_eq, and the table itself (padding in both lines)
example := C01_batch_prefix ⟨1/2, 1, 3/2⟩ (some (2 : Int)) false true false (-1) audRef audHyp 0 audRef_wf audHyp_wf 2 rfl rfl
example := C01_batch_prefix_eq ⟨1/2, 1, 3/2⟩ (some (2 : Int)) false true true true (-1) audRef audHyp 0 audRef_wf audHyp_wf 2 rfl rfl
example : (prefixEditDistancesT ⟨1/2, 1, 3/2⟩ (some (2 : Int)) false false true false (-1) audRef audHyp 0).toOption.map (·.rows)
    = some [[2, 1, -1], [1, -1, -1]] := by decide +kernel
-- C01_batch_mismatch: both sides of the iff on a concrete call
example : editDistanceT unitCosts (some (2 : Int)) false false false
    ⟨3, 2, [[1, 1], [1, 1], [1, 1]]⟩ ⟨3, 3, [[1, 1, 1], [1, 1, 1], [1, 1, 1]]⟩ 0 = .error "RuntimeError" :=
  (C01_batch_mismatch unitCosts (some (2 : Int)) false false false false 0 _ _ 0).1.mpr (by decide)
-- C01_lens_ties / C01_batch_lens_ties applied (the hypotheses about the reported indices hold)
example := C01_lens_ties (2 : Int) [7, 7, 2, 9, 2] 2 (fun _ => ⟨by decide, by decide⟩)
example := C01_lens_ties (2 : Int) [7, 7, 5, 9] 3 (fun _ => ⟨by decide, by decide⟩)
example := C01_batch_lens_ties (2 : Int) 2 [[7, 5], [2, 9], [2, 9]] (by simp [Wide]) [1, 2]
  (fun _ n hn => by
    have : n = 0 ∨ n = 1 := by omega
    rcases this with rfl | rfl
    · exact ⟨by decide, by decide⟩
    · exact ⟨by decide, by decide⟩)
-- C01_oracle_prefix applied
example := (C01_oracle_prefix ⟨1/2, 1, 3/2⟩ [(7 : Int), 7, 2] [7, 2]).2 1 (by decide)
-- (audit F) the three remaining theorems with a hypothesis that had no instance of their own
example := C01_cut_eos (2 : Int) true [7, 7] [9, 2] (by decide)
example := C01_cut_no_eos (2 : Int) true [7, 7, 5, 9] (by decide)
example := C01_lens_ties_nonvacuous (2 : Int) [7, 7, 5, 9] (by decide)

/-! ## The module layer (third improvement round): `EditDistance` / `PrefixEditDistances` as objects

`Model/StringMatchModule.lean`: the object is the record of its public attributes, `module.attr = v` replaces
one field, `forward` is the functional on the fields as they are AT THE TIME OF THE CALL and does not change
the object. The theorems below say what a module that has been re-tuned after construction computes - in
terms of the values written last - and compose with the distance theorems above. (What ties this model to
`_string.py::EditDistance.forward` is the correspondence: the harness constructs modules with other values,
calls them, reassigns the public attributes and calls again; the driver runs this model on the same history.) -/

/-- **C01_module_current**: after ANY sequence of assignments the object is exactly the object that a fresh
construction with the last-written values (construction-time values where nothing was written) gives. -/
theorem C01_module_current (m : SMModule α) (as : List (Assign α)) : m.assignAll as = m.current as :=
  assignAll_eq_current m as

/-- **C01_module_assign_all**: assigning all ten public attributes to any existing object, in any order that
lists each once (here: the constructor's order), gives the object constructed with those values: nothing of
the old object survives. -/
theorem C01_module_assign_all (m v : SMModule α) :
    m.assignAll [.eos v.eos, .includeEos v.includeEos, .norm v.norm, .batchFirst v.batchFirst,
      .insCost v.insCost, .delCost v.delCost, .subCost v.subCost, .padding v.padding,
      .excludeLast v.excludeLast, .warn v.warn] = v := by
  cases v; rfl

/-- **C01_module_fresh**: assignment after construction ≡ construction with that value, for what `forward`
computes: two objects with arbitrary histories whose last-written values agree on the attributes `forward`
reads return the same result on every batch - `EditDistance` (`warn`, and the attributes it does not have, are
free) and `PrefixEditDistances` (`warn` is free). In particular (`as₂ = []`) a re-tuned object and a freshly
constructed one. -/
theorem C01_module_fresh (m₁ m₂ : SMModule α) (as₁ as₂ : List (Assign α)) (ref hyp : Tensor2 α) (dα : α)
    (h1 : lastWrite Assign.eos? as₁ m₁.eos = lastWrite Assign.eos? as₂ m₂.eos)
    (h2 : lastWrite Assign.includeEos? as₁ m₁.includeEos = lastWrite Assign.includeEos? as₂ m₂.includeEos)
    (h3 : lastWrite Assign.norm? as₁ m₁.norm = lastWrite Assign.norm? as₂ m₂.norm)
    (h4 : lastWrite Assign.batchFirst? as₁ m₁.batchFirst = lastWrite Assign.batchFirst? as₂ m₂.batchFirst)
    (h5 : lastWrite Assign.insCost? as₁ m₁.insCost = lastWrite Assign.insCost? as₂ m₂.insCost)
    (h6 : lastWrite Assign.delCost? as₁ m₁.delCost = lastWrite Assign.delCost? as₂ m₂.delCost)
    (h7 : lastWrite Assign.subCost? as₁ m₁.subCost = lastWrite Assign.subCost? as₂ m₂.subCost) :
    (m₁.assignAll as₁).forwardED ref hyp dα = (m₂.assignAll as₂).forwardED ref hyp dα
    ∧ (lastWrite Assign.padding? as₁ m₁.padding = lastWrite Assign.padding? as₂ m₂.padding →
       lastWrite Assign.excludeLast? as₁ m₁.excludeLast = lastWrite Assign.excludeLast? as₂ m₂.excludeLast →
       (m₁.assignAll as₁).forwardPED ref hyp dα = (m₂.assignAll as₂).forwardPED ref hyp dα) := by
  rw [assignAll_eq_current, assignAll_eq_current]
  refine ⟨?_, fun h8 h9 => ?_⟩
  · simp only [SMModule.forwardED, SMModule.current, SMModule.costs, h1, h2, h3, h4, h5, h6, h7]
  · simp only [SMModule.forwardPED, SMModule.current, SMModule.costs, h1, h2, h3, h4, h5, h6, h7, h8, h9]

/-- **C01_module_pair**: what a re-tuned `EditDistance` object reports. For any construction-time values `m₀`
and any sequence of assignments, on every well-shaped batch (any `N`, `R`, `H`; the layout the object's
CURRENT `batch_first` says) the call succeeds and pair `n` is the weighted edit distance - attained by a
script, below every script - of ITS sequences cut at the CURRENT `eos` / `include_eos`, under the cost
triple WRITTEN LAST (not the one the object was constructed with). (`norm` currently off; `C01_module_norm`
for on.) -/
theorem C01_module_pair (m₀ : SMModule α) (as : List (Assign α)) (ref hyp : Tensor2 α) (dα : α)
    (hr : ref.WF) (hh : hyp.WF) (N : Nat)
    (hN : batchSize (lastWrite Assign.batchFirst? as m₀.batchFirst) ref = N)
    (hN' : batchSize (lastWrite Assign.batchFirst? as m₀.batchFirst) hyp = N)
    (hnorm : lastWrite Assign.norm? as m₀.norm = false) :
    ∃ out, (m₀.assignAll as).forwardED ref hyp dα = .ok out ∧ out.length = N ∧
      ∀ n, n < N → ∃ v, out[n]? = some v ∧
        IsLevDist ⟨lastWrite Assign.insCost? as m₀.insCost, lastWrite Assign.delCost? as m₀.delCost,
                   lastWrite Assign.subCost? as m₀.subCost⟩
          (cut (lastWrite Assign.eos? as m₀.eos) (lastWrite Assign.includeEos? as m₀.includeEos)
            (seqOf (lastWrite Assign.batchFirst? as m₀.batchFirst) ref n dα))
          (cut (lastWrite Assign.eos? as m₀.eos) (lastWrite Assign.includeEos? as m₀.includeEos)
            (seqOf (lastWrite Assign.batchFirst? as m₀.batchFirst) hyp n dα)) v := by
  rw [assignAll_eq_current]
  simp only [SMModule.forwardED, SMModule.current, SMModule.costs, hnorm]
  exact C01_batch_pair _ _ _ _ ref hyp dα hr hh N hN hN'

/-- **C01_module_norm**: with `norm` currently on, pair `n` is that distance divided by the length of ITS cut
reference (cut at the current `eos` / `include_eos`). -/
theorem C01_module_norm (m₀ : SMModule α) (as : List (Assign α)) (ref hyp : Tensor2 α) (dα : α)
    (hr : ref.WF) (hh : hyp.WF) (N : Nat)
    (hN : batchSize (lastWrite Assign.batchFirst? as m₀.batchFirst) ref = N)
    (hN' : batchSize (lastWrite Assign.batchFirst? as m₀.batchFirst) hyp = N)
    (hnorm : lastWrite Assign.norm? as m₀.norm = true) :
    ∃ out, (m₀.assignAll as).forwardED ref hyp dα = .ok out ∧
      ∀ n, n < N →
        cut (lastWrite Assign.eos? as m₀.eos) (lastWrite Assign.includeEos? as m₀.includeEos)
            (seqOf (lastWrite Assign.batchFirst? as m₀.batchFirst) ref n dα) ≠ [] →
        out[n]? = some (lev ⟨lastWrite Assign.insCost? as m₀.insCost, lastWrite Assign.delCost? as m₀.delCost,
                             lastWrite Assign.subCost? as m₀.subCost⟩
          (cut (lastWrite Assign.eos? as m₀.eos) (lastWrite Assign.includeEos? as m₀.includeEos)
            (seqOf (lastWrite Assign.batchFirst? as m₀.batchFirst) ref n dα))
          (cut (lastWrite Assign.eos? as m₀.eos) (lastWrite Assign.includeEos? as m₀.includeEos)
            (seqOf (lastWrite Assign.batchFirst? as m₀.batchFirst) hyp n dα))
          / ((cut (lastWrite Assign.eos? as m₀.eos) (lastWrite Assign.includeEos? as m₀.includeEos)
            (seqOf (lastWrite Assign.batchFirst? as m₀.batchFirst) ref n dα)).length : Rat)) := by
  rw [assignAll_eq_current]
  simp only [SMModule.forwardED, SMModule.current, SMModule.costs, hnorm]
  exact C01_batch_norm _ _ _ _ ref hyp dα hr hh N hN hN'

/-- **C01_module_prefix**: what a re-tuned `PrefixEditDistances` object reports (`norm` currently off): the
table has the shape the CURRENT `batch_first` / `exclude_last` say, entry `k` of pair `n`'s line is the
weighted distance between its cut reference and the length-`k` prefix of its cut hypothesis under the costs
written last, and the padding value WRITTEN LAST beyond the hypothesis's own length. -/
theorem C01_module_prefix (m₀ : SMModule α) (as : List (Assign α)) (ref hyp : Tensor2 α) (dα : α)
    (hr : ref.WF) (hh : hyp.WF) (N : Nat)
    (hN : batchSize (lastWrite Assign.batchFirst? as m₀.batchFirst) ref = N)
    (hN' : batchSize (lastWrite Assign.batchFirst? as m₀.batchFirst) hyp = N)
    (hnorm : lastWrite Assign.norm? as m₀.norm = false) :
    let bf := lastWrite Assign.batchFirst? as m₀.batchFirst
    let excl := lastWrite Assign.excludeLast? as m₀.excludeLast
    let eos := lastWrite Assign.eos? as m₀.eos
    let inc := lastWrite Assign.includeEos? as m₀.includeEos
    let c : Costs := ⟨lastWrite Assign.insCost? as m₀.insCost, lastWrite Assign.delCost? as m₀.delCost,
                      lastWrite Assign.subCost? as m₀.subCost⟩
    ∃ T, (m₀.assignAll as).forwardPED ref hyp dα = .ok T
      ∧ batchSize bf T = N
      ∧ (if bf then T.d1 else T.d0) = (if bf then hyp.d1 else hyp.d0) + (if excl then 0 else 1)
      ∧ ∀ n, n < N → ∀ k,
          (k < (cut eos inc (seqOf bf hyp n dα)).length + (if excl then 0 else 1) →
            (seqOf bf T n 0)[k]?
              = some (lev c (cut eos inc (seqOf bf ref n dα)) ((cut eos inc (seqOf bf hyp n dα)).take k)))
          ∧ ((cut eos inc (seqOf bf hyp n dα)).length + (if excl then 0 else 1) ≤ k →
              k < (seqOf bf hyp n dα).length + (if excl then 0 else 1) →
            (seqOf bf T n 0)[k]? = some ((lastWrite Assign.padding? as m₀.padding : Int) : Rat)) := by
  intro bf excl eos inc c
  rw [assignAll_eq_current]
  simp only [SMModule.forwardPED, SMModule.current, SMModule.costs, hnorm]
  exact C01_batch_prefix c eos inc bf excl _ ref hyp dα hr hh N hN hN'

/-- **C01_module_session**: a program that uses ONE module object - assignments and calls interleaved in
any way, `forward` any function of the object's attributes and the batch. Calls never change the object (at
the end it is what the assignments alone make it); there is one result per call; and the result of a call is
`forward` of the object as the assignments BEFORE that call left it - it does not depend on earlier calls
(their batches, their shapes), on later statements, or on overwritten values. -/
theorem C01_module_session {β : Type} (fwd : SMModule α → Tensor2 α → Tensor2 α → β) (m : SMModule α) :
    (∀ es : List (Event α), (runSession fwd m es).1 = m.current (assignsOf es)
        ∧ (runSession fwd m es).2.length = callCount es)
    ∧ ∀ (pre post : List (Event α)) (r h : Tensor2 α),
        (runSession fwd m (pre ++ .call r h :: post)).2[callCount pre]?
          = some (fwd (m.current (assignsOf pre)) r h) := by
  refine ⟨fun es => ⟨?_, runSession_length fwd m es⟩, fun pre post r h => ?_⟩
  · rw [runSession_fst, assignAll_eq_current]
  · rw [runSession_call, assignAll_eq_current]

/-- **C01_module_session_pair**: the two composed - in any program using one `EditDistance` object, the
number reported for pair `n` by the call that follows the statements `pre` is the weighted edit distance of
that pair's cut sequences under the costs / eos / include_eos / batch_first written last BEFORE the call
(`norm` off at that moment). -/
theorem C01_module_session_pair (m₀ : SMModule α) (pre post : List (Event α)) (ref hyp : Tensor2 α) (dα : α)
    (hr : ref.WF) (hh : hyp.WF) (N : Nat)
    (hN : batchSize (lastWrite Assign.batchFirst? (assignsOf pre) m₀.batchFirst) ref = N)
    (hN' : batchSize (lastWrite Assign.batchFirst? (assignsOf pre) m₀.batchFirst) hyp = N)
    (hnorm : lastWrite Assign.norm? (assignsOf pre) m₀.norm = false) :
    ∃ out, (runSession (fun m r h => m.forwardED r h dα) m₀ (pre ++ .call ref hyp :: post)).2[callCount pre]?
        = some (.ok out) ∧ out.length = N ∧
      ∀ n, n < N → ∃ v, out[n]? = some v ∧
        IsLevDist ⟨lastWrite Assign.insCost? (assignsOf pre) m₀.insCost,
                   lastWrite Assign.delCost? (assignsOf pre) m₀.delCost,
                   lastWrite Assign.subCost? (assignsOf pre) m₀.subCost⟩
          (cut (lastWrite Assign.eos? (assignsOf pre) m₀.eos) (lastWrite Assign.includeEos? (assignsOf pre) m₀.includeEos)
            (seqOf (lastWrite Assign.batchFirst? (assignsOf pre) m₀.batchFirst) ref n dα))
          (cut (lastWrite Assign.eos? (assignsOf pre) m₀.eos) (lastWrite Assign.includeEos? (assignsOf pre) m₀.includeEos)
            (seqOf (lastWrite Assign.batchFirst? (assignsOf pre) m₀.batchFirst) hyp n dα)) v := by
  obtain ⟨out, ho, hl, hp⟩ := C01_module_pair m₀ (assignsOf pre) ref hyp dα hr hh N hN hN' hnorm
  refine ⟨out, ?_, hl, hp⟩
  rw [runSession_call, ho]

/-- **C01_module_last_write**: what "written last" means, spelled out: a value written into an attribute and
followed only by writes to OTHER attributes is the value it holds; an attribute never written holds its
construction-time value. -/
theorem C01_module_last_write {β γ : Type} (sel : γ → Option β) (as bs : List γ) (a : γ) (v d : β)
    (ha : sel a = some v) (h : ∀ b ∈ bs, sel b = none) :
    lastWrite sel (as ++ a :: bs) d = v ∧ lastWrite sel bs d = d :=
  ⟨lastWrite_last sel as bs a v d ha h, lastWrite_none sel bs d h⟩

/-! ### Non-vacuity of the module theorems: an object constructed with the defaults, called, re-tuned
(costs, eos, batch_first), called again -/

/-- `m = EditDistance()`; then `m.ins_cost, m.del_cost, m.sub_cost = 1/2, 1, 3/2; m.eos = 2; m.batch_first = True`. -/
def audAssigns : List (Assign Int) :=
  [.insCost (1/2), .delCost 1, .warn false, .subCost (3/2), .eos (some 2), .delCost 1, .batchFirst true]

example : (SMModule.newED (α := Int)).assignAll audAssigns
    = SMModule.newED (some 2) false false true (1/2) 1 (3/2) false := by decide +kernel
example := C01_module_current (SMModule.newED (α := Int)) audAssigns
example := C01_module_assign_all (SMModule.newPED (α := Int)) (SMModule.newPED (some 2) false true true (1/2) 1 (3/2) 7 true false)
example := (C01_module_fresh (SMModule.newED (α := Int)) (SMModule.newED (some 2) false false true (1/2) 1 (3/2) true)
  audAssigns [] audRef audHyp 0 (by decide +kernel) (by decide +kernel) (by decide +kernel) (by decide +kernel)
  (by decide +kernel) (by decide +kernel) (by decide +kernel)).1
-- (audit F) the `PrefixEditDistances` conjunct of C01_module_fresh with ALL nine hypotheses: a re-tuned object
-- (defaults, then costs / eos / layout / padding / include_eos reassigned) against one constructed with those
-- values (and another `warn`); the last-written values differ from the construction-time ones in 7 attributes
example := (C01_module_fresh (SMModule.newPED (α := Int))
  (SMModule.newPED (some 2) false false true (1/2) 1 (3/2) (-1) false true)
  (audAssigns ++ [.padding (-1), .includeEos false]) [] audRef audHyp 0 (by decide +kernel) (by decide +kernel)
  (by decide +kernel) (by decide +kernel) (by decide +kernel) (by decide +kernel) (by decide +kernel)).2
  (by decide +kernel) (by decide +kernel)
example : (SMModule.newPED (α := Int)).assignAll (audAssigns ++ [.padding (-1), .includeEos false])
    ≠ SMModule.newPED (some 2) false false true (1/2) 1 (3/2) (-1) false true := by decide +kernel
example := C01_module_pair (SMModule.newED (α := Int)) audAssigns audRef audHyp 0 audRef_wf audHyp_wf 2
  (by decide +kernel) (by decide +kernel) (by decide +kernel)
example := C01_module_norm (SMModule.newED (α := Int)) (audAssigns ++ [.norm true]) audRef audHyp 0 audRef_wf audHyp_wf 2
  (by decide +kernel) (by decide +kernel) (by decide +kernel)
example := C01_module_prefix (SMModule.newPED (α := Int)) (audAssigns ++ [.padding (-1), .includeEos false])
  audRef audHyp 0 audRef_wf audHyp_wf 2 (by decide +kernel) (by decide +kernel) (by decide +kernel)
-- the re-tuned object computes the distances under the NEW costs / eos / layout ([1, 1]; [1/2, 1] once `norm`
-- is switched on as well), not what it computed before the assignments (unit costs, no eos, column-major: a
-- batch-size error on this batch)
example : ((SMModule.newED (α := Int)).assignAll audAssigns).forwardED audRef audHyp 0 = .ok [1, 1] := by
  decide +kernel
example : ((SMModule.newED (α := Int)).assignAll (audAssigns ++ [.norm true])).forwardED audRef audHyp 0
    = .ok [1/2, 1] := by decide +kernel
example : (((SMModule.newPED (α := Int)).assignAll (audAssigns ++ [.padding (-1), .includeEos false])).forwardPED
    audRef audHyp 0).toOption.map (·.rows) = some [[2, 1, -1], [1, -1, -1]] := by decide +kernel
example : (SMModule.newED (α := Int)).forwardED audRef audHyp 0 = .error "RuntimeError" := by decide +kernel
-- a program: call, re-tune, call, re-tune one cost again, call: three results, each under the costs of ITS moment
example : (runSession (fun m r h => m.forwardED r h 0) (SMModule.newED (α := Int) (batchFirst := true))
      ([.call audRef audHyp] ++ audAssigns.map .assign ++ [.call audRef audHyp, .assign (.delCost 2), .call audRef audHyp])).2
    = [.ok [1, 2], .ok [1, 1], .ok [2, 2]] := by decide +kernel
example := (C01_module_session (fun m r h => m.forwardED r h (0 : Int)) (SMModule.newED (α := Int))).2
  (audAssigns.map .assign) [.assign (.subCost 1)] audRef audHyp
example := C01_module_session_pair (SMModule.newED (α := Int)) (.call audRef audRef :: audAssigns.map .assign)
  [.assign (.subCost 1)] audRef audHyp 0 audRef_wf audHyp_wf 2 (by decide +kernel) (by decide +kernel) (by decide +kernel)
example := C01_module_last_write Assign.delCost? (audAssigns.take 5) (audAssigns.drop 6) (.delCost (1 : Rat)) 1 7
  rfl (by decide)

end PdtVerif.StringMatch
