import PdtVerif.Lemmas.DataDir
import PdtVerif.Lemmas.DataDirInfo
import PdtVerif.Lemmas.DataDirDiscover
/-!
# C12 — validation accepts exactly well-formed directories; fixes stick

Property theorems only (helper lemmas: `Lemmas/DataDir.lean`; model: `Model/DataDir.lean`;
spec: `Spec/WellFormed.lean`). All statements are for every directory (any number of
utterances, any tensor contents, any combination of defects) and every tolerance.

Reading guide: `validate fix d = .ok d'` — `validate_spect_data_set(data_set, fix)` returned
normally and the directory now holds `d'`; `WellFormed = Documented ∧ TokensNonneg`;
`repair fix d` — the five documented repairs applied wherever they apply, nothing else.
-/
namespace PdtVerif.DataDir

/-- **Master statement.** For every tolerance (or none): the call returns normally exactly when
the directory *with the documented repairs applied* is well-formed, and then that repaired
directory is what is on disk. -/
theorem C12_validate_iff (fix : Option Nat) (d d' : Dir) :
    validate fix d = .ok d' ↔ d' = repair fix d ∧ WellFormed d' := by
  unfold validate
  constructor
  · intro h
    split at h
    · rename_i d1 hrun
      cases h
      obtain ⟨h1, h2⟩ := (run_ok _ _ _ _).1 hrun
      exact ⟨h1, (chain_init_iff _).1 h2⟩
    · cases h
  · rintro ⟨rfl, hwf⟩
    have := (run_ok fix St.init d _).2 ⟨rfl, (chain_init_iff _).2 hwf⟩
    unfold repair
    rw [this]

/-- **C12_iff.** Strict validation passes (and leaves the directory as it is) if and only if the
directory meets the documented conditions and holds no negative token id. -/
theorem C12_iff (d : Dir) : validate none d = .ok d ↔ WellFormed d := by
  rw [C12_validate_iff, repair_none]
  exact ⟨fun h => h.2, fun h => ⟨rfl, h⟩⟩

/-- Strict validation never changes the directory, also not when it is accepted as some `d'`. -/
theorem C12_strict_readonly (d d' : Dir) (h : validate none d = .ok d') : d' = d := by
  have := ((C12_validate_iff _ _ _).1 h).1
  rwa [repair_none] at this

/-- Strict validation never changes the directory when it raises either. -/
theorem C12_strict_readonly_disk (d : Dir) : diskAfter none d = d := by
  unfold diskAfter
  suffices h : ∀ st, (run none st d).1 = d from h _
  induction d with
  | nil => intro st; rfl
  | cons u us ih =>
    intro st
    unfold run
    cases hs : stepUtt none st u with
    | mk u1 res =>
      have hu : u1 = u := by
        -- every block returns its input under `fix = none`; easiest through the characterisation
        cases res with
        | ok st1 =>
          have := ((stepUtt_ok _ _ _ _ _).1 hs).1
          rw [this, repairUtt_none]
        | error e =>
          obtain ⟨f, ali, ref⟩ := u
          unfold stepUtt at hs
          dsimp only at hs
          split at hs
          · cases hs; rfl
          · rename_i f' st1 hf
            have hf1 := ((checkFeat_ok _ _ _ _ _).1 hf).1
            have hf' : f' = f := by rw [hf1]; simp [repairDev]
            subst hf'
            cases ali with
            | none =>
              dsimp only at hs
              cases ref with
              | none => dsimp only at hs; cases hs
              | some r =>
                dsimp only at hs
                split at hs
                · cases hs; rfl
                · rename_i r' i2 hr
                  have hr1 := ((checkRef_ok _ _ _ _ _ _).1 hr).1
                  have : r' = r := by
                    rw [hr1]
                    have := repairUtt_none ⟨f', none, some r⟩
                    simp only [repairUtt, Option.map_some, Utt.mk.injEq, Option.some.injEq] at this
                    exact this.2.2
                  subst this
                  split at hs
                  · cases hs; rfl
                  · cases hs
            | some a =>
              dsimp only at hs
              cases ha : checkAli none f'.T a with
              | error e' => rw [ha] at hs; simp only [Except.map] at hs; cases hs; rfl
              | ok a' =>
                rw [ha] at hs
                simp only [Except.map] at hs
                have ha1 := ((checkAli_ok _ _ _ _).1 ha).1
                have haa : a' = a := by
                  rw [ha1]
                  have := repairUtt_none ⟨f', some a, none⟩
                  simp only [repairUtt, Option.map_some, Utt.mk.injEq, Option.some.injEq] at this
                  exact this.2.1
                subst haa
                cases ref with
                | none => dsimp only at hs; cases hs
                | some r =>
                  dsimp only at hs
                  split at hs
                  · cases hs; rfl
                  · rename_i r' i2 hr
                    have hr1 := ((checkRef_ok _ _ _ _ _ _).1 hr).1
                    have : r' = r := by
                      rw [hr1]
                      have := repairUtt_none ⟨f', none, some r⟩
                      simp only [repairUtt, Option.map_some, Utt.mk.injEq, Option.some.injEq] at this
                      exact this.2.2
                    subst this
                    split at hs
                    · cases hs; rfl
                    · cases hs
      subst hu
      cases res with
      | error e => rfl
      | ok st1 => simp only; rw [ih]

/-- Over the property's domain (token ids are not negative) acceptance is exactly the docstring. -/
theorem C12_iff_documented (d : Dir) (htok : TokensNonneg d) :
    validate none d = .ok d ↔ Documented d := by
  rw [C12_iff]
  exact ⟨fun h => h.1, fun h => ⟨h, htok⟩⟩

/-- The extra condition of the code, stated on its own: a directory that meets every documented
condition is rejected exactly when it holds a negative token id. -/
theorem C12_negative_token (d : Dir) (hdoc : Documented d) :
    (∃ e, validate none d = .error e) ↔ ¬ TokensNonneg d := by
  constructor
  · rintro ⟨e, he⟩ htok
    have := (C12_iff d).2 ⟨hdoc, htok⟩
    rw [this] at he; cases he
  · intro htok
    cases hv : validate none d with
    | error e => exact ⟨e, rfl⟩
    | ok d' =>
      have hd := C12_strict_readonly _ _ hv
      subst hd
      exact absurd ((C12_iff _).1 hv).2 htok

/-- **C12_fix.** An accepted run with tolerance `k` leaves a well-formed directory, on which a
strict validation passes and a second run with the same tolerance changes nothing (fixes stick),
and what it left differs from the original exactly by the documented repairs. -/
theorem C12_fix (k : Nat) (d d' : Dir) (h : validate (some k) d = .ok d') :
    WellFormed d' ∧ validate none d' = .ok d' ∧ validate (some k) d' = .ok d'
      ∧ d' = repair (some k) d := by
  obtain ⟨h1, h2⟩ := (C12_validate_iff _ _ _).1 h
  refine ⟨h2, (C12_iff _).2 h2, ?_, h1⟩
  exact (C12_validate_iff _ _ _).2 ⟨(repair_of_wf _ _ h2).symm, h2⟩

/-- Fixes stick for any later tolerance as well, and for any number of further runs. -/
theorem C12_fix_stable (fix fix' : Option Nat) (d d' : Dir) (h : validate fix d = .ok d') :
    validate fix' d' = .ok d' := by
  have h2 := ((C12_validate_iff _ _ _).1 h).2
  exact (C12_validate_iff _ _ _).2 ⟨(repair_of_wf _ _ h2).symm, h2⟩

/-- **Any other defect still raises**: if the documented repairs do not make the directory
well-formed, the run with tolerance `k` raises. -/
theorem C12_fix_raises (fix : Option Nat) (d : Dir) (h : ¬ WellFormed (repair fix d)) :
    ∃ e, validate fix d = .error e := by
  cases hv : validate fix d with
  | error e => exact ⟨e, rfl⟩
  | ok d' =>
    obtain ⟨h1, h2⟩ := (C12_validate_iff _ _ _).1 hv
    rw [h1] at h2
    exact absurd h2 h

/-- … and conversely a run raises only then. -/
theorem C12_fix_accepts (fix : Option Nat) (d : Dir) (h : WellFormed (repair fix d)) :
    validate fix d = .ok (repair fix d) :=
  (C12_validate_iff _ _ _).2 ⟨rfl, h⟩

/-- **Earlier utterances stay repaired when a later one raises; nothing undocumented is ever
written.** After a call that raises, the directory is: the documented repairs applied to every
utterance before the offending one (and these pass), the offending utterance with each of its
three files either untouched or holding its documented repair, everything after it untouched.
`u` really is the offending utterance: the repaired prefix is well-formed, the repaired prefix
followed by the repaired `u` is not (so the split point is unique). -/
theorem C12_fix_disk_after_raise (fix : Option Nat) (d : Dir) (e : Err)
    (h : validate fix d = .error e) :
    ∃ pre u post u', d = pre ++ u :: post
      ∧ diskAfter fix d = repair fix pre ++ u' :: post
      ∧ FileWise fix u u' ∧ WellFormed (repair fix pre)
      ∧ ¬ WellFormed (repair fix (pre ++ [u])) := by
  unfold validate at h
  split at h
  · cases h
  · rename_i d1 e1 hrun
    cases h
    obtain ⟨pre, u, post, u', h1, h2, h3, h4, h5⟩ := run_err_offender _ _ _ _ _ hrun
    refine ⟨pre, u, post, u', h1, ?_, h3, (chain_init_iff _).1 h4, ?_⟩
    · unfold diskAfter repair
      rw [hrun]; exact h2
    · intro hwf
      exact h5 ((chain_init_iff _).2 hwf)

/-- **Nothing undocumented is ever written, whatever the outcome.** After any call — accepted or
raised, any tolerance — the directory holds the same utterances in the same order, and every file of
every utterance is either what it was or its documented repair. (In particular feature content,
token ids, 1-D references and the presence of files never change: `C12_repair_frame`,
`C12_repair_keeps_tokens` say so of the repair.) -/
theorem C12_disk_filewise (fix : Option Nat) (d : Dir) :
    (diskAfter fix d).length = d.length
    ∧ ∀ (i : Nat) (u u' : Utt), d[i]? = some u → (diskAfter fix d)[i]? = some u' → FileWise fix u u' :=
  run_filewise fix St.init d

/-- **A larger tolerance accepts at least as much, with the same result.** -/
theorem C12_fix_monotone (k k' : Nat) (hk : k ≤ k') (d d' : Dir)
    (h : validate (some k) d = .ok d') : validate (some k') d = .ok d' := by
  obtain ⟨h1, h2⟩ := (C12_validate_iff _ _ _).1 h
  apply (C12_validate_iff _ _ _).2
  refine ⟨?_, h2⟩
  rw [h1]
  rw [h1] at h2
  have hall := ((wf_iff _).1 h2).1
  unfold repair at hall ⊢
  apply List.map_congr_left
  intro u hu
  have hok : UttOk (repairUtt (some k) u) := hall _ (List.mem_map.2 ⟨u, hu, rfl⟩)
  obtain ⟨f, ali, ref⟩ := u
  obtain ⟨-, hali, href⟩ := hok
  simp only [repairUtt] at hali href ⊢
  have hT : ({ f with dev := repairDev (some k) f.dev } : Feat).T = f.T := rfl
  rw [hT] at hali href
  congr 1
  · cases ali with
    | none => rfl
    | some a =>
      simp only [Option.map_some, optAll] at hali ⊢
      obtain ⟨-, -, -, h4⟩ := hali
      congr 2
      cases hd : a.data with
      | nd s fl => rfl
      | vec v =>
        rw [hd] at h4
        simp only [repairAliData] at h4 ⊢
        by_cases hc : f.T < v.length ∧ v.length ≤ f.T + k
        · have hc' : f.T < v.length ∧ v.length ≤ f.T + k' := by omega
          rw [if_pos hc, if_pos hc']
        · rw [if_neg hc] at h4 ⊢
          simp only [AliData.lenIs] at h4
          have hc' : ¬ (f.T < v.length ∧ v.length ≤ f.T + k') := by omega
          rw [if_neg hc']
  · cases ref with
    | none => rfl
    | some r =>
      simp only [Option.map_some, optAll] at href ⊢
      obtain ⟨-, -, -, -, h5, -⟩ := href
      congr 2
      cases hd : r.data with
      | d1 t => rfl
      | d2w a b => rfl
      | nd sh => rfl
      | d2 rows =>
        rw [hd] at h5
        simp only [repairRefData, RefData.rows] at h5 ⊢
        congr 1
        apply List.map_congr_left
        intro row hrow
        have hrow' := h5 _ (List.mem_map.2 ⟨row, hrow, rfl⟩)
        obtain ⟨tok, s, e⟩ := row
        simp only [repairRow] at hrow' ⊢
        by_cases c1 : (s < 0 ∧ 0 ≤ e) ∨ (0 ≤ s ∧ e < 0)
        · rw [if_pos c1, if_pos c1]
        · rw [if_neg c1] at hrow'
          rw [if_neg c1, if_neg c1]
          by_cases c2 : 0 ≤ s ∧ s ≤ e ∧ (f.T : Int) < e ∧ e ≤ (f.T : Int) + k ∧ s ≤ (f.T : Int)
          · have c2' : 0 ≤ s ∧ s ≤ e ∧ (f.T : Int) < e ∧ e ≤ (f.T : Int) + k' ∧ s ≤ (f.T : Int) := by
              omega
            rw [if_pos c2, if_pos c2']
          · rw [if_neg c2] at hrow'
            rw [if_neg c2]
            simp only [RowOk] at hrow'
            have c2' : ¬ (0 ≤ s ∧ s ≤ e ∧ (f.T : Int) < e ∧ e ≤ (f.T : Int) + k' ∧ s ≤ (f.T : Int)) := by
              omega
            rw [if_neg c2']

/-- **An overshoot is repaired iff it is ≤ k**, stated on `validate` itself: take any well-formed
directory and append `j > 0` extra frames to the alignment of one utterance. A run with tolerance
`k` restores exactly the well-formed directory when `j ≤ k`, and raises when `j > k`. -/
theorem C12_fix_ali_overshoot (k : Nat) (pre post : Dir) (u : Utt) (v extra : List Int)
    (hali : u.ali = some ⟨.i64, .cpu, .vec v⟩) (hwf : WellFormed (pre ++ u :: post))
    (hextra : extra ≠ []) :
    (extra.length ≤ k →
      validate (some k) (pre ++ { u with ali := some ⟨.i64, .cpu, .vec (v ++ extra)⟩ } :: post)
        = .ok (pre ++ u :: post))
    ∧ (k < extra.length → ∃ e,
      validate (some k) (pre ++ { u with ali := some ⟨.i64, .cpu, .vec (v ++ extra)⟩ } :: post)
        = .error e) := by
  have hall := ((wf_iff _).1 hwf).1
  have hu : UttOk u := hall u (by simp)
  have hT : v.length = u.feat.T := by
    have := hu.2.1
    rw [hali] at this
    exact this.2.2.2
  have hpos : 0 < extra.length := List.length_pos_iff.2 hextra
  have hrep : ∀ w : Utt, repair (some k) (pre ++ w :: post) = pre ++ repairUtt (some k) w :: post := by
    intro w
    unfold repair
    rw [List.map_append, List.map_cons]
    congr 1
    · conv => rhs; rw [← List.map_id pre]
      apply List.map_congr_left
      intro x hx; exact repairUtt_of_ok _ _ (hall x (by simp [hx]))
    · congr 1
      conv => rhs; rw [← List.map_id post]
      apply List.map_congr_left
      intro x hx; exact repairUtt_of_ok _ _ (hall x (by simp [hx]))
  have hu_rep := repairUtt_of_ok (some k) u hu
  obtain ⟨f, ali, ref⟩ := u
  dsimp only at hali hT
  subst hali
  simp only [repairUtt, Utt.mk.injEq] at hu_rep
  constructor
  · intro hk
    apply (C12_validate_iff _ _ _).2
    rw [hrep]
    refine ⟨?_, hwf⟩
    congr 2
    simp only [repairUtt, Option.map_some, Utt.mk.injEq, Option.some.injEq, Ali.mk.injEq]
    refine ⟨hu_rep.1.symm, ⟨rfl, ?_, ?_⟩, hu_rep.2.2.symm⟩
    · simp only [repairDev, Option.isSome_some, if_true]
    · have : f.T < (v ++ extra).length ∧ (v ++ extra).length ≤ f.T + k := by
        rw [List.length_append]; omega
      simp only [repairAliData, if_pos this]
      rw [← hT, List.take_left']
      rfl
  · intro hk
    apply C12_fix_raises
    rw [hrep]
    intro hwf'
    have := ((wf_iff _).1 hwf').1 _ (List.mem_append_right _ List.mem_cons_self)
    have h2 := this.2.1
    simp only [repairUtt, Option.map_some, optAll] at h2
    have hno : ¬ (f.T < (v ++ extra).length ∧ (v ++ extra).length ≤ f.T + k) := by
      rw [List.length_append]; omega
    have h3 := h2.2.2.2
    simp only [repairAliData] at h3
    rw [if_neg hno] at h3
    simp only [AliData.lenIs, List.length_append, Feat.T] at h3 hT
    omega

/-- **A token end is repaired iff it overshoots by ≤ k**, stated on `validate` itself: take any
well-formed directory in which some token of a 2-D reference ends at the last frame `T`, and move that
end `j > 0` frames beyond `T`. A run with tolerance `k` restores exactly the well-formed directory when
`j ≤ k`, and raises when `j > k`. -/
theorem C12_fix_ref_overshoot (k j : Nat) (pre post : Dir) (u : Utt) (r1 r2 : List Row) (tok s : Int)
    (href : u.ref = some ⟨.i64, .cpu, .d2 (r1 ++ ⟨tok, s, (u.feat.T : Int)⟩ :: r2)⟩)
    (hwf : WellFormed (pre ++ u :: post)) (hj : 0 < j) :
    (j ≤ k →
      validate (some k) (pre ++ { u with ref := some ⟨.i64, .cpu,
          .d2 (r1 ++ ⟨tok, s, (u.feat.T : Int) + (j : Int)⟩ :: r2)⟩ } :: post)
        = .ok (pre ++ u :: post))
    ∧ (k < j → ∃ e,
      validate (some k) (pre ++ { u with ref := some ⟨.i64, .cpu,
          .d2 (r1 ++ ⟨tok, s, (u.feat.T : Int) + (j : Int)⟩ :: r2)⟩ } :: post)
        = .error e) := by
  have hall := ((wf_iff _).1 hwf).1
  have hu : UttOk u := hall u (by simp)
  have hrep : ∀ w : Utt, repair (some k) (pre ++ w :: post) = pre ++ repairUtt (some k) w :: post := by
    intro w
    unfold repair
    rw [List.map_append, List.map_cons]
    congr 1
    · conv => rhs; rw [← List.map_id pre]
      apply List.map_congr_left
      intro x hx; exact repairUtt_of_ok _ _ (hall x (by simp [hx]))
    · congr 1
      conv => rhs; rw [← List.map_id post]
      apply List.map_congr_left
      intro x hx; exact repairUtt_of_ok _ _ (hall x (by simp [hx]))
  have hu_rep := repairUtt_of_ok (some k) u hu
  obtain ⟨f, ali, ref⟩ := u
  dsimp only at href
  subst href
  have hrows : ∀ row ∈ r1 ++ (⟨tok, s, (f.T : Int)⟩ : Row) :: r2, RowOk f.T row := by
    have := hu.2.2
    simp only [optAll, RefData.rows] at this
    exact this.2.2.2.2.1
  have hs : 0 ≤ s ∧ s ≤ (f.T : Int) := by
    have := hrows ⟨tok, s, (f.T : Int)⟩ (by simp)
    simp only [RowOk] at this
    omega
  have hn : ¬ ((s < 0 ∧ 0 ≤ (f.T : Int) + (j : Int)) ∨ (0 ≤ s ∧ (f.T : Int) + (j : Int) < 0)) := by omega
  simp only [repairUtt, Utt.mk.injEq] at hu_rep
  constructor
  · intro hk
    apply (C12_validate_iff _ _ _).2
    rw [hrep]
    refine ⟨?_, hwf⟩
    congr 2
    have e1 : r1.map (repairRow (some k) f.T) = r1 := by
      conv => rhs; rw [← List.map_id r1]
      apply List.map_congr_left
      intro x hx; exact repairRow_of_ok _ _ _ (hrows x (by simp [hx]))
    have e2 : r2.map (repairRow (some k) f.T) = r2 := by
      conv => rhs; rw [← List.map_id r2]
      apply List.map_congr_left
      intro x hx; exact repairRow_of_ok _ _ _ (hrows x (by simp [hx]))
    have e3 : repairRow (some k) f.T ⟨tok, s, (f.T : Int) + (j : Int)⟩ = ⟨tok, s, (f.T : Int)⟩ := by
      have hc : 0 ≤ s ∧ s ≤ (f.T : Int) + (j : Int) ∧ (f.T : Int) < (f.T : Int) + (j : Int)
          ∧ (f.T : Int) + (j : Int) ≤ (f.T : Int) + (k : Int) ∧ s ≤ (f.T : Int) := by omega
      simp only [repairRow, if_neg hn, if_pos hc]
    simp only [repairUtt, Option.map_some, Utt.mk.injEq, Option.some.injEq, Ref.mk.injEq]
    refine ⟨hu_rep.1.symm, hu_rep.2.1.symm, ?_, ?_, ?_⟩
    · simp [repairLong, DType.narrowInt]
    · simp [repairDev]
    · simp only [repairRefData, List.map_append, List.map_cons, e1, e2, e3]
  · intro hk
    apply C12_fix_raises
    rw [hrep]
    intro hwf'
    have hok := ((wf_iff _).1 hwf').1 _ (List.mem_append_right _ List.mem_cons_self)
    have h3 := hok.2.2
    simp only [repairUtt, Option.map_some, optAll, repairRefData, RefData.rows] at h3
    have hbad := h3.2.2.2.2.1 (repairRow (some k) f.T ⟨tok, s, (f.T : Int) + (j : Int)⟩)
      (List.mem_map.2 ⟨_, by simp, rfl⟩)
    have hc : ¬ (0 ≤ s ∧ s ≤ (f.T : Int) + (j : Int) ∧ (f.T : Int) < (f.T : Int) + (j : Int)
        ∧ (f.T : Int) + (j : Int) ≤ (f.T : Int) + (k : Int) ∧ s ≤ (f.T : Int)) := by omega
    simp only [repairRow, if_neg hn, if_neg hc, RowOk] at hbad
    simp only [Feat.T] at hbad hs
    omega

/-! ### What the documented repairs are (statements about `repair`, the spec) -/

/-- Repair 5, **iff ≤ k**: an alignment of the wrong length ends up with the right length exactly
when it was too long by at most `k` frames; it is then the first `T` entries. -/
theorem C12_repair_ali (k T : Nat) (v : List Int) :
    ((repairAliData (some k) T (.vec v)).lenIs T ↔ v.length = T ∨ (T < v.length ∧ v.length ≤ T + k))
    ∧ (T < v.length ∧ v.length ≤ T + k → repairAliData (some k) T (.vec v) = .vec (v.take T))
    ∧ (¬ (T < v.length ∧ v.length ≤ T + k) → repairAliData (some k) T (.vec v) = .vec v) := by
  refine ⟨?_, ?_, ?_⟩
  · simp only [repairAliData]
    split
    · rename_i h; simp only [AliData.lenIs, List.length_take]; omega
    · rename_i h; simp only [AliData.lenIs]; omega
  · intro h; simp only [repairAliData, if_pos h]
  · intro h; simp only [repairAliData, if_neg h]

/-- Repair 4, **iff ≤ k**: a token whose boundaries are both present, in order, and whose end lies
beyond `T` becomes valid exactly when the end exceeds `T` by at most `k` and the start is at or
below `T`; then only the end is changed, to `T`. -/
theorem C12_repair_overshoot (k T : Nat) (r : Row) (h0 : 0 ≤ r.s) (h1 : r.s ≤ r.e)
    (h2 : (T : Int) < r.e) :
    (RowOk T (repairRow (some k) T r) ↔ r.e ≤ (T : Int) + k ∧ r.s ≤ (T : Int))
    ∧ (r.e ≤ (T : Int) + k ∧ r.s ≤ (T : Int) → repairRow (some k) T r = { r with e := T }) := by
  obtain ⟨tok, s, e⟩ := r
  dsimp only at h0 h1 h2 ⊢
  have hn : ¬ ((s < 0 ∧ 0 ≤ e) ∨ (0 ≤ s ∧ e < 0)) := by omega
  refine ⟨?_, ?_⟩
  · by_cases hc : 0 ≤ s ∧ s ≤ e ∧ (T : Int) < e ∧ e ≤ (T : Int) + k ∧ s ≤ (T : Int)
    · simp only [repairRow, if_neg hn, if_pos hc, RowOk]; omega
    · simp only [repairRow, if_neg hn, if_neg hc, RowOk]; omega
  · intro h
    have : 0 ≤ s ∧ s ≤ e ∧ (T : Int) < e ∧ e ≤ (T : Int) + k ∧ s ≤ (T : Int) := by omega
    simp only [repairRow, if_neg hn, if_pos this]

/-- Repair 3: a token with exactly one boundary violates condition 6.3.2, loses the boundary it has
under every tolerance (the token id stays), and then meets 6.3.2 for every `T`; without a tolerance
nothing is repaired. -/
theorem C12_repair_half_open (k T : Nat) (r : Row)
    (h : (r.s < 0 ∧ 0 ≤ r.e) ∨ (0 ≤ r.s ∧ r.e < 0)) :
    repairRow (some k) T r = { r with s := -1, e := -1 }
    ∧ RowOk T (repairRow (some k) T r) ∧ ¬ RowOk T r ∧ repairRow none T r = r := by
  refine ⟨by simp only [repairRow, if_pos h], ?_, ?_, rfl⟩
  · simp only [repairRow, if_pos h, RowOk]
    omega
  · simp only [RowOk]
    omega

theorem C12_repair_keeps_tokens (fix : Option Nat) (T : Nat) (rd : RefData) :
    (repairRefData fix T rd).toks = rd.toks := by
  cases rd with
  | d2 rows =>
    simp only [repairRefData, RefData.toks, List.map_map]
    apply List.map_congr_left
    intro r _
    obtain ⟨tok, s, e⟩ := r
    cases fix with
    | none => rfl
    | some k =>
      simp only [Function.comp, repairRow]
      split
      · rfl
      · split <;> rfl
  | d1 t => rfl
  | d2w a b => rfl
  | nd s => rfl

/-- Nothing but the five documented things is ever changed: the feature file keeps everything but
the device tag; alignments and references keep their presence; dtype only narrow-int → long;
1-D references, wrong-width and wrong-ndim tensors keep their content. -/
theorem C12_repair_frame (fix : Option Nat) (u : Utt) :
    (repairUtt fix u).feat.isTensor = u.feat.isTensor
    ∧ (repairUtt fix u).feat.dtype = u.feat.dtype
    ∧ (repairUtt fix u).feat.dims = u.feat.dims
    ∧ ((repairUtt fix u).ali.isSome = u.ali.isSome)
    ∧ ((repairUtt fix u).ref.isSome = u.ref.isSome)
    ∧ (∀ r ∈ u.ref, ∀ t, r.data = .d1 t →
        ∃ r' ∈ (repairUtt fix u).ref, r'.data = .d1 t) := by
  refine ⟨rfl, rfl, rfl, ?_, ?_, ?_⟩
  · simp [repairUtt]
  · simp [repairUtt]
  · intro r hr t ht
    simp only [Option.mem_def] at hr
    simp only [repairUtt, hr, Option.map_some, Option.mem_def, Option.some.injEq, exists_eq_left']
    rw [ht]; rfl

/-! ### sos/eos: reading puts the symbols around every transcript, writing strips them -/

/-- Token ids of a sequence as the data set hands it out. -/
def Seq.toks : Seq → List Int
  | .s1 t => t
  | .s2 rows => rows.map (·.tok)

/-- The transcript does not contain the configured symbols, and they differ from each other. -/
def SymFree (sos eos : Option Int) (toks : List Int) : Prop :=
  (∀ s ∈ sos, ∀ t ∈ toks, t ≠ s) ∧ (∀ e ∈ eos, ∀ t ∈ toks, t ≠ e) ∧ (∀ s ∈ sos, ∀ e ∈ eos, s ≠ e)

/-- **C12_sos_eos (reading) — DEFINITIONAL, not counted as an obligation** (audit): `loadRef` is
written in exactly this form, every conjunct is `rfl`; the statement only documents what the model
says and is tied to the code by the correspondence runs alone (the content about the pinned code is in
`C12_sos_eos_counterexample` / `C12_sos_eos_partial`). What `_load_ref` (as repaired) returns: the start symbol, the stored
transcript, the end symbol — whatever the transcript, **the empty one included**; 2-D symbols carry
the boundaries `(-1, -1)`; `tokens_only` keeps the token column. -/
theorem C12_load_ref (tokensOnly : Bool) (sos eos : Option Int) :
    (∀ t, loadRef tokensOnly sos eos (.s1 t) = .s1 (sos.toList ++ t ++ eos.toList))
    ∧ (∀ rows, loadRef false sos eos (.s2 rows)
        = .s2 ((sos.toList.map fun x => ⟨x, -1, -1⟩) ++ rows ++ (eos.toList.map fun x => ⟨x, -1, -1⟩)))
    ∧ (∀ rows, loadRef true sos eos (.s2 rows)
        = .s1 (sos.toList ++ rows.map (·.tok) ++ eos.toList)) := by
  refine ⟨fun t => rfl, fun rows => rfl, fun rows => rfl⟩

/-- **C12_sos_eos (round trip).** Writing what was read returns the bare transcript, for every
transcript free of the symbols — empty or not, 1-D or 2-D. -/
theorem C12_sos_eos (sos eos : Option Int) (r : Seq) (h : SymFree sos eos r.toks) :
    writeHyp sos eos (loadRef false sos eos r) = r := by
  obtain ⟨h1, h2, h3⟩ := h
  cases r with
  | s1 t =>
    simp only [loadRef, writeHyp]
    congr
    have := strip_wrap id id (fun _ => rfl) sos eos t h1 h2 h3
    simpa using this
  | s2 rows =>
    simp only [loadRef, Bool.false_eq_true, if_false, writeHyp]
    congr
    apply strip_wrap (·.tok) (fun x => ⟨x, -1, -1⟩) (fun _ => rfl) sos eos rows
    · intro s hs a ha; exact h1 s hs a.tok (List.mem_map.2 ⟨a, ha, rfl⟩)
    · intro e he a ha; exact h2 e he a.tok (List.mem_map.2 ⟨a, ha, rfl⟩)
    · exact h3

/-- The same with `tokens_only`: the bare token column comes back. -/
theorem C12_sos_eos_tokens_only (sos eos : Option Int) (r : Seq) (h : SymFree sos eos r.toks) :
    writeHyp sos eos (loadRef true sos eos r) = .s1 r.toks := by
  obtain ⟨h1, h2, h3⟩ := h
  cases r with
  | s1 t =>
    simp only [loadRef, writeHyp, Seq.toks]
    congr
    have := strip_wrap id id (fun _ => rfl) sos eos t h1 h2 h3
    simpa using this
  | s2 rows =>
    simp only [loadRef, if_true, writeHyp, Seq.toks]
    congr
    have := strip_wrap id id (fun _ => rfl) sos eos (rows.map (fun r : Row => r.tok)) h1 h2 h3
    simpa using this

/-- **Pinned defect** (`_load_ref` before `fixes/C12-load-ref-empty.diff`): an empty 1-D transcript
gets no symbols at all, an empty 2-D one raises (`none` = `IndexError`). -/
theorem C12_sos_eos_counterexample :
    loadRefPinned false (some 7) (some 8) (.s1 []) = some (.s1 [])
    ∧ loadRef false (some 7) (some 8) (.s1 []) = .s1 [7, 8]
    ∧ loadRefPinned false (some 7) none (.s2 []) = none
    ∧ loadRefPinned false none (some 8) (.s2 []) = none := by decide

/-- The pinned `_load_ref` and the repaired one agree on every non-empty transcript: the repair
changes the empty case only. -/
theorem C12_sos_eos_partial (tokensOnly : Bool) (sos eos : Option Int) (r : Seq)
    (hne : r.toks ≠ []) :
    loadRefPinned tokensOnly sos eos r = some (loadRef tokensOnly sos eos r) := by
  cases r with
  | s1 t =>
    cases t with
    | nil => exact absurd rfl hne
    | cons x xs => cases sos <;> cases eos <;> simp [loadRefPinned, loadRef]
  | s2 rows =>
    cases rows with
    | nil => exact absurd rfl hne
    | cons x xs =>
      cases tokensOnly <;> cases sos <;> cases eos <;> simp [loadRefPinned, loadRef]

example : SymFree (some 7) (some 8) (Seq.s1 []).toks := by simp [SymFree, Seq.toks]
example : SymFree (some 7) (some 8) (Seq.s2 [⟨1, 0, 2⟩, ⟨3, -1, -1⟩]).toks := by
  simp [SymFree, Seq.toks]
example : writeHyp (some 7) (some 8) (loadRef false (some 7) (some 8) (.s2 [])) = .s2 [] := by decide
/-- the symbol-freeness hypothesis is needed: a transcript containing eos is cut there -/
example : writeHyp none (some 8) (loadRef false none (some 8) (.s1 [1, 8, 2])) = .s1 [1] := by decide

/-! ### The command `get-torch-spect-data-dir-info` -/

/-- **C12_info (validation part).** When the command runs with `--strict` or `--fix k` (any `k`,
**0 included**) and writes a report, `validate_spect_data_set` with the same tolerance accepts the
directory and leaves exactly what the command left: the directory the report was computed from is
well-formed and is the documented repair of the original. -/
theorem C12_info_validates (strict : Bool) (fix : Option Nat) (d d' : Dir) (acc : Acc)
    (hv : strict = true ∨ fix.isSome = true)
    (h : infoCmd strict fix d = (d', .ok acc)) :
    validate fix d = .ok d' ∧ d' = repair fix d ∧ WellFormed d' := by
  have hval : cliValidates strict fix = true := by
    unfold cliValidates
    rcases hv with h | h <;> simp [h]
  unfold infoCmd infoRun at h
  rw [hval] at h
  have hrun := infoLoop_ok _ _ _ _ _ _ h
  have : validate fix d = .ok d' := by unfold validate; rw [hrun]
  exact ⟨this, (C12_validate_iff _ _ _).1 this⟩

/-- **Pinned defect** (`options.strict or options.fix`): `--fix 0` does not validate at all. -/
theorem C12_info_fix_zero_counterexample :
    cliValidatesPinned false (some 0) = false ∧ cliValidates false (some 0) = true := by decide

/-- For every other option combination pinned and repaired agree. -/
theorem C12_info_fix_zero_partial (strict : Bool) (fix : Option Nat) (h : fix ≠ some 0) :
    cliValidatesPinned strict fix = cliValidates strict fix := by
  cases strict <;> cases fix with
  | none => rfl
  | some k =>
    cases k with
    | zero => exact absurd rfl h
    | succ n => rfl

/- `C12_info` proper (report = recount of the stored tensors) is proved at the end of this file. -/

/-! ### Non-vacuity: the hypotheses are satisfiable on concrete directories -/

/-- two utterances, alignment one frame too long and int32, a half-open and an overshooting token -/
def exDir : Dir :=
  [ ⟨⟨true, .f32, .cpu, [3, 2]⟩, some ⟨.i32, .cpu, .vec [0, 0, 1, 1]⟩,
      some ⟨.i64, .cpu, .d2 [⟨4, 0, 4⟩, ⟨2, -1, 2⟩]⟩⟩,
    ⟨⟨true, .f32, .cpu, [0, 2]⟩, some ⟨.i64, .cpu, .vec []⟩, some ⟨.i64, .cpu, .d2 []⟩⟩ ]

def exDirFixed : Dir :=
  [ ⟨⟨true, .f32, .cpu, [3, 2]⟩, some ⟨.i64, .cpu, .vec [0, 0, 1]⟩,
      some ⟨.i64, .cpu, .d2 [⟨4, 0, 3⟩, ⟨2, -1, -1⟩]⟩⟩,
    ⟨⟨true, .f32, .cpu, [0, 2]⟩, some ⟨.i64, .cpu, .vec []⟩, some ⟨.i64, .cpu, .d2 []⟩⟩ ]

example : validate (some 1) exDir = .ok exDirFixed := by decide
example : validate (some 0) exDir = .error .aliLen := by decide
example : validate none exDir = .error .notLong := by decide
example : ¬ WellFormed exDir := by decide
example : WellFormed exDirFixed := by decide
example : validate none exDirFixed = .ok exDirFixed := by decide
example : repair (some 1) exDir = exDirFixed := by decide
/-- earlier files stay repaired when a later one raises: with tolerance 0 the alignment of the first
utterance raises before its reference is looked at; with a defect only in the second utterance the
first utterance is fully repaired on disk. -/
example : diskAfter (some 1) (exDir ++ [⟨⟨true, .f64, .cpu, [1, 2]⟩, none, none⟩])
    = exDirFixed ++ [⟨⟨true, .f64, .cpu, [1, 2]⟩, none, none⟩] := by decide
example : validate (some 1) (exDir ++ [⟨⟨true, .f64, .cpu, [1, 2]⟩, none, none⟩])
    = .error .featType := by decide
/-- a CUDA tensor (tag only): rejected strictly, moved to the CPU with a tolerance -/
example : validate none [⟨⟨true, .f32, .cuda, [1, 1]⟩, none, none⟩] = .error .cuda := by decide
example : validate (some 0) [⟨⟨true, .f32, .cuda, [1, 1]⟩, none, none⟩]
    = .ok [⟨⟨true, .f32, .cpu, [1, 1]⟩, none, none⟩] := by decide
/-- the negative token is found only after the reference was repaired and saved -/
example : diskAfter (some 0) [⟨⟨true, .f32, .cpu, [1, 1]⟩, none, some ⟨.i32, .cpu, .d1 [-1]⟩⟩]
    = [⟨⟨true, .f32, .cpu, [1, 1]⟩, none, some ⟨.i64, .cpu, .d1 [-1]⟩⟩] := by decide


/-! ### The command's report is the recount of the stored tensors -/

/-- **C12_info.** Whenever `get-torch-spect-data-dir-info` (with `--strict`, `--fix k`, or neither)
writes a report, every reported number is the recount of the tensors the command left on disk:
`report` is the one-pass accumulation of `_info_and_validate(info=True)` (nine accumulators threaded
through the loops over utterances, `unique_consecutive` runs and reference tokens), `recount` is the
declarative count (sums, maxima, `List.count`, number of maximal runs, frames per token class). -/
theorem C12_info (strict : Bool) (fix : Option Nat) (d d' : Dir) (acc : Acc)
    (h : infoCmd strict fix d = (d', .ok acc)) : report d.length acc = recount d' :=
  report_eq_recount _ _ _ _ _ h

/-- The same for the lines of the output file (`sorted(info_dict.items())`, zero-padded keys).
**Corollary of `C12_info` by congruence, not counted as an obligation** (audit). -/
theorem C12_info_lines (strict : Bool) (fix : Option Nat) (d d' : Dir) (acc : Acc)
    (h : infoCmd strict fix d = (d', .ok acc)) :
    sortLines (report d.length acc) = sortLines (recount d') := by
  rw [C12_info strict fix d d' acc h]

/-- The output file holds exactly the report's lines (a permutation: nothing lost, nothing added),
ordered by key (`sorted(info_dict.items())`; code-point order of the strings). -/
theorem C12_info_sorted (l : List (String × Int)) :
    (sortLines l).Perm l ∧ (sortLines l).Pairwise (fun a b => a.1 ≤ b.1) :=
  ⟨perm_sortLines l, pairwise_sortLines l⟩

/-- Without `--strict`/`--fix` the command never writes to the data directory, whether it produces a
report or raises. -/
theorem C12_info_plain_readonly (d : Dir) : (infoCmd false none d).1 = d :=
  infoLoop_plain_fst _ _ _ _

/-- With `--strict` / `--fix k`: the report is the recount of the documented repair of the original
directory, and that directory is well-formed. -/
theorem C12_info_of_repaired (strict : Bool) (fix : Option Nat) (d d' : Dir) (acc : Acc)
    (hv : strict = true ∨ fix.isSome = true) (h : infoCmd strict fix d = (d', .ok acc)) :
    report d.length acc = recount (repair fix d) ∧ WellFormed (repair fix d) := by
  obtain ⟨-, h2, h3⟩ := C12_info_validates strict fix d d' acc hv h
  rw [← h2]
  exact ⟨C12_info strict fix d d' acc h, h3⟩

example : ∃ acc, infoCmd false (some 1) exDir = (exDirFixed, .ok acc)
    ∧ report 2 acc = recount exDirFixed := by
  refine ⟨_, rfl, ?_⟩
  exact C12_info false (some 1) exDir exDirFixed _ rfl
example : (recount exDirFixed).take 7 = [("num_utterances", 2), ("total_frames", 3), ("max_ali_class", 1),
    ("max_ref_class", 4), ("total_tokens", 2), ("num_filts", 2), ("count_0", 2)] := by decide
/-- an empty segment counts 0 frames; a class without boundaries counts -1; keys are zero-padded -/
example : (recount [⟨⟨true, .f32, .cpu, [2, 1]⟩, some ⟨.i64, .cpu, .vec [10, 10]⟩,
      some ⟨.i64, .cpu, .d2 [⟨0, 1, 1⟩, ⟨1, -1, -1⟩]⟩⟩]).filter
      (fun kv => kv.1 ∈ ["count_10", "segs_10", "count_00", "rcount_0", "rcount_1", "total_tokens"])
    = [("total_tokens", 2), ("count_00", 0), ("count_10", 2), ("segs_10", 1), ("rcount_0", 0),
       ("rcount_1", -1)] := by decide

/-! ### Utterance discovery -/

/-- **C12_discover.** The data set lists exactly the utterances that have a feature file, belong to
`subset_ids` if given, and have a file in every companion sub-directory in use — in strictly
increasing order (sorted, no duplicates). -/
theorem C12_discover (pre suf : FName) (subset : List FName) (l : Listing) :
    (∀ id, id ∈ discover pre suf subset l ↔ Discovered pre suf subset l id)
    ∧ (discover pre suf subset l).Pairwise (· < ·) :=
  ⟨fun id => by unfold discover; rw [mem_sortNames, mem_findUttIds], pairwise_sortNames _⟩

/-- `has_ali` / `has_ref`: the companion directory is in use iff it is looked at, exists and holds a
file that counts. -/
theorem C12_discover_in_use (pre suf : FName) (o : Option (List FName)) :
    dirInUse pre suf o = true ↔ DirUsed pre suf o := dirInUse_iff _ _ _

/-- `LangDataSet`: the files of the one directory, restricted to the subset, sorted. -/
theorem C12_discover_lang (pre suf : FName) (subset files : List FName) :
    (∀ id, id ∈ discoverLang pre suf subset files ↔ InDir pre suf files id ∧ (subset ≠ [] → id ∈ subset))
    ∧ (discoverLang pre suf subset files).Pairwise (· < ·) :=
  ⟨fun id => by unfold discoverLang; rw [mem_sortNames, mem_restrict, mem_uttsInDir], pairwise_sortNames _⟩

/-- The file every reader and writer uses for an id (`prefix + id + suffix`) counts and strips back to
the id; and a file that counts and is at least as long as prefix plus suffix **is** the file of the id
it was listed under — so the file that is read (and written back) is the file that was found. -/
theorem C12_discover_file (pre suf : FName) :
    (∀ id, Matches pre suf (fileOf pre suf id) ∧ stripName pre suf (fileOf pre suf id) = id)
    ∧ (∀ id x, IsFileOf pre suf id x → pre.length + suf.length ≤ x.length → fileOf pre suf id = x) := by
  refine ⟨fun id => ⟨matches_fileOf _ _ _, stripName_fileOf _ _ _⟩, ?_⟩
  rintro id x ⟨hm, rfl⟩ hlen
  exact fileOf_stripName _ _ _ hm hlen

/-- the length hypothesis is needed: with prefix `ab` and suffix `bc` the file `abc` counts (python's
`startswith`/`endswith` overlap) and is listed as the empty id, whose file would be `abbc` -/
example : IsFileOf [97, 98] [98, 99] [] [97, 98, 99] ∧ fileOf [97, 98] [98, 99] [] = [97, 98, 98, 99] :=
  ⟨⟨⟨⟨[99], rfl⟩, ⟨[97], rfl⟩⟩, rfl⟩, rfl⟩
/-- feat: p-a.pt p-b.pt p-c.x ; ali: p-b.pt p-a.pt q.pt ; ref exists but holds no file that counts -/
example : discover [112, 45] [46, 112, 116] []
    ⟨[[112, 45, 98, 46, 112, 116], [112, 45, 97, 46, 112, 116], [112, 45, 99, 46, 120]],
     some [[112, 45, 98, 46, 112, 116], [112, 45, 97, 46, 112, 116], [113, 46, 112, 116]],
     some [[82, 69, 65, 68, 77, 69]]⟩ = [[97], [98]] := by decide

/-! ### Audit: the hypotheses of every theorem above, instantiated together on a non-trivial input

`exDir` needs repairs 2 (int32 → long), 3 (half-open token), 4 (token end one frame too far) and 5
(alignment one frame too long); `exDirFixed` is its repair with tolerance 1. -/

example : exDir ≠ exDirFixed := by decide

/-- `C12_iff_documented`: its domain hypothesis together with both sides of the iff. -/
example : TokensNonneg exDirFixed ∧ Documented exDirFixed := by decide
example : validate none exDirFixed = .ok exDirFixed ↔ Documented exDirFixed :=
  C12_iff_documented exDirFixed (by decide)

/-- a directory that meets every documented condition and holds a negative token id -/
def negTokDir : Dir :=
  [⟨⟨true, .f32, .cpu, [2, 1]⟩, some ⟨.i64, .cpu, .vec [0, 1]⟩, some ⟨.i64, .cpu, .d2 [⟨1, 0, 1⟩, ⟨-1, 1, 2⟩]⟩⟩]

/-- `C12_negative_token`: hypothesis and both sides. -/
theorem C12_negative_token_nonvacuous :
    Documented negTokDir ∧ ¬ TokensNonneg negTokDir ∧ validate none negTokDir = .error .negToken := by decide
example : ∃ e, validate none negTokDir = .error e :=
  (C12_negative_token negTokDir (by decide)).2 (by decide)

/-- `C12_strict_readonly`. -/
example : exDirFixed = exDirFixed := C12_strict_readonly exDirFixed exDirFixed (by decide)

/-- `C12_fix`, `C12_fix_stable`, `C12_fix_monotone` on a run that really repairs (four repairs). -/
theorem C12_fix_nonvacuous : validate (some 1) exDir = .ok exDirFixed ∧ exDir ≠ exDirFixed := by decide
example : WellFormed exDirFixed ∧ validate none exDirFixed = .ok exDirFixed
    ∧ validate (some 1) exDirFixed = .ok exDirFixed ∧ exDirFixed = repair (some 1) exDir :=
  C12_fix 1 exDir exDirFixed (by decide)
example : validate (some 0) exDirFixed = .ok exDirFixed :=
  C12_fix_stable (some 1) (some 0) exDir exDirFixed (by decide)
example : validate (some 3) exDir = .ok exDirFixed :=
  C12_fix_monotone 1 3 (by decide) exDir exDirFixed (by decide)

/-- `C12_fix_raises` (tolerance 0 does not remove the overshoots) / `C12_fix_accepts` (tolerance 1 does). -/
theorem C12_fix_raises_nonvacuous :
    ¬ WellFormed (repair (some 0) exDir) ∧ WellFormed (repair (some 1) exDir) := by decide
example : ∃ e, validate (some 0) exDir = .error e := C12_fix_raises (some 0) exDir (by decide)
example : validate (some 1) exDir = .ok (repair (some 1) exDir) := C12_fix_accepts (some 1) exDir (by decide)

/-- `C12_fix_disk_after_raise`: a run that raises at the third utterance after repairing the first. -/
theorem C12_fix_disk_after_raise_nonvacuous :
    validate (some 1) (exDir ++ [⟨⟨true, .f64, .cpu, [1, 2]⟩, none, none⟩]) = .error .featType
    ∧ diskAfter (some 1) (exDir ++ [⟨⟨true, .f64, .cpu, [1, 2]⟩, none, none⟩])
        = repair (some 1) exDir ++ [⟨⟨true, .f64, .cpu, [1, 2]⟩, none, none⟩]
    ∧ WellFormed (repair (some 1) exDir)
    ∧ ¬ WellFormed (repair (some 1) (exDir ++ [⟨⟨true, .f64, .cpu, [1, 2]⟩, none, none⟩])) := by decide
/-- a repair made in memory is lost when the same file raises before it is saved: the first token is
half-open (repairable), the second reversed (fatal) — the reference stays as it was, int32 included,
while the alignment of the same utterance, saved before, stays repaired -/
example : diskAfter (some 1)
      [⟨⟨true, .f32, .cpu, [2, 1]⟩, some ⟨.i32, .cpu, .vec [0, 1, 1]⟩, some ⟨.i32, .cpu, .d2 [⟨1, 0, -1⟩, ⟨2, 2, 1⟩]⟩⟩]
    = [⟨⟨true, .f32, .cpu, [2, 1]⟩, some ⟨.i64, .cpu, .vec [0, 1]⟩, some ⟨.i32, .cpu, .d2 [⟨1, 0, -1⟩, ⟨2, 2, 1⟩]⟩⟩] := by
  decide

def exU0 : Utt := ⟨⟨true, .f32, .cpu, [3, 2]⟩, some ⟨.i64, .cpu, .vec [0, 0, 1]⟩,
  some ⟨.i64, .cpu, .d2 [⟨4, 0, 3⟩, ⟨2, -1, -1⟩]⟩⟩
def exU1 : Utt := ⟨⟨true, .f32, .cpu, [0, 2]⟩, some ⟨.i64, .cpu, .vec []⟩, some ⟨.i64, .cpu, .d2 []⟩⟩
example : exDirFixed = [exU0, exU1] := rfl

/-- `C12_fix_ali_overshoot`: one extra frame on the first alignment of `exDirFixed`. -/
example :
    (1 ≤ 1 → validate (some 1) ([] ++ { exU0 with ali := some ⟨.i64, .cpu, .vec ([0, 0, 1] ++ [2])⟩ } :: [exU1])
      = .ok ([] ++ exU0 :: [exU1]))
    ∧ (1 < 1 → ∃ e, validate (some 1) ([] ++ { exU0 with ali := some ⟨.i64, .cpu, .vec ([0, 0, 1] ++ [2])⟩ }
        :: [exU1]) = .error e) :=
  C12_fix_ali_overshoot 1 [] [exU1] exU0 [0, 0, 1] [2] rfl (by decide) (by decide)
example : validate (some 0) [⟨⟨true, .f32, .cpu, [3, 2]⟩, some ⟨.i64, .cpu, .vec [0, 0, 1, 2]⟩, none⟩]
    = .error .aliLen := by decide

/-- `C12_fix_ref_overshoot`: the first token of `exDirFixed` ends at `T = 3`; move it 2 frames on. -/
example :
    (2 ≤ 2 → validate (some 2) ([] ++ { exU0 with ref := some ⟨.i64, .cpu,
        .d2 ([] ++ ⟨4, 0, (exU0.feat.T : Int) + ((2 : Nat) : Int)⟩ :: [⟨2, -1, -1⟩])⟩ } :: [exU1])
      = .ok ([] ++ exU0 :: [exU1]))
    ∧ (2 < 2 → ∃ e, validate (some 2) ([] ++ { exU0 with ref := some ⟨.i64, .cpu,
        .d2 ([] ++ ⟨4, 0, (exU0.feat.T : Int) + ((2 : Nat) : Int)⟩ :: [⟨2, -1, -1⟩])⟩ } :: [exU1])
      = .error e) :=
  C12_fix_ref_overshoot 2 2 [] [exU1] exU0 [] [⟨2, -1, -1⟩] 4 0 rfl (by decide) (by decide)
example : validate (some 1) [⟨⟨true, .f32, .cpu, [3, 2]⟩, none, some ⟨.i64, .cpu, .d2 [⟨4, 0, 5⟩]⟩⟩]
    = .error .refBounds := by decide
/-- the start must stay at or below the new end: a token starting beyond `T` is never repaired -/
example : validate (some 7) [⟨⟨true, .f32, .cpu, [3, 2]⟩, none, some ⟨.i64, .cpu, .d2 [⟨4, 4, 5⟩]⟩⟩]
    = .error .refBounds := by decide

/-- `C12_disk_filewise` on a run that raises after writing. -/
example : (diskAfter (some 1) (exDir ++ [⟨⟨true, .f64, .cpu, [1, 2]⟩, none, none⟩])).length = 3 :=
  (C12_disk_filewise (some 1) (exDir ++ [⟨⟨true, .f64, .cpu, [1, 2]⟩, none, none⟩])).1

/-- `C12_repair_overshoot` / `C12_repair_half_open`: the two tokens of `exDir`. -/
example : (RowOk 3 (repairRow (some 1) 3 ⟨4, 0, 4⟩) ↔ (4 : Int) ≤ (3 : Nat) + (1 : Nat) ∧ (0 : Int) ≤ (3 : Nat))
    ∧ ((4 : Int) ≤ (3 : Nat) + (1 : Nat) ∧ (0 : Int) ≤ (3 : Nat) → repairRow (some 1) 3 ⟨4, 0, 4⟩ = ⟨4, 0, 3⟩) :=
  C12_repair_overshoot 1 3 ⟨4, 0, 4⟩ (by decide) (by decide) (by decide)
example : repairRow (some 1) 3 ⟨2, -1, 2⟩ = ⟨2, -1, -1⟩ :=
  (C12_repair_half_open 1 3 ⟨2, -1, 2⟩ (by decide)).1

/-- `SymFree` needs `sos ≠ eos`: with equal symbols `_write_hyp` cuts after the LAST sos, which is the
end symbol, and nothing is left. -/
example : writeHyp (some 7) (some 7) (loadRef false (some 7) (some 7) (.s1 [1, 2])) = .s1 [] := by decide
example : writeHyp (some 7) (some 8) (loadRef false (some 7) (some 8) (.s2 [⟨1, 0, 2⟩, ⟨3, -1, -1⟩]))
    = .s2 [⟨1, 0, 2⟩, ⟨3, -1, -1⟩] :=
  C12_sos_eos (some 7) (some 8) (.s2 [⟨1, 0, 2⟩, ⟨3, -1, -1⟩]) (by simp [SymFree, Seq.toks])
example : writeHyp (some 7) (some 8) (loadRef true (some 7) (some 8) (.s2 [⟨1, 0, 2⟩, ⟨3, -1, -1⟩]))
    = .s1 [1, 3] :=
  C12_sos_eos_tokens_only (some 7) (some 8) (.s2 [⟨1, 0, 2⟩, ⟨3, -1, -1⟩]) (by simp [SymFree, Seq.toks])
example : loadRefPinned true (some 7) (some 8) (.s2 [⟨1, 0, 2⟩]) = some (loadRef true (some 7) (some 8) (.s2 [⟨1, 0, 2⟩])) :=
  C12_sos_eos_partial true (some 7) (some 8) (.s2 [⟨1, 0, 2⟩]) (by decide)

/-- `C12_info_validates` / `C12_info_of_repaired`: `--fix 1` on `exDir` writes a report. -/
example : validate (some 1) exDir = .ok exDirFixed ∧ exDirFixed = repair (some 1) exDir ∧ WellFormed exDirFixed :=
  C12_info_validates false (some 1) exDir exDirFixed _ (Or.inr rfl) rfl
example : ∃ acc, report exDir.length acc = recount (repair (some 1) exDir) ∧ WellFormed (repair (some 1) exDir) :=
  ⟨_, C12_info_of_repaired false (some 1) exDir exDirFixed _ (Or.inr rfl) rfl⟩
example : cliValidatesPinned true (some 2) = cliValidates true (some 2) :=
  C12_info_fix_zero_partial true (some 2) (by decide)

/-- Without `--strict`/`--fix` nothing is validated: `exDir` (ill-formed) gets a report, which is the
recount of `exDir` as it is; an alignment that is not 1-D is counted entry by entry in storage order
(`unique_consecutive` flattens). -/
example : ∃ acc, infoCmd false none exDir = (exDir, .ok acc) ∧ report 2 acc = recount exDir := by
  refine ⟨_, rfl, ?_⟩
  exact C12_info false none exDir exDir _ rfl
def ndAliDir : Dir := [⟨⟨true, .f32, .cpu, [2, 1]⟩, some ⟨.i64, .cpu, .nd [2, 2] [0, 1, 1, 0]⟩, none⟩]
example : ∃ acc, infoCmd false none ndAliDir = (ndAliDir, .ok acc) ∧ report 1 acc = recount ndAliDir := by
  refine ⟨_, rfl, ?_⟩
  exact C12_info false none ndAliDir ndAliDir _ rfl
example : (recount ndAliDir).filter (fun kv => kv.1 ∈ ["count_0", "count_1", "segs_0", "segs_1", "total_frames"])
    = [("total_frames", 2), ("count_0", 2), ("segs_0", 2), ("count_1", 2), ("segs_1", 1)] := by decide
example : (infoCmd true none ndAliDir).2 = .error (.val .aliDims) := rfl

/-- `C12_discover_file`: both hypotheses of the second clause (`p-a.pt` under `p-` / `.pt`). -/
example : fileOf [112, 45] [46, 112, 116] [97] = [112, 45, 97, 46, 112, 116] :=
  (C12_discover_file [112, 45] [46, 112, 116]).2 [97] [112, 45, 97, 46, 112, 116]
    ⟨⟨⟨[97, 46, 112, 116], rfl⟩, ⟨[112, 45, 97], rfl⟩⟩, rfl⟩ (by decide)
example : [97] ∈ discoverLang [112, 45] [46, 112, 116] [[97], [120]]
    [[112, 45, 98, 46, 112, 116], [112, 45, 97, 46, 112, 116], [97, 46, 112, 116]] := by decide

end PdtVerif.DataDir
