import PdtVerif.Lemmas.DataDir
import PdtVerif.Lemmas.DataDirInfo
import PdtVerif.Lemmas.DataDirDiscover
/-!
# C12 — validation accepts exactly well-formed directories; fixes stick

Property theorems only (helper lemmas: `Lemmas/DataDir.lean`; model: `Model/DataDir.lean`;
spec: `Spec/WellFormed.lean`). All statements are for every directory (any number of
utterances, any tensor contents, any combination of defects) and every tolerance.

Reading guide: `validate fix d = .ok d'` — `validate_spect_data_set(data_set, fix)` returned
normally and the directory now holds `d'`; `WellFormed = Documented ∧ TokensNonneg`;
`repair fix d` — the five documented repairs applied wherever they apply, nothing else.
-/
namespace PdtVerif.DataDir

/-- **Master statement.** For every tolerance (or none): the call returns normally exactly when
the directory *with the documented repairs applied* is well-formed, and then that repaired
directory is what is on disk. -/
theorem C12_validate_iff (fix : Option Nat) (d d' : Dir) :
    validate fix d = .ok d' ↔ d' = repair fix d ∧ WellFormed d' := by
  unfold validate
  constructor
  · intro h
    split at h
    · rename_i d1 hrun
      cases h
      obtain ⟨h1, h2⟩ := (run_ok _ _ _ _).1 hrun
      exact ⟨h1, (chain_init_iff _).1 h2⟩
    · cases h
  · rintro ⟨rfl, hwf⟩
    have := (run_ok fix St.init d _).2 ⟨rfl, (chain_init_iff _).2 hwf⟩
    unfold repair
    rw [this]

/-- **C12_iff.** Strict validation passes (and leaves the directory as it is) if and only if the
directory meets the documented conditions and holds no negative token id. -/
theorem C12_iff (d : Dir) : validate none d = .ok d ↔ WellFormed d := by
  rw [C12_validate_iff, repair_none]
  exact ⟨fun h => h.2, fun h => ⟨rfl, h⟩⟩

/-- Strict validation never changes the directory, also not when it is accepted as some `d'`. -/
theorem C12_strict_readonly (d d' : Dir) (h : validate none d = .ok d') : d' = d := by
  have := ((C12_validate_iff _ _ _).1 h).1
  rwa [repair_none] at this

/-- Strict validation never changes the directory when it raises either. -/
theorem C12_strict_readonly_disk (d : Dir) : diskAfter none d = d := by
  unfold diskAfter
  suffices h : ∀ st, (run none st d).1 = d from h _
  induction d with
  | nil => intro st; rfl
  | cons u us ih =>
    intro st
    unfold run
    cases hs : stepUtt none st u with
    | mk u1 res =>
      have hu : u1 = u := by
        -- every block returns its input under `fix = none`; easiest through the characterisation
        cases res with
        | ok st1 =>
          have := ((stepUtt_ok _ _ _ _ _).1 hs).1
          rw [this, repairUtt_none]
        | error e =>
          obtain ⟨f, ali, ref⟩ := u
          unfold stepUtt at hs
          dsimp only at hs
          split at hs
          · cases hs; rfl
          · rename_i f' st1 hf
            have hf1 := ((checkFeat_ok _ _ _ _ _).1 hf).1
            have hf' : f' = f := by rw [hf1]; simp [repairDev]
            subst hf'
            cases ali with
            | none =>
              dsimp only at hs
              cases ref with
              | none => dsimp only at hs; cases hs
              | some r =>
                dsimp only at hs
                split at hs
                · cases hs; rfl
                · rename_i r' i2 hr
                  have hr1 := ((checkRef_ok _ _ _ _ _ _).1 hr).1
                  have : r' = r := by
                    rw [hr1]
                    have := repairUtt_none ⟨f', none, some r⟩
                    simp only [repairUtt, Option.map_some, Utt.mk.injEq, Option.some.injEq] at this
                    exact this.2.2
                  subst this
                  split at hs
                  · cases hs; rfl
                  · cases hs
            | some a =>
              dsimp only at hs
              cases ha : checkAli none f'.T a with
              | error e' => rw [ha] at hs; simp only [Except.map] at hs; cases hs; rfl
              | ok a' =>
                rw [ha] at hs
                simp only [Except.map] at hs
                have ha1 := ((checkAli_ok _ _ _ _).1 ha).1
                have haa : a' = a := by
                  rw [ha1]
                  have := repairUtt_none ⟨f', some a, none⟩
                  simp only [repairUtt, Option.map_some, Utt.mk.injEq, Option.some.injEq] at this
                  exact this.2.1
                subst haa
                cases ref with
                | none => dsimp only at hs; cases hs
                | some r =>
                  dsimp only at hs
                  split at hs
                  · cases hs; rfl
                  · rename_i r' i2 hr
                    have hr1 := ((checkRef_ok _ _ _ _ _ _).1 hr).1
                    have : r' = r := by
                      rw [hr1]
                      have := repairUtt_none ⟨f', none, some r⟩
                      simp only [repairUtt, Option.map_some, Utt.mk.injEq, Option.some.injEq] at this
                      exact this.2.2
                    subst this
                    split at hs
                    · cases hs; rfl
                    · cases hs
      subst hu
      cases res with
      | error e => rfl
      | ok st1 => simp only; rw [ih]

/-- Over the property's domain (token ids are not negative) acceptance is exactly the docstring. -/
theorem C12_iff_documented (d : Dir) (htok : TokensNonneg d) :
    validate none d = .ok d ↔ Documented d := by
  rw [C12_iff]
  exact ⟨fun h => h.1, fun h => ⟨h, htok⟩⟩

/-- The extra condition of the code, stated on its own: a directory that meets every documented
condition is rejected exactly when it holds a negative token id. -/
theorem C12_negative_token (d : Dir) (hdoc : Documented d) :
    (∃ e, validate none d = .error e) ↔ ¬ TokensNonneg d := by
  constructor
  · rintro ⟨e, he⟩ htok
    have := (C12_iff d).2 ⟨hdoc, htok⟩
    rw [this] at he; cases he
  · intro htok
    cases hv : validate none d with
    | error e => exact ⟨e, rfl⟩
    | ok d' =>
      have hd := C12_strict_readonly _ _ hv
      subst hd
      exact absurd ((C12_iff _).1 hv).2 htok

/-- **C12_fix.** An accepted run with tolerance `k` leaves a well-formed directory, on which a
strict validation passes and a second run with the same tolerance changes nothing (fixes stick),
and what it left differs from the original exactly by the documented repairs. -/
theorem C12_fix (k : Nat) (d d' : Dir) (h : validate (some k) d = .ok d') :
    WellFormed d' ∧ validate none d' = .ok d' ∧ validate (some k) d' = .ok d'
      ∧ d' = repair (some k) d := by
  obtain ⟨h1, h2⟩ := (C12_validate_iff _ _ _).1 h
  refine ⟨h2, (C12_iff _).2 h2, ?_, h1⟩
  exact (C12_validate_iff _ _ _).2 ⟨(repair_of_wf _ _ h2).symm, h2⟩

/-- Fixes stick for any later tolerance as well, and for any number of further runs. -/
theorem C12_fix_stable (fix fix' : Option Nat) (d d' : Dir) (h : validate fix d = .ok d') :
    validate fix' d' = .ok d' := by
  have h2 := ((C12_validate_iff _ _ _).1 h).2
  exact (C12_validate_iff _ _ _).2 ⟨(repair_of_wf _ _ h2).symm, h2⟩

/-- **Any other defect still raises**: if the documented repairs do not make the directory
well-formed, the run with tolerance `k` raises. -/
theorem C12_fix_raises (fix : Option Nat) (d : Dir) (h : ¬ WellFormed (repair fix d)) :
    ∃ e, validate fix d = .error e := by
  cases hv : validate fix d with
  | error e => exact ⟨e, rfl⟩
  | ok d' =>
    obtain ⟨h1, h2⟩ := (C12_validate_iff _ _ _).1 hv
    rw [h1] at h2
    exact absurd h2 h

/-- … and conversely a run raises only then. -/
theorem C12_fix_accepts (fix : Option Nat) (d : Dir) (h : WellFormed (repair fix d)) :
    validate fix d = .ok (repair fix d) :=
  (C12_validate_iff _ _ _).2 ⟨rfl, h⟩

/-- **Earlier utterances stay repaired when a later one raises; nothing undocumented is ever
written.** After a call that raises, the directory is: the documented repairs applied to every
utterance before the offending one (and these pass), the offending utterance with each of its
three files either untouched or holding its documented repair, everything after it untouched. -/
theorem C12_fix_disk_after_raise (fix : Option Nat) (d : Dir) (e : Err)
    (h : validate fix d = .error e) :
    ∃ pre u post u', d = pre ++ u :: post
      ∧ diskAfter fix d = repair fix pre ++ u' :: post
      ∧ FileWise fix u u' ∧ WellFormed (repair fix pre) := by
  unfold validate at h
  split at h
  · cases h
  · rename_i d1 e1 hrun
    cases h
    obtain ⟨pre, u, post, u', h1, h2, h3, h4⟩ := run_err _ _ _ _ _ hrun
    refine ⟨pre, u, post, u', h1, ?_, h3, (chain_init_iff _).1 h4⟩
    unfold diskAfter repair
    rw [hrun]; exact h2

/-- **A larger tolerance accepts at least as much, with the same result.** -/
theorem C12_fix_monotone (k k' : Nat) (hk : k ≤ k') (d d' : Dir)
    (h : validate (some k) d = .ok d') : validate (some k') d = .ok d' := by
  obtain ⟨h1, h2⟩ := (C12_validate_iff _ _ _).1 h
  apply (C12_validate_iff _ _ _).2
  refine ⟨?_, h2⟩
  rw [h1]
  rw [h1] at h2
  have hall := ((wf_iff _).1 h2).1
  unfold repair at hall ⊢
  apply List.map_congr_left
  intro u hu
  have hok : UttOk (repairUtt (some k) u) := hall _ (List.mem_map.2 ⟨u, hu, rfl⟩)
  obtain ⟨f, ali, ref⟩ := u
  obtain ⟨-, hali, href⟩ := hok
  simp only [repairUtt] at hali href ⊢
  have hT : ({ f with dev := repairDev (some k) f.dev } : Feat).T = f.T := rfl
  rw [hT] at hali href
  congr 1
  · cases ali with
    | none => rfl
    | some a =>
      simp only [Option.map_some, optAll] at hali ⊢
      obtain ⟨-, -, -, h4⟩ := hali
      congr 2
      cases hd : a.data with
      | nd s => rfl
      | vec v =>
        rw [hd] at h4
        simp only [repairAliData] at h4 ⊢
        by_cases hc : f.T < v.length ∧ v.length ≤ f.T + k
        · have hc' : f.T < v.length ∧ v.length ≤ f.T + k' := by omega
          rw [if_pos hc, if_pos hc']
        · rw [if_neg hc] at h4 ⊢
          simp only [AliData.lenIs] at h4
          have hc' : ¬ (f.T < v.length ∧ v.length ≤ f.T + k') := by omega
          rw [if_neg hc']
  · cases ref with
    | none => rfl
    | some r =>
      simp only [Option.map_some, optAll] at href ⊢
      obtain ⟨-, -, -, -, h5, -⟩ := href
      congr 2
      cases hd : r.data with
      | d1 t => rfl
      | d2w a b => rfl
      | nd sh => rfl
      | d2 rows =>
        rw [hd] at h5
        simp only [repairRefData, RefData.rows] at h5 ⊢
        congr 1
        apply List.map_congr_left
        intro row hrow
        have hrow' := h5 _ (List.mem_map.2 ⟨row, hrow, rfl⟩)
        obtain ⟨tok, s, e⟩ := row
        simp only [repairRow] at hrow' ⊢
        by_cases c1 : (s < 0 ∧ 0 ≤ e) ∨ (0 ≤ s ∧ e < 0)
        · rw [if_pos c1, if_pos c1]
        · rw [if_neg c1] at hrow'
          rw [if_neg c1, if_neg c1]
          by_cases c2 : 0 ≤ s ∧ s ≤ e ∧ (f.T : Int) < e ∧ e ≤ (f.T : Int) + k ∧ s ≤ (f.T : Int)
          · have c2' : 0 ≤ s ∧ s ≤ e ∧ (f.T : Int) < e ∧ e ≤ (f.T : Int) + k' ∧ s ≤ (f.T : Int) := by
              omega
            rw [if_pos c2, if_pos c2']
          · rw [if_neg c2] at hrow'
            rw [if_neg c2]
            simp only [RowOk] at hrow'
            have c2' : ¬ (0 ≤ s ∧ s ≤ e ∧ (f.T : Int) < e ∧ e ≤ (f.T : Int) + k' ∧ s ≤ (f.T : Int)) := by
              omega
            rw [if_neg c2']

/-- **An overshoot is repaired iff it is ≤ k**, stated on `validate` itself: take any well-formed
directory and append `j > 0` extra frames to the alignment of one utterance. A run with tolerance
`k` restores exactly the well-formed directory when `j ≤ k`, and raises when `j > k`. -/
theorem C12_fix_ali_overshoot (k : Nat) (pre post : Dir) (u : Utt) (v extra : List Int)
    (hali : u.ali = some ⟨.i64, .cpu, .vec v⟩) (hwf : WellFormed (pre ++ u :: post))
    (hextra : extra ≠ []) :
    (extra.length ≤ k →
      validate (some k) (pre ++ { u with ali := some ⟨.i64, .cpu, .vec (v ++ extra)⟩ } :: post)
        = .ok (pre ++ u :: post))
    ∧ (k < extra.length → ∃ e,
      validate (some k) (pre ++ { u with ali := some ⟨.i64, .cpu, .vec (v ++ extra)⟩ } :: post)
        = .error e) := by
  have hall := ((wf_iff _).1 hwf).1
  have hu : UttOk u := hall u (by simp)
  have hT : v.length = u.feat.T := by
    have := hu.2.1
    rw [hali] at this
    exact this.2.2.2
  have hpos : 0 < extra.length := List.length_pos_iff.2 hextra
  have hrep : ∀ w : Utt, repair (some k) (pre ++ w :: post) = pre ++ repairUtt (some k) w :: post := by
    intro w
    unfold repair
    rw [List.map_append, List.map_cons]
    congr 1
    · conv => rhs; rw [← List.map_id pre]
      apply List.map_congr_left
      intro x hx; exact repairUtt_of_ok _ _ (hall x (by simp [hx]))
    · congr 1
      conv => rhs; rw [← List.map_id post]
      apply List.map_congr_left
      intro x hx; exact repairUtt_of_ok _ _ (hall x (by simp [hx]))
  have hu_rep := repairUtt_of_ok (some k) u hu
  obtain ⟨f, ali, ref⟩ := u
  dsimp only at hali hT
  subst hali
  simp only [repairUtt, Utt.mk.injEq] at hu_rep
  constructor
  · intro hk
    apply (C12_validate_iff _ _ _).2
    rw [hrep]
    refine ⟨?_, hwf⟩
    congr 2
    simp only [repairUtt, Option.map_some, Utt.mk.injEq, Option.some.injEq, Ali.mk.injEq]
    refine ⟨hu_rep.1.symm, ⟨rfl, ?_, ?_⟩, hu_rep.2.2.symm⟩
    · simp only [repairDev, Option.isSome_some, if_true]
    · have : f.T < (v ++ extra).length ∧ (v ++ extra).length ≤ f.T + k := by
        rw [List.length_append]; omega
      simp only [repairAliData, if_pos this]
      rw [← hT, List.take_left']
      rfl
  · intro hk
    apply C12_fix_raises
    rw [hrep]
    intro hwf'
    have := ((wf_iff _).1 hwf').1 _ (List.mem_append_right _ List.mem_cons_self)
    have h2 := this.2.1
    simp only [repairUtt, Option.map_some, optAll] at h2
    have hno : ¬ (f.T < (v ++ extra).length ∧ (v ++ extra).length ≤ f.T + k) := by
      rw [List.length_append]; omega
    have h3 := h2.2.2.2
    simp only [repairAliData] at h3
    rw [if_neg hno] at h3
    simp only [AliData.lenIs, List.length_append, Feat.T] at h3 hT
    omega

/-! ### What the documented repairs are (statements about `repair`, the spec) -/

/-- Repair 5, **iff ≤ k**: an alignment of the wrong length ends up with the right length exactly
when it was too long by at most `k` frames; it is then the first `T` entries. -/
theorem C12_repair_ali (k T : Nat) (v : List Int) :
    ((repairAliData (some k) T (.vec v)).lenIs T ↔ v.length = T ∨ (T < v.length ∧ v.length ≤ T + k))
    ∧ (T < v.length ∧ v.length ≤ T + k → repairAliData (some k) T (.vec v) = .vec (v.take T))
    ∧ (¬ (T < v.length ∧ v.length ≤ T + k) → repairAliData (some k) T (.vec v) = .vec v) := by
  refine ⟨?_, ?_, ?_⟩
  · simp only [repairAliData]
    split
    · rename_i h; simp only [AliData.lenIs, List.length_take]; omega
    · rename_i h; simp only [AliData.lenIs]; omega
  · intro h; simp only [repairAliData, if_pos h]
  · intro h; simp only [repairAliData, if_neg h]

/-- Repair 4, **iff ≤ k**: a token whose boundaries are both present, in order, and whose end lies
beyond `T` becomes valid exactly when the end exceeds `T` by at most `k` and the start is at or
below `T`; then only the end is changed, to `T`. -/
theorem C12_repair_overshoot (k T : Nat) (r : Row) (h0 : 0 ≤ r.s) (h1 : r.s ≤ r.e)
    (h2 : (T : Int) < r.e) :
    (RowOk T (repairRow (some k) T r) ↔ r.e ≤ (T : Int) + k ∧ r.s ≤ (T : Int))
    ∧ (r.e ≤ (T : Int) + k ∧ r.s ≤ (T : Int) → repairRow (some k) T r = { r with e := T }) := by
  obtain ⟨tok, s, e⟩ := r
  dsimp only at h0 h1 h2 ⊢
  have hn : ¬ ((s < 0 ∧ 0 ≤ e) ∨ (0 ≤ s ∧ e < 0)) := by omega
  refine ⟨?_, ?_⟩
  · by_cases hc : 0 ≤ s ∧ s ≤ e ∧ (T : Int) < e ∧ e ≤ (T : Int) + k ∧ s ≤ (T : Int)
    · simp only [repairRow, if_neg hn, if_pos hc, RowOk]; omega
    · simp only [repairRow, if_neg hn, if_neg hc, RowOk]; omega
  · intro h
    have : 0 ≤ s ∧ s ≤ e ∧ (T : Int) < e ∧ e ≤ (T : Int) + k ∧ s ≤ (T : Int) := by omega
    simp only [repairRow, if_neg hn, if_pos this]

/-- Repair 3: a token with exactly one boundary loses it (whatever the tolerance); the token id is
never touched by any repair. -/
theorem C12_repair_half_open (k T : Nat) (r : Row)
    (h : (r.s < 0 ∧ 0 ≤ r.e) ∨ (0 ≤ r.s ∧ r.e < 0)) :
    repairRow (some k) T r = { r with s := -1, e := -1 } := by
  simp only [repairRow, if_pos h]

theorem C12_repair_keeps_tokens (fix : Option Nat) (T : Nat) (rd : RefData) :
    (repairRefData fix T rd).toks = rd.toks := by
  cases rd with
  | d2 rows =>
    simp only [repairRefData, RefData.toks, List.map_map]
    apply List.map_congr_left
    intro r _
    obtain ⟨tok, s, e⟩ := r
    cases fix with
    | none => rfl
    | some k =>
      simp only [Function.comp, repairRow]
      split
      · rfl
      · split <;> rfl
  | d1 t => rfl
  | d2w a b => rfl
  | nd s => rfl

/-- Nothing but the five documented things is ever changed: the feature file keeps everything but
the device tag; alignments and references keep their presence; dtype only narrow-int → long;
1-D references, wrong-width and wrong-ndim tensors keep their content. -/
theorem C12_repair_frame (fix : Option Nat) (u : Utt) :
    (repairUtt fix u).feat.isTensor = u.feat.isTensor
    ∧ (repairUtt fix u).feat.dtype = u.feat.dtype
    ∧ (repairUtt fix u).feat.dims = u.feat.dims
    ∧ ((repairUtt fix u).ali.isSome = u.ali.isSome)
    ∧ ((repairUtt fix u).ref.isSome = u.ref.isSome)
    ∧ (∀ r ∈ u.ref, ∀ t, r.data = .d1 t →
        ∃ r' ∈ (repairUtt fix u).ref, r'.data = .d1 t) := by
  refine ⟨rfl, rfl, rfl, ?_, ?_, ?_⟩
  · simp [repairUtt]
  · simp [repairUtt]
  · intro r hr t ht
    simp only [Option.mem_def] at hr
    simp only [repairUtt, hr, Option.map_some, Option.mem_def, Option.some.injEq, exists_eq_left']
    rw [ht]; rfl

/-! ### sos/eos: reading puts the symbols around every transcript, writing strips them -/

/-- Token ids of a sequence as the data set hands it out. -/
def Seq.toks : Seq → List Int
  | .s1 t => t
  | .s2 rows => rows.map (·.tok)

/-- The transcript does not contain the configured symbols, and they differ from each other. -/
def SymFree (sos eos : Option Int) (toks : List Int) : Prop :=
  (∀ s ∈ sos, ∀ t ∈ toks, t ≠ s) ∧ (∀ e ∈ eos, ∀ t ∈ toks, t ≠ e) ∧ (∀ s ∈ sos, ∀ e ∈ eos, s ≠ e)

/-- **C12_sos_eos (reading).** What `_load_ref` (as repaired) returns: the start symbol, the stored
transcript, the end symbol — whatever the transcript, **the empty one included**; 2-D symbols carry
the boundaries `(-1, -1)`; `tokens_only` keeps the token column. -/
theorem C12_load_ref (tokensOnly : Bool) (sos eos : Option Int) :
    (∀ t, loadRef tokensOnly sos eos (.s1 t) = .s1 (sos.toList ++ t ++ eos.toList))
    ∧ (∀ rows, loadRef false sos eos (.s2 rows)
        = .s2 ((sos.toList.map fun x => ⟨x, -1, -1⟩) ++ rows ++ (eos.toList.map fun x => ⟨x, -1, -1⟩)))
    ∧ (∀ rows, loadRef true sos eos (.s2 rows)
        = .s1 (sos.toList ++ rows.map (·.tok) ++ eos.toList)) := by
  refine ⟨fun t => rfl, fun rows => rfl, fun rows => rfl⟩

/-- **C12_sos_eos (round trip).** Writing what was read returns the bare transcript, for every
transcript free of the symbols — empty or not, 1-D or 2-D. -/
theorem C12_sos_eos (sos eos : Option Int) (r : Seq) (h : SymFree sos eos r.toks) :
    writeHyp sos eos (loadRef false sos eos r) = r := by
  obtain ⟨h1, h2, h3⟩ := h
  cases r with
  | s1 t =>
    simp only [loadRef, writeHyp]
    congr
    have := strip_wrap id id (fun _ => rfl) sos eos t h1 h2 h3
    simpa using this
  | s2 rows =>
    simp only [loadRef, Bool.false_eq_true, if_false, writeHyp]
    congr
    apply strip_wrap (·.tok) (fun x => ⟨x, -1, -1⟩) (fun _ => rfl) sos eos rows
    · intro s hs a ha; exact h1 s hs a.tok (List.mem_map.2 ⟨a, ha, rfl⟩)
    · intro e he a ha; exact h2 e he a.tok (List.mem_map.2 ⟨a, ha, rfl⟩)
    · exact h3

/-- The same with `tokens_only`: the bare token column comes back. -/
theorem C12_sos_eos_tokens_only (sos eos : Option Int) (r : Seq) (h : SymFree sos eos r.toks) :
    writeHyp sos eos (loadRef true sos eos r) = .s1 r.toks := by
  obtain ⟨h1, h2, h3⟩ := h
  cases r with
  | s1 t =>
    simp only [loadRef, writeHyp, Seq.toks]
    congr
    have := strip_wrap id id (fun _ => rfl) sos eos t h1 h2 h3
    simpa using this
  | s2 rows =>
    simp only [loadRef, if_true, writeHyp, Seq.toks]
    congr
    have := strip_wrap id id (fun _ => rfl) sos eos (rows.map (fun r : Row => r.tok)) h1 h2 h3
    simpa using this

/-- **Pinned defect** (`_load_ref` before `fixes/C12-load-ref-empty.diff`): an empty 1-D transcript
gets no symbols at all, an empty 2-D one raises (`none` = `IndexError`). -/
theorem C12_sos_eos_counterexample :
    loadRefPinned false (some 7) (some 8) (.s1 []) = some (.s1 [])
    ∧ loadRef false (some 7) (some 8) (.s1 []) = .s1 [7, 8]
    ∧ loadRefPinned false (some 7) none (.s2 []) = none
    ∧ loadRefPinned false none (some 8) (.s2 []) = none := by decide

/-- The pinned `_load_ref` and the repaired one agree on every non-empty transcript: the repair
changes the empty case only. -/
theorem C12_sos_eos_partial (tokensOnly : Bool) (sos eos : Option Int) (r : Seq)
    (hne : r.toks ≠ []) :
    loadRefPinned tokensOnly sos eos r = some (loadRef tokensOnly sos eos r) := by
  cases r with
  | s1 t =>
    cases t with
    | nil => exact absurd rfl hne
    | cons x xs => cases sos <;> cases eos <;> simp [loadRefPinned, loadRef]
  | s2 rows =>
    cases rows with
    | nil => exact absurd rfl hne
    | cons x xs =>
      cases tokensOnly <;> cases sos <;> cases eos <;> simp [loadRefPinned, loadRef]

example : SymFree (some 7) (some 8) (Seq.s1 []).toks := by simp [SymFree, Seq.toks]
example : SymFree (some 7) (some 8) (Seq.s2 [⟨1, 0, 2⟩, ⟨3, -1, -1⟩]).toks := by
  simp [SymFree, Seq.toks]
example : writeHyp (some 7) (some 8) (loadRef false (some 7) (some 8) (.s2 [])) = .s2 [] := by decide
/-- the symbol-freeness hypothesis is needed: a transcript containing eos is cut there -/
example : writeHyp none (some 8) (loadRef false none (some 8) (.s1 [1, 8, 2])) = .s1 [1] := by decide

/-! ### The command `get-torch-spect-data-dir-info` -/

/-- **C12_info (validation part).** When the command runs with `--strict` or `--fix k` (any `k`,
**0 included**) and writes a report, `validate_spect_data_set` with the same tolerance accepts the
directory and leaves exactly what the command left: the directory the report was computed from is
well-formed and is the documented repair of the original. -/
theorem C12_info_validates (strict : Bool) (fix : Option Nat) (d d' : Dir) (acc : Acc)
    (hv : strict = true ∨ fix.isSome = true)
    (h : infoCmd strict fix d = (d', .ok acc)) :
    validate fix d = .ok d' ∧ d' = repair fix d ∧ WellFormed d' := by
  have hval : cliValidates strict fix = true := by
    unfold cliValidates
    rcases hv with h | h <;> simp [h]
  unfold infoCmd infoRun at h
  rw [hval] at h
  have hrun := infoLoop_ok _ _ _ _ _ _ h
  have : validate fix d = .ok d' := by unfold validate; rw [hrun]
  exact ⟨this, (C12_validate_iff _ _ _).1 this⟩

/-- **Pinned defect** (`options.strict or options.fix`): `--fix 0` does not validate at all. -/
theorem C12_info_fix_zero_counterexample :
    cliValidatesPinned false (some 0) = false ∧ cliValidates false (some 0) = true := by decide

/-- For every other option combination pinned and repaired agree. -/
theorem C12_info_fix_zero_partial (strict : Bool) (fix : Option Nat) (h : fix ≠ some 0) :
    cliValidatesPinned strict fix = cliValidates strict fix := by
  cases strict <;> cases fix with
  | none => rfl
  | some k =>
    cases k with
    | zero => exact absurd rfl h
    | succ n => rfl

/- `C12_info` proper (report = recount of the stored tensors) is proved at the end of this file. -/

/-! ### Non-vacuity: the hypotheses are satisfiable on concrete directories -/

/-- two utterances, alignment one frame too long and int32, a half-open and an overshooting token -/
def exDir : Dir :=
  [ ⟨⟨true, .f32, .cpu, [3, 2]⟩, some ⟨.i32, .cpu, .vec [0, 0, 1, 1]⟩,
      some ⟨.i64, .cpu, .d2 [⟨4, 0, 4⟩, ⟨2, -1, 2⟩]⟩⟩,
    ⟨⟨true, .f32, .cpu, [0, 2]⟩, some ⟨.i64, .cpu, .vec []⟩, some ⟨.i64, .cpu, .d2 []⟩⟩ ]

def exDirFixed : Dir :=
  [ ⟨⟨true, .f32, .cpu, [3, 2]⟩, some ⟨.i64, .cpu, .vec [0, 0, 1]⟩,
      some ⟨.i64, .cpu, .d2 [⟨4, 0, 3⟩, ⟨2, -1, -1⟩]⟩⟩,
    ⟨⟨true, .f32, .cpu, [0, 2]⟩, some ⟨.i64, .cpu, .vec []⟩, some ⟨.i64, .cpu, .d2 []⟩⟩ ]

example : validate (some 1) exDir = .ok exDirFixed := by decide
example : validate (some 0) exDir = .error .aliLen := by decide
example : validate none exDir = .error .notLong := by decide
example : ¬ WellFormed exDir := by decide
example : WellFormed exDirFixed := by decide
example : validate none exDirFixed = .ok exDirFixed := by decide
example : repair (some 1) exDir = exDirFixed := by decide
/-- earlier files stay repaired when a later one raises: with tolerance 0 the alignment of the first
utterance raises before its reference is looked at; with a defect only in the second utterance the
first utterance is fully repaired on disk. -/
example : diskAfter (some 1) (exDir ++ [⟨⟨true, .f64, .cpu, [1, 2]⟩, none, none⟩])
    = exDirFixed ++ [⟨⟨true, .f64, .cpu, [1, 2]⟩, none, none⟩] := by decide
example : validate (some 1) (exDir ++ [⟨⟨true, .f64, .cpu, [1, 2]⟩, none, none⟩])
    = .error .featType := by decide
/-- a CUDA tensor (tag only): rejected strictly, moved to the CPU with a tolerance -/
example : validate none [⟨⟨true, .f32, .cuda, [1, 1]⟩, none, none⟩] = .error .cuda := by decide
example : validate (some 0) [⟨⟨true, .f32, .cuda, [1, 1]⟩, none, none⟩]
    = .ok [⟨⟨true, .f32, .cpu, [1, 1]⟩, none, none⟩] := by decide
/-- the negative token is found only after the reference was repaired and saved -/
example : diskAfter (some 0) [⟨⟨true, .f32, .cpu, [1, 1]⟩, none, some ⟨.i32, .cpu, .d1 [-1]⟩⟩]
    = [⟨⟨true, .f32, .cpu, [1, 1]⟩, none, some ⟨.i64, .cpu, .d1 [-1]⟩⟩] := by decide


/-! ### The command's report is the recount of the stored tensors -/

/-- **C12_info.** Whenever `get-torch-spect-data-dir-info` (with `--strict`, `--fix k`, or neither)
writes a report, every reported number is the recount of the tensors the command left on disk:
`report` is the one-pass accumulation of `_info_and_validate(info=True)` (nine accumulators threaded
through the loops over utterances, `unique_consecutive` runs and reference tokens), `recount` is the
declarative count (sums, maxima, `List.count`, number of maximal runs, frames per token class). -/
theorem C12_info (strict : Bool) (fix : Option Nat) (d d' : Dir) (acc : Acc)
    (h : infoCmd strict fix d = (d', .ok acc)) : report d.length acc = recount d' :=
  report_eq_recount _ _ _ _ _ h

/-- The same for the lines of the output file (`sorted(info_dict.items())`, zero-padded keys). -/
theorem C12_info_lines (strict : Bool) (fix : Option Nat) (d d' : Dir) (acc : Acc)
    (h : infoCmd strict fix d = (d', .ok acc)) :
    sortLines (report d.length acc) = sortLines (recount d') := by
  rw [C12_info strict fix d d' acc h]

/-- The output file holds exactly the report's lines (a permutation: nothing lost, nothing added),
ordered by key (`sorted(info_dict.items())`; code-point order of the strings). -/
theorem C12_info_sorted (l : List (String × Int)) :
    (sortLines l).Perm l ∧ (sortLines l).Pairwise (fun a b => a.1 ≤ b.1) :=
  ⟨perm_sortLines l, pairwise_sortLines l⟩

/-- Without `--strict`/`--fix` the command never writes to the data directory, whether it produces a
report or raises. -/
theorem C12_info_plain_readonly (d : Dir) : (infoCmd false none d).1 = d :=
  infoLoop_plain_fst _ _ _ _

/-- With `--strict` / `--fix k`: the report is the recount of the documented repair of the original
directory, and that directory is well-formed. -/
theorem C12_info_of_repaired (strict : Bool) (fix : Option Nat) (d d' : Dir) (acc : Acc)
    (hv : strict = true ∨ fix.isSome = true) (h : infoCmd strict fix d = (d', .ok acc)) :
    report d.length acc = recount (repair fix d) ∧ WellFormed (repair fix d) := by
  obtain ⟨-, h2, h3⟩ := C12_info_validates strict fix d d' acc hv h
  rw [← h2]
  exact ⟨C12_info strict fix d d' acc h, h3⟩

example : ∃ acc, infoCmd false (some 1) exDir = (exDirFixed, .ok acc)
    ∧ report 2 acc = recount exDirFixed := by
  refine ⟨_, rfl, ?_⟩
  exact C12_info false (some 1) exDir exDirFixed _ rfl
example : (recount exDirFixed).take 7 = [("num_utterances", 2), ("total_frames", 3), ("max_ali_class", 1),
    ("max_ref_class", 4), ("total_tokens", 2), ("num_filts", 2), ("count_0", 2)] := by decide
/-- an empty segment counts 0 frames; a class without boundaries counts -1; keys are zero-padded -/
example : (recount [⟨⟨true, .f32, .cpu, [2, 1]⟩, some ⟨.i64, .cpu, .vec [10, 10]⟩,
      some ⟨.i64, .cpu, .d2 [⟨0, 1, 1⟩, ⟨1, -1, -1⟩]⟩⟩]).filter
      (fun kv => kv.1 ∈ ["count_10", "segs_10", "count_00", "rcount_0", "rcount_1", "total_tokens"])
    = [("total_tokens", 2), ("count_00", 0), ("count_10", 2), ("segs_10", 1), ("rcount_0", 0),
       ("rcount_1", -1)] := by decide

/-! ### Utterance discovery -/

/-- **C12_discover.** The data set lists exactly the utterances that have a feature file, belong to
`subset_ids` if given, and have a file in every companion sub-directory in use — in strictly
increasing order (sorted, no duplicates). -/
theorem C12_discover (pre suf : FName) (subset : List FName) (l : Listing) :
    (∀ id, id ∈ discover pre suf subset l ↔ Discovered pre suf subset l id)
    ∧ (discover pre suf subset l).Pairwise (· < ·) :=
  ⟨fun id => by unfold discover; rw [mem_sortNames, mem_findUttIds], pairwise_sortNames _⟩

/-- `has_ali` / `has_ref`: the companion directory is in use iff it is looked at, exists and holds a
file that counts. -/
theorem C12_discover_in_use (pre suf : FName) (o : Option (List FName)) :
    dirInUse pre suf o = true ↔ DirUsed pre suf o := dirInUse_iff _ _ _

/-- `LangDataSet`: the files of the one directory, restricted to the subset, sorted. -/
theorem C12_discover_lang (pre suf : FName) (subset files : List FName) :
    (∀ id, id ∈ discoverLang pre suf subset files ↔ InDir pre suf files id ∧ (subset ≠ [] → id ∈ subset))
    ∧ (discoverLang pre suf subset files).Pairwise (· < ·) :=
  ⟨fun id => by unfold discoverLang; rw [mem_sortNames, mem_restrict, mem_uttsInDir], pairwise_sortNames _⟩

/-- The file every reader and writer uses for an id (`prefix + id + suffix`) counts and strips back to
the id; and a file that counts and is at least as long as prefix plus suffix **is** the file of the id
it was listed under — so the file that is read (and written back) is the file that was found. -/
theorem C12_discover_file (pre suf : FName) :
    (∀ id, Matches pre suf (fileOf pre suf id) ∧ stripName pre suf (fileOf pre suf id) = id)
    ∧ (∀ id x, IsFileOf pre suf id x → pre.length + suf.length ≤ x.length → fileOf pre suf id = x) := by
  refine ⟨fun id => ⟨matches_fileOf _ _ _, stripName_fileOf _ _ _⟩, ?_⟩
  rintro id x ⟨hm, rfl⟩ hlen
  exact fileOf_stripName _ _ _ hm hlen

/-- the length hypothesis is needed: with prefix `ab` and suffix `bc` the file `abc` counts (python's
`startswith`/`endswith` overlap) and is listed as the empty id, whose file would be `abbc` -/
example : IsFileOf [97, 98] [98, 99] [] [97, 98, 99] ∧ fileOf [97, 98] [98, 99] [] = [97, 98, 98, 99] :=
  ⟨⟨⟨⟨[99], rfl⟩, ⟨[97], rfl⟩⟩, rfl⟩, rfl⟩
/-- feat: p-a.pt p-b.pt p-c.x ; ali: p-b.pt p-a.pt q.pt ; ref exists but holds no file that counts -/
example : discover [112, 45] [46, 112, 116] []
    ⟨[[112, 45, 98, 46, 112, 116], [112, 45, 97, 46, 112, 116], [112, 45, 99, 46, 120]],
     some [[112, 45, 98, 46, 112, 116], [112, 45, 97, 46, 112, 116], [113, 46, 112, 116]],
     some [[82, 69, 65, 68, 77, 69]]⟩ = [[97], [98]] := by decide

end PdtVerif.DataDir
