import PdtVerif.Lemmas.FeatStats
import PdtVerif.Lemmas.FeatStatsDeltaLayout
import PdtVerif.Lemmas.FeatStatsMvnLayout
import PdtVerif.Lemmas.FeatStatsMachine
/-!
# C18 — normalisation statistics, deltas and returns equal their defining formulas

Property theorems only (helper lemmas live in `Lemmas/FeatStats.lean`).  Everything is over
exact rationals; float rounding is not modelled and `sqrt` is a trusted primitive: statements
about the standard deviation are made for any `s` with `s * s = variance`.
-/
namespace PdtVerif.FeatStats

/-! ## Mean-variance statistics -/

/-- **C18_accumulate.**  After ANY history of `accumulate` calls — the frames cut into chunks
in any way, in any order — the buffers hold, for every coefficient `i`, the totals of the
pooled frames: `pool` is any list that is a rearrangement of all frames of coefficient `i`.
(`chunks` are the per-coefficient frame lists of each call, all with `X` coefficients and the
same number of frames for every coefficient.) -/
theorem C18_accumulate (chunks : List (List (List Rat))) (X : Nat) (a : Acc)
    (hX : ∀ c ∈ chunks, c.length = X)
    (hrect : ∀ c ∈ chunks, ∀ i, i < X → (c.getD i []).length = (c.headD []).length)
    (h : accumulateAllCols chunks = some a) (i : Nat) (hi : i < X)
    (pool : List Rat) (hp : pool.Perm (chunks.flatMap (fun c => c.getD i []))) :
    a.count = pool.length ∧ a.sum.getD i 0 = pool.sum ∧ a.sumsq.getD i 0 = sumSq pool := by
  have hne : chunks ≠ [] := by
    rintro rfl; simp [accumulateAllCols] at h
  obtain ⟨b, hb, b0, _, _, b3, b4⟩ := accumulateAllCols_spec chunks X hne hX
  rw [h] at hb
  cases hb
  refine ⟨?_, ?_, ?_⟩
  · rw [b0, totCount_eq chunks i (fun c hc => hrect c hc i hi), hp.length_eq]
  · rw [b3 i hi, totOf_sum_eq, hp.sum_eq]
  · rw [b4 i hi, totOf_sumSq_eq, sumSq_perm hp]

/-- The buffers have one entry per coefficient. -/
theorem C18_accumulate_lengths (chunks : List (List (List Rat))) (X : Nat) (a : Acc)
    (hX : ∀ c ∈ chunks, c.length = X) (h : accumulateAllCols chunks = some a) :
    a.sum.length = X ∧ a.sumsq.length = X := by
  have hne : chunks ≠ [] := by
    rintro rfl; simp [accumulateAllCols] at h
  obtain ⟨b, hb, _, b1, b2, _, _⟩ := accumulateAllCols_spec chunks X hne hX
  rw [h] at hb
  cases hb
  exact ⟨b1, b2⟩

/-- **History independence.**  Two histories over the same frames (coefficient by coefficient
the same multiset) leave identical buffers. -/
theorem C18_accumulate_history (c₁ c₂ : List (List (List Rat))) (X : Nat) (a₁ a₂ : Acc)
    (hX₁ : ∀ c ∈ c₁, c.length = X) (hX₂ : ∀ c ∈ c₂, c.length = X)
    (hr₁ : ∀ c ∈ c₁, ∀ i, i < X → (c.getD i []).length = (c.headD []).length)
    (hr₂ : ∀ c ∈ c₂, ∀ i, i < X → (c.getD i []).length = (c.headD []).length)
    (h₁ : accumulateAllCols c₁ = some a₁) (h₂ : accumulateAllCols c₂ = some a₂)
    (hX0 : 0 < X)
    (hp : ∀ i, i < X →
      (c₁.flatMap (fun c => c.getD i [])).Perm (c₂.flatMap (fun c => c.getD i []))) :
    a₁ = a₂ := by
  obtain ⟨l1, l2⟩ := C18_accumulate_lengths c₁ X a₁ hX₁ h₁
  obtain ⟨m1, m2⟩ := C18_accumulate_lengths c₂ X a₂ hX₂ h₂
  have key : ∀ i, i < X → a₁.count = a₂.count ∧ a₁.sum.getD i 0 = a₂.sum.getD i 0 ∧
      a₁.sumsq.getD i 0 = a₂.sumsq.getD i 0 := by
    intro i hi
    obtain ⟨p0, p1, p2⟩ := C18_accumulate c₁ X a₁ hX₁ hr₁ h₁ i hi _ (List.Perm.refl _)
    obtain ⟨q0, q1, q2⟩ := C18_accumulate c₂ X a₂ hX₂ hr₂ h₂ i hi _ (hp i hi)
    exact ⟨by rw [p0, q0], by rw [p1, q1], by rw [p2, q2]⟩
  cases a₁ with
  | mk n1 s1 q1 =>
  cases a₂ with
  | mk n2 s2 q2 =>
    simp only at l1 l2 m1 m2 key
    have hn : n1 = n2 := (key 0 hX0).1
    have hs : s1 = s2 := by
      apply List.ext_getElem (by omega)
      intro i hi1 hi2
      have := (key i (by omega)).2.1
      simpa [List.getD_eq_getElem?_getD, List.getElem?_eq_getElem hi1,
        List.getElem?_eq_getElem hi2] using this
    have hq : q1 = q2 := by
      apply List.ext_getElem (by omega)
      intro i hi1 hi2
      have := (key i (by omega)).2.2
      simpa [List.getD_eq_getElem?_getD, List.getElem?_eq_getElem hi1,
        List.getElem?_eq_getElem hi2] using this
    rw [hn, hs, hq]

/-- The guard of `store` on the buffers themselves.  This is the model's `if` unfolded
(definitional, NOT counted as an obligation); the statement with content is `C18_store_raises`
below, which ties the count in the buffers to the history of `accumulate` calls. -/
theorem store_none_iff (st : Option Acc) (bessel : Bool) :
    store st bessel = none ↔ (st = none ∨ ∃ a, st = some a ∧ a.count < (if bessel then 2 else 1)) := by
  cases st with
  | none => simp [store]
  | some a =>
    simp only [store]
    split <;> simp_all

/-- **C18_store_raises.**  After ANY history of `accumulate` calls (well-formed chunks of `X ≥ 1`
coefficients), `store(bessel)` raises exactly when there was no call at all or the calls together
handed over fewer frames than the estimate needs (1, or 2 under Bessel's correction) — in terms
of the history (`framesOf`: the total number of frames), not of the buffer. -/
theorem C18_store_raises (chunks : List (List (List Rat))) (X : Nat) (bessel : Bool)
    (_hX0 : 0 < X) (hok : ChunksOK X chunks) :
    store (accumulateAllCols chunks) bessel = none ↔
      (chunks = [] ∨ framesOf chunks < (if bessel then 2 else 1)) := by
  rw [store_accumulateAllCols chunks X bessel hok]
  cases chunks with
  | nil => simp [storeOk]
  | cons c cs =>
    by_cases hle : (if bessel = true then 2 else 1) ≤ framesOf (c :: cs)
    · have : storeOk (c :: cs) bessel = true := by simp [storeOk, hle]
      rw [if_pos this]
      simp only [reduceCtorEq, List.cons_ne_nil, false_or, false_iff, Nat.not_lt]
      exact hle
    · have : ¬ storeOk (c :: cs) bessel = true := by simp [storeOk, hle]
      rw [if_neg this]
      simp only [List.cons_ne_nil, false_or, true_iff]
      omega

/-- **C18_store.**  With buffers holding the totals of `pool`, `store` writes the pooled mean
`Σx/n` and the variance `Σx²/n − mean² = (1/n) Σ (x − μ)²`, multiplied by `n/(n−1)` under
Bessel (`= (1/(n−1)) Σ (x − μ)²`).  `std` in the code is `sqrt` of this variance. -/
theorem C18_store (a : Acc) (bessel : Bool) (m v : List Rat)
    (h : store (some a) bessel = some (m, v)) (i : Nat)
    (hi : i < a.sum.length) (hi2 : i < a.sumsq.length) (pool : List Rat)
    (hc : a.count = pool.length) (hs : a.sum.getD i 0 = pool.sum)
    (hq : a.sumsq.getD i 0 = sumSq pool) :
    m.getD i 0 = poolMean pool ∧
    v.getD i 0 = (if bessel then poolVarBessel pool else poolVar pool) := by
  by_cases hcnt : a.count < (if bessel = true then 2 else 1)
  · simp [store, hcnt] at h
  · simp only [store, hcnt, if_false, Option.some.injEq, Prod.mk.injEq] at h
    obtain ⟨hm, hv⟩ := h
    have hm' : m.getD i 0 = pool.sum / pool.length := by
      rw [← hm]
      simp [List.getD_eq_getElem?_getD, List.getElem?_map, List.getElem?_eq_getElem hi] at hs ⊢
      rw [hs, hc]
    have hraw : (List.zipWith (fun q m => q / (a.count : Rat) - m * m) a.sumsq
        (a.sum.map (· / (a.count : Rat)))).getD i 0
        = sumSq pool / pool.length - (pool.sum / pool.length) * (pool.sum / pool.length) := by
      simp [List.getD_eq_getElem?_getD, List.getElem?_zipWith, List.getElem?_map,
        List.getElem?_eq_getElem hi, List.getElem?_eq_getElem hi2] at hs hq ⊢
      rw [hs, hq, hc]
    refine ⟨hm', ?_⟩
    cases bessel with
    | false =>
      have hn : 0 < pool.length := by simp at hcnt; omega
      simp only [Bool.false_eq_true, if_false] at hv ⊢
      rw [← hv, hraw, raw_var_eq_poolVar pool hn]
    | true =>
      have hn : 2 ≤ pool.length := by simp at hcnt; omega
      simp only [if_true] at hv ⊢
      rw [← hv, ← poolVar_mul_bessel pool hn, ← raw_var_eq_poolVar pool (by omega)]
      have hlen : i < (List.zipWith (fun q m => q / (a.count : Rat) - m * m) a.sumsq
          (a.sum.map (· / (a.count : Rat)))).length := by simp; omega
      rw [List.getD_eq_getElem?_getD, List.getElem?_map, List.getElem?_eq_getElem hlen]
      rw [List.getD_eq_getElem?_getD, List.getElem?_eq_getElem hlen] at hraw
      simp only [Option.map_some, Option.getD_some] at hraw ⊢
      rw [hraw, hc]

/-- **C18_accumulate_store.**  The whole pipeline: any history of `accumulate` calls followed
by `store(bessel)` yields the pooled population mean and the (biased or Bessel-corrected)
variance of all frames of every coefficient. -/
theorem C18_accumulate_store (chunks : List (List (List Rat))) (X : Nat) (bessel : Bool)
    (m v : List Rat)
    (hX : ∀ c ∈ chunks, c.length = X)
    (hrect : ∀ c ∈ chunks, ∀ i, i < X → (c.getD i []).length = (c.headD []).length)
    (h : store (accumulateAllCols chunks) bessel = some (m, v)) (i : Nat) (hi : i < X)
    (pool : List Rat) (hp : pool.Perm (chunks.flatMap (fun c => c.getD i []))) :
    m.getD i 0 = poolMean pool ∧
    v.getD i 0 = (if bessel then poolVarBessel pool else poolVar pool) := by
  cases hacc : accumulateAllCols chunks with
  | none => rw [hacc] at h; simp [store] at h
  | some a =>
    rw [hacc] at h
    obtain ⟨l1, l2⟩ := C18_accumulate_lengths chunks X a hX hacc
    obtain ⟨p0, p1, p2⟩ := C18_accumulate chunks X a hX hrect hacc i hi pool hp
    exact C18_store a bessel m v h i (by omega) (by omega) pool p0 p1 p2

/-- **C18_normalized.**  Normalising the pooled frames of a coefficient with their mean and
any `s` with `s² =` their (biased) variance `> 0` (and `eps ≤ s`, so the clamp is inactive)
gives mean 0 and variance 1. -/
theorem C18_normalized (col : List Rat) (s eps : Rat) (hpos : 0 < poolVar col)
    (hs : s * s = poolVar col) (he : eps ≤ s) :
    poolMean (normCol col (poolMean col) s eps) = 0 ∧
    poolVar (normCol col (poolMean col) s eps) = 1 := by
  have hn : 0 < col.length := by
    rcases Nat.eq_zero_or_pos col.length with h0 | h0
    · have : col = [] := List.length_eq_zero_iff.mp h0
      subst this
      simp [poolVar] at hpos
    · exact h0
  have hn' : (col.length : Rat) ≠ 0 := by exact_mod_cast (Nat.pos_iff_ne_zero.mp hn)
  have hmax : max s eps = s := max_eq_left he
  have hsum : (normCol col (poolMean col) s eps).sum = 0 := by
    unfold normCol
    rw [hmax, sum_sub_div]
    have : col.sum - col.length * poolMean col = 0 := by
      unfold poolMean; field_simp; ring
    rw [this]; simp
  have hmean : poolMean (normCol col (poolMean col) s eps) = 0 := by
    show (normCol col (poolMean col) s eps).sum / _ = 0
    rw [hsum]; simp
  refine ⟨hmean, ?_⟩
  unfold poolVar
  rw [hmean, length_normCol]
  have h0 : ((normCol col (poolMean col) s eps).map (fun x => (x - 0) * (x - 0))).sum
      = sumSq (normCol col (poolMean col) s eps) := by
    unfold sumSq; congr 1; apply List.map_congr_left; intro x _; ring
  rw [h0]
  unfold normCol
  rw [hmax, sumSq_sub_div, hs]
  have hv : (col.map (fun x => (x - poolMean col) * (x - poolMean col))).sum
      = poolVar col * col.length := by
    unfold poolVar; field_simp
  rw [hv]
  have hp : poolVar col ≠ 0 := ne_of_gt hpos
  field_simp

/-- Bessel variant: with `s² =` the Bessel-corrected variance the normalised frames have mean 0
and Bessel-corrected variance 1. -/
theorem C18_normalized_bessel (col : List Rat) (s eps : Rat) (hn2 : 2 ≤ col.length)
    (hpos : 0 < poolVarBessel col) (hs : s * s = poolVarBessel col) (he : eps ≤ s) :
    poolMean (normCol col (poolMean col) s eps) = 0 ∧
    poolVarBessel (normCol col (poolMean col) s eps) = 1 := by
  have h2 : (2 : Rat) ≤ (col.length : Rat) := by exact_mod_cast hn2
  have hn' : (col.length : Rat) ≠ 0 := by linarith
  have hn1 : (col.length : Rat) - 1 ≠ 0 := by linarith
  have hmax : max s eps = s := max_eq_left he
  have hsum : (normCol col (poolMean col) s eps).sum = 0 := by
    unfold normCol
    rw [hmax, sum_sub_div]
    have : col.sum - col.length * poolMean col = 0 := by
      unfold poolMean; field_simp; ring
    rw [this]; simp
  have hmean : poolMean (normCol col (poolMean col) s eps) = 0 := by
    show (normCol col (poolMean col) s eps).sum / _ = 0
    rw [hsum]; simp
  refine ⟨hmean, ?_⟩
  unfold poolVarBessel
  rw [hmean, length_normCol]
  have h0 : ((normCol col (poolMean col) s eps).map (fun x => (x - 0) * (x - 0))).sum
      = sumSq (normCol col (poolMean col) s eps) := by
    unfold sumSq; congr 1; apply List.map_congr_left; intro x _; ring
  rw [h0]
  unfold normCol
  rw [hmax, sumSq_sub_div, hs]
  have hv : (col.map (fun x => (x - poolMean col) * (x - poolMean col))).sum
      = poolVarBessel col * ((col.length : Rat) - 1) := by
    unfold poolVarBessel; field_simp
  rw [hv]
  have hp : poolVarBessel col ≠ 0 := ne_of_gt hpos
  field_simp

/-- **C18_forward_own.**  Without stored statistics `mean_var_norm` uses the input's own mean
and own biased variance, and the result has mean 0 and variance 1 for every coefficient
with positive variance (`sq[i]` is the value of the trusted `sqrt`). -/
theorem C18_forward_own (cols : List (List Rat)) (sq : List Rat) (eps : Rat) (i : Nat)
    (hi : i < cols.length) (hsq : i < sq.length)
    (hpos : 0 < poolVar (cols.getD i []))
    (hs : sq.getD i 0 * sq.getD i 0 = poolVar (cols.getD i []))
    (he : eps ≤ sq.getD i 0) :
    (meanVarNormCols cols none none sq eps).1.getD i 0 = poolMean (cols.getD i []) ∧
    (meanVarNormCols cols none none sq eps).2.1.getD i 0 = poolVar (cols.getD i []) ∧
    poolMean ((meanVarNormCols cols none none sq eps).2.2.getD i []) = 0 ∧
    poolVar ((meanVarNormCols cols none none sq eps).2.2.getD i []) = 1 := by
  have hy := meanVarNormCols_ys cols none none sq eps i hi (by simpa using hi) (by simpa using hsq)
  have hmu : (Option.getD (none : Option (List Rat)) (cols.map mean)).getD i 0
      = poolMean (cols.getD i []) := by
    simp [List.getD_eq_getElem?_getD, List.getElem?_eq_getElem hi, mean_eq_poolMean]
  rw [hmu] at hy
  simp only [Option.getD_none] at hy
  obtain ⟨n1, n2⟩ := C18_normalized (cols.getD i []) (sq.getD i 0) eps hpos hs he
  exact ⟨meanVarNormCols_mean_own cols none sq eps i hi,
    meanVarNormCols_var_own cols none sq eps i hi, by rw [hy]; exact n1, by rw [hy]; exact n2⟩

/-- The per-column formula with both statistics supplied.  Unfolds the model's `zipWith`
(definitional, subsumed by `C18_forward_combinations`; NOT counted as an obligation). -/
theorem forward_stored_formula (cols : List (List Rat)) (m sd sq : List Rat) (eps : Rat) (i : Nat)
    (hi : i < cols.length) (hm : i < m.length) (hsd : i < sd.length) :
    (meanVarNormCols cols (some m) (some sd) sq eps).2.2.getD i []
      = normCol (cols.getD i []) (m.getD i 0) (sd.getD i 0) eps := by
  simpa using meanVarNormCols_ys cols (some m) (some sd) sq eps i hi (by simpa using hm)
    (by simpa using hsd)

/-- **C18_forward_stored** (the property's "normalising with them gives each coefficient zero mean
and unit variance over the pooled data", end to end).  Take ANY history `chunks` of `accumulate`
calls, let `store(bessel)` write `(m, v)`, let `sd` be the stored deviations (`sd[i]² = v[i] > 0`,
`sqrt` trusted; `eps ≤ sd[i]`: clamp inactive), and run `forward` with those stored statistics on
columns `cols` whose `i`-th column is (any rearrangement of) the pooled frames of coefficient `i`.
Then the output column is `(x − m[i]) / max(sd[i], eps)`, its mean is 0 and its (biased, resp.
Bessel-corrected) variance is 1. -/
theorem C18_forward_stored (chunks : List (List (List Rat))) (X : Nat) (bessel : Bool)
    (m v sd sq : List Rat) (eps : Rat)
    (hX : ∀ c ∈ chunks, c.length = X)
    (hrect : ∀ c ∈ chunks, ∀ i, i < X → (c.getD i []).length = (c.headD []).length)
    (h : store (accumulateAllCols chunks) bessel = some (m, v)) (i : Nat) (hi : i < X)
    (hsd : i < sd.length) (hpos : 0 < v.getD i 0)
    (hs : sd.getD i 0 * sd.getD i 0 = v.getD i 0) (he : eps ≤ sd.getD i 0)
    (cols : List (List Rat)) (hc : i < cols.length)
    (hpool : (cols.getD i []).Perm (chunks.flatMap (fun c => c.getD i []))) :
    let y := (meanVarNormCols cols (some m) (some sd) sq eps).2.2.getD i []
    y = normCol (cols.getD i []) (m.getD i 0) (sd.getD i 0) eps ∧
    poolMean y = 0 ∧ (if bessel then poolVarBessel y else poolVar y) = 1 := by
  intro y
  cases hacc : accumulateAllCols chunks with
  | none => rw [hacc] at h; simp [store] at h
  | some a =>
    obtain ⟨l1, _⟩ := C18_accumulate_lengths chunks X a hX hacc
    obtain ⟨p0, _, _⟩ := C18_accumulate chunks X a hX hrect hacc i hi (cols.getD i []) hpool
    obtain ⟨hm, hv⟩ := C18_accumulate_store chunks X bessel m v hX hrect h i hi (cols.getD i []) hpool
    have hcnt : ¬ a.count < (if bessel = true then 2 else 1) := by
      intro hc'; rw [hacc] at h; simp [store, hc'] at h
    have hml : i < m.length := by
      rw [hacc] at h
      simp only [store, hcnt, if_false, Option.some.injEq, Prod.mk.injEq] at h
      rw [← h.1]; simp; omega
    have hy : y = normCol (cols.getD i []) (m.getD i 0) (sd.getD i 0) eps :=
      forward_stored_formula cols m sd sq eps i hc hml hsd
    refine ⟨hy, ?_⟩
    rw [hy, hm]
    cases bessel with
    | false =>
      simp only [Bool.false_eq_true, if_false] at hv ⊢
      rw [hv] at hpos hs
      exact C18_normalized _ _ eps hpos hs he
    | true =>
      simp only [if_true] at hv hcnt ⊢
      rw [hv] at hpos hs
      have hn2 : 2 ≤ (cols.getD i []).length := by rw [← p0]; omega
      exact C18_normalized_bessel _ _ eps hn2 hpos hs he

/-! ## Returns -/

/-- **C18_return** (time-major layout `r[t][n]`).  For every `γ` — zero, negative and above 1
included — entry `(t, n)` of `time_distributed_return` is the return `r_t + γ(r_{t+1} + γ(…))`
of the reward sequence of batch element `n` from step `t` on. -/
theorem C18_return (r : List (List Rat)) (cols : Nat) (g : Rat) (t n : Nat)
    (ht : t < r.length) (hn : n < cols) :
    ((tdReturn r cols g false).getD t []).getD n 0
      = retSpec g ((r.map (fun row => row.getD n 0)).drop t) := by
  unfold tdReturn
  by_cases hg : g = 0
  · subst hg
    simp only [if_true]
    rw [retSpec_drop 0 _ t (by simpa using ht)]
    simp [List.getD_eq_getElem?_getD, List.getElem?_map, List.getElem?_eq_getElem ht]
  · simp only [hg, if_false, Bool.false_eq_true]
    rw [matmul_getD _ _ _ _ _ (by simpa [discountTriu] using ht) hn]
    have hrow : (discountTriu g r.length).getD t []
        = (List.range (r.map (fun row => row.getD n 0)).length).map
            (fun j => if t ≤ j then g ^ (j - t) else 0) := by
      simp [discountTriu, List.getD_eq_getElem?_getD, List.getElem?_map, List.getElem?_range ht]
    rw [hrow, dot_discount_row0]

/-- **C18_return**, batch-first layout `r[n][t]` (every row has `cols = T` entries): the same
returns, transposed. -/
theorem C18_return_batch_first (r : List (List Rat)) (cols : Nat) (g : Rat) (t n : Nat)
    (hn : n < r.length) (ht : t < cols) (hrow : (r.getD n []).length = cols) :
    ((tdReturn r cols g true).getD n []).getD t 0 = retSpec g ((r.getD n []).drop t) := by
  unfold tdReturn
  by_cases hg : g = 0
  · subst hg
    simp only [if_true]
    rw [retSpec_drop 0 _ t (by omega)]
    simp
  · simp only [hg, if_false, if_true]
    rw [matmul_getD _ _ _ _ _ hn ht]
    have hcol : (discountTril g cols).map (fun br => br.getD t 0)
        = (List.range (r.getD n []).length).map (fun j => if t ≤ j then g ^ (j - t) else 0) := by
      rw [hrow]
      unfold discountTril
      rw [List.map_map]
      apply List.map_congr_left
      intro i hi
      rw [List.mem_range] at hi
      simp [List.getD_eq_getElem?_getD, List.getElem?_map, List.getElem?_range ht]
    rw [hcol, dot_comm, dot_discount_row0]

/-- **The recursion itself**, on the output of the model (time-major layout):
`R_t = r_t + γ R_{t+1}` for every `t < T`, where beyond the horizon `R_T` is 0 — written as an
explicit case distinction (the first version of this theorem read `R_T` off the output list with
a default-0 lookup, so its clause `R_T = 0` was true by the default alone). -/
theorem C18_return_recursion (r : List (List Rat)) (cols : Nat) (g : Rat) (t n : Nat)
    (ht : t < r.length) (hn : n < cols) :
    let R := fun t => ((tdReturn r cols g false).getD t []).getD n 0
    R t = (r.getD t []).getD n 0 + g * (if t + 1 < r.length then R (t + 1) else 0) := by
  intro R
  show ((tdReturn r cols g false).getD t []).getD n 0 = _
  rw [C18_return r cols g t n ht hn, retSpec_drop g _ t (by simpa using ht)]
  congr 1
  · simp [List.getD_eq_getElem?_getD, List.getElem?_map, List.getElem?_eq_getElem ht]
  · congr 1
    by_cases h1 : t + 1 < r.length
    · rw [if_pos h1]
      show _ = ((tdReturn r cols g false).getD (t + 1) []).getD n 0
      rw [C18_return r cols g (t + 1) n h1 hn]
    · rw [if_neg h1, retSpec_drop_length g _ _ (by simp; omega)]

/-- The recursion in the batch-first layout `r[n][t]` (every row has `cols = T` entries). -/
theorem C18_return_recursion_batch_first (r : List (List Rat)) (cols : Nat) (g : Rat) (t n : Nat)
    (hn : n < r.length) (ht : t < cols) (hrow : (r.getD n []).length = cols) :
    let R := fun t => ((tdReturn r cols g true).getD n []).getD t 0
    R t = (r.getD n []).getD t 0 + g * (if t + 1 < cols then R (t + 1) else 0) := by
  intro R
  show ((tdReturn r cols g true).getD n []).getD t 0 = _
  rw [C18_return_batch_first r cols g t n hn ht hrow, retSpec_drop g _ t (by omega)]
  congr 2
  by_cases h1 : t + 1 < cols
  · rw [if_pos h1]
    show _ = ((tdReturn r cols g true).getD n []).getD (t + 1) 0
    rw [C18_return_batch_first r cols g (t + 1) n hn h1 hrow]
  · rw [if_neg h1, retSpec_drop_length g _ _ (by omega)]

/-- The pinned tree built the discount matrix as a quotient of two powers of `γ`; over the
rationals that is the same function (in floating point it is `0/0 = NaN` once `γ^t`
underflows — the defect repaired by `fixes/C18-return-underflow-nan`). -/
theorem C18_return_pinned (r : List (List Rat)) (cols : Nat) (g : Rat) (bf : Bool) :
    tdReturnQuot r cols g bf = tdReturn r cols g bf := by
  unfold tdReturnQuot tdReturn
  by_cases hg : g = 0
  · simp [hg]
  · simp only [hg, if_false, discountTriuQuot_eq g hg, discountTrilQuot_eq g hg]


/-! ## Deltas -/

/-- **C18_delta_filter_power.**  Row `u` of `_feat_delta_filters(order, width)`, read as a
function on `ℤ` centred at `width·order`, is the `u`-fold convolution power `gpow w u` of the
regression kernel `gk w k = k / (2 Σ_{j≤w} j²)` (`gpow 0 = δ₀`,
`gpow (u+1) n = Σ_{|k|≤w} gk k · gpow u (n − k)`), and it vanishes beyond `±u·w`. -/
theorem C18_delta_filter_power (order w u : Nat) (hu : u ≤ order) (fs : List (List Rat))
    (h : deltaFilters order w = some fs) (n : Int) :
    view (fs.getD u []) (w * order) n = gpow w u n ∧
    ((n < -((u * w : Nat) : Int) ∨ ((u * w : Nat) : Int) < n) → gpow w u n = 0) := by
  refine ⟨?_, gpow_support w u n⟩
  unfold deltaFilters at h
  split at h
  · cases h
  · simp only [Option.some.injEq] at h
    subst h
    have hlen : 1 + 2 * w * order = 2 * (w * order) + 1 := by ring
    have hu' : u < order + 1 := by omega
    simp only [List.getD_eq_getElem?_getD, List.getElem?_map, List.getElem?_range hu',
      Option.map_some, Option.getD_some, hlen]
    apply view_filtIter
    calc u * w ≤ order * w := Nat.mul_le_mul_right w hu
      _ = w * order := Nat.mul_comm _ _

/-- **C18_delta_filters.**  What `feat_deltas` computes for one row — ONE `conv1d` of the row
padded ONCE by `width·order` (in any of the four modes) with the composite filters — is, for
every order `u ≤ order` and every frame `t`, the recursive regression formula
`Δ^u_t = Σ_{k=1..W} k (Δ^{u-1}_{t+k} − Δ^{u-1}_{t−k}) / (2 Σ k²)`, `Δ^0 = ` the row extended by
the chosen edge padding (`extAt mode row`). -/
theorem C18_delta_filters (mode : PadMode) (order w : Nat) (fs : List (List Rat))
    (hfs : deltaFilters order w = some fs) (row : List Rat) (outs : List (List Rat))
    (h : deltaRow mode order w fs row = some outs) (u : Nat) (hu : u ≤ order) (t : Nat)
    (ht : t < row.length) :
    (outs.getD u []).getD t 0 = deltaSpec w (extAt mode row) u (t : Int) := by
  unfold deltaRow at h
  cases hp : pad1d mode (w * order) row with
  | none => rw [hp] at h; cases h
  | some xp =>
    rw [hp] at h
    simp only [Option.map_some, Option.some.injEq] at h
    subst h
    have hfs' := hfs
    unfold deltaFilters at hfs
    split at hfs
    · cases hfs
    · simp only [Option.some.injEq] at hfs
      have hu' : u < order + 1 := by omega
      have hlen : 1 + 2 * w * order = 2 * (w * order) + 1 := by ring
      have hful : u < fs.length := by rw [← hfs]; simpa using hu'
      have hfu : fs.getD u [] = filtIter w (oneHot (2 * (w * order) + 1) (w * order)) u := by
        rw [← hfs]
        simp [List.getD_eq_getElem?_getD, List.getElem?_map, List.getElem?_range hu', hlen]
      have hflen : (fs.getD u []).length = 2 * (w * order) + 1 := by
        rw [hfu]; exact filtIter_length w (w * order) _ (by simp [oneHot]) u
      have hout : (fs.map (fun f => corrValid xp f)).getD u [] = corrValid xp (fs.getD u []) := by
        simp [List.getD_eq_getElem?_getD, List.getElem?_map, List.getElem?_eq_getElem hful]
      rw [hout, corr_padded mode (w * order) row xp _ hp hflen t ht]
      have hview : ∀ n, view (fs.getD u []) (w * order) n = gpow w u n :=
        fun n => (C18_delta_filter_power order w u hu fs hfs' n).1
      have hle : u * w ≤ w * order := by
        calc u * w ≤ order * w := Nat.mul_le_mul_right w hu
          _ = w * order := Nat.mul_comm _ _
      have hle' : ((u * w : Nat) : Int) ≤ ((w * order : Nat) : Int) := by exact_mod_cast hle
      rw [← gpow_sum_eq_deltaSpec]
      rw [sum_Icc_extend (fun n => gpow w u n * extAt mode row ((t : Int) + n))
        (-((u * w : Nat) : Int)) ((u * w : Nat) : Int) (-((w * order : Nat) : Int))
        ((w * order : Nat) : Int) (by omega) (by omega)
        (by intro m hm; rw [gpow_support w u m hm]; ring)]
      apply Finset.sum_congr rfl
      intro n _
      rw [hview]


/-- The same statement for the whole row at once: the model's `conv1d` output IS the table of
the recursive formula for orders `0..order` and frames `0..T-1`. -/
theorem C18_delta_row (mode : PadMode) (order w : Nat) (fs : List (List Rat))
    (hfs : deltaFilters order w = some fs) (row : List Rat) (outs : List (List Rat))
    (h : deltaRow mode order w fs row = some outs) :
    outs = deltaRowSpec mode order w row := by
  have hfl : fs.length = order + 1 := by
    unfold deltaFilters at hfs
    split at hfs
    · cases hfs
    · simp only [Option.some.injEq] at hfs; rw [← hfs]; simp
  have hol : outs.length = order + 1 := by
    unfold deltaRow at h
    cases hp : pad1d mode (w * order) row with
    | none => rw [hp] at h; cases h
    | some xp =>
      rw [hp] at h; simp only [Option.map_some, Option.some.injEq] at h
      rw [← h]; simpa using hfl
  apply List.ext_getElem
  · rw [hol]; simp [deltaRowSpec]
  · intro u hu1 hu2
    have hu : u ≤ order := by omega
    have hrow : (outs[u]).length = row.length := by
      unfold deltaRow at h
      cases hp : pad1d mode (w * order) row with
      | none => rw [hp] at h; cases h
      | some xp =>
        rw [hp] at h; simp only [Option.map_some, Option.some.injEq] at h
        subst h
        have hl := pad1d_length mode (w * order) row xp hp
        have hful : u < fs.length := by omega
        have hflen : (fs[u]).length = 2 * (w * order) + 1 := by
          have hfs' := hfs
          unfold deltaFilters at hfs
          split at hfs
          · cases hfs
          · simp only [Option.some.injEq] at hfs
            subst hfs
            simp only [List.getElem_map, List.getElem_range]
            have hlen : 1 + 2 * w * order = 2 * (w * order) + 1 := by ring
            rw [hlen]
            exact filtIter_length w (w * order) _ (by simp [oneHot]) u
        simp only [List.getElem_map, corrValid_length, hflen, hl]
        omega
    apply List.ext_getElem
    · rw [hrow]; simp [deltaRowSpec]
    · intro t ht1 ht2
      have ht : t < row.length := by omega
      have := C18_delta_filters mode order w fs hfs row outs h u hu t ht
      simp only [List.getD_eq_getElem?_getD, List.getElem?_eq_getElem hu1, Option.getD_some,
        List.getElem?_eq_getElem ht1] at this
      rw [this]
      simp [deltaRowSpec]

/-- The other conceivable reading of "extended by the edge padding" — re-extending EVERY order
by the padding before the next regression step (as HTK does) — is NOT what the code computes
and not what the theorems above state. -/
def deltaRepad (mode : PadMode) (w : Nat) (row : List Rat) : Nat → List Rat
  | 0 => row
  | u + 1 => (List.range row.length).map
      (fun (t : Nat) => regDelta w (extAt mode (deltaRepad mode w row u)) (t : Int))

/-- Concrete witness of the difference (row `[0, 1, 4]`, width 1, replicate, second order at
`t = 0`): padding once by `width·order` gives 1 (the code's value, replayed by the harness,
corpus/C18/edges.json), re-padding per order would give 3/4. -/
theorem C18_delta_pad_once_not_per_order :
    deltaSpec 1 (extAt .replicate [0, 1, 4]) 2 0 = 1 ∧
    (deltaRepad .replicate 1 [0, 1, 4] 2).getD 0 0 = 3 / 4 := by decide +kernel

/-! ## Deltas: the layout -/

/-- **C18_delta_layout.**  For a tensor of ANY rank, any `dim` / `time_dim` (negative aliases
included), stacking or concatenation, any order, width and pad mode: the model of
`feat_deltas` — which follows the code's chain `transpose(time_dim, -1)`, flatten to rows, pad,
`conv1d`, `view`, `transpose(-2, -1)`, `transpose(time_dim, -2)`, `movedim(-1, dim)`,
`flatten(dim, dim + 1)` on a row-major buffer — IS the declarative index map
`featDeltasSpec`: it raises (`none`) exactly when the width is 0, `time_dim` or `dim` is out
of range, the time axis has extent 0, or the padding is illegal for the number of frames (`pad` and
`conv1d` check the shape: also when another axis is empty); otherwise the output has the shape
of `x` with an axis of size `order + 1` inserted at `dim` (stack) or with axis `dim`
multiplied by `order + 1` (concatenate, order-major: entry `u·S + c` of that axis is order `u`
of coefficient `c`), and its entry at `(…, u, …)` is `deltaSpec w (extAt mode signal) u t` — the
recursive regression formula of order `u` at frame `t` on the edge-extended 1-D signal that
runs along `time_dim` through the remaining coordinates.  No hypothesis on `x` (not even
`data.length = prod shape`). -/
theorem C18_delta_layout (x : Tensor) (dim timeDim : Int) (concatenate : Bool) (order w : Nat)
    (mode : PadMode) :
    featDeltas x dim timeDim concatenate order w mode
      = featDeltasSpec x dim timeDim concatenate order w mode := by
  unfold featDeltas featDeltasSpec
  by_cases hw : w < 1
  · simp [deltaFilters, hw]
  · cases hfs : deltaFilters order w with
    | none => simp [deltaFilters, hw] at hfs
    | some fs =>
      simp only [hw, if_false]
      cases htd : normDim timeDim x.shape.length with
      | none => simp
      | some td =>
        cases hdm : normDim dim (if concatenate = true then x.shape.length else x.shape.length + 1) with
        | none => simp
        | some dm =>
          have htd' := normDim_some htd
          have hdm' := normDim_some hdm
          obtain ⟨m, hm⟩ : ∃ m, x.shape.length = m + 1 := ⟨x.shape.length - 1, by omega⟩
          have hcore := featDeltasCore_eq x m td dm order w concatenate mode fs hm (by omega)
            (by cases concatenate <;> simp at hdm' ⊢ <;> omega)
            (fun row outs h => C18_delta_row mode order w fs hfs row outs h)
          simp only [Option.bind_eq_bind, Option.bind_some, Option.pure_def]
          rw [hcore]
          split <;> rfl

/-! ## The tensor level -/

/-- `accumulate` on tensors is `accumulateCols` on the coefficient columns
(`transpose(0, dim).unsqueeze(-1).flatten(1)`), so the theorems above apply to any history of
tensors with at least one coefficient.  Bridge lemma: true by definition of `accumulate`
(`List.foldl_map`), NOT counted as an obligation; the content is in `C18_columns_entries` /
`C18_accumulate_entries`.  (Without any coefficient: `C18_accumulate_no_coefficient`.) -/
theorem C18_accumulate_tensors (dim : Nat) (xs : List Tensor)
    (hX : ∀ x ∈ xs, x.shape.getD dim 1 ≠ 0) :
    accumulateAll dim xs = accumulateAllCols (xs.map (fun x => columns x dim)) := by
  unfold accumulateAll accumulateAllCols
  rw [List.foldl_map]
  generalize (none : Option Acc) = st
  induction xs generalizing st with
  | nil => rfl
  | cons x xs ih =>
    simp only [List.foldl_cons]
    have hx : accumulate st x dim = accumulateCols st (columns x dim) := by
      unfold accumulate
      exact if_neg (hX x List.mem_cons_self)
    rw [hx]
    exact ih (fun y hy => hX y (by simp [hy])) _

/-- One `accumulate` call on a tensor WITHOUT any coefficient (`x.size(dim) = 0`). -/
theorem accumulate_no_coefficient (st : Option Acc) (x : Tensor) (dim : Nat)
    (h0 : x.shape.getD dim 1 = 0) (hst : st = none ∨ ∃ n, st = some ⟨n, [], []⟩) :
    accumulate st x dim = ⟨(st.map (·.count)).getD 0 + frameCount x dim, [], []⟩ := by
  have hc : columns x dim = [] := by
    show rowsOf _ _ (x.shape.getD dim 1) = []
    rw [h0]; rfl
  have hx : accumulate st x dim
      = { accumulateCols st (columns x dim) with
          count := (st.map (·.count)).getD 0 + frameCount x dim } := by
    unfold accumulate
    exact if_pos h0
  rw [hx, hc]
  rcases hst with rfl | ⟨n, rfl⟩ <;> simp [accumulateCols]

/-- **C18_accumulate_no_coefficient** (audit).  A normalised dimension of extent 0: after any
non-empty history of such tensors the buffers are `count =` the total number of frames
(`frameCount`: the product of the other extents — the code's `x.size(1)`), `sum = sumsq = []`, and
`store(bessel)` raises exactly below the documented minimum count and otherwise writes EMPTY
statistics (it does not raise for want of coefficients). -/
theorem C18_accumulate_no_coefficient (dim : Nat) (x : Tensor) (xs : List Tensor) (bessel : Bool)
    (h0 : ∀ y ∈ x :: xs, y.shape.getD dim 1 = 0) :
    accumulateAll dim (x :: xs) = some ⟨((x :: xs).map (frameCount · dim)).sum, [], []⟩ ∧
    store (accumulateAll dim (x :: xs)) bessel
      = if ((x :: xs).map (frameCount · dim)).sum < (if bessel then 2 else 1) then none
        else some ([], []) := by
  have aux : ∀ (ys : List Tensor) (n : Nat), (∀ y ∈ ys, y.shape.getD dim 1 = 0) →
      ys.foldl (fun st y => some (accumulate st y dim)) (some ⟨n, [], []⟩)
        = some ⟨n + (ys.map (frameCount · dim)).sum, [], []⟩ := by
    intro ys
    induction ys with
    | nil => intro n _; simp
    | cons y ys ih =>
      intro n hy
      simp only [List.foldl_cons, List.map_cons, List.sum_cons]
      rw [accumulate_no_coefficient _ y dim (hy y (by simp)) (Or.inr ⟨n, rfl⟩)]
      simp only [Option.map_some, Option.getD_some]
      rw [ih _ (fun z hz => hy z (by simp [hz])), Nat.add_assoc]
  have hall : accumulateAll dim (x :: xs) = some ⟨((x :: xs).map (frameCount · dim)).sum, [], []⟩ := by
    unfold accumulateAll
    simp only [List.foldl_cons, List.map_cons, List.sum_cons]
    rw [accumulate_no_coefficient none x dim (h0 x (by simp)) (Or.inl rfl)]
    simp only [Option.map_none, Option.getD_none, Nat.zero_add]
    exact aux xs _ (fun z hz => h0 z (by simp [hz]))
  refine ⟨hall, ?_⟩
  rw [hall]
  simp only [store]
  split <;> simp_all

/-- **C18_columns_entries.**  For a tensor of any rank and any normalised dimension `dim`:
coefficient `i`'s frame list in the model of `accumulate` / `forward`
(`x.transpose(0, dim).unsqueeze(-1).flatten(1)`, row `i`) is a rearrangement of exactly those
entries of `x` whose `dim`-th coordinate is `i` (`coeffEntries`: flat positions `k` with
`unravel(shape, k)[dim] = i`) — every such entry once, no other entry. -/
theorem C18_columns_entries (x : Tensor) (dim : Nat) (hdim : dim < x.shape.length) (i : Nat)
    (hi : i < x.shape.getD dim 1) :
    ((columns x dim).getD i []).Perm (coeffEntries x dim i) := by
  rw [columns_getD x _ dim rfl hdim i hi]
  unfold coeffEntries
  have := (column_positions_perm x _ dim rfl hdim i hi).map (fun k => x.data.getD k 0)
  rwa [List.map_map] at this

/-- **C18_accumulate_entries.**  End to end on tensors: after any history `xs` of `accumulate`
calls (tensors of one rank, `X` coefficients along `dim`), the buffers hold for every
coefficient `i` the number / sum / sum of squares of ALL entries of all tensors whose `dim`-th
coordinate is `i` — `pool` is any rearrangement of those entries; with `C18_store` this makes
the stored statistics the pooled mean and variance of exactly those entries. -/
theorem C18_accumulate_entries (dim : Nat) (xs : List Tensor) (X : Nat) (a : Acc)
    (hdim : ∀ x ∈ xs, dim < x.shape.length) (hX : ∀ x ∈ xs, x.shape.getD dim 1 = X)
    (h : accumulateAll dim xs = some a) (i : Nat) (hi : i < X) (pool : List Rat)
    (hp : pool.Perm (xs.flatMap (fun x => coeffEntries x dim i))) :
    a.count = pool.length ∧ a.sum.getD i 0 = pool.sum ∧ a.sumsq.getD i 0 = sumSq pool := by
  rw [C18_accumulate_tensors dim xs (fun x hx => by rw [hX x hx]; omega)] at h
  have hlen : ∀ x ∈ xs, ∀ j, j < X → ((columns x dim).getD j []).length = x.numel / X := by
    intro x hx j hj
    rw [columns_getD x _ dim rfl (hdim x hx) j (by rw [hX x hx]; exact hj), hX x hx]
    simp
  apply C18_accumulate (xs.map (fun x => columns x dim)) X a ?_ ?_ h i hi pool
  · refine hp.trans ?_
    rw [List.flatMap_map]
    apply List.Perm.flatMap_left
    intro x hx
    exact (C18_columns_entries x dim (hdim x hx) i (by rw [hX x hx]; exact hi)).symm
  · intro c hc
    obtain ⟨x, hx, rfl⟩ := List.mem_map.mp hc
    rw [columns_length, hX x hx]
  · intro c hc j hj
    obtain ⟨x, hx, rfl⟩ := List.mem_map.mp hc
    have h0 : ((columns x dim).headD []) = (columns x dim).getD 0 [] := by
      cases columns x dim <;> rfl
    rw [h0, hlen x hx j hj, hlen x hx 0 (by omega)]

/-- **C18_forward_layout.**  On tensors of any rank and any normalised `dim`, the model of
`mean_var_norm` (`transpose(0, dim)…flatten(1)`, normalise every column, reshape and transpose
back) IS the documented formula entry by entry: the output has the shape of `x` and its entry at
flat position `k` is `(x[k] − mean[i]) / max(std[i], eps)` with `i` the `dim`-th coordinate of
`k` — for stored statistics, for the input's own mean (`mean? = none`: the mean of
`columns`, i.e. by `C18_columns_entries` of the entries with coordinate `i`) and for `sqrtOwn`
standing for the trusted `sqrt` of the own variance. -/
theorem C18_forward_layout (x : Tensor) (dim : Nat) (hdim : dim < x.shape.length)
    (mean? std? : Option (List Rat)) (sq : List Rat) (eps : Rat)
    (hmu : (mean?.getD ((columns x dim).map mean)).length = x.shape.getD dim 1)
    (hsd : (std?.getD sq).length = x.shape.getD dim 1) :
    (meanVarNorm x dim mean? std? sq eps).2.2
      = mvnSpec x dim (mean?.getD ((columns x dim).map mean)) (std?.getD sq) eps :=
  meanVarNorm_layout x _ dim rfl hdim mean? std? sq eps hmu hsd

/-! ## `mean_var_norm` with every combination of supplied / omitted statistics -/

/-- **C18_forward_combinations.**  For each of the four combinations (`mean?`, `std?` given or
`none`) and every coefficient `i`: the mean in use is the supplied one, else the input's OWN
mean; the variance whose (trusted) square root `sq[i]` stands in for an omitted `std` is the
input's OWN biased variance `(1/n) Σ (x − x̄)²` — whatever mean was supplied (the code takes the
deviation of the already centred input; centring with any constant does not change it); and the
output column is `(x − mean[i]) / max(std[i], eps)` with those two. -/
theorem C18_forward_combinations (cols : List (List Rat)) (mean? std? : Option (List Rat))
    (sq : List Rat) (eps : Rat) (i : Nat) (hi : i < cols.length)
    (hm : ∀ m, mean? = some m → i < m.length) (hs : i < (std?.getD sq).length) :
    (meanVarNormCols cols mean? std? sq eps).1.getD i 0
      = statUsed mean? (poolMean (cols.getD i [])) i ∧
    (meanVarNormCols cols mean? std? sq eps).2.1.getD i 0 = poolVar (cols.getD i []) ∧
    (meanVarNormCols cols mean? std? sq eps).2.2.getD i []
      = normCol (cols.getD i []) (statUsed mean? (poolMean (cols.getD i [])) i)
          (statUsed std? (sq.getD i 0) i) eps := by
  have hm' : i < (mean?.getD (cols.map mean)).length := by
    cases mean? with
    | none => simpa using hi
    | some m => simpa using hm m rfl
  have hmu : (mean?.getD (cols.map mean)).getD i 0 = statUsed mean? (poolMean (cols.getD i [])) i := by
    cases mean? with
    | none => simp [statUsed, List.getD_eq_getElem?_getD, List.getElem?_eq_getElem hi, mean_eq_poolMean]
    | some m => rfl
  have hsd : (std?.getD sq).getD i 0 = statUsed std? (sq.getD i 0) i := by
    cases std? <;> rfl
  refine ⟨?_, meanVarNormCols_var cols mean? std? sq eps i hi hm', ?_⟩
  · rw [meanVarNormCols_mean, hmu]
  · rw [meanVarNormCols_ys cols mean? std? sq eps i hi hm' hs, hmu, hsd]

/-- **Mean supplied, std omitted.**  A column centred with ANY supplied mean `m` and scaled with
`s`, `s² =` the column's own variance `> 0` (clamp inactive), has variance 1 and mean
`(x̄ − m) / s`: unit variance does not need the supplied mean to be the own mean. -/
theorem C18_forward_mean_only (col : List Rat) (m s eps : Rat) (hpos : 0 < poolVar col)
    (hs : s * s = poolVar col) (he : eps ≤ s) :
    poolVar (normCol col m s eps) = 1 ∧
    poolMean (normCol col m s eps) = (poolMean col - m) / s := by
  have hn : 0 < col.length := by
    rcases Nat.eq_zero_or_pos col.length with h0 | h0
    · have : col = [] := List.length_eq_zero_iff.mp h0
      subst this
      simp [poolVar] at hpos
    · exact h0
  obtain ⟨n1, n2⟩ := C18_normalized col s eps hpos hs he
  have hl : 0 < (normCol col (poolMean col) s eps).length := by rw [length_normCol]; exact hn
  rw [normCol_recentre col m (poolMean col) s eps]
  refine ⟨by rw [poolVar_shift _ _ hl, n2], ?_⟩
  rw [poolMean_shift _ _ hl, n1, max_eq_left he]
  ring

/-- **Std supplied, mean omitted.**  A column centred with its own mean has mean 0 whatever
non-zero divisor `max(s, eps)` it is divided by.  (The guard keeps the statement inside the domain
where the model is the code: with `max(s, eps) = 0` the rationals give `x / 0 = 0`, hence also mean
0, but the real code gives `inf` / `NaN`.) -/
theorem C18_forward_std_only (col : List Rat) (s eps : Rat) (_hd : max s eps ≠ 0) :
    poolMean (normCol col (poolMean col) s eps) = 0 := by
  unfold poolMean normCol
  rw [sum_sub_div]
  rcases Nat.eq_zero_or_pos col.length with h0 | h0
  · have : col = [] := List.length_eq_zero_iff.mp h0
    subst this
    simp
  · have hn' : (col.length : Rat) ≠ 0 := by exact_mod_cast (Nat.pos_iff_ne_zero.mp h0)
    have : col.sum - col.length * (col.sum / col.length) = 0 := by field_simp; ring
    rw [this]; simp

/-! ## The module as a state machine -/

/-- **C18_machine.**  Start from a module whose buffers hold the chunks `pend` (`[]`: no buffers) and
whose statistics are `cur` (`none`, or whatever was passed to the constructor).  After ANY sequence
of `accumulate` / `store(delete_stats, bessel)` calls — stores that raise included, the caller
carrying on — the buffers are exactly the totals of `pendingSpec pend ops` (everything accumulated
since the last `store(delete_stats=True)` that did not raise; no buffers iff that list is empty)
and the statistics are `statsSpec pend cur ops` (the pooled mean / variance of what was pending at
the last `store` that did not raise, else `cur`).  `0 < X`: with NO coefficient (`x.size(dim) = 0`)
the code still counts the frames (`count += x.size(1)`) while the model, which sees the frames only
through the coefficient columns, counts 0 — outside the modelled domain. -/
theorem C18_machine (X : Nat) (ops : List MvnOp) (pend : List (List (List Rat)))
    (cur : Option (List Rat × List Rat)) (_hX0 : 0 < X) (hp : ChunksOK X pend) (ho : OpsOK X ops) :
    mvnRun ⟨accumulateAllCols pend, cur⟩ ops
      = ⟨accumulateAllCols (pendingSpec pend ops), statsSpec pend cur ops⟩ :=
  mvnRun_spec X ops pend cur hp ho

/-- **One `store` call.**  It raises iff nothing is pending or fewer frames than the estimate needs,
and then leaves buffers and statistics untouched; otherwise it overwrites the statistics with the
pooled ones, keeps the buffers as they are under `delete_stats=False` and drops them otherwise. -/
theorem C18_machine_store (X : Nat) (pend : List (List (List Rat)))
    (cur : Option (List Rat × List Rat)) (del bessel : Bool) (_hX0 : 0 < X) (hp : ChunksOK X pend) :
    mvnStep ⟨accumulateAllCols pend, cur⟩ (.store del bessel)
      = if storeOk pend bessel then
          (⟨if del then none else accumulateAllCols pend, some (pooledStats pend bessel)⟩, false)
        else (⟨accumulateAllCols pend, cur⟩, true) := by
  simp only [mvnStep]
  rw [store_accumulateAllCols pend X bessel hp]
  by_cases hso : storeOk pend bessel = true <;> simp [hso]

/-- **Entry level.**  When the pending chunks are the columns of tensors `xs` (one rank, `X`
coefficients along `dim`), the statistics a successful `store` writes are, for every coefficient
`i`, the pooled mean and (biased / Bessel) variance of exactly the entries of all pending tensors
whose `dim`-th coordinate is `i` (`pool`: any rearrangement of them). -/
theorem C18_machine_entries (dim : Nat) (x : Tensor) (xs : List Tensor) (X : Nat) (bessel : Bool)
    (hdim : ∀ y ∈ x :: xs, dim < y.shape.length) (hX : ∀ y ∈ x :: xs, y.shape.getD dim 1 = X)
    (i : Nat) (hi : i < X) (pool : List Rat)
    (hp : pool.Perm ((x :: xs).flatMap (fun y => coeffEntries y dim i))) :
    (pooledStats ((x :: xs).map (fun y => columns y dim)) bessel).1.getD i 0 = poolMean pool ∧
    (pooledStats ((x :: xs).map (fun y => columns y dim)) bessel).2.getD i 0
      = (if bessel then poolVarBessel pool else poolVar pool) := by
  have hperm : pool.Perm (poolOf ((x :: xs).map (fun y => columns y dim)) i) := by
    refine hp.trans ?_
    unfold poolOf
    rw [List.flatMap_map]
    apply List.Perm.flatMap_left
    intro y hy
    exact (C18_columns_entries y dim (hdim y hy) i (by rw [hX y hy]; exact hi)).symm
  have hh : i < (((x :: xs).map (fun y => columns y dim)).headD []).length := by
    simp only [List.map_cons, List.headD_cons, columns_length]
    rw [hX x (by simp)]; exact hi
  obtain ⟨p1, p2⟩ := pooledStats_getD _ bessel i hh
  rw [p1, p2, poolMean_perm hperm, poolVar_perm hperm, poolVarBessel_perm hperm]
  exact ⟨rfl, rfl⟩

/-! ## The directory command: one set of statistics per group -/

/-- **C18_cli_groups.**  When `compute-mvn-stats-for-torch-feat-data-dir` writes a dictionary, its
entries are exactly: for every group id `g` of the group table (the ids named by `--id2gid`, or
the single group `None` without it) that has at least one file, the result of `store(bessel)`
on the buffers of the history "the files of group `g`, in directory order" — i.e. of
`accumulateAllCols` over that group's files only (`groupFiles`: the files whose id the map sends
to `g`).  Groups without a file are left out (`store` on no buffers is `none`). -/
theorem C18_cli_groups (m : Option (List (String × String)))
    (files : List (String × List (List Rat))) (bessel : Bool)
    (l : List (Option String × (List Rat × List Rat)))
    (h : cliStats m files bessel = .wrote l) (g : Option String) (st : List Rat × List Rat) :
    (g, st) ∈ l ↔ g ∈ (cliTable m).map (·.1) ∧
      store (accumulateAllCols ((groupFiles m files g).map (·.2))) bessel = some st := by
  unfold cliStats at h
  split at h
  · cases hl : cliLoop m (cliTable m) files with
    | none => rw [hl] at h; simp at h
    | some t =>
      rw [hl] at h
      simp only at h
      rw [cliFinish_wrote bessel t l h g st, cliLoop_spec m files _ t hl]
      constructor
      · rintro ⟨a, ha, hs⟩
        obtain ⟨p, hp, hpe⟩ := List.mem_map.mp ha
        simp only [Prod.mk.injEq] at hpe
        obtain ⟨rfl, hf⟩ := hpe
        rw [cliTable_snd m p hp, foldl_accumulate_files] at hf
        exact ⟨List.mem_map.mpr ⟨p, hp, rfl⟩, by rw [hf]; exact hs⟩
      · rintro ⟨hg, hs⟩
        obtain ⟨p, hp, rfl⟩ := List.mem_map.mp hg
        cases ha : accumulateAllCols ((groupFiles m files p.1).map (·.2)) with
        | none => rw [ha] at hs; simp [store] at hs
        | some a =>
          refine ⟨a, List.mem_map.mpr ⟨p, hp, ?_⟩, by rw [← ha]; exact hs⟩
          rw [cliTable_snd m p hp, foldl_accumulate_files, ha]
  · simp at h

/-- **C18_cli_group_stats** (composition with `C18_accumulate_store`).  The statistics written for a
group are the pooled statistics of the union of its files: for every coefficient `i` the mean
and the (biased / `--bessel`) variance of ALL frames of all files of the group, and of no other
file. -/
theorem C18_cli_group_stats (m : Option (List (String × String)))
    (files : List (String × List (List Rat))) (bessel : Bool)
    (l : List (Option String × (List Rat × List Rat)))
    (h : cliStats m files bessel = .wrote l) (g : Option String) (st : List Rat × List Rat)
    (hg : (g, st) ∈ l) (X : Nat) (hok : ChunksOK X ((groupFiles m files g).map (·.2)))
    (i : Nat) (hi : i < X) (pool : List Rat)
    (hp : pool.Perm (poolOf ((groupFiles m files g).map (·.2)) i)) :
    st.1.getD i 0 = poolMean pool ∧
    st.2.getD i 0 = (if bessel then poolVarBessel pool else poolVar pool) := by
  obtain ⟨_, hs⟩ := (C18_cli_groups m files bessel l h g st).mp hg
  exact C18_accumulate_store _ X bessel st.1 st.2 (fun c hc => (hok c hc).1)
    (fun c hc => (hok c hc).2) hs i hi pool hp

/-- **Exit status 1** (nothing written) exactly for: an id listed twice in the map, a feature file
whose id the map does not list, or no `--id2gid` and no feature file at all. -/
theorem C18_cli_exit1 (m : Option (List (String × String)))
    (files : List (String × List (List Rat))) (bessel : Bool) :
    cliStats m files bessel = .exit1 ↔
      (cliMapOk m = false ∨ (∃ f ∈ files, cliLookup m f.1 = none) ∨ (m = none ∧ files = [])) := by
  unfold cliStats
  by_cases hok : cliMapOk m = true
  · simp only [hok, if_true]
    cases hl : cliLoop m (cliTable m) files with
    | none =>
      have := (cliLoop_none m files _).mp hl
      simp [this]
    | some t =>
      have hno : ¬ ∃ f ∈ files, cliLookup m f.1 = none := by
        intro hex
        have := (cliLoop_none m files (cliTable m)).mpr hex
        rw [hl] at this; simp at this
      simp only [hno, false_or, Bool.true_eq_false]
      have ht := cliLoop_spec m files _ t hl
      cases m with
      | none =>
        simp only [cliTable, List.map_cons, List.map_nil] at ht
        subst ht
        cases files with
        | nil => simp [groupFiles, cliFinish]
        | cons f rest =>
          have hgf : groupFiles none (f :: rest) none = f :: rest := by
            simp [groupFiles, cliLookup]
          rw [hgf, foldl_accumulate_files]
          obtain ⟨a, ha⟩ := accumulateAllCols_cons f.2 (rest.map (·.2))
          rw [List.map_cons, ha]
          simp only [cliFinish]
          cases store (some a) bessel <;> simp
      | some tbl =>
        constructor
        · intro hx
          have hmem := cliFinish_exit1 bessel t hx
          rw [ht] at hmem
          obtain ⟨p, hp, hpe⟩ := List.mem_map.mp hmem
          simp only [cliTable, List.mem_map] at hp
          obtain ⟨g', hg', rfl⟩ := hp
          obtain ⟨q, _, rfl⟩ := List.mem_map.mp (List.mem_eraseDups.mp hg')
          simp at hpe
        · simp
  · have hok' : cliMapOk m = false := by simpa using hok
    simp [hok']

/-! ## Non-vacuity: the hypotheses are satisfiable on concrete inputs -/

-- two chunks (2 frames + 1 frame) of 2 coefficients; the pool of coefficient 0 in another order
example : accumulateAllCols [[[1, 3], [2, 5]], [[5], [2]]] = some ⟨3, [9, 9], [35, 33]⟩ := by
  decide +kernel
example : ([5, 1, 3] : List Rat).Perm
    (([[[1, 3], [2, 5]], [[5], [2]]] : List (List (List Rat))).flatMap (fun c => c.getD 0 [])) := by
  decide
example : store (some ⟨3, [9, 9], [35, 33]⟩) false = some ([3, 3], [8 / 3, 2]) := by decide +kernel
example : store (some ⟨3, [9, 9], [35, 33]⟩) true = some ([3, 3], [4, 3]) := by decide +kernel
example : store (some ⟨1, [9], [81]⟩) false = some ([9], [0]) ∧ store (some ⟨1, [9], [81]⟩) true = none := by
  decide +kernel
example : poolVar [1, 3, 5] = 8 / 3 ∧ poolVarBessel [1, 3, 5] = 4 ∧ poolMean [1, 3, 5] = 3 := by
  decide +kernel
-- C18_normalized with an exact square root: variance 4, s = 2
example : poolVar [1, 5, 1, 5] = 4 ∧ (2 : Rat) * 2 = 4 ∧
    normCol [1, 5, 1, 5] (poolMean [1, 5, 1, 5]) 2 0 = [-1, 1, -1, 1] := by decide +kernel
example : poolVarBessel [1, 3, 5] = 4 ∧
    normCol [1, 3, 5] (poolMean [1, 3, 5]) 2 (1 / 1000) = [-1, 0, 1] := by decide +kernel
-- returns, both layouts, γ = 1/2 and γ = 0
example : tdReturn [[1, 2], [3, 4], [5, 6]] 2 (1 / 2) false = [[15 / 4, 11 / 2], [11 / 2, 7], [5, 6]] := by
  decide +kernel
example : tdReturn [[1, 3, 5], [2, 4, 6]] 3 (1 / 2) true = [[15 / 4, 11 / 2, 5], [11 / 2, 7, 6]] := by
  decide +kernel
example : tdReturn [[1, 2], [3, 4]] 2 0 false = [[1, 2], [3, 4]] ∧
    tdReturnQuot [[1, 2], [3, 4]] 2 2 false = [[7, 10], [3, 4]] := by decide +kernel
-- deltas: filters of order 2, width 1; one padded row
example : deltaFilters 2 1 = some [[0, 0, 1, 0, 0], [0, -1 / 2, 0, 1 / 2, 0], [1 / 4, 0, -1 / 2, 0, 1 / 4]] := by
  decide +kernel
example : deltaRow .replicate 2 1 [[0, 0, 1, 0, 0], [0, -1 / 2, 0, 1 / 2, 0], [1 / 4, 0, -1 / 2, 0, 1 / 4]]
    [0, 1, 4] = some [[0, 1, 4], [1 / 2, 2, 3 / 2], [1, 1 / 2, -1]] := by decide +kernel
example : deltaRow .reflect 1 2 [[0, 0, 1, 0, 0], [-1 / 5, -1 / 10, 0, 1 / 10, 1 / 5]] [0, 1] = none := by
  decide +kernel
-- layout: stack on a new leading axis; concatenate (order-major) on the last axis; dim out of range
example : featDeltas ⟨[2, 3], [0, 1, 4, 3, 4, 5]⟩ 0 (-1) false 1 1 .replicate
    = some ⟨[2, 2, 3], [0, 1, 4, 3, 4, 5, 1 / 2, 2, 3 / 2, 1 / 2, 1, 1 / 2]⟩ := by decide +kernel
example : featDeltas ⟨[2, 3], [0, 1, 4, 3, 4, 5]⟩ (-1) 0 true 1 1 (.constant 1)
    = some ⟨[2, 6], [0, 1, 4, 1, 3 / 2, 2, 3, 4, 5, 1 / 2, 0, -3 / 2]⟩ := by decide +kernel
example : featDeltas ⟨[2, 3], [0, 1, 4, 3, 4, 5]⟩ 2 0 true 1 1 (.constant 1) = none ∧
    featDeltasSpec ⟨[2, 3], [0, 1, 4, 3, 4, 5]⟩ 2 0 true 1 1 (.constant 1) = none := by decide +kernel
-- reflect needs pad < T: order 2, width 1 on 3 frames is legal, on 2 frames it is not
example : featDeltas ⟨[2, 3], [0, 1, 4, 3, 4, 5]⟩ 0 1 true 2 1 .reflect
    = some ⟨[6, 3], [0, 1, 4, 3, 4, 5, 0, 2, 0, 0, 1, 0, 2, 0, -2, 1, 0, -1]⟩ ∧
    featDeltas ⟨[3, 2], [0, 1, 4, 3, 4, 5]⟩ 0 1 true 2 1 .reflect = none := by decide +kernel
-- columns of a rank-3 tensor along its last axis: a rearrangement (not the row-major order) of
-- the entries with that coordinate
example : columns ⟨[2, 2, 2], [1, 2, 3, 4, 5, 6, 7, 8]⟩ 2 = [[1, 5, 3, 7], [2, 6, 4, 8]] ∧
    coeffEntries ⟨[2, 2, 2], [1, 2, 3, 4, 5, 6, 7, 8]⟩ 2 0 = [1, 3, 5, 7] ∧
    coeffEntries ⟨[2, 2, 2], [1, 2, 3, 4, 5, 6, 7, 8]⟩ 2 1 = [2, 4, 6, 8] := by decide +kernel
example : (meanVarNorm ⟨[2, 2], [1, 2, 5, 4]⟩ 1 (some [3, 3]) (some [2, 1]) [] 0).2.2
    = ⟨[2, 2], [-1, -1, 1, 1]⟩ ∧ mvnSpec ⟨[2, 2], [1, 2, 5, 4]⟩ 1 [3, 3] [2, 1] 0 = ⟨[2, 2], [-1, -1, 1, 1]⟩ := by
  decide +kernel

-- mean supplied (0, not the own mean 3), std omitted: the variance handed to sqrt is the own 4 (not the
-- mean square 13 of the centred input); with sqrt 4 = 2 the output is (x - 0) / 2
example : meanVarNormCols [[1, 5, 1, 5]] (some [0]) none [2] 0 = ([0], [4], [[1 / 2, 5 / 2, 1 / 2, 5 / 2]]) ∧
    poolVar [1 / 2, 5 / 2, 1 / 2, 5 / 2] = 1 ∧ poolMean [1 / 2, 5 / 2, 1 / 2, 5 / 2] = (3 - 0) / 2 := by
  decide +kernel
-- std supplied, mean omitted
example : meanVarNormCols [[1, 5, 1, 5]] none (some [4]) [] 0 = ([3], [4], [[-1 / 2, 1 / 2, -1 / 2, 1 / 2]]) := by
  decide +kernel
-- the state machine: accumulate, keeping store, accumulate, deleting Bessel store, a store that raises
example : mvnRun ⟨none, none⟩ [.accumulate [[1, 3]], .store false false, .accumulate [[5]], .store true true,
      .store true false]
    = ⟨none, some ([3], [4])⟩ ∧
    (mvnStep ⟨none, some ([3], [4])⟩ (.store true false)).2 = true ∧
    mvnRun ⟨none, none⟩ [.accumulate [[1, 3]], .store false false, .accumulate [[5]]]
      = ⟨some ⟨3, [9], [35]⟩, some ([2], [1])⟩ ∧
    pendingSpec [] [.accumulate [[1, 3]], .store false false, .accumulate [[5]]] = [[[1, 3]], [[5]]] := by
  decide +kernel
example : OpsOK 1 [.accumulate [[1, 3]], .store false false, .accumulate [[5]]] := by
  intro c hc
  simp at hc
  rcases hc with rfl | rfl
  · refine ⟨rfl, fun i hi => ?_⟩
    have : i = 0 := by omega
    subst this; rfl
  · refine ⟨rfl, fun i hi => ?_⟩
    have : i = 0 := by omega
    subst this; rfl
-- the command: three files in two groups, a group without a file is left out; an unlisted file: exit 1
example : cliStats (some [("a", "g1"), ("b", "g2"), ("c", "g1"), ("z", "g3")])
      [("a", [[1, 3]]), ("b", [[7]]), ("c", [[5]])] false
    = .wrote [(some "g1", ([3], [8 / 3])), (some "g2", ([7], [0]))] ∧
    cliStats (some [("a", "g1")]) [("a", [[1, 3]]), ("b", [[7]])] false = .exit1 ∧
    cliStats none [("a", [[1, 3]]), ("b", [[5]])] true = .wrote [(none, ([3], [4]))] ∧
    cliStats none [] false = .exit1 ∧ cliStats none [("a", [[1]])] true = .raised := by
  decide +kernel

/-! ## Non-vacuity (audit): every theorem applied to a concrete, non-trivial instance that satisfies
ALL its hypotheses together -/

section NonVacuity

/-- two calls (2 frames + 1 frame) of 2 coefficients -/
private def nvChunks : List (List (List Rat)) := [[[1, 3], [2, 5]], [[5], [2]]]
/-- the same frames, the other order and another cut (1 + 1 + 1) -/
private def nvChunks' : List (List (List Rat)) := [[[5], [2]], [[3], [5]], [[1], [2]]]

theorem C18_accumulate_nonvacuous :
    (⟨3, [9, 9], [35, 33]⟩ : Acc).count = ([5, 1, 3] : List Rat).length ∧
    (⟨3, [9, 9], [35, 33]⟩ : Acc).sum.getD 0 0 = ([5, 1, 3] : List Rat).sum ∧
    (⟨3, [9, 9], [35, 33]⟩ : Acc).sumsq.getD 0 0 = sumSq [5, 1, 3] :=
  C18_accumulate nvChunks 2 ⟨3, [9, 9], [35, 33]⟩ (by decide +kernel) (by decide +kernel)
    (by decide +kernel) 0 (by decide) [5, 1, 3] (by decide +kernel)

theorem C18_accumulate_lengths_nonvacuous :
    (⟨3, [9, 9], [35, 33]⟩ : Acc).sum.length = 2 ∧ (⟨3, [9, 9], [35, 33]⟩ : Acc).sumsq.length = 2 :=
  C18_accumulate_lengths nvChunks 2 ⟨3, [9, 9], [35, 33]⟩ (by decide +kernel) (by decide +kernel)

/-- two DIFFERENT histories (order and cut) over the same frames -/
theorem C18_accumulate_history_nonvacuous : nvChunks ≠ nvChunks' ∧
    (⟨3, [9, 9], [35, 33]⟩ : Acc) = ⟨3, [9, 9], [35, 33]⟩ :=
  ⟨by decide +kernel,
   C18_accumulate_history nvChunks nvChunks' 2 _ _ (by decide +kernel) (by decide +kernel)
    (by decide +kernel) (by decide +kernel) (by decide +kernel) (by decide +kernel) (by decide)
    (by decide +kernel)⟩

/-- both directions of `C18_store_raises`: one frame under Bessel raises, three frames do not -/
theorem C18_store_raises_nonvacuous :
    store (accumulateAllCols [[[9]]]) true = none ∧ store (accumulateAllCols nvChunks) true ≠ none := by
  have hok1 : ChunksOK 1 [[[9]]] := by unfold ChunksOK; decide +kernel
  have hok2 : ChunksOK 2 nvChunks := by unfold ChunksOK; decide +kernel
  refine ⟨(C18_store_raises [[[9]]] 1 true (by decide) hok1).mpr (Or.inr (by decide +kernel)), ?_⟩
  intro h
  rcases (C18_store_raises nvChunks 2 true (by decide) hok2).mp h with h | h
  · exact absurd h (by decide +kernel)
  · exact absurd h (by decide +kernel)

theorem C18_store_nonvacuous :
    ([3, 3] : List Rat).getD 0 0 = poolMean [5, 1, 3] ∧
    ([4, 3] : List Rat).getD 0 0 = poolVarBessel [5, 1, 3] := by
  simpa using C18_store ⟨3, [9, 9], [35, 33]⟩ true [3, 3] [4, 3] (by decide +kernel) 0 (by decide)
    (by decide) [5, 1, 3] (by decide) (by decide +kernel) (by decide +kernel)

theorem C18_accumulate_store_nonvacuous :
    ([3, 3] : List Rat).getD 1 0 = poolMean [2, 2, 5] ∧
    ([8 / 3, 2] : List Rat).getD 1 0 = poolVar [2, 2, 5] := by
  simpa using C18_accumulate_store nvChunks 2 false [3, 3] [8 / 3, 2] (by decide +kernel)
    (by decide +kernel) (by decide +kernel) 1 (by decide) [2, 2, 5] (by decide +kernel)

theorem C18_normalized_nonvacuous :
    poolMean (normCol [1, 5, 1, 5] (poolMean [1, 5, 1, 5]) 2 (1 / 1000)) = 0 ∧
    poolVar (normCol [1, 5, 1, 5] (poolMean [1, 5, 1, 5]) 2 (1 / 1000)) = 1 :=
  C18_normalized [1, 5, 1, 5] 2 (1 / 1000) (by decide +kernel) (by decide +kernel) (by decide +kernel)

theorem C18_normalized_bessel_nonvacuous :
    poolMean (normCol [1, 3, 5] (poolMean [1, 3, 5]) 2 (1 / 1000)) = 0 ∧
    poolVarBessel (normCol [1, 3, 5] (poolMean [1, 3, 5]) 2 (1 / 1000)) = 1 :=
  C18_normalized_bessel [1, 3, 5] 2 (1 / 1000) (by decide) (by decide +kernel) (by decide +kernel)
    (by decide +kernel)

/-- two coefficients, the second one (variance 9, sqrt 3) -/
example := C18_forward_own [[1, 5, 1, 5], [0, 6, 0, 6]] [2, 3] (1 / 1000) 1 (by decide) (by decide)
  (by decide +kernel) (by decide +kernel) (by decide +kernel)

/-- end to end: history `nvChunks`, Bessel store `([3, 3], [4, 3])`, deviations `[2, _]`
(`2² = 4`), forward on the pooled column `[5, 1, 3]` (a rearrangement of the frames) -/
theorem C18_forward_stored_nonvacuous :
    let y := (meanVarNormCols [[5, 1, 3], [2, 5, 2]] (some [3, 3]) (some [2, 7]) [] (1 / 1000)).2.2.getD 0 []
    y = normCol [5, 1, 3] 3 2 (1 / 1000) ∧ poolMean y = 0 ∧ poolVarBessel y = 1 := by
  simpa using C18_forward_stored nvChunks 2 true [3, 3] [4, 3] [2, 7] [] (1 / 1000) (by decide +kernel)
    (by decide +kernel) (by decide +kernel) 0 (by decide) (by decide) (by decide +kernel)
    (by decide +kernel) (by decide +kernel) [[5, 1, 3], [2, 5, 2]] (by decide) (by decide +kernel)

example := C18_return [[1, 2], [3, 4], [5, 6]] 2 (-1 / 2) 1 1 (by decide) (by decide)
example := C18_return_batch_first [[1, 3, 5], [2, 4, 6]] 3 2 1 1 (by decide) (by decide) (by decide)
/-- interior step (`t + 1 < T`) and last step (`t + 1 = T`) -/
example := C18_return_recursion [[1, 2], [3, 4], [5, 6]] 2 (1 / 2) 0 1 (by decide) (by decide)
example := C18_return_recursion [[1, 2], [3, 4], [5, 6]] 2 (1 / 2) 2 1 (by decide) (by decide)
example := C18_return_recursion_batch_first [[1, 3, 5], [2, 4, 6]] 3 (1 / 2) 2 1 (by decide) (by decide)
  (by decide)
theorem C18_return_recursion_nonvacuous :
    ((tdReturn [[1, 2], [3, 4], [5, 6]] 2 (1 / 2) false).getD 0 []).getD 1 0 = 11 / 2 ∧
    ((tdReturn [[1, 2], [3, 4], [5, 6]] 2 (1 / 2) false).getD 1 []).getD 1 0 = 7 ∧
    (11 / 2 : Rat) = 2 + 1 / 2 * 7 := by decide +kernel

private def nvFilters : List (List Rat) :=
  [[0, 0, 1, 0, 0], [0, -1 / 2, 0, 1 / 2, 0], [1 / 4, 0, -1 / 2, 0, 1 / 4]]

example := C18_delta_filter_power 2 1 2 (by decide) nvFilters (by decide +kernel) (-2)
theorem C18_delta_filters_nonvacuous :
    (([[0, 1, 4], [1 / 2, 2, 3 / 2], [1, 1 / 2, -1]] : List (List Rat)).getD 2 []).getD 0 0
      = deltaSpec 1 (extAt .replicate [0, 1, 4]) 2 ((0 : Nat) : Int) :=
  C18_delta_filters .replicate 2 1 nvFilters (by decide +kernel) [0, 1, 4]
    [[0, 1, 4], [1 / 2, 2, 3 / 2], [1, 1 / 2, -1]] (by decide +kernel) 2 (by decide) 0 (by decide)
theorem C18_delta_row_nonvacuous :
    ([[0, 1, 4], [0, 2, 0], [2, 0, -2]] : List (List Rat)) = deltaRowSpec .reflect 2 1 [0, 1, 4] :=
  C18_delta_row .reflect 2 1 nvFilters (by decide +kernel) [0, 1, 4] [[0, 1, 4], [0, 2, 0], [2, 0, -2]]
    (by decide +kernel)

/-- `C18_delta_layout` has no hypothesis; both outcomes occur: a value; an EMPTY input with a padding
`reflect` forbids for 2 frames (error although there is no row); a time axis of extent 0 (error) -/
theorem C18_delta_layout_nonvacuous :
    (featDeltas ⟨[2, 3], [0, 1, 4, 3, 4, 5]⟩ 0 (-1) false 1 1 .replicate).isSome = true ∧
    featDeltas ⟨[0, 2], []⟩ 0 1 true 2 1 .reflect = none ∧
    featDeltas ⟨[0, 3], []⟩ 0 1 true 2 1 .reflect = some ⟨[0, 3], []⟩ ∧
    featDeltas ⟨[3, 0], []⟩ 0 1 true 1 1 (.constant 0) = none := by decide +kernel

private def nvT : Tensor := ⟨[2, 2, 2], [1, 2, 3, 4, 5, 6, 7, 8]⟩
private def nvT' : Tensor := ⟨[1, 2, 2], [0, 9, 2, 3]⟩

/-- two tensors with a feature axis of extent 0 (3 + 2 frames): store writes empty statistics;
a single frame under Bessel raises -/
theorem C18_accumulate_no_coefficient_nonvacuous :
    store (accumulateAll 1 [⟨[3, 0], []⟩, ⟨[2, 0], []⟩]) true = some ([], []) ∧
    store (accumulateAll 1 [⟨[1, 0], []⟩]) true = none ∧
    accumulateAll 1 [⟨[3, 0], []⟩, ⟨[2, 0], []⟩] = some ⟨5, [], []⟩ := by
  have h1 := C18_accumulate_no_coefficient 1 ⟨[3, 0], []⟩ [⟨[2, 0], []⟩] true (by decide +kernel)
  have h2 := C18_accumulate_no_coefficient 1 ⟨[1, 0], []⟩ [] true (by decide +kernel)
  refine ⟨by rw [h1.2]; decide +kernel, by rw [h2.2]; decide +kernel, by rw [h1.1]; decide +kernel⟩

example := C18_columns_entries nvT 2 (by decide) 1 (by decide)
/-- two tensors of different leading extent, last axis normalised, coefficient 1 -/
theorem C18_accumulate_entries_nonvacuous :
    (⟨6, [18, 32], [88, 210]⟩ : Acc).count = ([9, 3, 2, 4, 6, 8] : List Rat).length ∧
    (⟨6, [18, 32], [88, 210]⟩ : Acc).sum.getD 1 0 = ([9, 3, 2, 4, 6, 8] : List Rat).sum ∧
    (⟨6, [18, 32], [88, 210]⟩ : Acc).sumsq.getD 1 0 = sumSq [9, 3, 2, 4, 6, 8] :=
  C18_accumulate_entries 2 [nvT, nvT'] 2 ⟨6, [18, 32], [88, 210]⟩ (by decide +kernel)
    (by decide +kernel) (by decide +kernel) 1 (by decide) [9, 3, 2, 4, 6, 8] (by decide +kernel)

/-- rank 3, middle axis, own mean and supplied deviation -/
example := C18_forward_layout nvT 1 (by decide) none (some [2, 1 / 2]) [] (1 / 4) (by decide +kernel)
  (by decide +kernel)
example := C18_forward_combinations [[1, 5, 1, 5], [0, 6, 0, 6]] (some [0, 7]) none [2, 3] 0 1
  (by decide) (by intro m hm; cases hm; decide) (by decide)
theorem C18_forward_mean_only_nonvacuous :
    poolVar (normCol [1, 5, 1, 5] 0 2 (1 / 1000)) = 1 ∧
    poolMean (normCol [1, 5, 1, 5] 0 2 (1 / 1000)) = (poolMean [1, 5, 1, 5] - 0) / 2 :=
  C18_forward_mean_only [1, 5, 1, 5] 0 2 (1 / 1000) (by decide +kernel) (by decide +kernel)
    (by decide +kernel)
example := C18_forward_std_only [1, 5, 1, 6] 4 0 (by decide +kernel)

private def nvOps : List MvnOp :=
  [.accumulate [[1, 3]], .store false false, .accumulate [[5]], .store true true, .store true false,
   .accumulate [[7]]]

private theorem nvOps_ok : OpsOK 1 nvOps := by
  intro c hc
  simp [nvOps] at hc
  rcases hc with rfl | rfl | rfl <;>
  · refine ⟨rfl, fun i hi => ?_⟩
    have : i = 0 := by omega
    subst this; rfl

/-- a keeping store, a deleting Bessel store, a store that raises, a restart — from preset statistics -/
theorem C18_machine_nonvacuous :
    mvnRun ⟨none, some ([0], [1])⟩ nvOps = ⟨some ⟨1, [7], [49]⟩, some ([3], [4])⟩ ∧
    pendingSpec [] nvOps = [[[7]]] ∧ statsSpec [] (some ([0], [1])) nvOps = some ([3], [4]) := by
  have := C18_machine 1 nvOps [] (some ([0], [1])) (by decide) (chunksOK_nil 1) nvOps_ok
  refine ⟨by decide +kernel, by decide +kernel, by decide +kernel⟩

example := C18_machine_store 1 [[[1, 3]], [[5]]] none true true (by decide)
  (by unfold ChunksOK; decide +kernel)
example := C18_machine_entries 2 nvT [nvT'] 2 true (by decide +kernel) (by decide +kernel) 1 (by decide)
  [9, 3, 2, 4, 6, 8] (by decide +kernel)

private def nvMap : Option (List (String × String)) :=
  some [("a", "g1"), ("b", "g2"), ("c", "g1"), ("z", "g3")]
private def nvFiles : List (String × List (List Rat)) := [("a", [[1, 3]]), ("b", [[7]]), ("c", [[5]])]
private def nvWrote : List (Option String × (List Rat × List Rat)) :=
  [(some "g1", ([3], [8 / 3])), (some "g2", ([7], [0]))]

/-- three files in two groups, a third group without a file -/
theorem C18_cli_groups_nonvacuous :
    store (accumulateAllCols ((groupFiles nvMap nvFiles (some "g1")).map (·.2))) false
      = some ([3], [8 / 3]) :=
  ((C18_cli_groups nvMap nvFiles false nvWrote (by decide +kernel) (some "g1") ([3], [8 / 3])).mp
    (by decide +kernel)).2

theorem C18_cli_group_stats_nonvacuous :
    ([3] : List Rat).getD 0 0 = poolMean [5, 3, 1] ∧ ([8 / 3] : List Rat).getD 0 0 = poolVar [5, 3, 1] := by
  simpa using C18_cli_group_stats nvMap nvFiles false nvWrote (by decide +kernel) (some "g1")
    ([3], [8 / 3]) (by decide +kernel) 1 (by unfold ChunksOK; decide +kernel) 0 (by decide) [5, 3, 1]
    (by decide +kernel)

/-- each of the three causes of exit status 1, and a run that is none of them -/
theorem C18_cli_exit1_nonvacuous :
    cliStats (some [("a", "g"), ("a", "h")]) [("a", [[1]])] false = .exit1 ∧
    cliStats (some [("a", "g1")]) [("a", [[1, 3]]), ("b", [[7]])] false = .exit1 ∧
    cliStats none [] false = .exit1 ∧ cliStats nvMap nvFiles false ≠ .exit1 := by
  refine ⟨(C18_cli_exit1 _ _ _).mpr (Or.inl (by decide +kernel)),
    (C18_cli_exit1 _ _ _).mpr (Or.inr (Or.inl ⟨("b", [[7]]), by decide +kernel, by decide +kernel⟩)),
    (C18_cli_exit1 _ _ _).mpr (Or.inr (Or.inr ⟨rfl, rfl⟩)), by decide +kernel⟩

end NonVacuity

end PdtVerif.FeatStats
