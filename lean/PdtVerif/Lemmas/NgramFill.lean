import PdtVerif.Lemmas.NgramScan
/-!
# Lemmas for C06, part 9: what `_build_trie` writes, level by level

Pieces (a) and (b) of `C06_flat`: for the literal allocation loop of the model (`fillNodes`,
`fillLevel`, `fillLevels`) – every node's cells (`ids`, `logps`, `logbs`) are written exactly
once and never touched again, the `children` dictionary maps every key of the level to its
relative position, the parents' indices of a level sorted by reversed key are non-decreasing
(so that `C06_level_offsets` applies), and all levels together satisfy `Layout`.
-/
namespace PdtVerif.NgramTrie

theorem getD_set {α} (a : Array α) (i j : Nat) (v d : α) :
    (a.setIfInBounds i v).getD j d = if i = j ∧ i < a.size then v else a.getD j d := by
  simp only [Array.getD_eq_getD_getElem?, Array.getElem?_setIfInBounds]
  by_cases h : i = j
  · subst h
    by_cases h2 : i < a.size
    · simp [h2]
    · simp [h2]
  · simp [h]

/-! ## the `children` dictionary -/

/-- What the allocation loop appends to `children`: `children[key] = allocated - start`. -/
def childrenOf (start : Nat) : Nat → List Item → List (List Int × Nat)
  | _, [] => []
  | a, e :: r => (e.key, a - start) :: childrenOf start (a + 1) r

theorem lookup_append_of_not_mem (k : List Int) :
    ∀ (l l' : List (List Int × Nat)), (∀ p ∈ l, p.1 ≠ k) → (l ++ l').lookup k = l'.lookup k
  | [], _, _ => rfl
  | (a, b) :: l, l', h => by
    have hne : (k == a) = false := by
      rw [beq_eq_false_iff_ne]; exact fun e => h (a, b) (by simp) e.symm
    rw [List.cons_append, List.lookup_cons, hne]
    exact lookup_append_of_not_mem k l l' (fun p hp => h p (by simp [hp]))

theorem lookup_childrenOf (start : Nat) : ∀ (l : List Item) (a : Nat), (l.map (·.key)).Nodup →
    ∀ k (hk : k < l.length), (childrenOf start a l).lookup l[k].key = some (a + k - start)
  | [], _, _, k, hk => by simp at hk
  | e :: r, a, hnd, k, hk => by
    rw [List.map_cons, List.nodup_cons] at hnd
    cases k with
    | zero => simp [childrenOf, List.lookup_cons]
    | succ k' =>
      have hk' : k' < r.length := by simpa using hk
      have hne : (r[k'].key == e.key) = false := by
        rw [beq_eq_false_iff_ne]
        intro h
        apply hnd.1
        rw [← h]
        exact List.mem_map.mpr ⟨r[k'], List.getElem_mem _, rfl⟩
      simp only [childrenOf, List.getElem_cons_succ, List.lookup_cons, hne]
      rw [lookup_childrenOf start r (a + 1) hnd.2 k' hk']
      congr 1
      omega

/-! ## the cells of the nodes of one level -/

theorem fillNodes_spec (U start : Nat) (isTop : Bool) (lastStart : Nat)
    (parents : List (List Int × Nat)) :
    ∀ (l : List Item) (f : Fill), U ≤ f.allocated →
      f.allocated + l.length ≤ f.logps.size → f.allocated + l.length ≤ f.ids.size + U →
      (isTop = false → f.allocated + l.length ≤ f.logbs.size) →
      (fillNodes U start isTop lastStart parents l f).parents =
        f.parents ++ childrenOf start f.allocated l ∧
      (∀ k (hk : k < l.length),
        (fillNodes U start isTop lastStart parents l f).ids.getD (f.allocated + k - U) 0 =
          l[k].key.getLastD 0 ∧
        (fillNodes U start isTop lastStart parents l f).logps.getD (f.allocated + k) LogP.nan = l[k].logp ∧
        (isTop = false →
          (fillNodes U start isTop lastStart parents l f).logbs.getD (f.allocated + k) LogP.nan = l[k].logb)) ∧
      (∀ i, i + U < f.allocated →
        (fillNodes U start isTop lastStart parents l f).ids.getD i 0 = f.ids.getD i 0) ∧
      (∀ i, i < f.allocated →
        (fillNodes U start isTop lastStart parents l f).logps.getD i LogP.nan = f.logps.getD i LogP.nan ∧
        (fillNodes U start isTop lastStart parents l f).logbs.getD i LogP.nan = f.logbs.getD i LogP.nan) ∧
      (fillNodes U start isTop lastStart parents l f).logbs.size = f.logbs.size
  | [], f, _, _, _, _ => by
    unfold fillNodes
    exact ⟨by simp [childrenOf], fun k hk => absurd hk (Nat.not_lt_zero k), fun _ _ => rfl,
      fun _ _ => ⟨rfl, rfl⟩, rfl⟩
  | e :: rest, f, hU, hP, hI, hB => by
    unfold fillNodes
    simp only
    have ih := fillNodes_spec U start isTop lastStart parents rest
      { f with
        offsets := walkBack f.allocated ((parents.lookup e.key.dropLast).getD 0 + lastStart + 1) f.offsets,
        ids := f.ids.setIfInBounds (f.allocated - U) (e.key.getLastD 0),
        logps := f.logps.setIfInBounds f.allocated e.logp,
        logbs := if isTop then f.logbs else f.logbs.setIfInBounds f.allocated e.logb,
        allocated := f.allocated + 1,
        parents := f.parents ++ [(e.key, f.allocated - start)] }
      (by simp only; omega)
      (by simp only [Array.size_setIfInBounds, List.length_cons] at hP ⊢; omega)
      (by simp only [Array.size_setIfInBounds, List.length_cons] at hI ⊢; omega)
      (by
        intro ht
        have := hB ht
        simp only [ht, Bool.false_eq_true, if_false, Array.size_setIfInBounds, List.length_cons] at this ⊢
        omega)
    simp only at ih
    obtain ⟨ih1, ih2, ih3, ih4, ih5⟩ := ih
    simp only [List.length_cons] at hP hI hB
    refine ⟨?_, ?_, ?_, ?_, ?_⟩
    · rw [ih1]; simp [childrenOf]
    · intro k hk
      cases k with
      | zero =>
        simp only [Nat.add_zero, List.getElem_cons_zero]
        refine ⟨?_, ?_, ?_⟩
        · rw [ih3 (f.allocated - U) (by omega), getD_set, if_pos ⟨rfl, by omega⟩]
        · rw [(ih4 f.allocated (by omega)).1, getD_set, if_pos ⟨rfl, by omega⟩]
        · intro ht
          have := hB ht
          rw [(ih4 f.allocated (by omega)).2]
          simp only [ht, Bool.false_eq_true, if_false]
          rw [getD_set, if_pos ⟨rfl, by omega⟩]
      | succ k' =>
        have hk' : k' < rest.length := by simpa using hk
        have := ih2 k' hk'
        have e1 : f.allocated + 1 + k' = f.allocated + (k' + 1) := by omega
        rw [e1] at this
        simpa using this
    · intro i hi
      rw [ih3 i (by omega), getD_set, if_neg (by omega)]
    · intro i hi
      have := ih4 i (by omega)
      refine ⟨?_, ?_⟩
      · rw [this.1, getD_set, if_neg (by omega)]
      · rw [this.2]
        cases isTop with
        | true => simp
        | false =>
          simp only [Bool.false_eq_true, if_false]
          rw [getD_set, if_neg (by omega)]
    · rw [ih5]
      cases isTop with
      | true => simp
      | false => simp

/-! ## one level -/

/-- The `parents` dictionary describes the level `(lo, K)`: `int(parents[K[j]]) + last_start`
is the index of the node with reversed key `K[j]`. -/
def ParOK (parents : List (List Int × Nat)) (lastStart lo : Nat) (K : List (List Int)) : Prop :=
  ∀ j (hj : j < K.length), ∃ v, parents.lookup K[j] = some v ∧ v + lastStart = lo + j

/-- The state before the children of the level `(lo, K)` are allocated. -/
structure Ready (f : Fill) (U lo : Nat) (K : List (List Int)) : Prop where
  alloc : f.allocated = lo + K.length
  par : ParOK f.parents f.lastStart lo K
  zero : ∀ q, lo ≤ q → f.offsets.getD q 0 = 0
  guard : lo = 0 ∨ f.offsets.getD (lo - 1) 0 ≠ 0
  hU : U ≤ f.allocated + 1
  nodup : K.Nodup
  sorted : K.Pairwise (fun a b => lexLe a b = true)
  ne : K ≠ []

theorem mono_of_pairwise : ∀ (l : List Nat), l.Pairwise (· ≤ ·) → Mono l
  | [], _ => trivial
  | [_], _ => trivial
  | a :: b :: r, h => by
    rw [List.pairwise_cons] at h
    exact ⟨h.1 b (by simp), mono_of_pairwise (b :: r) h.2⟩

/-- The state after the dummy node of a level has been written. -/
def dummyFill (d : List Item) (f : Fill) : Fill :=
  { f with offsets := f.offsets.setIfInBounds f.allocated (d.length + 1),
           logps := f.logps.setIfInBounds f.allocated LogP.nan,
           logbs := f.logbs.setIfInBounds f.allocated LogP.nan,
           allocated := f.allocated + 1, parents := [] }

theorem fillLevel_eq (U : Nat) (isTop : Bool) (d : List Item) (f : Fill) :
    fillLevel U isTop d f =
      { fillNodes U f.allocated isTop f.lastStart f.parents (sortLevel d) (dummyFill d f) with
        offsets := trailFill (f.allocated + 1)
          (fillNodes U f.allocated isTop f.lastStart f.parents (sortLevel d) (dummyFill d f)).offsets,
        lastStart := f.allocated } := rfl

/-- The parents' indices of the sorted level, as the allocation loop computes them. -/
def parentIdx (f : Fill) (S : List Item) : List Nat :=
  S.map (fun e => (f.parents.lookup e.key.dropLast).getD 0 + f.lastStart)

/-- **One level of `_build_trie`.** `d`: the level (keys oldest token first, pairwise distinct,
all of length `m + 1`, every key's reversed prefix a node of the parent level `K`). -/
theorem fillLevel_level (U : Nat) (isTop : Bool) (d : List Item) (f : Fill) (lo : Nat)
    (K : List (List Int)) (m : Nat) (R : Ready f U lo K)
    (hne : d ≠ []) (hnd : (d.map (·.key)).Nodup) (hlen : ∀ e ∈ d, e.key.length = m + 1)
    (hclosed : ∀ e ∈ d, e.key.reverse.dropLast ∈ K)
    (hO : f.allocated < f.offsets.size)
    (hP : f.allocated + 1 + d.length ≤ f.logps.size)
    (hI : f.allocated + 1 + d.length ≤ f.ids.size + U)
    (hB : isTop = false → f.allocated + 1 + d.length ≤ f.logbs.size) :
    LevelOK (fillLevel U isTop d f).offsets (fillLevel U isTop d f).ids (fillLevel U isTop d f).logps
      (fillLevel U isTop d f).logbs U lo K (sortLevel d) (parentIdx f (sortLevel d)) isTop ∧
    Ready (fillLevel U isTop d f) U (lo + K.length + 1) ((sortLevel d).map (·.key)) ∧
    (∀ q, q < lo → (fillLevel U isTop d f).offsets.getD q 0 = f.offsets.getD q 0) ∧
    (∀ i, i + U < f.allocated + 1 → (fillLevel U isTop d f).ids.getD i 0 = f.ids.getD i 0) ∧
    (∀ i, i < f.allocated →
      (fillLevel U isTop d f).logps.getD i LogP.nan = f.logps.getD i LogP.nan ∧
      (fillLevel U isTop d f).logbs.getD i LogP.nan = f.logbs.getD i LogP.nan) ∧
    (fillLevel U isTop d f).offsets.size = f.offsets.size ∧
    (fillLevel U isTop d f).logbs.size = f.logbs.size := by
  have hSlen : (sortLevel d).length = d.length := sortLevel_length d
  have hSnd := sortLevel_keys_nodup d hnd
  have hSsorted := sortLevel_sorted d
  -- facts about the members of the sorted level
  have hSmem : ∀ e ∈ sortLevel d, e.key.length = m + 1 ∧ e.key.dropLast ∈ K := by
    intro e he
    obtain ⟨e', he', rfl⟩ := (mem_sortLevel d e).mp he
    exact ⟨by simpa using hlen e' he', hclosed e' he'⟩
  have hstart : f.allocated = lo + K.length := R.alloc
  -- the parents' indices
  have hps : ∀ k (hk : k < (sortLevel d).length), ∃ j, K[j]? = some ((sortLevel d)[k].key.dropLast) ∧
      (parentIdx f (sortLevel d))[k]? = some (lo + j) := by
    intro k hk
    obtain ⟨_, hin⟩ := hSmem _ (List.getElem_mem hk)
    obtain ⟨j, hj, hKj⟩ := List.mem_iff_getElem.mp hin
    obtain ⟨v, hv1, hv2⟩ := R.par j hj
    refine ⟨j, by rw [List.getElem?_eq_getElem hj, hKj], ?_⟩
    simp only [parentIdx, List.getElem?_map, List.getElem?_eq_getElem hk, Option.map_some]
    rw [← hKj, hv1]
    simp [hv2]
  have hpslen : (parentIdx f (sortLevel d)).length = (sortLevel d).length := by simp [parentIdx]
  have hpsval : ∀ k (hk : k < (sortLevel d).length), ∃ (j : Nat) (hj : j < K.length),
      K[j] = (sortLevel d)[k].key.dropLast ∧ (parentIdx f (sortLevel d))[k]'(hpslen ▸ hk) = lo + j := by
    intro k hk
    obtain ⟨j, h1, h2⟩ := hps k hk
    obtain ⟨hj, e1⟩ := List.getElem?_eq_some_iff.mp h1
    obtain ⟨_, e2⟩ := List.getElem?_eq_some_iff.mp h2
    exact ⟨j, hj, e1, e2⟩
  have hmono : Mono (parentIdx f (sortLevel d)) := by
    apply mono_of_pairwise
    rw [List.pairwise_iff_getElem]
    intro k k' hk hk' hlt
    have hk1 : k < (sortLevel d).length := hpslen ▸ hk
    have hk1' : k' < (sortLevel d).length := hpslen ▸ hk'
    obtain ⟨j, hj, e1, e2⟩ := hpsval k hk1
    obtain ⟨j', hj', e1', e2'⟩ := hpsval k' hk1'
    rw [e2, e2']
    have hle : lexLe (sortLevel d)[k].key (sortLevel d)[k'].key = true :=
      (List.pairwise_iff_getElem.mp hSsorted) k k' hk1 hk1' hlt
    have hl1 := (hSmem _ (List.getElem_mem hk1)).1
    have hl2 := (hSmem _ (List.getElem_mem hk1')).1
    have hdl := lexLe_dropLast _ _ (hl1.trans hl2.symm) hle
    rw [← e1, ← e1'] at hdl
    have := idx_mono K R.sorted R.nodup j j' hj hj' hdl
    omega
  have hrange : ∀ p ∈ parentIdx f (sortLevel d), lo ≤ p ∧ p < f.allocated := by
    intro p hp
    obtain ⟨k, hk, rfl⟩ := List.mem_iff_getElem.mp hp
    obtain ⟨j, hj, _, e2⟩ := hpsval k (hpslen ▸ hk)
    rw [e2, hstart]; omega
  have hpsne : parentIdx f (sortLevel d) ≠ [] := by
    intro e
    have := congrArg List.length e
    rw [hpslen, hSlen] at this
    exact hne (List.eq_nil_of_length_eq_zero this)
  -- the offsets
  have hoffs := level_offsets f.offsets lo f.allocated (by omega) (parentIdx f (sortLevel d)) hpsne
    hmono hrange hO (fun q h1 _ => R.zero q h1) R.guard
  simp only at hoffs
  have hoffeq : (fillLevel U isTop d f).offsets =
      trailFill (f.allocated + 1) (fillOffs (parentIdx f (sortLevel d)) (f.allocated + 1)
        (f.offsets.setIfInBounds f.allocated ((parentIdx f (sortLevel d)).length + 1))) := by
    rw [fillLevel_offsets, hpslen, hSlen]; rfl
  rw [← hoffeq] at hoffs
  obtain ⟨ho1, ho2, ho3, ho4⟩ := hoffs
  -- the values
  have hvals := fillNodes_spec U f.allocated isTop f.lastStart f.parents (sortLevel d) (dummyFill d f)
    (by simp only [dummyFill]; exact R.hU)
    (by simp only [dummyFill, Array.size_setIfInBounds]; rw [hSlen]; exact hP)
    (by simp only [dummyFill]; rw [hSlen]; exact hI)
    (by intro ht; simp only [dummyFill, Array.size_setIfInBounds]; rw [hSlen]; exact hB ht)
  rw [fillLevel_eq]
  simp only
  rw [fillLevel_eq] at ho1 ho2 ho3 ho4
  simp only at ho1 ho2 ho3 ho4
  obtain ⟨hv1, hv2, hv3, hv4, hv5⟩ := hvals
  have hda : (dummyFill d f).allocated = f.allocated + 1 := rfl
  rw [hda] at hv2 hv3 hv4
  refine ⟨?_, ?_, ?_, ?_, ?_, ?_, ?_⟩
  · exact {
      len := hpslen
      mono := hmono
      par := by
        intro k hk
        obtain ⟨j, h1, h2⟩ := hps k hk
        refine ⟨j, h1, h2, ?_⟩
        intro e
        have := (hSmem _ (List.getElem_mem hk)).1
        rw [e] at this; simp at this
      off := by
        intro q h1 h2
        rw [← hstart] at h2 ⊢
        exact ho1 q h1 h2
      dummy := by rw [← hstart, ho2, hpslen]
      ids := by
        intro k hk
        rw [← hstart]
        exact (hv2 k hk).1
      logp := by
        intro k hk
        rw [← hstart]
        exact (hv2 k hk).2.1
      logb := by
        intro ht k hk
        rw [← hstart]
        exact (hv2 k hk).2.2 ht
      fits := by
        rw [← hstart, (fillNodes_sizes _ _ _ _ _ _ _).2]
        simp only [dummyFill, Array.size_setIfInBounds]
        rw [hSlen]; exact hP
      keysS := hSnd }
  · exact {
      alloc := by
        rw [(fillNodes_offsets _ _ _ _ _ _ _).2, hda, List.length_map, hstart]
      par := by
        intro j hj
        have hj' : j < (sortLevel d).length := by simpa using hj
        rw [hv1]
        simp only [dummyFill, List.nil_append, List.getElem_map]
        rw [lookup_childrenOf f.allocated (sortLevel d) (f.allocated + 1) hSnd j hj']
        exact ⟨_, rfl, by omega⟩
      zero := by
        intro q hq
        rw [ho3 q (Or.inr (by omega))]
        exact R.zero q (by omega)
      guard := by
        right
        have e : lo + K.length + 1 - 1 = f.allocated := by omega
        rw [e, ho2]; omega
      hU := by
        rw [(fillNodes_offsets _ _ _ _ _ _ _).2, hda]
        have := R.hU; omega
      nodup := hSnd
      sorted := List.pairwise_map.mpr hSsorted
      ne := by
        intro e
        have := congrArg List.length e
        rw [List.length_map, hSlen] at this
        exact hne (List.eq_nil_of_length_eq_zero this) }
  · intro q hq
    exact ho3 q (Or.inl hq)
  · intro i hi
    rw [hv3 i hi]; rfl
  · intro i hi
    have := hv4 i (by omega)
    have e1 : (dummyFill d f).logps.getD i LogP.nan = f.logps.getD i LogP.nan := by
      simp only [dummyFill]; rw [getD_set, if_neg (by omega)]
    have e2 : (dummyFill d f).logbs.getD i LogP.nan = f.logbs.getD i LogP.nan := by
      simp only [dummyFill]; rw [getD_set, if_neg (by omega)]
    exact ⟨this.1.trans e1, this.2.trans e2⟩
  · rw [ho4]
  · rw [hv5]; simp [dummyFill]

/-! ## all levels -/

section transfer
variable {offs : Array Nat} {ids : Array Int} {logps logbs : Array LogP} {U lo : Nat}
  {K : List (List Int)} {S : List Item} {ps : List Nat} {isTop : Bool}

/-- A laid-out level only depends on its own cells. -/
theorem LevelOK.transfer (L : LevelOK offs ids logps logbs U lo K S ps isTop)
    (offs' : Array Nat) (ids' : Array Int) (logps' logbs' : Array LogP) (hU : U ≤ lo + K.length + 1)
    (ho : ∀ q, q < lo + K.length + 1 → offs'.getD q 0 = offs.getD q 0)
    (hi : ∀ i, i + U < lo + K.length + 1 + S.length → ids'.getD i 0 = ids.getD i 0)
    (hp : ∀ i, i < lo + K.length + 1 + S.length →
      logps'.getD i LogP.nan = logps.getD i LogP.nan ∧ logbs'.getD i LogP.nan = logbs.getD i LogP.nan)
    (hsz : logps.size ≤ logps'.size) :
    LevelOK offs' ids' logps' logbs' U lo K S ps isTop where
  len := L.len
  mono := L.mono
  par := L.par
  off := by intro q h1 h2; rw [ho q (by omega)]; exact L.off q h1 h2
  dummy := by rw [ho _ (by omega)]; exact L.dummy
  ids := by intro k hk; rw [hi _ (by omega)]; exact L.ids k hk
  logp := by intro k hk; rw [(hp _ (by omega)).1]; exact L.logp k hk
  logb := by intro ht k hk; rw [(hp _ (by omega)).2]; exact L.logb ht k hk
  fits := Nat.le_trans L.fits hsz
  keysS := L.keysS

end transfer

/-- Cells of `offsets` that the remaining levels still need. -/
def need : List (List Item) → Nat
  | [] => 0
  | [_] => 1
  | d :: d' :: rest => d.length + 1 + need (d' :: rest)

/-- What the closure guarantees about the remaining levels (keys oldest token first), relative
to the reversed keys `K` of the level below: non-empty, pairwise distinct keys of length
`m + 1`, the reversed prefix of every key a node of the level below. -/
def LevelsOK : Nat → List (List Int) → List (List Item) → Prop
  | _, _, [] => True
  | m, K, d :: rest =>
    d ≠ [] ∧ (d.map (·.key)).Nodup ∧ (∀ e ∈ d, e.key.length = m + 1) ∧
      (∀ e ∈ d, e.key.reverse.dropLast ∈ K) ∧ LevelsOK (m + 1) ((sortLevel d).map (·.key)) rest

theorem fillLevels_sizes' (U : Nat) : ∀ (Ls : List (List Item)) (f : Fill),
    (fillLevels U Ls f).ids.size = f.ids.size ∧ (fillLevels U Ls f).logps.size = f.logps.size :=
  fillLevels_sizes U

/-- **All levels of `_build_trie`** satisfy `Layout`; the cells below the first level are not
touched. -/
theorem fillLevels_layout (U : Nat) :
    ∀ (Ls : List (List Item)) (f : Fill) (lo : Nat) (K : List (List Int)) (m : Nat),
      Ready f U lo K → LevelsOK m K Ls → Ls ≠ [] →
      f.offsets.size = f.allocated + need Ls →
      f.logps.size = f.offsets.size + (Ls.getLastD []).length →
      f.logps.size ≤ f.ids.size + U → f.logbs.size = f.offsets.size →
      Layout (fillLevels U Ls f).offsets (fillLevels U Ls f).ids (fillLevels U Ls f).logps
        (fillLevels U Ls f).logbs U lo K (Ls.map sortLevel) ∧
      (∀ q, q < lo → (fillLevels U Ls f).offsets.getD q 0 = f.offsets.getD q 0) ∧
      (∀ i, i + U < f.allocated + 1 → (fillLevels U Ls f).ids.getD i 0 = f.ids.getD i 0) ∧
      (∀ i, i < f.allocated →
        (fillLevels U Ls f).logps.getD i LogP.nan = f.logps.getD i LogP.nan ∧
        (fillLevels U Ls f).logbs.getD i LogP.nan = f.logbs.getD i LogP.nan)
  | [], _, _, _, _, _, _, h, _, _, _, _ => absurd rfl h
  | [d], f, lo, K, m, R, hL, _, hO, hP, hI, hB => by
    obtain ⟨hne, hnd, hlen, hcl, _⟩ := hL
    simp only [need] at hO
    simp only [List.getLastD_cons, List.getLastD_nil] at hP
    have h := fillLevel_level U true d f lo K m R hne hnd hlen hcl (by omega) (by omega) (by omega)
      (by intro h; cases h)
    obtain ⟨L, _, f1, f2, f3, f4, _⟩ := h
    simp only [fillLevels, List.map_cons, List.map_nil]
    refine ⟨⟨⟨_, L⟩, R.ne, ?_⟩, f1, f2, f3⟩
    show _ = _
    rw [f4, hO, R.alloc]
  | d :: d' :: rest, f, lo, K, m, R, hL, _, hO, hP, hI, hB => by
    obtain ⟨hne, hnd, hlen, hcl, hLrest⟩ := hL
    simp only [need] at hO
    simp only [List.getLastD_cons] at hP
    have hneed : 1 ≤ need (d' :: rest) := by
      cases rest with
      | nil => simp [need]
      | cons a b => simp only [need]; omega
    have h := fillLevel_level U false d f lo K m R hne hnd hlen hcl (by omega) (by omega) (by omega)
      (by intro _; omega)
    obtain ⟨L, R', f1, f2, f3, f4, f5⟩ := h
    have hsz := fillLevel_sizes U false d f
    have halloc : (fillLevel U false d f).allocated = f.allocated + d.length + 1 :=
      (fillLevel_spec U false d f).1
    have hSlen : (sortLevel d).length = d.length := sortLevel_length d
    have ih := fillLevels_layout U (d' :: rest) (fillLevel U false d f) (lo + K.length + 1)
      ((sortLevel d).map (·.key)) (m + 1) R' hLrest (by simp)
      (by rw [f4, hO, halloc]; omega)
      (by rw [hsz.2, f4, hP, List.getLastD_cons])
      (by rw [hsz.2, hsz.1]; exact hI)
      (by rw [f5, f4]; exact hB)
    obtain ⟨ihL, i1, i2, i3⟩ := ih
    simp only [fillLevels, List.map_cons]
    have hstart : f.allocated = lo + K.length := R.alloc
    refine ⟨⟨⟨parentIdx f (sortLevel d), ?_⟩, R.ne, ?_⟩, ?_, ?_, ?_⟩
    · have hT := L.transfer (fillLevels U (d' :: rest) (fillLevel U false d f)).offsets
        (fillLevels U (d' :: rest) (fillLevel U false d f)).ids
        (fillLevels U (d' :: rest) (fillLevel U false d f)).logps
        (fillLevels U (d' :: rest) (fillLevel U false d f)).logbs
        (by have := R.hU; omega)
        (fun q hq => i1 q hq)
        (fun i hi => i2 i (by rw [halloc, hstart, ← hSlen]; omega))
        (fun i hi => i3 i (by rw [halloc, hstart, ← hSlen]; omega))
        (by rw [(fillLevels_sizes U _ _).2]; exact Nat.le_refl _)
      exact hT
    · exact ihL
    · intro q hq
      rw [i1 q (by omega), f1 q hq]
    · intro i hi
      rw [i2 i (by rw [halloc]; omega), f2 i hi]
    · intro i hi
      have a := i3 i (by rw [halloc]; omega)
      have b := f3 i hi
      exact ⟨a.1.trans b.1, a.2.trans b.2⟩

end PdtVerif.NgramTrie
