import PdtVerif.Lemmas.Beam
/-!
# Where a returned path may stop

`loop_inv_exit`: the loop invariant together with the reason the loop stopped (the step limit is used up,
or every batch element is finished). `search_length`: a returned finite-score slot either ends in eos or
is as long as the step limit — every slot when eos is unset or all paths are run to completion, the best
slot otherwise. Core Lean only.
-/
namespace PdtVerif.Beam

variable {σ : Type}

theorem loop_inv_exit {cfg : Cfg} {lm : LM σ} {spec Rep} {sel : Sel} (hsel : SelOK sel)
    (hlm : LMOK cfg.V lm spec Rep) (hV : 0 < cfg.V) (hw : 0 < cfg.width) (dflt : σ)
    (fuel : Nat) {t S Kp : Nat} {elems : List (Elem σ)} (hinv : BInv cfg spec Rep t S Kp elems)
    {S' : Nat} {elems' : List (Elem σ)}
    (h : loop sel cfg lm dflt fuel t S Kp elems = .ok (S', elems')) :
    ∃ t' Kp', BInv cfg spec Rep t' S' Kp' elems' ∧
      (t' = t + fuel ∨ (t' ≠ 0 ∧ elems'.all (elemDone cfg t') = true)) := by
  induction fuel generalizing t S Kp elems with
  | zero =>
    simp only [loop, Except.ok.injEq, Prod.mk.injEq] at h
    obtain ⟨rfl, rfl⟩ := h
    exact ⟨t, Kp, hinv, Or.inl rfl⟩
  | succ fuel ih =>
    unfold loop at h
    split at h
    · rename_i hc
      simp only [Except.ok.injEq, Prod.mk.injEq] at h
      obtain ⟨rfl, rfl⟩ := h
      refine ⟨t, Kp, hinv, Or.inr ?_⟩
      simp only [Bool.and_eq_true, bne_iff_ne, ne_eq] at hc
      exact ⟨hc.1.2, hc.2⟩
    · split at h
      · cases h
      · rename_i S1 elems1 hstep
        obtain ⟨t', Kp', hb, hex⟩ := ih (stepBatch_inv hsel hlm hV hw dflt hinv hstep) h
        refine ⟨t', Kp', hb, ?_⟩
        rcases hex with h1 | h2
        · left; omega
        · right; exact h2

/-- A finished element: every finite slot has ended (all paths are run to completion), resp. the best
slot has ended. -/
theorem done_ended {cfg : Cfg} {t : Nat} {e : Elem σ} (hd : elemDone cfg t e = true) {k : Nat} {s : Slot}
    (hk : e.slots[k]? = some s) (hf : s.score ≠ none)
    (hc : cfg.eos = none ∨ cfg.finishAll = true ∨ k = 0) : lastIsEos cfg.eos s = true := by
  unfold elemDone at hd
  cases heos : cfg.eos with
  | none => rw [heos] at hd; simp at hd
  | some eo =>
    rw [heos] at hd
    simp only at hd
    split at hd
    · cases hd
    · have hended : isEnded (some eo) t s = true := by
        split at hd
        · have hmem : s ∈ e.slots := List.mem_of_getElem? hk
          have := (List.all_eq_true.mp hd) s hmem
          have hs : s.score.isNone = false := by
            cases hsc : s.score with
            | none => exact absurd hsc hf
            | some _ => rfl
          simpa [hs] using this
        · rename_i hfa
          rcases hc with h0 | h1 | h2
          · rw [heos] at h0; cases h0
          · exact absurd h1 hfa
          · subst h2
            have hh : e.slots.head? = some s := by
              rw [List.head?_eq_getElem?]; exact hk
            rw [hh] at hd
            simpa using hd
      unfold isEnded at hended
      simp only [Bool.and_eq_true] at hended
      exact hended.2

theorem search_length {cfg : Cfg} {lm : LM σ} {spec Rep} {sel : Sel} (hsel : SelOK sel)
    (hlm : LMOK cfg.V lm spec Rep) (hV : 0 < cfg.V) (hw : 0 < cfg.width) (dflt : σ)
    {inits : List σ} (hinit : ∀ s ∈ inits, Rep [] s) {maxIters : Nat} {out : List (List Slot)}
    (h : search sel cfg lm dflt inits maxIters = .ok out) :
    ∀ beam ∈ out, ∀ (k : Nat) (s : Slot), beam[k]? = some s → s.score ≠ none →
      (cfg.eos = none ∨ cfg.finishAll = true ∨ k = 0) →
      lastIsEos cfg.eos s = true ∨ s.len = maxIters := by
  unfold search at h
  split at h
  · cases h
  · rename_i S elems hloop
    simp only [Except.ok.injEq] at h
    obtain ⟨t', Kp', hinv, hexit⟩ :=
      loop_inv_exit hsel hlm hV hw dflt maxIters (init_inv hinit) hloop
    intro beam hb k s hk hf hc
    rw [← h] at hb
    obtain ⟨e, he, rfl⟩ := List.mem_map.mp hb
    obtain ⟨hsl, hstl, -, hlive⟩ := hinv.elem e he
    have hle : e.slots.length ≤ cfg.width := by
      rcases hinv.shape with ⟨-, -, hk'⟩ | ⟨-, hk'⟩ <;> omega
    -- the slot is one of the element's own slots (padding slots have score `-inf`)
    have hk' : e.slots[k]? = some s := by
      unfold toWidth at hk
      split at hk
      · rcases Nat.lt_or_ge k e.slots.length with hlt | hge
        · rwa [List.getElem?_append_left hlt] at hk
        · rw [List.getElem?_append_right hge] at hk
          have hmem := List.mem_of_getElem? hk
          rw [List.mem_replicate] at hmem
          exact absurd (by rw [hmem.2]) hf
      · split at hk
        · omega
        · exact hk
    by_cases hd : elemDone cfg t' e = true
    · exact Or.inl (done_ended hd hk' hf hc)
    · have hd' : elemDone cfg t' e = false := by simpa using hd
      have hklt : k < e.slots.length := by
        rcases Nat.lt_or_ge k e.slots.length with hlt | hge
        · exact hlt
        · rw [List.getElem?_eq_none hge] at hk'; cases hk'
      obtain ⟨st, hst⟩ : ∃ st, e.sts[k]? = some st := by
        have : k < e.sts.length := by omega
        exact ⟨e.sts[k], by simp [this]⟩
      have hl := hlive hd' k s st hk' hst hf
      cases hlast : lastIsEos cfg.eos s with
      | true => exact Or.inl rfl
      | false =>
        right
        rw [(hl.2 hlast).1]
        rcases hexit with h1 | ⟨-, hall⟩
        · omega
        · have := (List.all_eq_true.mp hall) e he
          rw [hd'] at this; cases this

end PdtVerif.Beam
