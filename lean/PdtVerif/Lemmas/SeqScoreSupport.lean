import PdtVerif.Spec.SeqScore
/-! Helper lemmas for the normalisation of the support (core Lean only, over `Rat`). -/
namespace PdtVerif.SeqScore

theorem rat_sum_append (a b : List Rat) : (a ++ b).sum = a.sum + b.sum := by
  induction a with
  | nil => simp [Rat.zero_add]
  | cons x xs ih => simp [ih, Rat.add_assoc]

theorem rat_sum_flatMap {α} (l : List α) (g : α → List Rat) :
    (l.flatMap g).sum = (l.map (fun v => (g v).sum)).sum := by
  induction l with
  | nil => simp
  | cons x xs ih => simp [List.flatMap_cons, rat_sum_append, ih]

theorem rat_sum_map_mul {α} (c : Rat) (l : List α) (f : α → Rat) :
    (l.map (fun s => c * f s)).sum = c * (l.map f).sum := by
  induction l with
  | nil => simp [Rat.mul_zero]
  | cons x xs ih => simp [ih, Rat.mul_add]

/-- Total probability of the support below a history is one. -/
theorem support_mass (V : Nat) (eos : Option Nat) (p : List Nat → Nat → Rat)
    (hnorm : ∀ h, ((List.range V).map (p h)).sum = 1) (T : Nat) (hist : List Nat) :
    ((Spec.support V eos T).map (Spec.seqProb eos p hist)).sum = 1 := by
  induction T generalizing hist with
  | zero => simp [Spec.support, Spec.seqProb, Rat.add_zero]
  | succ T ih =>
    rw [Spec.support, List.map_flatMap, rat_sum_flatMap]
    rw [← hnorm hist]
    congr 1
    apply List.map_congr_left
    intro v _
    by_cases hv : some v = eos
    · simp [hv, Spec.seqProb, Rat.mul_one, Rat.add_zero]
    · simp only [hv, if_false, List.map_map]
      have : (Spec.seqProb eos p hist ∘ fun s => v :: s)
          = fun s => p hist v * Spec.seqProb eos p (hist ++ [v]) s := by
        funext s; simp [Spec.seqProb, hv]
      rw [this, rat_sum_map_mul, ih, Rat.mul_one]

end PdtVerif.SeqScore
