import PdtVerif.Lemmas.NgramShape
/-!
# Lemmas for C06, part 6: the offsets of one level (`fillLevel`)

The part of `_build_trie` that the defects were found in: for one level, the dummy cell, the
walk-back over childless parents at every allocation, and the trailing fill. Abstracting the
sorted n-grams of the level to the list `ps` of their parents' indices (non-decreasing,
inside the parent level `[lo, start)`), the final offsets satisfy, for every parent `q`,

  `q + offsets[q] = start + 1 + #{k | ps[k] < q}`

i.e. `q + offsets[q]` is the index of the first node of the new level whose parent is `≥ q`
(one past the last node if there is none), so that `[q + offsets[q], q+1 + offsets[q+1])`
are exactly the children of `q`. Nothing outside `[lo, start]` is written.
-/
namespace PdtVerif.NgramTrie

/-- The offsets part of `fillNodes`: one walk-back per allocated node. -/
def fillOffs : List Nat → Nat → Array Nat → Array Nat
  | [], _, o => o
  | p :: ps, a, o => fillOffs ps (a + 1) (walkBack a (p + 1) o)

theorem fillNodes_eq_fillOffs (U start : Nat) (isTop : Bool) (lastStart : Nat)
    (parents : List (List Int × Nat)) :
    ∀ (l : List Item) (f : Fill),
      (fillNodes U start isTop lastStart parents l f).offsets =
        fillOffs (l.map (fun e => (parents.lookup e.key.dropLast).getD 0 + lastStart)) f.allocated
          f.offsets
  | [], _ => rfl
  | e :: rest, f => by
    unfold fillNodes
    simp only [List.map_cons, fillOffs]
    rw [fillNodes_eq_fillOffs U start isTop lastStart parents rest]

/-- `walkBack a (p+1)` when the cells `(z, p]` hold zero and cell `z` does not (or there is no
cell below): exactly those cells are set, to `a - q`. `n` counts the zero cells. -/
theorem walkBack_spec (a : Nat) : ∀ (n p : Nat) (o : Array Nat), n ≤ p + 1 → p < o.size →
    (∀ q, p + 1 - n ≤ q → q ≤ p → o.getD q 0 = 0) →
    (n = p + 1 ∨ o.getD (p - n) 0 ≠ 0) →
    ∀ q, (walkBack a (p + 1) o).getD q 0 =
      if p + 1 - n ≤ q ∧ q ≤ p then a - q else o.getD q 0
  | 0, p, o, _, _, _, hstop => by
    intro q
    have hnz : o.getD p 0 ≠ 0 := by
      rcases hstop with h | h
      · omega
      · simpa using h
    unfold walkBack
    rw [if_neg hnz, if_neg (by omega)]
  | n + 1, p, o, hn, hp, hz, hstop => by
    intro q
    have hz0 : o.getD p 0 = 0 := hz p (by omega) (Nat.le_refl _)
    unfold walkBack
    rw [if_pos hz0]
    cases p with
    | zero =>
      have hn0 : n = 0 := by omega
      subst hn0
      simp only [walkBack]
      rw [getD_setIfInBounds]
      by_cases hq : q = 0
      · subst hq; simp [hp]
      · rw [if_neg (by omega), if_neg (by omega)]
    | succ p' =>
      have ih := walkBack_spec a n p' (o.setIfInBounds (p' + 1) (a - (p' + 1))) (by omega)
        (by rw [Array.size_setIfInBounds]; omega)
        (by
          intro q' h1 h2
          rw [getD_setIfInBounds, if_neg (by omega)]
          exact hz q' (by omega) (by omega))
        (by
          rcases hstop with h | h
          · left; omega
          · right
            rw [getD_setIfInBounds, if_neg (by omega)]
            have e : p' + 1 - (n + 1) = p' - n := by omega
            rw [e] at h; exact h)
        q
      rw [ih, getD_setIfInBounds]
      by_cases hq : q = p' + 1
      · subst hq
        rw [if_neg (by omega), if_pos ⟨rfl, hp⟩, if_pos ⟨by omega, Nat.le_refl _⟩]
      · by_cases hin : p' + 1 - n ≤ q ∧ q ≤ p'
        · rw [if_pos hin, if_pos ⟨by omega, by omega⟩]
        · rw [if_neg hin, if_neg (fun h => hq h.1.symm), if_neg (by omega)]

/-- Non-decreasing. -/
def Mono : List Nat → Prop
  | [] => True
  | [_] => True
  | a :: b :: rest => a ≤ b ∧ Mono (b :: rest)

instance Mono.dec : ∀ l, Decidable (Mono l)
  | [] => isTrue trivial
  | [_] => isTrue trivial
  | a :: b :: r => by
    unfold Mono
    exact @instDecidableAnd _ _ _ (Mono.dec (b :: r))

theorem Mono.tail {a : Nat} {l : List Nat} (h : Mono (a :: l)) : Mono l := by
  cases l with
  | nil => trivial
  | cons b r => exact h.2

theorem Mono.head_le {a : Nat} : ∀ {l : List Nat}, Mono (a :: l) → ∀ x ∈ l, a ≤ x
  | [], _, _, hx => by cases hx
  | b :: r, h, x, hx => by
    rcases List.mem_cons.mp hx with rfl | hx
    · exact h.1
    · exact Nat.le_trans h.1 (Mono.head_le h.2 x hx)

/-- State of the offsets while a level is being allocated: `done` parents processed (the last
one is `last`, `lo ≤ last`), cells up to `last` final, cells above still zero. -/
structure Mid (o : Array Nat) (lo start : Nat) (cnt : Nat → Nat) (last : Option Nat) : Prop where
  low : ∀ q, lo ≤ q → q < start → (∀ l, last = some l → q ≤ l) → last ≠ none →
    o.getD q 0 + q = start + 1 + cnt q ∧ o.getD q 0 ≠ 0
  high : ∀ q, lo ≤ q → q < start → (∀ l, last = some l → l < q) → o.getD q 0 = 0

theorem countP_lt_mono (ps : List Nat) (p q : Nat) (h : ∀ x ∈ ps, p ≤ x) (hq : q ≤ p) :
    ps.countP (fun x => decide (x < q)) = 0 := by
  rw [List.countP_eq_zero]
  intro x hx
  have := h x hx
  simp only [decide_eq_true_eq]; omega

/-- First cell the next walk-back may write: one above the last processed parent. -/
def zOf (lo : Nat) : Option Nat → Nat
  | some l => l + 1
  | none => lo

/-- The allocation loop of one level, on the offsets. `pre` is what has been processed. -/
theorem fillOffs_spec (lo start : Nat) (hlo : lo ≤ start) :
    ∀ (ps pre : List Nat) (o : Array Nat) (last : Option Nat),
      Mono ps → (∀ p ∈ ps, lo ≤ p ∧ p < start) →
      (∀ l, last = some l → lo ≤ l ∧ l < start ∧ (∀ p ∈ ps, l ≤ p) ∧ (∀ x ∈ pre, x ≤ l)) →
      (last = none → pre = []) →
      start < o.size →
      (lo = 0 ∨ o.getD (lo - 1) 0 ≠ 0) →
      Mid o lo start (fun q => pre.countP (fun x => decide (x < q))) last →
      ∃ last', (∀ l, last' = some l → lo ≤ l ∧ l < start ∧ ∀ x ∈ pre ++ ps, x ≤ l) ∧
        (last' = none → pre ++ ps = []) ∧
        Mid (fillOffs ps (start + 1 + pre.length) o) lo start
          (fun q => (pre ++ ps).countP (fun x => decide (x < q))) last' ∧
        (fillOffs ps (start + 1 + pre.length) o).size = o.size ∧
        (∀ q, q < lo ∨ start ≤ q → (fillOffs ps (start + 1 + pre.length) o).getD q 0 = o.getD q 0)
  | [], pre, o, last, _, _, hl, hn, _, _, hmid => by
    refine ⟨last, ?_, ?_, ?_, rfl, fun _ _ => rfl⟩
    · intro l h
      obtain ⟨h1, h2, _, h4⟩ := hl l h
      exact ⟨h1, h2, by simpa using h4⟩
    · intro h; simp [hn h]
    · simpa [fillOffs] using hmid
  | p :: ps, pre, o, last, hmono, hrange, hl, hn, hsz, hguard, hmid => by
    obtain ⟨hplo, hpst⟩ := hrange p (by simp)
    have hps_ge : ∀ x ∈ ps, p ≤ x := Mono.head_le hmono
    simp only [fillOffs]
    -- the walk-back writes the cells `[z, p]`, `z = zOf lo last`
    have hzlo : lo ≤ zOf lo last := by
      cases hlast : last with
      | none => exact Nat.le_refl _
      | some l => have := (hl l hlast).1; simp only [zOf]; omega
    have hwb : ∀ q, (walkBack (start + 1 + pre.length) (p + 1) o).getD q 0 =
        if zOf lo last ≤ q ∧ q ≤ p then start + 1 + pre.length - q else o.getD q 0 := by
      cases hlast : last with
      | none =>
        have := walkBack_spec (start + 1 + pre.length) (p + 1 - lo) p o (by omega) (by omega)
          (by
            intro q h1 h2
            exact hmid.high q (by omega) (by omega) (by intro l hl'; rw [hlast] at hl'; cases hl'))
          (by
            rcases hguard with h | h
            · left; omega
            · right
              have e : p - (p + 1 - lo) = lo - 1 := by omega
              rw [e]; exact h)
        intro q
        have e : p + 1 - (p + 1 - lo) = lo := by omega
        rw [e] at this
        exact this q
      | some l =>
        obtain ⟨h1, h2, h3, h4⟩ := hl l hlast
        have hlp : l ≤ p := h3 p (by simp)
        have hnzl := (hmid.low l h1 h2 (by intro l' e; rw [hlast] at e; cases e; exact Nat.le_refl _)
          (by rw [hlast]; simp)).2
        have := walkBack_spec (start + 1 + pre.length) (p - l) p o (by omega) (by omega)
          (by
            intro q hq1 hq2
            exact hmid.high q (by omega) (by omega)
              (by intro l' e; rw [hlast] at e; cases e; omega))
          (by
            right
            have e : p - (p - l) = l := by omega
            rw [e]; exact hnzl)
        intro q
        have e : p + 1 - (p - l) = l + 1 := by omega
        rw [e] at this
        exact this q
    have hwb_in : ∀ q, zOf lo last ≤ q → q ≤ p →
        (walkBack (start + 1 + pre.length) (p + 1) o).getD q 0 = start + 1 + pre.length - q :=
      fun q h1 h2 => by rw [hwb q, if_pos ⟨h1, h2⟩]
    have hwb_out : ∀ q, ¬ (zOf lo last ≤ q ∧ q ≤ p) →
        (walkBack (start + 1 + pre.length) (p + 1) o).getD q 0 = o.getD q 0 :=
      fun q h => by rw [hwb q, if_neg h]
    have hszw : (walkBack (start + 1 + pre.length) (p + 1) o).size = o.size :=
      (walkBack_pres _ _ _).1
    have hlen : start + 1 + pre.length + 1 = start + 1 + (pre ++ [p]).length := by simp; omega
    rw [hlen]
    have hpre_le : ∀ x ∈ pre, x ≤ p := by
      intro x hx
      cases hlast : last with
      | none => rw [hn hlast] at hx; cases hx
      | some l =>
        obtain ⟨_, _, h3, h4⟩ := hl l hlast
        exact Nat.le_trans (h4 x hx) (h3 p (by simp))
    have ih := fillOffs_spec lo start hlo ps (pre ++ [p])
      (walkBack (start + 1 + pre.length) (p + 1) o) (some p) hmono.tail
      (fun x hx => hrange x (by simp [hx]))
      (by
        intro l e
        cases e
        refine ⟨hplo, hpst, hps_ge, ?_⟩
        intro x hx
        rcases List.mem_append.mp hx with hx | hx
        · exact hpre_le x hx
        · simp at hx; omega)
      (by intro e; cases e)
      (by rw [hszw]; exact hsz)
      (by
        by_cases hlo0 : lo = 0
        · exact Or.inl hlo0
        · rcases hguard with h | h
          · exact Or.inl h
          · right
            rw [hwb_out (lo - 1) (by omega)]
            exact h)
      (by
        constructor
        · intro q hq1 hq2 hle _
          have hqp : q ≤ p := hle p rfl
          simp only [List.countP_append, List.countP_cons, List.countP_nil]
          have hpq : ¬ p < q := by omega
          simp only [hpq, decide_false, Bool.false_eq_true, if_false, Nat.add_zero, Nat.zero_add]
          cases hlast : last with
          | none =>
            have hz : zOf lo last = lo := by rw [hlast]; rfl
            rw [hwb_in q (by rw [hz]; exact hq1) hqp, hn hlast]
            simp only [List.length_nil, List.countP_nil]
            omega
          | some l =>
            have hz : zOf lo last = l + 1 := by rw [hlast]; rfl
            obtain ⟨h1, h2, h3, h4⟩ := hl l hlast
            by_cases hql : l + 1 ≤ q
            · rw [hwb_in q (by rw [hz]; exact hql) hqp]
              have hc : pre.countP (fun x => decide (x < q)) = pre.length := by
                rw [List.countP_eq_length]
                intro x hx
                have := h4 x hx
                simp only [decide_eq_true_eq]; omega
              rw [hc]; omega
            · rw [hwb_out q (by rw [hz]; omega)]
              exact hmid.low q hq1 hq2 (by intro l' e; rw [hlast] at e; cases e; omega)
                (by rw [hlast]; simp)
        · intro q hq1 hq2 hgt
          have hpq : p < q := hgt p rfl
          rw [hwb_out q (by omega)]
          apply hmid.high q hq1 hq2
          intro l hlast
          have := (hl l hlast).2.2.1 p (by simp)
          omega)
    obtain ⟨last', h1, h2, h3, h4, h5⟩ := ih
    refine ⟨last', ?_, ?_, ?_, ?_, ?_⟩
    · intro l e
      obtain ⟨a1, a2, a3⟩ := h1 l e
      exact ⟨a1, a2, by intro x hx; exact a3 x (by simpa using hx)⟩
    · intro e; have := h2 e; simp at this
    · simpa using h3
    · rw [h4, hszw]
    · intro q hq
      rw [h5 q hq, hwb_out q (by omega)]

/-- The trailing fill: the zero cells `[i - n, i)` directly below `i` (cell `i - n - 1` is not
zero) get `offsets[i] + (i - q)`; nothing else changes. -/
theorem trailFill_spec : ∀ (n i : Nat) (o : Array Nat), n + 1 ≤ i → i < o.size →
    (∀ q, i - n ≤ q → q < i → o.getD q 0 = 0) → o.getD (i - n - 1) 0 ≠ 0 →
    ∀ q, (trailFill (i + 1) o).getD q 0 =
      if i - n ≤ q ∧ q < i then o.getD i 0 + (i - q) else o.getD q 0
  | 0, i, o, hi, _, _, hnz => by
    intro q
    unfold trailFill
    simp only
    have hi0 : ¬ i = 0 := by omega
    rw [if_neg hi0]
    have e : i - 0 - 1 = i - 1 := by omega
    rw [e] at hnz
    rw [if_pos hnz, if_neg (by omega)]
  | n + 1, i, o, hi, hsz, hz, hnz => by
    intro q
    unfold trailFill
    simp only
    have hi0 : ¬ i = 0 := by omega
    rw [if_neg hi0]
    have hz1 : o.getD (i - 1) 0 = 0 := hz (i - 1) (by omega) (by omega)
    rw [if_neg (by rw [hz1]; simp)]
    have hi1 : i = (i - 1) + 1 := by omega
    have ih := trailFill_spec n (i - 1) (o.setIfInBounds (i - 1) (o.getD i 0 + 1)) (by omega)
      (by rw [Array.size_setIfInBounds]; omega)
      (by
        intro q' h1 h2
        rw [getD_setIfInBounds, if_neg (by omega)]
        exact hz q' (by omega) (by omega))
      (by
        rw [getD_setIfInBounds, if_neg (by omega)]
        have e : i - 1 - n - 1 = i - (n + 1) - 1 := by omega
        rw [e]; exact hnz)
      q
    rw [← hi1] at ih
    rw [ih]
    rw [getD_setIfInBounds, getD_setIfInBounds]
    by_cases hq : q = i - 1
    · subst hq
      rw [if_neg (by omega), if_pos ⟨rfl, by omega⟩, if_pos ⟨by omega, by omega⟩]
      omega
    · by_cases hin : i - 1 - n ≤ q ∧ q < i - 1
      · rw [if_pos hin, if_pos ⟨rfl, by omega⟩, if_pos ⟨by omega, by omega⟩]
        omega
      · rw [if_neg hin, if_neg (fun h => hq h.1.symm), if_neg (by omega)]

theorem Mono.le_getLast : ∀ {l : List Nat} (h : Mono l) (hne : l ≠ []), ∀ x ∈ l, x ≤ l.getLast hne
  | [], _, hne, _, _ => absurd rfl hne
  | [a], _, _, x, hx => by simp at hx; simp [hx]
  | a :: b :: r, h, _, x, hx => by
    rw [List.getLast_cons (by simp)]
    rcases List.mem_cons.mp hx with rfl | hx
    · exact Nat.le_trans h.1 (Mono.le_getLast h.2 (by simp) b (by simp))
    · exact Mono.le_getLast h.2 (by simp) x hx

/-- **The offsets of one level.** `offs`: the buffer before the level is allocated, `start`
the index of the level's dummy node, `[lo, start)` the parent level (all cells still zero,
the cell below it – if any – not), `ps` the parents' indices of the level's nodes in
allocation order (non-decreasing, non-empty). After the dummy write, one walk-back per
allocated node and the trailing fill:

* for every parent `q`: `q + offsets[q] = start + 1 + #{k | ps[k] < q}` – the index of its
  first child if it has one, of the next parent's first child otherwise, one past the level
  if there is none;
* the dummy cell holds `len + 1`;
* no other cell changed. -/
theorem level_offsets (offs : Array Nat) (lo start : Nat) (hlo : lo ≤ start) (ps : List Nat)
    (hne : ps ≠ []) (hmono : Mono ps) (hrange : ∀ p ∈ ps, lo ≤ p ∧ p < start)
    (hsz : start < offs.size) (hzero : ∀ q, lo ≤ q → q < start → offs.getD q 0 = 0)
    (hguard : lo = 0 ∨ offs.getD (lo - 1) 0 ≠ 0) :
    let fin := trailFill (start + 1)
      (fillOffs ps (start + 1) (offs.setIfInBounds start (ps.length + 1)))
    (∀ q, lo ≤ q → q < start →
      fin.getD q 0 + q = start + 1 + ps.countP (fun x => decide (x < q))) ∧
    fin.getD start 0 = ps.length + 1 ∧
    (∀ q, q < lo ∨ start < q → fin.getD q 0 = offs.getD q 0) ∧
    fin.size = offs.size := by
  intro fin
  have hset : ∀ q, (offs.setIfInBounds start (ps.length + 1)).getD q 0 =
      if q = start then ps.length + 1 else offs.getD q 0 := by
    intro q
    rw [getD_setIfInBounds]
    by_cases h : q = start
    · subst h; simp [hsz]
    · rw [if_neg (fun hh => h hh.1.symm), if_neg h]
  have hspec := fillOffs_spec lo start hlo ps [] (offs.setIfInBounds start (ps.length + 1)) none
    hmono hrange (by intro l e; cases e) (fun _ => rfl)
    (by rw [Array.size_setIfInBounds]; exact hsz)
    (by
      rcases hguard with h | h
      · exact Or.inl h
      · by_cases h0 : lo = 0
        · exact Or.inl h0
        · right; rw [hset, if_neg (by omega)]; exact h)
    ⟨fun _ _ _ _ h => absurd rfl h,
     fun q h1 h2 _ => by rw [hset, if_neg (by omega)]; exact hzero q h1 h2⟩
  simp only [List.length_nil, Nat.add_zero, List.nil_append] at hspec
  obtain ⟨last', h1, h2, hmid, hsize, hframe⟩ := hspec
  cases hl : last' with
  | none => exact absurd (h2 hl) hne
  | some pm =>
    obtain ⟨hpm1, hpm2, hpm3⟩ := h1 pm hl
    have hstart : (fillOffs ps (start + 1) (offs.setIfInBounds start (ps.length + 1))).getD start 0
        = ps.length + 1 := by
      rw [hframe start (Or.inr (Nat.le_refl _)), hset, if_pos rfl]
    have hpmnz := (hmid.low pm hpm1 hpm2 (by intro l e; rw [hl] at e; cases e; exact Nat.le_refl _)
      (by rw [hl]; simp)).2
    have htf := trailFill_spec (start - pm - 1) start
      (fillOffs ps (start + 1) (offs.setIfInBounds start (ps.length + 1))) (by omega)
      (by rw [hsize, Array.size_setIfInBounds]; exact hsz)
      (by
        intro q hq1 hq2
        exact hmid.high q (by omega) hq2 (by intro l e; rw [hl] at e; cases e; omega))
      (by
        have e : start - (start - pm - 1) - 1 = pm := by omega
        rw [e]; exact hpmnz)
    have e : start - (start - pm - 1) = pm + 1 := by omega
    rw [e] at htf
    refine ⟨?_, ?_, ?_, ?_⟩
    · intro q hq1 hq2
      show (trailFill _ _).getD q 0 + q = _
      rw [htf q]
      by_cases hq : pm + 1 ≤ q
      · rw [if_pos ⟨hq, hq2⟩, hstart]
        have hc : ps.countP (fun x => decide (x < q)) = ps.length := by
          rw [List.countP_eq_length]
          intro x hx
          have := hpm3 x hx
          simp only [decide_eq_true_eq]; omega
        rw [hc]; omega
      · rw [if_neg (fun h => hq h.1)]
        exact (hmid.low q hq1 hq2 (by intro l e; rw [hl] at e; cases e; omega)
          (by rw [hl]; simp)).1
    · show (trailFill _ _).getD start 0 = _
      rw [htf start, if_neg (by omega), hstart]
    · intro q hq
      show (trailFill _ _).getD q 0 = _
      rw [htf q, if_neg (by omega), hframe q (by omega), hset, if_neg (by omega)]
    · show (trailFill _ _).size = _
      rw [(trailFill_pres _ _).1, hsize, Array.size_setIfInBounds]

/-- `level_offsets` for the literal `fillLevel` of the model: the list `ps` is what the
`parents` dictionary returns for the sorted n-grams of the level. -/
theorem fillLevel_offsets (U : Nat) (isTop : Bool) (d : List Item) (f : Fill) :
    (fillLevel U isTop d f).offsets =
      trailFill (f.allocated + 1)
        (fillOffs ((sortLevel d).map (fun e => (f.parents.lookup e.key.dropLast).getD 0 + f.lastStart))
          (f.allocated + 1) (f.offsets.setIfInBounds f.allocated (d.length + 1))) := by
  unfold fillLevel
  simp only
  rw [fillNodes_eq_fillOffs]

end PdtVerif.NgramTrie
