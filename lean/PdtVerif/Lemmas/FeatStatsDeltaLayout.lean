import PdtVerif.Lemmas.FeatStatsLayout
/-!
# `feat_deltas`: the op chain equals the index map (helper lemmas for `C18_delta_layout`)
-/
namespace PdtVerif.FeatStats

theorem rowsOf_mem_length (n : Nat) (data : List Rat) (nrows : Nat) (hlen : nrows * n ≤ data.length)
    (row : List Rat) (h : row ∈ rowsOf n data nrows) : row.length = n := by
  unfold rowsOf at h
  obtain ⟨i, hi, rfl⟩ := List.mem_map.mp h
  have hi' := List.mem_range.mp hi
  have : i * n + n ≤ data.length := by
    have : (i + 1) * n ≤ data.length := le_trans (Nat.mul_le_mul_right n hi') hlen
    rwa [Nat.add_mul, Nat.one_mul] at this
  simp; omega

theorem deltaRow_illegal (mode : PadMode) (order w : Nat) (fs : List (List Rat)) (row : List Rat)
    (h : padLegal mode (w * order) row.length = false) : deltaRow mode order w fs row = none := by
  simp [deltaRow, pad1d, h]

theorem deltaRow_legal (mode : PadMode) (order w : Nat) (fs : List (List Rat)) (row : List Rat)
    (h : padLegal mode (w * order) row.length = true) : ∃ outs, deltaRow mode order w fs row = some outs := by
  simp [deltaRow, pad1d, h]

theorem deltaRowSpec_length (mode : PadMode) (order w : Nat) (row : List Rat) :
    (deltaRowSpec mode order w row).length = order + 1 := by simp [deltaRowSpec]

theorem deltaRowSpec_inner_length (mode : PadMode) (order w : Nat) (row : List Rat) (v : List Rat)
    (h : v ∈ deltaRowSpec mode order w row) : v.length = row.length := by
  unfold deltaRowSpec at h
  obtain ⟨u, _, rfl⟩ := List.mem_map.mp h
  simp

/-- One entry of the stacked result, in terms of the input. -/
theorem stack_point (x : Tensor) (m td dm order w : Nat) (mode : PadMode)
    (hD : x.shape.length = m + 1) (htd : td ≤ m) (hdm : dm ≤ m + 1)
    (hT : 0 < x.shape.getD td 1) (o : List Nat) (ho : o.length = m + 2)
    (hvalid : Valid ((List.range m).map (fun j => x.shape.getD (swapF td m j) 1))
      ((List.range m).map (fun d => o.getD (asmG m td dm d) 0)))
    (hu : o.getD (asmG m td dm m) 0 < order + 1)
    (ht : o.getD (asmG m td dm (m + 1)) 0 < x.shape.getD td 1) :
    let pre := (List.range m).map (fun j => x.shape.getD (swapF td m j) 1)
    let T := x.shape.getD td 1
    let rows := rowsOf T (x.transpose td m).data (prod pre)
    let ι := fun d => o.getD (asmG m td dm d) 0
    (((rows.map (deltaRowSpec mode order w)).getD (ravel pre ((List.range m).map ι)) []).getD (ι m) []).getD
        (ι (m + 1)) 0
      = deltaEntry x td w mode (o.getD dm 0) (o.eraseIdx dm) := by
  intro pre T rows ι
  have hxs : (x.transpose td m).shape = pre ++ [T] := xt_shape x m td hD htd
  have hlen : (x.transpose td m).data.length = prod pre * T := by
    rw [transpose_eq_permute, permute_data_length, ← transpose_eq_permute, hxs, prod_append]
    simp [prod]
  have hr : ravel pre ((List.range m).map ι) < prod pre := ravel_lt hvalid
  generalize hrr : ravel pre ((List.range m).map ι) = r at hr
  have hrows : rows.length = prod pre := rowsOf_length _ _ _
  have hrow : rows.getD r [] = (List.range T).map (fun i => (x.transpose td m).data.getD (r * T + i) 0) :=
    rowsOf_getD T _ (prod pre) r hr (by rw [hlen])
  have hget : (rows.map (deltaRowSpec mode order w)).getD r [] = deltaRowSpec mode order w (rows.getD r []) := by
    simp [List.getD_eq_getElem?_getD, List.getElem?_map, List.getElem?_eq_getElem (by rw [hrows]; exact hr : r < rows.length)]
  have htl : ι (m + 1) < (rows.getD r []).length := by rw [hrow]; simp only [List.length_map, List.length_range]; exact ht
  rw [hget, deltaRowSpec_getD mode order w _ (ι m) (ι (m + 1)) hu htl]
  unfold deltaEntry
  have hu' : ι m = o.getD dm 0 := by show o.getD (asmG m td dm m) 0 = _; rw [asmG_order m td dm htd hdm]
  have ht' : ι (m + 1) = (o.eraseIdx dm).getD td 0 := by
    show o.getD (asmG m td dm (m + 1)) 0 = _
    rw [asmG_time m td dm htd hdm, getD_eraseIdx]
  rw [hu', ht', hrow]
  congr 2
  apply List.map_congr_left
  intro i hi
  have hi' : i < T := List.mem_range.mp hi
  -- the flat position r*T+i is the multi-index (ι 0, …, ι (m-1), i) of the transposed input
  let ι' := fun d => if d = m then i else ι d
  have hidx : (List.range (m + 1)).map ι' = (List.range m).map ι ++ [i] := by
    rw [range_map_succ]
    congr 1
    · apply List.map_congr_left
      intro d hd
      have := List.mem_range.mp hd
      simp [ι', show d ≠ m by omega]
    · simp [ι']
  have hpos : r * T + i = ravel (x.transpose td m).shape ((List.range (m + 1)).map ι') := by
    rw [hxs, hidx, ravel_append pre [T] _ [i] (by simp [pre]), hrr]
    simp [ravel, prod]
  have hat : (x.transpose td m).data.getD (r * T + i) 0 = (x.transpose td m).at (m + 1) ι' := by
    unfold Tensor.at; rw [hpos]
  have hv : VI (x.transpose td m) (m + 1) ι' := by
    intro d hd
    rw [hxs]
    by_cases hdm' : d = m
    · subst hdm'
      rw [List.getD_eq_getElem?_getD, List.getElem?_append_right (by simp [pre])]
      simpa [ι', pre] using hi'
    · have hd' : d < m := by omega
      have := (valid_map_range pre m (by simp [pre]) ι).mp hvalid d hd'
      rw [List.getD_eq_getElem?_getD, List.getElem?_append_left (by simpa [pre] using hd')]
      simpa [ι', hdm', List.getD_eq_getElem?_getD] using this
  obtain ⟨e, _⟩ := transpose_at' x (m + 1) hD td m (by omega) (by omega) ι' hv
  rw [hat, e]
  unfold Tensor.at
  rw [stack_entry_index m td dm htd hdm o ho i]

theorem indexMap_stack (x : Tensor) (td dm order w : Nat) (mode : PadMode) :
    featDeltasIndexMap x td dm false order w mode =
      { shape := x.shape.take dm ++ [order + 1] ++ x.shape.drop dm
        data := (List.range (prod (x.shape.take dm ++ [order + 1] ++ x.shape.drop dm))).map (fun k =>
          deltaEntry x td w mode ((unravel (x.shape.take dm ++ [order + 1] ++ x.shape.drop dm) k).getD dm 0)
            ((unravel (x.shape.take dm ++ [order + 1] ++ x.shape.drop dm) k).eraseIdx dm)) } := by
  unfold featDeltasIndexMap deltaEntry
  simp only [Bool.false_eq_true, if_false]

/-- The stacked assembly of the row deltas is the index map. -/
theorem stack_tensor_eq (x : Tensor) (m td dm order w : Nat) (mode : PadMode)
    (hD : x.shape.length = m + 1) (htd : td ≤ m) (hdm : dm ≤ m + 1)
    (outs : List (List (List Rat)))
    (hout : 0 < prod (x.shape.take dm ++ [order + 1] ++ x.shape.drop dm) →
      0 < x.shape.getD td 1 ∧
      outs = (rowsOf (x.shape.getD td 1) (x.transpose td m).data
        (prod ((List.range m).map (fun j => x.shape.getD (swapF td m j) 1)))).map
          (deltaRowSpec mode order w)) :
    assembleDeltas ((List.range m).map (fun j => x.shape.getD (swapF td m j) 1) ++ [x.shape.getD td 1])
      (m + 1) td dm false order outs = featDeltasIndexMap x td dm false order w mode := by
  rw [indexMap_stack]
  obtain ⟨hs, hl, hp⟩ := assemble_stack ((List.range m).map (fun j => x.shape.getD (swapF td m j) 1)) m
    (x.shape.getD td 1) td dm order (by simp) htd hdm outs
  rw [stack_shape x.shape m td dm order hD htd hdm] at hs
  generalize assembleDeltas _ (m + 1) td dm false order outs = Y at hs hl hp
  cases Y with
  | mk Ys Yd =>
    simp only at hs hl hp
    subst hs
    congr 1
    rw [list_eq_map_range_getD Yd, hl]
    apply List.map_congr_left
    intro k hk
    have hk' := List.mem_range.mp hk
    obtain ⟨hT, hout'⟩ := hout (by omega)
    have hxs := xt_shape x m td hD htd
    have hlen : (x.transpose td m).data.length
        = prod ((List.range m).map (fun j => x.shape.getD (swapF td m j) 1)) * x.shape.getD td 1 := by
      rw [transpose_eq_permute, permute_data_length, ← transpose_eq_permute, hxs, prod_append]
      simp [prod]
    have hL : outs.length = prod ((List.range m).map (fun j => x.shape.getD (swapF td m j) 1)) := by
      rw [hout']; simp [rowsOf_length]
    have hLa : ∀ l ∈ outs, l.length = order + 1 := by
      intro l hl'
      rw [hout'] at hl'
      obtain ⟨row, _, rfl⟩ := List.mem_map.mp hl'
      exact deltaRowSpec_length _ _ _ _
    have hLb : ∀ l ∈ outs, ∀ v ∈ l, v.length = x.shape.getD td 1 := by
      intro l hl' v hv
      rw [hout'] at hl'
      obtain ⟨row, hrow, rfl⟩ := List.mem_map.mp hl'
      rw [deltaRowSpec_inner_length _ _ _ _ v hv]
      exact rowsOf_mem_length _ _ _ (by rw [hlen]) row hrow
    obtain ⟨e, hvalid, hu, ht⟩ := hp hL hLa hLb k hk'
    rw [e, hout']
    exact stack_point x m td dm order w mode hD htd hdm hT _
      (by rw [unravel_length]; simp [hD]; omega) hvalid hu ht

/-! ## Concatenation = the stacked result with axes `dm`, `dm + 1` merged -/

theorem getD_mid : ∀ (A : List Nat) (a b : Nat) (C : List Nat) (n : Nat), A.length = n →
    (A ++ [a, b] ++ C).getD n 0 = a
  | [], _, _, _, _, h => by subst h; rfl
  | x :: A, a, b, C, n + 1, h => by
    simpa using getD_mid A a b C n (by simpa using h)
  | _ :: _, _, _, _, 0, h => by simp at h

theorem eraseIdx_mid : ∀ (A : List Nat) (a b : Nat) (C : List Nat) (n : Nat), A.length = n →
    (A ++ [a, b] ++ C).eraseIdx n = A ++ [b] ++ C
  | [], _, _, _, _, h => by subst h; rfl
  | x :: A, a, b, C, n + 1, h => by
    simpa using eraseIdx_mid A a b C n (by simpa using h)
  | _ :: _, _, _, _, 0, h => by simp at h

theorem indexMap_cat (x : Tensor) (td dm order w : Nat) (mode : PadMode) :
    featDeltasIndexMap x td dm true order w mode =
      { shape := x.shape.set dm (x.shape.getD dm 1 * (order + 1))
        data := (List.range (prod (x.shape.set dm (x.shape.getD dm 1 * (order + 1))))).map (fun k =>
          deltaEntry x td w mode
            ((unravel (x.shape.set dm (x.shape.getD dm 1 * (order + 1))) k).getD dm 0 / x.shape.getD dm 1)
            ((unravel (x.shape.set dm (x.shape.getD dm 1 * (order + 1))) k).set dm
              ((unravel (x.shape.set dm (x.shape.getD dm 1 * (order + 1))) k).getD dm 0 % x.shape.getD dm 1))) } := by
  unfold featDeltasIndexMap deltaEntry
  simp only [if_true]

theorem assemble_cat (s : List Nat) (D td dm order : Nat) (outs : List (List (List Rat))) :
    assembleDeltas s D td dm true order outs =
      (assembleDeltas s D td dm false order outs).reshape
        ((assembleDeltas s D td dm false order outs).shape.take dm ++
          [(assembleDeltas s D td dm false order outs).shape.getD dm 1 *
            (assembleDeltas s D td dm false order outs).shape.getD (dm + 1) 1] ++
          (assembleDeltas s D td dm false order outs).shape.drop (dm + 2)) := by
  unfold assembleDeltas
  simp only [if_true, Bool.false_eq_true, if_false]

theorem reshape_stack_eq_cat (x : Tensor) (td dm order w : Nat) (mode : PadMode)
    (hdm : dm < x.shape.length) :
    let Y := featDeltasIndexMap x td dm false order w mode
    Y.reshape (Y.shape.take dm ++ [Y.shape.getD dm 1 * Y.shape.getD (dm + 1) 1] ++ Y.shape.drop (dm + 2))
      = featDeltasIndexMap x td dm true order w mode := by
  intro Y
  have hY : Y = featDeltasIndexMap x td dm false order w mode := rfl
  rw [indexMap_stack] at hY
  rw [indexMap_cat, hY]
  -- split the shape at dm
  obtain ⟨P, Q, S, hs, hP⟩ : ∃ P Q S, x.shape = P ++ S :: Q ∧ P.length = dm := by
    refine ⟨x.shape.take dm, x.shape.drop (dm + 1), x.shape[dm], ?_, by simp; omega⟩
    rw [List.getElem_cons_drop, List.take_append_drop]
  have hS : x.shape.getD dm 1 = S := by
    rw [hs, List.getD_eq_getElem?_getD, List.getElem?_append_right (by omega)]; simp [hP]
  have htake : x.shape.take dm = P := by rw [hs, List.take_left' hP]
  have hdrop : x.shape.drop dm = S :: Q := by rw [hs, List.drop_left' hP]
  have hset : x.shape.set dm (S * (order + 1)) = P ++ ((order + 1) * S) :: Q := by
    rw [hs, List.set_append_right _ _ (by omega), hP, Nat.sub_self, List.set_cons_zero, Nat.mul_comm]
  rw [hS, htake, hdrop, hset]
  have hst : P ++ [order + 1] ++ S :: Q = P ++ (order + 1) :: S :: Q := by simp
  rw [hst]
  unfold Tensor.reshape
  simp only []
  have e1 : (P ++ (order + 1) :: S :: Q).take dm = P := List.take_left' hP
  have e2 : (P ++ (order + 1) :: S :: Q).getD dm 1 = order + 1 := by
    rw [List.getD_eq_getElem?_getD, List.getElem?_append_right (by omega)]; simp [hP]
  have e3 : (P ++ (order + 1) :: S :: Q).getD (dm + 1) 1 = S := by
    rw [List.getD_eq_getElem?_getD, List.getElem?_append_right (by omega)]; simp [hP]
  have e4 : (P ++ (order + 1) :: S :: Q).drop (dm + 2) = Q := by
    have : P ++ (order + 1) :: S :: Q = (P ++ [order + 1, S]) ++ Q := by simp
    rw [this, List.drop_left' (by simp [hP])]
  rw [e1, e2, e3, e4]
  have hshape : P ++ [(order + 1) * S] ++ Q = P ++ ((order + 1) * S) :: Q := by simp
  rw [hshape]
  congr 1
  rw [prod_merge]
  apply List.map_congr_left
  intro k _
  have hm := unravel_merge Q (order + 1) S P k
  have hl := unravel_length (P ++ ((order + 1) * S) :: Q) k
  generalize unravel (P ++ ((order + 1) * S) :: Q) k = oc at hm hl
  have hlt : dm < oc.length := by rw [hl]; simp; omega
  rw [hm, hP, getD_mid _ _ _ _ dm (by simp; omega), eraseIdx_mid _ _ _ _ dm (by simp; omega),
    List.set_eq_take_append_cons_drop, if_pos hlt]
  simp

/-! ## The whole of `featDeltasRows` / `featDeltasCore` -/

theorem prod_stack (s : List Nat) (dm a : Nat) :
    prod (s.take dm ++ [a] ++ s.drop dm) = a * prod s := by
  conv_rhs => rw [← List.take_append_drop dm s]
  simp only [prod_append, prod]
  ring

theorem assemble_eq (x : Tensor) (m td dm order w : Nat) (cat : Bool) (mode : PadMode)
    (hD : x.shape.length = m + 1) (htd : td ≤ m) (hdm : dm ≤ (if cat then m else m + 1))
    (outs : List (List (List Rat)))
    (hout : 0 < prod (x.shape.take dm ++ [order + 1] ++ x.shape.drop dm) →
      0 < x.shape.getD td 1 ∧
      outs = (rowsOf (x.shape.getD td 1) (x.transpose td m).data
        (prod ((List.range m).map (fun j => x.shape.getD (swapF td m j) 1)))).map
          (deltaRowSpec mode order w)) :
    assembleDeltas ((List.range m).map (fun j => x.shape.getD (swapF td m j) 1) ++ [x.shape.getD td 1])
      (m + 1) td dm cat order outs = featDeltasIndexMap x td dm cat order w mode := by
  cases cat with
  | false =>
    exact stack_tensor_eq x m td dm order w mode hD htd (by simpa using hdm) outs hout
  | true =>
    have hdm' : dm ≤ m := by simpa using hdm
    rw [assemble_cat, stack_tensor_eq x m td dm order w mode hD htd (by omega) outs hout]
    exact reshape_stack_eq_cat x td dm order w mode (by omega)

theorem featDeltasRows_eq (x : Tensor) (m td dm order w : Nat) (cat : Bool) (mode : PadMode)
    (fs : List (List Rat)) (hD : x.shape.length = m + 1) (htd : td ≤ m)
    (hdm : dm ≤ (if cat then m else m + 1))
    (hrow : ∀ row outs, deltaRow mode order w fs row = some outs → outs = deltaRowSpec mode order w row) :
    featDeltasRows x td dm cat order w mode fs =
      if x.numel ≠ 0 ∧ !(padLegal mode (w * order) (x.shape.getD td 1)) then none
      else some (featDeltasIndexMap x td dm cat order w mode) := by
  have hxs := xt_shape x m td hD htd
  have hnum : x.numel = prod ((List.range m).map (fun j => x.shape.getD (swapF td m j) 1)) * x.shape.getD td 1 := by
    unfold Tensor.numel
    rw [← prod_transpose x (m + 1) hD td m (by omega) (by omega), hxs, prod_append]
    simp [prod]
  have hlen : (x.transpose td m).data.length
      = prod ((List.range m).map (fun j => x.shape.getD (swapF td m j) 1)) * x.shape.getD td 1 := by
    rw [transpose_eq_permute, permute_data_length, ← transpose_eq_permute, hxs, prod_append]
    simp [prod]
  have hcore : featDeltasRows x td dm cat order w mode fs =
      ((rowsOf (x.shape.getD td 1) (x.transpose td m).data
          (if x.shape.getD td 1 = 0 then 0 else
            prod ((List.range m).map (fun j => x.shape.getD (swapF td m j) 1) ++ [x.shape.getD td 1]) /
              (if x.shape.getD td 1 = 0 then 1 else x.shape.getD td 1))).mapM
        (deltaRow mode order w fs)).map
        (assembleDeltas ((List.range m).map (fun j => x.shape.getD (swapF td m j) 1) ++ [x.shape.getD td 1])
          (m + 1) td dm cat order) := by
    unfold featDeltasRows Tensor.numel
    simp only [hD, Nat.add_sub_cancel, hxs, List.getLast?_concat, Option.getD_some]
  rw [hcore]
  generalize hpre : (List.range m).map (fun j => x.shape.getD (swapF td m j) 1) = pre at *
  generalize hT : x.shape.getD td 1 = T at *
  have hstack : prod (x.shape.take dm ++ [order + 1] ++ x.shape.drop dm) = (order + 1) * (prod pre * T) := by
    rw [prod_stack]; unfold Tensor.numel at hnum; rw [hnum]
  by_cases hT0 : T = 0
  · -- no frame: no rows, everything is empty
    subst hT0
    have hn0 : x.numel = 0 := by rw [hnum]; simp
    simp only [if_true, hn0, ne_eq, not_true_eq_false, false_and, if_false]
    have : rowsOf 0 (x.transpose td m).data 0 = [] := rfl
    rw [this]
    show Option.map _ (some []) = _
    simp only [Option.map_some, Option.some.injEq]
    rw [← hpre, ← hT]
    apply assemble_eq x m td dm order w cat mode hD htd hdm
    intro hpos
    rw [hstack] at hpos
    simp at hpos
  · have hTpos : 0 < T := Nat.pos_of_ne_zero hT0
    have hnrows : prod (pre ++ [T]) / T = prod pre := by
      rw [prod_append]; simp [prod, Nat.mul_div_cancel _ hTpos]
    simp only [hT0, if_false, hnrows]
    have hrl : ∀ row ∈ rowsOf T (x.transpose td m).data (prod pre), row.length = T :=
      fun row h => rowsOf_mem_length T _ (prod pre) (by rw [hlen]) row h
    by_cases hc : x.numel ≠ 0 ∧ (!(padLegal mode (w * order) T)) = true
    · rw [if_pos hc]
      obtain ⟨hn, hill⟩ := hc
      have hppos : 0 < prod pre := by
        rcases Nat.eq_zero_or_pos (prod pre) with h0 | h0
        · rw [hnum, h0] at hn; simp at hn
        · exact h0
      have hlen0 : 0 < (rowsOf T (x.transpose td m).data (prod pre)).length := by
        rw [rowsOf_length]; exact hppos
      have hmem := List.getElem_mem hlen0
      rw [mapM_eq_none _ _ ⟨_, hmem, deltaRow_illegal mode order w fs _ (by
        rw [hrl _ hmem]; simpa using hill)⟩]
      rfl
    · rw [if_neg hc]
      have hall : ∀ row ∈ rowsOf T (x.transpose td m).data (prod pre),
          deltaRow mode order w fs row = some (deltaRowSpec mode order w row) := by
        intro row hmem
        have hleg : padLegal mode (w * order) row.length = true := by
          rw [hrl row hmem]
          by_contra hcon
          apply hc
          refine ⟨?_, by simpa using hcon⟩
          intro h0
          have : prod pre = 0 := by
            rw [hnum] at h0
            rcases Nat.mul_eq_zero.mp h0 with h | h
            · exact h
            · omega
          have hl0 : (rowsOf T (x.transpose td m).data (prod pre)).length = 0 := by
            rw [rowsOf_length]; exact this
          rw [List.length_eq_zero_iff.mp hl0] at hmem
          simp at hmem
        obtain ⟨outs, ho⟩ := deltaRow_legal mode order w fs row hleg
        rw [ho, hrow row outs ho]
      rw [mapM_eq_some_map _ _ _ hall]
      simp only [Option.map_some, Option.some.injEq]
      rw [← hpre, ← hT]
      apply assemble_eq x m td dm order w cat mode hD htd hdm
      intro _
      rw [hT, hpre]
      exact ⟨hTpos, rfl⟩

/-- `featDeltasCore` = the shape-level checks of `pad` / `conv1d` (at least one frame, a padding the
mode allows — also on a tensor without any entry), then the index map. -/
theorem featDeltasCore_eq (x : Tensor) (m td dm order w : Nat) (cat : Bool) (mode : PadMode)
    (fs : List (List Rat)) (hD : x.shape.length = m + 1) (htd : td ≤ m)
    (hdm : dm ≤ (if cat then m else m + 1))
    (hrow : ∀ row outs, deltaRow mode order w fs row = some outs → outs = deltaRowSpec mode order w row) :
    featDeltasCore x td dm cat order w mode fs =
      if x.shape.getD td 1 = 0 ∨ !(padLegal mode (w * order) (x.shape.getD td 1)) then none
      else some (featDeltasIndexMap x td dm cat order w mode) := by
  unfold featDeltasCore
  simp only []
  by_cases hbad : x.shape.getD td 1 = 0 ∨ (!(padLegal mode (w * order) (x.shape.getD td 1))) = true
  · rw [if_pos hbad, if_pos hbad]
  · rw [if_neg hbad, if_neg hbad, featDeltasRows_eq x m td dm order w cat mode fs hD htd hdm hrow]
    have hleg : ¬ (x.numel ≠ 0 ∧ (!(padLegal mode (w * order) (x.shape.getD td 1))) = true) :=
      fun h => hbad (Or.inr h.2)
    rw [if_neg hleg]

end PdtVerif.FeatStats
