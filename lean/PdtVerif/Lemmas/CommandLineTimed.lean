import PdtVerif.Lemmas.CommandLine
import PdtVerif.Lemmas.Transcripts
import PdtVerif.Spec.CommandLineTimed
/-! Helper lemmas for the timed transcript commands of C17 (ctm / TextGrid round trips at the
command level). The frame arithmetic is C11's (`toFrames_bounds`). -/
set_option linter.unusedSectionVars false
namespace PdtVerif.CommandLine
open PdtVerif.Transcripts (Timed Transcripts Tok TElem FrErr toFrames transcriptToToken
  tokenToTranscript timedOk toFrames_bounds mapM_except_cons rowOf backOf lookupId resolveUnk)

/-! ## One entry -/

theorem timedOk_iff (x : Timed) : timedOk x = true ↔ 0 ≤ x.2.1 ∧ x.2.1 ≤ x.2.2 := by
  simp [timedOk]

/-- Start frame `≤` end frame, whatever the times. -/
theorem toFrames_le (f s e : Rat) : (toFrames (some f) s e).1 ≤ (toFrames (some f) s e).2 := by
  unfold toFrames
  by_cases h : (s == e) = true
  · simp [h]
  · simp only [h, Bool.false_eq_true, if_false]
    exact le_trans (by omega) (le_max_right _ _)

/-- The start frame is monotone in the start time. -/
theorem toFrames_start (f s e : Rat) : (toFrames (some f) s e).1 = ((1000 * s) / f).floor := by
  unfold toFrames
  by_cases h : (s == e) = true <;> simp [h]

/-- The entry recovered from the frames is within one frame of the original … -/
theorem frameBack_close (f : Rat) (hf : 0 < f) (x : Timed) (hx : timedOk x = true) :
    CloseT (f / 1000) x (frameBack f x) := by
  obtain ⟨hs, hse⟩ := (timedOk_iff x).1 hx
  obtain ⟨_, _, c1, c2, c3, c4⟩ := toFrames_bounds f x.2.1 x.2.2 hf hs hse
  exact ⟨rfl, c1, c2, c3, c4⟩

/-- … and is again an expressible entry (`0 ≤ start ≤ end`). -/
theorem frameBack_ok (f : Rat) (hf : 0 < f) (x : Timed) (hx : timedOk x = true) :
    timedOk (frameBack f x) = true := by
  obtain ⟨hs, hse⟩ := (timedOk_iff x).1 hx
  obtain ⟨a0, _, _, _, _, _⟩ := toFrames_bounds f x.2.1 x.2.2 hf hs hse
  have hle := toFrames_le f x.2.1 x.2.2
  rw [timedOk_iff]
  simp only [frameBack]
  have ha : (0 : Rat) ≤ ((toFrames (some f) x.2.1 x.2.2).1 : Rat) := by exact_mod_cast a0
  have hab : ((toFrames (some f) x.2.1 x.2.2).1 : Rat) ≤ ((toFrames (some f) x.2.1 x.2.2).2 : Rat) := by
    exact_mod_cast hle
  constructor
  · have := mul_nonneg ha hf.le
    exact div_nonneg this (by norm_num)
  · have := mul_le_mul_of_nonneg_right hab hf.le
    exact div_le_div_of_nonneg_right this (by norm_num)

/-! ## One file -/

/-- The id the table gives to the token of an entry. -/
def idOf (t2i : List (Tok × Int)) (x : Timed) : Int := (t2i.lookup (.s x.1)).getD 0

/-- The row written for an entry. -/
def rowF (t2i : List (Tok × Int)) (f : Rat) (x : Timed) : Int × Int × Int :=
  (idOf t2i x, (toFrames (some f) x.2.1 x.2.2).1, (toFrames (some f) x.2.1 x.2.2).2)

theorem saveRows_ok (t2i : List (Tok × Int)) (f : Rat) (unk : Option Tok) (t : List Timed)
    (h : ∀ x ∈ t, ∃ id, t2i.lookup (.s x.1) = some id) :
    saveRows t2i f unk t = .ok (t.map (rowF t2i f)) := by
  unfold saveRows transcriptToToken
  induction t with
  | nil => simp [pure, Except.pure]
  | cons x xs ih =>
    simp only [List.map_cons]
    apply mapM_except_cons
    · obtain ⟨id, hid⟩ := h x List.mem_cons_self
      simp [rowOf, timedElem, lookupId, hid, Except.map, rowF, idOf]
    · exact ih (fun y hy => h y (List.mem_cons_of_mem _ hy))

theorem backTimed_ok (t2i : List (Tok × Int)) (i2t : List (Int × Tok)) (f : Rat) (hf : 0 < f)
    (t : List Timed)
    (hinv : ∀ x ∈ t, ∃ id, t2i.lookup (.s x.1) = some id ∧ i2t.lookup id = some (.s x.1))
    (hok : ∀ x ∈ t, timedOk x = true) :
    backTimed i2t f (t.map (rowF t2i f)) = some (t.map (frameBack f)) := by
  unfold backTimed tokenToTranscript
  rw [List.map_map, List.map_map]
  apply optAll_map_some
  intro x hx
  obtain ⟨id, h1, h2⟩ := hinv x hx
  obtain ⟨hs, hse⟩ := (timedOk_iff x).1 (hok x hx)
  obtain ⟨a0, b0, _, _, _, _⟩ := toFrames_bounds f x.2.1 x.2.2 hf hs hse
  have ha : ((toFrames (some f) x.2.1 x.2.2).1 == -1) = false := by
    rw [beq_eq_false_iff_ne]; omega
  have hb : ((toFrames (some f) x.2.1 x.2.2).2 == -1) = false := by
    rw [beq_eq_false_iff_ne]; omega
  simp only [Function.comp, backOf, rowF, idOf, h1, Option.getD_some, h2, ha, hb, Bool.or_self,
    Bool.false_eq_true, if_false, elemTimed, frameBack]

/-! ## Whole directories -/

/-- timed transcripts -> token dir -> timed transcripts, for every prefix and suffix and every
order in which the pool wrote the files: both commands succeed and the transcripts loaded back
are those of the corpus, every entry replaced by `frameBack`, in sorted order of the ids. -/
theorem timed_roundtrip (le : List Char → List Char → Bool)
    (htrans : ∀ a b c, le a b = true → le b c = true → le a c = true)
    (htotal : ∀ a b, (le a b || le b a) = true)
    (p s : List Char) (t2i : List (Tok × Int)) (i2t : List (Int × Tok)) (unk : Option Tok)
    (f : Rat) (hf : 0 < f)
    (corpus delivered : List (List Char × List Timed)) (hperm : delivered.Perm corpus)
    (hutts : (corpus.map (·.1)).Nodup)
    (hinv : ∀ e ∈ corpus, ∀ x ∈ e.2,
      ∃ id, t2i.lookup (.s x.1) = some id ∧ i2t.lookup id = some (.s x.1))
    (hok : ∀ e ∈ corpus, ∀ x ∈ e.2, timedOk x = true) :
    ∃ d out, timedToDir p s t2i f unk delivered = .ok d ∧
      dirToTimed le p s i2t f d = some out ∧
      out.Perm (corpus.map (fun e => (String.ofList e.1, e.2.map (frameBack f)))) ∧
      (out.map (fun e => e.1.toList)).Pairwise (fun a b => le a b = true) := by
  have hdn : (delivered.map (·.1)).Nodup := (hperm.map _).nodup_iff.2 hutts
  -- step 1: the directory written
  let kvs : List (List Char × List (Int × Int × Int)) :=
    delivered.map (fun ut => (fileName p s ut.1, ut.2.map (rowF t2i f)))
  have hkeys : kvs.map (·.1) = (delivered.map (·.1)).map (fileName p s) := by
    simp [kvs, List.map_map, Function.comp_def]
  have hkn : (kvs.map (·.1)).Nodup := by
    rw [hkeys]
    exact List.pairwise_map.2 (hdn.imp (fun hne e => hne (fileName_injective p s e)))
  have h1 : timedToDir p s t2i f unk delivered = .ok kvs.reverse := by
    unfold timedToDir
    rw [exceptAll_map_ok delivered _ (fun ut => (fileName p s ut.1, ut.2.map (rowF t2i f)))]
    · simp only [Except.map]
      rw [writeAll_eq_reverse [] _ hkn (by simp)]
      simp [kvs]
    · intro ut hut
      rw [saveRows_ok t2i f unk ut.2 (fun x hx => by
        obtain ⟨id, h, _⟩ := hinv ut (hperm.mem_iff.1 hut) x hx
        exact ⟨id, h⟩)]
      rfl
  let payload : List Char → String × List Timed :=
    fun u => (String.ofList u, (trOf corpus u).map (frameBack f))
  refine ⟨kvs.reverse, ((delivered.reverse.map (·.1)).mergeSort (fun a b => le a b)).map payload,
    h1, ?_⟩
  -- step 2: reading back
  have hlist : listedUtts p s (kvs.reverse.map (·.1)) = delivered.reverse.map (·.1) := by
    rw [List.map_reverse, hkeys, ← List.map_reverse, listedUtts_fileNames, List.map_reverse]
  have hsorted_perm : ((delivered.reverse.map (·.1)).mergeSort (fun a b => le a b)).Perm
      (corpus.map (·.1)) :=
    (List.mergeSort_perm _ _).trans (((List.reverse_perm delivered).trans hperm).map _)
  have hget : ∀ u ∈ (delivered.reverse.map (·.1)).mergeSort (fun a b => le a b),
      ((Dir.get kvs.reverse (fileName p s u)).bind (fun rows =>
        (backTimed i2t f rows).map (fun t => (String.ofList u, t)))) = some (payload u) := by
    intro u hu
    have hu' : u ∈ corpus.map (·.1) := hsorted_perm.mem_iff.1 hu
    obtain ⟨e, he, rfl⟩ := List.mem_map.1 hu'
    have hed : e ∈ delivered := hperm.mem_iff.2 he
    have hkr : (kvs.reverse.map (·.1)).Nodup := by
      rw [List.map_reverse]; exact (List.reverse_perm _).nodup_iff.2 hkn
    have hg : Dir.get kvs.reverse (fileName p s e.1) = some (e.2.map (rowF t2i f)) := by
      unfold Dir.get
      apply (lookup_eq_some_iff _ hkr _ _).2
      rw [List.mem_reverse]
      exact List.mem_map.2 ⟨e, hed, rfl⟩
    rw [hg, Option.bind_some, backTimed_ok t2i i2t f hf e.2 (hinv e he) (hok e he)]
    simp [payload, trOf_mem corpus hutts e he]
  unfold dirToTimed
  simp only []
  rw [hlist, optAll_map_some _ _ payload hget]
  refine ⟨rfl, ?_, ?_⟩
  · have := hsorted_perm.map payload
    refine this.trans ?_
    rw [List.map_map]
    apply List.Perm.of_eq
    apply List.map_congr_left
    intro e he
    simp only [Function.comp, payload, trOf_mem corpus hutts e he]
  · rw [List.map_map]
    have : ((fun (e : String × List Timed) => e.1.toList) ∘ payload) = id := by
      funext u; simp [payload]
    rw [this, List.map_id]
    exact List.pairwise_mergeSort htrans htotal _

/-! ## token dir -> TextGrid: the length `T` and the tier order -/

theorem foldl_max_ge (xs : List Int) (x : Int) :
    x ≤ xs.foldl max x ∧ ∀ y ∈ xs, y ≤ xs.foldl max x := by
  induction xs generalizing x with
  | nil => simp
  | cons a as ih =>
    simp only [List.foldl_cons, List.mem_cons]
    obtain ⟨h1, h2⟩ := ih (max x a)
    refine ⟨le_trans (le_max_left _ _) h1, ?_⟩
    rintro y (rfl | hy)
    · exact le_trans (le_max_right _ _) h1
    · exact h2 y hy

/-- Every start and end frame of a file is at most `ref[..., 1:].max()`. -/
theorem le_maxFrame (rows : List (Int × Int × Int)) (r : Int × Int × Int) (hr : r ∈ rows) :
    r.2.1 ≤ maxFrame rows ∧ r.2.2 ≤ maxFrame rows := by
  unfold maxFrame
  have hmem1 : r.2.1 ∈ rows.flatMap (fun r => [r.2.1, r.2.2]) :=
    List.mem_flatMap.2 ⟨r, hr, by simp⟩
  have hmem2 : r.2.2 ∈ rows.flatMap (fun r => [r.2.1, r.2.2]) :=
    List.mem_flatMap.2 ⟨r, hr, by simp⟩
  generalize rows.flatMap (fun r => [r.2.1, r.2.2]) = l at hmem1 hmem2
  cases l with
  | nil => simp at hmem1
  | cons x xs =>
    simp only []
    obtain ⟨h1, h2⟩ := foldl_max_ge xs x
    constructor
    · rcases List.mem_cons.1 hmem1 with e | e
      · rw [e]; exact h1
      · exact h2 _ e
    · rcases List.mem_cons.1 hmem2 with e | e
      · rw [e]; exact h1
      · exact h2 _ e

theorem foldl_min_ge (c : Rat) (xs : List Rat) (x : Rat) (hx : c ≤ x) (hxs : ∀ y ∈ xs, c ≤ y) :
    c ≤ xs.foldl min x := by
  induction xs generalizing x with
  | nil => simpa using hx
  | cons a as ih =>
    simp only [List.foldl_cons]
    exact ih (min x a) (le_min hx (hxs a (by simp))) (fun y hy => hxs y (List.mem_cons_of_mem _ hy))

theorem foldl_max_le (c : Rat) (xs : List Rat) (x : Rat) (hx : x ≤ c) (hxs : ∀ y ∈ xs, y ≤ c) :
    xs.foldl max x ≤ c := by
  induction xs generalizing x with
  | nil => simpa using hx
  | cons a as ih =>
    simp only [List.foldl_cons]
    exact ih (max x a) (max_le hx (hxs a (by simp))) (fun y hy => hxs y (List.mem_cons_of_mem _ hy))

theorem le_minList (c : Rat) (l : List Rat) (hne : l ≠ []) (h : ∀ y ∈ l, c ≤ y) :
    c ≤ PdtVerif.Transcripts.minList l := by
  cases l with
  | nil => exact absurd rfl hne
  | cons x xs =>
    exact foldl_min_ge c xs x (h x (by simp)) (fun y hy => h y (List.mem_cons_of_mem _ hy))

theorem maxList_le (c : Rat) (l : List Rat) (hne : l ≠ []) (h : ∀ y ∈ l, y ≤ c) :
    PdtVerif.Transcripts.maxList l ≤ c := by
  cases l with
  | nil => exact absurd rfl hne
  | cons x xs =>
    exact foldl_max_le c xs x (h x (by simp)) (fun y hy => h y (List.mem_cons_of_mem _ hy))

/-- The recovered start is monotone in the original start: the tier order survives. -/
theorem frameBack_start_mono (f : Rat) (hf : 0 < f) (x y : Timed) (h : x.2.1 ≤ y.2.1) :
    (frameBack f x).2.1 ≤ (frameBack f y).2.1 := by
  simp only [frameBack, toFrames_start]
  have hq : (1000 * x.2.1) / f ≤ (1000 * y.2.1) / f := by
    apply div_le_div_of_nonneg_right _ hf.le
    linarith
  have hfl : ((1000 * x.2.1) / f).floor ≤ ((1000 * y.2.1) / f).floor :=
    Rat.le_floor_iff.2 (le_trans (Rat.floor_le _) hq)
  have hc : ((((1000 * x.2.1) / f).floor : Int) : Rat) ≤ ((((1000 * y.2.1) / f).floor : Int) : Rat) := by
    exact_mod_cast hfl
  have := mul_le_mul_of_nonneg_right hc hf.le
  exact div_le_div_of_nonneg_right this (by norm_num)

/-- A segment of positive length gets rows that pass the test of method 1. -/
theorem rowF_method1 (t2i : List (Tok × Int)) (f : Rat) (hf : 0 < f) (t : List Timed)
    (hpos : ∀ x ∈ t, 0 ≤ x.2.1 ∧ x.2.1 < x.2.2) : tgMethod1 (t.map (rowF t2i f)) = true := by
  unfold tgMethod1
  rw [List.all_eq_true]
  intro r hr
  obtain ⟨x, hx, rfl⟩ := List.mem_map.1 hr
  obtain ⟨hs, hlt⟩ := hpos x hx
  obtain ⟨a0, _, _, _, _, _⟩ := toFrames_bounds f x.2.1 x.2.2 hf hs hlt.le
  have hne : (x.2.1 == x.2.2) = false := by
    rw [beq_eq_false_iff_ne]; exact ne_of_lt hlt
  have hlt' : (toFrames (some f) x.2.1 x.2.2).1 < (toFrames (some f) x.2.1 x.2.2).2 := by
    unfold toFrames
    simp only [hne, Bool.false_eq_true, if_false]
    exact lt_of_lt_of_le (by omega) (le_max_right _ _)
  simp only [rowF, Bool.and_eq_true]
  exact ⟨decide_eq_true hlt', decide_eq_true a0⟩

end PdtVerif.CommandLine
