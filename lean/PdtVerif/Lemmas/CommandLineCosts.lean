import PdtVerif.Lemmas.CommandLine
import PdtVerif.Lemmas.ErrorRate
import PdtVerif.Model.CommandLineCosts
/-!
# C17: the error-rate command with non-unit costs

`compute-torch-token-data-dir-error-rates --costs i d s` hands the interned sequences to
`error_rate(..., norm=False, ins_cost, del_cost, sub_cost)`. C02's model of that function
(`Model/ErrorRate.lean`: the paired cost/mistakes table with its tie-breaking — substitution on
ties with insertion, the current cell on ties with deletion — and the uniform-cost shortcut) only
ever *compares* tokens, so the count it returns does not depend on how the command numbered the
tokens (`Relabels`): the hypothesis of `C17_er_total` holds for the real count with ANY costs.

Used read-only from C02: `errorRateCol`, `errorRateCol_eq`, `valueAt`, `tableRow`, `stepPair`,
`phase1`, `subCell`, `levRow_getElem?`, `valueAt_spec`.
-/
set_option linter.unusedSectionVars false
namespace PdtVerif.CommandLine
open PdtVerif.Lev PdtVerif.ErrorRate

section Costs
variable {α β : Type} [DecidableEq α] [DecidableEq β]

theorem zipWith_congr_mem {γ δ : Type} (g g' : α → γ → δ) (l : List α) (l' : List γ)
    (h : ∀ a ∈ l, ∀ b, g a b = g' a b) : List.zipWith g l l' = List.zipWith g' l l' := by
  induction l generalizing l' with
  | nil => simp
  | cons a as ih =>
    cases l' with
    | nil => simp
    | cons b bs =>
      simp only [List.zipWith_cons_cons]
      rw [h a (by simp) b, ih bs (fun a' ha' b' => h a' (List.mem_cons_of_mem _ ha') b')]

/-- One step of the paired table only tests `x = y`. -/
theorem stepPair_map (c : Costs) (f : α → β) (ref : List α) (y : α) (m : Bool) (last : List Cell)
    (hf : ∀ x ∈ ref, f x = f y → x = y) :
    stepPair c (ref.map f) (f y) m last = stepPair c ref y m last := by
  unfold stepPair phase1
  cases last with
  | nil => rfl
  | cons d0 rest =>
    simp only []
    congr 3
    rw [List.zipWith_map_left]
    apply zipWith_congr_mem
    intro x hx cell
    have hd : decide (f x ≠ f y) = decide (x ≠ y) := by
      by_cases e : x = y
      · simp [e]
      · have : f x ≠ f y := fun h => e (hf x hx h)
        simp [e, this]
    simp only [subCell, hd]

theorem foldl_congr_mem {ρ : Type} (g g' : ρ → α → ρ) (l : List α) (init : ρ)
    (h : ∀ y ∈ l, ∀ r, g r y = g' r y) : l.foldl g init = l.foldl g' init := by
  induction l generalizing init with
  | nil => rfl
  | cons y ys ih =>
    simp only [List.foldl_cons]
    rw [h y (by simp) init, ih _ (fun y' hy' r => h y' (List.mem_cons_of_mem _ hy') r)]

/-- The whole paired table is invariant under a renumbering that is injective on the tokens
present. -/
theorem tableRow_map (c : Costs) (f : α → β) (r h : List α)
    (hinj : ∀ a ∈ r ++ h, ∀ b ∈ r ++ h, f a = f b → a = b) :
    tableRow c (r.map f) (h.map f) = tableRow c r h := by
  unfold tableRow
  rw [List.foldl_map, List.length_map]
  apply foldl_congr_mem
  intro y hy row
  apply stepPair_map
  intro x hx e
  exact hinj x (List.mem_append.2 (Or.inl hx)) y (List.mem_append.2 (Or.inr hy)) e

end Costs

theorem errorRateCol_plain {α : Type} [DecidableEq α] (c : Costs) (r h : List α) :
    errorRateCol { eos := none, includeEos := false, norm := false, costs := c } r h
      = valueAt c r r.length h := by
  rw [errorRateCol_eq]
  simp [seqLen, normScalar]

theorem valueAt_map {τ : Type} [DecidableEq τ] (c : Costs) (f : τ → Nat) (r h : List τ)
    (hinj : ∀ a ∈ r ++ h, ∀ b ∈ r ++ h, f a = f b → a = b) :
    valueAt c (r.map f) (r.map f).length (h.map f) = valueAt c r r.length h := by
  unfold valueAt
  split
  · rw [List.getD_eq_getElem?_getD, List.getD_eq_getElem?_getD,
      levRow_getElem? unitCosts (r.map f) (h.map f) _ (le_refl _),
      levRow_getElem? unitCosts r h _ (le_refl _), List.take_length, List.take_length,
      lev_map_injOn unitCosts f r h hinj]
  · rw [tableRow_map c f r h hinj, List.length_map]

end PdtVerif.CommandLine
