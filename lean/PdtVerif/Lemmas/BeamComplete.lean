import PdtVerif.Lemmas.BeamRun
import Mathlib.Data.List.Nodup
/-!
# C04: completeness of the search when nothing has to be pruned

Part 1 (spec level): `completeFrom … (t+1) []` is obtained from `completeFrom … t []` by extending
every unfinished sequence by every token of non-zero probability (`ext`).
Part 2: as long as the beam is at least as wide as that set, the usable slots of a beam at step
`t` are exactly the members of `completeFrom … t []`.
-/
namespace PdtVerif.Beam

variable {σ : Type}

/-- The sequence has ended: its last token is eos. -/
def ended (eos : Option Int) (q : List Int) : Bool :=
  match eos with
  | none => false
  | some e => q.getLast? == some e

/-- One more step for one sequence: an ended sequence stays, any other is extended by every
token with a finite score. -/
def ext (spec : List Int → List Score) (V : Nat) (eos : Option Int) (q : List Int) :
    List (List Int) :=
  if ended eos q then [q]
  else (List.range V).flatMap fun (v : Nat) =>
    if (tokScore (spec q) (v : Int)).isNone then [] else [q ++ [(v : Int)]]

theorem ended_concat (eos : Option Int) (q : List Int) (v : Int) :
    ended eos (q ++ [v]) = (eos == some v) := by
  cases eos with
  | none => simp [ended]
  | some e =>
    simp only [ended, List.getLast?_append, List.getLast?_singleton, Option.some_or]
    by_cases h : e = v
    · simp [h]
    · simp [h]
      exact fun h' => h h'.symm

theorem completeFrom_succ (spec : List Int → List Score) (V : Nat) (eos : Option Int) (T : Nat)
    (pre : List Int) (h : ended eos pre = false) :
    completeFrom spec V eos (T + 1) pre
      = (completeFrom spec V eos T pre).flatMap (ext spec V eos) := by
  induction T generalizing pre with
  | zero =>
    simp only [completeFrom, List.flatMap_cons, List.flatMap_nil, List.append_nil, ext, h,
      Bool.false_eq_true, if_false]
    apply List.flatMap_congr
    intro v _
    split <;> simp
  | succ T ih =>
    rw [completeFrom, completeFrom, List.flatMap_assoc]
    apply List.flatMap_congr
    intro v _
    split
    · simp
    · split
      · rename_i he
        have : ended eos (pre ++ [(v : Int)]) = true := by rw [ended_concat]; simp [he]
        simp [ext, this]
      · rename_i he
        have : ended eos (pre ++ [(v : Int)]) = false := by rw [ended_concat]; simpa using he
        rw [← ih _ this, completeFrom]

theorem ended_nil (eos : Option Int) : ended eos [] = false := by
  cases eos <;> simp [ended]

theorem frontier_succ (spec : List Int → List Score) (V : Nat) (eos : Option Int) (t : Nat) :
    completeFrom spec V eos (t + 1) []
      = (completeFrom spec V eos t []).flatMap (ext spec V eos) :=
  completeFrom_succ spec V eos t [] (ended_nil eos)

/-- Once every member has ended the set does not change any more. -/
theorem frontier_stable (spec : List Int → List Score) (V : Nat) (eos : Option Int) (t n : Nat)
    (h : ∀ q ∈ completeFrom spec V eos t [], ended eos q = true) :
    completeFrom spec V eos (t + n) [] = completeFrom spec V eos t [] := by
  induction n with
  | zero => rfl
  | succ n ih =>
    rw [← Nat.add_assoc, frontier_succ, ih]
    have : ∀ q ∈ completeFrom spec V eos t [], ext spec V eos q = [q] := by
      intro q hq; simp [ext, h q hq]
    rw [List.flatMap_congr this]
    simp

/-- With a finite entry in every score row the set never shrinks. -/
theorem frontier_mono (spec : List Int → List Score) (V : Nat) (eos : Option Int)
    (hL : SpecLive V spec) (t : Nat) :
    (completeFrom spec V eos t []).length ≤ (completeFrom spec V eos (t + 1) []).length := by
  rw [frontier_succ]
  generalize completeFrom spec V eos t [] = l
  induction l with
  | nil => simp
  | cons q l ih =>
    simp only [List.flatMap_cons, List.length_append, List.length_cons]
    have : 1 ≤ (ext spec V eos q).length := by
      unfold ext
      split
      · simp
      · obtain ⟨v, hv, hf⟩ := hL q
        have hmem : (q ++ [(v : Int)]) ∈ (List.range V).flatMap fun (v : Nat) =>
            if (tokScore (spec q) (v : Int)).isNone then [] else [q ++ [(v : Int)]] := by
          rw [List.mem_flatMap]
          refine ⟨v, List.mem_range.mpr hv, ?_⟩
          rw [tokScore_nat]
          cases hx : (spec q).getD v none with
          | none => exact absurd hx hf
          | some x => simp
        exact List.length_pos_of_mem hmem
    omega

/-! ## Part 2 — the beam holds exactly the frontier -/

/-- The usable slots of a beam are exactly the members of `completeFrom … t []`. -/
structure CInv (cfg : Cfg) (spec : List Int → List Score) (t : Nat) (slots : List Slot) : Prop where
  cov : ∀ q ∈ completeFrom spec cfg.V cfg.eos t [], ∃ s ∈ slots, s.score ≠ none ∧ s.path = q
  snd : ∀ s ∈ slots, s.score ≠ none → s.path ∈ completeFrom spec cfg.V cfg.eos t []

theorem isEnded_eq_ended (eos : Option Int) {t : Nat} {s : Slot} (h1 : s.len ≤ s.col.length)
    (h2 : s.len ≤ t) : isEnded eos t s = ended eos s.path := by
  cases eos with
  | none => simp [isEnded, lastIsEos, ended]
  | some eo =>
    by_cases h0 : 0 < s.len
    · have ht : (t != 0) = true := by simp; omega
      simp only [isEnded, ht, Bool.true_and, lastIsEos, h0, decide_true, ended,
        path_getLast? h1 h0]
    · have hp : s.path = [] := by simp [Slot.path]; omega
      simp [isEnded, lastIsEos, ended, hp, h0]

section step
variable {cfg : Cfg} {lm : LM σ} {spec : List Int → List Score} {Rep : List Int → σ → Prop}
  {t : Nat} {e : Elem σ}

/-- A finite candidate is a member of `ext` of its source path. -/
theorem cand_sound (hlm : LMOK cfg.V lm spec Rep) (hst : Static cfg spec t e.slots)
    (hlive : Live cfg Rep t e) {k v : Nat} (hv : v < cfg.V) {p : Slot} {st : σ}
    (hp : e.slots[k]? = some p) (hs : e.sts[k]? = some st)
    (hf : (candsOf cfg lm t e).getD (k * cfg.V + v) none ≠ none) :
    p.score ≠ none ∧
      (newSlot cfg t t true e.slots (candsOf cfg lm t e) (k * cfg.V + v)).path
        ∈ ext spec cfg.V cfg.eos p.path := by
  have hg : ∀ s ∈ e.slots, s.len = t → true = true := fun _ _ _ => rfl
  obtain ⟨-, -, hsc, hrest⟩ := newSlot_spec hlm hst hlive hg hv hp hs
  rw [← hsc] at hf
  obtain ⟨hpf, hok, hcase⟩ := hrest hf
  have hpm : p ∈ e.slots := List.mem_of_getElem? hp
  have h1 : p.len ≤ p.col.length := by rw [hst.colLen p hpm]; exact hst.lenLe p hpm
  have h2 : p.len ≤ t := hst.lenLe p hpm
  refine ⟨hpf, ?_⟩
  rcases hcase with ⟨hend, hpath, -, -, -⟩ | ⟨hend, hpath, -, -, -⟩
  · rw [isEnded_eq_ended _ h1 h2] at hend
    rw [hpath]; simp [ext, hend]
  · rw [isEnded_eq_ended _ h1 h2] at hend
    rw [hpath]
    simp only [ext, hend, Bool.false_eq_true, if_false, List.mem_flatMap, List.mem_range]
    refine ⟨v, hv, ?_⟩
    have hs' := hok.score
    rw [hpath, chain_append] at hs'
    rw [hs'] at hf
    have := (Score.add_ne_none hf).2
    cases hx : tokScore (spec p.path) (v : Int) with
    | none => exact absurd hx this
    | some x => simp

/-- Every member of `ext` of a usable slot's path is a finite candidate. -/
theorem cand_complete (hlm : LMOK cfg.V lm spec Rep) (hst : Static cfg spec t e.slots)
    (hlive : Live cfg Rep t e) {k : Nat} {p : Slot} {st : σ}
    (hp : e.slots[k]? = some p) (hs : e.sts[k]? = some st) (hpf : p.score ≠ none)
    {q' : List Int} (hq : q' ∈ ext spec cfg.V cfg.eos p.path) :
    ∃ v, v < cfg.V ∧ (candsOf cfg lm t e).getD (k * cfg.V + v) none ≠ none ∧
      (newSlot cfg t t true e.slots (candsOf cfg lm t e) (k * cfg.V + v)).path = q' := by
  have hg : ∀ s ∈ e.slots, s.len = t → true = true := fun _ _ _ => rfl
  have hpm : p ∈ e.slots := List.mem_of_getElem? hp
  have h1 : p.len ≤ p.col.length := by rw [hst.colLen p hpm]; exact hst.lenLe p hpm
  have h2 : p.len ≤ t := hst.lenLe p hpm
  have hpok := hst.ok p hpm hpf
  obtain ⟨hpt, hpl⟩ := hlive k p st hp hs hpf
  cases hend : ended cfg.eos p.path with
  | true =>
    have hie : isEnded cfg.eos t p = true := by rw [isEnded_eq_ended _ h1 h2]; exact hend
    simp only [ext, hend, if_true, List.mem_singleton] at hq
    cases heos : cfg.eos with
    | none => simp [ended, heos] at hend
    | some eo =>
      simp only [ended, heos, beq_iff_eq] at hend
      have hmem : eo ∈ p.path := List.mem_of_getLast? hend
      obtain ⟨r0, r1⟩ := hpok.range eo hmem
      have hv : eo.toNat < cfg.V := by omega
      have hve : ((eo.toNat : Nat) : Int) = eo := by omega
      have hie' : isEnded (some eo) t p = true := by rw [← heos]; exact hie
      have hrow : (rowOf cfg lm t p st).1 = eosRow cfg.V eo := by
        unfold rowOf
        simp only [heos, hie', if_true]
      have hval : (eosRow cfg.V eo).getD eo.toNat none = some 0 := by
        simp only [eosRow, List.getD_eq_getElem?_getD, List.getElem?_map,
          List.getElem?_range hv, Option.map_some, Option.getD_some, hve, if_true]
      have hc : (candsOf cfg lm t e).getD (k * cfg.V + eo.toNat) none = p.score := by
        rw [cands_get hlm t e hv hp hs, hrow, hval, Score.add_zero]
      refine ⟨eo.toNat, hv, by rw [hc]; exact hpf, ?_⟩
      obtain ⟨-, -, hsc, hrest⟩ := newSlot_spec hlm hst hlive hg hv hp hs
      obtain ⟨-, -, hcase⟩ := hrest (by rw [hsc, hc]; exact hpf)
      rcases hcase with ⟨-, hpath, -, -, -⟩ | ⟨hend', -, -, -, -⟩
      · rw [hpath, hq]
      · rw [hie] at hend'; cases hend'
  | false =>
    have hie : isEnded cfg.eos t p = false := by rw [isEnded_eq_ended _ h1 h2]; exact hend
    simp only [ext, hend, Bool.false_eq_true, if_false, List.mem_flatMap, List.mem_range] at hq
    obtain ⟨v, hv, hq⟩ := hq
    have hts : tokScore (spec p.path) (v : Int) ≠ none := by
      intro hx; simp [hx] at hq
    have hq' : q' = p.path ++ [(v : Int)] := by
      cases hx : tokScore (spec p.path) (v : Int) with
      | none => exact absurd hx hts
      | some x => simpa [hx] using hq
    obtain ⟨hl, hrep⟩ := hpl (isEnded_false_lastIsEos (cfg := cfg) h2 hie)
    have hc : (candsOf cfg lm t e).getD (k * cfg.V + v) none
        = p.score.add ((spec p.path).getD v none) := by
      rw [cands_get hlm t e hv hp hs, rowOf_live hlm hst hpm hpf hie hl hrep]
    have hfin : (candsOf cfg lm t e).getD (k * cfg.V + v) none ≠ none := by
      rw [hc]
      rw [tokScore_nat] at hts
      cases h3 : p.score with
      | none => exact absurd h3 hpf
      | some a =>
        cases h4 : (spec p.path).getD v none with
        | none => exact absurd h4 hts
        | some b => simp [Score.add]
    refine ⟨v, hv, hfin, ?_⟩
    obtain ⟨-, -, hsc, hrest⟩ := newSlot_spec hlm hst hlive hg hv hp hs
    obtain ⟨-, -, hcase⟩ := hrest (by rw [hsc]; exact hfin)
    rcases hcase with ⟨hend', -, -, -, -⟩ | ⟨-, hpath, -, -, -⟩
    · rw [hie] at hend'; cases hend'
    · rw [hpath, hq']

/-- Different finite candidates give different paths. -/
theorem newSlot_path_ne (hlm : LMOK cfg.V lm spec Rep) (hst : Static cfg spec t e.slots)
    (hlive : Live cfg Rep t e) {ka va kb vb : Nat} (hva : va < cfg.V) (hvb : vb < cfg.V)
    {pa pb : Slot} {sta stb : σ} (hpa : e.slots[ka]? = some pa) (hsa : e.sts[ka]? = some sta)
    (hpb : e.slots[kb]? = some pb) (hsb : e.sts[kb]? = some stb)
    (hab : ka * cfg.V + va ≠ kb * cfg.V + vb)
    (fa : (candsOf cfg lm t e).getD (ka * cfg.V + va) none ≠ none)
    (fb : (candsOf cfg lm t e).getD (kb * cfg.V + vb) none ≠ none) :
    (newSlot cfg t t true e.slots (candsOf cfg lm t e) (ka * cfg.V + va)).path
      ≠ (newSlot cfg t t true e.slots (candsOf cfg lm t e) (kb * cfg.V + vb)).path := by
  have hg : ∀ s ∈ e.slots, s.len = t → true = true := fun _ _ _ => rfl
  obtain ⟨-, hlena, hsca, hra⟩ := newSlot_spec hlm hst hlive hg hva hpa hsa
  obtain ⟨-, hlenb, hscb, hrb⟩ := newSlot_spec hlm hst hlive hg hvb hpb hsb
  obtain ⟨fpa, -, ca⟩ := hra (by rw [hsca]; exact fa)
  obtain ⟨fpb, -, cb⟩ := hrb (by rw [hscb]; exact fb)
  intro heq
  by_cases hk : ka = kb
  · subst hk
    have : pa = pb := by rw [hpa] at hpb; exact Option.some.inj hpb
    subst this
    have hne : va ≠ vb := fun h => hab (by rw [h])
    rcases ca with ⟨ea, pha, eva, -, -⟩ | ⟨ea, pha, -, -, -⟩ <;>
      rcases cb with ⟨eb, phb, evb, -, -⟩ | ⟨eb, phb, -, -, -⟩
    · rw [eva] at evb; exact hne (by simp at evb; omega)
    · rw [ea] at eb; simp at eb
    · rw [ea] at eb; simp at eb
    · rw [pha, phb] at heq
      have := List.append_inj_right' heq rfl
      simp at this; exact hne (by omega)
  · have hpp := distinct_idx hst.distinct hpa hpb hk fpa fpb
    rcases ca with ⟨ea, pha, eva, -, la⟩ | ⟨ea, pha, la, lpa, -⟩ <;>
      rcases cb with ⟨eb, phb, evb, -, lb⟩ | ⟨eb, phb, lb, lpb, -⟩
    · rw [pha, phb] at heq; exact hpp heq
    · have h1 : (newSlot cfg t t true e.slots (candsOf cfg lm t e) (ka * cfg.V + va)).path.length
          ≤ t := Nat.le_trans (List.length_take_le _ _) la
      rw [heq, phb] at h1; simp at h1; omega
    · have h1 : (newSlot cfg t t true e.slots (candsOf cfg lm t e) (kb * cfg.V + vb)).path.length
          ≤ t := Nat.le_trans (List.length_take_le _ _) lb
      rw [← heq, pha] at h1; simp at h1; omega
    · rw [pha, phb] at heq
      exact hpp (List.append_inj_left heq (by omega))

/-- **One live step keeps the beam equal to the frontier** when the next frontier fits. -/
theorem stepElem_cinv {sel : Sel} (hsel : SelOK sel) (hlm : LMOK cfg.V lm spec Rep)
    (hlen : e.slots.length = e.sts.length) (hst : Static cfg spec t e.slots)
    (hlive : Live cfg Rep t e) (hc : CInv cfg spec t e.slots)
    (hwid : (completeFrom spec cfg.V cfg.eos (t + 1) []).length ≤ cfg.width) :
    CInv cfg spec (t + 1) (stepElem sel cfg lm t t true e).1 := by
  have hg : ∀ s ∈ e.slots, s.len = t → true = true := fun _ _ _ => rfl
  have hcl := candsOf_length hlm t e hlen
  have hKle : kOf cfg e ≤ (candsOf cfg lm t e).length := by rw [hcl]; exact Nat.min_le_right _ _
  have htop := hsel (candsOf cfg lm t e) (kOf cfg e) hKle
  rw [stepElem_eq]
  simp only
  generalize hinds : sel (candsOf cfg lm t e) (kOf cfg e) = inds at htop
  generalize hcd : candsOf cfg lm t e = c at *
  -- decomposition of an in-range flat index
  have hdec : ∀ j, j < c.length → ∃ k v p st, v < cfg.V ∧ j = k * cfg.V + v ∧
      e.slots[k]? = some p ∧ e.sts[k]? = some st := by
    intro j hj
    rw [hcl] at hj
    obtain ⟨k, v, hk, hv, rfl⟩ := ind_decomp hj
    exact ⟨k, v, e.slots[k], e.sts[k]'(by omega), hv, rfl, List.getElem?_eq_getElem hk,
      List.getElem?_eq_getElem (by omega)⟩
  -- a finite candidate lands in the next frontier
  have hsound : ∀ j, j < c.length → c.getD j none ≠ none →
      (newSlot cfg t t true e.slots c j).path ∈ completeFrom spec cfg.V cfg.eos (t + 1) [] := by
    intro j hj hf
    obtain ⟨k, v, p, st, hv, rfl, hp, hs⟩ := hdec j hj
    subst hcd
    obtain ⟨hpf, hmem⟩ := cand_sound hlm hst hlive hv hp hs hf
    rw [frontier_succ, List.mem_flatMap]
    exact ⟨p.path, hc.snd p (List.mem_of_getElem? hp) hpf, hmem⟩
  -- the finite candidates
  let J := (List.range c.length).filter fun j => (c.getD j none).isSome
  have hJmem : ∀ j, j ∈ J ↔ j < c.length ∧ c.getD j none ≠ none := by
    intro j
    simp only [J, List.mem_filter, List.mem_range, Option.isSome_iff_ne_none]
  have hJnd : J.Nodup := List.Nodup.sublist List.filter_sublist List.nodup_range
  have hJle1 : J.length ≤ c.length := by
    have := List.length_filter_le (fun j => (c.getD j none).isSome) (List.range c.length)
    simpa [J] using this
  have hJle2 : J.length ≤ cfg.width := by
    have hnd : (J.map fun j => (newSlot cfg t t true e.slots c j).path).Nodup := by
      apply List.Nodup.map_on _ hJnd
      intro a ha b hb heq
      by_contra hab
      obtain ⟨ha1, ha2⟩ := (hJmem a).mp ha
      obtain ⟨hb1, hb2⟩ := (hJmem b).mp hb
      obtain ⟨ka, va, pa, sta, hva, rfl, hpa, hsa⟩ := hdec a ha1
      obtain ⟨kb, vb, pb, stb, hvb, rfl, hpb, hsb⟩ := hdec b hb1
      subst hcd
      exact newSlot_path_ne hlm hst hlive hva hvb hpa hsa hpb hsb hab ha2 hb2 heq
    have hsub : (J.map fun j => (newSlot cfg t t true e.slots c j).path)
        ⊆ completeFrom spec cfg.V cfg.eos (t + 1) [] := by
      intro x hx
      obtain ⟨j, hj, rfl⟩ := List.mem_map.mp hx
      obtain ⟨hj1, hj2⟩ := (hJmem j).mp hj
      exact hsound j hj1 hj2
    have := List.Nodup.length_le_of_subset hnd hsub
    simp only [List.length_map] at this
    omega
  have hJK : J.length ≤ kOf cfg e := by
    unfold kOf; rw [hcl] at hJle1; omega
  -- every finite candidate is selected
  have hall : ∀ j ∈ J, j ∈ inds := by
    intro j hj
    by_contra hnot
    obtain ⟨hj1, hj2⟩ := (hJmem j).mp hj
    have hsubJ : (j :: inds) ⊆ J := by
      intro i hi
      rcases List.mem_cons.mp hi with rfl | hi
      · exact hj
      · exact (hJmem i).mpr ⟨htop.bound i hi,
          Score.le_finite (htop.maximal i hi j hj1 hnot) hj2⟩
    have hnd : (j :: inds).Nodup := List.nodup_cons.mpr ⟨hnot, htop.nodup⟩
    have := List.Nodup.length_le_of_subset hnd hsubJ
    simp only [List.length_cons, htop.length] at this
    omega
  have hscore : ∀ j ∈ inds, (newSlot cfg t t true e.slots c j).score = c.getD j none := by
    intro j hj
    obtain ⟨k, v, p, st, hv, rfl, hp, hs⟩ := hdec j (htop.bound j hj)
    subst hcd
    exact (newSlot_spec hlm hst hlive hg hv hp hs).2.2.1
  refine ⟨?_, ?_⟩
  · intro q' hq'
    rw [frontier_succ, List.mem_flatMap] at hq'
    obtain ⟨q, hq, hext⟩ := hq'
    obtain ⟨p, hpm, hpf, rfl⟩ := hc.cov q hq
    obtain ⟨k, hk⟩ := List.getElem?_of_mem hpm
    have hklt : k < e.slots.length := (List.getElem?_eq_some_iff.mp hk).1
    have hs : e.sts[k]? = some (e.sts[k]'(by omega)) := List.getElem?_eq_getElem (by omega)
    have hcc := cand_complete hlm hst hlive hk hs hpf hext
    rw [hcd] at hcc
    obtain ⟨v, hv, hfin, hpath⟩ := hcc
    have hjJ : k * cfg.V + v ∈ J :=
      (hJmem _).mpr ⟨by rw [hcl]; exact flat_lt hklt hv, hfin⟩
    have hji := hall _ hjJ
    refine ⟨newSlot cfg t t true e.slots c (k * cfg.V + v), ?_, ?_, hpath⟩
    · exact List.mem_append_left _ (List.mem_map.mpr ⟨_, hji, rfl⟩)
    · rw [hscore _ hji]; exact hfin
  · intro s hs hf
    rw [List.mem_append] at hs
    rcases hs with hs | hs
    · obtain ⟨j, hj, rfl⟩ := List.mem_map.mp hs
      rw [hscore j hj] at hf
      exact hsound j (htop.bound j hj) hf
    · obtain ⟨-, rfl⟩ := List.mem_replicate.mp hs
      simp [padSlot] at hf

end step

/-- A finished element (`finish_all_paths`) keeps equalling the frontier while it is frozen. -/
theorem freeze_cinv {cfg : Cfg} {spec : List Int → List Score} {t : Nat} {e : Elem σ}
    (hrule : cfg.waitNegInf = false) (hfa : cfg.finishAll = true)
    (hst : Static cfg spec t e.slots) (hd : elemDone cfg t e = true)
    (hc : CInv cfg spec t e.slots) :
    (∀ q ∈ completeFrom spec cfg.V cfg.eos t [], ended cfg.eos q = true) ∧
    CInv cfg spec (t + 1) (e.slots.map (freeze cfg.pad)) := by
  have hle : ∀ s ∈ e.slots, s.len ≤ s.col.length := fun s hs => by
    rw [hst.colLen s hs]; exact hst.lenLe s hs
  have hended : ∀ s ∈ e.slots, s.score ≠ none → ended cfg.eos s.path = true := by
    intro s hs hf
    rw [← isEnded_eq_ended cfg.eos (hle s hs) (hst.lenLe s hs)]
    have ht0 : t ≠ 0 := done_ne_zero hd
    unfold elemDone at hd
    cases heos : cfg.eos with
    | none => simp [heos] at hd
    | some eo =>
      simp only [heos, beq_iff_eq, ht0, if_false, hfa, if_true, hrule, Bool.not_false,
        Bool.true_and, List.all_eq_true, Bool.or_eq_true] at hd
      rcases hd s hs with h | h
      · exact h
      · cases hx : s.score with
        | none => exact absurd hx hf
        | some x => simp [hx] at h
  have hF : ∀ q ∈ completeFrom spec cfg.V cfg.eos t [], ended cfg.eos q = true := by
    intro q hq
    obtain ⟨s, hs, hf, rfl⟩ := hc.cov q hq
    exact hended s hs hf
  refine ⟨hF, ?_, ?_⟩
  · intro q hq
    rw [frontier_stable spec cfg.V cfg.eos t 1 hF] at hq
    obtain ⟨s, hs, hf, rfl⟩ := hc.cov q hq
    exact ⟨freeze cfg.pad s, List.mem_map.mpr ⟨s, hs, rfl⟩, hf, freeze_path (hle s hs)⟩
  · intro s' hs' hf
    obtain ⟨s, hs, rfl⟩ := List.mem_map.mp hs'
    rw [freeze_path (hle s hs), frontier_stable spec cfg.V cfg.eos t 1 hF]
    exact hc.snd s hs hf

/-! ## The run of one element -/

theorem cinv_of_stable {cfg : Cfg} {spec : List Int → List Score} {t : Nat} {slots : List Slot}
    (hF : ∀ q ∈ completeFrom spec cfg.V cfg.eos t [], ended cfg.eos q = true)
    (hc : CInv cfg spec t slots) (n : Nat) : CInv cfg spec (t + n) slots :=
  ⟨fun q hq => hc.cov q (by rwa [frontier_stable spec cfg.V cfg.eos t n hF] at hq),
   fun s hs hf => by rw [frontier_stable spec cfg.V cfg.eos t n hF]; exact hc.snd s hs hf⟩

theorem runElem_cinv {cfg : Cfg} {lm : LM σ} {spec : List Int → List Score}
    {Rep : List Int → σ → Prop} {sel : Sel} (hsel : SelOK sel) (hlm : LMOK cfg.V lm spec Rep)
    (hV : 0 < cfg.V) (hw : 0 < cfg.width) (dflt : σ) (hrule : cfg.waitNegInf = false)
    (hL : Waits cfg ∨ SpecLive cfg.V spec) (hfa : cfg.eos = none ∨ cfg.finishAll = true)
    (fuel : Nat) {t Kp : Nat} {e : Elem σ}
    (hinv : RInv cfg (fun _ : Unit => spec) (fun _ => Rep) t Kp [e])
    (hc : CInv cfg spec t e.slots)
    (hwid : ∀ t', t' ≤ t + fuel → (completeFrom spec cfg.V cfg.eos t' []).length ≤ cfg.width) :
    CInv cfg spec (t + fuel) (runElem sel cfg lm dflt fuel t e).slots := by
  induction fuel generalizing t Kp e with
  | zero => exact hc
  | succ fuel ih =>
    obtain ⟨-, hsl, hstl, hstat, hlive⟩ := hinv.elem e (by simp)
    rw [runElem]
    split
    · rename_i hcnd
      simp only [Bool.and_eq_true] at hcnd
      have hd : elemDone cfg t e = true := hcnd.2
      have hfa' : cfg.finishAll = true := by
        rcases hfa with h | h
        · rw [h] at hcnd; simp at hcnd
        · exact h
      exact cinv_of_stable (freeze_cinv hrule hfa' hstat hd hc).1 hc (fuel + 1)
    · rename_i hcnd
      have hex := exists_live (cfg := cfg) (t := t) (elems := [e]) (by simp)
        (by rw [allDone_singleton]; simpa using hcnd)
      obtain ⟨e1, he1, hnd⟩ := hex
      simp only [List.mem_singleton] at he1
      subst he1
      have hinv' := nextElems_rinv hsel (fun _ => hlm) hV hw dflt hrule
        (hL.imp id fun h _ => h) hinv ⟨e1, by simp, hnd⟩
      have hc' : CInv cfg spec (t + 1) (nextElem sel cfg lm dflt t e1).slots := by
        simp only [nextElem, hnd, Bool.false_eq_true, if_false]
        exact stepElem_cinv hsel hlm (by omega) hstat (hlive hnd) hc (hwid (t + 1) (by omega))
      have := ih (t := t + 1) hinv' hc' (fun t' ht' => hwid t' (by omega))
      have heq : t + 1 + fuel = t + (fuel + 1) := by omega
      rw [heq] at this
      exact this

theorem cinv_toWidth {cfg : Cfg} {spec : List Int → List Score} {t : Nat} {slots : List Slot}
    (sel : Sel) (S : Nat) (hle : slots.length ≤ cfg.width) (hc : CInv cfg spec t slots) :
    CInv cfg spec t (toWidth sel cfg.width S slots) := by
  unfold toWidth
  split
  · refine ⟨fun q hq => ?_, fun s hs hf => ?_⟩
    · obtain ⟨s, hs, hf, hp⟩ := hc.cov q hq
      exact ⟨s, List.mem_append_left _ hs, hf, hp⟩
    · rw [List.mem_append] at hs
      rcases hs with hs | hs
      · exact hc.snd s hs hf
      · obtain ⟨-, rfl⟩ := List.mem_replicate.mp hs
        simp at hf
  · split
    · omega
    · exact hc

theorem cinv_init (cfg : Cfg) (spec : List Int → List Score) (s : σ) :
    CInv cfg spec 0 (initElem s).slots := by
  refine ⟨fun q hq => ?_, fun x hx _ => ?_⟩
  · simp only [completeFrom, List.mem_singleton] at hq
    subst hq
    exact ⟨⟨[], 0, some 0⟩, by simp [initElem], by simp, by simp [Slot.path]⟩
  · simp only [initElem, List.mem_singleton] at hx
    subst hx
    simp [completeFrom, Slot.path]

/-- **Completeness of a single search**: when every frontier up to the step limit fits into
the beam, and all paths are run to completion (`eos` unset or `finish_all_paths`), the usable
slots of the result are exactly `completeFrom … maxIters []`. -/
theorem search_single_complete {cfg : Cfg} {lm : LM σ} {spec : List Int → List Score}
    {Rep : List Int → σ → Prop} {sel : Sel} (hsel : SelOK sel) (hlm : LMOK cfg.V lm spec Rep)
    (hV : 0 < cfg.V) (hw : 0 < cfg.width) (dflt : σ) (hrule : cfg.waitNegInf = false)
    (hL : Waits cfg ∨ SpecLive cfg.V spec) (hfa : cfg.eos = none ∨ cfg.finishAll = true)
    {s : σ} (hinit : Rep [] s) (maxIters : Nat)
    (hwid : ∀ t', t' ≤ maxIters → (completeFrom spec cfg.V cfg.eos t' []).length ≤ cfg.width) :
    ∃ beam, search sel cfg lm dflt [s] maxIters = .ok [beam] ∧ CInv cfg spec maxIters beam := by
  have hinit1 : ∀ x ∈ [s], ∃ _i : Unit, Rep [] x := by
    intro x hx; simp at hx; subst hx; exact ⟨(), hinit⟩
  have hinv := init_rinv (cfg := cfg) (spec := fun _ : Unit => spec) (Rep := fun _ => Rep) hinit1
  have hL' : Waits cfg ∨ ∀ _i : Unit, SpecLive cfg.V spec := hL.imp id fun h _ => h
  obtain ⟨t1, h3⟩ := loop_single hsel (fun _ => hlm) hV hw dflt hrule hL' maxIters hinv
  obtain ⟨t', Kp', elems', h1, h2, -, -, -⟩ :=
    loop_ok hsel (fun _ => hlm) hV hw dflt hrule hL' maxIters hinv (by simp)
  simp only [List.map_cons, List.map_nil] at h3 h1 hinv
  rw [h3] at h1
  simp only [Except.ok.injEq, Prod.mk.injEq] at h1
  obtain ⟨rfl, rfl⟩ := h1
  obtain ⟨-, hsl, -, -, -⟩ := h2.elem (runElem sel cfg lm dflt maxIters 0 (initElem s))
    (by simp)
  have hle : (runElem sel cfg lm dflt maxIters 0 (initElem s)).slots.length ≤ cfg.width := by
    rcases h2.shape with ⟨-, h⟩ | ⟨-, h⟩ <;> omega
  have hc := runElem_cinv hsel hlm hV hw dflt hrule hL hfa maxIters hinv (cinv_init cfg spec s)
    (fun t' ht' => hwid t' (by omega))
  simp only [Nat.zero_add] at hc
  unfold search
  simp only [List.map_cons, List.map_nil]
  rw [h3]
  exact ⟨_, rfl, cinv_toWidth sel t1 hle hc⟩

/-- The target form of the width condition: with a finite entry in every score row it is
enough that the final set fits. -/
theorem frontier_le_of_live {spec : List Int → List Score} {V : Nat} {eos : Option Int}
    (hL : SpecLive V spec) {T w : Nat} (h : (completeFrom spec V eos T []).length ≤ w) :
    ∀ t', t' ≤ T → (completeFrom spec V eos t' []).length ≤ w := by
  intro t' ht'
  obtain ⟨n, rfl⟩ := Nat.exists_eq_add_of_le ht'
  clear ht'
  induction n with
  | zero => exact h
  | succ n ih =>
    apply ih
    exact Nat.le_trans (frontier_mono spec V eos hL (t' + n)) (by rwa [Nat.add_assoc])

theorem beamView_mem {a b : List Slot} (h : beamView a = beamView b) {s : Slot} (hs : s ∈ a) :
    ∃ s' ∈ b, s'.path = s.path ∧ s'.score = s.score := by
  have : (s.path, s.score) ∈ beamView a := List.mem_map.mpr ⟨s, hs, rfl⟩
  rw [h] at this
  obtain ⟨s', hs', heq⟩ := List.mem_map.mp this
  simp only [Prod.mk.injEq] at heq
  exact ⟨s', hs', heq.1, heq.2⟩

theorem cinv_of_view {cfg : Cfg} {spec : List Int → List Score} {t : Nat} {a b : List Slot}
    (h : beamView a = beamView b) (hc : CInv cfg spec t a) : CInv cfg spec t b := by
  refine ⟨fun q hq => ?_, fun s hs hf => ?_⟩
  · obtain ⟨s, hs, hf, hp⟩ := hc.cov q hq
    obtain ⟨s', hs', h1, h2⟩ := beamView_mem h hs
    exact ⟨s', hs', by rw [h2]; exact hf, by rw [h1]; exact hp⟩
  · obtain ⟨s', hs', h1, h2⟩ := beamView_mem h.symm hs
    rw [← h1]
    exact hc.snd s' hs' (by rw [h2]; exact hf)

end PdtVerif.Beam
