import PdtVerif.Lemmas.OptCompletion
import PdtVerif.Spec.OptCompletionBatch
/-!
# C03 — lemmas about single output rows: stripping, the harness's row judgements, the oracle
-/
namespace PdtVerif.OptCompletion
open PdtVerif.Lev

theorem nodupB_iff (l : List Int) : nodupB l = true ↔ l.Nodup := by
  induction l with
  | nil => simp [nodupB]
  | cons x l ih => simp [nodupB, ih, List.nodup_cons]

theorem dropWhile_replicate_append (pad : Int) (m : Nat) (l : List Int) :
    (List.replicate m pad ++ l).dropWhile (· == pad) = l.dropWhile (· == pad) := by
  induction m with
  | zero => simp
  | succ m ih => simp [List.replicate_succ, ih]

/-- A padded row strips back to its list when the list does not contain the padding value. -/
theorem stripPad_append_replicate (pad : Int) (S : List Int) (m : Nat) (h : pad ∉ S) :
    stripPad pad (S ++ List.replicate m pad) = S := by
  unfold stripPad
  rw [List.reverse_append, List.reverse_replicate, dropWhile_replicate_append]
  have : S.reverse.dropWhile (· == pad) = S.reverse := by
    cases hS : S.reverse with
    | nil => rfl
    | cons a l =>
      have ha : a ∈ S := by
        rw [← List.mem_reverse, hS]; exact List.mem_cons_self
      have hne : a ≠ pad := fun e => h (e ▸ ha)
      simp [hne]
  rw [this, List.reverse_reverse]

/-- Every row is its stripped part followed only by padding. -/
theorem stripPad_spec (pad : Int) (row : List Int) :
    ∃ m, row = stripPad pad row ++ List.replicate m pad := by
  unfold stripPad
  have h := @List.takeWhile_append_dropWhile _ (· == pad) row.reverse
  generalize htw : row.reverse.takeWhile (· == pad) = tw at h
  generalize row.reverse.dropWhile (· == pad) = dw at h
  have hall : ∀ b ∈ tw, b = pad := by
    intro b hb
    rw [← htw] at hb
    have := List.all_eq_true.mp (@List.all_takeWhile _ (· == pad) row.reverse) b hb
    simpa using this
  have hrev : tw.reverse = List.replicate tw.length pad := by
    rw [List.eq_replicate_iff]
    exact ⟨by simp, fun b hb => hall b (List.mem_reverse.mp hb)⟩
  refine ⟨tw.length, ?_⟩
  have e : row = (tw ++ dw).reverse := by rw [h, List.reverse_reverse]
  rw [e, List.reverse_append, hrev]

theorem stripPad_not_mem_of_perm (pad : Int) (r S : List Int) (hp : pad ∉ S)
    (h : (stripPad pad r).Perm S) : pad ∉ stripPad pad r := fun hm => hp (h.mem_iff.mp hm)

theorem RowProp_congr (pad : Int) (P Q : Int → Prop) (h : ∀ t, P t ↔ Q t) (row : List Int) :
    RowProp pad P row ↔ RowProp pad Q row := by
  unfold RowProp
  constructor
  · rintro ⟨S, m, e, hp, hn, hm⟩
    exact ⟨S, m, e, hp, hn, fun t => (hm t).trans (h t)⟩
  · rintro ⟨S, m, e, hp, hn, hm⟩
    exact ⟨S, m, e, hp, hn, fun t => (hm t).trans (h t).symm⟩

/-- Every token the per-column model lists is a token of the cut reference. -/
theorem colSelected_mem_cut (cfg : Cfg)
    (hi : 0 < cfg.costs.ins) (hd : 0 < cfg.costs.del) (hs : 0 < cfg.costs.sub)
    (ref hyp : List Int) (k : Nat) (t : Int) (ht : t ∈ (colSelected cfg ref hyp).getD k []) :
    t ∈ ref.take (cutLen cfg.eos cfg.includeEos ref) := by
  by_cases hlt : k < (colSelected cfg ref hyp).length
  · have hk : k ≤ nIter cfg.excludeLast hyp.length := by
      unfold colSelected at hlt
      rw [List.length_map, colMasks_length] at hlt
      omega
    have hS : (colSelected cfg ref hyp).getD k []
        = selectTargets ref ((colMasks (effCosts cfg.costs) cfg.excludeLast ref hyp
            (cutLen cfg.eos cfg.includeEos ref) (cutLen cfg.eos cfg.includeEos hyp)).getD k []) := by
      unfold colSelected at hlt ⊢
      rw [List.length_map] at hlt
      rw [List.getD_eq_getElem?_getD, List.getD_eq_getElem?_getD, List.getElem?_map,
        List.getElem?_eq_getElem hlt]
      rfl
    rw [hS] at ht
    obtain ⟨j, hj, hm, e⟩ := (mem_zip_iff_getD ref _ t).mp (((selectTargets_spec ref _).2 t).mp ht)
    have hjr := ((colMasks_spec (effCosts cfg.costs) cfg.excludeLast ref hyp _ _
      (effCosts_pos cfg.costs hi hd hs).2.1 (cutLen_le _ _ ref) (cutLen_le _ _ hyp) k hk j hj).mp hm).2.1
    rw [← e, List.mem_take_iff_getElem]
    exact ⟨j, by omega, rfl⟩
  · rw [List.getD_eq_getElem?_getD, List.getElem?_eq_none (by omega)] at ht
    simp at ht

/-! ### the oracle -/

theorem bestDP_eq (c : Costs) (ref p : List Int) : bestDP c ref p = best c ref p := by
  unfold bestDP
  rw [dpRow_eq, levRow_eq_prefixDists]; rfl

theorem dedup_fold_spec (l acc : List Int) (hacc : acc.Nodup) :
    (l.foldl (fun acc x => if acc.contains x then acc else acc ++ [x]) acc).Nodup ∧
    ∀ t, t ∈ l.foldl (fun acc x => if acc.contains x then acc else acc ++ [x]) acc ↔ t ∈ acc ∨ t ∈ l := by
  induction l generalizing acc with
  | nil => simp [hacc]
  | cons x l ih =>
    simp only [List.foldl_cons]
    by_cases hx : acc.contains x = true
    · rw [if_pos hx]
      obtain ⟨h1, h2⟩ := ih acc hacc
      refine ⟨h1, fun t => ?_⟩
      rw [h2 t]
      have hxm : x ∈ acc := by simpa using hx
      constructor
      · rintro (h | h)
        · exact Or.inl h
        · exact Or.inr (List.mem_cons_of_mem _ h)
      · rintro (h | h)
        · exact Or.inl h
        · rcases List.mem_cons.mp h with rfl | h
          · exact Or.inl hxm
          · exact Or.inr h
    · rw [if_neg hx]
      have hxm : x ∉ acc := by simpa using hx
      have hn : (acc ++ [x]).Nodup := by
        rw [List.nodup_append]
        refine ⟨hacc, by simp, ?_⟩
        intro a ha b hb
        simp only [List.mem_singleton] at hb
        subst hb
        intro e; subst e; exact hxm ha
      obtain ⟨h1, h2⟩ := ih (acc ++ [x]) hn
      refine ⟨h1, fun t => ?_⟩
      rw [h2 t]
      simp only [List.mem_append, List.mem_cons]
      tauto

theorem nodup_dedupInts (l : List Int) : (dedupInts l).Nodup :=
  (dedup_fold_spec l [] List.nodup_nil).1

theorem mem_dedupInts (l : List Int) (t : Int) : t ∈ dedupInts l ↔ t ∈ l := by
  have := (dedup_fold_spec l [] List.nodup_nil).2 t
  simpa [dedupInts] using this

/-- The executable oracle lists exactly the targets, each once, as soon as the candidate list
contains the tokens of the reference (strictly positive costs). -/
theorem oracleTargets_spec (c : Costs) (hi : 0 < c.ins) (hd : 0 < c.del) (hs : 0 < c.sub)
    (cands ref p : List Int) (hc : ∀ t ∈ ref, t ∈ cands) :
    (oracleTargets c cands ref p).Nodup ∧
    ∀ t, t ∈ oracleTargets c cands ref p ↔ IsTarget c ref p t := by
  unfold oracleTargets
  refine ⟨(nodup_dedupInts cands).filter _, fun t => ?_⟩
  rw [List.mem_filter, mem_dedupInts, bestDP_eq, bestDP_eq]
  simp only [beq_iff_eq]
  constructor
  · exact fun h => h.2
  · intro h
    refine ⟨?_, h⟩
    obtain ⟨j, hj, _, rfl⟩ := pos_of_isTarget c hi hd hs ref p t h
    exact hc _ (List.getElem_mem hj)

end PdtVerif.OptCompletion
