import PdtVerif.Lemmas.Ctc
import Mathlib.Algebra.BigOperators.Group.List.Basic
import Mathlib.Data.List.Induction
import Mathlib.Data.List.Nodup
/-! Forward variables = alignment sums (DESIGN appendix A5).

`finals V frames` is the list of final reading states of all `(V+1)^T` alignments.  Adding a
frame at the end expands every state by every symbol (`finals_snoc`); the sums of weights
of the states that collapse to `p` and end in a non-blank / blank then obey exactly the
recursion `stepFn` (`fwdOf_expand`). -/
namespace PdtVerif.Ctc

/-! ### alignments and their final states -/

theorem length_of_mem_allAlign {V : Nat} : ∀ {T : Nat} {a : List Nat}, a ∈ allAlign V T → a.length = T
  | 0, a, h => by simpa [allAlign] using h
  | T + 1, a, h => by
    simp only [allAlign, List.mem_flatMap, List.mem_map] at h
    obtain ⟨a', ha', s, _, rfl⟩ := h
    simp [length_of_mem_allAlign ha']

theorem mem_allAlign {V : Nat} : ∀ {T : Nat} {a : List Nat},
    a ∈ allAlign V T ↔ a.length = T ∧ ∀ s ∈ a, s ≤ V
  | 0, a => by
    simp only [allAlign, List.mem_singleton]
    constructor
    · rintro rfl; simp
    · rintro ⟨h, _⟩; exact List.eq_nil_of_length_eq_zero h
  | T + 1, a => by
    simp only [allAlign, List.mem_flatMap, List.mem_map, List.mem_range]
    constructor
    · rintro ⟨a', ha', s, hs, rfl⟩
      obtain ⟨h1, h2⟩ := mem_allAlign.1 ha'
      refine ⟨by simp [h1], ?_⟩
      intro x hx
      rcases List.mem_append.1 hx with hx | hx
      · exact h2 x hx
      · have : x = s := by simpa using hx
        omega
    · rintro ⟨hl, hs⟩
      have hne : a ≠ [] := by intro h; simp [h] at hl
      refine ⟨a.dropLast, mem_allAlign.2 ⟨by simp [hl], fun s hs' => hs s (List.dropLast_subset a hs')⟩,
        a.getLast hne, ?_, List.dropLast_concat_getLast hne⟩
      have := hs _ (List.getLast_mem hne)
      omega

/-- Final reading states of all alignments. -/
def finals (V : Nat) (frames : List Frame) : List AState :=
  (allAlign V frames.length).map (runAlign V frames)

/-- Every state read on by every symbol. -/
def expandStates (V : Nat) (f : Frame) (L : List AState) : List AState :=
  L.flatMap (fun st => (List.range (V + 1)).map (stepSym V f st))

theorem runAlign_snoc (V : Nat) (fs : List Frame) (f : Frame) (a : List Nat) (s : Nat)
    (h : a.length = fs.length) :
    runAlign V (fs ++ [f]) (a ++ [s]) = stepSym V f (runAlign V fs a) s := by
  unfold runAlign
  rw [List.zip_append h.symm, List.foldl_append]
  rfl

theorem finals_nil (V : Nat) : finals V [] = [aInit] := by
  simp [finals, allAlign, runAlign]

theorem finals_snoc (V : Nat) (fs : List Frame) (f : Frame) :
    finals V (fs ++ [f]) = expandStates V f (finals V fs) := by
  unfold finals expandStates
  rw [List.length_append, List.length_singleton, allAlign, List.map_flatMap, List.flatMap_map]
  apply List.flatMap_congr
  intro a ha
  rw [List.map_map]
  apply List.map_congr_left
  intro s _
  exact runAlign_snoc V fs f a s (length_of_mem_allAlign ha)

/-! ### the invariant of reading states -/

/-- After a non-blank symbol `s` the collapsed prefix ends in `s`; symbols are `≤ V`. -/
def Good (V : Nat) (st : AState) : Prop :=
  match st.last with
  | none => True
  | some s => s ≤ V ∧ (s < V → st.pre.getLast? = some s)

theorem good_init (V : Nat) : Good V aInit := by simp [Good, aInit]

theorem good_stepSym {V : Nat} (f : Frame) {st : AState} {s : Nat} (hg : Good V st) (hs : s ≤ V) :
    Good V (stepSym V f st s) := by
  unfold stepSym
  split
  · simp [Good]
  · split
    · rename_i h1 h2
      simp only [Good]
      refine ⟨hs, fun hlt => ?_⟩
      unfold Good at hg
      rw [h2] at hg
      exact hg.2 hlt
    · simp [Good, hs]

theorem good_expand {V : Nat} (f : Frame) {L : List AState} (h : ∀ st ∈ L, Good V st) :
    ∀ st ∈ expandStates V f L, Good V st := by
  intro st hst
  simp only [expandStates, List.mem_flatMap, List.mem_map, List.mem_range] at hst
  obtain ⟨st0, h0, s, hs, rfl⟩ := hst
  exact good_stepSym f (h st0 h0) (by omega)

theorem good_finals (V : Nat) (frames : List Frame) : ∀ st ∈ finals V frames, Good V st := by
  induction frames using List.reverseRec with
  | nil => rw [finals_nil]; intro st hst; simp at hst; subst hst; exact good_init V
  | append_singleton fs f ih => rw [finals_snoc]; exact good_expand f ih

/-! ### sums over states -/

/-- the state ends in a non-blank symbol -/
def endsNB (V : Nat) (st : AState) : Bool :=
  match st.last with
  | some s => s != V
  | none => false

def nbTerm (V : Nat) (p : List Nat) (st : AState) : Rat :=
  if st.pre = p ∧ endsNB V st = true then st.w else 0

def bTerm (V : Nat) (p : List Nat) (st : AState) : Rat :=
  if st.pre = p ∧ endsNB V st = false then st.w else 0

def nbSum (V : Nat) (L : List AState) (p : List Nat) : Rat := (L.map (nbTerm V p)).sum
def bSum (V : Nat) (L : List AState) (p : List Nat) : Rat := (L.map (bTerm V p)).sum

/-- `(NB, B)` read off a list of states. -/
def fwdOf (V : Nat) (L : List AState) : List Nat → Rat × Rat := fun p => (nbSum V L p, bSum V L p)

theorem sum_range_single (V a : Nat) (g : Nat → Rat) :
    ((List.range V).map (fun s => if s = a then g s else 0)).sum = if a < V then g a else 0 := by
  induction V with
  | zero => simp
  | succ n ih =>
    rw [List.range_succ, List.map_append, List.sum_append, ih]
    simp only [List.map_cons, List.map_nil, List.sum_cons, List.sum_nil, add_zero]
    by_cases h1 : a < n
    · have : n ≠ a := by omega
      simp [h1, this, Nat.lt_succ_of_lt h1]
    · by_cases h2 : n = a
      · subst h2; simp
      · have : ¬ a < n + 1 := by omega
        simp [h1, h2, this]

theorem sum_map_zero {α} (l : List α) (g : α → Rat) (h : ∀ x ∈ l, g x = 0) : (l.map g).sum = 0 := by
  induction l with
  | nil => simp
  | cons a l ih =>
    simp only [List.map_cons, List.sum_cons]
    rw [h a (by simp), ih (fun x hx => h x (by simp [hx]))]
    simp

theorem concat_eq_concat {q p : List Nat} {s v : Nat} : q ++ [s] = p ++ [v] ↔ q = p ∧ s = v := by
  constructor
  · intro h
    have := List.append_inj' h rfl
    exact ⟨this.1, by simpa using this.2⟩
  · rintro ⟨rfl, rfl⟩; rfl

/-- A good state that ends in a non-blank: its last symbol is a token `s < V` and its prefix ends in `s`. -/
theorem good_endsNB {V : Nat} {st : AState} (hg : Good V st) (hnb : endsNB V st = true) :
    ∃ s, st.last = some s ∧ s < V ∧ st.pre.getLast? = some s := by
  unfold endsNB at hnb
  cases hls : st.last with
  | none => rw [hls] at hnb; simp at hnb
  | some s =>
    rw [hls] at hnb
    have hsV : s ≠ V := by simpa using hnb
    unfold Good at hg
    rw [hls] at hg
    have hlt : s < V := by omega
    exact ⟨s, rfl, hlt, hg.2 hlt⟩

theorem endsNB_of_last {V : Nat} {st : AState} {v : Nat} (hl : st.last = some v) (hv : v < V) :
    endsNB V st = true := by
  have : v ≠ V := by omega
  simp [endsNB, hl, this]

/-- blank mass after one more frame, a single state -/
theorem bSum_step (V : Nat) (f : Frame) (st : AState) (p : List Nat) :
    bSum V ((List.range (V + 1)).map (stepSym V f st)) p
      = (if st.pre = p then st.w else 0) * f.blank := by
  unfold bSum
  rw [List.range_succ, List.map_append, List.map_append, List.sum_append]
  have h0 : (((List.range V).map (stepSym V f st)).map (bTerm V p)).sum = 0 := by
    rw [List.map_map]
    apply sum_map_zero
    intro s hs
    have hs' : s < V := by simpa using hs
    have hne : s ≠ V := by omega
    simp only [Function.comp, bTerm, stepSym, hne, if_false]
    split <;> simp [endsNB, hne]
  rw [h0]
  simp only [List.map_cons, List.map_nil, List.sum_cons, List.sum_nil, add_zero, zero_add]
  simp only [bTerm, stepSym, if_true, endsNB]
  by_cases h : st.pre = p <;> simp [h]

/-- non-blank mass after one more frame, a single state -/
theorem nbSum_step (V : Nat) (f : Frame) (st : AState) (hg : Good V st) (q : List Nat) (v : Nat) :
    nbSum V ((List.range (V + 1)).map (stepSym V f st)) (q ++ [v])
      = nbTerm V (q ++ [v]) st * f.tok v
        + (if v < V then (bTerm V q st + (if q.getLast? = some v then 0 else nbTerm V q st)) * f.ext q v
           else 0) := by
  unfold nbSum
  rw [List.range_succ, List.map_append, List.map_append, List.sum_append]
  -- the blank symbol contributes nothing
  have hV : (([V].map (stepSym V f st)).map (nbTerm V (q ++ [v]))).sum = 0 := by
    simp [nbTerm, stepSym, endsNB]
  rw [hV, add_zero, List.map_map]
  -- split every term into its "repeat" and its "extend" part
  have hsplit : ∀ s ∈ List.range V,
      (nbTerm V (q ++ [v]) ∘ stepSym V f st) s
        = (if s = v then (if st.last = some v then (if st.pre = q ++ [v] then st.w * f.tok v else 0) else 0) else 0)
          + (if s = v then (if st.last = some v then 0 else (if st.pre = q then st.w * f.ext q v else 0)) else 0) := by
    intro s hs
    have hs' : s < V := by simpa using hs
    have hne : s ≠ V := by omega
    simp only [Function.comp, nbTerm, stepSym, hne, if_false]
    by_cases hl : st.last = some s
    · -- repeat
      simp only [hl, if_true, endsNB, bne_iff_ne, ne_eq, hne, not_false_eq_true, and_true]
      by_cases hp : st.pre = q ++ [v]
      · -- then the last token of the prefix is `s`, so `s = v`
        have hg' := hg
        unfold Good at hg'
        rw [hl] at hg'
        have := hg'.2 hs'
        rw [hp] at this
        have hsv : v = s := by simpa using this
        subst hsv
        simp [hp]
      · by_cases hsv : s = v
        · subst hsv; simp [hp]
        · have : ¬ (some s = some v) := by simpa using hsv
          simp [hp, hsv, this]
    · -- extend
      simp only [hl, if_false, endsNB, bne_iff_ne, ne_eq, hne, not_false_eq_true, and_true]
      simp only [concat_eq_concat]
      by_cases hsv : s = v
      · subst hsv
        by_cases hp : st.pre = q
        · subst hp; simp [hl]
        · simp [hp, hl]
      · simp [hsv]
  rw [List.map_congr_left hsplit, List.sum_map_add, sum_range_single, sum_range_single]
  -- now a finite case analysis
  unfold nbTerm bTerm
  have F1 : (st.pre = q ++ [v] ∧ endsNB V st = true) ↔ (v < V ∧ st.last = some v ∧ st.pre = q ++ [v]) := by
    constructor
    · rintro ⟨hp, hnb⟩
      obtain ⟨s, hls, hlt, hlast⟩ := good_endsNB hg hnb
      rw [hp] at hlast
      have : v = s := by simpa using hlast
      subst this
      exact ⟨hlt, hls, hp⟩
    · rintro ⟨hv, hl, hp⟩
      exact ⟨hp, endsNB_of_last hl hv⟩
  have E1 : (if v < V then (if st.last = some v then (if st.pre = q ++ [v] then st.w * f.tok v else 0) else 0) else 0)
      = (if st.pre = q ++ [v] ∧ endsNB V st = true then st.w else 0) * f.tok v := by
    by_cases h : v < V ∧ st.last = some v ∧ st.pre = q ++ [v]
    · rw [if_pos (F1.2 h), if_pos h.1, if_pos h.2.1, if_pos h.2.2]
    · rw [if_neg (fun hh => h (F1.1 hh)), zero_mul]
      by_cases h1 : v < V
      · rw [if_pos h1]
        by_cases h2 : st.last = some v
        · rw [if_pos h2]
          by_cases h3 : st.pre = q ++ [v]
          · exact absurd ⟨h1, h2, h3⟩ h
          · rw [if_neg h3]
        · rw [if_neg h2]
      · rw [if_neg h1]
  rw [E1]
  congr 1
  by_cases hv : v < V
  · rw [if_pos hv, if_pos hv]
    by_cases hq : st.pre = q
    · cases hnb : endsNB V st with
      | false =>
        have hl : st.last ≠ some v := by
          intro hl
          rw [endsNB_of_last hl hv] at hnb
          exact Bool.noConfusion hnb
        simp [hq, hl]
      | true =>
        obtain ⟨s, hls, hlt, hlast⟩ := good_endsNB hg hnb
        rw [hq] at hlast
        simp only [hq, hls, hlast, true_and, Option.some.injEq]
        by_cases hsv : s = v
        · simp [hsv]
        · simp [hsv]
    · simp [hq]
  · rw [if_neg hv, if_neg hv]

theorem nbSum_cons (V : Nat) (st : AState) (L : List AState) (p : List Nat) :
    nbSum V (st :: L) p = nbTerm V p st + nbSum V L p := by simp [nbSum]

theorem bSum_cons (V : Nat) (st : AState) (L : List AState) (p : List Nat) :
    bSum V (st :: L) p = bTerm V p st + bSum V L p := by simp [bSum]

theorem nbSum_append (V : Nat) (L L' : List AState) (p : List Nat) :
    nbSum V (L ++ L') p = nbSum V L p + nbSum V L' p := by simp [nbSum]

theorem bSum_append (V : Nat) (L L' : List AState) (p : List Nat) :
    bSum V (L ++ L') p = bSum V L p + bSum V L' p := by simp [bSum]

theorem terms_add (V : Nat) (p : List Nat) (st : AState) :
    nbTerm V p st + bTerm V p st = if st.pre = p then st.w else 0 := by
  unfold nbTerm bTerm
  by_cases h : st.pre = p <;> cases endsNB V st <;> simp [h]

theorem expandStates_cons (V : Nat) (f : Frame) (st : AState) (L : List AState) :
    expandStates V f (st :: L) = (List.range (V + 1)).map (stepSym V f st) ++ expandStates V f L := by
  simp [expandStates]

theorem bSum_expand (V : Nat) (f : Frame) (L : List AState) (p : List Nat) :
    bSum V (expandStates V f L) p = (nbSum V L p + bSum V L p) * f.blank := by
  induction L with
  | nil => simp [expandStates, bSum, nbSum]
  | cons st L ih =>
    rw [expandStates_cons, bSum_append, bSum_step, ih, nbSum_cons, bSum_cons, ← terms_add V p st]
    ring

theorem nbSum_nil_of_good (V : Nat) (L : List AState) (hL : ∀ st ∈ L, Good V st) : nbSum V L [] = 0 := by
  unfold nbSum
  apply sum_map_zero
  intro st hst
  unfold nbTerm
  rw [if_neg]
  rintro ⟨hp, hnb⟩
  obtain ⟨s, _, _, hlast⟩ := good_endsNB (hL st hst) hnb
  rw [hp] at hlast
  simp at hlast

theorem nbSum_expand (V : Nat) (f : Frame) (L : List AState) (hL : ∀ st ∈ L, Good V st)
    (q : List Nat) (v : Nat) :
    nbSum V (expandStates V f L) (q ++ [v])
      = nbSum V L (q ++ [v]) * f.tok v
        + (if v < V then (bSum V L q + (if q.getLast? = some v then 0 else nbSum V L q)) * f.ext q v
           else 0) := by
  induction L with
  | nil => simp [expandStates, bSum, nbSum]
  | cons st L ih =>
    have hst : Good V st := hL st (by simp)
    have hL' : ∀ st ∈ L, Good V st := fun x hx => hL x (by simp [hx])
    rw [expandStates_cons, nbSum_append, nbSum_step V f st hst, ih hL', nbSum_cons, bSum_cons, nbSum_cons]
    by_cases hv : v < V
    · simp only [hv, if_true]
      by_cases hq : q.getLast? = some v
      · simp only [hq, if_true]; ring
      · simp only [hq, if_false]; ring
    · simp only [hv, if_false]; ring

/-- **One frame of alignment sums is one step of the forward recursion.** -/
theorem fwdOf_expand (V : Nat) (f : Frame) (L : List AState) (hL : ∀ st ∈ L, Good V st) :
    fwdOf V (expandStates V f L) = stepFn V f (fwdOf V L) := by
  funext p
  apply Prod.ext
  · rw [stepFn_fst]
    show nbSum V (expandStates V f L) p = _
    rcases List.eq_nil_or_concat p with rfl | ⟨q, v, hqv⟩
    · rw [nbSum_nil_of_good V _ (good_expand f hL)]
      simp
    · rw [List.concat_eq_append] at hqv
      subst hqv
      have h1 : (q ++ [v]).getLast? = some v := by simp
      have h2 : (q ++ [v]).dropLast = q := by simp
      rw [nbSum_expand V f L hL, h1]
      simp only [h2]
      rfl
  · rw [stepFn_snd]
    exact bSum_expand V f L p

theorem fwdOf_init (V : Nat) : fwdOf V [aInit] = exactInit := by
  funext p
  unfold fwdOf nbSum bSum nbTerm bTerm exactInit aInit endsNB
  by_cases h : p = []
  · subst h; simp
  · have : ¬ ([] = p) := fun hh => h hh.symm
    simp [h, this]

/-- The forward variables are the alignment sums, split by the kind of the last symbol. -/
theorem exact_eq_fwdOf (V : Nat) (frames : List Frame) : exact V frames = fwdOf V (finals V frames) := by
  induction frames using List.reverseRec with
  | nil => rw [finals_nil, fwdOf_init]; rfl
  | append_singleton fs f ih =>
    rw [finals_snoc, fwdOf_expand V f _ (good_finals V fs), ← ih]
    unfold exact
    rw [List.foldl_append]
    rfl

/-- **`NB_T p + B_T p` is the true mass of `p`**: the sum over all alignments collapsing to `p`. -/
theorem exact_eq_mass (V : Nat) (frames : List Frame) (p : List Nat) :
    (exact V frames p).1 + (exact V frames p).2 = mass V frames p := by
  rw [exact_eq_fwdOf]
  show nbSum V (finals V frames) p + bSum V (finals V frames) p = mass V frames p
  unfold nbSum bSum mass finals
  rw [← List.sum_map_add, List.map_map]
  congr 1
  apply List.map_congr_left
  intro a _
  simp only [Function.comp]
  exact terms_add V p _

/-- every alignment is enumerated exactly once -/
theorem nodup_allAlign (V : Nat) : ∀ T, (allAlign V T).Nodup
  | 0 => by simp [allAlign]
  | T + 1 => by
    simp only [allAlign]
    rw [List.nodup_flatMap]
    refine ⟨?_, ?_⟩
    · intro a _
      apply List.Nodup.map _ List.nodup_range
      intro s s' h
      exact (concat_eq_concat.1 h).2
    · have := nodup_allAlign V T
      refine List.Pairwise.imp ?_ this
      intro a b hab
      simp only [Function.onFun]
      rw [List.disjoint_left]
      intro x hx hx'
      simp only [List.mem_map, List.mem_range] at hx hx'
      obtain ⟨s, _, rfl⟩ := hx
      obtain ⟨s', _, h⟩ := hx'
      exact hab (concat_eq_concat.1 h).1.symm

theorem length_allAlign (V : Nat) : ∀ T, (allAlign V T).length = (V + 1) ^ T
  | 0 => by simp [allAlign]
  | T + 1 => by
    simp only [allAlign, List.length_flatMap, List.length_map, List.length_range]
    rw [List.map_const', List.sum_replicate, length_allAlign V T]
    simp [Nat.pow_succ]

/-- reading the rest of an alignment after symbol `last`: which tokens get appended -/
def collapseFrom (V : Nat) : Option Nat → List Nat → List Nat
  | _, [] => []
  | last, s :: r =>
    if s = V then collapseFrom V (some V) r
    else if last = some s then collapseFrom V (some s) r
    else s :: collapseFrom V (some s) r

theorem foldl_pre (V : Nat) : ∀ (frames : List Frame) (a : List Nat) (st : AState),
    a.length = frames.length →
    ((frames.zip a).foldl (fun st fs => stepSym V fs.1 st fs.2) st).pre
      = st.pre ++ collapseFrom V st.last a
  | [], [], st, _ => by simp [collapseFrom]
  | [], _ :: _, _, h => by simp at h
  | _ :: _, [], _, h => by simp at h
  | f :: fs, s :: a, st, h => by
    simp only [List.zip_cons_cons, List.foldl_cons]
    rw [foldl_pre V fs a _ (by simpa using h)]
    unfold stepSym
    by_cases h1 : s = V
    · simp [h1, collapseFrom]
    · by_cases h2 : st.last = some s
      · simp [h1, h2, collapseFrom]
      · simp [h1, h2, collapseFrom]

theorem dedupAdj_cons_head (x : Nat) : ∀ (a : List Nat), ∃ r, dedupAdj (x :: a) = x :: r
  | [] => ⟨[], rfl⟩
  | b :: a => by
    by_cases h : x = b
    · subst h
      obtain ⟨r, hr⟩ := dedupAdj_cons_head x a
      exact ⟨r, by simp [dedupAdj, hr]⟩
    · exact ⟨dedupAdj (b :: a), by simp [dedupAdj, h]⟩

theorem collapseFrom_some (V : Nat) : ∀ (a : List Nat) (x : Nat),
    collapseFrom V (some x) a = ((dedupAdj (x :: a)).tail).filter (· ≠ V)
  | [], x => by simp [collapseFrom, dedupAdj]
  | s :: a, x => by
    have ih := collapseFrom_some V a s
    obtain ⟨r, hr⟩ := dedupAdj_cons_head s a
    rw [hr] at ih
    simp only [List.tail_cons] at ih
    by_cases hxs : x = s
    · subst hxs
      simp only [dedupAdj, if_true, hr, List.tail_cons]
      by_cases h1 : x = V
      · subst h1; simp only [collapseFrom, if_true]; exact ih
      · simp only [collapseFrom, h1, if_false, if_true]; exact ih
    · have hxs' : ¬ (some x = some s) := by simpa using hxs
      simp only [dedupAdj, hxs, if_false, hr, List.tail_cons]
      by_cases h1 : s = V
      · subst h1
        simp only [collapseFrom, if_true, ih]
        simp
      · simp only [collapseFrom, h1, hxs', if_false, ih]
        simp [h1]

theorem collapseFrom_none (V : Nat) : ∀ (a : List Nat), collapseFrom V none a = collapse V a
  | [] => by simp [collapseFrom, collapse, dedupAdj]
  | s :: a => by
    obtain ⟨r, hr⟩ := dedupAdj_cons_head s a
    have ih := collapseFrom_some V a s
    rw [hr] at ih
    simp only [List.tail_cons] at ih
    unfold collapse
    rw [hr]
    by_cases h1 : s = V
    · subst h1; simp only [collapseFrom, if_true, ih]; simp
    · simp only [collapseFrom, h1, if_false, ih]
      simp [h1]

/-- the prefix read off an alignment is its textbook collapse: merge repeats, drop blanks -/
theorem runAlign_pre (V : Nat) (frames : List Frame) (a : List Nat) (h : a.length = frames.length) :
    (runAlign V frames a).pre = collapse V a := by
  unfold runAlign
  rw [foldl_pre V frames a aInit h]
  simp [aInit, collapseFrom_none]

/-- `mass` in the textbook form: the sum of the path weights over the alignments whose collapse is `p` -/
theorem mass_eq_collapse_sum (V : Nat) (frames : List Frame) (p : List Nat) :
    mass V frames p =
      ((allAlign V frames.length).map (fun a =>
        if collapse V a = p then (runAlign V frames a).w else 0)).sum := by
  unfold mass
  congr 1
  apply List.map_congr_left
  intro a ha
  simp only
  rw [runAlign_pre V frames a (length_of_mem_allAlign ha)]

end PdtVerif.Ctc
