import PdtVerif.Lemmas.EstimatorsParams
/-!
# C19 — the distribution OBJECT: lazily cached attributes and derived objects

Helper lemmas for `C19_obj_*` (Properties/C19.lean).  The python object of a relaxed distribution
holds the attribute it was built with and, once it was read, the other one (`lazy_property`);
`expand` builds the derived object from what is in `__dict__`.  `Coherent` is the invariant that
every operation of a history keeps: what is stored is (part of) ONE `RelaxedParams`, and what is
not stored is computed from what is stored by the `lazy_property` body, which commutes with
`expand`.
-/
namespace PdtVerif.Estimators

variable {α : Type}

/-! ## `tile` (= `expand` to new leading axes, flat) -/

theorem tile_zero {β : Type} (xs : List β) : tile 0 xs = [] := by simp [tile]

theorem tile_succ {β : Type} (k : Nat) (xs : List β) : tile (k + 1) xs = xs ++ tile k xs := by
  simp [tile, List.replicate_succ]

theorem tile_one {β : Type} (xs : List β) : tile 1 xs = xs := by simp [tile]

theorem tile_add {β : Type} (a b : Nat) (xs : List β) : tile (a + b) xs = tile a xs ++ tile b xs := by
  simp only [tile, List.replicate_add, List.flatten_append]

theorem tile_tile {β : Type} (a b : Nat) (xs : List β) : tile a (tile b xs) = tile (a * b) xs := by
  induction a with
  | zero => simp [tile]
  | succ a ih => rw [tile_succ, ih, Nat.succ_mul, Nat.add_comm, tile_add]

theorem tile_map {β γ : Type} (f : β → γ) (k : Nat) (xs : List β) :
    (tile k xs).map f = tile k (xs.map f) := by
  simp [tile, List.map_flatten, List.map_replicate]

theorem tile_length {β : Type} (k : Nat) (xs : List β) : (tile k xs).length = k * xs.length := by
  induction k with
  | zero => simp [tile]
  | succ k ih => rw [tile_succ, List.length_append, ih, Nat.succ_mul, Nat.add_comm]

theorem tile_zipWith {β γ δ : Type} (f : β → γ → δ) (k : Nat) (xs : List β) (ys : List γ)
    (h : xs.length = ys.length) :
    List.zipWith f (tile k xs) (tile k ys) = tile k (List.zipWith f xs ys) := by
  induction k with
  | zero => simp [tile]
  | succ k ih => rw [tile_succ, tile_succ, tile_succ, List.zipWith_append h, ih]

theorem expand_expand (P : RelaxedParams α) (a b : List Nat) :
    (P.expand a).expand b = P.expand (b ++ a) := by
  simp only [RelaxedParams.expand, prodL_append, List.append_assoc]
  have e : ∀ xs : List α, (List.replicate (prodL b) (List.replicate (prodL a) xs).flatten).flatten
      = (List.replicate (prodL b * prodL a) xs).flatten := fun xs => tile_tile _ _ xs
  rw [e, e]

theorem expand_nil (P : RelaxedParams α) : P.expand [] = P := by
  cases P
  simp [RelaxedParams.expand, prodL]

theorem length_flatten_rows {β : Type} (V : Nat) : ∀ (rows : List (List β)), (∀ r ∈ rows, r.length = V) →
    rows.flatten.length = rows.length * V
  | [], _ => by simp
  | r :: rows, h => by
    rw [List.flatten_cons, List.length_append, length_flatten_rows V rows (fun r' hr' =>
      h r' (List.mem_cons_of_mem _ hr')), h r List.mem_cons_self, List.length_cons, Nat.succ_mul,
      Nat.add_comm]

/-! ## the invariant -/

/-- the `lazy_property` bodies commute with `expand` on the tensors the object can hold (`Good`:
for the categorical relaxation, whole rows of the class axis) -/
structure Conv.Tiles (C : Conv α) (Good : List α → Prop) : Prop where
  good_tile : ∀ k xs, Good xs → Good (tile k xs)
  toProbs_tile : ∀ k xs, Good xs → C.toProbs (tile k xs) = tile k (C.toProbs xs)
  toLogits_tile : ∀ k xs, Good xs → C.toLogits (tile k xs) = tile k (C.toLogits xs)

/-- the object `o`, built with `c`, holds (part of) `P`: the attribute it was built with is stored,
the other one is absent or stored with the value the `lazy_property` body gives -/
def Coherent (C : Conv α) (Good : List α → Prop) (c : Ctor) (o : RelaxedObj α) (P : RelaxedParams α) :
    Prop :=
  o.batchShape = P.batchShape ∧ o.eventShape = P.eventShape ∧
  match c with
  | .probs => o.probs? = some P.probs ∧ (o.logits? = none ∨ o.logits? = some P.logits)
      ∧ P.logits = C.toLogits P.probs ∧ Good P.probs
  | .logits => o.logits? = some P.logits ∧ (o.probs? = none ∨ o.probs? = some P.probs)
      ∧ P.probs = C.toProbs P.logits ∧ Good P.logits

theorem Coherent.params {C : Conv α} {Good : List α → Prop} {c : Ctor} {o : RelaxedObj α}
    {P : RelaxedParams α} (h : Coherent C Good c o P) : o.params C = P := by
  obtain ⟨hb, he, h⟩ := h
  cases P with
  | mk B E ps ls =>
  cases o with
  | mk oB oE op ol =>
  simp only at hb he
  subst hb he
  cases c with
  | probs =>
    obtain ⟨h1, h2, h3, _⟩ := h
    simp only at h1 h2 h3
    subst h1
    rcases h2 with h2 | h2 <;> subst h2 <;>
      simp [RelaxedObj.params, RelaxedObj.readProbs, RelaxedObj.readLogits, h3]
  | logits =>
    obtain ⟨h1, h2, h3, _⟩ := h
    simp only at h1 h2 h3
    subst h1
    rcases h2 with h2 | h2 <;> subst h2 <;>
      simp [RelaxedObj.params, RelaxedObj.readProbs, RelaxedObj.readLogits, h3]

theorem Coherent.readProbs {C : Conv α} {Good : List α → Prop} {c : Ctor} {o : RelaxedObj α}
    {P : RelaxedParams α} (h : Coherent C Good c o P) : Coherent C Good c (o.readProbs C).2 P := by
  obtain ⟨hb, he, h⟩ := h
  cases c with
  | probs =>
    obtain ⟨h1, h2, h3, h4⟩ := h
    have : (o.readProbs C).2 = o := by simp [RelaxedObj.readProbs, h1]
    rw [this]
    exact ⟨hb, he, h1, h2, h3, h4⟩
  | logits =>
    obtain ⟨h1, h2, h3, h4⟩ := h
    rcases h2 with h2 | h2
    · refine ⟨?_, ?_, ?_, Or.inr ?_, h3, h4⟩ <;>
        simp [RelaxedObj.readProbs, h2, h1, hb, he, h3]
    · have : (o.readProbs C).2 = o := by simp [RelaxedObj.readProbs, h2]
      rw [this]
      exact ⟨hb, he, h1, Or.inr h2, h3, h4⟩

theorem Coherent.readLogits {C : Conv α} {Good : List α → Prop} {c : Ctor} {o : RelaxedObj α}
    {P : RelaxedParams α} (h : Coherent C Good c o P) : Coherent C Good c (o.readLogits C).2 P := by
  obtain ⟨hb, he, h⟩ := h
  cases c with
  | logits =>
    obtain ⟨h1, h2, h3, h4⟩ := h
    have : (o.readLogits C).2 = o := by simp [RelaxedObj.readLogits, h1]
    rw [this]
    exact ⟨hb, he, h1, h2, h3, h4⟩
  | probs =>
    obtain ⟨h1, h2, h3, h4⟩ := h
    rcases h2 with h2 | h2
    · refine ⟨?_, ?_, ?_, Or.inr ?_, h3, h4⟩ <;>
        simp [RelaxedObj.readLogits, h2, h1, hb, he, h3]
    · have : (o.readLogits C).2 = o := by simp [RelaxedObj.readLogits, h2]
      rw [this]
      exact ⟨hb, he, h1, Or.inr h2, h3, h4⟩

theorem Coherent.expand {C : Conv α} {Good : List α → Prop} (hT : C.Tiles Good) {c : Ctor}
    {o : RelaxedObj α} {P : RelaxedParams α} (h : Coherent C Good c o P) (pre : List Nat) :
    Coherent C Good c (o.expand pre) (P.expand pre) := by
  obtain ⟨hb, he, h⟩ := h
  refine ⟨by simp [RelaxedObj.expand, RelaxedParams.expand, hb],
    by simp [RelaxedObj.expand, RelaxedParams.expand, he], ?_⟩
  cases c with
  | probs =>
    obtain ⟨h1, h2, h3, h4⟩ := h
    refine ⟨by simp [RelaxedObj.expand, RelaxedParams.expand, h1, tile], ?_, ?_, ?_⟩
    · rcases h2 with h2 | h2
      · exact Or.inl (by simp [RelaxedObj.expand, h2])
      · exact Or.inr (by simp [RelaxedObj.expand, RelaxedParams.expand, h2, tile])
    · show tile _ P.logits = C.toLogits (tile _ P.probs)
      rw [hT.toLogits_tile _ _ h4, h3]
    · exact hT.good_tile _ _ h4
  | logits =>
    obtain ⟨h1, h2, h3, h4⟩ := h
    refine ⟨by simp [RelaxedObj.expand, RelaxedParams.expand, h1, tile], ?_, ?_, ?_⟩
    · rcases h2 with h2 | h2
      · exact Or.inl (by simp [RelaxedObj.expand, h2])
      · exact Or.inr (by simp [RelaxedObj.expand, RelaxedParams.expand, h2, tile])
    · show tile _ P.probs = C.toProbs (tile _ P.logits)
      rw [hT.toProbs_tile _ _ h4, h3]
    · exact hT.good_tile _ _ h4

/-- **every history keeps the invariant**: after the operations `h` the object holds (part of)
the parameters expanded by the leading axes the history added -/
theorem Coherent.run {C : Conv α} {Good : List α → Prop} (hT : C.Tiles Good) {c : Ctor} :
    ∀ (h : List ObjOp) (acc : List Nat) {o : RelaxedObj α} {P : RelaxedParams α},
      Coherent C Good c o (P.expand acc) →
      Coherent C Good c (o.run C h)
        (P.expand (h.foldl (fun acc op => match op with | .expand pre => pre ++ acc | _ => acc) acc))
  | [], _, _, _, hc => hc
  | op :: h, acc, o, P, hc => by
    simp only [RelaxedObj.run, List.foldl_cons]
    cases op with
    | probs => exact Coherent.run hT h acc hc.readProbs
    | logits => exact Coherent.run hT h acc hc.readLogits
    | expand pre =>
      have := hc.expand hT pre
      rw [expand_expand] at this
      exact Coherent.run hT h (pre ++ acc) this

/-! ## the two instances -/

theorem lbConv_tiles (eps : ℝ) : (lbConv TR eps).Tiles (fun _ => True) :=
  ⟨fun _ _ _ => trivial, fun k xs _ => tile_map _ k xs, fun k xs _ => tile_map _ k xs⟩

theorem lbObj_coherent (eps : ℝ) (c : Ctor) (shape : List Nat) (data : List ℝ) :
    Coherent (lbConv TR eps) (fun _ => True) c (lbObj c shape data) (lbParams TR eps c shape data) := by
  cases c <;> simp [Coherent, lbObj, lbParams, lbConv]

/-- whole rows of `V` classes -/
def RowsOf (V : Nat) (xs : List ℝ) : Prop := ∃ n, xs.length = n * V

theorem rowsOf_tile (V n : Nat) (xs : List ℝ) (h : xs.length = n * V) (k : Nat) :
    rowsOf V (k * n) (tile k xs) = tile k (rowsOf V n xs) := by
  have := rowsOf_replicate V n xs h k
  simpa [tile] using this

theorem gConv_tiles (eps : ℝ) (V : Nat) (hV : 0 < V) : (gConv TR eps V).Tiles (RowsOf V) := by
  refine ⟨?_, ?_, fun k xs _ => tile_map _ k xs⟩
  · rintro k xs ⟨n, hn⟩
    exact ⟨k * n, by rw [tile_length, hn, Nat.mul_assoc]⟩
  · rintro k xs ⟨n, hn⟩
    simp only [gConv]
    have e1 : (tile k xs).length / V = k * n := by
      rw [tile_length, hn, ← Nat.mul_assoc, Nat.mul_div_cancel _ hV]
    have e2 : xs.length / V = n := by rw [hn, Nat.mul_div_cancel _ hV]
    rw [e1, e2, rowsOf_tile V n xs hn k]
    simp [tile, List.map_flatten, List.map_replicate, flatten_replicate_flatten]

theorem gObj_coherent (eps : ℝ) (c : Ctor) (shape : List Nat) (data : List ℝ)
    (hV : 0 < shape.getLastD 1) (hlen : data.length = prodL shape.dropLast * shape.getLastD 1) :
    Coherent (gConv TR eps (shape.getLastD 1)) (RowsOf (shape.getLastD 1)) c (gObj TR c shape data)
      (gParams TR eps c shape data) := by
  have hrow := rowsOf_row_length (shape.getLastD 1) (prodL shape.dropLast) data hlen
  have hn := rowsOf_length (shape.getLastD 1) (prodL shape.dropLast) data
  cases c with
  | probs =>
    refine ⟨rfl, rfl, rfl, Or.inl rfl, ?_, ?_⟩
    · simp [gParams, gConv, List.map_flatten, List.map_map]
    · refine ⟨prodL shape.dropLast, ?_⟩
      simp only [gParams]
      have : ∀ r ∈ (rowsOf (shape.getLastD 1) (prodL shape.dropLast) data).map normRow,
          r.length = shape.getLastD 1 := by
        intro r hr
        obtain ⟨r', hr', rfl⟩ := List.mem_map.1 hr
        rw [normRow_length]
        exact hrow r' hr'
      rw [length_flatten_rows _ _ this, List.length_map, hn]
  | logits =>
    have hlr : ∀ r ∈ (rowsOf (shape.getLastD 1) (prodL shape.dropLast) data).map (logSoftmaxRow TR),
        r.length = shape.getLastD 1 := by
      intro r hr
      obtain ⟨r', hr', rfl⟩ := List.mem_map.1 hr
      rw [logSoftmaxRow_length]
      exact hrow r' hr'
    have hlenf : ((rowsOf (shape.getLastD 1) (prodL shape.dropLast) data).map
        (logSoftmaxRow TR)).flatten.length = prodL shape.dropLast * shape.getLastD 1 := by
      rw [length_flatten_rows _ _ hlr, List.length_map, hn]
    refine ⟨rfl, rfl, rfl, Or.inl rfl, ?_, ⟨_, hlenf⟩⟩
    simp only [gParams, gConv]
    rw [hlenf, Nat.mul_div_cancel _ hV]
    have := rowsOf_flatten (shape.getLastD 1) _ hlr
    rw [List.length_map, hn] at this
    rw [this]

/-! ## SRSWOR -/

/-- the invariant of the SRSWOR object: the counts are the expanded counts, the cache — if any — is
the partition of the counts -/
def CoherentS (o : SrsworObj) (shape : List Nat) (total given : List Nat) : Prop :=
  o.batchShape = shape ∧ o.total = total ∧ o.given = given ∧ total.length = given.length ∧
  (o.partition? = none ∨ o.partition? = some (List.zipWith (srsworPartition o.outSize) total given))

theorem CoherentS.step {o : SrsworObj} {shape total given : List Nat} (h : CoherentS o shape total given) :
    ∀ op : SrsworOp, CoherentS (o.step op)
      (match op with | .expand pre => pre ++ shape | _ => shape)
      (match op with | .expand pre => tile (prodL pre) total | _ => total)
      (match op with | .expand pre => tile (prodL pre) given | _ => given)
  | .partition => by
    obtain ⟨h1, h2, h3, h4, h5⟩ := h
    rcases h5 with h5 | h5
    · exact ⟨by simp [SrsworObj.step, SrsworObj.readPartition, h5, h1],
        by simp [SrsworObj.step, SrsworObj.readPartition, h5, h2],
        by simp [SrsworObj.step, SrsworObj.readPartition, h5, h3], h4,
        Or.inr (by simp [SrsworObj.step, SrsworObj.readPartition, h5, h2, h3])⟩
    · have : o.step .partition = o := by simp [SrsworObj.step, SrsworObj.readPartition, h5]
      rw [this]
      exact ⟨h1, h2, h3, h4, Or.inr h5⟩
  | .expand pre => by
    obtain ⟨h1, h2, h3, h4, h5⟩ := h
    refine ⟨by simp [SrsworObj.step, SrsworObj.expand, h1], by simp [SrsworObj.step, SrsworObj.expand, h2],
      by simp [SrsworObj.step, SrsworObj.expand, h3], by rw [tile_length, tile_length, h4], ?_⟩
    rcases h5 with h5 | h5
    · exact Or.inl (by simp [SrsworObj.step, SrsworObj.expand, h5])
    · refine Or.inr ?_
      simp only [SrsworObj.step, SrsworObj.expand, h5, Option.map_some]
      rw [tile_zipWith _ _ _ _ h4]

theorem CoherentS.run : ∀ (h : List SrsworOp) (acc : List Nat) {o : SrsworObj} {shape total given : List Nat},
    CoherentS o (acc ++ shape) (tile (prodL acc) total) (tile (prodL acc) given) →
    let pre := h.foldl (fun acc op => match op with | .expand pre => pre ++ acc | _ => acc) acc
    CoherentS (o.run h) (pre ++ shape) (tile (prodL pre) total) (tile (prodL pre) given)
  | [], _, _, _, _, _, hc => hc
  | op :: h, acc, o, shape, total, given, hc => by
    simp only [SrsworObj.run, List.foldl_cons]
    cases op with
    | partition => exact CoherentS.run h acc (hc.step .partition)
    | expand pre =>
      have := hc.step (.expand pre)
      simp only [tile_tile, ← prodL_append, ← List.append_assoc] at this
      exact CoherentS.run h (pre ++ acc) this

end PdtVerif.Estimators
