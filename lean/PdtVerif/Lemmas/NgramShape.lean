import PdtVerif.Model.NgramTrie
/-!
# Lemmas for C06, part 5: what `load_state_dict` recovers from the offsets buffer

`_build_trie` writes, at the dummy node in front of every level `n ≥ 2`, the offset
`len(level) + 1`. No later write touches it: the walk-back over childless parents and the
trailing fill only write into cells that still hold `0`, and later dummy nodes live at larger
indices. `load_state_dict` hops along exactly these cells (`inferLoop`), so it counts the
levels and reads the size of the last one.
-/
namespace PdtVerif.NgramTrie

theorem getD_setIfInBounds (a : Array Nat) (i j v : Nat) :
    (a.setIfInBounds i v).getD j 0 = if i = j ∧ i < a.size then v else a.getD j 0 := by
  simp only [Array.getD_eq_getD_getElem?, Array.getElem?_setIfInBounds]
  by_cases h : i = j
  · subst h
    by_cases h2 : i < a.size
    · simp [h2]
    · simp [h2]
  · simp [h]

/-- `b` has the size of `a` and agrees with it wherever `a` is non-zero. -/
def Pres (a b : Array Nat) : Prop := b.size = a.size ∧ ∀ i, a.getD i 0 ≠ 0 → b.getD i 0 = a.getD i 0

theorem Pres.refl (a : Array Nat) : Pres a a := ⟨rfl, fun _ _ => rfl⟩

theorem Pres.trans {a b c : Array Nat} (h1 : Pres a b) (h2 : Pres b c) : Pres a c :=
  ⟨h2.1.trans h1.1, fun i hi => by
    have e := h1.2 i hi
    rw [h2.2 i (by rw [e]; exact hi), e]⟩

/-- Writing into a cell that holds `0` preserves all non-zero cells. -/
theorem Pres.set_zero (a : Array Nat) (j v : Nat) (hz : a.getD j 0 = 0) :
    Pres a (a.setIfInBounds j v) := by
  refine ⟨Array.size_setIfInBounds, fun i hi => ?_⟩
  rw [getD_setIfInBounds]
  by_cases h : j = i ∧ j < a.size
  · exfalso; apply hi; rw [← h.1]; exact hz
  · rw [if_neg h]

theorem walkBack_pres (alloc : Nat) : ∀ (p : Nat) (offs : Array Nat), Pres offs (walkBack alloc p offs)
  | 0, offs => Pres.refl offs
  | p + 1, offs => by
    unfold walkBack
    by_cases h : offs.getD p 0 = 0
    · rw [if_pos h]
      exact (Pres.set_zero offs p _ h).trans (walkBack_pres alloc p _)
    · rw [if_neg h]; exact Pres.refl offs

theorem trailFill_pres : ∀ (i : Nat) (offs : Array Nat), Pres offs (trailFill i offs)
  | 0, offs => Pres.refl offs
  | i + 1, offs => by
    unfold trailFill
    simp only
    by_cases h : offs.getD (if i = 0 then offs.size - 1 else i - 1) 0 ≠ 0
    · rw [if_pos h]; exact Pres.refl offs
    · rw [if_neg h]
      have hz : offs.getD (if i = 0 then offs.size - 1 else i - 1) 0 = 0 := by
        simpa using h
      exact (Pres.set_zero offs _ _ hz).trans (trailFill_pres i _)

theorem fillNodes_offsets (U start : Nat) (isTop : Bool) (lastStart : Nat)
    (parents : List (List Int × Nat)) :
    ∀ (l : List Item) (f : Fill),
      Pres f.offsets (fillNodes U start isTop lastStart parents l f).offsets ∧
      (fillNodes U start isTop lastStart parents l f).allocated = f.allocated + l.length
  | [], f => ⟨Pres.refl _, rfl⟩
  | e :: rest, f => by
    unfold fillNodes
    simp only
    have ih := fillNodes_offsets U start isTop lastStart parents rest
      { f with
        offsets := walkBack f.allocated ((parents.lookup e.key.dropLast).getD 0 + lastStart + 1) f.offsets,
        ids := f.ids.setIfInBounds (f.allocated - U) (e.key.getLastD 0),
        logps := f.logps.setIfInBounds f.allocated e.logp,
        logbs := if isTop then f.logbs else f.logbs.setIfInBounds f.allocated e.logb,
        allocated := f.allocated + 1,
        parents := f.parents ++ [(e.key, f.allocated - start)] }
    refine ⟨(walkBack_pres _ _ _).trans ih.1, ?_⟩
    rw [ih.2]; simp only [List.length_cons]; omega

theorem insortLeft_length (x : Item) : ∀ l : List Item, (insortLeft x l).length = l.length + 1
  | [] => rfl
  | y :: ys => by
    unfold insortLeft
    split
    · rfl
    · simp [insortLeft_length x ys]

theorem foldl_insort_length : ∀ (l acc : List Item),
    (l.foldl (fun acc e => insortLeft e acc) acc).length = acc.length + l.length
  | [], _ => rfl
  | x :: xs, acc => by
    rw [List.foldl_cons, foldl_insort_length xs, insortLeft_length]
    simp only [List.length_cons]; omega

theorem sortLevel_length (d : List Item) : (sortLevel d).length = d.length := by
  simp [sortLevel, foldl_insort_length]

/-- One level: the dummy cell gets `len + 1`, every other non-zero cell survives. -/
theorem fillLevel_spec (U : Nat) (isTop : Bool) (d : List Item) (f : Fill) :
    (fillLevel U isTop d f).allocated = f.allocated + d.length + 1 ∧
    (fillLevel U isTop d f).offsets.size = f.offsets.size ∧
    (f.allocated < f.offsets.size →
      (fillLevel U isTop d f).offsets.getD f.allocated 0 = d.length + 1) ∧
    (∀ i, i ≠ f.allocated → f.offsets.getD i 0 ≠ 0 →
      (fillLevel U isTop d f).offsets.getD i 0 = f.offsets.getD i 0) := by
  unfold fillLevel
  simp only
  have hn := fillNodes_offsets U f.allocated isTop f.lastStart f.parents (sortLevel d)
    { f with offsets := f.offsets.setIfInBounds f.allocated (d.length + 1),
             logps := f.logps.setIfInBounds f.allocated LogP.nan,
             logbs := f.logbs.setIfInBounds f.allocated LogP.nan,
             allocated := f.allocated + 1, parents := [] }
  have ht := trailFill_pres (f.allocated + 1)
    (fillNodes U f.allocated isTop f.lastStart f.parents (sortLevel d)
      { f with offsets := f.offsets.setIfInBounds f.allocated (d.length + 1),
               logps := f.logps.setIfInBounds f.allocated LogP.nan,
               logbs := f.logbs.setIfInBounds f.allocated LogP.nan,
               allocated := f.allocated + 1, parents := [] }).offsets
  have hp := hn.1.trans ht
  simp only at hp
  refine ⟨?_, ?_, ?_, ?_⟩
  · rw [hn.2, sortLevel_length]; simp only; omega
  · rw [hp.1, Array.size_setIfInBounds]
  · intro hlt
    have h1 : (f.offsets.setIfInBounds f.allocated (d.length + 1)).getD f.allocated 0 = d.length + 1 := by
      rw [getD_setIfInBounds, if_pos ⟨rfl, hlt⟩]
    rw [hp.2 _ (by rw [h1]; omega), h1]
  · intro i hi hnz
    have h1 : (f.offsets.setIfInBounds f.allocated (d.length + 1)).getD i 0 = f.offsets.getD i 0 := by
      rw [getD_setIfInBounds, if_neg (fun h => hi h.1.symm)]
    rw [hp.2 _ (by rw [h1]; exact hnz), h1]

/-- `s` and every later dummy position lie inside the buffer. -/
def InB (size : Nat) : Nat → List Nat → Prop
  | _, [] => True
  | s, l :: rest => s < size ∧ InB size (s + l + 1) rest

/-- The cells `load_state_dict` hops along: position `s` holds `l + 1`, then `s + l + 1` … -/
def Chain (offs : Array Nat) : Nat → List Nat → Prop
  | _, [] => True
  | s, l :: rest => s < offs.size ∧ offs.getD s 0 = l + 1 ∧ Chain offs (s + l + 1) rest

theorem Chain.of_agree (a b : Array Nat) (hsz : b.size = a.size) :
    ∀ (s : Nat) (lens : List Nat), Chain a s lens → (∀ i, s ≤ i → a.getD i 0 ≠ 0 → b.getD i 0 = a.getD i 0) →
      Chain b s lens
  | _, [], _, _ => trivial
  | s, l :: rest, h, hag => by
    obtain ⟨h1, h2, h3⟩ := h
    refine ⟨hsz ▸ h1, ?_, Chain.of_agree a b hsz _ rest h3 (fun i hi => hag i (by omega))⟩
    rw [hag s (Nat.le_refl _) (by rw [h2]; omega), h2]

theorem fillLevels_spec (U : Nat) : ∀ (Ls : List (List Item)) (f : Fill),
    InB f.offsets.size f.allocated (Ls.map List.length) →
      (fillLevels U Ls f).offsets.size = f.offsets.size ∧
      Chain (fillLevels U Ls f).offsets f.allocated (Ls.map List.length) ∧
      (∀ i, i < f.allocated → f.offsets.getD i 0 ≠ 0 →
        (fillLevels U Ls f).offsets.getD i 0 = f.offsets.getD i 0)
  | [], f, _ => ⟨rfl, trivial, fun _ _ _ => rfl⟩
  | [d], f, h => by
    obtain ⟨ha, hs, hd, hp⟩ := fillLevel_spec U true d f
    simp only [fillLevels]
    refine ⟨hs, ⟨hs ▸ h.1, hd h.1, trivial⟩, fun i hi hnz => hp i (by omega) hnz⟩
  | d :: d' :: rest, f, h => by
    obtain ⟨ha, hs, hd, hp⟩ := fillLevel_spec U false d f
    simp only [fillLevels]
    have hin : InB (fillLevel U false d f).offsets.size (fillLevel U false d f).allocated
        ((d' :: rest).map List.length) := by
      rw [hs, ha]; exact h.2
    obtain ⟨is, ic, ip⟩ := fillLevels_spec U (d' :: rest) (fillLevel U false d f) hin
    refine ⟨is.trans hs, ⟨(is.trans hs) ▸ h.1, ?_, ?_⟩, ?_⟩
    · have hlt : f.allocated < (fillLevel U false d f).allocated := by rw [ha]; omega
      have hv := hd h.1
      rw [ip f.allocated hlt (by rw [hv]; omega), hv]
    · rw [ha] at ic; exact ic
    · intro i hi hnz
      have e := hp i (by omega) hnz
      rw [ip i (by rw [ha]; omega) (by rw [e]; exact hnz), e]

/-- `load_state_dict`'s loop on a chain that ends at or behind the end of the buffer. -/
theorem inferLoop_chain (offs : Array Nat) :
    ∀ (lens : List Nat) (fuel s n g : Nat), Chain offs s lens → lens.length ≤ fuel →
      offs.size ≤ s + lens.sum + lens.length →
      inferLoop offs fuel s n g =
        some (s + lens.sum + lens.length, n + lens.length, lens.getLastD g)
  | [], fuel, s, n, g, _, _, hend => by
    simp only [List.sum_nil, List.length_nil, Nat.add_zero] at hend ⊢
    cases fuel with
    | zero => rfl
    | succ fuel =>
      unfold inferLoop
      rw [if_neg (by omega)]; rfl
  | l :: rest, fuel, s, n, g, hc, hf, hend => by
    obtain ⟨h1, h2, h3⟩ := hc
    cases fuel with
    | zero => simp at hf
    | succ fuel =>
      unfold inferLoop
      rw [if_pos h1]
      simp only [h2]
      rw [if_neg (by omega)]
      have ih := inferLoop_chain offs rest fuel (s + (l + 1)) (n + 1) (l + 1 - 1)
        (by rw [show s + (l + 1) = s + l + 1 by omega]; exact h3)
        (by simp at hf; omega)
        (by simp only [List.sum_cons, List.length_cons] at hend; omega)
      rw [ih]
      simp only [List.sum_cons, List.length_cons, Nat.add_sub_cancel]
      congr 1
      · congr 1
        · omega
        · congr 1
          · omega
          · cases rest with
            | nil => rfl
            | cons a as => simp [List.getLastD]

/-- Every dummy position is inside a buffer that is at most `last` cells short of the end. -/
theorem InB_of_end (size : Nat) : ∀ (lens : List Nat) (s : Nat), lens ≠ [] →
    s + lens.sum + lens.length ≤ size + lens.getLastD 0 → InB size s lens
  | [], _, h, _ => absurd rfl h
  | [l], s, _, h => by
    have e : [l].getLastD 0 = l := rfl
    rw [e] at h
    simp only [List.sum_cons, List.sum_nil, List.length_cons, List.length_nil] at h
    exact ⟨by omega, trivial⟩
  | l :: l' :: rest, s, _, h => by
    have ih := InB_of_end size (l' :: rest) (s + l + 1) (by simp)
      (by simp only [List.sum_cons, List.length_cons, List.getLastD_cons] at h ⊢; omega)
    exact ⟨by have := ih.1; omega, ih⟩

end PdtVerif.NgramTrie

namespace PdtVerif.NgramTrie

/-! ## sizes of the other buffers -/

theorem fillNodes_sizes (U start : Nat) (isTop : Bool) (lastStart : Nat)
    (parents : List (List Int × Nat)) :
    ∀ (l : List Item) (f : Fill),
      (fillNodes U start isTop lastStart parents l f).ids.size = f.ids.size ∧
      (fillNodes U start isTop lastStart parents l f).logps.size = f.logps.size
  | [], f => ⟨rfl, rfl⟩
  | e :: rest, f => by
    unfold fillNodes
    simp only
    have ih := fillNodes_sizes U start isTop lastStart parents rest
      { f with
        offsets := walkBack f.allocated ((parents.lookup e.key.dropLast).getD 0 + lastStart + 1) f.offsets,
        ids := f.ids.setIfInBounds (f.allocated - U) (e.key.getLastD 0),
        logps := f.logps.setIfInBounds f.allocated e.logp,
        logbs := if isTop then f.logbs else f.logbs.setIfInBounds f.allocated e.logb,
        allocated := f.allocated + 1,
        parents := f.parents ++ [(e.key, f.allocated - start)] }
    exact ⟨ih.1.trans Array.size_setIfInBounds, ih.2.trans Array.size_setIfInBounds⟩

theorem fillLevel_sizes (U : Nat) (isTop : Bool) (d : List Item) (f : Fill) :
    (fillLevel U isTop d f).ids.size = f.ids.size ∧
    (fillLevel U isTop d f).logps.size = f.logps.size := by
  unfold fillLevel
  simp only
  have hn := fillNodes_sizes U f.allocated isTop f.lastStart f.parents (sortLevel d)
    { f with offsets := f.offsets.setIfInBounds f.allocated (d.length + 1),
             logps := f.logps.setIfInBounds f.allocated LogP.nan,
             logbs := f.logbs.setIfInBounds f.allocated LogP.nan,
             allocated := f.allocated + 1, parents := [] }
  exact ⟨hn.1, hn.2.trans Array.size_setIfInBounds⟩

theorem fillLevels_sizes (U : Nat) : ∀ (Ls : List (List Item)) (f : Fill),
    (fillLevels U Ls f).ids.size = f.ids.size ∧ (fillLevels U Ls f).logps.size = f.logps.size
  | [], f => ⟨rfl, rfl⟩
  | [d], f => by simp only [fillLevels]; exact fillLevel_sizes U true d f
  | d :: d' :: rest, f => by
    simp only [fillLevels]
    have ih := fillLevels_sizes U (d' :: rest) (fillLevel U false d f)
    have h := fillLevel_sizes U false d f
    exact ⟨ih.1.trans h.1, ih.2.trans h.2⟩

/-! ## the closed table: number of levels, size of the unigram level -/

def keysNodup (d : List Item) : Prop := (d.map (·.key)).Nodup

theorem hasKey_iff (d : List Item) (k : List Int) : hasKey d k = true ↔ k ∈ d.map (·.key) := by
  simp only [hasKey, List.any_eq_true, beq_iff_eq, List.mem_map]

theorem foldl_none {α β} (g : Option α → β → Option α) (hg : ∀ e, g none e = none) :
    ∀ l : List β, l.foldl g none = none
  | [] => rfl
  | x :: xs => by rw [List.foldl_cons, hg]; exact foldl_none g hg xs

theorem nodup_map_inj {α β} (f : α → β) (hf : ∀ a b, f a = f b → a = b) {l : List α}
    (h : l.Nodup) : (l.map f).Nodup :=
  List.Pairwise.map f (fun a b hab e => hab (hf a b e)) h

/-- The suffix pass only appends keys that are not there yet. -/
theorem addSuffixes_nodup (V : Nat) (sos : Int) (len : Nat) :
    ∀ (d lower low' : List Item), keysNodup lower → addSuffixes V sos len d lower = some low' →
      keysNodup low' := by
  intro d
  unfold addSuffixes
  induction d with
  | nil => intro lower low' h e; simp only [List.foldl_nil, Option.some.injEq] at e; exact e ▸ h
  | cons x xs ih =>
    intro lower low' h e
    simp only [List.foldl_cons] at e
    by_cases h1 : x.key.length ≠ len
    · rw [if_pos h1] at e
      rw [foldl_none _ (fun _ => rfl)] at e; cases e
    · rw [if_neg h1] at e
      by_cases h2 : x.key.any (fun t => !(decide (0 ≤ t ∧ t < V) || (shiftOf V sos == 1 && t == sos))) = true
      · rw [if_pos h2] at e
        rw [foldl_none _ (fun _ => rfl)] at e; cases e
      · rw [if_neg h2] at e
        by_cases h3 : hasKey lower x.key.tail = true
        · rw [if_pos h3] at e
          exact ih lower low' h e
        · rw [if_neg h3] at e
          refine ih _ low' ?_ e
          unfold keysNodup at h ⊢
          rw [List.map_append, List.nodup_append]
          refine ⟨h, by simp, ?_⟩
          intro a ha b hb
          simp only [List.map_cons, List.map_nil, List.mem_singleton] at hb
          subst hb
          intro hab
          apply h3
          rw [hasKey_iff]
          exact hab ▸ ha

/-- The tokens that have a unigram node. -/
def uniToks (V : Nat) (sos : Int) : List Int :=
  (List.range V).map (fun x => Int.ofNat x) ++ (if shiftOf V sos = 1 then [sos] else [])

theorem uniToks_length (V : Nat) (sos : Int) : (uniToks V sos).length = V + shiftOf V sos := by
  unfold uniToks
  by_cases h : shiftOf V sos = 1
  · simp [h]
  · have : shiftOf V sos = 0 := by unfold shiftOf at h ⊢; split <;> simp_all
    simp [this]

theorem uniToks_nodup (V : Nat) (sos : Int) : (uniToks V sos).Nodup := by
  unfold uniToks
  rw [List.nodup_append]
  refine ⟨?_, ?_, ?_⟩
  · exact nodup_map_inj _ (fun a b h => Int.ofNat.inj h) List.nodup_range
  · split <;> simp
  · intro a ha b hb
    split at hb
    · rename_i hs
      simp only [List.mem_singleton] at hb
      subst hb
      simp only [List.mem_map, List.mem_range] at ha
      obtain ⟨x, hx, rfl⟩ := ha
      intro e
      unfold shiftOf at hs
      split at hs
      · cases hs
      · rename_i hn
        apply hn
        rw [← e]
        exact ⟨Int.natCast_nonneg x, by show (x : Int) < V; exact_mod_cast hx⟩
    · cases hb

theorem addUnigrams_length (V : Nat) (sos : Int) (d u : List Item) (hd : keysNodup d)
    (h : addUnigrams V sos d = some u) : u.length = V + shiftOf V sos := by
  unfold addUnigrams at h
  simp only at h
  change (if d.any (fun e => match e.key with | [t] => !((uniToks V sos).contains t) | _ => true) = true
    then none else some (d ++ ((uniToks V sos).filter (fun t => !(hasKey d [t]))).map
      (fun t => (⟨[t], LogP.negInf, LogP.fin 0⟩ : Item)))) = some u at h
  split at h
  · cases h
  · rename_i hany
    simp only [Option.some.injEq] at h
    subst h
    -- keys of the result
    have hkeys : ∀ e ∈ d, ∃ t, e.key = [t] ∧ t ∈ uniToks V sos := by
      intro e he
      have : ¬ (match e.key with | [t] => !((uniToks V sos).contains t) | _ => true) = true := by
        intro hc; apply hany; rw [List.any_eq_true]; exact ⟨e, he, hc⟩
      match hk : e.key with
      | [t] =>
        rw [hk] at this
        simp only [Bool.not_eq_true', Bool.not_eq_false', List.contains_eq_mem,
          decide_eq_true_eq] at this
        exact ⟨t, rfl, by simpa using this⟩
      | [] => rw [hk] at this; simp at this
      | _ :: _ :: _ => rw [hk] at this; simp at this
    let miss := (uniToks V sos).filter (fun t => !(hasKey d [t]))
    have hlen : (d ++ miss.map (fun t => (⟨[t], LogP.negInf, LogP.fin 0⟩ : Item))).length
        = ((d ++ miss.map (fun t => (⟨[t], LogP.negInf, LogP.fin 0⟩ : Item))).map (·.key)).length := by
      simp
    rw [hlen, ← uniToks_length]
    have hmap : (d ++ miss.map (fun t => (⟨[t], LogP.negInf, LogP.fin 0⟩ : Item))).map (·.key) =
        d.map (·.key) ++ miss.map (fun t => [t]) := by
      simp [List.map_append, List.map_map, Function.comp_def]
    rw [hmap]
    have hnd : (d.map (·.key) ++ miss.map (fun t => [t])).Nodup := by
      rw [List.nodup_append]
      refine ⟨hd, ?_, ?_⟩
      · exact nodup_map_inj _ (fun a b h => by simpa using h)
          (List.Pairwise.filter _ (uniToks_nodup V sos))
      · intro a ha b hb
        simp only [List.mem_map] at hb
        obtain ⟨t, ht, rfl⟩ := hb
        intro e
        simp only [miss, List.mem_filter, Bool.not_eq_true', ] at ht
        have := (hasKey_iff d [t]).mpr (e ▸ ha)
        rw [this] at ht; exact absurd ht.2 (by simp)
    have hnd2 : ((uniToks V sos).map (fun t => [t])).Nodup :=
      nodup_map_inj _ (fun a b h => by simpa using h) (uniToks_nodup V sos)
    have e1 : (d.map (·.key) ++ miss.map (fun t => [t])).length ≤ ((uniToks V sos).map (fun t => [t])).length := by
      apply List.Nodup.length_le_of_subset hnd
      intro k hk
      simp only [List.mem_append, List.mem_map] at hk ⊢
      rcases hk with ⟨e, he, rfl⟩ | ⟨t, ht, rfl⟩
      · obtain ⟨t, hk, ht⟩ := hkeys e he
        exact ⟨t, ht, hk.symm⟩
      · exact ⟨t, (List.mem_filter.mp ht).1, rfl⟩
    have e2 : ((uniToks V sos).map (fun t => [t])).length ≤ (d.map (·.key) ++ miss.map (fun t => [t])).length := by
      apply List.Nodup.length_le_of_subset hnd2
      intro k hk
      simp only [List.mem_map] at hk
      obtain ⟨t, ht, rfl⟩ := hk
      by_cases hh : hasKey d [t] = true
      · exact List.mem_append_left _ ((hasKey_iff d [t]).mp hh)
      · apply List.mem_append_right
        simp only [List.mem_map]
        exact ⟨t, List.mem_filter.mpr ⟨ht, by simpa using hh⟩, rfl⟩
    simp only [List.length_map] at e1 e2 ⊢
    omega

theorem closeDown_spec (V : Nat) (sos : Int) :
    ∀ (rest : List (List Item)) (cur : List Item) (r : List (List Item)),
      closeDown V sos cur rest = some r → keysNodup (rest.getLastD cur) →
        r.length = rest.length + 1 ∧ (r.getLastD []).length = V + shiftOf V sos ∧
        (rest ≠ [] → r.head? = some cur)
  | [], cur, r, h, hnd => by
    simp only [closeDown, Option.map_eq_some_iff] at h
    obtain ⟨u, hu, rfl⟩ := h
    refine ⟨rfl, ?_, fun h => absurd rfl h⟩
    exact addUnigrams_length V sos cur u hnd hu
  | lower :: rest, cur, r, h, hnd => by
    simp only [closeDown] at h
    split at h
    · cases h
    · rename_i low' hlow
      simp only [Option.map_eq_some_iff] at h
      obtain ⟨r', hr', rfl⟩ := h
      have hnd' : keysNodup (rest.getLastD low') := by
        cases rest with
        | nil => exact addSuffixes_nodup V sos _ cur lower low' hnd hlow
        | cons a as => simp only [List.getLastD_cons] at hnd ⊢; exact hnd
      obtain ⟨h1, h2, _⟩ := closeDown_spec V sos rest low' r' hr' hnd'
      refine ⟨by simp [h1], ?_, fun _ => rfl⟩
      have hne : r' ≠ [] := by intro e; rw [e] at h1; simp at h1
      cases r' with
      | nil => exact absurd rfl hne
      | cons a as => simpa [List.getLastD_cons] using h2

end PdtVerif.NgramTrie

namespace PdtVerif.NgramTrie

/-! ## `load_state_dict` after `_build_trie` -/

/-- Sizes computed by `buildTrie` from the closed levels. -/
def sizeO (N : Nat) (levels : List (List Item)) : Nat :=
  (levels.map List.length).sum - (levels.getLastD []).length + (N - 1)

/-- The state before the first level above the unigrams is allocated (same text as in
`buildTrie`). -/
def initFill (V : Nat) (sos : Int) (N : Nat) (levels : List (List Item)) : Fill :=
  let total := (levels.map List.length).sum
  let G := (levels.getLastD []).length
  let shift := shiftOf V sos
  let U := V + shift + 1 % N
  let O := total - G + (N - 1)
  let I := O + G - U
  let P := O + G
  let uni := levels.headD []
  let nU := V + shift
  let uvals := (List.range nU).map (fun x =>
    (uni.find? (fun e => e.key == [Int.ofNat x])).getD default)
  let logps0 : Array LogP := Array.replicate P (LogP.fin 0)
  let logbs0 : Array LogP := Array.replicate O (LogP.fin 0)
  let put (a : Array LogP) (vals : List LogP) : Array LogP :=
    (List.range vals.length).foldl (fun acc i => acc.setIfInBounds i (vals.getD i LogP.nan)) a
  let logps1 := put logps0 (uvals.map (·.logp))
  let logbs1 := if N = 1 then logbs0 else put logbs0 (uvals.map (·.logb))
  { offsets := Array.replicate O 0, ids := Array.replicate I 0,
    logps := logps1, logbs := logbs1, allocated := nU, lastStart := 0,
    parents := (List.range (U - 1)).map (fun x => ([Int.ofNat x], x)) }

/-- The part of `buildTrie` behind the closure (same text). -/
def assemble (V : Nat) (sos : Int) (N : Nat) (closedRev : List (List Item)) : Buffers :=
  let levels := closedRev.reverse.map (fun d => d.map (remapItem V sos))
  let U := V + shiftOf V sos + 1 % N
  let f := fillLevels U levels.tail (initFill V sos N levels)
  { N := N, G := (levels.getLastD []).length, S := maxDirect f.offsets (V + shiftOf V sos + 1),
    offsets := f.offsets, ids := f.ids, logps := f.logps, logbs := f.logbs,
    offBits := if f.offsets.size = 0 then 8 else bitsFor (f.offsets.foldl max 0),
    idBits := bitsFor U }

theorem buildTrie_eq (V : Nat) (sos : Int) (dicts : List (List Item)) :
    buildTrie V sos dicts =
      if dicts.length = 0 then none
      else if (dicts.getLastD []).isEmpty then none
      else (closeDown V sos (dicts.getLastD []) dicts.reverse.tail).map (assemble V sos dicts.length) := by
  unfold buildTrie
  simp only
  split
  · rfl
  · split
    · rfl
    · split <;> rename_i h <;> rw [h] <;> rfl

theorem foldl_set_size {α} (g : Nat → α) : ∀ (l : List Nat) (a : Array α),
    (l.foldl (fun acc i => acc.setIfInBounds i (g i)) a).size = a.size
  | [], _ => rfl
  | x :: xs, a => by rw [List.foldl_cons, foldl_set_size g xs]; exact Array.size_setIfInBounds

theorem initFill_spec (V : Nat) (sos : Int) (N : Nat) (levels : List (List Item)) :
    (initFill V sos N levels).offsets.size = sizeO N levels ∧
    (initFill V sos N levels).allocated = V + shiftOf V sos ∧
    (initFill V sos N levels).ids.size =
      sizeO N levels + (levels.getLastD []).length - (V + shiftOf V sos + 1 % N) ∧
    (initFill V sos N levels).logps.size = sizeO N levels + (levels.getLastD []).length := by
  unfold initFill sizeO
  refine ⟨by simp, rfl, by simp, ?_⟩
  simp only
  rw [foldl_set_size]
  simp

theorem getLastD_irrel {α} : ∀ (l : List α) (a b : α), l ≠ [] → l.getLastD a = l.getLastD b
  | [], _, _, h => absurd rfl h
  | x :: xs, a, b, _ => by rw [List.getLastD_cons, List.getLastD_cons]

theorem getLastD_length : ∀ (l : List (List Item)) (d : List Item),
    (l.getLastD d).length = (l.map List.length).getLastD d.length
  | [], _ => rfl
  | a :: r, d => by
    rw [List.getLastD_cons, List.map_cons, List.getLastD_cons]
    exact getLastD_length r a

theorem getLastD_le_sum : ∀ (l : List Nat), l.getLastD 0 ≤ l.sum
  | [] => by simp
  | [a] => by simp [List.getLastD]
  | a :: b :: rest => by
    have := getLastD_le_sum (b :: rest)
    simp only [List.getLastD_cons, List.sum_cons] at this ⊢
    omega

/-- The loop of `load_state_dict` on the offsets written by `fillLevels` (at least one level
above the unigrams). -/
theorem shape_core (V : Nat) (sos : Int) (U : Nat) (tl : List (List Item)) (htl : tl ≠ [])
    (f0 : Fill) (O nIds nLogps : Nat) (hsize : f0.offsets.size = O)
    (hal : f0.allocated = V + shiftOf V sos)
    (hO : O + (tl.map List.length).getLastD 0 =
      (V + shiftOf V sos) + (tl.map List.length).sum + tl.length)
    (hI : nIds ≠ 0) :
    inferShape V sos (fillLevels U tl f0).offsets nIds nLogps =
      some (tl.length + 1, (tl.map List.length).getLastD 0,
        maxDirect (fillLevels U tl f0).offsets (V + shiftOf V sos + 1)) := by
  have hlen1 : 1 ≤ tl.length := by
    cases tl with
    | nil => exact absurd rfl htl
    | cons a as => simp
  have hle := getLastD_le_sum (tl.map List.length)
  have hne : tl.map List.length ≠ [] := by simpa using htl
  have hinb : InB f0.offsets.size f0.allocated (tl.map List.length) := by
    rw [hsize, hal]
    exact InB_of_end O _ _ hne (by rw [hO]; simp)
  obtain ⟨hs, hc, _⟩ := fillLevels_spec U tl f0 hinb
  rw [hsize] at hs
  rw [hal] at hc
  unfold inferShape
  simp only
  rw [hs]
  have hO0 : O ≠ 0 := by omega
  rw [if_pos ⟨hI, hO0⟩, if_neg (by omega)]
  have hloop := inferLoop_chain (fillLevels U tl f0).offsets (tl.map List.length) O
    (V + shiftOf V sos) 1 (V + shiftOf V sos) hc (by simp; omega) (by rw [hs]; simp; omega)
  rw [getLastD_irrel _ (V + shiftOf V sos) 0 hne] at hloop
  have e1 : V + shiftOf V sos + 1 - 1 = V + shiftOf V sos := by omega
  rw [e1, hloop]
  simp only [List.length_map]
  rw [if_neg (by rw [hO]; simp)]
  congr 2
  omega

/-- **What `load_state_dict` recovers.** For every table that `buildTrie` accepts (unigram
keys pairwise distinct, as the keys of a Python dict are): the shape inferred from the built
buffers is the order of the table, the number of n-grams of the highest order (for a unigram
table: the number of unigram nodes `V + shift`, missing ones filled in) and the
`max_direct_descendants` the constructor computed. -/
theorem inferShape_buildTrie (V : Nat) (sos : Int) (dicts : List (List Item)) (b : Buffers)
    (hb : buildTrie V sos dicts = some b) (hnd : keysNodup (dicts.headD [])) :
    inferShape V sos b.offsets b.ids.size b.logps.size = some (b.N, b.G, b.S) ∧
    b.N = dicts.length ∧
    b.G = if dicts.length = 1 then V + shiftOf V sos else (dicts.getLastD []).length := by
  rw [buildTrie_eq] at hb
  split at hb
  · cases hb
  rename_i hN0
  split at hb
  · cases hb
  rename_i hTop
  simp only [Option.map_eq_some_iff] at hb
  obtain ⟨closedRev, hclose, rfl⟩ := hb
  -- the unigram level is the last thing the closure looks at
  have hlast : (dicts.reverse.tail).getLastD (dicts.getLastD []) = dicts.headD [] := by
    cases dicts with
    | nil => simp at hN0
    | cons d ds =>
      simp only [List.reverse_cons, List.headD_cons]
      cases hds : ds.reverse with
      | nil =>
        have : ds = [] := by simpa using hds
        subst this; simp
      | cons x xs => simp [List.getLastD_eq_getLast?]
  obtain ⟨hlen, hU, hhead⟩ := closeDown_spec V sos _ _ closedRev hclose (by rw [hlast]; exact hnd)
  have hlenN : closedRev.length = dicts.length := by
    rw [hlen]; simp only [List.length_tail, List.length_reverse]; omega
  -- levels
  obtain ⟨L1, tl, hlev⟩ : ∃ L1 tl, closedRev.reverse.map (fun d => d.map (remapItem V sos)) = L1 :: tl := by
    cases h : closedRev.reverse.map (fun d => d.map (remapItem V sos)) with
    | nil =>
      have : closedRev.length = 0 := by simpa using congrArg List.length h
      omega
    | cons a as => exact ⟨a, as, rfl⟩
  have hL1 : L1.length = V + shiftOf V sos := by
    cases hc : closedRev.reverse with
    | nil =>
      have : closedRev.length = 0 := by simpa using congrArg List.length hc
      omega
    | cons a as =>
      have h1 : closedRev = (a :: as).reverse := by rw [← hc]; simp
      have h2 : closedRev.getLastD [] = a := by rw [h1]; simp [List.getLastD_eq_getLast?]
      rw [hc] at hlev
      simp only [List.map_cons, List.cons.injEq] at hlev
      rw [← hlev.1, List.length_map, ← h2, hU]
  have htl : tl.length + 1 = dicts.length := by
    have : closedRev.length = tl.length + 1 := by simpa using congrArg List.length hlev
    omega
  -- top level = the raw top dictionary when there are at least two orders
  have hG : ((L1 :: tl).getLastD []).length =
      if dicts.length = 1 then V + shiftOf V sos else (dicts.getLastD []).length := by
    by_cases h1 : dicts.length = 1
    · rw [if_pos h1]
      have : tl = [] := List.eq_nil_of_length_eq_zero (by omega)
      subst this
      simpa using hL1
    · rw [if_neg h1]
      have hne : dicts.reverse.tail ≠ [] := by
        intro e
        have : dicts.length - 1 = 0 := by simpa using congrArg List.length e
        omega
      have hh := hhead hne
      cases hc : closedRev with
      | nil => rw [hc] at hh; simp at hh
      | cons c cs =>
        rw [hc] at hh hlev
        simp only [List.head?_cons, Option.some.injEq] at hh
        subst hh
        rw [← hlev]
        simp [List.getLastD_eq_getLast?]
  unfold assemble
  simp only [hlev, List.tail_cons]
  refine ⟨?_, trivial, hG⟩
  obtain ⟨i1, i2, i3, i4⟩ := initFill_spec V sos dicts.length (L1 :: tl)
  have hsum : ((L1 :: tl).map List.length).sum = (V + shiftOf V sos) + (tl.map List.length).sum := by
    simp [hL1]
  rw [(fillLevels_sizes _ tl _).1, (fillLevels_sizes _ tl _).2, i3, i4]
  cases htlc : tl with
  | nil =>
    -- a unigram model: no offsets, no ids
    subst htlc
    have hN1 : dicts.length = 1 := by simpa using htl.symm
    have hO : sizeO dicts.length [L1] = 0 := by unfold sizeO; simp [hN1]
    have hGL : ([L1].getLastD ([] : List Item)).length = V + shiftOf V sos := by simpa using hL1
    have hmod : 1 % dicts.length = 0 := by rw [hN1]
    simp only [fillLevels]
    unfold inferShape
    simp only
    rw [i1, hO, hGL, hmod]
    simp [hN1]
  | cons t2 trest =>
    rw [← htlc]
    have hne : tl ≠ [] := by rw [htlc]; simp
    have hN2 : 2 ≤ dicts.length := by rw [← htl, htlc]; simp
    have hmod : 1 % dicts.length = 1 := Nat.mod_eq_of_lt (by omega)
    have hGl : ((L1 :: tl).getLastD []).length = (tl.map List.length).getLastD 0 := by
      rw [getLastD_length, List.map_cons, List.getLastD_cons]
      exact getLastD_irrel _ _ _ (by simpa using hne)
    have hGpos : 0 < ((L1 :: tl).getLastD []).length := by
      rw [hG, if_neg (by omega)]
      cases hd : dicts.getLastD [] with
      | nil => rw [hd] at hTop; simp at hTop
      | cons a as => simp
    have hle := getLastD_le_sum (tl.map List.length)
    have hOv : sizeO dicts.length (L1 :: tl) + (tl.map List.length).getLastD 0 =
        (V + shiftOf V sos) + (tl.map List.length).sum + tl.length := by
      unfold sizeO; rw [hsum, hGl]; omega
    have hcore := shape_core V sos (V + shiftOf V sos + 1 % dicts.length) tl hne
      (initFill V sos dicts.length (L1 :: tl)) (sizeO dicts.length (L1 :: tl))
      (sizeO dicts.length (L1 :: tl) + ((L1 :: tl).getLastD []).length - (V + shiftOf V sos + 1 % dicts.length))
      (sizeO dicts.length (L1 :: tl) + ((L1 :: tl).getLastD []).length)
      i1 i2 hOv (by rw [hmod, hGl] at *; omega)
    rw [hcore, htl, hGl]

end PdtVerif.NgramTrie
