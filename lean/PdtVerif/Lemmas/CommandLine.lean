import PdtVerif.Spec.CommandLine
import PdtVerif.Spec.Levenshtein
/-!
# Helper lemmas for C17 (command-line tools)
-/
set_option linter.unusedSectionVars false
namespace PdtVerif.CommandLine

/-! ## File names -/
section Names
variable {α : Type} [DecidableEq α]

theorem uttOf_fileName (p s u : List α) : uttOf p s (fileName p s u) = u := by
  have h : (p ++ u ++ s).length - s.length = (p ++ u).length := by simp; omega
  unfold uttOf fileName
  rw [h, List.take_left, List.drop_left]

theorem selects_fileName (p s u : List α) : selects p s (fileName p s u) = true := by
  simp only [selects, fileName, Bool.and_eq_true, List.isPrefixOf_iff_prefix,
    List.isSuffixOf_iff_suffix]
  exact ⟨⟨u ++ s, by simp⟩, ⟨p ++ u, rfl⟩⟩

theorem stemOf_append (s x : List α) : stemOf s (x ++ s) = x := by
  simp [stemOf]

theorem fileName_injective (p s : List α) {u u' : List α}
    (h : fileName p s u = fileName p s u') : u = u' := by
  simpa [fileName] using h

theorem selects_iff (p s f : List α) :
    (selects p s f = true ∧ p.length + s.length ≤ f.length) ↔ IsFileOf p s f := by
  constructor
  · rintro ⟨h, hl⟩
    simp only [selects, Bool.and_eq_true, List.isPrefixOf_iff_prefix,
      List.isSuffixOf_iff_suffix] at h
    obtain ⟨⟨a, ha⟩, ⟨b, hb⟩⟩ := h
    have h1 : p ++ a = b ++ s := by rw [ha, hb]
    have hf : f.length = b.length + s.length := by rw [← hb]; simp
    rcases List.append_eq_append_iff.1 h1 with ⟨a', hb', ha'⟩ | ⟨c', hp, hs⟩
    · exact ⟨a', by rw [← hb, hb']⟩
    · have hc : c' = [] := by
        have := congrArg List.length hp
        simp only [List.length_append] at this
        apply List.eq_nil_of_length_eq_zero
        omega
      subst hc
      refine ⟨[], ?_⟩
      simp only [List.append_nil] at hp
      simp only [List.nil_append] at hs
      rw [← hb, hp]; simp
  · rintro ⟨u, rfl⟩
    exact ⟨selects_fileName p s u, by simp⟩

theorem fileName_uttOf (p s f : List α) (h : selects p s f = true)
    (hl : p.length + s.length ≤ f.length) : fileName p s (uttOf p s f) = f := by
  obtain ⟨u, rfl⟩ := (selects_iff p s f).1 ⟨h, hl⟩
  have := uttOf_fileName p s u
  unfold fileName at this ⊢
  rw [this]

/-- Every selected, long-enough name is rebuilt from its listed id; nothing else is listed. -/
theorem listedUtts_rebuild (p s : List α) (files : List (List α))
    (hl : ∀ f ∈ files, selects p s f = true → p.length + s.length ≤ f.length) :
    (listedUtts p s files).map (fileName p s) = files.filter (selects p s) := by
  unfold listedUtts
  rw [List.map_map]
  have : ∀ f ∈ files.filter (selects p s), (fileName p s ∘ uttOf p s) f = f := by
    intro f hf
    rw [List.mem_filter] at hf
    exact fileName_uttOf p s f hf.2 (hl f hf.1 hf.2)
  rw [List.map_congr_left this]; simp

theorem listedUtts_fileNames (p s : List α) (utts : List (List α)) :
    listedUtts p s (utts.map (fileName p s)) = utts := by
  unfold listedUtts
  rw [List.filter_eq_self.2]
  · rw [List.map_map]
    have : (uttOf p s ∘ fileName p s) = id := by
      funext u; exact uttOf_fileName p s u
    rw [this]; simp
  · intro f hf
    rw [List.mem_map] at hf
    obtain ⟨u, _, rfl⟩ := hf
    exact selects_fileName p s u

theorem listedUtts_append (p s : List α) (a b : List (List α)) :
    listedUtts p s (a ++ b) = listedUtts p s a ++ listedUtts p s b := by
  simp [listedUtts]

theorem listedUtts_junk (p s : List α) (junk : List (List α))
    (h : ∀ f ∈ junk, selects p s f = false) : listedUtts p s junk = [] := by
  unfold listedUtts
  rw [List.filter_eq_nil_iff.2]
  · rfl
  · intro f hf; simp [h f hf]

end Names

/-! ## Run-length coding -/
section Rle
variable {τ : Type} [DecidableEq τ]

theorem runs_cons (x : τ) (xs : List τ) : runs (x :: xs) =
    match runs xs with
    | [] => [(x, 1)]
    | (y, n) :: rest => if x = y then (y, n + 1) :: rest else (x, 1) :: (y, n) :: rest := by
  rfl

theorem expand_runs (l : List τ) : expand (runs l) = l := by
  induction l with
  | nil => rfl
  | cons x xs ih =>
    rw [runs_cons]
    cases h : runs xs with
    | nil =>
      rw [h] at ih
      simp only [expand] at ih ⊢
      simp [← ih]
    | cons a rest =>
      obtain ⟨y, n⟩ := a
      rw [h] at ih
      by_cases hxy : x = y
      · subst hxy
        simp only [if_true, expand] at ih ⊢
        rw [List.replicate_succ, List.cons_append, ih]
      · simp only [hxy, if_false, expand] at ih ⊢
        simp [ih]

theorem runs_canon (l : List τ) : Canon (runs l) := by
  induction l with
  | nil => trivial
  | cons x xs ih =>
    rw [runs_cons]
    cases h : runs xs with
    | nil => simp [Canon]
    | cons a rest =>
      obtain ⟨y, n⟩ := a
      rw [h] at ih
      by_cases hxy : x = y
      · subst hxy
        simp only [if_true]
        cases rest with
        | nil => simp [Canon]
        | cons r rest' =>
          obtain ⟨t', n'⟩ := r
          simp only [Canon] at ih ⊢
          exact ⟨by omega, ih.2.1, ih.2.2⟩
      · simp only [hxy, if_false, Canon]
        exact ⟨by omega, hxy, ih⟩

theorem runs_ne_nil {l : List τ} (h : l ≠ []) : runs l ≠ [] := by
  cases l with
  | nil => exact absurd rfl h
  | cons x xs =>
    rw [runs_cons]
    cases runs xs with
    | nil => simp
    | cons a rest => obtain ⟨y, n⟩ := a; by_cases hxy : x = y <;> simp [hxy]

theorem runs_replicate_cons (t : τ) (n : Nat) (rest : List τ) :
    runs (List.replicate (n + 1) t ++ rest) =
      match runs rest with
      | [] => [(t, n + 1)]
      | (y, m) :: r => if t = y then (y, m + n + 1) :: r else (t, n + 1) :: (y, m) :: r := by
  induction n with
  | zero =>
    show runs (t :: rest) = _
    rw [runs_cons]
  | succ k ih =>
    rw [List.replicate_succ, List.cons_append, runs_cons, ih]
    cases runs rest with
    | nil => simp
    | cons a r =>
      obtain ⟨y, m⟩ := a
      by_cases hty : t = y
      · subst hty; simp; omega
      · simp [hty]

theorem runs_expand {tl : List (τ × Nat)} (h : Canon tl) : runs (expand tl) = tl := by
  induction tl with
  | nil => rfl
  | cons a rest ih =>
    obtain ⟨t, n⟩ := a
    cases rest with
    | nil =>
      simp only [Canon] at h
      obtain ⟨k, rfl⟩ : ∃ k, n = k + 1 := ⟨n - 1, by omega⟩
      simp only [expand]
      rw [runs_replicate_cons]
      simp [runs]
    | cons b rest' =>
      obtain ⟨t', n'⟩ := b
      simp only [Canon] at h
      obtain ⟨hn, hne, hc⟩ := h
      obtain ⟨k, rfl⟩ : ∃ k, n = k + 1 := ⟨n - 1, by omega⟩
      have ih' := ih hc
      simp only [expand] at ih' ⊢
      rw [runs_replicate_cons, ih']
      simp [hne]

theorem runs_expand_iff (tl : List (τ × Nat)) : runs (expand tl) = tl ↔ Canon tl :=
  ⟨fun h => by rw [← h]; exact runs_canon _, runs_expand⟩

end Rle

/-! ## Segments: validation and decoding -/
section Dec
variable {τ : Type} [DecidableEq τ]

theorem tiles_iff (off : Int) (ref : List (Seg τ)) : Tiles off ref ↔
    ((∀ s, ref.head? = some s → s.start = off) ∧ contiguous ref = true ∧
      ∀ s ∈ ref, s.start ≤ s.stop) := by
  induction ref generalizing off with
  | nil => simp [Tiles, contiguous]
  | cons a rest ih =>
    cases rest with
    | nil => simp [Tiles, contiguous]
    | cons b rest' =>
      have := ih a.stop
      simp only [Tiles] at this ⊢
      simp only [contiguous, this, List.head?_cons, Option.some.injEq, forall_eq',
        Bool.and_eq_true, beq_iff_eq, List.mem_cons, forall_eq_or_imp]
      constructor
      · rintro ⟨h1, h2, h3, h4, h5, h6⟩
        exact ⟨h1, ⟨h3.symm, h4⟩, h2, h5, h6⟩
      · rintro ⟨h1, ⟨h3, h4⟩, h2, h5, h6⟩
        exact ⟨h1, h2, h3.symm, h4, h5, h6⟩

theorem tiles_nonneg {off : Int} {ref : List (Seg τ)} (h : Tiles off ref) (ho : 0 ≤ off) :
    ∀ s ∈ ref, 0 ≤ s.start ∧ 0 ≤ s.stop := by
  induction ref generalizing off with
  | nil => simp
  | cons a rest ih =>
    simp only [Tiles] at h
    obtain ⟨h1, h2, h3⟩ := h
    intro s hs
    rcases List.mem_cons.1 hs with rfl | hs
    · omega
    · exact ih h3 (by omega) s hs

theorem tiles_segsFrom (off : Int) (tl : List (τ × Nat)) : Tiles off (segsFrom off tl) := by
  induction tl generalizing off with
  | nil => trivial
  | cons a rest ih =>
    obtain ⟨t, n⟩ := a
    simp only [segsFrom, Tiles]
    exact ⟨trivial, by omega, ih _⟩

theorem lensOf_segsFrom (off : Int) (tl : List (τ × Nat)) : lensOf (segsFrom off tl) = tl := by
  induction tl generalizing off with
  | nil => rfl
  | cons a rest ih =>
    obtain ⟨t, n⟩ := a
    have := ih (off + n)
    simp only [lensOf] at this
    simp only [segsFrom, lensOf, List.map_cons, this]
    simp
    omega

theorem segsFrom_lensOf {off : Int} {ref : List (Seg τ)} (h : Tiles off ref) :
    segsFrom off (lensOf ref) = ref := by
  induction ref generalizing off with
  | nil => rfl
  | cons a rest ih =>
    simp only [Tiles] at h
    obtain ⟨h1, h2, h3⟩ := h
    have := ih h3
    simp only [lensOf] at this
    simp only [lensOf, List.map_cons, segsFrom]
    have e : off + ((a.stop - a.start).toNat : Int) = a.stop := by omega
    rw [e, this]
    cases a; simp_all

theorem segsFrom_injective (off : Int) {a b : List (τ × Nat)}
    (h : segsFrom off a = segsFrom off b) : a = b := by
  rw [← lensOf_segsFrom off a, h, lensOf_segsFrom]

theorem segsFrom_ne_nil {off : Int} {tl : List (τ × Nat)} (h : tl ≠ []) : segsFrom off tl ≠ [] := by
  cases tl with
  | nil => exact absurd rfl h
  | cons a rest => obtain ⟨t, n⟩ := a; simp [segsFrom]

theorem expand_length (tl : List (τ × Nat)) : (expand tl).length = (tl.map (·.2)).sum := by
  induction tl with
  | nil => rfl
  | cons a rest ih => obtain ⟨t, n⟩ := a; simp [expand, ih]

theorem segsFrom_getLast (off : Int) (tl : List (τ × Nat)) (h : tl ≠ []) :
    (segsFrom off tl).getLast?.map (·.stop) = some (off + ((tl.map (·.2)).sum : Nat)) := by
  induction tl generalizing off with
  | nil => exact absurd rfl h
  | cons a rest ih =>
    obtain ⟨t, n⟩ := a
    cases rest with
    | nil => simp [segsFrom]
    | cons b rest' =>
      have := ih (off + n) (by simp)
      simp only [segsFrom] at this ⊢
      rw [List.getLast?_cons_cons, this]
      simp
      omega

theorem decode_of_tiles {ref : List (Seg τ)} {T : Option Int} (hne : ref ≠ [])
    (ht : Tiles 0 ref) (hT : framesMismatch ref T = false) :
    decode true ref T = .ok (expand (lensOf ref)) := by
  have hnn := tiles_nonneg ht (Int.le_refl 0)
  obtain ⟨h1, h2, h3⟩ := (tiles_iff 0 ref).1 ht
  unfold decode
  have c1 : (!true || ref.isEmpty) = false := by
    cases ref with
    | nil => exact absurd rfl hne
    | cons _ _ => rfl
  have c2 : (ref.any fun s => decide (s.start < 0) || decide (s.stop < 0)) = false := by
    rw [List.any_eq_false]
    intro s hs
    have := hnn s hs
    simp; omega
  have c3 : (Option.map (fun x => x.start) ref.head? != some 0) = false := by
    cases ref with
    | nil => exact absurd rfl hne
    | cons s _ => simp [h1 s rfl]
  have c5 : (ref.any fun s => decide (s.stop - s.start < 0)) = false := by
    rw [List.any_eq_false]
    intro s hs
    have := h3 s hs
    simp; omega
  simp [c2, c3, h2, hT, c5, hne]

/-- The checks of `decode` pass exactly for non-empty tilings of `[0, T)`. -/
theorem decode_eq_ok_iff (ref : List (Seg τ)) (T : Option Int) (a : List τ) :
    decode true ref T = .ok a ↔
      (ref ≠ [] ∧ Tiles 0 ref ∧ framesMismatch ref T = false ∧ a = expand (lensOf ref)) := by
  constructor
  · intro h
    unfold decode at h
    split at h
    · cases h
    rename_i c1
    split at h
    · cases h
    rename_i c2
    split at h
    · cases h
    rename_i c3
    split at h
    · cases h
    rename_i c4
    split at h
    · cases h
    rename_i c5
    split at h
    · cases h
    rename_i c6
    have hne : ref ≠ [] := by
      intro e; subst e; simp at c1
    refine ⟨hne, ?_, by simpa using c5, by cases h; rfl⟩
    rw [tiles_iff]
    refine ⟨?_, by simpa using c4, ?_⟩
    · intro s hs
      rw [hs] at c3
      simpa using c3
    · intro s hs
      have := c6
      simp only [Bool.not_eq_true, List.any_eq_false] at this
      have := this s hs
      simp at this; omega
  · rintro ⟨hne, ht, hT, rfl⟩
    exact decode_of_tiles hne ht hT

theorem canon_lensOf (ref : List (Seg τ)) : Canon (lensOf ref) ↔ SegCanon ref := by
  induction ref with
  | nil => simp [lensOf, Canon, SegCanon]
  | cons a rest ih =>
    cases rest with
    | nil =>
      simp only [lensOf, List.map_cons, List.map_nil, Canon, SegCanon]
      omega
    | cons b rest' =>
      simp only [lensOf, List.map_cons, Canon, SegCanon] at ih ⊢
      rw [ih]
      constructor
      · rintro ⟨h1, h2, h3⟩; exact ⟨by omega, h2, h3⟩
      · rintro ⟨h1, h2, h3⟩; exact ⟨by omega, h2, h3⟩

theorem encode_decode_iff {ref : List (Seg τ)} {T : Option Int} {ali : List τ}
    (h : decode true ref T = .ok ali) : encode ali = ref ↔ SegCanon ref := by
  obtain ⟨_, ht, _, rfl⟩ := (decode_eq_ok_iff ref T ali).1 h
  rw [← canon_lensOf, ← runs_expand_iff]
  unfold encode
  constructor
  · intro e
    have e2 : segsFrom 0 (runs (expand (lensOf ref))) = segsFrom 0 (lensOf ref) := by
      rw [e, segsFrom_lensOf ht]
    exact segsFrom_injective 0 e2
  · intro e
    rw [e, segsFrom_lensOf ht]

theorem decode_encode (ali : List τ) (h : ali ≠ []) :
    decode true (encode ali) none = .ok ali ∧
      decode true (encode ali) (some (ali.length : Int)) = .ok ali := by
  have hne : encode ali ≠ [] := segsFrom_ne_nil (runs_ne_nil h)
  have ht : Tiles 0 (encode ali) := tiles_segsFrom 0 _
  have hx : expand (lensOf (encode ali)) = ali := by
    unfold encode; rw [lensOf_segsFrom, expand_runs]
  constructor
  · rw [decode_of_tiles hne ht rfl, hx]
  · have hT : framesMismatch (encode ali) (some (ali.length : Int)) = false := by
      unfold framesMismatch encode
      rw [segsFrom_getLast 0 _ (runs_ne_nil h), ← expand_length, expand_runs]
      simp
    rw [decode_of_tiles hne ht hT, hx]

end Dec

/-! ## Output directories, pooled moments -/

section Pool
variable {κ ν : Type} [DecidableEq κ]

theorem foldl_perm {β γ : Type} (f : β → γ → β) (hf : ∀ b x y, f (f b x) y = f (f b y) x)
    {l₁ l₂ : List γ} (h : l₁.Perm l₂) : ∀ b, l₁.foldl f b = l₂.foldl f b := by
  induction h with
  | nil => intro b; rfl
  | cons x _ ih => intro b; exact ih (f b x)
  | swap x y l => intro b; simp only [List.foldl_cons]; rw [hf]
  | trans _ _ ih₁ ih₂ => intro b; rw [ih₁, ih₂]

theorem lookup_cons' (k a : κ) (b : ν) (es : List (κ × ν)) :
    List.lookup k ((a, b) :: es) = if k = a then some b else List.lookup k es := by
  rw [List.lookup_cons]
  by_cases h : k = a
  · subst h; simp
  · have : (k == a) = false := by simp [h]
    simp [this, h]

theorem lookup_filter_ne (d : Dir κ ν) (k k' : κ) :
    (d.filter (fun e => !(e.1 == k))).lookup k' = if k' = k then none else d.lookup k' := by
  induction d with
  | nil => simp
  | cons e rest ih =>
    obtain ⟨a, b⟩ := e
    by_cases hak : a = k
    · subst hak
      simp only [List.filter_cons, beq_self_eq_true, Bool.not_true, Bool.false_eq_true, if_false, ih]
      rw [lookup_cons']
      by_cases hk : k' = a <;> simp [hk]
    · have : (!(a == k)) = true := by simp [hak]
      simp only [List.filter_cons, this, if_true, lookup_cons', ih]
      by_cases hk : k' = k
      · subst hk
        have : ¬ k' = a := fun h => hak h.symm
        simp [this]
      · simp [hk]

theorem get_write (d : Dir κ ν) (k k' : κ) (v : ν) :
    (d.write k v).get k' = if k' = k then some v else d.get k' := by
  unfold Dir.write Dir.get
  rw [lookup_cons', lookup_filter_ne]
  by_cases hk : k' = k <;> simp [hk]

theorem lookup_eq_some_iff (l : List (κ × ν)) (hn : (l.map (·.1)).Nodup) (k : κ) (v : ν) :
    l.lookup k = some v ↔ (k, v) ∈ l := by
  induction l with
  | nil => simp
  | cons e rest ih =>
    obtain ⟨a, b⟩ := e
    simp only [List.map_cons, List.nodup_cons] at hn
    rw [lookup_cons']
    by_cases hk : k = a
    · subst hk
      simp only [if_true, Option.some.injEq, List.mem_cons, Prod.mk.injEq, true_and]
      constructor
      · intro h; exact Or.inl h.symm
      · rintro (h | h)
        · exact h.symm
        · exact absurd (List.mem_map.2 ⟨(k, v), h, rfl⟩) hn.1
    · simp only [hk, if_false, ih hn.2, List.mem_cons, Prod.mk.injEq]
      constructor
      · exact Or.inr
      · rintro (h | h)
        · exact absurd h.1 (by simp)
        · exact h

theorem get_writeAll (d : Dir κ ν) (kvs : List (κ × ν)) (hn : (kvs.map (·.1)).Nodup) (k : κ) :
    (d.writeAll kvs).get k = match kvs.lookup k with
      | some v => some v
      | none => d.get k := by
  induction kvs generalizing d with
  | nil => rfl
  | cons kv rest ih =>
    obtain ⟨k0, v0⟩ := kv
    simp only [List.map_cons, List.nodup_cons] at hn
    have := ih (d.write k0 v0) hn.2
    unfold Dir.writeAll at this ⊢
    rw [List.foldl_cons, this, lookup_cons', get_write]
    by_cases hk : k = k0
    · subst hk
      have : rest.lookup k = none := by
        cases hl : rest.lookup k with
        | none => rfl
        | some v =>
          exfalso
          apply hn.1
          have := (lookup_eq_some_iff rest hn.2 k v).1 hl
          exact List.mem_map.2 ⟨(k, v), this, rfl⟩
      simp [this]
    · simp [hk]

theorem lookup_perm {l₁ l₂ : List (κ × ν)} (h : l₁.Perm l₂) (hn : (l₁.map (·.1)).Nodup) (k : κ) :
    l₁.lookup k = l₂.lookup k := by
  have hn2 : (l₂.map (·.1)).Nodup := (h.map _).nodup_iff.1 hn
  apply Option.ext
  intro v
  rw [lookup_eq_some_iff l₁ hn, lookup_eq_some_iff l₂ hn2]
  exact h.mem_iff

end Pool

section Moments

theorem Mom.add_right_comm (b x y : Mom) : (b.add x).add y = (b.add y).add x := by
  simp only [Mom.add, Mom.mk.injEq]
  refine ⟨by omega, by omega, by omega⟩

theorem momOf_append (a b : List Int) : momOf (a ++ b) = (momOf a).add (momOf b) := by
  simp [momOf, Mom.add, List.sum_append]

theorem foldl_add_momOf (m : Mom) (ls : List (List Int)) :
    (ls.map momOf).foldl Mom.add m = m.add (momOf ls.flatten) := by
  induction ls generalizing m with
  | nil => simp [momOf, Mom.add]
  | cons l rest ih =>
    simp only [List.map_cons, List.foldl_cons, List.flatten_cons, ih, momOf_append]
    simp only [Mom.add, Mom.mk.injEq]
    refine ⟨by omega, by omega, by omega⟩

end Moments

/-! ## Subset orderings -/
section Subset
variable {υ : Type}

/-- The first `n` of a list sorted by a total preorder are "`n` first elements". -/
theorem isFirstN_take_mergeSort (le : υ → υ → Bool)
    (htrans : ∀ a b c, le a b = true → le b c = true → le a c = true)
    (htotal : ∀ a b, (le a b || le b a) = true) (n : Nat) (l : List υ) :
    IsFirstN le n l ((l.mergeSort le).take n) := by
  have hp := List.mergeSort_perm l le
  have hs := List.pairwise_mergeSort htrans htotal l
  refine ⟨?_, ⟨(l.mergeSort le).drop n, ?_, ?_⟩, ?_⟩
  · rw [List.length_take, hp.length_eq]
  · rw [List.take_append_drop]; exact hp
  · intro x hx y hy
    have := hs
    rw [← List.take_append_drop n (l.mergeSort le), List.pairwise_append] at this
    exact this.2.2 x hx y hy
  · exact hs.sublist (List.take_sublist _ _)

theorem leShort_trans (le : υ → υ → Bool)
    (htrans : ∀ a b c, le a b = true → le b c = true → le a c = true)
    (a b c : Nat × υ) (h1 : leShort le a b = true) (h2 : leShort le b c = true) :
    leShort le a c = true := by
  simp only [leShort, Bool.or_eq_true, decide_eq_true_eq, Bool.and_eq_true, beq_iff_eq] at *
  rcases h1 with h1 | ⟨h1, h1'⟩ <;> rcases h2 with h2 | ⟨h2, h2'⟩
  · left; omega
  · left; omega
  · left; omega
  · right; exact ⟨by omega, htrans _ _ _ h1' h2'⟩

theorem leShort_total (le : υ → υ → Bool) (htotal : ∀ a b, (le a b || le b a) = true)
    (a b : Nat × υ) : (leShort le a b || leShort le b a) = true := by
  have := htotal a.2 b.2
  simp only [leShort, Bool.or_eq_true, decide_eq_true_eq, Bool.and_eq_true, beq_iff_eq] at *
  rcases Nat.lt_trichotomy a.1 b.1 with h | h | h
  · left; left; exact h
  · rcases this with t | t
    · left; right; exact ⟨h, t⟩
    · right; right; exact ⟨h.symm, t⟩
  · right; left; exact h

theorem leLong_trans (le : υ → υ → Bool)
    (htrans : ∀ a b c, le a b = true → le b c = true → le a c = true)
    (a b c : Nat × υ) (h1 : leLong le a b = true) (h2 : leLong le b c = true) :
    leLong le a c = true := by
  simp only [leLong, Bool.or_eq_true, decide_eq_true_eq, Bool.and_eq_true, beq_iff_eq] at *
  rcases h1 with h1 | ⟨h1, h1'⟩ <;> rcases h2 with h2 | ⟨h2, h2'⟩
  · left; omega
  · left; omega
  · left; omega
  · right; exact ⟨by omega, htrans _ _ _ h1' h2'⟩

theorem leLong_total (le : υ → υ → Bool) (htotal : ∀ a b, (le a b || le b a) = true)
    (a b : Nat × υ) : (leLong le a b || leLong le b a) = true := by
  have := htotal a.2 b.2
  simp only [leLong, Bool.or_eq_true, decide_eq_true_eq, Bool.and_eq_true, beq_iff_eq] at *
  rcases Nat.lt_trichotomy a.1 b.1 with h | h | h
  · right; left; exact h
  · rcases this with t | t
    · left; right; exact ⟨h, t⟩
    · right; right; exact ⟨h.symm, t⟩
  · left; left; exact h

end Subset

/-! ## Error-rate accumulation -/
section Er
variable {τ υ : Type} [DecidableEq τ]

theorem prep_eq (rep : List (τ × τ)) (ign tr : List τ) :
    prep rep ign tr = (tr.map (replaceTok rep)).filter (fun t => !ign.contains t) := by
  induction tr with
  | nil => rfl
  | cons t ts ih =>
    unfold prep at ih ⊢
    rw [List.filterMap_cons, List.map_cons, List.filter_cons, ih]
    by_cases h : ign.contains (replaceTok rep t) = true
    · simp only [h, if_true, Bool.not_true, Bool.false_eq_true, if_false]
    · simp only [h, if_false, Bool.not_eq_true] at *
      simp [h]

theorem idxOf_of_prefix {st st' : List τ} (h : st <+: st') {t : τ} (ht : t ∈ st) :
    st'.idxOf t = st.idxOf t := by
  obtain ⟨r, rfl⟩ := h
  rw [List.idxOf_append, if_pos ht]

theorem idxOf_inj_of_mem {st : List τ} {a b : τ} (ha : a ∈ st) (h : st.idxOf a = st.idxOf b) :
    a = b := by
  have hlt : st.idxOf a < st.length := List.idxOf_lt_length_iff.2 ha
  have hb : b ∈ st := List.idxOf_lt_length_iff.1 (h ▸ hlt)
  have e1 := List.getElem_idxOf hlt
  have hlt2 : st.idxOf b < st.length := List.idxOf_lt_length_iff.2 hb
  have e2 := List.getElem_idxOf hlt2
  rw [← e1, ← e2]
  simp [h]

theorem internTok_spec (st : List τ) (t : τ) (hn : st.Nodup) :
    (internTok st t).2.Nodup ∧ st <+: (internTok st t).2 ∧ t ∈ (internTok st t).2 ∧
      (internTok st t).1 = (internTok st t).2.idxOf t := by
  unfold internTok
  by_cases h : st.contains t = true
  · simp only [h, if_true]
    exact ⟨hn, List.prefix_refl _, by simpa using h, trivial⟩
  · have hm : t ∉ st := by simpa using h
    simp only [h, Bool.false_eq_true, if_false]
    refine ⟨?_, List.prefix_append _ _, by simp, ?_⟩
    · rw [List.nodup_append]
      refine ⟨hn, by simp, ?_⟩
      intro a ha b hb
      simp at hb; subst hb
      intro e; subst e; exact hm ha
    · rw [List.idxOf_append, if_neg hm]; simp

theorem internSeq_spec (st : List τ) (l : List τ) (hn : st.Nodup) :
    (internSeq st l).2.Nodup ∧ st <+: (internSeq st l).2 ∧ (∀ t ∈ l, t ∈ (internSeq st l).2) ∧
      (internSeq st l).1 = l.map (fun t => (internSeq st l).2.idxOf t) := by
  induction l generalizing st with
  | nil => exact ⟨hn, List.prefix_refl _, by simp, rfl⟩
  | cons t ts ih =>
    obtain ⟨h1, h2, h3, h4⟩ := internTok_spec st t hn
    obtain ⟨g1, g2, g3, g4⟩ := ih (internTok st t).2 h1
    simp only [internSeq]
    refine ⟨g1, h2.trans g2, ?_, ?_⟩
    · intro a ha
      rcases List.mem_cons.1 ha with rfl | ha
      · exact g2.subset h3
      · exact g3 a ha
    · simp only [List.map_cons]
      rw [← g4, h4, idxOf_of_prefix g2 h3]

theorem internMany_spec (st : List τ) (ls : List (List τ)) (hn : st.Nodup) :
    (internMany st ls).2.Nodup ∧ st <+: (internMany st ls).2 ∧
      (∀ l ∈ ls, ∀ t ∈ l, t ∈ (internMany st ls).2) ∧
      (internMany st ls).1 = ls.map (fun l => l.map (fun t => (internMany st ls).2.idxOf t)) := by
  induction ls generalizing st with
  | nil => exact ⟨hn, List.prefix_refl _, by simp, rfl⟩
  | cons l rest ih =>
    obtain ⟨h1, h2, h3, h4⟩ := internSeq_spec st l hn
    obtain ⟨g1, g2, g3, g4⟩ := ih (internSeq st l).2 h1
    simp only [internMany]
    refine ⟨g1, h2.trans g2, ?_, ?_⟩
    · intro a ha t ht
      rcases List.mem_cons.1 ha with rfl | ha
      · exact g2.subset (h3 t ht)
      · exact g3 a ha t ht
    · simp only [List.map_cons]
      rw [← g4, h4]
      congr 1
      apply List.map_congr_left
      intro t ht
      exact (idxOf_of_prefix g2 (h3 t ht)).symm

/-- The rows the loop body works with, had it used the tokens themselves. -/
def rowsOf (er' : List τ → List τ → Nat) (batch : List (Pair υ τ)) : List (υ × Nat × Nat) :=
  batch.map (fun b => (b.1, b.2.1.length, er' b.2.1 b.2.2))

def stepAcc (divide : Bool) (a : Acc υ) (r : υ × Nat × Nat) : Acc υ :=
  { perUtt := a.perUtt ++ [(r.1, if divide then (r.2.2 : Rat) / (r.2.1 : Rat) else (r.2.2 : Rat))],
    tot := a.tot + r.2.2, refTokens := a.refTokens + r.2.1,
    zdiv := a.zdiv || (divide && r.2.1 == 0) }

theorem zip_map_map {β γ δ : Type} (l : List β) (g1 : β → γ) (g2 : β → δ) :
    l.zip ((l.map g1).zip (l.map g2)) = l.map (fun b => (b, g1 b, g2 b)) := by
  induction l with
  | nil => rfl
  | cons a rest ih => simp [ih]

theorem accBatch_eq (er : List Nat → List Nat → Nat) (er' : List τ → List τ → Nat)
    (hrel : Relabels er er') (divide : Bool) (acc : Acc υ) (table : List τ) (hn : table.Nodup)
    (batch : List (Pair υ τ)) :
    ∃ t2 : List τ, t2.Nodup ∧
      accBatch er divide (acc, table) batch = ((rowsOf er' batch).foldl (stepAcc divide) acc, t2) := by
  obtain ⟨r1, r2, r3, r4⟩ := internMany_spec table (batch.map (·.2.1)) hn
  obtain ⟨h1, h2, h3, h4⟩ := internMany_spec (internMany table (batch.map (·.2.1))).2
    (batch.map (·.2.2)) r1
  refine ⟨_, h1, ?_⟩
  have e1 : (internMany table (batch.map (·.2.1))).1 = batch.map (fun b => b.2.1.map
      (fun t => (internMany (internMany table (batch.map (·.2.1))).2 (batch.map (·.2.2))).2.idxOf t)) := by
    rw [r4, List.map_map]
    apply List.map_congr_left
    intro b hb
    apply List.map_congr_left
    intro t ht
    exact (idxOf_of_prefix h2 (r3 _ (List.mem_map_of_mem hb) t ht)).symm
  have e2 : (internMany (internMany table (batch.map (·.2.1))).2 (batch.map (·.2.2))).1 =
      batch.map (fun b => b.2.2.map
      (fun t => (internMany (internMany table (batch.map (·.2.1))).2 (batch.map (·.2.2))).2.idxOf t)) := by
    rw [h4, List.map_map]; rfl
  unfold accBatch
  simp only []
  rw [e1, e2, zip_map_map, List.map_map]
  congr 1
  have : ∀ b ∈ batch, ((fun (x : Pair υ τ × List Nat × List Nat) =>
        (x.1.1, x.2.1.length, er x.2.1 x.2.2)) ∘ fun b => (b, b.2.1.map
      (fun t => (internMany (internMany table (batch.map (·.2.1))).2 (batch.map (·.2.2))).2.idxOf t),
        b.2.2.map (fun t => (internMany (internMany table (batch.map (·.2.1))).2
          (batch.map (·.2.2))).2.idxOf t))) b = (b.1, b.2.1.length, er' b.2.1 b.2.2) := by
    intro b hb
    simp only [Function.comp, List.length_map]
    rw [hrel]
    intro x hx y hy hxy
    apply idxOf_inj_of_mem _ hxy
    rcases List.mem_append.1 hx with hx | hx
    · exact h2.subset (r3 _ (List.mem_map_of_mem hb) x hx)
    · exact h3 _ (List.mem_map_of_mem hb) x hx
  rw [List.map_congr_left this]
  rfl

theorem chunks_flatten {β : Type} (n : Nat) (hn : 1 ≤ n) (fuel : Nat) (l : List β)
    (hf : l.length ≤ fuel) : (chunks n fuel l).flatten = l := by
  induction fuel generalizing l with
  | zero =>
    have : l = [] := List.eq_nil_of_length_eq_zero (by omega)
    subst this; rfl
  | succ f ih =>
    unfold chunks
    cases l with
    | nil => rfl
    | cons a rest =>
      simp only [List.isEmpty_cons, Bool.false_eq_true, if_false, List.flatten_cons]
      have hd : ((a :: rest).drop n).length ≤ f := by
        rw [List.length_drop]
        simp only [List.length_cons] at hf ⊢
        omega
      rw [ih _ hd, List.take_append_drop]

theorem rowsOf_append (er' : List τ → List τ → Nat) (a b : List (Pair υ τ)) :
    rowsOf er' (a ++ b) = rowsOf er' a ++ rowsOf er' b := by
  simp [rowsOf]

theorem foldl_accBatch (er : List Nat → List Nat → Nat) (er' : List τ → List τ → Nat)
    (hrel : Relabels er er') (divide : Bool) (cs : List (List (Pair υ τ))) (acc : Acc υ)
    (table : List τ) (hn : table.Nodup) :
    (cs.foldl (accBatch er divide) (acc, table)).1 =
      (rowsOf er' cs.flatten).foldl (stepAcc divide) acc := by
  induction cs generalizing acc table with
  | nil => rfl
  | cons c rest ih =>
    obtain ⟨t2, ht2, e⟩ := accBatch_eq er er' hrel divide acc table hn c
    rw [List.foldl_cons, e, ih _ _ ht2, List.flatten_cons, rowsOf_append, List.foldl_append]

theorem foldl_stepAcc (divide : Bool) (rows : List (υ × Nat × Nat)) (a : Acc υ) :
    rows.foldl (stepAcc divide) a =
      { perUtt := a.perUtt ++ rows.map (fun r =>
          (r.1, if divide then (r.2.2 : Rat) / (r.2.1 : Rat) else (r.2.2 : Rat))),
        tot := a.tot + (rows.map (·.2.2)).sum,
        refTokens := a.refTokens + (rows.map (·.2.1)).sum,
        zdiv := a.zdiv || (divide && rows.any (fun r => r.2.1 == 0)) } := by
  induction rows generalizing a with
  | nil => cases a; simp
  | cons r rest ih =>
    rw [List.foldl_cons, ih]
    simp only [stepAcc, List.map_cons, List.sum_cons, List.any_cons, List.append_assoc,
      List.singleton_append, Acc.mk.injEq, true_and]
    refine ⟨by omega, by omega, ?_⟩
    cases a.zdiv <;> cases divide <;> simp

/-- Closed form of the accumulators after the whole loop, whatever the batch size. -/
theorem accAll_eq (er : List Nat → List Nat → Nat) (er' : List τ → List τ → Nat)
    (hrel : Relabels er er') (divide : Bool) (batchSize : Nat) (hb : 1 ≤ batchSize)
    (pairs : List (Pair υ τ)) :
    accAll er divide batchSize pairs =
      { perUtt := pairs.map (fun p => (p.1, if divide then (er' p.2.1 p.2.2 : Rat) / (p.2.1.length : Rat)
          else (er' p.2.1 p.2.2 : Rat))),
        tot := totalEdits er' pairs, refTokens := totalRef pairs,
        zdiv := divide && pairs.any (fun p => p.2.1.length == 0) } := by
  unfold accAll
  rw [foldl_accBatch er er' hrel divide _ _ _ List.nodup_nil,
    chunks_flatten batchSize hb _ _ (Nat.le_refl _), foldl_stepAcc]
  simp only [rowsOf, List.map_map, List.nil_append, Nat.zero_add, Bool.false_or, List.any_map,
    totalEdits, totalRef, Acc.mk.injEq]
  exact ⟨rfl, rfl, rfl, rfl⟩

end Er

/-! ## The Levenshtein recursion only compares tokens -/
section LevRelabel
open PdtVerif.Lev

theorem lev_map_injOn {τ : Type} [DecidableEq τ] (c : Costs) (f : τ → Nat) (r h : List τ)
    (hinj : ∀ a ∈ r ++ h, ∀ b ∈ r ++ h, f a = f b → a = b) :
    lev c (r.map f) (h.map f) = lev c r h := by
  induction r generalizing h with
  | nil => simp [lev]
  | cons x xs ihx =>
    induction h with
    | nil => simp [lev]
    | cons y ys ihy =>
      simp only [List.map_cons, lev]
      have hxy : subCost c (f x) (f y) = subCost c x y := by
        unfold subCost
        by_cases e : x = y
        · simp [e]
        · have : f x ≠ f y := fun e' => e (hinj x (by simp) y (by simp) e')
          simp [e, this]
      have h1 := ihx (y :: ys) (fun a ha b hb => hinj a (by
        rcases List.mem_append.1 ha with h | h
        · exact List.mem_append.2 (Or.inl (List.mem_cons_of_mem _ h))
        · exact List.mem_append.2 (Or.inr h)) b (by
        rcases List.mem_append.1 hb with h | h
        · exact List.mem_append.2 (Or.inl (List.mem_cons_of_mem _ h))
        · exact List.mem_append.2 (Or.inr h)))
      have h2 := ihy (fun a ha b hb => hinj a (by
        rcases List.mem_append.1 ha with h | h
        · exact List.mem_append.2 (Or.inl h)
        · exact List.mem_append.2 (Or.inr (List.mem_cons_of_mem _ h))) b (by
        rcases List.mem_append.1 hb with h | h
        · exact List.mem_append.2 (Or.inl h)
        · exact List.mem_append.2 (Or.inr (List.mem_cons_of_mem _ h))))
      have h3 := ihx ys (fun a ha b hb => hinj a (by
        rcases List.mem_append.1 ha with h | h
        · exact List.mem_append.2 (Or.inl (List.mem_cons_of_mem _ h))
        · exact List.mem_append.2 (Or.inr (List.mem_cons_of_mem _ h))) b (by
        rcases List.mem_append.1 hb with h | h
        · exact List.mem_append.2 (Or.inl (List.mem_cons_of_mem _ h))
        · exact List.mem_append.2 (Or.inr (List.mem_cons_of_mem _ h))))
      simp only [List.map_cons] at h1 h2
      rw [h1, h2, h3, hxy]

end LevRelabel

/-! ## trn -> token dir -> trn at command level -/
section Trn
variable {α τ : Type} [DecidableEq α] [DecidableEq τ]

theorem optAll_map_some {β γ : Type} (l : List β) (f : β → Option γ) (g : β → γ)
    (h : ∀ x ∈ l, f x = some (g x)) : optAll (l.map f) = some (l.map g) := by
  induction l with
  | nil => rfl
  | cons a rest ih =>
    simp only [List.map_cons]
    rw [h a (by simp)]
    simp only [optAll]
    rw [ih (fun x hx => h x (List.mem_cons_of_mem _ hx))]
    rfl

theorem writeAll_eq_reverse {κ ν : Type} [DecidableEq κ] (d : Dir κ ν) (kvs : List (κ × ν))
    (hn : (kvs.map (·.1)).Nodup) (hd : ∀ e ∈ kvs, ∀ e' ∈ d, e'.1 ≠ e.1) :
    d.writeAll kvs = kvs.reverse ++ d := by
  induction kvs generalizing d with
  | nil => rfl
  | cons kv rest ih =>
    obtain ⟨k, v⟩ := kv
    simp only [List.map_cons, List.nodup_cons] at hn
    have hw : d.write k v = (k, v) :: d := by
      unfold Dir.write
      rw [List.filter_eq_self.2]
      intro e he
      have := hd (k, v) (by simp) e he
      simp [this]
    unfold Dir.writeAll at ih ⊢
    rw [List.foldl_cons, hw, ih _ hn.2]
    · simp
    · intro e he e' he'
      rcases List.mem_cons.1 he' with rfl | he'
      · intro heq
        apply hn.1
        exact List.mem_map.2 ⟨e, he, heq.symm⟩
      · exact hd e (List.mem_cons_of_mem _ he) e' he'

/-- The id the table gives to a token. -/
def idf (t2i : List (τ × Int)) (t : τ) : Int := (t2i.reverse.lookup t).getD 0

theorem tokenId_of_mem (t2i : List (τ × Int)) (t : τ) (h : t ∈ t2i.map (·.1)) :
    tokenId t2i none t = some (idf t2i t) := by
  unfold tokenId idf
  cases hl : t2i.reverse.lookup t with
  | some i => rfl
  | none =>
    exfalso
    rw [List.lookup_eq_none_iff] at hl
    obtain ⟨e, he, rfl⟩ := List.mem_map.1 h
    have := hl e (List.mem_reverse.2 he)
    simp at this

theorem idToken_idf (t2i : List (τ × Int)) (hk : (t2i.map (·.1)).Nodup) (hv : (t2i.map (·.2)).Nodup)
    (t : τ) (h : t ∈ t2i.map (·.1)) :
    idToken (t2i.map (fun e => (e.2, e.1))) (idf t2i t) = some t := by
  obtain ⟨e, he, rfl⟩ := List.mem_map.1 h
  obtain ⟨t, i⟩ := e
  have hkr : (t2i.reverse.map (·.1)).Nodup := by
    rw [List.map_reverse]; exact (List.reverse_perm _).nodup_iff.2 hk
  have h1 : t2i.reverse.lookup t = some i :=
    (lookup_eq_some_iff _ hkr t i).2 (List.mem_reverse.2 he)
  unfold idToken idf
  simp only [h1, Option.getD_some]
  have hvr : (((t2i.map (fun e => (e.2, e.1))).reverse).map (·.1)).Nodup := by
    rw [List.map_reverse, List.map_map]
    exact (List.reverse_perm _).nodup_iff.2 hv
  apply (lookup_eq_some_iff _ hvr i t).2
  rw [List.mem_reverse, List.mem_map]
  exact ⟨(t, i), he, rfl⟩

/-- The transcript a corpus gives for an utterance. -/
def trOf (corpus : List (List α × List τ)) (u : List α) : List τ := (Dir.get corpus u).getD []

theorem trOf_mem (corpus : List (List α × List τ)) (hn : (corpus.map (·.1)).Nodup)
    (e : List α × List τ) (he : e ∈ corpus) : trOf corpus e.1 = e.2 := by
  unfold trOf Dir.get
  rw [(lookup_eq_some_iff corpus hn e.1 e.2).2 he]
  rfl

theorem trn_roundtrip (le : List α → List α → Bool)
    (htrans : ∀ a b c, le a b = true → le b c = true → le a c = true)
    (htotal : ∀ a b, (le a b || le b a) = true)
    (p s : List α) (t2i : List (τ × Int))
    (hk : (t2i.map (·.1)).Nodup) (hv : (t2i.map (·.2)).Nodup)
    (corpus delivered : List (List α × List τ)) (hperm : delivered.Perm corpus)
    (hutts : (corpus.map (·.1)).Nodup)
    (hvocab : ∀ e ∈ corpus, ∀ t ∈ e.2, t ∈ t2i.map (·.1)) :
    ∃ d out, trnToDir p s t2i none delivered = some d ∧
      dirToTrn le p s (t2i.map (fun e => (e.2, e.1))) d = some out ∧
      out.Perm corpus ∧ (out.map (·.1)).Pairwise (fun a b => le a b = true) := by
  have hdn : (delivered.map (·.1)).Nodup := (hperm.map _).nodup_iff.2 hutts
  -- step 1: the directory written
  let kvs : List (List α × List Int) :=
    delivered.map (fun ut => (fileName p s ut.1, ut.2.map (idf t2i)))
  have hkeys : kvs.map (·.1) = (delivered.map (·.1)).map (fileName p s) := by
    simp [kvs, List.map_map, Function.comp_def]
  have hkn : (kvs.map (·.1)).Nodup := by
    rw [hkeys]
    exact List.pairwise_map.2 (hdn.imp (fun hne e => hne (fileName_injective p s e)))
  have h1 : trnToDir p s t2i none delivered = some kvs.reverse := by
    unfold trnToDir
    rw [optAll_map_some delivered _ (fun ut => (fileName p s ut.1, ut.2.map (idf t2i)))]
    · simp only [Option.map_some]
      rw [writeAll_eq_reverse [] _ hkn (by simp)]
      simp [kvs]
    · intro ut hut
      rw [optAll_map_some ut.2 _ (idf t2i)]
      · rfl
      · intro t ht
        exact tokenId_of_mem t2i t (hvocab ut (hperm.mem_iff.1 hut) t ht)
  refine ⟨kvs.reverse, ((delivered.reverse.map (·.1)).mergeSort (fun a b => le a b)).map
    (fun u => (u, trOf corpus u)), h1, ?_⟩
  -- step 2: reading back
  have hlist : listedUtts p s (kvs.reverse.map (·.1)) = delivered.reverse.map (·.1) := by
    rw [List.map_reverse, hkeys, ← List.map_reverse, listedUtts_fileNames, List.map_reverse]
  have hsorted_perm : ((delivered.reverse.map (·.1)).mergeSort (fun a b => le a b)).Perm
      (corpus.map (·.1)) :=
    (List.mergeSort_perm _ _).trans (((List.reverse_perm delivered).trans hperm).map _)
  have hget : ∀ u ∈ (delivered.reverse.map (·.1)).mergeSort (fun a b => le a b),
      ((Dir.get kvs.reverse (fileName p s u)).bind (fun ids =>
        (optAll (ids.map (idToken (t2i.map (fun e => (e.2, e.1)))))).map (fun tr => (u, tr))))
      = some (u, trOf corpus u) := by
    intro u hu
    have hu' : u ∈ corpus.map (·.1) := hsorted_perm.mem_iff.1 hu
    obtain ⟨e, he, rfl⟩ := List.mem_map.1 hu'
    have hed : e ∈ delivered := hperm.mem_iff.2 he
    have hkr : (kvs.reverse.map (·.1)).Nodup := by
      rw [List.map_reverse]; exact (List.reverse_perm _).nodup_iff.2 hkn
    have hg : Dir.get kvs.reverse (fileName p s e.1) = some (e.2.map (idf t2i)) := by
      unfold Dir.get
      apply (lookup_eq_some_iff _ hkr _ _).2
      rw [List.mem_reverse]
      exact List.mem_map.2 ⟨e, hed, rfl⟩
    rw [hg, Option.bind_some, List.map_map]
    rw [optAll_map_some e.2 _ id]
    · simp [trOf_mem corpus hutts e he]
    · intro t ht
      exact idToken_idf t2i hk hv t (hvocab e he t ht)
  unfold dirToTrn
  simp only []
  rw [hlist, optAll_map_some _ _ (fun u => (u, trOf corpus u)) hget]
  refine ⟨rfl, ?_, ?_⟩
  · have := hsorted_perm.map (fun u => (u, trOf corpus u))
    refine this.trans ?_
    rw [List.map_map]
    have : ∀ e ∈ corpus, ((fun u => (u, trOf corpus u)) ∘ fun (x : List α × List τ) => x.1) e = e := by
      intro e he
      simp only [Function.comp, trOf_mem corpus hutts e he]
    rw [List.map_congr_left this, List.map_id']
  · rw [List.map_map]
    have : ((fun (x : List α × List τ) => x.1) ∘ fun u => (u, trOf corpus u)) = id := rfl
    rw [this, List.map_id]
    exact List.pairwise_mergeSort htrans htotal _

end Trn

/-! ## The missing-utterance merge -/

/-- Nothing missing: the merge pairs the two directories position by position, with or
without `--warn-missing`. -/
theorem alignPairs_same {υ β : Type} (lt : υ → υ → Bool) (hirr : ∀ a, lt a a = false) (warn : Bool)
    (refs hyps : List (υ × β)) (h : refs.map (·.1) = hyps.map (·.1)) (fuel : Nat)
    (hf : refs.length + 1 ≤ fuel) :
    alignPairs lt warn fuel refs hyps =
      some (List.zipWith (fun r h => (r.1, r.2, h.2)) refs hyps) := by
  induction refs generalizing hyps fuel with
  | nil =>
    cases hyps with
    | nil => cases fuel <;> simp [alignPairs] at hf ⊢
    | cons _ _ => simp at h
  | cons r rs ih =>
    cases hyps with
    | nil => simp at h
    | cons y ys =>
      simp only [List.map_cons, List.cons.injEq] at h
      obtain ⟨k, rfl⟩ : ∃ k, fuel = k + 1 := ⟨fuel - 1, by simp at hf; omega⟩
      simp only [alignPairs]
      rw [← h.1, hirr r.1]
      simp only [Bool.false_eq_true, if_false]
      rw [ih ys h.2 k (by simp at hf; omega)]
      simp [h.1]

/-- An utterance present on one side only, without `--warn-missing`: `ValueError`. -/
theorem alignPairs_missing_raises {υ β : Type} (lt : υ → υ → Bool) (r : υ × β) (fuel : Nat) :
    alignPairs lt false (fuel + 1) [r] ([] : List (υ × β)) = none := by
  simp [alignPairs]


/-! ## ali dir -> token dir -> ali dir -/
section AliCmd
variable {α τ : Type} [DecidableEq α] [DecidableEq τ]

theorem exceptAll_map_ok {ε β γ : Type} (l : List β) (f : β → Except ε γ) (g : β → γ)
    (h : ∀ x ∈ l, f x = .ok (g x)) : exceptAll (l.map f) = .ok (l.map g) := by
  induction l with
  | nil => rfl
  | cons a rest ih =>
    simp only [List.map_cons]
    rw [h a (by simp)]
    simp only [exceptAll]
    rw [ih (fun x hx => h x (List.mem_cons_of_mem _ hx))]
    rfl

theorem lookup_map_snd {κ ν μ : Type} [DecidableEq κ] (l : List (κ × ν)) (g : ν → μ) (k : κ) :
    (l.map (fun e => (e.1, g e.2))).lookup k = (l.lookup k).map g := by
  induction l with
  | nil => rfl
  | cons e rest ih =>
    obtain ⟨a, b⟩ := e
    simp only [List.map_cons, lookup_cons', ih]
    by_cases h : k = a <;> simp [h]

theorem lookup_map_snd_mem {κ ν μ : Type} [DecidableEq κ] (l : List (κ × ν)) (f g : ν → μ) (k : κ)
    (h : ∀ e ∈ l, f e.2 = g e.2) :
    (l.map (fun e => (e.1, f e.2))).lookup k = (l.map (fun e => (e.1, g e.2))).lookup k := by
  have : l.map (fun e => (e.1, f e.2)) = l.map (fun e => (e.1, g e.2)) :=
    List.map_congr_left (fun e he => by rw [h e he])
  rw [this]

/-- ali dir -> token dir -> ali dir, whole directories, any two delivery orders. -/
theorem alidir_roundtrip (p s : List α) (dir : Dir (List α) (List τ))
    (hn : (dir.map (·.1)).Nodup) (hne : ∀ e ∈ selectedEntries p s dir, e.2 ≠ [])
    (delivered₁ : List (List α × List τ)) (h₁ : delivered₁.Perm (selectedEntries p s dir))
    (delivered₂ : List (List α × List (Seg τ)))
    (h₂ : delivered₂.Perm (selectedEntries p s (aliToTokCmd delivered₁))) :
    ∃ out, tokToAliCmd delivered₂ = .ok out ∧
      ∀ n, out.get n = (selectedEntries p s dir).get n := by
  have hsn : ((selectedEntries p s dir).map (·.1)).Nodup :=
    hn.sublist ((List.filter_sublist).map _)
  have h1n : (delivered₁.map (·.1)).Nodup := (h₁.map _).nodup_iff.2 hsn
  have hsel1 : ∀ e ∈ delivered₁, selects p s e.1 = true := by
    intro e he
    have := h₁.mem_iff.1 he
    simpa using (List.mem_filter.1 this).2
  -- the token directory
  let kvs := delivered₁.map (fun e => (e.1, encode e.2))
  have hkeys : kvs.map (·.1) = delivered₁.map (·.1) := by simp [kvs, List.map_map, Function.comp_def]
  have hT : aliToTokCmd delivered₁ = kvs.reverse := by
    unfold aliToTokCmd
    rw [writeAll_eq_reverse [] kvs (by rw [hkeys]; exact h1n) (by simp)]
    simp
  have hselT : selectedEntries p s (aliToTokCmd delivered₁) = kvs.reverse := by
    rw [hT]
    unfold selectedEntries
    rw [List.filter_eq_self]
    intro e he
    obtain ⟨e', he', rfl⟩ := List.mem_map.1 (List.mem_reverse.1 he)
    exact hsel1 e' he'
  rw [hselT] at h₂
  have h2k : (delivered₂.map (·.1)).Nodup := by
    refine (h₂.map _).nodup_iff.2 ?_
    rw [List.map_reverse, hkeys]
    exact (List.reverse_perm _).nodup_iff.2 h1n
  have hdec : ∀ e ∈ delivered₂, (decode true e.2 none).map (fun a => (e.1, a))
      = .ok (e.1, expand (lensOf e.2)) := by
    intro e he
    obtain ⟨e', he', rfl⟩ := List.mem_map.1 (List.mem_reverse.1 (h₂.mem_iff.1 he))
    have hne' := hne e' (h₁.mem_iff.1 he')
    simp only
    rw [(decode_encode e'.2 hne').1]
    unfold encode
    rw [lensOf_segsFrom, expand_runs]
    rfl
  refine ⟨Dir.writeAll [] (delivered₂.map (fun e => (e.1, expand (lensOf e.2)))), ?_, ?_⟩
  · unfold tokToAliCmd
    rw [exceptAll_map_ok delivered₂ _ (fun e => (e.1, expand (lensOf e.2))) hdec]
    rfl
  · intro n
    have hk2 : ((delivered₂.map (fun e => (e.1, expand (lensOf e.2)))).map (·.1)).Nodup := by
      simpa [List.map_map, Function.comp_def] using h2k
    rw [get_writeAll [] _ hk2 n]
    have e1 := lookup_perm (h₂.map (fun e => (e.1, expand (lensOf e.2)))) hk2 n
    rw [e1]
    have e2 : kvs.reverse.map (fun e => (e.1, expand (lensOf e.2))) = delivered₁.reverse := by
      rw [← List.map_reverse, List.map_map]
      have : ∀ e ∈ delivered₁.reverse, ((fun (e : List α × List (Seg τ)) => (e.1, expand (lensOf e.2))) ∘
          fun (e : List α × List τ) => (e.1, encode e.2)) e = e := by
        intro e _
        simp only [Function.comp]
        unfold encode
        rw [lensOf_segsFrom, expand_runs]
      rw [List.map_congr_left this, List.map_id']
    rw [e2]
    have e3 := lookup_perm ((List.reverse_perm _).trans h₁) (by
      rw [List.map_reverse]
      exact (List.reverse_perm _).nodup_iff.2 h1n) n
    rw [e3]
    unfold Dir.get
    split
    · rename_i v hv; rw [hv]
    · rename_i hv; rw [hv]; rfl

end AliCmd



theorem not_mem_of_lt_head {υ β : Type} (lt : υ → υ → Bool) (hirr : ∀ a, lt a a = false)
    (htrans : ∀ a b c, lt a b = true → lt b c = true → lt a c = true)
    (u : υ) (h : υ × β) (hs : List (υ × β)) (hsrt : StrictSorted lt (h :: hs))
    (hlt : lt u h.1 = true) (x : β) : (u, x) ∉ h :: hs := by
  intro hm
  rcases List.mem_cons.1 hm with rfl | hm
  · simp [hirr] at hlt
  · have := (List.pairwise_cons.1 hsrt).1 (u, x) hm
    have := htrans _ _ _ hlt this
    simp [hirr] at this

theorem not_mem_tail_of_head {υ β : Type} (lt : υ → υ → Bool) (hirr : ∀ a, lt a a = false)
    (h : υ × β) (hs : List (υ × β)) (hsrt : StrictSorted lt (h :: hs)) (x : β) :
    (h.1, x) ∉ hs := by
  intro hm
  have := (List.pairwise_cons.1 hsrt).1 (h.1, x) hm
  simp [hirr] at this

/-- With `--warn-missing`, the merge keeps exactly the utterances present on both sides. -/
theorem alignPairs_common {υ β : Type} (lt : υ → υ → Bool) (hirr : ∀ a, lt a a = false)
    (htrans : ∀ a b c, lt a b = true → lt b c = true → lt a c = true)
    (htri : ∀ a b, lt a b = false → lt b a = false → a = b)
    (fuel : Nat) (refs hyps : List (υ × β)) (hr : StrictSorted lt refs) (hh : StrictSorted lt hyps)
    (hf : refs.length + hyps.length + 1 ≤ fuel) :
    ∃ out, alignPairs lt true fuel refs hyps = some out ∧
      ∀ u r h, (u, r, h) ∈ out ↔ ((u, r) ∈ refs ∧ (u, h) ∈ hyps) := by
  induction fuel generalizing refs hyps with
  | zero => omega
  | succ f ih =>
    cases refs with
    | nil =>
      cases hyps with
      | nil => exact ⟨[], by simp [alignPairs], by simp⟩
      | cons y ys =>
        obtain ⟨out, ho, hm⟩ := ih [] ys hr (List.pairwise_cons.1 hh).2 (by simp at hf ⊢; omega)
        refine ⟨out, by simpa [alignPairs] using ho, ?_⟩
        intro u r h
        rw [hm]; simp
    | cons x xs =>
      cases hyps with
      | nil =>
        obtain ⟨out, ho, hm⟩ := ih xs [] (List.pairwise_cons.1 hr).2 hh (by simp at hf ⊢; omega)
        refine ⟨out, by simpa [alignPairs] using ho, ?_⟩
        intro u r h
        rw [hm]; simp
      | cons y ys =>
        simp only [alignPairs, if_true]
        by_cases h1 : lt x.1 y.1 = true
        · obtain ⟨out, ho, hm⟩ := ih xs (y :: ys) (List.pairwise_cons.1 hr).2 hh
            (by simp at hf ⊢; omega)
          refine ⟨out, by simpa [h1] using ho, ?_⟩
          intro u r h
          rw [hm]
          constructor
          · rintro ⟨a, b⟩; exact ⟨List.mem_cons_of_mem _ a, b⟩
          · rintro ⟨a, b⟩
            rcases List.mem_cons.1 a with e | a
            · exfalso
              have : u = x.1 := by rw [← e]
              subst this
              exact not_mem_of_lt_head lt hirr htrans _ y ys hh h1 h b
            · exact ⟨a, b⟩
        · have h1' : lt x.1 y.1 = false := by simpa using h1
          by_cases h2 : lt y.1 x.1 = true
          · obtain ⟨out, ho, hm⟩ := ih (x :: xs) ys hr (List.pairwise_cons.1 hh).2
              (by simp at hf ⊢; omega)
            refine ⟨out, by simpa [h1', h2] using ho, ?_⟩
            intro u r h
            rw [hm]
            constructor
            · rintro ⟨a, b⟩; exact ⟨a, List.mem_cons_of_mem _ b⟩
            · rintro ⟨a, b⟩
              rcases List.mem_cons.1 b with e | b
              · exfalso
                have : u = y.1 := by rw [← e]
                subst this
                exact not_mem_of_lt_head lt hirr htrans _ x xs hr h2 r a
              · exact ⟨a, b⟩
          · have h2' : lt y.1 x.1 = false := by simpa using h2
            have hxy : x.1 = y.1 := htri _ _ h1' h2'
            obtain ⟨out, ho, hm⟩ := ih xs ys (List.pairwise_cons.1 hr).2 (List.pairwise_cons.1 hh).2
              (by simp at hf ⊢; omega)
            refine ⟨(x.1, x.2, y.2) :: out, by simp [h1', h2', ho], ?_⟩
            intro u r h
            simp only [List.mem_cons, Prod.mk.injEq, hm]
            constructor
            · rintro (⟨rfl, rfl, rfl⟩ | ⟨a, b⟩)
              · exact ⟨Or.inl rfl, Or.inl (by rw [hxy])⟩
              · exact ⟨Or.inr a, Or.inr b⟩
            · rintro ⟨a | a, b | b⟩
              · left
                have ha : (u, r) = x := by cases x; simp_all
                have hb : (u, h) = y := by cases y; simp_all
                rw [← ha, ← hb]; simp
              · exfalso
                have hu : u = y.1 := by rw [← hxy]; cases x; simp_all
                subst hu
                exact not_mem_tail_of_head lt hirr y ys hh h b
              · exfalso
                have hu : u = x.1 := by rw [hxy]; cases y; simp_all
                subst hu
                exact not_mem_tail_of_head lt hirr x xs hr r a
              · exact Or.inr ⟨a, b⟩


end PdtVerif.CommandLine
