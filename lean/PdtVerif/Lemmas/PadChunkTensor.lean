import PdtVerif.Lemmas.PadChunk
/-!
# Lemmas for C09, part 2 (core Lean only): whole-tensor entry points

1. `transpose` and `expand2`;
2. `pad_masked_sequence` on whole tensors in both layouts (the sequence-first layout is the
   batch-first core between two transpositions);
3. the tensor-level entries `padVariableT` / `chunkBySlicesT` reduce to the row-level functions exactly
   when the shapes are the documented ones;
4. `random_shift` under an abstract rounding function.
-/
namespace PdtVerif.PadChunk
open PdtVerif.PadSlice
variable {α : Type}

/-! ## 1. transpose / expand2 -/

/-- column `n` of a nested list (`dflt` where a row is too short) -/
def col {β : Type} (X : List (List β)) (n : Nat) (dflt : β) : List β := X.map (fun row => row.getD n dflt)

theorem transpose_eq {β : Type} (B : Nat) (X : List (List β)) (d : β) :
    transpose B X d = (List.range B).map (fun j => col X j d) := rfl

@[simp] theorem transpose_length {β : Type} (B : Nat) (X : List (List β)) (d : β) :
    (transpose B X d).length = B := by simp [transpose]

theorem transpose_getElem {β : Type} (B : Nat) (X : List (List β)) (d : β) (j : Nat)
    (hj : j < (transpose B X d).length) : (transpose B X d)[j] = col X j d := by
  simp [transpose, col]

theorem mem_transpose_length {β : Type} (B : Nat) (X : List (List β)) (d : β) (r : List β)
    (hr : r ∈ transpose B X d) : r.length = X.length := by
  simp only [transpose, List.mem_map] at hr
  obtain ⟨j, _, rfl⟩ := hr
  simp

@[simp] theorem col_length {β : Type} (X : List (List β)) (n : Nat) (d : β) : (col X n d).length = X.length := by
  simp [col]

/-- expanding a tensor that already has the target shape changes nothing -/
theorem expand2_self {β : Type} (A B : Nat) (m : List (List β)) :
    expand2 A B A B m = .ok m := by
  simp [expand2]

/-! ## 2. pad_masked_sequence on whole tensors -/

theorem zipWith_maskRow_wf (T : Nat) (xs : List (List α)) (ms : List (List Bool))
    (hx : ∀ r ∈ xs, r.length = T) (hm : ∀ r ∈ ms, r.length = T) :
    ∀ r ∈ List.zipWith (fun x m => (⟨x, m⟩ : MaskRow α)) xs ms, r.Wf T := by
  induction xs generalizing ms with
  | nil => simp
  | cons x xs ih =>
    cases ms with
    | nil => simp
    | cons m ms =>
      intro r hr
      simp only [List.zipWith_cons_cons, List.mem_cons] at hr
      rcases hr with rfl | hr
      · exact ⟨hx _ (by simp), hm _ (by simp)⟩
      · exact ih ms (fun r h => hx r (by simp [h])) (fun r h => hm r (by simp [h])) r hr

/-- the result row of one sequence -/
def maskedRowOut (value : α) (T : Nat) (xs : List α) (m : List Bool) : List α :=
  compact m xs ++ List.replicate (T - (compact m xs).length) value

theorem maskedRowOut_length (value : α) (T : Nat) (xs : List α) (m : List Bool) (hm : m.length = T)
    (hx : xs.length = T) : (maskedRowOut value T xs m).length = T := by
  have : (compact m xs).length ≤ T := by
    rw [compact_length _ _ (by omega), ← hm]
    exact List.count_le_length
  simp [maskedRowOut]
  omega

theorem map_zipWith_maskRow {γ : Type} (f : List α → List Bool → γ) (xs : List (List α)) (ms : List (List Bool)) :
    (List.zipWith (fun x m => (⟨x, m⟩ : MaskRow α)) xs ms).map (fun r => f r.x r.mask)
      = List.zipWith f xs ms := by
  induction xs generalizing ms with
  | nil => simp
  | cons x xs ih =>
    cases ms with
    | nil => simp
    | cons m ms => simp [ih]

/-- batch-first layout, full-shape mask: the tensor entry is the core on the zipped rows -/
theorem padMaskedSequence_batchFirst (value dflt : α) (N T : Nat) (x : List (List α))
    (mask : List (List Bool)) (hx : ∀ r ∈ x, r.length = T) (hm : ∀ r ∈ mask, r.length = T) :
    padMaskedSequence true value N T x N T mask dflt
      = .ok (List.zipWith (maskedRowOut value T) x mask,
             List.zipWith (fun xs m => (compact m xs).length) x mask) := by
  unfold padMaskedSequence
  simp only [if_true, expand2_self]
  rw [padMaskedCore_eq value T _ (zipWith_maskRow_wf T x mask hx hm)]
  simp only []
  rw [map_zipWith_maskRow (fun xs m => compact m xs ++ List.replicate (T - (compact m xs).length) value),
    map_zipWith_maskRow (fun xs m => (compact m xs).length)]
  rfl

/-- sequence-first layout (`x` of outer shape `(T, N)`), full-shape mask: transposition, the
batch-first result on the columns, transposition back. No hypothesis on the rows of `x` / `mask`
is needed: `transpose` reads missing cells as `dflt`. -/
theorem padMaskedSequence_seqFirst (value dflt : α) (T N : Nat) (x : List (List α))
    (mask : List (List Bool)) (hx : x.length = T) (hm : mask.length = T) :
    padMaskedSequence false value T N x T N mask dflt
      = .ok (transpose T ((List.range N).map (fun n =>
                maskedRowOut value T (col x n dflt) (col mask n false))) dflt,
             (List.range N).map (fun n => (compact (col mask n false) (col x n dflt)).length)) := by
  unfold padMaskedSequence
  simp only [Bool.false_eq_true, if_false, expand2_self]
  have hxs : ∀ r ∈ transpose N x dflt, r.length = T := fun r hr => by
    rw [mem_transpose_length N x dflt r hr, hx]
  have hms : ∀ r ∈ transpose N mask false, r.length = T := fun r hr => by
    rw [mem_transpose_length N mask false r hr, hm]
  rw [padMaskedCore_eq value T _ (zipWith_maskRow_wf T _ _ hxs hms)]
  simp only []
  rw [map_zipWith_maskRow (fun xs m => compact m xs ++ List.replicate (T - (compact m xs).length) value),
    map_zipWith_maskRow (fun xs m => (compact m xs).length)]
  simp only [transpose_eq, List.zipWith_map_left, List.zipWith_map_right, List.zipWith_self]
  rfl

/-- a mask of shape `(N, 1)` / `(1, T)` / `(1, 1)` in the batch-first layout gives what its expansion
gives (the repaired code expands first). -/
theorem padMaskedSequence_broadcast (value dflt : α) (N T m0 m1 : Nat) (x : List (List α))
    (mask full : List (List Bool)) (h : expand2 N T m0 m1 mask = .ok full) :
    padMaskedSequence true value N T x m0 m1 mask dflt
      = padMaskedSequence true value N T x N T full dflt := by
  unfold padMaskedSequence
  simp only [if_true, h, expand2_self]

/-! ## 3. tensor-level entries and shapes -/

/-- `padVariableT` refuses every undocumented shape with ValueError -/
theorem padVariableT_value (pinned : Bool) (mode : Mode) (value : α) (T : Nat) (x : List (List α))
    (lens pad0 pad1 : List Nat) (padOuter : Nat)
    (h : ¬ (lens.length = x.length ∧ padOuter = 2 ∧ pad0.length = x.length ∧ pad1.length = x.length)) :
    padVariableT pinned mode value T x lens pad0 pad1 padOuter = .error .value := by
  unfold padVariableT
  split
  · rfl
  · split
    · rfl
    · omega

theorem padVariableT_ok (pinned : Bool) (mode : Mode) (value : α) (T : Nat) (x : List (List α))
    (lens pad0 pad1 : List Nat) (hl : lens.length = x.length) (h0 : pad0.length = x.length)
    (h1 : pad1.length = x.length) :
    padVariableT pinned mode value T x lens pad0 pad1
      = padVariable pinned mode value T
          (List.zipWith (fun (xl : List α × Nat) (p : Nat × Nat) => ⟨xl.1, xl.2, p.1, p.2⟩)
            (x.zip lens) (pad0.zip pad1)) := by
  unfold padVariableT
  simp [hl, h0, h1]

theorem zipRows_length (x : List (List α)) (lens pad0 pad1 : List Nat) (hl : lens.length = x.length)
    (h0 : pad0.length = x.length) (h1 : pad1.length = x.length) :
    (List.zipWith (fun (xl : List α × Nat) (p : Nat × Nat) => (⟨xl.1, xl.2, p.1, p.2⟩ : PadRow α))
      (x.zip lens) (pad0.zip pad1)).length = x.length := by
  simp [hl, h0, h1]

theorem zipRows_getElem (x : List (List α)) (lens pad0 pad1 : List Nat) (n : Nat)
    (hn : n < (List.zipWith (fun (xl : List α × Nat) (p : Nat × Nat) => (⟨xl.1, xl.2, p.1, p.2⟩ : PadRow α))
      (x.zip lens) (pad0.zip pad1)).length)
    (hx : n < x.length) (hl : n < lens.length) (h0 : n < pad0.length) (h1 : n < pad1.length) :
    (List.zipWith (fun (xl : List α × Nat) (p : Nat × Nat) => (⟨xl.1, xl.2, p.1, p.2⟩ : PadRow α))
      (x.zip lens) (pad0.zip pad1))[n] = ⟨x[n], lens[n], pad0[n], pad1[n]⟩ := by
  simp [List.getElem_zipWith, List.getElem_zip]

/-- `chunkBySlicesT`: past the early return, a `lens` of the wrong shape is a RuntimeError … -/
theorem chunkBySlicesT_lens_shape (pinned : Bool) (mode : Mode) (value : α) (T : Nat) (x : List (List α))
    (slices : List (Int × Int)) (l : List Nat) (hne : x ≠ [])
    (hT : ¬ (T = 0 ∧ (pinned = true ∨ mode ≠ .constant))) (hl : l.length ≠ x.length) :
    chunkBySlicesT pinned mode value T x slices (some l) = .error .runtime := by
  unfold chunkBySlicesT
  have : x.isEmpty = false := by cases x <;> simp_all
  simp [this, hT, hl]

/-- … and with `lens = None` or of shape `(N,)` the entry is the row-level function on the zipped rows. -/
theorem chunkBySlicesT_ok (pinned : Bool) (mode : Mode) (value : α) (T : Nat) (x : List (List α))
    (slices : List (Int × Int)) (lens : Option (List Nat)) (hne : x ≠ [])
    (hT : ¬ (T = 0 ∧ (pinned = true ∨ mode ≠ .constant)))
    (hl : ∀ l, lens = some l → l.length = x.length) :
    chunkBySlicesT pinned mode value T x slices lens
      = chunkBySlices pinned mode value T
          (List.zipWith (fun (xl : List α × Nat) (s : Int × Int) => ⟨xl.1, xl.2, s.1, s.2⟩)
            (x.zip (lens.getD (x.map (fun _ => T)))) slices) := by
  unfold chunkBySlicesT
  have : x.isEmpty = false := by cases x <;> simp_all
  cases lens with
  | none => simp [this, hT]
  | some l => simp [this, hT, hl l rfl]

/-! ## 4. random_shift under rounding -/

/-- What is used of rounding to the working precision `rnd` (IEEE round-to-nearest in a binary
format has all three on the magnitudes in question — lengths below `2^24` resp. `2^53`, no
overflow/underflow; the third is: a product with a representable factor `u < 1` never rounds back up
to the other factor, because `a (1 - u) ≥ a 2^-p ≥ ulp(a) / 2`, with equality only for a power of two,
below which the spacing halves). -/
structure Rounding (rnd : Rat → Rat) : Prop where
  mono : ∀ a b : Rat, a ≤ b → rnd a ≤ rnd b
  nat_exact : ∀ k : Nat, rnd (k : Rat) = (k : Rat)
  mul_lt : ∀ z u : Rat, 0 < rnd z → 0 ≤ u → u < 1 → rnd u = u → rnd (rnd z * u) < rnd z

theorem Rounding.nonneg {rnd : Rat → Rat} (h : Rounding rnd) (z : Rat) (hz : 0 ≤ z) : 0 ≤ rnd z := by
  have := h.mono 0 z hz
  have h0 := h.nat_exact 0
  simp at h0
  rwa [h0] at this

/-- With `prop` a number of the working precision (so that it is `prop` itself that is multiplied), the
amount never exceeds `prop * len` — and stays strictly below it unless `rnd (prop * len) = 0`. -/
theorem shiftAmountR_le (rnd : Rat → Rat) (h : Rounding rnd) (p : Rat) (len : Nat) (u : Rat)
    (hp : 0 ≤ p) (hu0 : 0 ≤ u) (hu1 : u < 1) (hu : rnd u = u) :
    ((shiftAmountR rnd p len u : Nat) : Rat) ≤ p * (len : Rat)
      ∧ (0 < rnd (p * (len : Rat)) → ((shiftAmountR rnd p len u : Nat) : Rat) < p * (len : Rat)) := by
  have hz : 0 ≤ p * (len : Rat) := Rat.mul_nonneg hp Rat.natCast_nonneg
  have ha : 0 ≤ rnd (p * (len : Rat)) := h.nonneg _ hz
  have hau : 0 ≤ rnd (rnd (p * (len : Rat)) * u) := h.nonneg _ (Rat.mul_nonneg ha hu0)
  have hcast : ((shiftAmountR rnd p len u : Nat) : Rat)
      = (((rnd (rnd (p * (len : Rat)) * u)).floor : Int) : Rat) := by
    unfold shiftAmountR
    exact natCast_toNat_floor _ hau
  have hstrict : 0 < rnd (p * (len : Rat)) →
      ((shiftAmountR rnd p len u : Nat) : Rat) < p * (len : Rat) := by
    intro hpos
    apply Std.not_le.1
    intro hge
    -- prop * len ≤ m (a natural number) ⇒ rnd (prop * len) ≤ m ≤ rnd (a * u) < a
    have h1 := h.mono _ _ hge
    rw [h.nat_exact] at h1
    have h2 : ((shiftAmountR rnd p len u : Nat) : Rat) ≤ rnd (rnd (p * (len : Rat)) * u) := by
      rw [hcast]; exact Rat.floor_le _
    have h3 := h.mul_lt (p * (len : Rat)) u hpos hu0 hu1 hu
    exact absurd (Std.le_trans h1 h2) (Std.not_le.2 h3)
  refine ⟨?_, hstrict⟩
  by_cases hpos : 0 < rnd (p * (len : Rat))
  · exact Std.le_of_lt (hstrict hpos)
  · have h0 : rnd (p * (len : Rat)) = 0 := Std.le_antisymm (Std.not_lt.1 hpos) ha
    have : shiftAmountR rnd p len u = 0 := by
      unfold shiftAmountR
      have hn := h.nat_exact 0
      simp at hn
      simp only [h0, Rat.zero_mul, hn]
      decide
    rw [this]
    simpa using hz

/-- exact arithmetic is a rounding -/
theorem rounding_id : Rounding (fun q => q) where
  mono := fun _ _ h => h
  nat_exact := fun _ => rfl
  mul_lt := fun z u hz _ hu1 _ => by
    have := Rat.mul_lt_mul_of_pos_left hu1 hz
    simpa using this

end PdtVerif.PadChunk
