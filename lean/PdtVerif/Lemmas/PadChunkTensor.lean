import PdtVerif.Lemmas.PadChunk
/-!
# Lemmas for C09, part 2 (core Lean only): whole-tensor entry points

1. `transpose` and `expand2`;
2. `pad_masked_sequence` on whole tensors in both layouts (the sequence-first layout is the
   batch-first core between two transpositions);
3. the tensor-level entries `padVariableT` / `chunkBySlicesT` reduce to the row-level functions exactly
   when the shapes are the documented ones;
4. `random_shift` under an abstract rounding function.
-/
namespace PdtVerif.PadChunk
open PdtVerif.PadSlice
variable {α : Type}

/-! ## 1. transpose / expand2 -/

/-- column `n` of a nested list (`dflt` where a row is too short) -/
def col {β : Type} (X : List (List β)) (n : Nat) (dflt : β) : List β := X.map (fun row => row.getD n dflt)

theorem transpose_eq {β : Type} (B : Nat) (X : List (List β)) (d : β) :
    transpose B X d = (List.range B).map (fun j => col X j d) := rfl

@[simp] theorem transpose_length {β : Type} (B : Nat) (X : List (List β)) (d : β) :
    (transpose B X d).length = B := by simp [transpose]

theorem transpose_getElem {β : Type} (B : Nat) (X : List (List β)) (d : β) (j : Nat)
    (hj : j < (transpose B X d).length) : (transpose B X d)[j] = col X j d := by
  simp [transpose, col]

theorem mem_transpose_length {β : Type} (B : Nat) (X : List (List β)) (d : β) (r : List β)
    (hr : r ∈ transpose B X d) : r.length = X.length := by
  simp only [transpose, List.mem_map] at hr
  obtain ⟨j, _, rfl⟩ := hr
  simp

@[simp] theorem col_length {β : Type} (X : List (List β)) (n : Nat) (d : β) : (col X n d).length = X.length := by
  simp [col]

/-- expanding a tensor that already has the target shape changes nothing -/
theorem expand2_self {β : Type} (A B : Nat) (m : List (List β)) :
    expand2 A B A B m = .ok m := by
  simp [expand2]

/-! ## 2. pad_masked_sequence on whole tensors -/

theorem zipWith_maskRow_wf (T : Nat) (xs : List (List α)) (ms : List (List Bool))
    (hx : ∀ r ∈ xs, r.length = T) (hm : ∀ r ∈ ms, r.length = T) :
    ∀ r ∈ List.zipWith (fun x m => (⟨x, m⟩ : MaskRow α)) xs ms, r.Wf T := by
  induction xs generalizing ms with
  | nil => simp
  | cons x xs ih =>
    cases ms with
    | nil => simp
    | cons m ms =>
      intro r hr
      simp only [List.zipWith_cons_cons, List.mem_cons] at hr
      rcases hr with rfl | hr
      · exact ⟨hx _ (by simp), hm _ (by simp)⟩
      · exact ih ms (fun r h => hx r (by simp [h])) (fun r h => hm r (by simp [h])) r hr

/-- the result row of one sequence -/
def maskedRowOut (value : α) (T : Nat) (xs : List α) (m : List Bool) : List α :=
  compact m xs ++ List.replicate (T - (compact m xs).length) value

theorem maskedRowOut_length (value : α) (T : Nat) (xs : List α) (m : List Bool) (hm : m.length = T)
    (hx : xs.length = T) : (maskedRowOut value T xs m).length = T := by
  have : (compact m xs).length ≤ T := by
    rw [compact_length _ _ (by omega), ← hm]
    exact List.count_le_length
  simp [maskedRowOut]
  omega

theorem map_zipWith_maskRow {γ : Type} (f : List α → List Bool → γ) (xs : List (List α)) (ms : List (List Bool)) :
    (List.zipWith (fun x m => (⟨x, m⟩ : MaskRow α)) xs ms).map (fun r => f r.x r.mask)
      = List.zipWith f xs ms := by
  induction xs generalizing ms with
  | nil => simp
  | cons x xs ih =>
    cases ms with
    | nil => simp
    | cons m ms => simp [ih]

/-- batch-first layout, full-shape mask: the tensor entry is the core on the zipped rows -/
theorem padMaskedSequence_batchFirst (value dflt : α) (N T : Nat) (x : List (List α))
    (mask : List (List Bool)) (hx : ∀ r ∈ x, r.length = T) (hm : ∀ r ∈ mask, r.length = T) :
    padMaskedSequence true value N T x N T mask dflt
      = .ok (List.zipWith (maskedRowOut value T) x mask,
             List.zipWith (fun xs m => (compact m xs).length) x mask) := by
  unfold padMaskedSequence
  simp only [if_true, expand2_self]
  rw [padMaskedCore_eq value T _ (zipWith_maskRow_wf T x mask hx hm)]
  simp only []
  rw [map_zipWith_maskRow (fun xs m => compact m xs ++ List.replicate (T - (compact m xs).length) value),
    map_zipWith_maskRow (fun xs m => (compact m xs).length)]
  rfl

/-- sequence-first layout (`x` of outer shape `(T, N)`), full-shape mask: transposition, the
batch-first result on the columns, transposition back. No hypothesis on the rows of `x` / `mask`
is needed: `transpose` reads missing cells as `dflt`. -/
theorem padMaskedSequence_seqFirst (value dflt : α) (T N : Nat) (x : List (List α))
    (mask : List (List Bool)) (hx : x.length = T) (hm : mask.length = T) :
    padMaskedSequence false value T N x T N mask dflt
      = .ok (transpose T ((List.range N).map (fun n =>
                maskedRowOut value T (col x n dflt) (col mask n false))) dflt,
             (List.range N).map (fun n => (compact (col mask n false) (col x n dflt)).length)) := by
  unfold padMaskedSequence
  simp only [Bool.false_eq_true, if_false, expand2_self]
  have hxs : ∀ r ∈ transpose N x dflt, r.length = T := fun r hr => by
    rw [mem_transpose_length N x dflt r hr, hx]
  have hms : ∀ r ∈ transpose N mask false, r.length = T := fun r hr => by
    rw [mem_transpose_length N mask false r hr, hm]
  rw [padMaskedCore_eq value T _ (zipWith_maskRow_wf T _ _ hxs hms)]
  simp only []
  rw [map_zipWith_maskRow (fun xs m => compact m xs ++ List.replicate (T - (compact m xs).length) value),
    map_zipWith_maskRow (fun xs m => (compact m xs).length)]
  simp only [transpose_eq, List.zipWith_map_left, List.zipWith_map_right, List.zipWith_self]
  rfl

/-- a mask of shape `(N, 1)` / `(1, T)` / `(1, 1)` in the batch-first layout gives what its expansion
gives (the repaired code expands first). -/
theorem padMaskedSequence_broadcast (value dflt : α) (N T m0 m1 : Nat) (x : List (List α))
    (mask full : List (List Bool)) (h : expand2 N T m0 m1 mask = .ok full) :
    padMaskedSequence true value N T x m0 m1 mask dflt
      = padMaskedSequence true value N T x N T full dflt := by
  unfold padMaskedSequence
  simp only [if_true, h, expand2_self]

/-! ## 3. tensor-level entries and shapes -/

/-- `padVariableT` refuses every undocumented shape with ValueError -/
theorem padVariableT_value (pinned : Bool) (mode : Mode) (value : α) (T : Nat) (x : List (List α))
    (lens pad0 pad1 : List Nat) (padOuter : Nat)
    (h : ¬ (lens.length = x.length ∧ padOuter = 2 ∧ pad0.length = x.length ∧ pad1.length = x.length)) :
    padVariableT pinned mode value T x lens pad0 pad1 padOuter = .error .value := by
  unfold padVariableT
  split
  · rfl
  · split
    · rfl
    · omega

theorem padVariableT_ok (pinned : Bool) (mode : Mode) (value : α) (T : Nat) (x : List (List α))
    (lens pad0 pad1 : List Nat) (hl : lens.length = x.length) (h0 : pad0.length = x.length)
    (h1 : pad1.length = x.length) :
    padVariableT pinned mode value T x lens pad0 pad1
      = padVariable pinned mode value T
          (List.zipWith (fun (xl : List α × Nat) (p : Nat × Nat) => ⟨xl.1, xl.2, p.1, p.2⟩)
            (x.zip lens) (pad0.zip pad1)) := by
  unfold padVariableT
  simp [hl, h0, h1]

theorem zipRows_length (x : List (List α)) (lens pad0 pad1 : List Nat) (hl : lens.length = x.length)
    (h0 : pad0.length = x.length) (h1 : pad1.length = x.length) :
    (List.zipWith (fun (xl : List α × Nat) (p : Nat × Nat) => (⟨xl.1, xl.2, p.1, p.2⟩ : PadRow α))
      (x.zip lens) (pad0.zip pad1)).length = x.length := by
  simp [hl, h0, h1]

theorem zipRows_getElem (x : List (List α)) (lens pad0 pad1 : List Nat) (n : Nat)
    (hn : n < (List.zipWith (fun (xl : List α × Nat) (p : Nat × Nat) => (⟨xl.1, xl.2, p.1, p.2⟩ : PadRow α))
      (x.zip lens) (pad0.zip pad1)).length)
    (hx : n < x.length) (hl : n < lens.length) (h0 : n < pad0.length) (h1 : n < pad1.length) :
    (List.zipWith (fun (xl : List α × Nat) (p : Nat × Nat) => (⟨xl.1, xl.2, p.1, p.2⟩ : PadRow α))
      (x.zip lens) (pad0.zip pad1))[n] = ⟨x[n], lens[n], pad0[n], pad1[n]⟩ := by
  simp [List.getElem_zipWith, List.getElem_zip]

/-- `chunkBySlicesT`: past the early return, a `lens` of the wrong shape is a RuntimeError … -/
theorem chunkBySlicesT_lens_shape (pinned : Bool) (mode : Mode) (value : α) (T : Nat) (x : List (List α))
    (slices : List (Int × Int)) (l : List Nat) (hne : x ≠ [])
    (hT : ¬ (T = 0 ∧ (pinned = true ∨ mode ≠ .constant))) (hl : l.length ≠ x.length) :
    chunkBySlicesT pinned mode value T x slices (some l) = .error .runtime := by
  unfold chunkBySlicesT
  have : x.isEmpty = false := by cases x <;> simp_all
  simp [this, hT, hl]

/-- … and with `lens = None` or of shape `(N,)` the entry is the row-level function on the zipped rows. -/
theorem chunkBySlicesT_ok (pinned : Bool) (mode : Mode) (value : α) (T : Nat) (x : List (List α))
    (slices : List (Int × Int)) (lens : Option (List Nat)) (hne : x ≠ [])
    (hT : ¬ (T = 0 ∧ (pinned = true ∨ mode ≠ .constant)))
    (hl : ∀ l, lens = some l → l.length = x.length) :
    chunkBySlicesT pinned mode value T x slices lens
      = chunkBySlices pinned mode value T
          (List.zipWith (fun (xl : List α × Nat) (s : Int × Int) => ⟨xl.1, xl.2, s.1, s.2⟩)
            (x.zip (lens.getD (x.map (fun _ => T)))) slices) := by
  unfold chunkBySlicesT
  have : x.isEmpty = false := by cases x <;> simp_all
  cases lens with
  | none => simp [this, hT]
  | some l => simp [this, hT, hl l rfl]

/-! ## 4. random_shift under rounding -/

/-- What is used of rounding to the working precision `rnd`, with `B` the largest natural number up to
which every natural is representable (`2^24` for float32, `2^53` for float64).

Audit note: an earlier version asked `nat_exact` of EVERY natural number and `mul_lt` of every positive
`rnd z`. No binary floating-point format has the first (`2^53 + 1` is not a double), IEEE formats with
subnormals do not have the second (`3/4` of the smallest subnormal rounds back up to it), so the
hypothesis could only be met by exact arithmetic and the theorem said nothing about the code. The
fields below are what IEEE round-to-nearest in a binary format with `p` significant bits really has,
for `B = 2^p`:
* `mono`, `idem`: any rounding;
* `nat_exact`: naturals up to `2^p` are representable;
* `mul_lt`, asked only in the normal range `1 ≤ rnd z`: a product with a representable factor `u < 1` never
  rounds back up to the other factor `a = rnd z`, because `a (1 - u) ≥ a 2^-p ≥ ulp(a) / 2`, with equality
  only for `a` a power of two, below which the spacing halves. -/
structure Rounding (B : Nat) (rnd : Rat → Rat) : Prop where
  mono : ∀ a b : Rat, a ≤ b → rnd a ≤ rnd b
  nat_exact : ∀ k : Nat, k ≤ B → rnd (k : Rat) = (k : Rat)
  idem : ∀ z : Rat, rnd (rnd z) = rnd z
  mul_lt : ∀ z u : Rat, 1 ≤ rnd z → 0 ≤ u → u < 1 → rnd u = u → rnd (rnd z * u) < rnd z

theorem Rounding.nonneg {B : Nat} {rnd : Rat → Rat} (h : Rounding B rnd) (z : Rat) (hz : 0 ≤ z) :
    0 ≤ rnd z := by
  have := h.mono 0 z hz
  have h0 := h.nat_exact 0 (Nat.zero_le _)
  simp at h0
  rwa [h0] at this

/-- With `prop` a number of the working precision (so that it is `prop` itself that is multiplied) and
`prop * len` within the range `B` of exactly representable naturals, the amount never exceeds
`prop * len` — and stays strictly below it (the documented exclusive bound) unless `prop * len = 0`. -/
theorem shiftAmountR_le (B : Nat) (rnd : Rat → Rat) (h : Rounding B rnd) (p : Rat) (len : Nat) (u : Rat)
    (hp : 0 ≤ p) (hB : p * (len : Rat) ≤ (B : Rat)) (hu0 : 0 ≤ u) (hu1 : u < 1) (hu : rnd u = u) :
    ((shiftAmountR rnd p len u : Nat) : Rat) ≤ p * (len : Rat)
      ∧ (0 < p * (len : Rat) → ((shiftAmountR rnd p len u : Nat) : Rat) < p * (len : Rat)) := by
  have hz : 0 ≤ p * (len : Rat) := Rat.mul_nonneg hp Rat.natCast_nonneg
  have ha : 0 ≤ rnd (p * (len : Rat)) := h.nonneg _ hz
  have haB : rnd (p * (len : Rat)) ≤ (B : Rat) := by
    have := h.mono _ _ hB
    rwa [h.nat_exact B (Nat.le_refl _)] at this
  have hau : 0 ≤ rnd (rnd (p * (len : Rat)) * u) := h.nonneg _ (Rat.mul_nonneg ha hu0)
  have hcast : ((shiftAmountR rnd p len u : Nat) : Rat)
      = (((rnd (rnd (p * (len : Rat)) * u)).floor : Int) : Rat) := by
    unfold shiftAmountR
    exact natCast_toNat_floor _ hau
  have hfl : ((shiftAmountR rnd p len u : Nat) : Rat) ≤ rnd (rnd (p * (len : Rat)) * u) := by
    rw [hcast]; exact Rat.floor_le _
  by_cases h1 : 1 ≤ rnd (p * (len : Rat))
  · -- normal range: rnd (a * u) < a; a natural m with prop * len ≤ m would give a ≤ m ≤ rnd (a * u) < a
    have h3 := h.mul_lt (p * (len : Rat)) u h1 hu0 hu1 hu
    have hstrict : ((shiftAmountR rnd p len u : Nat) : Rat) < p * (len : Rat) := by
      apply Rat.not_le.1
      intro hge
      have hmB : ((shiftAmountR rnd p len u : Nat) : Rat) ≤ ((B : Nat) : Rat) :=
        Rat.le_trans hfl (Rat.le_trans (Rat.le_of_lt h3) haB)
      have hmB' : shiftAmountR rnd p len u ≤ B := Rat.natCast_le_natCast.1 hmB
      have h4 := h.mono _ _ hge
      rw [h.nat_exact _ hmB'] at h4
      exact absurd (Rat.le_trans h4 hfl) (Rat.not_le.2 h3)
    exact ⟨Rat.le_of_lt hstrict, fun _ => hstrict⟩
  · -- a < 1: a * u ≤ a, so rnd (a * u) ≤ rnd a = a < 1 and nothing is added
    have hlt1 : rnd (p * (len : Rat)) < 1 := Rat.not_le.1 h1
    have hle : rnd (p * (len : Rat)) * u ≤ rnd (p * (len : Rat)) := by
      have := Rat.mul_le_mul_of_nonneg_left (Rat.le_of_lt hu1) ha
      simpa using this
    have hw : rnd (rnd (p * (len : Rat)) * u) < ((1 : Int) : Rat) := by
      have := h.mono _ _ hle
      rw [h.idem] at this
      exact Std.lt_of_le_of_lt this (by simpa using hlt1)
    have hf : (rnd (rnd (p * (len : Rat)) * u)).floor < 1 := Rat.floor_lt_iff.2 hw
    have hzero : shiftAmountR rnd p len u = 0 := by
      unfold shiftAmountR
      omega
    rw [hzero]
    exact ⟨by simpa using hz, fun hpos => by simpa using hpos⟩

/-- exact arithmetic is a rounding, with any bound -/
theorem rounding_id (B : Nat) : Rounding B (fun q => q) where
  mono := fun _ _ h => h
  nat_exact := fun _ _ => rfl
  idem := fun _ => rfl
  mul_lt := fun z u hz _ hu1 _ => by
    have hz' : (0 : Rat) < z := Std.lt_of_lt_of_le (by decide) hz
    have := Rat.mul_lt_mul_of_pos_left hu1 hz'
    simpa using this

/-! ## 5. facts about the per-sequence spec used by the property statements -/

/-- "pad, then slice" has exactly the requested length, in every mode and for every slice shape
(empty and inverted slices: 0). -/
theorem chunkSeq_length (mode : Mode) (value : α) (xs : List α) (start stop : Int) :
    (chunkSeq mode value xs start stop).length = chunkLen start stop := by
  unfold chunkSeq chunkLen
  by_cases he : stop ≤ start
  · rw [if_pos he]
    simp
    omega
  · rw [if_neg he]
    simp only [slice, List.length_drop, List.length_take, padSeq_eq, List.length_append, leftPart_length,
      rightPart_length, needLeft, needRight, if_neg he]
    omega

/-- the rows `chunkBySlicesT` hands to `chunkBySlices` -/
theorem zipChunkRows_length (x : List (List α)) (lens : List Nat) (slices : List (Int × Int))
    (hl : lens.length = x.length) (hs : slices.length = x.length) :
    (List.zipWith (fun (xl : List α × Nat) (s : Int × Int) => (⟨xl.1, xl.2, s.1, s.2⟩ : ChunkRow α))
      (x.zip lens) slices).length = x.length := by
  simp [hl, hs]

theorem zipChunkRows_getElem (x : List (List α)) (lens : List Nat) (slices : List (Int × Int)) (n : Nat)
    (hn : n < (List.zipWith (fun (xl : List α × Nat) (s : Int × Int) => (⟨xl.1, xl.2, s.1, s.2⟩ : ChunkRow α))
      (x.zip lens) slices).length)
    (hx : n < x.length) (hl : n < lens.length) (hs : n < slices.length) :
    (List.zipWith (fun (xl : List α × Nat) (s : Int × Int) => (⟨xl.1, xl.2, s.1, s.2⟩ : ChunkRow α))
      (x.zip lens) slices)[n] = ⟨x[n], lens[n], (slices[n]).1, (slices[n]).2⟩ := by
  simp

/-! ## 6. broadcasting, stated on indices -/

/-- torch's broadcasting rule for a 2-D mask of shape `(m0, m1)` against `(N, T)`, stated declaratively:
cell `(n, t)` of the broadcast mask is cell `(n or 0, t or 0)` of the given one, `0` along a dimension
of size 1. -/
def bcastMask (N T m0 m1 : Nat) (mask : List (List Bool)) : List (List Bool) :=
  (List.range N).map (fun n => (List.range T).map (fun t =>
    (mask.getD (if m0 = 1 then 0 else n) []).getD (if m1 = 1 then 0 else t) false))

theorem bcastMask_row_length (N T m0 m1 : Nat) (mask : List (List Bool)) :
    ∀ r ∈ bcastMask N T m0 m1 mask, r.length = T := by
  intro r hr
  simp only [bcastMask, List.mem_map] at hr
  obtain ⟨n, _, rfl⟩ := hr
  simp

/-- the model's `expand2` IS that rule on a mask whose nested list has the shape it is declared with -/
theorem expand2_eq_bcastMask (N T m0 m1 : Nat) (mask : List (List Bool))
    (hm0 : mask.length = m0) (hm : ∀ r ∈ mask, r.length = m1)
    (hb0 : m0 = N ∨ m0 = 1) (hb1 : m1 = T ∨ m1 = 1) :
    expand2 N T m0 m1 mask = .ok (bcastMask N T m0 m1 mask) := by
  unfold expand2
  rw [if_pos ⟨hb0, hb1⟩]
  dsimp only
  -- the rows before the inner expansion
  have hrows : (if m0 = N then mask else List.replicate N (mask.headD []))
      = (List.range N).map (fun n => mask.getD (if m0 = 1 then 0 else n) []) := by
    by_cases h0 : m0 = N
    · rw [if_pos h0]
      apply List.ext_getElem
      · simp [hm0, h0]
      · intro n h1 h2
        have hn : n < N := by simpa using h2
        by_cases h1' : m0 = 1
        · have : n = 0 := by omega
          subst this
          simp [h1', List.getD_eq_getElem?_getD, List.getElem?_eq_getElem h1]
        · simp [h1', List.getD_eq_getElem?_getD, List.getElem?_eq_getElem h1]
    · rw [if_neg h0]
      have h1' : m0 = 1 := by omega
      apply List.ext_getElem
      · simp
      · intro n h1 h2
        cases mask with
        | nil => simp at hm0; omega
        | cons r rs => simp [h1']
  rw [hrows, bcastMask, List.map_map]
  congr 1
  apply List.map_congr_left
  intro n hn
  simp only [Function.comp]
  -- one row
  have hrow : (mask.getD (if m0 = 1 then 0 else n) []).length = m1 := by
    have hn' : n < N := by simpa using hn
    have hidx : (if m0 = 1 then 0 else n) < mask.length := by
      rw [hm0]
      split <;> omega
    rw [List.getD_eq_getElem?_getD, List.getElem?_eq_getElem hidx]
    exact hm _ (List.getElem_mem hidx)
  generalize mask.getD (if m0 = 1 then 0 else n) [] = row at hrow
  by_cases h1 : m1 = T
  · rw [if_pos h1]
    apply List.ext_getElem
    · simp [hrow, h1]
    · intro t ht1 ht2
      by_cases h1' : m1 = 1
      · have : t = 0 := by omega
        subst this
        simp [h1', List.getD_eq_getElem?_getD, List.getElem?_eq_getElem ht1]
      · simp [h1', List.getD_eq_getElem?_getD, List.getElem?_eq_getElem ht1]
  · rw [if_neg h1]
    have h1' : m1 = 1 := by omega
    cases row with
    | nil => simp at hrow; omega
    | cons v vs =>
      apply List.ext_getElem
      · simp
      · intro t ht1 ht2
        simp [h1']

/-! ## 7. random_shift for an arbitrary amount arithmetic (audit round E)

`randomShiftWith amt` is `random_shift` with the arithmetic that turns `(prop, len, draw)` into a number of
elements left abstract. Exact arithmetic (`randomShift`) and the double-precision arithmetic of the repaired
code (`randomShiftF64`) are the two instances; what follows holds for every `amt`. -/

/-- training mode on a legal request: the whole output and the reported lengths -/
theorem randomShiftWith_train (amt : Rat → Nat → Rat → Nat) (mode : Mode) (value : α) (T : Nat)
    (p0 p1 : Rat) (rows : List (ShiftRow α)) (hne : rows ≠ [])
    (h : ∀ s ∈ rows, (s.toPadWith amt p0 p1).Legal mode T) :
    randomShiftWith amt false mode value T p0 p1 true rows
      = .ok (rows.map (fun s =>
              padSeq mode value (amt p0 s.len s.u0) (amt p1 s.len s.u1) (s.x.take s.len)
                ++ List.replicate (maxOf ((rows.map (ShiftRow.toPadWith amt p0 p1)).map PadRow.newLen)
                    - (s.toPadWith amt p0 p1).newLen) value),
             rows.map (fun s => s.len + (amt p0 s.len s.u0 + amt p1 s.len s.u1))) := by
  have hpad : padVariable false mode value T (rows.map (ShiftRow.toPadWith amt p0 p1))
      = .ok ((rows.map (ShiftRow.toPadWith amt p0 p1)).map (fun p =>
          padSeq mode value p.l p.r (p.x.take p.len)
            ++ List.replicate (maxOf ((rows.map (ShiftRow.toPadWith amt p0 p1)).map PadRow.newLen)
                - p.newLen) value)) :=
    padVariable_eq mode value T _ (by simpa using hne) (by
      intro p hp
      obtain ⟨s, hs, rfl⟩ := List.mem_map.1 hp
      exact h s hs)
  simp only [randomShiftWith, if_true, hpad, List.map_map]
  rfl

/-- the original sequence sits unchanged between the two paddings (a fact about `padSeq` alone) -/
theorem padSeq_embeds (mode : Mode) (value : α) (l r : Nat) (xs : List α) :
    ((padSeq mode value l r xs).drop l).take xs.length = xs
    ∧ (padSeq mode value l r xs).length = l + xs.length + r := by
  rw [padSeq_eq]
  constructor
  · rw [List.append_assoc, List.drop_left' (leftPart_length mode value l xs), List.take_left' rfl]
  · simp only [List.length_append, leftPart_length, rightPart_length]

/-- training mode, row by row: reported length, valid part = per-sequence padding, original embedded at
offset `l` -/
theorem randomShiftWith_rows (amt : Rat → Nat → Rat → Nat) (mode : Mode) (value : α) (T : Nat)
    (p0 p1 : Rat) (rows : List (ShiftRow α)) (hne : rows ≠ [])
    (h : ∀ s ∈ rows, (s.toPadWith amt p0 p1).Legal mode T) :
    ∃ out lens, randomShiftWith amt false mode value T p0 p1 true rows = .ok (out, lens) ∧
      out.length = rows.length ∧ lens.length = rows.length ∧
      ∀ (n : Nat) (hn : n < rows.length) (ho : n < out.length) (hl : n < lens.length),
        lens[n] = (rows[n]).len + (amt p0 (rows[n]).len (rows[n]).u0 + amt p1 (rows[n]).len (rows[n]).u1)
        ∧ (out[n]).take lens[n]
            = padSeq mode value (amt p0 (rows[n]).len (rows[n]).u0) (amt p1 (rows[n]).len (rows[n]).u1)
                ((rows[n]).x.take (rows[n]).len)
        ∧ ((out[n]).drop (amt p0 (rows[n]).len (rows[n]).u0)).take (rows[n]).len
            = (rows[n]).x.take (rows[n]).len := by
  refine ⟨_, _, randomShiftWith_train amt mode value T p0 p1 rows hne h, by simp, by simp, ?_⟩
  intro n hn ho hl
  obtain ⟨hx, hlen, _⟩ := h rows[n] (List.getElem_mem hn)
  have hxl : ((rows[n]).x.take (rows[n]).len).length = (rows[n]).len := by
    simp only [ShiftRow.toPadWith] at hx hlen
    simp [hx, hlen]
  obtain ⟨hemb, hplen⟩ := padSeq_embeds mode value (amt p0 (rows[n]).len (rows[n]).u0)
    (amt p1 (rows[n]).len (rows[n]).u1) ((rows[n]).x.take (rows[n]).len)
  rw [hxl] at hemb hplen
  simp only [List.getElem_map]
  refine ⟨trivial, ?_, ?_⟩
  · apply List.take_left'
    rw [hplen]
    omega
  · rw [List.drop_append_of_le_length (by rw [hplen]; omega),
      List.take_append_of_le_length (by rw [List.length_drop, hplen]; omega)]
    exact hemb

end PdtVerif.PadChunk
