import PdtVerif.Model.StringMatchOracle
import PdtVerif.Lemmas.StringMatchBatch
/-!
# Lemmas for C01: the one-pass prefix oracle, and `_lens_from_eos` under any tie-break of `torch.max`

* `dpRows_eq`, `prefixDists_eq` — the rows kept by ONE run of the DP are the rows of the DP on every prefix,
  so `prefixDists c ref hyp` is `dpDist c ref (hyp.take k)` for `k = 0..|hyp|`;
* `hitCol_getD`, `hitCol_any` — `x.eq(1) & mask` holds exactly at the first eos (nowhere without eos);
* `lensColAny_eq` — whichever maximal index `torch.max` reports, `_lens_from_eos` is the first-eos index;
* `hitB_col`, `lensFromEosAny_eq` — the same on the `(L, N)` tensor: any admissible index vector gives
  `lensFromEosB` (the "first hit" reading of the tensor-level model).
-/
set_option linter.unusedSectionVars false

namespace PdtVerif.StringMatch
open PdtVerif.Lev

variable {α : Type} [DecidableEq α]

/-! ### One DP run gives every prefix -/

theorem dpRows_eq (c : Costs) (ref : List α) (ys : List α) (row : List Rat) :
    dpRows c ref ys row
      = (List.range (ys.length + 1)).map
          (fun k => (ys.take k).foldl (fun r y => stepRow c ref y r) row) := by
  induction ys generalizing row with
  | nil => simp [dpRows]
  | cons y ys ih =>
    rw [dpRows, ih]
    conv_rhs => rw [List.length_cons, List.range_succ_eq_map, List.map_cons, List.map_map]
    simp [Function.comp_def]

theorem prefixDists_eq (c : Costs) (ref hyp : List α) :
    prefixDists c ref hyp = (List.range (hyp.length + 1)).map (fun k => dpDist c ref (hyp.take k)) := by
  unfold prefixDists
  rw [dpRows_eq, List.map_map]
  rfl

theorem prefixDists_length (c : Costs) (ref hyp : List α) : (prefixDists c ref hyp).length = hyp.length + 1 := by
  simp [prefixDists_eq]

/-! ### `x.eq(1) & mask` on one column -/

/-- The column `x.eq(1) & mask` when the running count before the column is `acc`. -/
def hitFrom (eos : α) (acc : Nat) (tok : List α) : List Bool :=
  let ms := tok.map (fun t => decide (t = eos))
  List.zipWith (fun (xi : Nat) (m : Bool) => decide (xi = 1) && m)
    (cumsumNat acc (ms.map (fun b => if b then 1 else 0))) ms

theorem hitCol_eq_hitFrom (eos : α) (tok : List α) : hitCol eos tok = hitFrom eos 0 tok := rfl

theorem hitFrom_cons (eos : α) (acc : Nat) (t : α) (ts : List α) :
    hitFrom eos acc (t :: ts)
      = (decide (acc + (if t = eos then 1 else 0) = 1) && decide (t = eos))
          :: hitFrom eos (acc + (if t = eos then 1 else 0)) ts := by
  by_cases h : t = eos <;> simp [hitFrom, cumsumNat, h]

/-- Once an eos has been counted no later position can be "the first". -/
theorem hitFrom_pos (eos : α) (acc : Nat) (hacc : 1 ≤ acc) (tok : List α) (i : Nat) :
    (hitFrom eos acc tok).getD i false = false := by
  induction tok generalizing acc i with
  | nil => simp [hitFrom, cumsumNat]
  | cons t ts ih =>
    rw [hitFrom_cons]
    cases i with
    | zero =>
      by_cases h : t = eos
      · simp [h]
        omega
      · simp [h]
    | succ j =>
      simp only [List.getD_cons_succ]
      exact ih _ (by omega) j

theorem hitFrom_length (eos : α) (acc : Nat) (tok : List α) : (hitFrom eos acc tok).length = tok.length := by
  induction tok generalizing acc with
  | nil => simp [hitFrom, cumsumNat]
  | cons t ts ih => rw [hitFrom_cons, List.length_cons, ih, List.length_cons]

theorem hitCol_length (eos : α) (tok : List α) : (hitCol eos tok).length = tok.length :=
  hitFrom_length eos 0 tok

/-- `x.eq(1) & mask` is `True` exactly at the first eos. -/
theorem hitCol_getD (eos : α) (tok : List α) (i : Nat) :
    (hitCol eos tok).getD i false = decide (i < tok.length ∧ i = firstEos eos tok) := by
  rw [hitCol_eq_hitFrom]
  induction tok generalizing i with
  | nil => simp [hitFrom, cumsumNat]
  | cons t ts ih =>
    rw [hitFrom_cons]
    by_cases h : t = eos
    · cases i with
      | zero => simp [h, firstEos]
      | succ j =>
        simp only [h, if_true, List.getD_cons_succ, firstEos]
        rw [hitFrom_pos eos (0 + 1) (by omega) ts j]
        simp
    · cases i with
      | zero => simp [h, firstEos]
      | succ j =>
        simp only [h, if_false, Nat.add_zero, List.getD_cons_succ, firstEos, List.length_cons]
        rw [ih j]
        simp

/-- `max_` of `(x.eq(1) & mask).max(dim)`: is there an eos in the column at all. -/
theorem hitCol_any (eos : α) (tok : List α) :
    (hitCol eos tok).any id = decide (firstEos eos tok < tok.length) := by
  rw [hitCol_eq_hitFrom]
  induction tok with
  | nil => simp [hitFrom, cumsumNat, firstEos]
  | cons t ts ih =>
    rw [hitFrom_cons]
    by_cases h : t = eos
    · simp [h, firstEos]
    · simp only [h, if_false, Nat.add_zero, decide_false, Bool.and_false, List.any_cons, id, Bool.false_or,
        firstEos, List.length_cons]
      rw [ih]
      simp

/-- **`_lens_from_eos` does not depend on the tie-break of `torch.max`**: for a non-empty column, whichever
index holding the maximum of `x.eq(1) & mask` is reported, the result is the index of the first eos, and the
padded length when the column holds none. (Empty column: the `mask.sum(dim)` branch, 0.) -/
theorem lensColAny_eq (eos : α) (tok : List α) (i : Nat) (hi : tok ≠ [] → IsArgmax (hitCol eos tok) i) :
    lensColAny eos tok i = firstEos eos tok := by
  unfold lensColAny
  by_cases h0 : tok.length = 0
  · have : tok = [] := List.eq_nil_of_length_eq_zero h0
    subst this
    simp [firstEos]
  · have hne : tok ≠ [] := fun h => h0 (by simp [h])
    obtain ⟨_, hmax⟩ := hi hne
    rw [if_neg h0, hitCol_any]
    by_cases hlt : firstEos eos tok < tok.length
    · rw [hitCol_getD, hitCol_any] at hmax
      simp only [hlt, decide_true, decide_eq_true_eq] at hmax
      simp [hlt, hmax.2]
    · have := firstEos_le eos tok
      simp only [hlt, decide_false, Bool.false_eq_true, if_false]
      omega

/-- There always is an admissible index (the contract is satisfiable), … -/
theorem exists_isArgmax (eos : α) (tok : List α) (hne : tok ≠ []) : ∃ i, IsArgmax (hitCol eos tok) i := by
  have hpos : 0 < tok.length := List.length_pos_iff.mpr hne
  by_cases hlt : firstEos eos tok < tok.length
  · refine ⟨firstEos eos tok, by rw [hitCol_length]; exact hlt, ?_⟩
    rw [hitCol_getD, hitCol_any]
    simp [hlt]
  · refine ⟨0, by rw [hitCol_length]; exact hpos, ?_⟩
    rw [hitCol_getD, hitCol_any]
    have : ¬ (0 = firstEos eos tok) := by omega
    simp [hlt, this]

/-- … and in a column without eos EVERY index is admissible (the ties are real). -/
theorem isArgmax_of_no_eos (eos : α) (tok : List α) (hno : firstEos eos tok = tok.length) (i : Nat)
    (hi : i < tok.length) : IsArgmax (hitCol eos tok) i := by
  refine ⟨by rw [hitCol_length]; exact hi, ?_⟩
  rw [hitCol_getD, hitCol_any]
  have h1 : ¬ (firstEos eos tok < tok.length) := by omega
  have h2 : ¬ (i = firstEos eos tok) := by omega
  simp [h1, h2]

/-! ### The same on the `(L, N)` tensor -/

theorem cumsumNat_eq (acc : Nat) (l : List Nat) : cumsumNat acc l = cumsumCol acc l := by
  induction l generalizing acc with
  | nil => rfl
  | cons m ms ih => simp [cumsumNat, cumsumCol, ih]

/-- Column `n` of the tensor `x.eq(1) & mask` is `x.eq(1) & mask` of column `n`. -/
theorem hitB_col (eos : α) (N n : Nat) (hn : n < N) (tok : List (List α)) (hW : Wide N tok) (dα : α) :
    colOf (hitB eos N tok) n false = hitCol eos (colOf tok n dα) := by
  unfold hitB hitCol
  have hmaskW : Wide N (tok.map (fun r => r.map (fun t => decide (t = eos)))) :=
    wide_map _ _ hW (fun r hr => by simp [hr])
  have hnatW : Wide N ((tok.map (fun r => r.map (fun t => decide (t = eos)))).map
      (fun r => r.map (fun (b : Bool) => if b then 1 else 0))) :=
    wide_map _ _ hmaskW (fun r hr => by simp [hr])
  rw [colOf_zipWith_zipWith (fun (xi : Nat) (m : Bool) => decide (xi = 1) && m) _ _ N n
    (cumsumAux_wide N _ (by simp) _ hnatW) hmaskW hn false 0 false]
  rw [cumsumAux_col N n hn _ (by simp) _ hnatW]
  rw [colOf_map_map (fun (b : Bool) => if b then 1 else 0) _ N n hmaskW hn 0 false]
  rw [colOf_map_map (fun t => decide (t = eos)) tok N n hW hn false dα]
  simp [cumsumNat_eq, List.getD_eq_getElem?_getD, hn]

/-- **`_lens_from_eos` on the tensor, any tie-break**: whatever vector of maximal indices
`(x.eq(1) & mask).max(0)` reports (one admissible index per column), the result is the tensor-level model's
`lensFromEosB`, whose entry `n` is the first-eos index of column `n` (`lensFromEosB_getD`). -/
theorem lensFromEosAny_eq (eos : α) (N : Nat) (tok : List (List α)) (hW : Wide N tok) (argmax : List Nat)
    (hA : tok ≠ [] → ∀ n, n < N → IsArgmax (colOf (hitB eos N tok) n false) (argmax.getD n 0)) :
    lensFromEosAny eos N tok argmax = lensFromEosB eos N tok := by
  apply List.ext_getElem?
  intro n
  by_cases hn : n < N
  · have hR : (lensFromEosB eos N tok)[n]? = some (firstEos eos (colOf tok n (eos))) := by
      have hl := lensFromEosB_length eos N tok
      have := lensFromEosB_getD eos N n hn tok hW eos
      rw [List.getD_eq_getElem?_getD, List.getElem?_eq_getElem (by omega)] at this
      rw [List.getElem?_eq_getElem (by omega)]
      simpa using this
    rw [hR]
    unfold lensFromEosAny
    by_cases h0 : tok.length = 0
    · have : tok = [] := List.eq_nil_of_length_eq_zero h0
      subst this
      simp [hn, colOf, firstEos]
    · have hne : tok ≠ [] := fun h => h0 (by simp [h])
      rw [if_neg h0, List.getElem?_map, List.getElem?_range hn]
      simp only [Option.map_some, Option.some.injEq]
      have hcol := hitB_col eos N n hn tok hW eos
      have hAn := hA hne n hn
      rw [hcol] at hAn ⊢
      have hne' : colOf tok n eos ≠ [] := by
        intro h
        have := congrArg List.length h
        rw [colOf_length] at this
        exact h0 (by simpa using this)
      have := lensColAny_eq eos (colOf tok n eos) (argmax.getD n 0) (fun _ => hAn)
      unfold lensColAny at this
      rw [colOf_length, if_neg h0] at this
      exact this
  · have h1 : (lensFromEosAny eos N tok argmax).length ≤ n := by
      unfold lensFromEosAny
      split <;> simp <;> omega
    have h2 : (lensFromEosB eos N tok).length ≤ n := by rw [lensFromEosB_length]; omega
    rw [List.getElem?_eq_none h1, List.getElem?_eq_none h2]

end PdtVerif.StringMatch
