import PdtVerif.Model.SeqScoreWalk
import PdtVerif.Spec.SeqScore
import PdtVerif.Lemmas.SeqScore
/-! Helper lemmas for the random walk (core Lean only): the loop invariant. -/
namespace PdtVerif.SeqScore

/-! ### small list facts -/

theorem set_noop {α} (l : List α) (i : Nat) (a : α) (h : l[i]? = some a ∨ l.length ≤ i) :
    l.set i a = l := by
  induction l generalizing i with
  | nil => simp
  | cons x xs ih =>
    cases i with
    | zero => rcases h with h | h <;> simp_all
    | succ i =>
      simp only [List.set_cons_succ]
      rw [ih i (by rcases h with h | h <;> simp_all)]

theorem modify_noop {α} (l : List α) (i : Nat) (f : α → α) (h : ∀ a, l[i]? = some a → f a = a) :
    l.modify i f = l := by
  apply List.ext_getElem?
  intro j
  rw [List.getElem?_modify]
  cases hj : l[j]? with
  | none => rfl
  | some a =>
    by_cases hij : i = j
    · subst hij; simp [h a hj]
    · simp [hij]

theorem foldl_noop {α β} (f : α → β → α) (y : α) (l : List β) (h : ∀ b ∈ l, f y b = y) :
    l.foldl f y = y := by
  induction l with
  | nil => rfl
  | cons b bs ih =>
    simp only [List.foldl_cons, h b (by simp)]
    exact ih (fun b' hb' => h b' (by simp [hb']))

theorem le_foldl_max (l : List Nat) (a x : Nat) (hx : x ∈ l) : x ≤ l.foldl max a := by
  induction l generalizing a with
  | nil => simp at hx
  | cons b bs ih =>
    simp only [List.foldl_cons]
    rcases List.mem_cons.1 hx with h | h
    · subst h
      have : ∀ (l : List Nat) (a : Nat), a ≤ l.foldl max a := by
        intro l
        induction l with
        | nil => intro a; exact Nat.le_refl _
        | cons c cs ihc => intro a; exact Nat.le_trans (Nat.le_max_left a c) (ihc (max a c))
      exact Nat.le_trans (Nat.le_max_right a x) (this bs (max a x))
    · exact ih _ h

/-! ### what the invariant says about one path -/

/-- Length of the path a draw column produces. -/
def pathLen (eos : Option Nat) (col : List Nat) : Nat := (Spec.pathOf eos col).length

/-- Has the path ended (its column contains `eos`)? -/
def isDone (eos : Option Nat) (col : List Nat) : Bool :=
  match eos with
  | none => false
  | some e => col.contains e

theorem column_append (P : List (List Nat)) (d : List Nat) (n : Nat) :
    column (P ++ [d]) n = column P n ++ [d.getD n 0] := by
  simp [column]

theorem column_length (P : List (List Nat)) (n : Nat) : (column P n).length = P.length := by
  simp [column]

theorem pathOf_append_done (e : Nat) (col : List Nat) (x : Nat) (h : e ∈ col) :
    Spec.pathOf (some e) (col ++ [x]) = Spec.pathOf (some e) col := by
  simp only [Spec.pathOf, List.idxOf_append, h, if_true]
  have : col.idxOf e + 1 ≤ col.length := by
    have := List.idxOf_lt_length_iff.2 h; omega
  exact List.take_append_of_le_length this

theorem pathOf_not_done (e : Nat) (col : List Nat) (h : e ∉ col) :
    Spec.pathOf (some e) col = col := by
  simp only [Spec.pathOf, List.idxOf_eq_length h]
  exact List.take_of_length_le (by omega)

theorem pathOf_append_not_done (eos : Option Nat) (col : List Nat) (x : Nat)
    (h : isDone eos col = false) :
    Spec.pathOf eos (col ++ [x]) = Spec.pathOf eos col ++ [x] := by
  cases eos with
  | none => rfl
  | some e =>
    have hn : e ∉ col := by
      intro hm; simp [isDone] at h; exact h hm
    rw [pathOf_not_done e col hn]
    simp only [Spec.pathOf, List.idxOf_append, hn, if_false]
    apply List.take_of_length_le
    by_cases hx : x = e
    · subst hx; simp
    · have : e ∉ [x] := by simp; exact fun h' => hx h'.symm
      rw [List.idxOf_eq_length this]; simp

theorem pathOf_of_not_done (eos : Option Nat) (col : List Nat) (h : isDone eos col = false) :
    Spec.pathOf eos col = col := by
  cases eos with
  | none => rfl
  | some e =>
    apply pathOf_not_done
    intro hm; simp [isDone] at h; exact h hm

theorem chained_append (lm : List Nat → Nat → Rat) (h p : List Nat) (v : Nat) :
    Spec.chained lm h (p ++ [v]) = Spec.chained lm h p + lm (h ++ p) v := by
  induction p generalizing h with
  | nil => simp [Spec.chained, Rat.add_zero, Rat.zero_add]
  | cons a as ih =>
    simp only [List.cons_append, Spec.chained, ih, Rat.add_assoc]
    simp

/-! ### lists indexed by the path number -/

theorem range_form {α} (d : List α) (N : Nat) (dflt : α) (h : d.length = N) :
    d = (List.range N).map (fun n => d.getD n dflt) := by
  apply List.ext_getElem
  · simp [h]
  · intro i h1 h2
    simp [List.getD_eq_getElem?_getD, List.getElem?_eq_getElem h1]

theorem zipWith_range {α β γ} (f : α → β → γ) (g : Nat → α) (h : Nat → β) (N : Nat) :
    List.zipWith f ((List.range N).map g) ((List.range N).map h)
      = (List.range N).map (fun n => f (g n) (h n)) := by
  rw [List.zipWith_map, List.zipWith_self]

theorem zipIdx_range {α} (g : Nat → α) (N : Nat) :
    ((List.range N).map g).zipIdx = (List.range N).map (fun n => (g n, n)) := by
  apply List.ext_getElem
  · simp
  · intro i h1 h2
    simp

theorem map_range_congr {α} (f g : Nat → α) (N : Nat) (h : ∀ n, n < N → f n = g n) :
    (List.range N).map f = (List.range N).map g :=
  List.map_congr_left (fun n hn => h n (List.mem_range.1 hn))

/-! ### the invariant -/

/-- Draw rows are well formed: `N` tokens each, all in the vocabulary. -/
structure Rows (N V : Nat) (D : List (List Nat)) : Prop where
  len : ∀ r ∈ D, r.length = N
  vocab : ∀ r ∈ D, ∀ x ∈ r, x < V

/-- After a path has ended only `eos` can be drawn for it (all other tokens have probability
zero after the `-inf` fill). -/
def Forced (eos : Option Nat) (N : Nat) (D : List (List Nat)) : Prop :=
  ∀ e, eos = some e → ∀ n, n < N → ∀ i j, i < j → j < D.length →
    (column D n)[i]? = some e → (column D n)[j]? = some e

/-- State of the walk after the draw rows `P` have been consumed. -/
structure Inv (lm : LM) (eos : Option Nat) (N : Nat) (P : List (List Nat)) (s : WState) : Prop where
  y : s.y = P
  lens : s.lens = (List.range N).map (fun n => pathLen eos (column P n))
  done : s.done = (List.range N).map (fun n => isDone eos (column P n))
  lp : s.lp = (List.range N).map
    (fun n => some (Spec.chained (lm n) [] (Spec.pathOf eos (column P n))))

theorem Rows.prefix {N V : Nat} {P : List (List Nat)} {d : List Nat} (h : Rows N V (P ++ [d])) :
    Rows N V P :=
  ⟨fun r hr => h.len r (by simp [hr]), fun r hr => h.vocab r (by simp [hr])⟩

theorem inv_init (lm : LM) (eos : Option Nat) (N : Nat) : Inv lm eos N [] (initState N) := by
  refine ⟨rfl, ?_, ?_, ?_⟩
  · apply List.ext_getElem
    · simp [initState]
    · intro i h1 h2
      cases eos <;> simp [initState, pathLen, column, Spec.pathOf]
  · apply List.ext_getElem
    · simp [initState]
    · intro i h1 h2
      cases eos <;> simp [initState, isDone, column]
  · apply List.ext_getElem
    · simp [initState]
    · intro i h1 h2
      cases eos <;> simp [initState, column, Spec.pathOf, Spec.chained]

/-- The cell the `scatter` writes already holds the drawn token. -/
theorem scatter_cell (eos : Option Nat) (N : Nat) (P : List (List Nat)) (d : List Nat) {V : Nat}
    (hrows : Rows N V (P ++ [d])) (hf : Forced eos N (P ++ [d])) (n : Nat) (hn : n < N) :
    setCell (P ++ [d]) (pathLen eos (column P n)) n (d.getD n 0) = P ++ [d] := by
  unfold setCell
  apply modify_noop
  intro row hrow
  have hmem : row ∈ P ++ [d] := List.mem_of_getElem? hrow
  have hlen : row.length = N := hrows.len row hmem
  apply set_noop
  left
  have hr : row[n]? = some (row.getD n 0) := by
    simp [List.getD_eq_getElem?_getD, List.getElem?_eq_getElem (by omega : n < row.length)]
  rw [hr]
  congr 1
  -- the value of that cell
  have hcol : (column (P ++ [d]) n)[pathLen eos (column P n)]? = some (row.getD n 0) := by
    show ((P ++ [d]).map (fun row => row.getD n 0))[_]? = _
    rw [List.getElem?_map, hrow]; rfl
  have hlast : (column (P ++ [d]) n)[P.length]? = some (d.getD n 0) := by
    simp [column]
  by_cases hd : isDone eos (column P n) = false
  · have : pathLen eos (column P n) = P.length := by
      simp [pathLen, pathOf_of_not_done eos _ hd, column_length]
    rw [this, hlast] at hcol
    exact (Option.some.inj hcol).symm
  · cases eos with
    | none => simp [isDone] at hd
    | some e =>
      have hm : e ∈ column P n := by simpa [isDone] using hd
      have hi : (column P n).idxOf e < (column P n).length := List.idxOf_lt_length_iff.2 hm
      have hpl : pathLen (some e) (column P n) = (column P n).idxOf e + 1 := by
        simp [pathLen, Spec.pathOf]; omega
      have hat : (column (P ++ [d]) n)[(column P n).idxOf e]? = some e := by
        rw [column_append, List.getElem?_append_left hi, List.getElem?_eq_getElem hi,
          List.getElem_idxOf hi]
      have hPl : (column P n).length = P.length := column_length P n
      have h1 := hf e rfl n hn ((column P n).idxOf e) ((column P n).idxOf e + 1) (by omega)
        (by simp; omega) hat
      rw [← hpl, hcol] at h1
      have h2 := hf e rfl n hn ((column P n).idxOf e) P.length (by omega) (by simp) hat
      rw [hlast] at h2
      rw [Option.some.inj h1, Option.some.inj h2]

theorem growY_eq (eos : Option Nat) (N : Nat) (P : List (List Nat)) (d : List Nat) {V : Nat}
    (hrows : Rows N V (P ++ [d])) (hf : Forced eos N (P ++ [d]))
    (hnd : ∃ n, n < N ∧ isDone eos (column P n) = false) :
    growY P (some ((List.range N).map (fun n => pathLen eos (column P n)))) d = P ++ [d] := by
  unfold growY
  by_cases h0 : P.length = 0
  · have : P = [] := List.eq_nil_of_length_eq_zero h0
    subst this; simp
  · simp only [ne_eq, h0, not_false_eq_true, if_true]
    obtain ⟨n, hn, hdn⟩ := hnd
    have hmem : P.length ∈ (List.range N).map (fun n => pathLen eos (column P n)) := by
      refine List.mem_map.2 ⟨n, List.mem_range.2 hn, ?_⟩
      simp [pathLen, pathOf_of_not_done eos _ hdn, column_length]
    have hge := le_foldl_max _ 0 _ hmem
    simp only [hge, if_true]
    unfold scatterDraw
    apply foldl_noop
    intro m hm
    have hdl : d.length = N := hrows.len d (by simp)
    have hmN : m < N := by simpa [hdl] using hm
    have hg : ((List.range N).map (fun n => pathLen eos (column P n))).getD m 0
        = pathLen eos (column P m) := by
      simp [List.getD_eq_getElem?_getD, List.getElem?_map, List.getElem?_range hmN]
    rw [hg]
    exact scatter_cell eos N P d hrows hf m hmN

theorem getD_map_range {α} (g : Nat → α) (V x : Nat) (dflt : α) (hx : x < V) :
    ((List.range V).map g).getD x dflt = g x := by
  simp [List.getD_eq_getElem?_getD, List.getElem?_map, List.getElem?_range hx]

/-- A finished path draws `eos`. -/
theorem forced_last (e N : Nat) (P : List (List Nat)) (d : List Nat)
    (hf : Forced (some e) N (P ++ [d])) (n : Nat) (hn : n < N) (hm : e ∈ column P n) :
    d.getD n 0 = e := by
  have hi : (column P n).idxOf e < (column P n).length := List.idxOf_lt_length_iff.2 hm
  have hat : (column (P ++ [d]) n)[(column P n).idxOf e]? = some e := by
    rw [column_append, List.getElem?_append_left hi, List.getElem?_eq_getElem hi,
      List.getElem_idxOf hi]
  have hPl : (column P n).length = P.length := column_length P n
  have h2 := hf e rfl n hn ((column P n).idxOf e) P.length (by omega) (by simp) hat
  have hlast : (column (P ++ [d]) n)[P.length]? = some (d.getD n 0) := by
    simp [column]
  rw [hlast] at h2
  exact Option.some.inj h2

theorem draw_lt (N V : Nat) (P : List (List Nat)) (d : List Nat) (hrows : Rows N V (P ++ [d]))
    (n : Nat) (hn : n < N) : d.getD n 0 < V := by
  have hdl : d.length = N := hrows.len d (by simp)
  have hnd : n < d.length := by omega
  have : d.getD n 0 = d[n] := by
    simp [List.getD_eq_getElem?_getD, List.getElem?_eq_getElem hnd]
  rw [this]
  exact hrows.vocab d (by simp) _ (List.getElem_mem hnd)

theorem pickScores_eq (lm : LM) (V : Nat) (eos : Option Nat) (N : Nat) (P : List (List Nat))
    (d : List Nat) (hrows : Rows N V (P ++ [d])) (hf : Forced eos N (P ++ [d]))
    (heos : ∀ e, eos = some e → e < V) :
    pickScores (forceEos V eos ((List.range N).map (fun n => isDone eos (column P n)))
        (lmRows lm V N P))
      ((List.range N).map (fun n => some (Spec.chained (lm n) [] (Spec.pathOf eos (column P n))))) d
    = (List.range N).map
        (fun n => some (Spec.chained (lm n) [] (Spec.pathOf eos (column (P ++ [d]) n)))) := by
  have hdl : d.length = N := hrows.len d (by simp)
  unfold pickScores lmRows
  rw [range_form d N 0 hdl]
  cases eos with
  | none =>
    simp only [forceEos, zipWith_range]
    apply map_range_congr
    intro n hn
    have hx := draw_lt N V P d hrows n hn
    rw [← range_form d N 0 hdl]
    rw [getD_map_range _ V _ _ hx]
    simp only [addLP, Spec.pathOf, column_append, chained_append, List.nil_append]
  | some e =>
    simp only [forceEos, zipWith_range]
    apply map_range_congr
    intro n hn
    rw [← range_form d N 0 hdl]
    have hx := draw_lt N V P d hrows n hn
    by_cases hd : isDone (some e) (column P n) = true
    · have hm : e ∈ column P n := by simpa [isDone] using hd
      have hxe := forced_last e N P d hf n hn hm
      simp only [hd, if_true]
      rw [getD_map_range _ V _ _ hx, hxe]
      simp only [if_true, addLP, Rat.add_zero, column_append]
      rw [pathOf_append_done e _ _ hm]
    · have hd' : isDone (some e) (column P n) = false := by simpa using hd
      simp only [hd', Bool.false_eq_true, if_false]
      rw [getD_map_range _ V _ _ hx]
      simp only [addLP, column_append]
      rw [pathOf_append_not_done _ _ _ hd', pathOf_of_not_done _ _ hd', chained_append]
      simp

theorem nextLens_eq (eos : Option Nat) (N : Nat) (P : List (List Nat)) (d : List Nat) :
    nextLens eos ((List.range N).map (fun n => pathLen eos (column P n)))
      ((List.range N).map (fun n => isDone eos (column P n)))
    = (List.range N).map (fun n => pathLen eos (column (P ++ [d]) n)) := by
  cases eos with
  | none =>
    simp only [nextLens, List.map_map]
    apply map_range_congr
    intro n _
    simp [pathLen, Spec.pathOf, column_append]
  | some e =>
    simp only [nextLens, zipWith_range]
    apply map_range_congr
    intro n _
    by_cases hd : isDone (some e) (column P n) = true
    · have hm : e ∈ column P n := by simpa [isDone] using hd
      simp only [hd, if_true, pathLen, column_append]
      rw [pathOf_append_done e _ _ hm]
    · have hd' : isDone (some e) (column P n) = false := by simpa using hd
      simp only [hd', Bool.false_eq_true, if_false, pathLen, column_append]
      rw [pathOf_append_not_done _ _ _ hd']
      simp

/-- The token at the end of a path is `eos` exactly when the column contains `eos`. -/
theorem last_is_eos (e : Nat) (col : List Nat) (hne : col ≠ []) :
    (col.getD (pathLen (some e) col - 1) 0 == e) = col.contains e := by
  by_cases hm : e ∈ col
  · have hi : col.idxOf e < col.length := List.idxOf_lt_length_iff.2 hm
    have hpl : pathLen (some e) col = col.idxOf e + 1 := by
      simp [pathLen, Spec.pathOf]; omega
    rw [hpl]
    simp [List.getD_eq_getElem?_getD, List.getElem?_eq_getElem hi, List.getElem_idxOf hi, hm]
  · have hpl : pathLen (some e) col = col.length := by
      simp [pathLen, pathOf_not_done e col hm]
    have hpos : 0 < col.length := List.length_pos_iff.2 hne
    have hlt : col.length - 1 < col.length := by omega
    rw [hpl]
    have hc : col.contains e = false := by
      simpa using hm
    rw [hc]
    simp only [List.getD_eq_getElem?_getD, List.getElem?_eq_getElem hlt, Option.getD_some,
      beq_eq_false_iff_ne, ne_eq]
    intro h
    exact hm (h ▸ List.getElem_mem hlt)

theorem cell_eq (Y : List (List Nat)) (r n : Nat) (h : r < Y.length) :
    (Y.getD r []).getD n 0 = (column Y n).getD r 0 := by
  simp [column, List.getD_eq_getElem?_getD, List.getElem?_map, List.getElem?_eq_getElem h]

theorem nextDone_eq (eos : Option Nat) (N : Nat) (P : List (List Nat)) (d : List Nat) :
    nextDone eos (P ++ [d]) ((List.range N).map (fun n => pathLen eos (column (P ++ [d]) n)))
      ((List.range N).map (fun n => isDone eos (column P n)))
    = (List.range N).map (fun n => isDone eos (column (P ++ [d]) n)) := by
  cases eos with
  | none =>
    simp only [nextDone]
    apply map_range_congr
    intro n _
    rfl
  | some e =>
    simp only [nextDone, zipIdx_range, List.map_map]
    apply map_range_congr
    intro n _
    simp only [Function.comp]
    have hne : column (P ++ [d]) n ≠ [] := by simp [column]
    have hl := last_is_eos e (column (P ++ [d]) n) hne
    simp only [isDone]
    rw [← hl]
    congr 1
    -- the cell of `y` is the cell of the column
    have hpos : 0 < (column (P ++ [d]) n).length := List.length_pos_iff.2 hne
    have hle : pathLen (some e) (column (P ++ [d]) n) ≤ (column (P ++ [d]) n).length := by
      simp only [pathLen, Spec.pathOf, List.length_take]; omega
    have hlt : pathLen (some e) (column (P ++ [d]) n) - 1 < (P ++ [d]).length := by
      rw [column_length] at hle hpos; omega
    exact cell_eq _ _ _ hlt

/-- **One iteration keeps the invariant.** -/
theorem step_inv (lm : LM) (V : Nat) (eos : Option Nat) (N : Nat) (P : List (List Nat))
    (s : WState) (d : List Nat) (hinv : Inv lm eos N P s) (hrows : Rows N V (P ++ [d]))
    (hf : Forced eos N (P ++ [d])) (heos : ∀ e, eos = some e → e < V)
    (hnd : s.done.all id = false) :
    Inv lm eos N (P ++ [d]) (step lm V eos P.length s d) := by
  obtain ⟨hy, hlens, hdone, hlp⟩ := hinv
  have hex : ∃ n, n < N ∧ isDone eos (column P n) = false := by
    rw [hdone] at hnd
    have : ¬ (∀ x ∈ (List.range N).map (fun n => isDone eos (column P n)), id x = true) := by
      intro h; rw [List.all_eq_true.2 h] at hnd; cases hnd
    apply Classical.byContradiction
    intro hno
    apply this
    intro x hx
    obtain ⟨n, hn, rfl⟩ := List.mem_map.1 hx
    have hn' := List.mem_range.1 hn
    cases hb : isDone eos (column P n) with
    | true => rfl
    | false => exact absurd ⟨n, hn', hb⟩ hno
  have hy' : growY s.y (some s.lens) d = P ++ [d] := by
    rw [hy, hlens]; exact growY_eq eos N P d hrows hf hex
  have hN : s.lens.length = N := by rw [hlens]; simp
  have htake : s.y.take P.length = P := by rw [hy]; simp
  unfold step advance
  simp only [hy', hN, htake]
  refine ⟨rfl, ?_, ?_, ?_⟩
  · rw [hlens, hdone]; exact nextLens_eq eos N P d
  · rw [hlens, hdone, nextLens_eq eos N P d]; exact nextDone_eq eos N P d
  · rw [hdone, hlp]; exact pickScores_eq lm V eos N P d hrows hf heos

/-! ### the loop -/

theorem column_append_gen (A B : List (List Nat)) (n : Nat) :
    column (A ++ B) n = column A n ++ column B n := by
  simp [column]

theorem Rows.left {N V : Nat} {A B : List (List Nat)} (h : Rows N V (A ++ B)) : Rows N V A :=
  ⟨fun r hr => h.len r (by simp [hr]), fun r hr => h.vocab r (by simp [hr])⟩

theorem forced_left {eos : Option Nat} {N : Nat} {A B : List (List Nat)}
    (h : Forced eos N (A ++ B)) : Forced eos N A := by
  intro e he n hn i j hij hj hi
  have hjc : j < (column A n).length := by rw [column_length]; exact hj
  have hic : i < (column A n).length := by omega
  have := h e he n hn i j hij (by simp; omega)
    (by rw [column_append_gen, List.getElem?_append_left hic]; exact hi)
  rwa [column_append_gen, List.getElem?_append_left hjc] at this

/-- Every path has ended. -/
def AllDone (eos : Option Nat) (N : Nat) (P : List (List Nat)) : Prop :=
  ∀ n, n < N → isDone eos (column P n) = true

/-- **The loop invariant.** Started in a state that describes the consumed draws `P`, the loop
stops after consuming some `t` further rows of `R`, in the state that describes `P ++ R.take t`;
it stops early only when every path has ended. -/
theorem walkLoop_inv (lm : LM) (V : Nat) (eos : Option Nat) (N : Nat)
    (heos : ∀ e, eos = some e → e < V) (R P : List (List Nat)) (s : WState)
    (hrows : Rows N V (P ++ R)) (hf : Forced eos N (P ++ R)) (hinv : Inv lm eos N P s) :
    ∃ t, t ≤ R.length ∧ Inv lm eos N (P ++ R.take t) (walkLoop lm V eos P.length R s) ∧
      (t = R.length ∨ AllDone eos N (P ++ R.take t)) := by
  induction R generalizing P s with
  | nil => exact ⟨0, Nat.le_refl _, by simpa [walkLoop] using hinv, Or.inl rfl⟩
  | cons d R ih =>
    unfold walkLoop
    by_cases hall : s.done.all id = true
    · refine ⟨0, Nat.zero_le _, by simpa [hall] using hinv, Or.inr ?_⟩
      intro n hn
      have := List.all_eq_true.1 hall (isDone eos (column P n))
        (by rw [hinv.done]; exact List.mem_map.2 ⟨n, List.mem_range.2 hn, rfl⟩)
      simpa using this
    · have hall' : s.done.all id = false := by simpa using hall
      have hrows' : Rows N V ((P ++ [d]) ++ R) := by simpa using hrows
      have hf' : Forced eos N ((P ++ [d]) ++ R) := by simpa using hf
      have hstep := step_inv lm V eos N P s d hinv hrows'.left (forced_left hf') heos hall'
      obtain ⟨t, ht, hinv', hend⟩ := ih (P ++ [d]) _ hrows' hf' hstep
      refine ⟨t + 1, by simpa using ht, ?_, ?_⟩
      · simp only [hall', Bool.false_eq_true, if_false]
        have : (P ++ [d]).length = P.length + 1 := by simp
        rw [this] at hinv'
        simpa using hinv'
      · rcases hend with h | h
        · left; simp [h]
        · right; simpa using h

/-! ### re-scoring a path with `log_prob` / `sequence_log_probs` -/

theorem chained_eq_sum (lm : List Nat → Nat → Rat) (h p : List Nat) (k : Nat) :
    Spec.chained lm h p
      = ((p.zipIdx k).map (fun vt => lm (h ++ p.take (vt.2 - k)) vt.1)).sum := by
  induction p generalizing h k with
  | nil => simp [Spec.chained]
  | cons a as ih =>
    rw [Spec.chained, List.zipIdx_cons, List.map_cons, List.sum_cons, ih (h ++ [a]) (k + 1)]
    simp only [Nat.sub_self, List.take_zero, List.append_nil]
    congr 2
    apply List.map_congr_left
    intro vt hvt
    have hle := List.le_snd_of_mem_zipIdx hvt
    have : vt.2 - k = (vt.2 - (k + 1)) + 1 := by omega
    rw [this, List.take_succ_cons]
    simp

theorem idxOf_map_ofNat (col : List Nat) (e : Nat) :
    (col.map Int.ofNat).idxOf (Int.ofNat e) = col.idxOf e := by
  induction col with
  | nil => rfl
  | cons a as ih =>
    simp only [List.map_cons, List.idxOf_cons, ih]
    by_cases h : a = e
    · subst h; simp
    · have h1 : (a == e) = false := by simpa using h
      have h2 : ((a : Int) == (e : Int)) = false := by
        simp only [beq_eq_false_iff_ne, ne_eq]; intro h'; exact h (Int.ofNat.inj h')
      simp only [Int.ofNat_eq_natCast, h1, h2]

theorem pathOf_prefix (eos : Option Nat) (col : List Nat) :
    ∃ m, m ≤ col.length ∧ Spec.pathOf eos col = col.take m := by
  cases eos with
  | none => exact ⟨col.length, Nat.le_refl _, by simp [Spec.pathOf]⟩
  | some e =>
    by_cases hm : e ∈ col
    · have := List.idxOf_lt_length_iff.2 hm
      exact ⟨col.idxOf e + 1, by omega, rfl⟩
    · exact ⟨col.length, Nat.le_refl _, by rw [pathOf_not_done e col hm]; simp⟩

/-- The wrapper's `log_prob` (the language model run on `value[:-1]`, then
`sequence_log_probs` with `eos`) of a column of in-vocabulary tokens is the chained score of the
path the column contains. -/
theorem distLogProb_eq_chained (lm : LM) (V : Nat) (eos : Option Nat) (n : Nat) (col : List Nat)
    (hv : ∀ x ∈ col, x < V) :
    distLogProb lm V eos n (col.map Int.ofNat) = Spec.chained (lm n) [] (Spec.pathOf eos col) := by
  unfold distLogProb
  rw [colScore_eq_spec]
  unfold Spec.seqScore
  have hcut : Spec.cutAtEos (eos.map Int.ofNat) (col.map Int.ofNat)
      = (Spec.pathOf eos col).map Int.ofNat := by
    cases eos with
    | none => rfl
    | some e =>
      simp only [Spec.cutAtEos, Option.map_some, Spec.pathOf, idxOf_map_ofNat, List.map_take]
  have hhist : ((col.map Int.ofNat).dropLast).map Int.toNat = col.dropLast := by
    rw [← List.map_dropLast, List.map_map]
    have : (Int.toNat ∘ Int.ofNat) = id := by funext x; simp
    rw [this, List.map_id]
  rw [hcut, hhist, List.zipIdx_map, List.filter_map, List.map_map]
  obtain ⟨m, hm, hp⟩ := pathOf_prefix eos col
  have hfilter : ((Spec.pathOf eos col).zipIdx).filter
      ((fun ht => Spec.inVocab V ht.1) ∘ Prod.map Int.ofNat id) = (Spec.pathOf eos col).zipIdx := by
    apply List.filter_eq_self.2
    intro vt hvt
    obtain ⟨_, hx⟩ := List.mem_zipIdx' (x := vt.1) (i := vt.2) (by simpa using hvt)
    have hmem : vt.1 ∈ col := by
      rw [hx]
      have h1 : (Spec.pathOf eos col)[vt.2] ∈ Spec.pathOf eos col := List.getElem_mem _
      have h2 : ∀ x, x ∈ Spec.pathOf eos col → x ∈ col := by
        intro x hx'; rw [hp] at hx'; exact List.mem_of_mem_take hx'
      exact h2 _ h1
    have := hv _ hmem
    simp [Spec.inVocab]
    omega
  rw [hfilter, chained_eq_sum (lm n) [] _ 0]
  congr 1
  apply List.map_congr_left
  intro vt hvt
  obtain ⟨hlt, _⟩ := List.mem_zipIdx' (x := vt.1) (i := vt.2) (by simpa using hvt)
  simp only [Function.comp, Prod.map, id, Int.ofNat_eq_natCast, Int.toNat_natCast, Nat.sub_zero, List.nil_append]
  congr 1
  rw [hp] at hlt ⊢
  simp only [List.length_take] at hlt
  rw [List.dropLast_eq_take, List.take_take, List.take_take]
  congr 1
  omega

/-! ### where a path ends -/

theorem idxOf_lt_of_mem_take (col : List Nat) (e k : Nat) (h : e ∈ col.take k) :
    col.idxOf e < k := by
  have hsplit : col = col.take k ++ col.drop k := (List.take_append_drop k col).symm
  have h1 : col.idxOf e = (col.take k).idxOf e := by
    conv => lhs; rw [hsplit]
    rw [List.idxOf_append]; simp [h]
  have h2 := List.idxOf_lt_length_iff.2 h
  rw [h1]
  have : (col.take k).length ≤ k := by simp [List.length_take]; omega
  omega

/-- A path that ended: it is the column up to its first `eos`, which is its last token and
occurs nowhere before. -/
theorem path_done (e : Nat) (col : List Nat) (hm : e ∈ col) :
    Spec.pathOf (some e) col = col.take (col.idxOf e + 1) ∧
      (Spec.pathOf (some e) col).getLast? = some e ∧ e ∉ (Spec.pathOf (some e) col).dropLast := by
  have hi : col.idxOf e < col.length := List.idxOf_lt_length_iff.2 hm
  refine ⟨rfl, ?_, ?_⟩
  · simp only [Spec.pathOf]
    rw [List.getLast?_eq_getElem?]
    have hl : (col.take (col.idxOf e + 1)).length = col.idxOf e + 1 := by
      simp [List.length_take]; omega
    rw [hl, Nat.add_sub_cancel, List.getElem?_take_of_lt (by omega), List.getElem?_eq_getElem hi,
      List.getElem_idxOf hi]
  · simp only [Spec.pathOf]
    intro hmem
    have hl : (col.take (col.idxOf e + 1)).length = col.idxOf e + 1 := by
      simp [List.length_take]; omega
    rw [List.dropLast_eq_take, hl, Nat.add_sub_cancel, List.take_take] at hmem
    have := idxOf_lt_of_mem_take col e _ hmem
    omega

end PdtVerif.SeqScore
