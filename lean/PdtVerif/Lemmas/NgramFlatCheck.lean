import PdtVerif.Model.NgramFlatCheck
import PdtVerif.Lemmas.NgramTrie
/-!
# Soundness of the flat-buffer checker

`checkFlat b U nU items = true → RepresentsN (flatNav b U) (ofList items) D b.N`
with `D t ↔ 0 ≤ t < nU`.
-/
namespace PdtVerif.NgramTrie
open PdtVerif.Backoff

theorem stepChild_true {ν} (nav : Nav ν) (d : ν) (f : Bool) (t : Int) (d' : ν) :
    stepChild nav d f t = (d', true) ↔ f = true ∧ nav.child d t = some d' := by
  unfold stepChild
  cases f with
  | false => simp
  | true =>
    cases h : nav.child d t with
    | none => simp
    | some x => simp

theorem reach_cons {ν} (nav : Nav ν) (t0 : Int) (rest : List Int) (d : ν) :
    reach nav (t0 :: rest) = some d ↔ walkSt nav t0 rest = (d, true) := by
  simp only [reach]
  constructor
  · intro h
    split at h
    · rename_i hf
      simp only [Option.some.injEq] at h
      exact Prod.ext h hf
    · cases h
  · intro h
    rw [h]; simp

theorem reach_nil {ν} (nav : Nav ν) : reach nav [] = none := rfl

/-- Level `n` is exactly the set of reachable nodes with a reversed key of `n+1` domain tokens. -/
theorem mem_levelOf {ν} (nav : Nav ν) (dom : List Int) (n : Nat) (r : List Int) (d : ν) :
    (r, d) ∈ levelOf nav dom n ↔
      ∃ t0 rest, r = t0 :: rest ∧ rest.length = n ∧ (∀ t ∈ r, t ∈ dom) ∧
        walkSt nav t0 rest = (d, true) := by
  induction n generalizing r d with
  | zero =>
    simp only [levelOf, List.mem_map, Prod.mk.injEq]
    constructor
    · rintro ⟨t, ht, rfl, rfl⟩
      exact ⟨t, [], rfl, rfl, by simpa using ht, rfl⟩
    · rintro ⟨t0, rest, rfl, hl, hdom, hw⟩
      have : rest = [] := List.eq_nil_of_length_eq_zero hl
      subst this
      refine ⟨t0, hdom t0 (by simp), rfl, ?_⟩
      simp only [walkSt, List.foldl_nil, Prod.mk.injEq] at hw
      exact hw.1
  | succ n ih =>
    simp only [levelOf, expand, List.mem_flatMap, List.mem_filterMap, Option.map_eq_some_iff,
      Prod.mk.injEq]
    constructor
    · rintro ⟨⟨r', d'⟩, hp, t, ht, x, hx, rfl, rfl⟩
      obtain ⟨t0, rest', rfl, hl, hdom, hw⟩ := (ih r' d').mp hp
      refine ⟨t0, rest' ++ [t], by simp, by simp [hl], ?_, ?_⟩
      · intro y hy
        simp only [List.cons_append, List.mem_cons, List.mem_append, List.mem_nil_iff,
          or_false] at hy
        rcases hy with hy | hy | hy
        · exact hdom y (by simp [hy])
        · exact hdom y (by simp [hy])
        · exact hy ▸ ht
      · rw [walkSt_snoc, hw]
        exact (stepChild_true nav d' true t x).mpr ⟨rfl, hx⟩
    · rintro ⟨t0, rest, rfl, hl, hdom, hw⟩
      have hne : rest ≠ [] := by intro h; rw [h] at hl; simp at hl
      obtain ⟨rest', t, rfl⟩ : ∃ rest' t, rest = rest' ++ [t] :=
        ⟨rest.dropLast, rest.getLast hne, (List.dropLast_concat_getLast hne).symm⟩
      rw [walkSt_snoc] at hw
      obtain ⟨hf, hc⟩ := (stepChild_true nav _ _ t d).mp hw
      have hl' : rest'.length = n := by simp at hl; exact hl
      have hp : (t0 :: rest', (walkSt nav t0 rest').1) ∈ levelOf nav dom n := by
        refine (ih _ _).mpr ⟨t0, rest', rfl, hl', ?_, Prod.ext rfl hf⟩
        intro y hy
        apply hdom
        simp only [List.mem_cons, List.mem_append] at hy ⊢
        rcases hy with hy | hy
        · exact Or.inl hy
        · exact Or.inr (Or.inl hy)
      refine ⟨(t0 :: rest', (walkSt nav t0 rest').1), hp, t, hdom t (by simp), d, hc, by simp, rfl⟩

theorem mem_domOf (nU : Nat) (t : Int) : t ∈ domOf nU ↔ 0 ≤ t ∧ t < (nU : Int) := by
  simp only [domOf, List.mem_map, List.mem_range]
  constructor
  · rintro ⟨a, ha, rfl⟩
    exact ⟨Int.natCast_nonneg a, by show (a : Int) < nU; exact_mod_cast ha⟩
  · rintro ⟨h0, h1⟩
    refine ⟨t.toNat, ?_, ?_⟩
    · omega
    · simp [Int.toNat_of_nonneg h0]

theorem overDom_iff (dom : List Int) (k : List Int) : overDom dom k = true ↔ ∀ t ∈ k, t ∈ dom := by
  simp [overDom]

section sound
variable {ν : Type} (nav : Nav ν) (items : List (List Int × Entry)) (dom : List Int) (N : Nat)
  (hchk : ∀ n, n < N → checkLevel nav items dom N n = true)
include hchk

/-- What a passing level check says about one reachable node. -/
theorem checked_node (k : List Int) (d : ν) (hk : ∀ t ∈ k, t ∈ dom) (hlen : k.length ≤ N)
    (hr : reach nav k.reverse = some d) :
    nav.logp d = LogP.ofOption (finiteP (ofList items) k) ∧
    (k.length + 1 ≤ N → nav.logb d = LogP.fin (beta (ofList items) k)) := by
  cases hrev : k.reverse with
  | nil => rw [hrev, reach_nil] at hr; cases hr
  | cons t0 rest =>
    rw [hrev] at hr
    have hw := (reach_cons nav t0 rest d).mp hr
    have hkl : k.length = rest.length + 1 := by
      have := congrArg List.length hrev; simpa using this
    have hmem : (t0 :: rest, d) ∈ levelOf nav dom rest.length := by
      refine (mem_levelOf nav dom _ _ _).mpr ⟨t0, rest, rfl, rfl, ?_, hw⟩
      intro t ht
      apply hk
      rw [← hrev] at ht
      simpa using ht
    have hc := hchk rest.length (by omega)
    simp only [checkLevel, Bool.and_eq_true, List.all_eq_true] at hc
    have hnode := hc.1 _ hmem
    simp only [Bool.and_eq_true, Bool.or_eq_true, decide_eq_true_eq, beq_iff_eq] at hnode
    have hkk : (t0 :: rest).reverse = k := by rw [← hrev]; simp
    rw [hkk] at hnode
    refine ⟨hnode.1, fun h => ?_⟩
    rcases hnode.2 with h2 | h2
    · omega
    · exact h2

/-- What a passing level check says about a listed key. -/
theorem checked_listed (k : List Int) (e : Entry) (hk : ∀ t ∈ k, t ∈ dom) (hlen : k.length ≤ N)
    (hne : k ≠ []) (hl : ofList items k = some e) : ∃ d, reach nav k.reverse = some d := by
  have hmem := mem_of_ofList_some hl
  have hpos : 0 < k.length := List.length_pos_iff.mpr hne
  have hc := hchk (k.length - 1) (by omega)
  simp only [checkLevel, Bool.and_eq_true, List.all_eq_true] at hc
  have hitem := hc.2 _ hmem
  simp only [Bool.or_eq_true, bne_iff_ne, ne_eq, Bool.not_eq_true', List.any_eq_true,
    beq_iff_eq] at hitem
  rcases hitem with (h1 | h1) | h1
  · exfalso; apply h1; show k.length = k.length - 1 + 1; omega
  · have := (overDom_iff dom k).mpr hk
    change overDom dom k = false at h1
    rw [this] at h1; cases h1
  · obtain ⟨⟨r, d⟩, hp, hr⟩ := h1
    simp only at hr
    subst hr
    obtain ⟨t0, rest, hrr, _, _, hw⟩ := (mem_levelOf nav dom _ _ _).mp hp
    refine ⟨d, ?_⟩
    rw [hrr]
    exact (reach_cons nav t0 rest d).mpr hw

theorem checked_represents : RepresentsN nav (ofList items) (fun t => t ∈ dom) N where
  logp_some := fun k d hk hlen hr => (checked_node nav items dom N hchk k d hk hlen hr).1
  logb_some := fun k d hk hlen hr =>
    (checked_node nav items dom N hchk k d hk (by omega) hr).2 hlen
  logp_none := by
    intro k hk hlen hne hr
    cases ht : ofList items k with
    | none => simp [finiteP, ht]
    | some e =>
      obtain ⟨d, hd⟩ := checked_listed nav items dom N hchk k e hk hlen hne ht
      rw [hd] at hr; cases hr
  logb_none := by
    intro k hk hlen hne hr
    cases ht : ofList items k with
    | none => simp [beta, ht]
    | some e =>
      obtain ⟨d, hd⟩ := checked_listed nav items dom N hchk k e hk (by omega) hne ht
      rw [hd] at hr; cases hr

end sound

/-- **Soundness of `checkFlat`.** -/
theorem checkFlat_sound (b : Buffers) (U nU : Nat) (items : List (List Int × Entry))
    (h : checkFlat b U nU items = true) :
    RepresentsN (flatNav b U) (ofList items) (fun t => 0 ≤ t ∧ t < (nU : Int)) b.N := by
  have hchk : ∀ n, n < b.N → checkLevel (flatNav b U) items (domOf nU) b.N n = true := by
    intro n hn
    simp only [checkFlat, List.all_eq_true, List.mem_range] at h
    exact h n hn
  have H := checked_represents (flatNav b U) items (domOf nU) b.N hchk
  have hD : ∀ k : List Int, (∀ t ∈ k, 0 ≤ t ∧ t < (nU : Int)) → ∀ t ∈ k, t ∈ domOf nU :=
    fun k hk t ht => (mem_domOf nU t).mpr (hk t ht)
  exact {
    logp_some := fun k d hk => H.logp_some k d (hD k hk)
    logp_none := fun k hk => H.logp_none k (hD k hk)
    logb_some := fun k d hk => H.logb_some k d (hD k hk)
    logb_none := fun k hk => H.logb_none k (hD k hk) }

end PdtVerif.NgramTrie
