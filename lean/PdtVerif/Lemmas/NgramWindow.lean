import PdtVerif.Model.NgramTrie
import PdtVerif.Spec.Backoff
/-!
# Lemmas for C06, part 2: window selection

Every way `LookupLanguageModel` cuts a window out of the history (scalar index, per-element
indices via `masked_select`/`view`, strided chunks of the contiguous buffer) yields the
spec's `context`: the `N-1` most recent tokens of the prefix, left-padded with `sos`.
-/
namespace PdtVerif.NgramTrie
open PdtVerif.Backoff

theorem col_length (hist : List (List Int)) (j : Nat) : (col hist j).length = hist.length := by
  simp [col]

theorem col_pad (r B : Nat) (sos : Int) (hist : List (List Int)) (b : Nat) (hb : b < B) :
    col (List.replicate r (List.replicate B sos) ++ hist) b = List.replicate r sos ++ col hist b := by
  simp [col, List.getD_eq_getElem?_getD, hb]

theorem col_take_drop (h : List (List Int)) (i k b : Nat) :
    col ((h.take i).drop k) b = ((col h b).take i).drop k := by
  simp [col, List.map_take, List.map_drop]

theorem lastN_replicate_append {α} (m k : Nat) (a : α) (l : List α) (h : m ≤ k + l.length) :
    lastN m (List.replicate k a ++ l) = List.replicate (m - l.length) a ++ l.drop (l.length - m) := by
  simp only [lastN, List.length_append, List.length_replicate, List.drop_append,
    List.drop_replicate]
  congr 2 <;> omega

/-- Any padding that is long enough gives the spec's context. -/
theorem window_eq_context (N : Nat) (sos : Int) (c : List Int) (i rem : Nat)
    (hi : i ≤ c.length) (hrem : N - 1 ≤ i + rem) :
    ((List.replicate rem sos ++ c).take (i + rem)).drop (i + rem - (N - 1)) = context N sos c i := by
  have h1 : (List.replicate rem sos ++ c).take (i + rem) = List.replicate rem sos ++ c.take i := by
    rw [List.take_append]
    simp only [List.length_replicate, List.take_replicate]
    congr 2 <;> omega
  have hl : (c.take i).length = i := by simp [hi]
  rw [h1]
  have e1 : (List.replicate rem sos ++ c.take i).drop (i + rem - (N - 1)) =
      lastN (N - 1) (List.replicate rem sos ++ c.take i) := by
    simp only [lastN, List.length_append, List.length_replicate, hl]
    congr 1; omega
  rw [e1, lastN_replicate_append _ _ _ _ (by rw [hl]; omega)]
  unfold context
  rw [lastN_replicate_append _ _ _ _ (by rw [hl]; omega)]

theorem windowsScalar_eq (N : Nat) (sos : Int) (B : Nat) (hist : List (List Int)) (i : Nat)
    (hi : i ≤ hist.length) :
    windowsScalar N sos B hist i = (List.range B).map (fun b => context N sos (col hist b) i) := by
  unfold windowsScalar padHist
  simp only
  apply List.map_congr_left
  intro b hb
  have hb' : b < B := List.mem_range.mp hb
  rw [col_take_drop, col_pad _ _ _ _ _ hb']
  exact window_eq_context N sos (col hist b) i (N - 1 - i) (by rw [col_length]; exact hi) (by omega)


/-! ### per-element indices: `masked_select` + `view` -/

theorem filter_range_window (n lo hi : Nat) :
    (List.range n).filter (fun t => decide (lo ≤ t) && decide (t < hi)) =
      List.range' lo (min hi n - lo) := by
  induction n with
  | zero => simp
  | succ n ih =>
    rw [List.range_succ, List.filter_append, ih]
    by_cases h1 : lo ≤ n
    · by_cases h2 : n < hi
      · have e : min hi (n + 1) - lo = (min hi n - lo) + 1 := by omega
        have e2 : min hi n - lo = n - lo := by omega
        simp only [List.filter_cons, h1, h2, decide_true, Bool.and_self, if_true, List.filter_nil]
        rw [e, List.range'_concat, e2]
        congr 2; omega
      · have e : min hi (n + 1) - lo = min hi n - lo := by omega
        simp [h2, e]
    · have e : min hi (n + 1) - lo = 0 := by omega
      have e' : min hi n - lo = 0 := by omega
      simp [h1, e, e']

theorem map_range'_getD (c : List Int) (lo m : Nat) (h : lo + m ≤ c.length) :
    (List.range' lo m).map (fun t => c.getD t 0) = (c.drop lo).take m := by
  apply List.ext_getElem?
  intro k
  simp only [List.getElem?_map, List.getElem?_range', List.getElem?_take, List.getElem?_drop]
  by_cases hk : k < m
  · have : lo + k < c.length := by omega
    simp [hk, List.getD_eq_getElem?_getD, List.getElem?_eq_getElem this]
  · simp [hk]

theorem flatMap_drop_take {α} (f : Nat → List α) (m : Nat) :
    ∀ (B b : Nat), (∀ j, j < B → (f j).length = m) → b < B →
      (((List.range B).flatMap f).drop (b * m)).take m = f b := by
  intro B
  induction B with
  | zero => intro b _ hb; omega
  | succ B ih =>
    intro b hlen hb
    have hX : ((List.range B).flatMap f).length = B * m := by
      clear ih hb
      induction B with
      | zero => simp
      | succ B ih2 =>
        rw [List.range_succ, List.flatMap_append, List.length_append,
          ih2 (fun j hj => hlen j (by omega))]
        simp [hlen B (by omega), Nat.succ_mul]
    rw [List.range_succ, List.flatMap_append]
    simp only [List.flatMap_cons, List.flatMap_nil, List.append_nil]
    by_cases hbB : b < B
    · have hle : b * m + m ≤ B * m := by
        have : (b + 1) * m ≤ B * m := Nat.mul_le_mul_right m hbB
        simpa [Nat.succ_mul] using this
      rw [List.drop_append_of_le_length (by rw [hX]; omega), List.take_append_of_le_length
        (by rw [List.length_drop, hX]; omega)]
      exact ih b (fun j hj => hlen j (by omega)) hbB
    · have : b = B := by omega
      subst this
      rw [List.drop_append, hX, List.drop_eq_nil_of_le (by omega)]
      simp only [Nat.sub_self, List.drop_zero, List.nil_append]
      exact List.take_of_length_le (by rw [hlen b (by omega)]; omega)

theorem foldl_min_le (l : List Nat) (init : Nat) :
    l.foldl min init ≤ init ∧ ∀ x ∈ l, l.foldl min init ≤ x := by
  induction l generalizing init with
  | nil => simp
  | cons a as ih =>
    simp only [List.foldl_cons]
    have := ih (min init a)
    refine ⟨by omega, ?_⟩
    intro x hx
    simp at hx
    rcases hx with hx | hx
    · subst hx; omega
    · exact this.2 x hx

theorem windowsVec_eq (N : Nat) (hN : 1 ≤ N) (sos : Int) (B : Nat) (hist : List (List Int))
    (hidx : List Nat) (hlen : hidx.length = B) (hle : ∀ x ∈ hidx, x ≤ hist.length) :
    windowsVec N sos B hist hidx =
      (List.range B).map (fun b => context N sos (col hist b) (hidx.getD b 0)) := by
  unfold windowsVec padHist
  simp only
  generalize hmin : hidx.foldl min (hidx.headD 0) = hm
  have hwin : ∀ b, b < B →
      ((List.range (List.replicate (N - 1 - hm) (List.replicate B sos) ++ hist).length).filter
        (fun t => decide (hidx.getD b 0 + (N - 1 - hm) < t + N) &&
          decide (t < hidx.getD b 0 + (N - 1 - hm)))).map
        (fun t => ((List.replicate (N - 1 - hm) (List.replicate B sos) ++ hist).getD t []).getD b 0)
      = context N sos (col hist b) (hidx.getD b 0) := by
    intro b hb
    have hmem : hidx.getD b 0 ∈ hidx := by
      rw [List.getD_eq_getElem?_getD, List.getElem?_eq_getElem (by omega)]
      simp
    have hib : hidx.getD b 0 ≤ hist.length := hle _ hmem
    have hmle : hm ≤ hidx.getD b 0 := by rw [← hmin]; exact (foldl_min_le hidx _).2 _ hmem
    have hf : (fun t => decide (hidx.getD b 0 + (N - 1 - hm) < t + N) &&
          decide (t < hidx.getD b 0 + (N - 1 - hm))) =
        (fun t => decide (hidx.getD b 0 + (N - 1 - hm) - (N - 1) ≤ t) &&
          decide (t < hidx.getD b 0 + (N - 1 - hm))) := by
      funext t
      congr 1
      apply decide_eq_decide.mpr
      omega
    rw [hf, filter_range_window]
    have hcol : ∀ t, ((List.replicate (N - 1 - hm) (List.replicate B sos) ++ hist).getD t []).getD b 0
        = (col (List.replicate (N - 1 - hm) (List.replicate B sos) ++ hist) b).getD t 0 := by
      intro t
      simp only [col, List.getD_eq_getElem?_getD, List.getElem?_map]
      cases (List.replicate (N - 1 - hm) (List.replicate B sos) ++ hist)[t]? <;> simp
    simp only [hcol]
    rw [col_pad _ _ _ _ _ hb]
    have hlenP : (List.replicate (N - 1 - hm) (List.replicate B sos) ++ hist).length
        = (N - 1 - hm) + hist.length := by simp
    have hlenC : (List.replicate (N - 1 - hm) sos ++ col hist b).length
        = (N - 1 - hm) + hist.length := by simp [col_length]
    rw [hlenP]
    generalize hidx.getD b 0 = ib at hib hmle ⊢
    generalize hr0 : N - 1 - hm = r at hlenC ⊢
    have hr : N - 1 ≤ ib + r := by omega
    have hmn : min (ib + r) (r + hist.length) = ib + r := by omega
    rw [hmn, map_range'_getD _ _ _ (by rw [hlenC]; omega)]
    have e : ib + r - (ib + r - (N - 1)) = N - 1 := by omega
    rw [e, ← window_eq_context N sos (col hist b) ib r (by rw [col_length]; exact hib) hr]
    -- (X.drop k).take m = (X.take (k+m)).drop k
    rw [List.drop_take, e]
  apply List.map_congr_left
  intro b hb
  have hb' : b < B := List.mem_range.mp hb
  rw [flatMap_drop_take _ (N - 1) B b _ hb', hwin b hb']
  intro j hj
  rw [hwin j hj]
  have hmem : hidx.getD j 0 ∈ hidx := by
    rw [List.getD_eq_getElem?_getD, List.getElem?_eq_getElem (by omega)]
    simp
  have := hle _ hmem
  simp [context, lastN, col_length]


/-! ### strided chunks of the contiguous buffer -/

theorem getD_getD_eq_col (hist : List (List Int)) (k b : Nat) :
    (hist.getD k []).getD b 0 = (col hist b).getD k 0 := by
  simp only [col, List.getD_eq_getElem?_getD, List.getElem?_map]
  cases hist[k]? <;> simp

theorem flatten_getD (B : Nat) (hist : List (List Int)) (hrows : ∀ r ∈ hist, r.length = B)
    (r b : Nat) (hb : b < B) :
    hist.flatten.getD (r * B + b) 0 = (hist.getD r []).getD b 0 := by
  induction hist generalizing r with
  | nil => simp
  | cons row rest ih =>
    have hrow : row.length = B := hrows row (by simp)
    have hrest : ∀ r ∈ rest, r.length = B := fun r hr => hrows r (by simp [hr])
    cases r with
    | zero =>
      simp only [List.flatten_cons, Nat.zero_mul, Nat.zero_add, List.getD_cons_zero]
      simp only [List.getD_eq_getElem?_getD]
      rw [List.getElem?_append_left (by omega)]
    | succ r =>
      simp only [List.flatten_cons, List.getD_cons_succ]
      have := ih hrest r
      simp only [List.getD_eq_getElem?_getD] at this ⊢
      rw [List.getElem?_append_right (by rw [hrow, Nat.succ_mul]; omega)]
      rw [← this]
      congr 2
      rw [hrow, Nat.succ_mul]; omega

theorem col_strided (flat : List Int) (B Nm1 Trest t j : Nat) (hj : j < Trest * B) :
    col (strided flat B Nm1 Trest t) j =
      (List.range Nm1).map (fun i => flat.getD (B * (t - Nm1) + i * B + j) 0) := by
  simp only [col, strided, List.map_map]
  apply List.map_congr_left
  intro i _
  simp [List.getD_eq_getElem?_getD, hj]

theorem strided_length (flat : List Int) (B Nm1 Trest t : Nat) :
    (strided flat B Nm1 Trest t).length = Nm1 := by simp [strided]

theorem map_range_getD (c : List Int) (lo m : Nat) (h : lo + m ≤ c.length) :
    (List.range m).map (fun i => c.getD (lo + i) 0) = (c.drop lo).take m := by
  rw [← map_range'_getD c lo m h, List.range'_eq_map_range, List.map_map]
  rfl

/-- Column `c*B + bb` of the strided view is the slice of column `bb` ending at `t + c`. -/
theorem col_strided_eq (B : Nat) (hist : List (List Int)) (hrows : ∀ r ∈ hist, r.length = B)
    (Nm1 Trest t c bb : Nat) (hbb : bb < B) (hc : c < Trest) (hNt : Nm1 ≤ t)
    (htc : t + c ≤ hist.length) :
    col (strided hist.flatten B Nm1 Trest t) (c * B + bb) =
      ((col hist bb).drop (t + c - Nm1)).take Nm1 := by
  have hj : c * B + bb < Trest * B := by
    have : (c + 1) * B ≤ Trest * B := Nat.mul_le_mul_right B hc
    rw [Nat.succ_mul] at this; omega
  rw [col_strided _ _ _ _ _ _ hj, ← map_range_getD _ _ _ (by rw [col_length]; omega)]
  apply List.map_congr_left
  intro i _
  have e : B * (t - Nm1) + i * B + (c * B + bb) = (t + c - Nm1 + i) * B + bb := by
    have h1 : t + c - Nm1 + i = (t - Nm1) + i + c := by omega
    rw [h1, Nat.add_mul, Nat.add_mul, Nat.mul_comm B]; omega
  rw [e, flatten_getD B hist hrows _ _ hbb, getD_getD_eq_col]

theorem context_slice (N : Nat) (sos : Int) (C : List Int) (t' : Nat) (ht : t' ≤ C.length)
    (hN : min C.length (N - 1) ≤ t') :
    context N sos ((C.drop (t' - min C.length (N - 1))).take (min C.length (N - 1)))
      (min C.length (N - 1)) = context N sos C t' := by
  have hXlen : ((C.drop (t' - min C.length (N - 1))).take (min C.length (N - 1))).length
      = min C.length (N - 1) := by
    simp only [List.length_take, List.length_drop]; omega
  unfold context
  rw [List.take_of_length_le (by rw [hXlen]; omega)]
  rw [lastN_replicate_append _ _ _ _ (by omega), lastN_replicate_append _ _ _ _ (by omega)]
  rw [hXlen]
  have hl2 : (C.take t').length = t' := by simp [ht]
  rw [hl2]
  by_cases hcase : N - 1 ≤ C.length
  · have hm : min C.length (N - 1) = N - 1 := by omega
    rw [hm] at hN ⊢
    have e1 : N - 1 - t' = 0 := by omega
    simp only [Nat.sub_self, List.replicate_zero, List.nil_append, List.drop_zero, e1]
    rw [List.drop_take]
    congr 1; omega
  · have hm : min C.length (N - 1) = C.length := by omega
    rw [hm] at hN ⊢
    have ht' : t' = C.length := by omega
    subst ht'
    have e2 : C.length - (N - 1) = 0 := by omega
    simp [e2]

theorem viewRows_map {α} (B Trest : Nat) (g : Nat → α) :
    viewRows B Trest ((List.range (Trest * B)).map g) =
      (List.range Trest).map (fun c => (List.range B).map (fun bb => g (c * B + bb))) := by
  unfold viewRows
  apply List.map_congr_left
  intro c hc
  have hc' : c < Trest := List.mem_range.mp hc
  have hle : c * B + B ≤ Trest * B := by
    have : (c + 1) * B ≤ Trest * B := Nat.mul_le_mul_right B hc'
    rw [Nat.succ_mul] at this; exact this
  apply List.ext_getElem?
  intro k
  simp only [List.getElem?_take, List.getElem?_drop, List.getElem?_map, List.getElem?_range]
  by_cases hk : k < B
  · have : c * B + k < Trest * B := by omega
    simp [hk, List.getElem?_range, this]
  · simp [hk]

theorem calcIdxScalar_eq (b : Buffers) (V : Nat) (sos : Int) (B : Nat) (hist : List (List Int))
    (i : Nat) (hi : i ≤ hist.length) :
    calcIdxScalar b V sos B hist i =
      (List.range B).map (fun bb => rowOf b V sos (context b.N sos (col hist bb) i)) := by
  unfold calcIdxScalar
  rw [windowsScalar_eq _ _ _ _ _ hi, List.map_map]
  rfl


/-! ### all positions -/

/-- The reference evaluation of position `t`: for every batch element the model's row for
the spec's context. -/
def posRows (b : Buffers) (V : Nat) (sos : Int) (B : Nat) (hist : List (List Int)) (t : Nat) :
    List (List LogP) :=
  (List.range B).map (fun bb => rowOf b V sos (context b.N sos (col hist bb) t))

theorem calcIdxScalar_eq_posRows (b : Buffers) (V : Nat) (sos : Int) (B : Nat)
    (hist : List (List Int)) (i : Nat) (hi : i ≤ hist.length) :
    calcIdxScalar b V sos B hist i = posRows b V sos B hist i :=
  calcIdxScalar_eq b V sos B hist i hi

theorem chunk_step (b : Buffers) (V : Nat) (sos : Int) (B : Nat) (hist : List (List Int))
    (hrows : ∀ r ∈ hist, r.length = B) (Trest t : Nat)
    (hNt : min hist.length (b.N - 1) ≤ t) (hT : t + Trest ≤ hist.length + 1) :
    viewRows B Trest (calcIdxScalar b V sos (Trest * B)
      (strided hist.flatten B (min hist.length (b.N - 1)) Trest t) (min hist.length (b.N - 1)))
    = (List.range Trest).map (fun c => posRows b V sos B hist (t + c)) := by
  rw [calcIdxScalar_eq _ _ _ _ _ _ (by rw [strided_length]; omega), viewRows_map]
  apply List.map_congr_left
  intro c hc
  have hc' : c < Trest := List.mem_range.mp hc
  unfold posRows
  apply List.map_congr_left
  intro bb hbb
  have hbb' : bb < B := List.mem_range.mp hbb
  rw [col_strided_eq B hist hrows _ _ _ _ _ hbb' hc' hNt (by omega)]
  have := context_slice b.N sos (col hist bb) (t + c) (by rw [col_length]; omega)
    (by rw [col_length]; omega)
  rw [col_length] at this
  rw [this]

theorem chunkLoop_eq (b : Buffers) (V : Nat) (sos : Int) (B : Nat) (hist : List (List Int))
    (hrows : ∀ r ∈ hist, r.length = B) (chunk : Nat) (hchunk : 1 ≤ chunk) :
    ∀ (fuel t : Nat), min hist.length (b.N - 1) ≤ t → hist.length + 1 - t ≤ fuel →
      chunkLoop b V sos B hist.length (min hist.length (b.N - 1)) chunk hist.flatten fuel t =
        (List.range' t (hist.length + 1 - t)).map (posRows b V sos B hist) := by
  intro fuel
  induction fuel with
  | zero =>
    intro t _ hf
    have : hist.length + 1 - t = 0 := by omega
    simp [chunkLoop, this]
  | succ fuel ih =>
    intro t hNt hf
    unfold chunkLoop
    by_cases ht : t < hist.length + 1
    · rw [if_pos ht]
      simp only
      rw [chunk_step b V sos B hist hrows _ t hNt (by omega), ih (t + chunk) (by omega) (by omega)]
      have hmap : (List.range (min chunk (hist.length + 1 - t))).map
          (fun c => posRows b V sos B hist (t + c)) =
          (List.range' t (min chunk (hist.length + 1 - t))).map (posRows b V sos B hist) := by
        rw [List.range'_eq_map_range, List.map_map]; rfl
      rw [hmap, ← List.map_append]
      congr 1
      by_cases hc : chunk ≤ hist.length + 1 - t
      · have e : min chunk (hist.length + 1 - t) = chunk := by omega
        rw [e]
        have e2 : hist.length + 1 - t = chunk + (hist.length + 1 - (t + chunk)) := by omega
        rw [e2, ← List.range'_append_1]
      · have e : min chunk (hist.length + 1 - t) = hist.length + 1 - t := by omega
        have e2 : hist.length + 1 - (t + chunk) = 0 := by omega
        rw [e, e2]; simp
    · rw [if_neg ht]
      have : hist.length + 1 - t = 0 := by omega
      simp [this]

theorem col_take (hist : List (List Int)) (i b : Nat) : col (hist.take i) b = (col hist b).take i := by
  simp [col, List.map_take]

theorem context_take (N : Nat) (sos : Int) (C : List Int) (i : Nat) :
    context N sos (C.take i) i = context N sos C i := by
  simp [context, List.take_take]

/-- `calc_full_log_probs_chunked` evaluates, at every position and for every chunk size,
the row of the spec's context. -/
theorem fullChunked_eq (b : Buffers) (V : Nat) (sos : Int) (B : Nat) (hist : List (List Int))
    (hrows : ∀ r ∈ hist, r.length = B) (chunk : Nat) (hchunk : 1 ≤ chunk) :
    fullChunked b V sos B hist chunk =
      (List.range (hist.length + 1)).map (posRows b V sos B hist) := by
  unfold fullChunked
  simp only
  rw [chunkLoop_eq b V sos B hist hrows chunk hchunk _ _ (Nat.le_refl _) (by omega)]
  have hfirst : (List.range (min hist.length (b.N - 1))).map
      (fun i => calcIdxScalar b V sos B (hist.take i) i) =
      (List.range (min hist.length (b.N - 1))).map (posRows b V sos B hist) := by
    apply List.map_congr_left
    intro i hi
    have hi' : i < min hist.length (b.N - 1) := List.mem_range.mp hi
    rw [calcIdxScalar_eq _ _ _ _ _ _ (by simp; omega)]
    unfold posRows
    apply List.map_congr_left
    intro bb _
    rw [col_take, context_take]
  rw [hfirst, List.range_eq_range', List.range_eq_range', ← List.map_append]
  congr 1
  have e : hist.length + 1 = min hist.length (b.N - 1) + (hist.length + 1 - min hist.length (b.N - 1)) := by
    omega
  conv => rhs; rw [e]
  rw [← List.range'_append_1]
  simp

theorem fullByIdx_eq (b : Buffers) (V : Nat) (sos : Int) (B : Nat) (hist : List (List Int)) :
    fullByIdx b V sos B hist = (List.range (hist.length + 1)).map (posRows b V sos B hist) := by
  unfold fullByIdx
  apply List.map_congr_left
  intro i hi
  have hi' : i < hist.length + 1 := List.mem_range.mp hi
  exact calcIdxScalar_eq b V sos B hist i (by omega)

theorem calcIdxVec_eq (b : Buffers) (hN : 1 ≤ b.N) (V : Nat) (sos : Int) (B : Nat)
    (hist : List (List Int)) (hidx : List Nat) (hlen : hidx.length = B)
    (hle : ∀ x ∈ hidx, x ≤ hist.length) :
    calcIdxVec b V sos B hist hidx =
      (List.range B).map (fun bb => rowOf b V sos (context b.N sos (col hist bb) (hidx.getD bb 0))) := by
  unfold calcIdxVec
  rw [windowsVec_eq _ hN _ _ _ _ hlen hle, List.map_map]
  rfl

end PdtVerif.NgramTrie
