import PdtVerif.Lemmas.SeqScoreFill
/-! `TokenSequenceConstraint.check`, declaratively (core Lean only). -/
namespace PdtVerif.SeqScore

/-- The value is a completed sequence: `max_iters` tokens, or at most `max_iters` tokens one of
which is `eos`. -/
def Complete (eos : Option Int) (T : Nat) (value : List Int) : Prop :=
  value.length = T ∨ (value.length ≤ T ∧ ∃ e, eos = some e ∧ e ∈ value)

theorem any_filled (value : List Int) (e : Int) :
    (fillAfterEos value e e).any (· == e) = value.any (· == e) := by
  rw [fillAfterEos_eq]
  by_cases hm : e ∈ value
  · have hi : value.idxOf e < value.length := List.idxOf_lt_length_of_mem hm
    have h1 : value.any (· == e) = true := by simpa using hm
    rw [h1]
    simp only [List.any_append, Bool.or_eq_true, List.any_eq_true, beq_iff_eq]
    left
    refine ⟨e, ?_, rfl⟩
    rw [List.mem_take_iff_getElem]
    refine ⟨value.idxOf e, by omega, ?_⟩
    simp
  · have hi : value.idxOf e = value.length := List.idxOf_eq_length hm
    have ht : value.take (value.length + 1) = value := List.take_of_length_le (by omega)
    simp [hi, ht]

theorem all_filled (P : Int → Bool) (value : List Int) (e : Int) :
    (fillAfterEos value e e).all P = (value.take (value.idxOf e + 1)).all P := by
  rw [fillAfterEos_eq, List.all_append]
  by_cases hk : value.length - (value.idxOf e + 1) = 0
  · simp [hk]
  · -- the fill value `e` is the token at the first-`eos` position, already in the kept part
    have hi : value.idxOf e < value.length := by omega
    have hmem : e ∈ value.take (value.idxOf e + 1) := by
      rw [List.mem_take_iff_getElem]
      refine ⟨value.idxOf e, by omega, ?_⟩
      simp
    by_cases hall : (value.take (value.idxOf e + 1)).all P = true
    · have hPe : P e = true := List.all_eq_true.1 hall e hmem
      rw [hall]
      simp [List.all_replicate, hPe]
    · have : (value.take (value.idxOf e + 1)).all P = false := by simpa using hall
      simp [this]

/-- **`TokenSequenceConstraint.check`** accepts a value exactly when it is complete and every
token up to and including its first `eos` lies in the vocabulary (the tokens after the first
`eos` are ignored). -/
theorem supportCheck_iff (V : Nat) (eos : Option Int) (T : Nat) (value : List Int) :
    supportCheck V eos (some T) value = true ↔
      Complete eos T value ∧ ∀ x ∈ Spec.cutAtEos eos value, 0 ≤ x ∧ x < (V : Int) := by
  cases eos with
  | none =>
    simp only [supportCheck, Complete, Spec.cutAtEos, Bool.and_eq_true, List.all_eq_true,
      decide_eq_true_eq, Option.some.injEq]
    constructor
    · rintro ⟨h1, h2⟩
      exact ⟨Or.inl h2, h1⟩
    · rintro ⟨h1 | ⟨_, e, he, _⟩, h2⟩
      · exact ⟨h2, h1⟩
      · cases he
  | some e =>
    simp only [supportCheck, Complete, Spec.cutAtEos]
    rw [Bool.and_eq_true, all_filled, any_filled]
    simp only [List.all_eq_true, Bool.and_eq_true, decide_eq_true_eq, Bool.or_eq_true,
      List.any_eq_true, beq_iff_eq, Option.some.injEq]
    constructor
    · rintro ⟨h1, h2⟩
      refine ⟨?_, h1⟩
      rcases h2 with ⟨⟨x, hx, rfl⟩, hle⟩ | h
      · exact Or.inr ⟨hle, x, rfl, hx⟩
      · exact Or.inl h
    · rintro ⟨h1, h2⟩
      refine ⟨h2, ?_⟩
      rcases h1 with h | ⟨hle, e', he', hm⟩
      · exact Or.inr h
      · cases he'
        exact Or.inl ⟨⟨e, hm, rfl⟩, hle⟩

end PdtVerif.SeqScore
