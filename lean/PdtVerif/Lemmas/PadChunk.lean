import PdtVerif.Model.PadChunk
/-!
# Lemmas for C09 (core Lean only)

1. interval masks: every mask `_pad.py` builds is `ival T a b` (true exactly on `a ≤ t < b`);
2. one row of select / scatter through an interval mask is `take`/`drop` surgery;
3. **row alignment**: a batch-flattened scatter whose source is the concatenation of per-row
   pieces of the right sizes acts row by row (`scatRows_aligned`, `maskedScatter_aligned`);
4. per-row algebra for `pad_variable`, `pad_masked_sequence`, `chunk_by_slices`.
-/
namespace PdtVerif.PadChunk
open PdtVerif.PadSlice
variable {α : Type}

/-- for `decide` in examples and counterexamples -/
instance {ε β : Type} [DecidableEq ε] [DecidableEq β] : DecidableEq (Except ε β) := fun a b =>
  match a, b with
  | .ok x, .ok y => if h : x = y then isTrue (by rw [h]) else isFalse (by intro e; cases e; exact h rfl)
  | .error x, .error y => if h : x = y then isTrue (by rw [h]) else isFalse (by intro e; cases e; exact h rfl)
  | .ok _, .error _ => isFalse (by intro e; cases e)
  | .error _, .ok _ => isFalse (by intro e; cases e)

/-! ## 1. interval masks -/
def ival (T a b : Nat) : List Bool := (List.range T).map (fun t => decide (a ≤ t) && decide (t < b))

theorem ival_eq (T a b : Nat) (hab : a ≤ b) (hb : b ≤ T) :
    ival T a b = List.replicate a false ++ (List.replicate (b - a) true ++ List.replicate (T - b) false) := by
  apply List.ext_getElem?
  intro i
  simp only [ival, List.getElem?_map, List.getElem?_append, List.getElem?_replicate, List.length_replicate]
  by_cases h1 : i < T
  · rw [List.getElem?_range h1]
    by_cases h2 : i < a
    · have : ¬ a ≤ i := by omega
      simp [h2, this]
    · by_cases h3 : i < b
      · have h4 : i - a < b - a := by omega
        have : a ≤ i := by omega
        simp [h2, h3, h4, this]
      · have h4 : ¬ i - a < b - a := by omega
        have h5 : i - a - (b - a) < T - b := by omega
        simp [h2, h3, h4, h5]
  · have : T ≤ i := by omega
    rw [List.getElem?_eq_none (by simpa using this)]
    have h2 : ¬ i < a := by omega
    have h4 : ¬ i - a < b - a := by omega
    have h5 : ¬ i - a - (b - a) < T - b := by omega
    simp [h2, h4, h5]

theorem maskLt_eq_ival (T k : Nat) : maskLt T k = ival T 0 k := by
  simp [maskLt, ival]

theorem andNot_maskLt (T a b : Nat) : andNot (maskLt T b) (maskLt T a) = ival T a b := by
  simp only [andNot, maskLt, ival, List.zipWith_map_left, List.zipWith_map_right, List.zipWith_self]
  apply List.map_congr_left
  intro t _
  by_cases h : t < a
  · have : ¬ a ≤ t := by omega
    simp [h, this]
  · have : a ≤ t := by omega
    simp [h, this]

@[simp] theorem selRow_nil_right (m : List Bool) : selRow m ([] : List α) = [] := by
  cases m <;> rfl
@[simp] theorem selRow_nil_left (xs : List α) : selRow [] xs = [] := rfl

theorem selRow_false_append (a : Nat) (m : List Bool) (xs : List α) :
    selRow (List.replicate a false ++ m) xs = selRow m (xs.drop a) := by
  induction a generalizing xs with
  | zero => simp
  | succ a ih =>
    cases xs with
    | nil => simp
    | cons x xs => simp [List.replicate_succ, selRow, ih]

theorem selRow_true_append (k : Nat) (m : List Bool) (xs : List α) :
    selRow (List.replicate k true ++ m) xs = xs.take k ++ selRow m (xs.drop k) := by
  induction k generalizing xs with
  | zero => simp
  | succ k ih =>
    cases xs with
    | nil => simp
    | cons x xs => simp [List.replicate_succ, selRow, ih]

theorem selRow_all_false (k : Nat) (xs : List α) : selRow (List.replicate k false) xs = [] := by
  have := selRow_false_append k [] xs
  simpa using this

theorem selRow_ival (T a b : Nat) (hab : a ≤ b) (hb : b ≤ T) (xs : List α) :
    selRow (ival T a b) xs = (xs.drop a).take (b - a) := by
  rw [ival_eq T a b hab hb, selRow_false_append, selRow_true_append, selRow_all_false]
  simp

@[simp] theorem scatRow_nil_dst (m : List Bool) (src : List α) : scatRow m [] src = ([], src) := by
  cases m <;> rfl
@[simp] theorem scatRow_nil_mask (d src : List α) : scatRow [] d src = (d, src) := by
  cases d <;> rfl

theorem scatRow_false_append (a : Nat) (m : List Bool) (d src : List α) :
    scatRow (List.replicate a false ++ m) d src
      = (d.take a ++ (scatRow m (d.drop a) src).1, (scatRow m (d.drop a) src).2) := by
  induction a generalizing d with
  | zero => simp
  | succ a ih =>
    cases d with
    | nil => simp
    | cons x d => simp [List.replicate_succ, scatRow, ih]

theorem scatRow_true_append (k : Nat) (m : List Bool) (d src : List α)
    (hs : k ≤ src.length) (hd : k ≤ d.length) :
    scatRow (List.replicate k true ++ m) d src
      = (src.take k ++ (scatRow m (d.drop k) (src.drop k)).1, (scatRow m (d.drop k) (src.drop k)).2) := by
  induction k generalizing d src with
  | zero => simp
  | succ k ih =>
    cases d with
    | nil => simp at hd
    | cons x d =>
      cases src with
      | nil => simp at hs
      | cons s src =>
        simp at hs hd
        simp [List.replicate_succ, scatRow, ih d src hs hd]

theorem scatRow_all_false (k : Nat) (d src : List α) :
    scatRow (List.replicate k false) d src = (d, src) := by
  have := scatRow_false_append k [] d src
  simpa using this

theorem scatRow_ival (T a b : Nat) (hab : a ≤ b) (hb : b ≤ T) (d src : List α)
    (hd : d.length = T) (hs : b - a ≤ src.length) :
    scatRow (ival T a b) d src = (d.take a ++ (src.take (b - a) ++ d.drop b), src.drop (b - a)) := by
  rw [ival_eq T a b hab hb, scatRow_false_append, scatRow_true_append _ _ _ _ hs (by simp; omega),
    scatRow_all_false]
  have : a + (b - a) = b := by omega
  simp [this]

theorem count_ival (T a b : Nat) (hab : a ≤ b) (hb : b ≤ T) : (ival T a b).count true = b - a := by
  rw [ival_eq T a b hab hb]
  simp [List.count_append, List.count_replicate]

theorem length_ival (T a b : Nat) : (ival T a b).length = T := by simp [ival]


/-! ## 3. row alignment of the batch-flattened scatter -/

theorem selRow_length (m : List Bool) (xs : List α) (h : m.length ≤ xs.length) :
    (selRow m xs).length = m.count true := by
  induction m generalizing xs with
  | nil => simp
  | cons b m ih =>
    cases xs with
    | nil => simp at h
    | cons x xs =>
      simp at h
      cases b <;> simp [selRow, ih xs h]

/-- If the source starts with exactly as many elements as the row's mask has true cells,
the row consumes exactly that piece and hands the rest on untouched. -/
theorem scatRow_append_exact (m : List Bool) (d s rest : List α) (hlen : m.length ≤ d.length)
    (hs : s.length = m.count true) :
    scatRow m d (s ++ rest) = ((scatRow m d s).1, rest) := by
  induction m generalizing d s with
  | nil =>
    have : s = [] := by simpa using hs
    subst this
    simp
  | cons b m ih =>
    cases d with
    | nil => simp at hlen
    | cons x d =>
      simp at hlen
      cases b with
      | false =>
        have hs' : s.length = m.count true := by simpa using hs
        simp [scatRow, ih d s hlen hs']
      | true =>
        cases s with
        | nil => simp at hs
        | cons s0 s =>
          have hs' : s.length = m.count true := by simpa using hs
          simp [scatRow, ih d s hlen hs']

theorem scatRow_exact_snd (m : List Bool) (d s : List α) (hlen : m.length ≤ d.length)
    (hs : s.length = m.count true) : (scatRow m d s).2 = [] := by
  induction m generalizing d s with
  | nil =>
    have : s = [] := by simpa using hs
    subst this
    simp
  | cons b m ih =>
    cases d with
    | nil => simp at hlen
    | cons x d =>
      simp at hlen
      cases b with
      | false =>
        have hs' : s.length = m.count true := by simpa using hs
        simp [scatRow, ih d s hlen hs']
      | true =>
        cases s with
        | nil => simp at hs
        | cons s0 s =>
          have hs' : s.length = m.count true := by simpa using hs
          simp [scatRow, ih d s hlen hs']

/-- Row alignment, in the shape every use in `_pad.py` has: masks, destination rows and
source pieces are all computed row-wise from one batch `rows`. -/
theorem scatRows_aligned {ι : Type} (rows : List ι) (fM : ι → List Bool) (fD fS : ι → List α)
    (h : ∀ r ∈ rows, (fM r).length ≤ (fD r).length ∧ (fS r).length = (fM r).count true)
    (rest : List α) :
    scatRows (rows.map fM) (rows.map fD) ((rows.map fS).flatten ++ rest)
      = rows.map (fun r => (scatRow (fM r) (fD r) (fS r)).1) := by
  induction rows with
  | nil => simp [scatRows]
  | cons r rows ih =>
    have hr := h r (by simp)
    simp only [List.map_cons, List.flatten_cons, List.append_assoc, scatRows]
    rw [scatRow_append_exact _ _ _ _ hr.1 hr.2]
    simp only
    rw [ih (fun r' hr' => h r' (by simp [hr']))]

theorem countTrue_map {ι : Type} (rows : List ι) (fM : ι → List Bool) (fS : ι → List α)
    (h : ∀ r ∈ rows, (fS r).length = (fM r).count true) :
    ((rows.map fS).flatten).length = countTrue (rows.map fM) := by
  induction rows with
  | nil => simp [countTrue]
  | cons r rows ih =>
    have hr := h r (by simp)
    have := ih (fun r' hr' => h r' (by simp [hr']))
    simp only [countTrue] at this ⊢
    simp [hr, this]

theorem maskedScatter_aligned {ι : Type} (rows : List ι) (fM : ι → List Bool) (fD fS : ι → List α)
    (h : ∀ r ∈ rows, (fM r).length ≤ (fD r).length ∧ (fS r).length = (fM r).count true) :
    maskedScatter (rows.map fD) (rows.map fM) ((rows.map fS).flatten)
      = .ok (rows.map (fun r => (scatRow (fM r) (fD r) (fS r)).1)) := by
  unfold maskedScatter
  rw [countTrue_map rows fM fS (fun r hr => (h r hr).2)]
  have := scatRows_aligned rows fM fD fS h []
  simp only [List.append_nil] at this
  simp [this]

theorem maskedSelect_map {ι : Type} (rows : List ι) (fM : ι → List Bool) (fX : ι → List α) :
    maskedSelect (rows.map fM) (rows.map fX) = (rows.map (fun r => selRow (fM r) (fX r))).flatten := by
  simp [maskedSelect, List.zipWith_map_left, List.zipWith_map_right, List.zipWith_self]

theorem zipWith_andNot_map {ι : Type} (rows : List ι) (f g : ι → List Bool) :
    List.zipWith andNot (rows.map f) (rows.map g) = rows.map (fun r => andNot (f r) (g r)) := by
  simp [List.zipWith_map_left, List.zipWith_map_right, List.zipWith_self]

/-! ## 4. buffers and per-row algebra -/

theorem le_maxOf {l : List Nat} {a : Nat} (h : a ∈ l) : a ≤ maxOf l := by
  induction l with
  | nil => simp at h
  | cons b l ih =>
    simp only [maxOf, List.foldr_cons]
    rcases List.mem_cons.1 h with h | h
    · subst h; exact Nat.le_max_left _ _
    · exact Nat.le_trans (ih h) (Nat.le_max_right _ _)

theorem maxOf_le {l : List Nat} {b : Nat} (h : ∀ a ∈ l, a ≤ b) : maxOf l ≤ b := by
  induction l with
  | nil => simp [maxOf]
  | cons c l ih =>
    simp only [maxOf, List.foldr_cons]
    exact Nat.max_le.2 ⟨h c (by simp), ih (fun a ha => h a (by simp [ha]))⟩

theorem scatRow_fst_length (m : List Bool) (d s : List α) : (scatRow m d s).1.length = d.length := by
  induction m generalizing d s with
  | nil => simp
  | cons b m ih =>
    cases d with
    | nil => simp
    | cons x d =>
      cases b with
      | false => simp [scatRow, ih]
      | true => cases s <;> simp [scatRow, ih]

/-- scatter through an interval mask with a source of exactly the right size -/
theorem scatRow_ival_fst (T a b : Nat) (hab : a ≤ b) (hb : b ≤ T) (d src : List α)
    (hd : d.length = T) (hs : src.length = b - a) :
    (scatRow (ival T a b) d src).1 = d.take a ++ (src ++ d.drop b) := by
  rw [scatRow_ival T a b hab hb d src hd (by omega)]
  simp [← hs]

theorem selRow_maskLt (T k : Nat) (hk : k ≤ T) (xs : List α) : selRow (maskLt T k) xs = xs.take k := by
  rw [maskLt_eq_ival, selRow_ival T 0 k (by omega) hk]
  simp

/-- the left / right pieces of `padSeq` -/
def leftPart (mode : Mode) (value : α) (l : Nat) (xs : List α) : List α :=
  match mode with
  | .constant => List.replicate l value
  | .replicate => List.replicate l (xs.headD value)
  | .reflect => (List.range l).map (fun i => xs.getD (l - i) value)

def rightPart (mode : Mode) (value : α) (r : Nat) (xs : List α) : List α :=
  match mode with
  | .constant => List.replicate r value
  | .replicate => List.replicate r (xs.getLastD value)
  | .reflect => (List.range r).map (fun i => xs.getD (xs.length - 2 - i) value)

theorem padSeq_eq (mode : Mode) (value : α) (l r : Nat) (xs : List α) :
    padSeq mode value l r xs = leftPart mode value l xs ++ xs ++ rightPart mode value r xs := by
  cases mode <;> rfl

@[simp] theorem leftPart_length (mode : Mode) (value : α) (l : Nat) (xs : List α) :
    (leftPart mode value l xs).length = l := by
  cases mode <;> simp [leftPart]

@[simp] theorem rightPart_length (mode : Mode) (value : α) (r : Nat) (xs : List α) :
    (rightPart mode value r xs).length = r := by
  cases mode <;> simp [rightPart]

theorem replLeft_eq (value : α) (leftMax : Nat) (b : BufRow α) (hl : b.l ≤ leftMax) (hlen : 1 ≤ b.len) :
    replLeft value leftMax b = leftPart .replicate value b.l (b.x.take b.len) := by
  unfold replLeft leftPart
  rw [selRow_maskLt _ _ hl]
  have : (b.x.take b.len).headD value = b.x.headD value := by
    cases hx : b.x with
    | nil => simp
    | cons y ys =>
      cases hn : b.len with
      | zero => omega
      | succ n => simp
  rw [List.take_replicate, Nat.min_eq_left hl, this]

theorem replRight_eq (value : α) (rightMax : Nat) (b : BufRow α) (hr : b.r ≤ rightMax) (hlen : 1 ≤ b.len)
    (hx : b.len ≤ b.x.length) :
    replRight value rightMax b = rightPart .replicate value b.r (b.x.take b.len) := by
  unfold replRight rightPart
  rw [selRow_maskLt _ _ hr]
  have : (b.x.take b.len).getLastD value = b.x.getD (b.len - 1) value := by
    rw [List.getLastD_eq_getLast?, List.getLast?_eq_getElem?]
    simp only [List.length_take, Nat.min_eq_left hx, List.getD_eq_getElem?_getD]
    rw [List.getElem?_take]
    have : b.len - 1 < b.len := by omega
    simp [this]
  rw [List.take_replicate, Nat.min_eq_left hr, this]

theorem take_maskLt (T k n : Nat) (hn : n ≤ T) : (maskLt T k).take n = maskLt n k := by
  simp [maskLt, ← List.map_take, List.take_range, Nat.min_eq_left hn]

theorem reflectLeft_eq (value : α) (T leftMax : Nat) (b : BufRow α) (hl : b.l ≤ leftMax)
    (hT : leftMax ≤ T) (hlen : b.l < b.len) :
    reflectLeft value T leftMax b = leftPart .reflect value b.l (b.x.take b.len) := by
  unfold reflectLeft leftPart
  rw [take_maskLt _ _ _ hT, selRow_maskLt _ _ hl, ← List.map_take, List.take_range, Nat.min_eq_left hl]
  apply List.map_congr_left
  intro i _
  simp only [List.getD_eq_getElem?_getD, List.getElem?_take]
  have : b.l - i < b.len := by omega
  simp [this]

theorem reflectRight_eq (value : α) (T rightMax : Nat) (b : BufRow α) (hr : b.r ≤ rightMax)
    (hT : rightMax ≤ T) (hlen : b.r < b.len) (hx : b.len ≤ b.x.length) :
    reflectRight value T rightMax b = rightPart .reflect value b.r (b.x.take b.len) := by
  unfold reflectRight rightPart
  rw [Nat.min_eq_right hT, selRow_maskLt _ _ hr, ← List.map_take, List.take_range, Nat.min_eq_left hr]
  apply List.map_congr_left
  intro i _
  simp only [List.getD_eq_getElem?_getD, List.getElem?_take, List.length_take, Nat.min_eq_left hx]
  have h1 : b.len - 2 - i < b.len := by omega
  have h2 : b.len - i - 2 = b.len - 2 - i := by omega
  simp [h1, h2]

/-- What `_get_padding_buffers` returns on a legal request (repaired tree): the per-row pieces
of `padSeq`, concatenated. -/
theorem paddingBuffers_ok (mode : Mode) (hm : mode ≠ .constant) (value : α) (T : Nat) (bs : List (BufRow α))
    (h : ∀ b ∈ bs, b.x.length = T ∧ b.len ≤ T ∧ legalPad mode b.len b.l b.r = true) :
    paddingBuffers false mode value T bs
      = .ok ((bs.map (fun b => leftPart mode value b.l (b.x.take b.len))).flatten,
             (bs.map (fun b => rightPart mode value b.r (b.x.take b.len))).flatten) := by
  have hL : ∀ b ∈ bs, b.l ≤ maxOf (bs.map (·.l)) := fun b hb => le_maxOf (List.mem_map.2 ⟨b, hb, rfl⟩)
  have hR : ∀ b ∈ bs, b.r ≤ maxOf (bs.map (·.r)) := fun b hb => le_maxOf (List.mem_map.2 ⟨b, hb, rfl⟩)
  cases mode with
  | constant => exact absurd rfl hm
  | reflect =>
    have hany : bs.any (fun b => decide (b.l ≥ b.len) || decide (b.r ≥ b.len)) = false := by
      rw [List.any_eq_false]
      intro b hb
      have := (h b hb).2.2
      simp [legalPad] at this
      simp; omega
    have hLT : maxOf (bs.map (·.l)) ≤ T := maxOf_le (by
      intro a ha
      obtain ⟨b, hb, rfl⟩ := List.mem_map.1 ha
      have := h b hb
      simp [legalPad] at this
      omega)
    have hRT : maxOf (bs.map (·.r)) ≤ T := maxOf_le (by
      intro a ha
      obtain ⟨b, hb, rfl⟩ := List.mem_map.1 ha
      have := h b hb
      simp [legalPad] at this
      omega)
    have e1 : bs.map (reflectLeft value T (maxOf (bs.map (·.l))))
        = bs.map (fun b => leftPart .reflect value b.l (b.x.take b.len)) := by
      apply List.map_congr_left
      intro b hb
      have := h b hb
      simp [legalPad] at this
      exact reflectLeft_eq value T _ b (hL b hb) hLT this.2.2.1
    have e2 : bs.map (reflectRight value T (maxOf (bs.map (·.r))))
        = bs.map (fun b => rightPart .reflect value b.r (b.x.take b.len)) := by
      apply List.map_congr_left
      intro b hb
      have := h b hb
      simp [legalPad] at this
      exact reflectRight_eq value T _ b (hR b hb) hRT this.2.2.2 (by omega)
    simp only [paddingBuffers, hany, e1, e2]
    simp
  | replicate =>
    have hany : bs.any (fun b => decide (b.len < 1)) = false := by
      rw [List.any_eq_false]
      intro b hb
      have := (h b hb).2.2
      simp [legalPad] at this
      simp; omega
    have e1 : bs.map (replLeft value (maxOf (bs.map (·.l))))
        = bs.map (fun b => leftPart .replicate value b.l (b.x.take b.len)) := by
      apply List.map_congr_left
      intro b hb
      have := h b hb
      simp [legalPad] at this
      exact replLeft_eq value _ b (hL b hb) this.2.2
    have e2 : bs.map (replRight value (maxOf (bs.map (·.r))))
        = bs.map (fun b => rightPart .replicate value b.r (b.x.take b.len)) := by
      apply List.map_congr_left
      intro b hb
      have := h b hb
      simp [legalPad] at this
      exact replRight_eq value _ b (hR b hb) this.2.2 (by omega)
    simp only [paddingBuffers, hany, e1, e2]
    simp

theorem drop_append_len (n m : Nat) (l₁ l₂ : List α) (h : l₁.length = n) :
    (l₁ ++ l₂).drop (n + m) = l₂.drop m := by
  subst h
  rw [List.drop_append]
  simp

theorem take_append_len (n m : Nat) (l₁ l₂ : List α) (h : l₁.length = n) :
    (l₁ ++ l₂).take (n + m) = l₁ ++ l₂.take m := by
  subst h
  rw [List.take_append]
  simp [List.take_of_length_le]

/-! ### `pad_variable`, one row -/

/-- The whole output row the code produces for one request (`Tp` = widest output). -/
def padRowOut (mode : Mode) (value : α) (Tp : Nat) (p : PadRow α) : List α :=
  padSeq mode value p.l p.r (p.x.take p.len) ++ List.replicate (Tp - p.newLen) value

/-- first scatter: the sequence itself into a row of pad values -/
def padStep1 (value : α) (T Tp : Nat) (p : PadRow α) : List α :=
  (scatRow (andNot (maskLt Tp (p.l + p.len)) (maskLt Tp p.l)) (List.replicate Tp value)
    (selRow (maskLt T p.len) p.x)).1

theorem padStep1_eq (value : α) (T Tp : Nat) (p : PadRow α) (hx : p.x.length = T) (hlen : p.len ≤ T)
    (hTp : p.newLen ≤ Tp) :
    padStep1 value T Tp p
      = List.replicate p.l value ++ (p.x.take p.len ++ List.replicate (Tp - (p.l + p.len)) value) := by
  unfold PadRow.newLen at hTp
  unfold padStep1
  rw [andNot_maskLt, selRow_maskLt _ _ hlen,
    scatRow_ival_fst Tp p.l (p.l + p.len) (by omega) (by omega) _ _ (by simp) (by simp; omega)]
  simp [List.take_replicate, List.drop_replicate]
  omega

theorem padRow_constant (value : α) (T Tp : Nat) (p : PadRow α) (hx : p.x.length = T) (hlen : p.len ≤ T)
    (hTp : p.newLen ≤ Tp) :
    padStep1 value T Tp p = padRowOut .constant value Tp p := by
  rw [padStep1_eq value T Tp p hx hlen hTp]
  unfold PadRow.newLen at hTp
  simp only [padRowOut, padSeq, PadRow.newLen, List.append_assoc, List.replicate_append_replicate]
  congr 3
  omega

theorem padRow_other (value : α) (T Tp : Nat) (p : PadRow α) (hx : p.x.length = T)
    (hlen : p.len ≤ T) (hTp : p.newLen ≤ Tp) (L R : List α) (hL : L.length = p.l) (hR : R.length = p.r) :
    (scatRow (andNot (maskLt Tp p.newLen) (maskLt Tp (p.l + p.len)))
      (scatRow (maskLt Tp p.l) (padStep1 value T Tp p) L).1 R).1
      = L ++ (p.x.take p.len ++ (R ++ List.replicate (Tp - p.newLen) value)) := by
  have hX : (p.x.take p.len).length = p.len := by simp; omega
  rw [padStep1_eq value T Tp p hx hlen hTp]
  unfold PadRow.newLen at hTp ⊢
  rw [andNot_maskLt, maskLt_eq_ival Tp p.l,
    scatRow_ival_fst Tp 0 p.l (by omega) (by omega) _ _ (by simp; omega) (by simpa using hL)]
  rw [scatRow_ival_fst Tp (p.l + p.len) (p.len + (p.l + p.r)) (by omega) (by omega) _ _
    (by simp [hL]; omega) (by omega)]
  simp only [List.take_zero, List.nil_append]
  have e1 : List.drop p.l (List.replicate p.l value ++ (List.take p.len p.x ++ List.replicate (Tp - (p.l + p.len)) value))
      = List.take p.len p.x ++ List.replicate (Tp - (p.l + p.len)) value := by
    rw [List.drop_left' (by simp)]
  rw [e1]
  have e2 : List.take (p.l + p.len) (L ++ (List.take p.len p.x ++ List.replicate (Tp - (p.l + p.len)) value))
      = L ++ List.take p.len p.x := by
    rw [← List.append_assoc, List.take_left' (by simp [hL, hX])]
  have e3 : List.drop (p.len + (p.l + p.r)) (L ++ (List.take p.len p.x ++ List.replicate (Tp - (p.l + p.len)) value))
      = List.replicate (Tp - (p.len + (p.l + p.r))) value := by
    rw [← List.append_assoc]
    have : p.len + (p.l + p.r) = (p.l + p.len) + p.r := by omega
    rw [this, drop_append_len _ _ _ _ (by simp [hL, hX]), List.drop_replicate]
    congr 1
    omega
  rw [e2, e3]
  simp

/-- Legal request for `pad_variable`: rectangular input, lengths within the tensor, pads legal
for the mode. -/
def PadRow.Legal (mode : Mode) (T : Nat) (p : PadRow α) : Prop :=
  p.x.length = T ∧ p.len ≤ T ∧ legalPad mode p.len p.l p.r = true

theorem padVariable_eq (mode : Mode) (value : α) (T : Nat) (rows : List (PadRow α))
    (hne : rows ≠ []) (h : ∀ p ∈ rows, p.Legal mode T) :
    padVariable false mode value T rows
      = .ok (rows.map (padRowOut mode value (maxOf (rows.map PadRow.newLen)))) := by
  have hTp : ∀ p ∈ rows, p.newLen ≤ maxOf (rows.map PadRow.newLen) :=
    fun p hp => le_maxOf (List.mem_map.2 ⟨p, hp, rfl⟩)
  have hnl : ∀ p : PadRow α, p.newLen = p.len + (p.l + p.r) := fun _ => rfl
  have hemp : rows.isEmpty = false := by
    cases rows with
    | nil => exact absurd rfl hne
    | cons _ _ => rfl
  -- the first scatter, common to all modes
  have step1 : maskedScatter (rows.map (fun _ => List.replicate (maxOf (rows.map PadRow.newLen)) value))
      (List.zipWith andNot (rows.map (fun p => maskLt (maxOf (rows.map PadRow.newLen)) (p.l + p.len)))
        (rows.map (fun p => maskLt (maxOf (rows.map PadRow.newLen)) p.l)))
      (maskedSelect (rows.map (fun p => maskLt T p.len)) (rows.map (·.x)))
      = .ok (rows.map (padStep1 value T (maxOf (rows.map PadRow.newLen)))) := by
    rw [zipWith_andNot_map, maskedSelect_map, maskedScatter_aligned]
    · rfl
    · intro p hp
      obtain ⟨hx, hlen, _⟩ := h p hp
      have h1 := hTp p hp
      have h2 := hnl p
      rw [andNot_maskLt, selRow_maskLt _ _ hlen, count_ival _ _ _ (by omega) (by omega)]
      simp only [length_ival, List.length_replicate, List.length_take]
      omega
  by_cases hm : mode = .constant
  · subst hm
    simp only [padVariable, hemp, paddingBuffers, step1]
    simp only [Bool.false_eq_true, if_false, if_true]
    congr 1
    apply List.map_congr_left
    intro p hp
    obtain ⟨hx, hlen, _⟩ := h p hp
    exact padRow_constant value T _ p hx hlen (hTp p hp)
  · have hb := paddingBuffers_ok mode hm value T (rows.map PadRow.buf) (by
      intro b hb
      obtain ⟨p, hp, rfl⟩ := List.mem_map.1 hb
      exact h p hp)
    simp only [List.map_map] at hb
    simp only [padVariable, hemp, hb, step1, hm]
    simp only [Bool.false_eq_true, if_false]
    rw [maskedScatter_aligned]
    · simp only
      rw [zipWith_andNot_map, maskedScatter_aligned]
      · congr 1
        apply List.map_congr_left
        intro p hp
        obtain ⟨hx, hlen, _⟩ := h p hp
        simp only [Function.comp, PadRow.buf]
        rw [padRow_other value T _ p hx hlen (hTp p hp) _ _ (by simp) (by simp)]
        simp [padRowOut, padSeq_eq]
      · intro p hp
        have h1 := hTp p hp
        have h2 := hnl p
        simp only [Function.comp, PadRow.buf, rightPart_length]
        rw [andNot_maskLt, count_ival _ _ _ (by omega) (by omega)]
        simp only [length_ival, scatRow_fst_length, padStep1, List.length_replicate]
        omega
    · intro p hp
      have h1 := hTp p hp
      have h2 := hnl p
      simp only [Function.comp, PadRow.buf, leftPart_length]
      rw [maskLt_eq_ival, count_ival _ _ _ (by omega) (by omega)]
      simp only [length_ival, scatRow_fst_length, padStep1, List.length_replicate]
      omega

/-! ### `pad_masked_sequence` -/

theorem selRow_eq_compact (m : List Bool) (xs : List α) : selRow m xs = compact m xs := by
  induction m generalizing xs with
  | nil => simp [compact]
  | cons b m ih =>
    cases xs with
    | nil => simp [compact]
    | cons x xs =>
      have := ih xs
      cases b <;> simp_all [selRow, compact]

theorem compact_length (m : List Bool) (xs : List α) (h : m.length ≤ xs.length) :
    (compact m xs).length = m.count true := by
  rw [← selRow_eq_compact, selRow_length m xs h]

def MaskRow.Wf (T : Nat) (r : MaskRow α) : Prop := r.x.length = T ∧ r.mask.length = T

theorem padMaskedCore_eq (value : α) (T : Nat) (rows : List (MaskRow α)) (h : ∀ r ∈ rows, r.Wf T) :
    padMaskedCore value T rows
      = .ok (rows.map (fun r => compact r.mask r.x ++ List.replicate (T - (compact r.mask r.x).length) value),
             rows.map (fun r => (compact r.mask r.x).length)) := by
  unfold padMaskedCore
  simp only []
  rw [maskedSelect_map, maskedScatter_aligned]
  · simp only
    congr 2
    · apply List.map_congr_left
      intro r hr
      obtain ⟨hx, hmk⟩ := h r hr
      have hc : r.mask.count true ≤ T := by rw [← hmk]; exact List.count_le_length
      have hl := selRow_length r.mask r.x (by omega)
      rw [maskLt_eq_ival, scatRow_ival_fst T 0 _ (by omega) hc _ _ (by simp [hx]) (by simpa using hl)]
      rw [← selRow_eq_compact, hl]
      have hmap : r.x.map (fun _ => value) = List.replicate T value := by
        rw [← hx]; exact List.map_const' ..
      simp [hmap, List.drop_replicate]
    · apply List.map_congr_left
      intro r hr
      obtain ⟨hx, hmk⟩ := h r hr
      rw [compact_length _ _ (by omega)]
  · intro r hr
    obtain ⟨hx, hmk⟩ := h r hr
    have hc : r.mask.count true ≤ T := by rw [← hmk]; exact List.count_le_length
    rw [maskLt_eq_ival, count_ival _ _ _ (by omega) hc, selRow_length _ _ (by omega)]
    simp [length_ival, hx]

/-! ### `chunk_by_slices`, one row -/

theorem ival_empty (T a b : Nat) (h : b ≤ a) : ival T a b = List.replicate T false := by
  apply List.ext_getElem?
  intro i
  simp only [ival, List.getElem?_map, List.getElem?_replicate]
  by_cases h1 : i < T
  · rw [List.getElem?_range h1]
    by_cases h2 : a ≤ i
    · have : ¬ i < b := by omega
      simp [h1, h2, this]
    · simp [h1, h2]
  · have : T ≤ i := by omega
    rw [List.getElem?_eq_none (by simpa using this)]
    simp [h1]

theorem sliceMask_eq_ival (T : Nat) (c : ChunkRow α) :
    c.sliceMask T = ival T c.start' c.stop'.toNat := by
  unfold ChunkRow.sliceMask ival
  apply List.map_congr_left
  intro t _
  have e1 : (c.start ≤ (t : Int)) ↔ c.start' ≤ t := by unfold ChunkRow.start'; omega
  have e2 : ((t : Int) < c.stop') ↔ t < c.stop'.toNat := by omega
  rw [decide_eq_decide.2 e1, decide_eq_decide.2 e2]

theorem stop'_le (c : ChunkRow α) : c.stop'.toNat ≤ c.len := by
  unfold ChunkRow.stop'; omega

theorem sliceLen_eq (c : ChunkRow α) : c.sliceLen = c.stop'.toNat - c.start' := by
  unfold ChunkRow.sliceLen; omega

theorem selRow_sliceMask (T : Nat) (c : ChunkRow α) (hlen : c.len ≤ T) :
    selRow (c.sliceMask T) c.x = (c.x.drop c.start').take c.sliceLen := by
  rw [sliceMask_eq_ival, sliceLen_eq]
  have := stop'_le c
  by_cases h : c.start' ≤ c.stop'.toNat
  · rw [selRow_ival _ _ _ h (by omega)]
  · rw [ival_empty _ _ _ (by omega), selRow_all_false]
    have : c.stop'.toNat - c.start' = 0 := by omega
    simp [this]

theorem count_sliceMask (T : Nat) (c : ChunkRow α) (hlen : c.len ≤ T) :
    (c.sliceMask T).count true = c.sliceLen := by
  rw [sliceMask_eq_ival, sliceLen_eq]
  have := stop'_le c
  by_cases h : c.start' ≤ c.stop'.toNat
  · rw [count_ival _ _ _ h (by omega)]
  · rw [ival_empty _ _ _ (by omega)]
    simp [List.count_replicate]
    omega

/-- everything the row writes fits into the common width -/
theorem chunk_total_le (c : ChunkRow α) :
    c.leftPad + c.sliceLen + c.rightPad ≤ max (max c.leftPad c.chunkLen) c.rightPad := by
  unfold ChunkRow.leftPad ChunkRow.rightPad ChunkRow.sliceLen ChunkRow.stop' ChunkRow.start'
    ChunkRow.chunkLen
  split <;> omega

/-- the row of `chunks` after: left buffer, right buffer, then the slice itself -/
theorem chunkRow_other (value : α) (Tp a sl r : Nat) (hTp : a + sl + r ≤ Tp) (L S R : List α)
    (hL : L.length = a) (hS : S.length = sl) (hR : R.length = r) :
    (scatRow (andNot (maskLt Tp (a + sl)) (maskLt Tp a))
      (scatRow (andNot (maskLt Tp (a + sl + r)) (maskLt Tp (a + sl)))
        (scatRow (maskLt Tp a) (List.replicate Tp value) L).1 R).1 S).1
      = L ++ (S ++ (R ++ List.replicate (Tp - (a + sl + r)) value)) := by
  rw [andNot_maskLt, andNot_maskLt, maskLt_eq_ival Tp a,
    scatRow_ival_fst Tp 0 a (by omega) (by omega) _ _ (by simp) (by simpa using hL)]
  simp only [List.take_zero, List.nil_append, List.drop_replicate]
  rw [scatRow_ival_fst Tp (a + sl) (a + sl + r) (by omega) (by omega) _ _ (by simp [hL]; omega) (by omega)]
  have e1 : List.take (a + sl) (L ++ List.replicate (Tp - a) value) = L ++ List.replicate sl value := by
    rw [take_append_len _ _ _ _ hL, List.take_replicate]
    have : min sl (Tp - a) = sl := by omega
    rw [this]
  have e2 : List.drop (a + sl + r) (L ++ List.replicate (Tp - a) value)
      = List.replicate (Tp - (a + sl + r)) value := by
    have : a + sl + r = a + (sl + r) := by omega
    rw [this, drop_append_len _ _ _ _ hL, List.drop_replicate]
    congr 1
    omega
  rw [e1, e2]
  rw [scatRow_ival_fst Tp a (a + sl) (by omega) (by omega) _ _ (by simp [hL, hR]; omega) (by omega)]
  have e3 : List.take a (L ++ List.replicate sl value ++ (R ++ List.replicate (Tp - (a + sl + r)) value)) = L := by
    rw [List.append_assoc, List.take_left' hL]
  have e4 : List.drop (a + sl) (L ++ List.replicate sl value ++ (R ++ List.replicate (Tp - (a + sl + r)) value))
      = R ++ List.replicate (Tp - (a + sl + r)) value := by
    rw [List.drop_left' (by simp [hL])]
  rw [e3, e4]

/-- constant mode: only the slice is scattered -/
theorem chunkRow_constant (value : α) (Tp a sl r : Nat) (hTp : a + sl + r ≤ Tp) (S : List α)
    (hS : S.length = sl) :
    (scatRow (andNot (maskLt Tp (a + sl)) (maskLt Tp a)) (List.replicate Tp value) S).1
      = List.replicate a value ++ (S ++ (List.replicate r value ++ List.replicate (Tp - (a + sl + r)) value)) := by
  rw [andNot_maskLt, scatRow_ival_fst Tp a (a + sl) (by omega) (by omega) _ _ (by simp) (by omega)]
  simp only [List.take_replicate, List.drop_replicate, List.replicate_append_replicate]
  have e1 : min a Tp = a := by omega
  have e2 : r + (Tp - (a + sl + r)) = Tp - (a + sl) := by omega
  rw [e1, e2]

/-- The valid part of an assembled row `Lp ++ slice ++ Rp ++ fill` is "pad, then slice". `hB3` is the
only place where the content of the right padding matters: a slice lying wholly right of the
sequence must see the padding from offset `start - |xs|` on. -/
theorem chunk_valid (xs Lp Rp fill : List α) (start stop : Int) (hlt : start < stop)
    (hLp : Lp.length = needLeft start stop) (hRp : Rp.length = needRight xs.length start stop)
    (hB3 : (xs.length : Int) ≤ start →
        Rp.take (stop - start).toNat = Rp.drop (start - xs.length).toNat) :
    (Lp ++ ((xs.take (min stop xs.length).toNat).drop start.toNat ++ (Rp ++ fill))).take (stop - start).toNat
      = slice (Lp ++ xs ++ Rp) (start + (needLeft start stop : Nat)).toNat
          (stop + (needLeft start stop : Nat)).toNat := by
  have hnl : needLeft start stop = (-start).toNat := by simp [needLeft, Int.not_le.2 hlt]
  have hnr : needRight xs.length start stop = (stop - xs.length).toNat := by
    simp [needRight, Int.not_le.2 hlt]
  rw [hnl] at hLp ⊢
  rw [hnr] at hRp
  unfold slice
  by_cases hs : start < 0
  · -- the slice starts in the left padding
    have e0 : start.toNat = 0 := by omega
    have e1 : (start + ((-start).toNat : Nat)).toNat = 0 := by omega
    have e2 : (stop + ((-start).toNat : Nat)).toNat = (stop - start).toNat := by omega
    rw [e0, e1, e2, List.drop_zero, List.drop_zero]
    by_cases h1 : stop ≤ 0
    · have hc : (stop - start).toNat ≤ Lp.length := by omega
      rw [List.take_append_of_le_length hc, List.append_assoc, List.take_append_of_le_length hc]
    · by_cases h2 : stop ≤ xs.length
      · have hR0 : Rp = [] := List.eq_nil_of_length_eq_zero (by omega)
        subst hR0
        have e3 : (stop - start).toNat = (-start).toNat + stop.toNat := by omega
        have e4 : (min stop (xs.length : Int)).toNat = stop.toNat := by omega
        have hk : (xs.take stop.toNat).length = stop.toNat := by simp; omega
        rw [e3, e4, take_append_len _ _ _ _ hLp, List.take_left' hk, List.append_nil,
          take_append_len _ _ _ _ hLp]
      · have e3 : (stop - start).toNat = (-start).toNat + (xs.length + (stop - xs.length).toNat) := by omega
        have e4 : (min stop (xs.length : Int)).toNat = xs.length := by omega
        rw [e3, e4, List.take_length, take_append_len _ _ _ _ hLp, take_append_len _ _ _ _ rfl,
          List.take_left' hRp]
        rw [List.take_of_length_le (by simp [hLp, hRp])]
        simp
  · have hL0 : Lp = [] := List.eq_nil_of_length_eq_zero (by omega)
    subst hL0
    have e1 : (start + ((-start).toNat : Nat)).toNat = start.toNat := by omega
    have e2 : (stop + ((-start).toNat : Nat)).toNat = stop.toNat := by omega
    rw [e1, e2]
    simp only [List.nil_append]
    by_cases h2 : stop ≤ xs.length
    · have hR0 : Rp = [] := List.eq_nil_of_length_eq_zero (by omega)
      subst hR0
      have e4 : (min stop (xs.length : Int)).toNat = stop.toNat := by omega
      have hk : ((xs.take stop.toNat).drop start.toNat).length = (stop - start).toNat := by
        simp; omega
      rw [e4, List.append_nil, List.nil_append, List.take_left' hk]
    · have e4 : (min stop (xs.length : Int)).toNat = xs.length := by omega
      rw [e4, List.take_length]
      have e5 : stop.toNat = xs.length + (stop - xs.length).toNat := by omega
      rw [List.take_of_length_le (l := xs ++ Rp) (by simp [hRp]; omega)]
      by_cases h3 : start < xs.length
      · have e3 : (stop - start).toNat = (xs.length - start.toNat) + (stop - xs.length).toNat := by omega
        have hk : (xs.drop start.toNat).length = xs.length - start.toNat := by simp
        rw [e3, take_append_len _ _ _ _ hk, List.take_left' hRp,
          List.drop_append_of_le_length (by omega)]
      · have hd : xs.drop start.toNat = [] := List.drop_eq_nil_of_le (by omega)
        rw [hd, List.nil_append]
        have hc : (stop - start).toNat ≤ Rp.length := by omega
        rw [List.take_append_of_le_length hc, hB3 (by omega)]
        have e6 : start.toNat = xs.length + (start - xs.length).toNat := by omega
        rw [e6, drop_append_len _ _ _ _ rfl]


/-! ### `chunk_by_slices`, whole batch (constant and replicate) -/

def ChunkRow.Legal (mode : Mode) (T : Nat) (c : ChunkRow α) : Prop :=
  c.x.length = T ∧ c.len ≤ T ∧ legalPad mode c.len c.leftPad c.rightPad = true

/-- common output width -/
def chunkTp (rows : List (ChunkRow α)) : Nat :=
  max (max (maxOf (rows.map ChunkRow.leftPad)) (maxOf (rows.map ChunkRow.chunkLen)))
    (maxOf (rows.map ChunkRow.rightPad))

/-- the whole row `chunk_by_slices` produces (constant / replicate) -/
def chunkRowOut (mode : Mode) (value : α) (Tp : Nat) (c : ChunkRow α) : List α :=
  leftPart mode value c.leftPad (c.x.take c.len)
    ++ ((c.x.drop c.start').take c.sliceLen
      ++ (rightPart mode value c.rightPad (c.x.take c.len)
        ++ List.replicate (Tp - (c.leftPad + c.sliceLen + c.rightPad)) value))

theorem chunk_total_le_Tp (rows : List (ChunkRow α)) (c : ChunkRow α) (hc : c ∈ rows) :
    c.leftPad + c.sliceLen + c.rightPad ≤ chunkTp rows := by
  have h1 : c.leftPad ≤ maxOf (rows.map ChunkRow.leftPad) := le_maxOf (List.mem_map.2 ⟨c, hc, rfl⟩)
  have h2 : c.chunkLen ≤ maxOf (rows.map ChunkRow.chunkLen) := le_maxOf (List.mem_map.2 ⟨c, hc, rfl⟩)
  have h3 : c.rightPad ≤ maxOf (rows.map ChunkRow.rightPad) := le_maxOf (List.mem_map.2 ⟨c, hc, rfl⟩)
  have := chunk_total_le c
  unfold chunkTp
  omega

theorem sliceLen_le (c : ChunkRow α) (T : Nat) (hx : c.x.length = T) (hlen : c.len ≤ T) :
    ((c.x.drop c.start').take c.sliceLen).length = c.sliceLen := by
  have := stop'_le c
  rw [sliceLen_eq]
  simp
  omega

theorem chunkBySlices_eq (mode : Mode) (hmode : mode ≠ .reflect) (value : α) (T : Nat)
    (rows : List (ChunkRow α)) (hne : rows ≠ []) (h : ∀ c ∈ rows, c.Legal mode T) :
    chunkBySlices false mode value T rows
      = .ok (rows.map (chunkRowOut mode value (chunkTp rows)), rows.map ChunkRow.chunkLen) := by
  have hemp : rows.isEmpty = false := by
    cases rows with
    | nil => exact absurd rfl hne
    | cons _ _ => rfl
  have hguard : ¬ (rows.isEmpty = true ∨ (T = 0 ∧ ((false = true) ∨ mode ≠ .constant))) := by
    rw [hemp]
    intro hg
    rcases hg with hg | ⟨hT, hg⟩
    · cases hg
    · rcases hg with hg | hg
      · cases hg
      · cases rows with
        | nil => exact hne rfl
        | cons c _ =>
          have := h c (by simp)
          cases mode with
          | constant => exact hg rfl
          | reflect => exact hmode rfl
          | replicate =>
            obtain ⟨_, h2, h3⟩ := this
            simp [legalPad] at h3
            omega
  have hTp := chunk_total_le_Tp rows
  -- the last scatter (the slice itself), on any intermediate `chunks`
  by_cases hm : mode = .constant
  · subst hm
    simp only [chunkBySlices, if_neg hguard, paddingBuffers]
    simp only [if_true]
    rw [zipWith_andNot_map, maskedSelect_map, maskedScatter_aligned]
    · simp only
      congr 2
      apply List.map_congr_left
      intro c hc
      obtain ⟨hx, hlen, _⟩ := h c hc
      rw [selRow_sliceMask T c hlen]
      exact chunkRow_constant value _ c.leftPad c.sliceLen c.rightPad (hTp c hc) _ (sliceLen_le c T hx hlen)
    · intro c hc
      obtain ⟨hx, hlen, _⟩ := h c hc
      have := hTp c hc
      rw [andNot_maskLt, count_ival _ _ _ (by omega) (by unfold chunkTp at this; omega),
        selRow_sliceMask T c hlen, sliceLen_le c T hx hlen]
      simp [length_ival]
  · have hb := paddingBuffers_ok mode hm value T (rows.map ChunkRow.buf) (by
      intro b hb
      obtain ⟨c, hc, rfl⟩ := List.mem_map.1 hb
      exact h c hc)
    simp only [List.map_map] at hb
    simp only [chunkBySlices, if_neg hguard, hb, hm]
    simp only [if_false]
    rw [maskedScatter_aligned]
    · simp only
      rw [zipWith_andNot_map, maskedScatter_aligned]
      · simp only [hmode, ne_eq, not_false_eq_true, if_true]
        rw [zipWith_andNot_map, maskedSelect_map, maskedScatter_aligned]
        · simp only
          congr 2
          apply List.map_congr_left
          intro c hc
          obtain ⟨hx, hlen, _⟩ := h c hc
          simp only [Function.comp, ChunkRow.buf]
          rw [selRow_sliceMask T c hlen]
          exact chunkRow_other value _ c.leftPad c.sliceLen c.rightPad (hTp c hc) _ _ _ (by simp)
            (sliceLen_le c T hx hlen) (by simp)
        · intro c hc
          obtain ⟨hx, hlen, _⟩ := h c hc
          have := hTp c hc
          rw [andNot_maskLt, count_ival _ _ _ (by omega) (by unfold chunkTp at this; omega),
            selRow_sliceMask T c hlen, sliceLen_le c T hx hlen]
          simp [length_ival, scatRow_fst_length]
      · intro c hc
        have := hTp c hc
        simp only [Function.comp, ChunkRow.buf, rightPart_length]
        rw [andNot_maskLt, count_ival _ _ _ (by omega) (by unfold chunkTp at this; omega)]
        simp [length_ival, scatRow_fst_length]
    · intro c hc
      have := hTp c hc
      simp only [Function.comp, ChunkRow.buf, leftPart_length]
      rw [maskLt_eq_ival, count_ival _ _ _ (by omega) (by unfold chunkTp at this; omega)]
      simp [length_ival]

theorem rightPart_shift (mode : Mode) (hmode : mode ≠ .reflect) (value : α) (r a b : Nat) (xs : List α)
    (h : a + b = r) :
    (rightPart mode value r xs).take a = (rightPart mode value r xs).drop b := by
  cases mode with
  | reflect => exact absurd rfl hmode
  | constant =>
    simp only [rightPart, List.take_replicate, List.drop_replicate]
    congr 1; omega
  | replicate =>
    simp only [rightPart, List.take_replicate, List.drop_replicate]
    congr 1; omega

theorem chunkRowOut_valid_gen (mode : Mode) (value : α) (T Tp : Nat)
    (c : ChunkRow α) (hx : c.x.length = T) (hlen : c.len ≤ T)
    (hR : (c.len : Int) ≤ c.start → c.start < c.stop →
      (rightPart mode value c.rightPad (c.x.take c.len)).take (c.stop - c.start).toNat
        = (rightPart mode value c.rightPad (c.x.take c.len)).drop (c.start - c.len).toNat) :
    (chunkRowOut mode value Tp c).take c.chunkLen
      = chunkSeq mode value (c.x.take c.len) c.start c.stop := by
  have hxs : (c.x.take c.len).length = c.len := by simp; omega
  by_cases he : c.stop ≤ c.start
  · have : c.chunkLen = 0 := by unfold ChunkRow.chunkLen; omega
    simp [this, chunkSeq, he]
  · have hlt : c.start < c.stop := by omega
    have hcl : c.chunkLen ≠ 0 := by unfold ChunkRow.chunkLen; omega
    have hlp : c.leftPad = needLeft c.start c.stop := by
      simp [ChunkRow.leftPad, hcl, needLeft, he]
    have hrp : c.rightPad = needRight (c.x.take c.len).length c.start c.stop := by
      simp only [ChunkRow.rightPad, hcl, needRight, he, if_false, hxs]
    have hS : (c.x.drop c.start').take c.sliceLen
        = ((c.x.take c.len).take (min c.stop ((c.x.take c.len).length : Int)).toNat).drop c.start.toNat := by
      rw [hxs, List.take_take, List.drop_take, sliceLen_eq]
      have : min (min c.stop (c.len : Int)).toNat c.len = c.stop'.toNat := by
        unfold ChunkRow.stop'; omega
      rw [this]
      rfl
    unfold chunkRowOut chunkSeq
    rw [if_neg he]
    simp only []
    rw [padSeq_eq, hS, ← hlp, ← hrp]
    have := chunk_valid (c.x.take c.len) (leftPart mode value c.leftPad (c.x.take c.len))
      (rightPart mode value c.rightPad (c.x.take c.len))
      (List.replicate (Tp - (c.leftPad + c.sliceLen + c.rightPad)) value) c.start c.stop hlt
      (by rw [leftPart_length, hlp]) (by rw [rightPart_length, hrp])
      (by
        intro hge
        rw [hxs] at hge ⊢
        exact hR hge hlt)
    rw [← hlp] at this
    exact this


/-! ### `random_shift` amounts -/

theorem natCast_toNat_floor (q : Rat) (hq : 0 ≤ q) : ((q.floor.toNat : Nat) : Rat) = ((q.floor : Int) : Rat) := by
  have h0 : (0 : Int) ≤ q.floor := Rat.le_floor_iff.2 (by simpa using hq)
  have : ((q.floor.toNat : Nat) : Int) = q.floor := Int.toNat_of_nonneg h0
  rw [← this]
  rfl

/-- the added amount is a whole number (a `Nat`) not exceeding `prop * len` -/
theorem shiftAmount_le (p : Rat) (len : Nat) (u : Rat) (hp : 0 ≤ p) (hu0 : 0 ≤ u) (hu1 : u ≤ 1) :
    ((shiftAmount p len u : Nat) : Rat) ≤ p * (len : Rat) := by
  have hpl : 0 ≤ p * (len : Rat) := Rat.mul_nonneg hp Rat.natCast_nonneg
  have hq : 0 ≤ p * (len : Rat) * u := Rat.mul_nonneg hpl hu0
  unfold shiftAmount
  rw [natCast_toNat_floor _ hq]
  calc ((p * (len : Rat) * u).floor : Rat) ≤ p * (len : Rat) * u := Rat.floor_le _
    _ ≤ p * (len : Rat) * 1 := Rat.mul_le_mul_of_nonneg_left hu1 hpl
    _ = p * (len : Rat) := Rat.mul_one _

/-- with `prop ≤ 1` and a draw `< 1` the amount stays strictly below the length (what reflect needs) -/
theorem shiftAmount_lt (p : Rat) (len : Nat) (u : Rat) (hp : p ≤ 1) (hu0 : 0 ≤ u) (hu1 : u < 1)
    (hlen : 0 < len) : shiftAmount p len u < len := by
  have hl0 : (0 : Rat) ≤ (len : Rat) := Rat.natCast_nonneg
  have hlpos : (0 : Rat) < (len : Rat) := by
    have : ((0 : Nat) : Rat) < ((len : Nat) : Rat) := by exact_mod_cast hlen
    simpa using this
  have h1 : p * (len : Rat) ≤ (len : Rat) := by
    have := Rat.mul_le_mul_of_nonneg_right hp hl0
    simpa using this
  have h2 : p * (len : Rat) * u ≤ (len : Rat) * u := Rat.mul_le_mul_of_nonneg_right h1 hu0
  have h3 : (len : Rat) * u < (len : Rat) := by
    have := Rat.mul_lt_mul_of_pos_left hu1 hlpos
    simpa using this
  have hq : p * (len : Rat) * u < ((len : Int) : Rat) := by
    have : p * (len : Rat) * u < (len : Rat) := Std.lt_of_le_of_lt h2 h3
    exact this
  have hf : (p * (len : Rat) * u).floor < (len : Int) := Rat.floor_lt_iff.2 hq
  unfold shiftAmount
  omega


/-! ### the pinned replicate buffers agree with the repaired ones while no pad exceeds `T` -/

theorem maskLt_le_one (n l : Nat) (hn : n ≤ 1) : maskLt n l = List.replicate n (decide (0 < l)) := by
  have : n = 0 ∨ n = 1 := by omega
  rcases this with rfl | rfl <;> simp [maskLt, List.range_succ]

theorem paddingBuffers_pinned_eq (mode : Mode) (value : α) (T : Nat) (bs : List (BufRow α))
    (h : ∀ b ∈ bs, b.l ≤ T ∧ b.r ≤ T) :
    paddingBuffers true mode value T bs = paddingBuffers false mode value T bs := by
  have hL : maxOf (bs.map (·.l)) ≤ T := maxOf_le (by
    intro a ha
    obtain ⟨b, hb, rfl⟩ := List.mem_map.1 ha
    exact (h b hb).1)
  have hR : maxOf (bs.map (·.r)) ≤ T := maxOf_le (by
    intro a ha
    obtain ⟨b, hb, rfl⟩ := List.mem_map.1 ha
    exact (h b hb).2)
  cases mode with
  | constant => rfl
  | reflect => rfl
  | replicate =>
    simp only [paddingBuffers]
    split
    · rfl
    · simp only [if_true, Bool.false_eq_true, if_false]
      by_cases hT : T = 1
      · subst hT
        simp only [if_true]
        have e1 : bs.map (replLeftPinnedT1 value (maxOf (bs.map (·.l))))
            = bs.map (replLeft value (maxOf (bs.map (·.l)))) := by
          apply List.map_congr_left
          intro b _
          simp only [replLeftPinnedT1, replLeft, maskLt_le_one _ _ hL]
        have e2 : bs.map (replRightPinnedT1 value (maxOf (bs.map (·.r))))
            = bs.map (replRight value (maxOf (bs.map (·.r)))) := by
          apply List.map_congr_left
          intro b _
          simp only [replRightPinnedT1, replRight, maskLt_le_one _ _ hR]
        rw [e1, e2]
      · have : ¬ (T < maxOf (bs.map (·.l)) ∨ T < maxOf (bs.map (·.r))) := by omega
        simp only [hT, this, if_false]

theorem chunkRowOut_valid (mode : Mode) (hmode : mode ≠ .reflect) (value : α) (T Tp : Nat)
    (c : ChunkRow α) (hx : c.x.length = T) (hlen : c.len ≤ T) :
    (chunkRowOut mode value Tp c).take c.chunkLen
      = chunkSeq mode value (c.x.take c.len) c.start c.stop := by
  apply chunkRowOut_valid_gen mode value T Tp c hx hlen
  intro hge hlt
  have hcl : c.chunkLen ≠ 0 := by unfold ChunkRow.chunkLen; omega
  apply rightPart_shift mode hmode
  simp only [ChunkRow.rightPad, hcl, if_false]
  omega

/-- reflect, for a slice that does not start strictly beyond the end of the sequence -/
theorem chunkRowOut_valid_reflect (value : α) (T Tp : Nat)
    (c : ChunkRow α) (hx : c.x.length = T) (hlen : c.len ≤ T) (hoff : c.offset = 0) :
    (chunkRowOut .reflect value Tp c).take c.chunkLen
      = chunkSeq .reflect value (c.x.take c.len) c.start c.stop := by
  apply chunkRowOut_valid_gen .reflect value T Tp c hx hlen
  intro hge hlt
  have hcl : c.chunkLen ≠ 0 := by unfold ChunkRow.chunkLen; omega
  have hst : c.start = c.len := by
    unfold ChunkRow.offset ChunkRow.start' at hoff; omega
  have e1 : (c.start - (c.len : Int)).toNat = 0 := by omega
  rw [e1, List.drop_zero, List.take_of_length_le]
  rw [rightPart_length]
  simp only [ChunkRow.rightPad, hcl, if_false]
  omega

/-! ### reflect: the special-case select / scatter is a no-op when no row has an offset -/

def AllFalse (m : List Bool) : Prop := ∀ b ∈ m, b = false

theorem selRow_allFalse (m : List Bool) (h : AllFalse m) (xs : List α) : selRow m xs = [] := by
  induction m generalizing xs with
  | nil => simp
  | cons b m ih =>
    cases xs with
    | nil => simp
    | cons x xs =>
      have hb : b = false := h b (by simp)
      subst hb
      simp [selRow, ih (fun b hb => h b (by simp [hb]))]

theorem scatRow_allFalse (m : List Bool) (h : AllFalse m) (d s : List α) : scatRow m d s = (d, s) := by
  induction m generalizing d with
  | nil => simp
  | cons b m ih =>
    cases d with
    | nil => simp
    | cons x d =>
      have hb : b = false := h b (by simp)
      subst hb
      simp [scatRow, ih (fun b hb => h b (by simp [hb]))]

theorem count_allFalse (m : List Bool) (h : AllFalse m) : m.count true = 0 := by
  rw [List.count_eq_zero]
  intro ht
  have := h true ht
  cases this

theorem andM_constFalse (a : List Bool) (l : List Nat) :
    AllFalse (andM a (l.map (fun _ => false))) := by
  induction a generalizing l with
  | nil => intro b hb; simp [andM] at hb
  | cons x a ih =>
    cases l with
    | nil => intro b hb; simp [andM] at hb
    | cons y l =>
      intro b hb
      simp only [andM, List.map_cons, List.zipWith_cons_cons, Bool.and_false, List.mem_cons] at hb
      rcases hb with hb | hb
      · exact hb
      · exact ih l b hb

theorem andNot_constFalse (a : List Bool) (l : List Nat) :
    AllFalse (andNot (l.map (fun _ => false)) a) := by
  induction a generalizing l with
  | nil => intro b hb; simp [andNot] at hb
  | cons x a ih =>
    cases l with
    | nil => intro b hb; simp [andNot] at hb
    | cons y l =>
      intro b hb
      simp only [andNot, List.map_cons, List.zipWith_cons_cons, Bool.false_and, List.mem_cons] at hb
      rcases hb with hb | hb
      · exact hb
      · exact ih l b hb

theorem zipWith_andM_map {ι : Type} (rows : List ι) (f g : ι → List Bool) :
    List.zipWith andM (rows.map f) (rows.map g) = rows.map (fun r => andM (f r) (g r)) := by
  simp [List.zipWith_map_left, List.zipWith_map_right, List.zipWith_self]

theorem chunkBySlices_reflect_eq (value : α) (T : Nat)
    (rows : List (ChunkRow α)) (hne : rows ≠ []) (h : ∀ c ∈ rows, c.Legal .reflect T)
    (hoff : ∀ c ∈ rows, c.offset = 0) :
    chunkBySlices false .reflect value T rows
      = .ok (rows.map (chunkRowOut .reflect value (chunkTp rows)), rows.map ChunkRow.chunkLen) := by
  have hemp : rows.isEmpty = false := by
    cases rows with
    | nil => exact absurd rfl hne
    | cons _ _ => rfl
  have hguard : ¬ (rows.isEmpty = true ∨ (T = 0 ∧ ((false = true) ∨ Mode.reflect ≠ .constant))) := by
    rw [hemp]
    intro hg
    rcases hg with hg | ⟨hT, _⟩
    · cases hg
    · cases rows with
      | nil => exact hne rfl
      | cons c _ =>
        obtain ⟨_, h2, h3⟩ := h c (by simp)
        simp [legalPad] at h3
        omega
  have hTp := chunk_total_le_Tp rows
  have hb := paddingBuffers_ok .reflect (by decide) value T (rows.map ChunkRow.buf) (by
    intro b hb
    obtain ⟨c, hc, rfl⟩ := List.mem_map.1 hb
    exact h c hc)
  simp only [List.map_map] at hb
  simp only [chunkBySlices, if_neg hguard, hb]
  simp only [show (Mode.reflect = Mode.constant) = False from by simp, if_false]
  rw [maskedScatter_aligned]
  · simp only
    rw [zipWith_andNot_map, maskedScatter_aligned]
    · simp only [ne_eq, not_true_eq_false, if_false]
      -- the special-case select / scatter: every mask is empty because no row has an offset
      rw [zipWith_andM_map, maskedSelect_map, zipWith_andNot_map]
      have hge : ∀ c ∈ rows, AllFalse (andM
            (andNot (maskLt (chunkTp rows) (c.leftPad + c.sliceLen + c.rightPad))
              (maskLt (chunkTp rows) (c.leftPad + c.sliceLen)))
            ((List.range (chunkTp rows)).map
              (fun t => decide (c.leftPad + c.sliceLen + c.offset ≤ t) && decide (0 < c.offset)))) := by
        intro c hc
        simp only [hoff c hc, Nat.lt_irrefl, decide_false, Bool.and_false]
        exact andM_constFalse _ _
      have hnr : ∀ c ∈ rows, AllFalse (andNot
            ((List.range (chunkTp rows)).map
              (fun t => decide (t < c.rightPad - c.offset) && decide (0 < c.offset)))
            (maskLt (chunkTp rows) (c.leftPad + c.sliceLen))) := by
        intro c hc
        simp only [hoff c hc, Nat.lt_irrefl, decide_false, Bool.and_false]
        exact andNot_constFalse _ _
      rw [maskedScatter_aligned]
      · simp only
        rw [zipWith_andNot_map, maskedSelect_map, maskedScatter_aligned]
        · simp only
          congr 2
          apply List.map_congr_left
          intro c hc
          obtain ⟨hx, hlen, _⟩ := h c hc
          have h1 := hnr c hc
          unfold chunkTp at h1
          rw [scatRow_allFalse _ h1]
          simp only [Function.comp, ChunkRow.buf]
          rw [selRow_sliceMask T c hlen]
          exact chunkRow_other value _ c.leftPad c.sliceLen c.rightPad (hTp c hc) _ _ _ (by simp)
            (sliceLen_le c T hx hlen) (by simp)
        · intro c hc
          obtain ⟨hx, hlen, _⟩ := h c hc
          have := hTp c hc
          rw [andNot_maskLt, count_ival _ _ _ (by omega) (by unfold chunkTp at this; omega),
            selRow_sliceMask T c hlen, sliceLen_le c T hx hlen]
          simp [length_ival, scatRow_fst_length]
      · intro c hc
        have h1 := hnr c hc
        have h2 := hge c hc
        unfold chunkTp at h1 h2
        rw [selRow_allFalse _ h2, count_allFalse _ h1]
        simp [andNot, maskLt, scatRow_fst_length]
    · intro c hc
      have := hTp c hc
      simp only [Function.comp, ChunkRow.buf, rightPart_length]
      rw [andNot_maskLt, count_ival _ _ _ (by omega) (by unfold chunkTp at this; omega)]
      simp [length_ival, scatRow_fst_length]
  · intro c hc
    have := hTp c hc
    simp only [Function.comp, ChunkRow.buf, leftPart_length]
    rw [maskLt_eq_ival, count_ival _ _ _ (by omega) (by unfold chunkTp at this; omega)]
    simp [length_ival]


/-! ### reflect: the special case (slices starting strictly beyond the end of the sequence) -/

theorem pick_pos (Tp off r : Nat) (h : 0 < off) :
    andM (andNot (maskLt Tp r) (maskLt Tp 0))
      ((List.range Tp).map (fun t => decide (off ≤ t) && decide (0 < off))) = ival Tp off r := by
  rw [andNot_maskLt]
  simp only [andM, ival, List.zipWith_map_left, List.zipWith_map_right, List.zipWith_self]
  apply List.map_congr_left
  intro t _
  simp [h]
  exact Bool.and_comm _ _

theorem newRight_pos (Tp off r : Nat) (h : 0 < off) :
    andNot ((List.range Tp).map (fun t => decide (t < r - off) && decide (0 < off))) (maskLt Tp 0)
      = ival Tp 0 (r - off) := by
  simp only [andNot, maskLt, ival, List.zipWith_map_left, List.zipWith_map_right, List.zipWith_self]
  apply List.map_congr_left
  intro t _
  simp [h]

/-- left and right buffer scattered into a fresh row -/
theorem chunkRow_two (value : α) (Tp a sl r : Nat) (hTp : a + sl + r ≤ Tp) (L R : List α)
    (hL : L.length = a) (hR : R.length = r) :
    (scatRow (andNot (maskLt Tp (a + sl + r)) (maskLt Tp (a + sl)))
        (scatRow (maskLt Tp a) (List.replicate Tp value) L).1 R).1
      = L ++ (List.replicate sl value ++ (R ++ List.replicate (Tp - (a + sl + r)) value)) := by
  rw [andNot_maskLt, maskLt_eq_ival Tp a,
    scatRow_ival_fst Tp 0 a (by omega) (by omega) _ _ (by simp) (by simpa using hL)]
  simp only [List.take_zero, List.nil_append, List.drop_replicate]
  rw [scatRow_ival_fst Tp (a + sl) (a + sl + r) (by omega) (by omega) _ _ (by simp [hL]; omega) (by omega)]
  have e1 : List.take (a + sl) (L ++ List.replicate (Tp - a) value) = L ++ List.replicate sl value := by
    rw [take_append_len _ _ _ _ hL, List.take_replicate]
    have : min sl (Tp - a) = sl := by omega
    rw [this]
  have e2 : List.drop (a + sl + r) (L ++ List.replicate (Tp - a) value)
      = List.replicate (Tp - (a + sl + r)) value := by
    have : a + sl + r = a + (sl + r) := by omega
    rw [this, drop_append_len _ _ _ _ hL, List.drop_replicate]
    congr 1
    omega
  rw [e1, e2, List.append_assoc]

/-- the special-case step on a row whose slice starts `off > 0` cells into the right padding -/
theorem reflect_shift_row (Tp off r : Nat) (hr : r ≤ Tp) (R fill : List α) (hR : R.length = r)
    (hfill : fill.length = Tp - r) :
    selRow (ival Tp off r) (R ++ fill) = R.drop off
    ∧ (scatRow (ival Tp 0 (r - off)) (R ++ fill) (R.drop off)).1
        = R.drop off ++ (R ++ fill).drop (r - off) := by
  constructor
  · by_cases h : off ≤ r
    · rw [selRow_ival _ _ _ h hr, List.drop_append_of_le_length (by omega),
        List.take_left' (by simp [hR])]
    · rw [ival_empty _ _ _ (by omega), selRow_all_false, List.drop_eq_nil_of_le (by omega)]
  · rw [scatRow_ival_fst Tp 0 (r - off) (by omega) (by omega) _ _ (by simp [hR, hfill]; omega)
      (by simp [hR])]
    simp

/-- One row through the reflect special-case step and the final scatter of the slice. `off` is the
row's offset; when it is positive the slice lies wholly right of the sequence, so nothing was
written on the left (`a = 0`) and the slice is empty (`sl = 0`). -/
theorem reflect_row_final (value : α) (Tp a sl r off : Nat) (hTp : a + sl + r ≤ Tp)
    (hpos : 0 < off → a = 0 ∧ sl = 0) (L S R : List α)
    (hL : L.length = a) (hS : S.length = sl) (hR : R.length = r) :
    (selRow
        (andM (andNot (maskLt Tp (a + sl + r)) (maskLt Tp (a + sl)))
          ((List.range Tp).map (fun t => decide (a + sl + off ≤ t) && decide (0 < off))))
        (scatRow (andNot (maskLt Tp (a + sl + r)) (maskLt Tp (a + sl)))
          (scatRow (maskLt Tp a) (List.replicate Tp value) L).1 R).1).length
      = (andNot ((List.range Tp).map (fun t => decide (t < r - off) && decide (0 < off)))
          (maskLt Tp (a + sl))).count true
    ∧ (scatRow (andNot (maskLt Tp (a + sl)) (maskLt Tp a))
        (scatRow
          (andNot ((List.range Tp).map (fun t => decide (t < r - off) && decide (0 < off)))
            (maskLt Tp (a + sl)))
          (scatRow (andNot (maskLt Tp (a + sl + r)) (maskLt Tp (a + sl)))
            (scatRow (maskLt Tp a) (List.replicate Tp value) L).1 R).1
          (selRow
            (andM (andNot (maskLt Tp (a + sl + r)) (maskLt Tp (a + sl)))
              ((List.range Tp).map (fun t => decide (a + sl + off ≤ t) && decide (0 < off))))
            (scatRow (andNot (maskLt Tp (a + sl + r)) (maskLt Tp (a + sl)))
              (scatRow (maskLt Tp a) (List.replicate Tp value) L).1 R).1)).1 S).1
      = if off = 0 then L ++ (S ++ (R ++ List.replicate (Tp - (a + sl + r)) value))
        else R.drop off ++ (R ++ List.replicate (Tp - r) value).drop (r - off) := by
  by_cases h0 : off = 0
  · subst h0
    have hp : AllFalse (andM (andNot (maskLt Tp (a + sl + r)) (maskLt Tp (a + sl)))
        ((List.range Tp).map (fun t => decide (a + sl + 0 ≤ t) && decide (0 < 0)))) := by
      simp only [Nat.lt_irrefl, decide_false, Bool.and_false]
      exact andM_constFalse _ _
    have hn : AllFalse (andNot ((List.range Tp).map (fun t => decide (t < r - 0) && decide (0 < 0)))
        (maskLt Tp (a + sl))) := by
      simp only [Nat.lt_irrefl, decide_false, Bool.and_false]
      exact andNot_constFalse _ _
    refine ⟨?_, ?_⟩
    · rw [selRow_allFalse _ hp, count_allFalse _ hn]; rfl
    · rw [scatRow_allFalse _ hn, if_pos rfl]
      exact chunkRow_other value Tp a sl r hTp L S R hL hS hR
  · have hoff : 0 < off := by omega
    obtain ⟨ha, hsl⟩ := hpos hoff
    subst ha hsl
    have hL0 : L = [] := List.eq_nil_of_length_eq_zero hL
    have hS0 : S = [] := List.eq_nil_of_length_eq_zero hS
    subst hL0 hS0
    have hrow2 := chunkRow_two value Tp 0 0 r hTp [] R rfl hR
    simp only [Nat.zero_add, List.replicate_zero, List.nil_append] at hrow2 ⊢
    rw [hrow2, pick_pos Tp off r hoff, newRight_pos Tp off r hoff]
    obtain ⟨e1, e2⟩ := reflect_shift_row Tp off r (by omega) R (List.replicate (Tp - r) value) hR (by simp)
    rw [e1, e2, if_neg h0]
    refine ⟨?_, ?_⟩
    · rw [count_ival _ _ _ (by omega) (by omega)]
      simp [hR]
    · rw [andNot_maskLt, ival_empty _ _ _ (Nat.le_refl 0), scatRow_all_false]

theorem offset_pos_facts (c : ChunkRow α) (h : 0 < c.offset) : c.leftPad = 0 ∧ c.sliceLen = 0 := by
  unfold ChunkRow.offset ChunkRow.start' at h
  unfold ChunkRow.leftPad ChunkRow.sliceLen ChunkRow.stop' ChunkRow.start' ChunkRow.chunkLen
  constructor
  · split <;> omega
  · omega

/-- the whole row `chunk_by_slices` produces in reflect mode -/
def chunkRowOutReflect (value : α) (Tp : Nat) (c : ChunkRow α) : List α :=
  if c.offset = 0 then chunkRowOut .reflect value Tp c
  else (rightPart .reflect value c.rightPad (c.x.take c.len)).drop c.offset
    ++ (rightPart .reflect value c.rightPad (c.x.take c.len)
        ++ List.replicate (Tp - c.rightPad) value).drop (c.rightPad - c.offset)

theorem chunkBySlices_reflect_full (value : α) (T : Nat)
    (rows : List (ChunkRow α)) (hne : rows ≠ []) (h : ∀ c ∈ rows, c.Legal .reflect T) :
    chunkBySlices false .reflect value T rows
      = .ok (rows.map (chunkRowOutReflect value (chunkTp rows)), rows.map ChunkRow.chunkLen) := by
  have hemp : rows.isEmpty = false := by
    cases rows with
    | nil => exact absurd rfl hne
    | cons _ _ => rfl
  have hguard : ¬ (rows.isEmpty = true ∨ (T = 0 ∧ ((false = true) ∨ Mode.reflect ≠ .constant))) := by
    rw [hemp]
    intro hg
    rcases hg with hg | ⟨hT, _⟩
    · cases hg
    · cases rows with
      | nil => exact hne rfl
      | cons c _ =>
        obtain ⟨_, h2, h3⟩ := h c (by simp)
        simp [legalPad] at h3
        omega
  have hTp := chunk_total_le_Tp rows
  have hb := paddingBuffers_ok .reflect (by decide) value T (rows.map ChunkRow.buf) (by
    intro b hb
    obtain ⟨c, hc, rfl⟩ := List.mem_map.1 hb
    exact h c hc)
  simp only [List.map_map] at hb
  simp only [chunkBySlices, if_neg hguard, hb]
  simp only [show (Mode.reflect = Mode.constant) = False from by simp, if_false]
  rw [maskedScatter_aligned]
  · simp only
    rw [zipWith_andNot_map, maskedScatter_aligned]
    · simp only [ne_eq, not_true_eq_false, if_false]
      rw [zipWith_andM_map, maskedSelect_map, zipWith_andNot_map, maskedScatter_aligned]
      · simp only
        rw [zipWith_andNot_map, maskedSelect_map, maskedScatter_aligned]
        · simp only
          congr 2
          apply List.map_congr_left
          intro c hc
          obtain ⟨hx, hlen, _⟩ := h c hc
          simp only [Function.comp, ChunkRow.buf]
          rw [selRow_sliceMask T c hlen]
          exact (reflect_row_final value _ c.leftPad c.sliceLen c.rightPad c.offset (hTp c hc)
            (offset_pos_facts c) _ _ _ (by simp) (sliceLen_le c T hx hlen) (by simp)).2
        · intro c hc
          obtain ⟨hx, hlen, _⟩ := h c hc
          have := hTp c hc
          rw [andNot_maskLt, count_ival _ _ _ (by omega) (by unfold chunkTp at this; omega),
            selRow_sliceMask T c hlen, sliceLen_le c T hx hlen]
          simp [length_ival, scatRow_fst_length]
      · intro c hc
        obtain ⟨hx, hlen, _⟩ := h c hc
        refine ⟨by simp [andNot, maskLt, scatRow_fst_length], ?_⟩
        simp only [Function.comp, ChunkRow.buf]
        exact (reflect_row_final value _ c.leftPad c.sliceLen c.rightPad c.offset (hTp c hc)
          (offset_pos_facts c) _ ((c.x.drop c.start').take c.sliceLen) _ (by simp)
          (sliceLen_le c T hx hlen) (by simp)).1
    · intro c hc
      have := hTp c hc
      simp only [Function.comp, ChunkRow.buf, rightPart_length]
      rw [andNot_maskLt, count_ival _ _ _ (by omega) (by unfold chunkTp at this; omega)]
      simp [length_ival, scatRow_fst_length]
  · intro c hc
    have := hTp c hc
    simp only [Function.comp, ChunkRow.buf, leftPart_length]
    rw [maskLt_eq_ival, count_ival _ _ _ (by omega) (by unfold chunkTp at this; omega)]
    simp [length_ival]

theorem chunkRowOutReflect_valid (value : α) (T Tp : Nat) (c : ChunkRow α)
    (hx : c.x.length = T) (hlen : c.len ≤ T) :
    (chunkRowOutReflect value Tp c).take c.chunkLen
      = chunkSeq .reflect value (c.x.take c.len) c.start c.stop := by
  unfold chunkRowOutReflect
  by_cases h0 : c.offset = 0
  · rw [if_pos h0]
    exact chunkRowOut_valid_reflect value T Tp c hx hlen h0
  · rw [if_neg h0]
    have hxs : (c.x.take c.len).length = c.len := by simp; omega
    have hoff : c.offset = (c.start - (c.len : Int)).toNat := by
      unfold ChunkRow.offset ChunkRow.start'; omega
    have hst : (c.len : Int) < c.start := by
      unfold ChunkRow.offset ChunkRow.start' at h0; omega
    by_cases he : c.stop ≤ c.start
    · have : c.chunkLen = 0 := by unfold ChunkRow.chunkLen; omega
      simp [this, chunkSeq, he]
    · have hcl : c.chunkLen ≠ 0 := by unfold ChunkRow.chunkLen; omega
      have hrp : c.rightPad = (c.stop - (c.len : Int)).toNat := by
        simp only [ChunkRow.rightPad, hcl, if_false]
      have hRl := rightPart_length Mode.reflect value c.rightPad (c.x.take c.len)
      have hdl : ((rightPart Mode.reflect value c.rightPad (c.x.take c.len)).drop c.offset).length
          = c.chunkLen := by
        rw [List.length_drop, hRl]; unfold ChunkRow.chunkLen; omega
      rw [List.take_left' hdl]
      -- the spec side
      unfold chunkSeq
      rw [if_neg he]
      simp only []
      have hnl : needLeft c.start c.stop = 0 := by simp [needLeft, he]; omega
      have hnr : needRight (c.x.take c.len).length c.start c.stop = c.rightPad := by
        simp only [needRight, he, if_false, hxs, hrp]
      rw [hnl, hnr, padSeq_eq]
      have hL0 : leftPart Mode.reflect value 0 (c.x.take c.len) = [] :=
        List.eq_nil_of_length_eq_zero (leftPart_length _ _ _ _)
      rw [hL0, List.nil_append]
      unfold slice
      have e1 : (c.start + ((0 : Nat) : Int)).toNat = c.len + c.offset := by omega
      have e2 : (c.stop + ((0 : Nat) : Int)).toNat = c.len + c.rightPad := by omega
      have hfull : (c.x.take c.len ++ rightPart Mode.reflect value c.rightPad (c.x.take c.len)).take
          (c.len + c.rightPad)
          = c.x.take c.len ++ rightPart Mode.reflect value c.rightPad (c.x.take c.len) :=
        List.take_of_length_le (by rw [List.length_append, hxs, hRl]; exact Nat.le_refl _)
      rw [e1, e2, hfull, drop_append_len _ _ _ _ hxs]


end PdtVerif.PadChunk
