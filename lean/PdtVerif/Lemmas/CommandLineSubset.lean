import PdtVerif.Lemmas.CommandLine
import PdtVerif.Lemmas.CommandLineAudit
import Mathlib.Data.List.Nodup
/-!
# Helper lemmas for C17: the subset command on a whole source tree

`filesOf`, `featIds`, `subsetAvail`, `subsetSel`, `subsetCmd` (Model/CommandLine.lean §5b): what is
listed, that every criterion only ever selects utterances of `feat/`, when the selection is
duplicate-free, and that the copy loop never creates a file it was not asked for.
-/
set_option linter.unusedSectionVars false
namespace PdtVerif.CommandLine

section Select
variable {υ : Type} [DecidableEq υ]

/-- Whatever the criterion, only available utterances are selected. -/
theorem subsetSelect_subset (le : υ → υ → Bool) (avail : List (Nat × υ)) (c : Crit υ) :
    ∀ u ∈ subsetSelect le avail c, u ∈ avail.map (·.2) := by
  intro u hu
  have hsort : ∀ (r : υ → υ → Bool) (n : Nat), u ∈ ((avail.map (·.2)).mergeSort r).take n →
      u ∈ avail.map (·.2) := fun r n h =>
    (List.mergeSort_perm _ r).mem_iff.1 (List.mem_of_mem_take h)
  have hsort2 : ∀ (r : Nat × υ → Nat × υ → Bool) (n : Nat), u ∈ ((avail.mergeSort r).map (·.2)).take n →
      u ∈ avail.map (·.2) := by
    intro r n h
    obtain ⟨e, he, rfl⟩ := List.mem_map.1 (List.mem_of_mem_take h)
    exact List.mem_map.2 ⟨e, (List.mergeSort_perm _ r).mem_iff.1 he, rfl⟩
  cases c with
  | uttList l =>
    simp only [subsetSelect, List.mem_filter, List.contains_iff_mem] at hu
    exact hu.2
  | firstN n => exact hsort _ _ (by simpa [subsetSelect, subsetOrder] using hu)
  | firstR q => exact hsort _ _ (by simpa [subsetSelect, subsetOrder] using hu)
  | lastN n => exact hsort _ _ (by simpa [subsetSelect, subsetOrder] using hu)
  | lastR q => exact hsort _ _ (by simpa [subsetSelect, subsetOrder] using hu)
  | shortestN n => exact hsort2 _ _ (by simpa [subsetSelect, subsetOrder] using hu)
  | shortestR q => exact hsort2 _ _ (by simpa [subsetSelect, subsetOrder] using hu)
  | longestN n => exact hsort2 _ _ (by simpa [subsetSelect, subsetOrder] using hu)
  | longestR q => exact hsort2 _ _ (by simpa [subsetSelect, subsetOrder] using hu)

/-- `--utt-list`: the selected ids are the requested ones that are available. -/
theorem mem_subsetSelect_list (le : υ → υ → Bool) (avail : List (Nat × υ)) (l : List υ) (u : υ) :
    u ∈ subsetSelect le avail (.uttList l) ↔ (u ∈ l ∧ u ∈ avail.map (·.2)) := by
  simp only [subsetSelect, List.mem_filter, List.contains_iff_mem]

/-- Distinct available ids (file names of a directory are distinct) give a duplicate-free
selection for every criterion; for `--utt-list` when the user's list has no duplicate. -/
theorem subsetSelect_nodup (le : υ → υ → Bool) (avail : List (Nat × υ)) (c : Crit υ)
    (h : (avail.map (·.2)).Nodup) (hc : ∀ l, c = .uttList l → l.Nodup) :
    (subsetSelect le avail c).Nodup := by
  have hsort : ∀ (r : υ → υ → Bool) (n : Nat), (((avail.map (·.2)).mergeSort r).take n).Nodup :=
    fun r n => ((List.mergeSort_perm _ r).nodup_iff.2 h).sublist (List.take_sublist _ _)
  have hsort2 : ∀ (r : Nat × υ → Nat × υ → Bool) (n : Nat),
      (((avail.mergeSort r).map (·.2)).take n).Nodup := fun r n =>
    ((((List.mergeSort_perm avail r).map (·.2)).nodup_iff).2 h).sublist (List.take_sublist _ _)
  cases c with
  | uttList l => exact (hc l rfl).filter _
  | firstN n => simpa [subsetSelect, subsetOrder] using hsort (fun a b => le a b) _
  | firstR q => simpa [subsetSelect, subsetOrder] using hsort (fun a b => le a b) _
  | lastN n => simpa [subsetSelect, subsetOrder] using hsort (fun a b => le b a) _
  | lastR q => simpa [subsetSelect, subsetOrder] using hsort (fun a b => le b a) _
  | shortestN n => simpa [subsetSelect, subsetOrder] using hsort2 (leShort le) _
  | shortestR q => simpa [subsetSelect, subsetOrder] using hsort2 (leShort le) _
  | longestN n => simpa [subsetSelect, subsetOrder] using hsort2 (leLong le) _
  | longestR q => simpa [subsetSelect, subsetOrder] using hsort2 (leLong le) _

end Select

section Copy
variable {κ : Type} [DecidableEq κ]

/-- In every copy mode: whatever `dest` holds after a successful run was there before or was a
target of the loop. -/
theorem copyRun_ok_subset (lm : Bool) (d0 l d : List κ) (h : copyRun lm d0 l = .ok d) :
    ∀ k ∈ d, k ∈ d0 ∨ k ∈ l := by
  induction l generalizing d0 with
  | nil =>
    simp only [copyRun, Except.ok.injEq] at h
    subst h
    exact fun k hk => Or.inl hk
  | cons x xs ih =>
    by_cases hx : x ∈ d0
    · cases lm with
      | true => simp [copyRun, hx] at h
      | false =>
        have h' : copyRun false d0 xs = .ok d := by simpa [copyRun, hx] using h
        intro k hk
        rcases ih d0 h' k hk with h1 | h1
        · exact Or.inl h1
        · exact Or.inr (List.mem_cons_of_mem _ h1)
    · have h' : copyRun lm (d0 ++ [x]) xs = .ok d := by simpa [copyRun, hx] using h
      intro k hk
      rcases ih (d0 ++ [x]) h' k hk with h1 | h1
      · rcases List.mem_append.1 h1 with h2 | h2
        · exact Or.inl h2
        · exact Or.inr (by simp only [List.mem_singleton] at h2; subst h2; exact List.mem_cons_self ..)
      · exact Or.inr (List.mem_cons_of_mem _ h1)

end Copy

section SubsetDir
variable {σ α : Type} [DecidableEq σ] [DecidableEq α]

theorem mem_filesOf (sub : σ) (tree : List (σ × List α)) (f : List α) :
    f ∈ filesOf sub tree ↔ (sub, f) ∈ tree := by
  simp only [filesOf, List.mem_map, List.mem_filter, beq_iff_eq]
  constructor
  · rintro ⟨⟨a, b⟩, ⟨h, rfl⟩, rfl⟩
    exact h
  · intro h
    exact ⟨(sub, f), ⟨h, rfl⟩, rfl⟩

/-- The utterances of the data set: ids of the selected names of `feat/`. -/
theorem mem_featIds (p s : List α) (featSub : σ) (tree : List (σ × List α)) (u : List α) :
    u ∈ featIds p s featSub tree ↔
      ∃ f, (featSub, f) ∈ tree ∧ selects p s f = true ∧ uttOf p s f = u := by
  simp only [featIds, listedUtts, List.mem_map, List.mem_filter, mem_filesOf]
  constructor
  · rintro ⟨f, ⟨h1, h2⟩, rfl⟩
    exact ⟨f, h1, h2, rfl⟩
  · rintro ⟨f, h1, h2, rfl⟩
    exact ⟨f, ⟨h1, h2⟩, rfl⟩

theorem subsetAvail_ids (p s : List α) (featSub : σ) (len : List α → Nat)
    (tree : List (σ × List α)) :
    (subsetAvail p s featSub len tree).map (·.2) = featIds p s featSub tree := by
  simp [subsetAvail, List.map_map, Function.comp_def]

/-- Every criterion selects utterances of `feat/` only. -/
theorem subsetSel_subset (le : List α → List α → Bool) (p s : List α) (featSub : σ)
    (len : List α → Nat) (tree : List (σ × List α)) (c : Crit (List α)) :
    ∀ u ∈ subsetSel le p s featSub len tree c, u ∈ featIds p s featSub tree := by
  intro u hu
  have := subsetSelect_subset le (subsetAvail p s featSub len tree) c u hu
  rwa [subsetAvail_ids] at this

/-- A directory (distinct entries) whose selected `feat/` names are long enough lists distinct
utterance ids. -/
theorem featIds_nodup (p s : List α) (featSub : σ) (tree : List (σ × List α)) (ht : tree.Nodup)
    (hl : ∀ f, (featSub, f) ∈ tree → selects p s f = true → p.length + s.length ≤ f.length) :
    (featIds p s featSub tree).Nodup := by
  have hfiles : (filesOf featSub tree).Nodup := by
    unfold filesOf
    refine List.Nodup.map_on ?_ (ht.filter _)
    intro a ha b hb hab
    simp only [List.mem_filter, beq_iff_eq] at ha hb
    exact Prod.ext (ha.2.trans hb.2.symm) hab
  unfold featIds listedUtts
  refine List.Nodup.map_on ?_ (hfiles.filter _)
  intro a ha b hb hab
  simp only [List.mem_filter, mem_filesOf] at ha hb
  rw [← fileName_uttOf p s a ha.2 (hl a ha.1 ha.2), ← fileName_uttOf p s b hb.2 (hl b hb.1 hb.2), hab]

theorem mem_dataSetSubs (p s : List α) (otherSubs : List σ) (tree : List (σ × List α)) (sub : σ) :
    sub ∈ dataSetSubs p s otherSubs tree ↔
      (sub ∈ otherSubs ∧ ∃ f, (sub, f) ∈ tree ∧ selects p s f = true) := by
  simp only [dataSetSubs, List.mem_filter, List.any_eq_true, mem_filesOf]

theorem mem_dataSetIds (p s : List α) (featSub : σ) (otherSubs : List σ)
    (tree : List (σ × List α)) (u : List α) :
    u ∈ dataSetIds p s featSub otherSubs tree ↔
      (u ∈ featIds p s featSub tree ∧
        ∀ sub ∈ otherSubs, (∃ f, (sub, f) ∈ tree ∧ selects p s f = true) → u ∈ featIds p s sub tree) := by
  simp only [dataSetIds, List.mem_filter, List.all_eq_true, List.contains_iff_mem, mem_dataSetSubs]
  constructor
  · rintro ⟨h1, h2⟩
    exact ⟨h1, fun sub hsub hex => h2 sub ⟨hsub, hex⟩⟩
  · rintro ⟨h1, h2⟩
    exact ⟨h1, fun sub hsub => h2 sub hsub.1 hsub.2⟩

end SubsetDir

end PdtVerif.CommandLine
