import PdtVerif.Lemmas.PadChunkTensor
import Mathlib.Tactic.Linarith
import Mathlib.Tactic.FieldSimp
import Mathlib.Tactic.Positivity
import Mathlib.Algebra.Order.Field.Rat
import Mathlib.Data.Rat.Floor
/-!
# Lemmas for C09, part 3 (single Mathlib modules): a LOSSY arithmetic that satisfies `Rounding`

`C09_shift_amount_rounded` is stated under the hypothesis `Rounding B rnd`. Exact arithmetic satisfies it
trivially (`rounding_id`). To show that the hypothesis is not satisfiable by exact arithmetic ONLY, this
file proves it of fixed-point round-to-nearest (halves up) with `k` fractional bits, `roundFix k`: an
arithmetic that really loses information. (It is NOT binary floating point: `Rounding (2^p) (roundBits p)`
for the executable float32 / float64 models is proved in `Lemmas/PadChunkFloat.lean`, `rounding_roundBits`.)
-/

namespace PdtVerif.PadChunk

/-- round to nearest (halves up) with `k` fractional bits: a genuinely lossy arithmetic -/
def roundFix (k : Nat) (q : Rat) : Rat := ((q * 2 ^ k + 1 / 2).floor : Rat) / 2 ^ k

theorem roundFix_mono (k : Nat) (a b : Rat) (h : a ≤ b) : roundFix k a ≤ roundFix k b := by
  unfold roundFix
  have hS : (0 : Rat) < 2 ^ k := by positivity
  have : (a * 2 ^ k + 1 / 2).floor ≤ (b * 2 ^ k + 1 / 2).floor := by
    apply Rat.floor_monotone
    nlinarith
  have h2 : ((a * 2 ^ k + 1 / 2).floor : Rat) ≤ ((b * 2 ^ k + 1 / 2).floor : Rat) := by exact_mod_cast this
  exact div_le_div_of_nonneg_right h2 hS.le

theorem floor_int_add_half (n : Int) : ((n : Rat) + 1 / 2).floor = n := by
  apply Int.le_antisymm
  · have : ((n : Rat) + 1 / 2).floor < n + 1 := Rat.floor_lt_iff.2 (by push_cast; linarith)
    omega
  · exact Rat.le_floor_iff.2 (by linarith)

theorem roundFix_int_div (k : Nat) (m : Int) : roundFix k ((m : Rat) / 2 ^ k) = (m : Rat) / 2 ^ k := by
  unfold roundFix
  have hS : (2 : Rat) ^ k ≠ 0 := by positivity
  rw [div_mul_cancel₀ _ hS, floor_int_add_half]

theorem roundFix_natCast (k n : Nat) : roundFix k (n : Rat) = (n : Rat) := by
  have hS : (2 : Rat) ^ k ≠ 0 := by positivity
  have : (n : Rat) = (((n * 2 ^ k : Nat) : Int) : Rat) / 2 ^ k := by
    push_cast
    field_simp
  rw [this, roundFix_int_div]

theorem roundFix_idem (k : Nat) (z : Rat) : roundFix k (roundFix k z) = roundFix k z := by
  conv_lhs => rw [roundFix]
  rw [show roundFix k z = (((z * 2 ^ k + 1 / 2).floor : Int) : Rat) / 2 ^ k from rfl]
  exact roundFix_int_div k _

theorem roundFix_mul_lt (k : Nat) (z u : Rat) (ha : 1 ≤ roundFix k z) (hu0 : 0 ≤ u) (hu1 : u < 1)
    (hu : roundFix k u = u) : roundFix k (roundFix k z * u) < roundFix k z := by
  have hS : (0 : Rat) < 2 ^ k := by positivity
  -- a = m / S, u = j / S with j ≤ S - 1
  generalize hm : (z * 2 ^ k + 1 / 2).floor = m
  have ha' : roundFix k z = (m : Rat) / 2 ^ k := by rw [roundFix, hm]
  generalize hj : (u * 2 ^ k + 1 / 2).floor = j
  have hu' : u = (j : Rat) / 2 ^ k := by rw [← hu, roundFix, hj]
  rw [ha'] at ha ⊢
  have hjS : (j : Rat) < 2 ^ k := by
    rw [hu'] at hu1
    rwa [div_lt_one hS] at hu1
  have hjS' : (j : Rat) + 1 ≤ 2 ^ k := by
    have h2 : ((2 : Rat) ^ k) = (((2 ^ k : Nat) : Int) : Rat) := by push_cast; rfl
    rw [h2] at hjS ⊢
    have : j < ((2 ^ k : Nat) : Int) := by exact_mod_cast hjS
    have : j + 1 ≤ ((2 ^ k : Nat) : Int) := by omega
    exact_mod_cast this
  have hmS : (2 : Rat) ^ k ≤ m := by
    rwa [le_div_iff₀ hS, one_mul] at ha
  have hj0 : (0 : Rat) ≤ j := by
    rw [hu'] at hu0
    have := mul_nonneg hu0 hS.le
    rwa [div_mul_cancel₀ _ hS.ne'] at this
  -- the scaled product stays half a unit below m
  have hprod : (m : Rat) / 2 ^ k * u * 2 ^ k + 1 / 2 < ((m : Int) : Rat) := by
    rw [hu']
    have e : (m : Rat) / 2 ^ k * ((j : Rat) / 2 ^ k) * 2 ^ k = (m : Rat) * j / 2 ^ k := by
      field_simp
    rw [e]
    have h3 : (m : Rat) * j / 2 ^ k ≤ (m : Rat) - 1 := by
      rw [div_le_iff₀ hS]
      nlinarith
    linarith
  have hfl : ((m : Rat) / 2 ^ k * u * 2 ^ k + 1 / 2).floor < m := Rat.floor_lt_iff.2 hprod
  unfold roundFix
  have : (((m : Rat) / 2 ^ k * u * 2 ^ k + 1 / 2).floor : Rat) < (m : Rat) := by exact_mod_cast hfl
  exact div_lt_div_of_pos_right this hS

theorem rounding_roundFix (k B : Nat) : Rounding B (roundFix k) where
  mono := roundFix_mono k
  nat_exact := fun n _ => roundFix_natCast k n
  idem := roundFix_idem k
  mul_lt := roundFix_mul_lt k

end PdtVerif.PadChunk
