import PdtVerif.Model.NgramTrie
/-!
# Lemmas for C06, part 7: the per-level sort of `_build_trie`

`SortedList` + `insort_left` on `(key[::-1], value)`: `sortLevel d` is a permutation of the
level with every key reversed, sorted by Python's tuple order (`lexLe`). With pairwise distinct
keys the order is strict, so that the position of a key in the sorted level is monotone in the
key – which is what makes the parents' indices of the next level non-decreasing
(piece (a) of `C06_flat`).
-/
namespace PdtVerif.NgramTrie

/-! ## the order -/

theorem lexLe_refl : ∀ a : List Int, lexLe a a = true
  | [] => rfl
  | x :: xs => by
    unfold lexLe
    rw [if_neg (Int.lt_irrefl x), if_neg (Int.lt_irrefl x)]
    exact lexLe_refl xs

theorem lexLe_nil (b : List Int) : lexLe [] b = true := by
  cases b <;> rfl

theorem lexLe_total : ∀ a b : List Int, lexLe a b = true ∨ lexLe b a = true
  | [], b => Or.inl (lexLe_nil b)
  | _ :: _, [] => Or.inr rfl
  | x :: xs, y :: ys => by
    by_cases h1 : x < y
    · left; unfold lexLe; rw [if_pos h1]
    · by_cases h2 : y < x
      · right; unfold lexLe; rw [if_pos h2]
      · have e : x = y := by omega
        subst e
        rcases lexLe_total xs ys with h | h
        · left; unfold lexLe; rw [if_neg h1, if_neg h1]; exact h
        · right; unfold lexLe; rw [if_neg h1, if_neg h1]; exact h

theorem lexLe_antisymm : ∀ a b : List Int, lexLe a b = true → lexLe b a = true → a = b
  | [], [], _, _ => rfl
  | [], _ :: _, _, h => by simp [lexLe] at h
  | _ :: _, [], h, _ => by simp [lexLe] at h
  | x :: xs, y :: ys, h1, h2 => by
    unfold lexLe at h1 h2
    by_cases hxy : x < y
    · rw [if_neg (by omega), if_pos hxy] at h2; cases h2
    · by_cases hyx : y < x
      · rw [if_neg hxy, if_pos hyx] at h1; cases h1
      · have e : x = y := by omega
        subst e
        rw [if_neg hxy, if_neg hxy] at h1 h2
        rw [lexLe_antisymm xs ys h1 h2]

theorem lexLe_trans : ∀ a b c : List Int, lexLe a b = true → lexLe b c = true → lexLe a c = true
  | [], _, c, _, _ => lexLe_nil c
  | _ :: _, [], _, h, _ => by simp [lexLe] at h
  | _ :: _, _ :: _, [], _, h => by simp [lexLe] at h
  | x :: xs, y :: ys, z :: zs, h1, h2 => by
    unfold lexLe at h1 h2 ⊢
    by_cases hxy : x < y
    · by_cases hyz : y < z
      · rw [if_pos (by omega)]
      · by_cases hzy : z < y
        · rw [if_neg hyz, if_pos hzy] at h2; cases h2
        · rw [if_pos (by omega)]
    · by_cases hyx : y < x
      · rw [if_neg hxy, if_pos hyx] at h1; cases h1
      · have e : x = y := by omega
        subst e
        rw [if_neg hxy, if_neg hxy] at h1
        by_cases hxz : x < z
        · rw [if_pos hxz]
        · by_cases hzx : z < x
          · rw [if_neg hxz, if_pos hzx] at h2; cases h2
          · rw [if_neg hxz, if_neg hzx] at h2 ⊢
            exact lexLe_trans xs ys zs h1 h2

/-- On keys of the same length the order of the keys is inherited by their prefixes. -/
theorem lexLe_dropLast : ∀ a b : List Int, a.length = b.length → lexLe a b = true →
    lexLe a.dropLast b.dropLast = true
  | [], _, _, _ => by simp [lexLe_nil]
  | _ :: _, [], h, _ => by simp at h
  | x :: xs, y :: ys, hl, h => by
    have hl' : xs.length = ys.length := by simpa using hl
    cases xs with
    | nil =>
      have : ys = [] := List.eq_nil_of_length_eq_zero (by simpa using hl'.symm)
      subst this
      simp [lexLe]
    | cons x' xs' =>
      cases ys with
      | nil => simp at hl'
      | cons y' ys' =>
        simp only [List.dropLast_cons_cons]
        unfold lexLe at h ⊢
        by_cases hxy : x < y
        · rw [if_pos hxy]
        · by_cases hyx : y < x
          · rw [if_neg hxy, if_pos hyx] at h; cases h
          · rw [if_neg hxy, if_neg hyx] at h ⊢
            exact lexLe_dropLast (x' :: xs') (y' :: ys') hl' h

/-! ## `insort_left` -/

/-- Sorted by key (non-strictly). -/
def SortedK (l : List Item) : Prop := l.Pairwise (fun a b => lexLe a.key b.key = true)

theorem insortLeft_perm (x : Item) : ∀ l : List Item, (insortLeft x l).Perm (x :: l)
  | [] => List.Perm.refl _
  | y :: ys => by
    unfold insortLeft
    split
    · exact List.Perm.refl _
    · exact ((insortLeft_perm x ys).cons y).trans (List.Perm.swap x y ys)

theorem mem_insortLeft (x z : Item) (l : List Item) : z ∈ insortLeft x l ↔ z = x ∨ z ∈ l := by
  rw [(insortLeft_perm x l).mem_iff]; simp

theorem insortLeft_sorted (x : Item) : ∀ l : List Item, SortedK l → SortedK (insortLeft x l)
  | [], _ => by simp [insortLeft, SortedK]
  | y :: ys, h => by
    unfold SortedK at h ⊢
    rw [List.pairwise_cons] at h
    unfold insortLeft
    split
    · rename_i hxy
      rw [List.pairwise_cons, List.pairwise_cons]
      refine ⟨?_, h⟩
      intro z hz
      rcases List.mem_cons.mp hz with rfl | hz
      · exact hxy
      · exact lexLe_trans _ _ _ hxy (h.1 z hz)
    · rename_i hxy
      rw [List.pairwise_cons]
      refine ⟨?_, insortLeft_sorted x ys h.2⟩
      intro z hz
      rcases (mem_insortLeft x z ys).mp hz with rfl | hz
      · rcases lexLe_total z.key y.key with h' | h'
        · exact absurd h' hxy
        · exact h'
      · exact h.1 z hz

theorem foldl_insort_spec : ∀ (l acc : List Item), SortedK acc →
    SortedK (l.foldl (fun acc e => insortLeft e acc) acc) ∧
    (l.foldl (fun acc e => insortLeft e acc) acc).Perm (l ++ acc)
  | [], acc, h => ⟨h, List.Perm.refl _⟩
  | x :: xs, acc, h => by
    rw [List.foldl_cons]
    obtain ⟨h1, h2⟩ := foldl_insort_spec xs (insortLeft x acc) (insortLeft_sorted x acc h)
    refine ⟨h1, h2.trans ?_⟩
    have : (xs ++ insortLeft x acc).Perm (xs ++ x :: acc) :=
      List.Perm.append_left xs (insortLeft_perm x acc)
    exact this.trans (List.perm_middle)

/-- The level with every key reversed (what is handed to `insort_left`). -/
def revKeys (d : List Item) : List Item := d.map (fun e => ({ e with key := e.key.reverse } : Item))

theorem sortLevel_sorted (d : List Item) : SortedK (sortLevel d) :=
  (foldl_insort_spec (revKeys d) [] List.Pairwise.nil).1

theorem sortLevel_perm (d : List Item) : (sortLevel d).Perm (revKeys d) := by
  have := (foldl_insort_spec (revKeys d) [] List.Pairwise.nil).2
  rw [List.append_nil] at this
  exact this

theorem mem_sortLevel (d : List Item) (e : Item) :
    e ∈ sortLevel d ↔ ∃ e' ∈ d, e = { e' with key := e'.key.reverse } := by
  rw [(sortLevel_perm d).mem_iff]
  simp only [revKeys, List.mem_map]
  constructor
  · rintro ⟨a, ha, rfl⟩; exact ⟨a, ha, rfl⟩
  · rintro ⟨a, ha, rfl⟩; exact ⟨a, ha, rfl⟩

/-- Distinct keys stay distinct (reversal is injective, sorting permutes). -/
theorem sortLevel_keys_nodup (d : List Item) (h : (d.map (·.key)).Nodup) :
    ((sortLevel d).map (·.key)).Nodup := by
  have hp : ((sortLevel d).map (·.key)).Perm ((revKeys d).map (·.key)) := (sortLevel_perm d).map _
  rw [hp.nodup_iff]
  have : (revKeys d).map (·.key) = (d.map (·.key)).map List.reverse := by
    simp [revKeys, List.map_map, Function.comp_def]
  rw [this]
  exact List.Pairwise.map _ (fun a b hab e => hab (List.reverse_inj.mp e)) h

/-! ## positions in a strictly sorted list of keys -/

/-- In a list of pairwise distinct keys sorted by `lexLe`, positions are monotone in the key. -/
theorem idx_mono (K : List (List Int)) (hs : K.Pairwise (fun a b => lexLe a b = true))
    (hnd : K.Nodup) (i j : Nat) (hi : i < K.length) (hj : j < K.length)
    (hle : lexLe K[i] K[j] = true) : i ≤ j := by
  by_cases h : i ≤ j
  · exact h
  · exfalso
    have hji : j < i := by omega
    have h1 : lexLe K[j] K[i] = true := (List.pairwise_iff_getElem.mp hs) j i hj hi hji
    have e := lexLe_antisymm _ _ hle h1
    have := (List.getElem_inj hnd).mp e
    omega

end PdtVerif.NgramTrie
