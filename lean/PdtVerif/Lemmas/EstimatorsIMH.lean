import PdtVerif.Lemmas.Estimators
/-!
# C19 — the Metropolis–Hastings chain as a list of values

`imhLoop` (the running sum of the code) against `imhChain` / `imhRecorded` (the chain states and the
recorded values `f b_t` as lists): the loop is the plain accumulation over the chain, whatever is
accepted; more steps only append to the record.
-/
namespace PdtVerif.Estimators

section IMH
variable {α σ : Type} [Field α] [LinearOrder α]

theorem imhLoop_eq_plain (ratio : σ → α) (f : σ → α) (burnIn : Nat) :
    ∀ (steps : List (σ × Option α)) (n : Nat) (last : σ) (lastR : α) (v : Option α),
      imhLoop ratio f burnIn n last lastR v steps
        = plainLoop f burnIn n v (imhChain ratio last lastR steps) := by
  intro steps
  induction steps with
  | nil => intro n last lastR v; rfl
  | cons s rest ih =>
    intro n last lastR v
    obtain ⟨c, lu⟩ := s
    simp only [imhLoop, imhChain, imhStep, plainLoop]
    exact ih _ _ _ _

theorem imhChain_length (ratio : σ → α) :
    ∀ (steps : List (σ × Option α)) (last : σ) (lastR : α),
      (imhChain ratio last lastR steps).length = steps.length := by
  intro steps
  induction steps with
  | nil => intro _ _; rfl
  | cons s rest ih => intro last lastR; obtain ⟨c, lu⟩ := s; simp [imhChain, ih]

theorem imhChain_append (ratio : σ → α) :
    ∀ (s t : List (σ × Option α)) (last : σ) (lastR : α),
      imhChain ratio last lastR (s ++ t)
        = imhChain ratio last lastR s
          ++ imhChain ratio (imhAfter ratio last lastR s).1 (imhAfter ratio last lastR s).2 t := by
  intro s
  induction s with
  | nil => intro t last lastR; rfl
  | cons x xs ih =>
    intro t last lastR
    obtain ⟨c, lu⟩ := x
    simp only [List.cons_append, imhChain, imhAfter, ih]

/-- what was recorded in the first steps is a prefix of what is recorded after more steps -/
theorem imhRecorded_prefix (ratio : σ → α) (f : σ → α) (burnIn : Nat) (b0 : σ)
    (s t : List (σ × Option α)) (h : burnIn ≤ s.length) :
    imhRecorded ratio f burnIn b0 s <+: imhRecorded ratio f burnIn b0 (s ++ t) := by
  unfold imhRecorded
  rw [imhChain_append, List.drop_append_of_le_length (by rw [imhChain_length]; exact h), List.map_append]
  exact List.prefix_append _ _

theorem imhChain_accept_all (ratio : σ → α) (hr : ∀ b, ratio b = 0) :
    ∀ (steps : List (σ × Option α)) (last : σ), (∀ s ∈ steps, NegLog s.2) →
      imhChain ratio last 0 steps = steps.map Prod.fst := by
  intro steps
  induction steps with
  | nil => intro _ _; rfl
  | cons s rest ih =>
    intro last h
    obtain ⟨c, lu⟩ := s
    have hlu : NegLog lu := h (c, lu) (by simp)
    have hrest : ∀ s ∈ rest, NegLog s.2 := fun s hs => h s (by simp [hs])
    cases lu with
    | none => simp only [imhChain, imhStep, if_true, hr c, List.map_cons]; rw [ih c hrest]
    | some l =>
      have hl : l < 0 := hlu l rfl
      simp only [imhChain, imhStep, hr c, sub_self, hl, decide_true, if_true, List.map_cons]
      rw [ih c hrest]

/-- the chain part of `imhEstimate`, for ANY densities / draws / uniforms -/
theorem imh_chain_values (ratio : σ → α) (f : σ → α) (N burnIn : Nat) (b0 : σ)
    (rest : List σ) (lus : List (Option α)) (hb : burnIn < N)
    (hd : N ≤ rest.length) (hl : N ≤ lus.length) :
    imhLoop ratio f burnIn 0 b0 (ratio b0) none ((rest.take N).zip (lus.take N))
      = some ((imhRecorded ratio f burnIn b0 ((rest.take N).zip (lus.take N))).sum) := by
  rw [imhLoop_eq_plain,
    plainLoop_before f burnIn _ 0 none (Nat.zero_le _)
      (by rw [imhChain_length]; simp [List.length_take]; omega)]
  simp [imhRecorded]

theorem imh_values_supplied (ratio : σ → α) (f : σ → α) (inSupport : σ → Bool) (N burnIn tries : Nat)
    (b0 : σ) (draws : List σ) (lus : List (Option α))
    (hb : burnIn < N) (hd : N ≤ draws.length) (hl : N ≤ lus.length) :
    imhEstimate ratio f inSupport N burnIn tries (some b0) draws lus
      = some ((imhRecorded ratio f burnIn b0 ((draws.take N).zip (lus.take N))).sum
          / ((N - burnIn : Nat) : α)) := by
  simp only [imhEstimate]
  rw [if_neg (by omega), imh_chain_values ratio f N burnIn b0 draws lus hb hd hl]

theorem imh_values_drawn (ratio : σ → α) (f : σ → α) (inSupport : σ → Bool) (N burnIn tries : Nat)
    (b0 : σ) (draws rest : List σ) (lus : List (Option α))
    (hf : findInitial inSupport tries draws = some (b0, rest))
    (hb : burnIn < N) (hd : N ≤ rest.length) (hl : N ≤ lus.length) :
    imhEstimate ratio f inSupport N burnIn tries none draws lus
      = some ((imhRecorded ratio f burnIn b0 ((rest.take N).zip (lus.take N))).sum
          / ((N - burnIn : Nat) : α)) := by
  simp only [imhEstimate]
  rw [hf]
  simp only []
  rw [if_neg (by omega), imh_chain_values ratio f N burnIn b0 rest lus hb hd hl]

theorem imh_values (ratio : σ → α) (f : σ → α) (inSupport : σ → Bool) (N burnIn tries : Nat)
    (init : Option σ) (draws : List σ) (lus : List (Option α)) (hb : burnIn < N) :
    imhEstimate ratio f inSupport N burnIn tries init draws lus
      = (imhValues ratio f inSupport N burnIn tries init draws lus).map
          (fun vs => vs.sum / ((N - burnIn : Nat) : α)) := by
  have key : ∀ (b0 : σ) (rest : List σ),
      (if rest.length < N ∨ lus.length < N then none else
        match imhLoop ratio f burnIn 0 b0 (ratio b0) none ((rest.take N).zip (lus.take N)) with
        | none => none
        | some v => some (v / ((N - burnIn : Nat) : α)))
      = (if rest.length < N ∨ lus.length < N then none else
          some (imhRecorded ratio f burnIn b0 ((rest.take N).zip (lus.take N)))).map
          (fun vs => vs.sum / ((N - burnIn : Nat) : α)) := by
    intro b0 rest
    by_cases h : rest.length < N ∨ lus.length < N
    · simp [h]
    · rw [if_neg h, if_neg h, imh_chain_values ratio f N burnIn b0 rest lus hb (by omega) (by omega)]
      rfl
  cases init with
  | some b => simp only [imhEstimate, imhValues]; exact key b draws
  | none =>
    simp only [imhEstimate, imhValues]
    cases findInitial inSupport tries draws with
    | none => rfl
    | some p => obtain ⟨b0, rest⟩ := p; exact key b0 rest

omit [LinearOrder α] [Field α] in
theorem imhStep_fst [Sub α] [LT α] [DecidableLT α] (ratio : σ → α) (last : σ) (lastR : α) (cur : σ) (lu : Option α) :
    (imhStep ratio last lastR cur lu).1 = cur ∨ (imhStep ratio last lastR cur lu).1 = last := by
  cases lu with
  | none => left; rfl
  | some l =>
    by_cases h : l < ratio cur - lastR
    · left; simp [imhStep, h]
    · right; simp [imhStep, h]

/-! ### a density that vanishes on part of the proposal's support (`imhStepS`) -/

/-- where the density is positive on the whole support of the proposal both variants are the chain of the
earlier theorems -/
theorem imhChainS_total (poison : Bool) (ratio : σ → Option α) (r : σ → α) (h : ∀ b, ratio b = some (r b)) :
    ∀ (steps : List (σ × Option α)) (last : σ) (lastR : α),
      imhChainS poison ratio last (.fin lastR) steps = imhChain r last lastR steps := by
  intro steps
  induction steps with
  | nil => intro _ _; rfl
  | cons s rest ih =>
    intro last lastR
    obtain ⟨c, lu⟩ := s
    simp only [imhChainS, imhStepS, h c, imhChain, imhStep]
    rw [ih]

/-- repaired variant, one step: the carried log-ratio is the log-ratio of the new state, which is the proposal
or the previous state -/
theorem imhStepS_fixed (ratio : σ → Option α) (last : σ) (r : α) (h : ratio last = some r) (cur : σ)
    (lu : Option α) :
    ∃ r', (imhStepS false ratio last (.fin r) cur lu).2 = .fin r' ∧
      ratio (imhStepS false ratio last (.fin r) cur lu).1 = some r' ∧
      ((imhStepS false ratio last (.fin r) cur lu).1 = cur ∨
        (imhStepS false ratio last (.fin r) cur lu).1 = last) := by
  unfold imhStepS
  cases hc : ratio cur with
  | none => exact ⟨r, rfl, h, Or.inr rfl⟩
  | some cr =>
    cases lu with
    | none => exact ⟨cr, rfl, hc, Or.inl rfl⟩
    | some l =>
      by_cases hl : l < cr - r
      · simp only [hl, decide_true, if_true]
        exact ⟨cr, rfl, hc, Or.inl trivial⟩
      · simp only [hl, decide_false, Bool.false_eq_true, if_false]
        exact ⟨r, rfl, h, Or.inr trivial⟩

/-- repaired variant: after any steps the carried log-ratio is the log-ratio of the state the chain is in -/
theorem imhAfterS_fixed_inv (ratio : σ → Option α) :
    ∀ (steps : List (σ × Option α)) (last : σ) (r : α), ratio last = some r →
      ∃ r', (imhAfterS false ratio last (.fin r) steps).2 = .fin r' ∧
        ratio (imhAfterS false ratio last (.fin r) steps).1 = some r' := by
  intro steps
  induction steps with
  | nil => intro last r h; exact ⟨r, rfl, h⟩
  | cons s rest ih =>
    intro last r h
    obtain ⟨c, lu⟩ := s
    obtain ⟨r', h2, h1, _⟩ := imhStepS_fixed ratio last r h c lu
    simp only [imhAfterS]
    rw [h2]
    exact ih _ r' h1

/-- repaired variant: every state of the chain lies in the density's support -/
theorem imhChainS_fixed_support (ratio : σ → Option α) :
    ∀ (steps : List (σ × Option α)) (last : σ) (r : α), ratio last = some r →
      ∀ s ∈ imhChainS false ratio last (.fin r) steps, (ratio s).isSome = true := by
  intro steps
  induction steps with
  | nil => intro _ _ _ s hs; cases hs
  | cons x rest ih =>
    intro last r h s hs
    obtain ⟨c, lu⟩ := x
    obtain ⟨r', h2, h1, _⟩ := imhStepS_fixed ratio last r h c lu
    simp only [imhChainS, List.mem_cons] at hs
    rcases hs with rfl | hs
    · simp [h1]
    · rw [h2] at hs
      exact ih _ r' h1 s hs

/-- pinned variant: once the carried ratio is NaN nothing moves -/
theorem imhChainS_nan (poison : Bool) (ratio : σ → Option α) :
    ∀ (steps : List (σ × Option α)) (last : σ),
      imhChainS poison ratio last .nan steps = List.replicate steps.length last := by
  intro steps
  induction steps with
  | nil => intro _; rfl
  | cons s rest ih =>
    intro last
    obtain ⟨c, lu⟩ := s
    simp only [imhChainS, imhStepS, List.length_cons, List.replicate_succ]
    rw [ih]

end IMH

end PdtVerif.Estimators
