import PdtVerif.Lemmas.Estimators
/-!
# C19 — the Metropolis–Hastings chain as a list of values

`imhLoop` (the running sum of the code) against `imhChain` / `imhRecorded` (the chain states and the
recorded values `f b_t` as lists): the loop is the plain accumulation over the chain, whatever is
accepted; more steps only append to the record.
-/
namespace PdtVerif.Estimators

section IMH
variable {α σ : Type} [Field α] [LinearOrder α]

theorem imhLoop_eq_plain (ratio : σ → α) (f : σ → α) (burnIn : Nat) :
    ∀ (steps : List (σ × Option α)) (n : Nat) (last : σ) (lastR : α) (v : Option α),
      imhLoop ratio f burnIn n last lastR v steps
        = plainLoop f burnIn n v (imhChain ratio last lastR steps) := by
  intro steps
  induction steps with
  | nil => intro n last lastR v; rfl
  | cons s rest ih =>
    intro n last lastR v
    obtain ⟨c, lu⟩ := s
    simp only [imhLoop, imhChain, imhStep, plainLoop]
    exact ih _ _ _ _

theorem imhChain_length (ratio : σ → α) :
    ∀ (steps : List (σ × Option α)) (last : σ) (lastR : α),
      (imhChain ratio last lastR steps).length = steps.length := by
  intro steps
  induction steps with
  | nil => intro _ _; rfl
  | cons s rest ih => intro last lastR; obtain ⟨c, lu⟩ := s; simp [imhChain, ih]

theorem imhChain_append (ratio : σ → α) :
    ∀ (s t : List (σ × Option α)) (last : σ) (lastR : α),
      imhChain ratio last lastR (s ++ t)
        = imhChain ratio last lastR s
          ++ imhChain ratio (imhAfter ratio last lastR s).1 (imhAfter ratio last lastR s).2 t := by
  intro s
  induction s with
  | nil => intro t last lastR; rfl
  | cons x xs ih =>
    intro t last lastR
    obtain ⟨c, lu⟩ := x
    simp only [List.cons_append, imhChain, imhAfter, ih]

/-- what was recorded in the first steps is a prefix of what is recorded after more steps -/
theorem imhRecorded_prefix (ratio : σ → α) (f : σ → α) (burnIn : Nat) (b0 : σ)
    (s t : List (σ × Option α)) (h : burnIn ≤ s.length) :
    imhRecorded ratio f burnIn b0 s <+: imhRecorded ratio f burnIn b0 (s ++ t) := by
  unfold imhRecorded
  rw [imhChain_append, List.drop_append_of_le_length (by rw [imhChain_length]; exact h), List.map_append]
  exact List.prefix_append _ _

theorem imhChain_accept_all (ratio : σ → α) (hr : ∀ b, ratio b = 0) :
    ∀ (steps : List (σ × Option α)) (last : σ), (∀ s ∈ steps, NegLog s.2) →
      imhChain ratio last 0 steps = steps.map Prod.fst := by
  intro steps
  induction steps with
  | nil => intro _ _; rfl
  | cons s rest ih =>
    intro last h
    obtain ⟨c, lu⟩ := s
    have hlu : NegLog lu := h (c, lu) (by simp)
    have hrest : ∀ s ∈ rest, NegLog s.2 := fun s hs => h s (by simp [hs])
    cases lu with
    | none => simp only [imhChain, imhStep, if_true, hr c, List.map_cons]; rw [ih c hrest]
    | some l =>
      have hl : l < 0 := hlu l rfl
      simp only [imhChain, imhStep, hr c, sub_self, hl, decide_true, if_true, List.map_cons]
      rw [ih c hrest]

/-- the chain part of `imhEstimate`, for ANY densities / draws / uniforms -/
theorem imh_chain_values (ratio : σ → α) (f : σ → α) (N burnIn : Nat) (b0 : σ)
    (rest : List σ) (lus : List (Option α)) (hb : burnIn < N)
    (hd : N ≤ rest.length) (hl : N ≤ lus.length) :
    imhLoop ratio f burnIn 0 b0 (ratio b0) none ((rest.take N).zip (lus.take N))
      = some ((imhRecorded ratio f burnIn b0 ((rest.take N).zip (lus.take N))).sum) := by
  rw [imhLoop_eq_plain,
    plainLoop_before f burnIn _ 0 none (Nat.zero_le _)
      (by rw [imhChain_length]; simp [List.length_take]; omega)]
  simp [imhRecorded]

theorem imh_values_supplied (ratio : σ → α) (f : σ → α) (inSupport : σ → Bool) (N burnIn tries : Nat)
    (b0 : σ) (draws : List σ) (lus : List (Option α))
    (hb : burnIn < N) (hd : N ≤ draws.length) (hl : N ≤ lus.length) :
    imhEstimate ratio f inSupport N burnIn tries (some b0) draws lus
      = some ((imhRecorded ratio f burnIn b0 ((draws.take N).zip (lus.take N))).sum
          / ((N - burnIn : Nat) : α)) := by
  simp only [imhEstimate]
  rw [if_neg (by omega), imh_chain_values ratio f N burnIn b0 draws lus hb hd hl]

theorem imh_values_drawn (ratio : σ → α) (f : σ → α) (inSupport : σ → Bool) (N burnIn tries : Nat)
    (b0 : σ) (draws rest : List σ) (lus : List (Option α))
    (hf : findInitial inSupport tries draws = some (b0, rest))
    (hb : burnIn < N) (hd : N ≤ rest.length) (hl : N ≤ lus.length) :
    imhEstimate ratio f inSupport N burnIn tries none draws lus
      = some ((imhRecorded ratio f burnIn b0 ((rest.take N).zip (lus.take N))).sum
          / ((N - burnIn : Nat) : α)) := by
  simp only [imhEstimate]
  rw [hf]
  simp only []
  rw [if_neg (by omega), imh_chain_values ratio f N burnIn b0 rest lus hb hd hl]

theorem imh_values (ratio : σ → α) (f : σ → α) (inSupport : σ → Bool) (N burnIn tries : Nat)
    (init : Option σ) (draws : List σ) (lus : List (Option α)) (hb : burnIn < N) :
    imhEstimate ratio f inSupport N burnIn tries init draws lus
      = (imhValues ratio f inSupport N burnIn tries init draws lus).map
          (fun vs => vs.sum / ((N - burnIn : Nat) : α)) := by
  have key : ∀ (b0 : σ) (rest : List σ),
      (if rest.length < N ∨ lus.length < N then none else
        match imhLoop ratio f burnIn 0 b0 (ratio b0) none ((rest.take N).zip (lus.take N)) with
        | none => none
        | some v => some (v / ((N - burnIn : Nat) : α)))
      = (if rest.length < N ∨ lus.length < N then none else
          some (imhRecorded ratio f burnIn b0 ((rest.take N).zip (lus.take N)))).map
          (fun vs => vs.sum / ((N - burnIn : Nat) : α)) := by
    intro b0 rest
    by_cases h : rest.length < N ∨ lus.length < N
    · simp [h]
    · rw [if_neg h, if_neg h, imh_chain_values ratio f N burnIn b0 rest lus hb (by omega) (by omega)]
      rfl
  cases init with
  | some b => simp only [imhEstimate, imhValues]; exact key b draws
  | none =>
    simp only [imhEstimate, imhValues]
    cases findInitial inSupport tries draws with
    | none => rfl
    | some p => obtain ⟨b0, rest⟩ := p; exact key b0 rest

omit [LinearOrder α] [Field α] in
theorem imhStep_fst [Sub α] [LT α] [DecidableLT α] (ratio : σ → α) (last : σ) (lastR : α) (cur : σ) (lu : Option α) :
    (imhStep ratio last lastR cur lu).1 = cur ∨ (imhStep ratio last lastR cur lu).1 = last := by
  cases lu with
  | none => left; rfl
  | some l =>
    by_cases h : l < ratio cur - lastR
    · left; simp [imhStep, h]
    · right; simp [imhStep, h]

end IMH

end PdtVerif.Estimators
