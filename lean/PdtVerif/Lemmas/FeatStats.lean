import PdtVerif.Spec.FeatStats
import Mathlib.Tactic.Ring
import Mathlib.Tactic.FieldSimp
import Mathlib.Tactic.Linarith
import Mathlib.Algebra.Order.Field.Rat
import Mathlib.Algebra.BigOperators.Group.List.Basic
import Mathlib.Algebra.BigOperators.Ring.Finset
import Mathlib.Algebra.BigOperators.Group.Finset.Sigma
import Mathlib.Data.Int.Interval
/-!
# Helper lemmas for C18

* list sums: centred squares, affine maps;
* the accumulator fold (`accumulateAllCols`) coefficient by coefficient;
* the discount-row lemma behind `C18_return`;
* correlation / convolution-power lemmas behind `C18_delta_filters`.
-/
namespace PdtVerif.FeatStats

/-! ## List sums -/

theorem sumSq_nil : sumSq [] = 0 := rfl

theorem sumSq_cons (x : Rat) (l : List Rat) : sumSq (x :: l) = x * x + sumSq l := by
  simp [sumSq]

theorem sumSq_append (a b : List Rat) : sumSq (a ++ b) = sumSq a + sumSq b := by
  simp [sumSq]

theorem sumSq_perm {a b : List Rat} (h : a.Perm b) : sumSq a = sumSq b := by
  unfold sumSq
  exact (h.map _).sum_eq

/-- `Σ (x − c)² = Σ x² − 2 c Σ x + n c²`. -/
theorem sum_centred_sq (l : List Rat) (c : Rat) :
    (l.map (fun x => (x - c) * (x - c))).sum = sumSq l - 2 * c * l.sum + l.length * (c * c) := by
  induction l with
  | nil => simp [sumSq]
  | cons x xs ih =>
    simp only [List.map_cons, List.sum_cons, sumSq_cons, List.length_cons, ih]
    push_cast
    ring

/-- `Σ (x − c)/s = (Σ x − n c)/s`. -/
theorem sum_sub_div (l : List Rat) (c s : Rat) :
    ((l.map (· - c)).map (· / s)).sum = (l.sum - l.length * c) / s := by
  induction l with
  | nil => simp
  | cons x xs ih =>
    simp only [List.map_cons, List.sum_cons, List.length_cons, ih]
    push_cast
    ring

/-- `Σ ((x − c)/s − d)² = …` is not needed; the second moment of the normalised list: -/
theorem sumSq_sub_div (l : List Rat) (c s : Rat) :
    sumSq ((l.map (· - c)).map (· / s)) = (l.map (fun x => (x - c) * (x - c))).sum / (s * s) := by
  induction l with
  | nil => simp [sumSq]
  | cons x xs ih =>
    simp only [List.map_cons, List.sum_cons, sumSq_cons, ih]
    by_cases hs : s = 0
    · subst hs; simp
    · field_simp

theorem length_normCol (col : List Rat) (m s eps : Rat) : (normCol col m s eps).length = col.length := by
  simp [normCol]

/-! ## Pooled statistics -/

theorem mean_eq_poolMean (l : List Rat) : mean l = poolMean l := rfl

theorem varCentral_eq_poolVar (l : List Rat) : varCentral l = poolVar l := rfl

/-- `Σx²/n − (Σx/n)² = (1/n) Σ (x − μ)²` for a non-empty list. -/
theorem raw_var_eq_poolVar (l : List Rat) (hn : 0 < l.length) :
    sumSq l / l.length - (l.sum / l.length) * (l.sum / l.length) = poolVar l := by
  have hn' : (l.length : Rat) ≠ 0 := by exact_mod_cast (Nat.pos_iff_ne_zero.mp hn)
  unfold poolVar poolMean
  rw [sum_centred_sq]
  field_simp
  ring

/-- Bessel's factor `n/(n−1)` turns the biased variance into `(1/(n−1)) Σ (x − μ)²`. -/
theorem poolVar_mul_bessel (l : List Rat) (hn : 2 ≤ l.length) :
    poolVar l * ((l.length : Rat) / ((l.length : Rat) - 1)) = poolVarBessel l := by
  have h2 : (2 : Rat) ≤ (l.length : Rat) := by exact_mod_cast hn
  have hn' : (l.length : Rat) ≠ 0 := by linarith
  have hn1 : (l.length : Rat) - 1 ≠ 0 := by linarith
  unfold poolVar poolVarBessel
  field_simp

/-- Shifting every frame by a constant leaves the central second moment unchanged
(`forward` computes the own `std` of the *centred* input). -/
theorem poolMean_shift (l : List Rat) (c : Rat) (hn : 0 < l.length) :
    poolMean (l.map (· - c)) = poolMean l - c := by
  have hn' : (l.length : Rat) ≠ 0 := by exact_mod_cast (Nat.pos_iff_ne_zero.mp hn)
  unfold poolMean
  have : (l.map (· - c)).sum = l.sum - l.length * c := by
    clear hn hn'
    induction l with
    | nil => simp
    | cons x xs ih =>
      simp only [List.map_cons, List.sum_cons, List.length_cons, ih]
      push_cast
      ring
  rw [this, List.length_map]
  field_simp

theorem poolVar_shift (l : List Rat) (c : Rat) (hn : 0 < l.length) :
    poolVar (l.map (· - c)) = poolVar l := by
  unfold poolVar
  rw [poolMean_shift l c hn, List.length_map, List.map_map]
  congr 2
  apply List.map_congr_left
  intro x _
  simp only [Function.comp]
  ring

/-! ## The accumulator fold -/

/-- Total of a per-chunk quantity for coefficient `i`. -/
def totOf (f : List Rat → Rat) (chunks : List (List (List Rat))) (i : Nat) : Rat :=
  (chunks.map (fun c => f (c.getD i []))).sum

def totCount (chunks : List (List (List Rat))) : Nat :=
  (chunks.map (fun c => (c.headD []).length)).sum

theorem accumulateCols_none (c : List (List Rat)) :
    accumulateCols none c
      = accumulateCols (some ⟨0, List.replicate c.length 0, List.replicate c.length 0⟩) c := rfl

/-- One call on existing buffers of the right length. -/
theorem accumulateCols_some (a : Acc) (c : List (List Rat)) (X : Nat)
    (h1 : a.sum.length = X) (h2 : a.sumsq.length = X) (hc : c.length = X) :
    (accumulateCols (some a) c).count = a.count + (c.headD []).length ∧
    (accumulateCols (some a) c).sum.length = X ∧ (accumulateCols (some a) c).sumsq.length = X ∧
    (∀ i, i < X → (accumulateCols (some a) c).sum.getD i 0 = a.sum.getD i 0 + (c.getD i []).sum) ∧
    (∀ i, i < X →
      (accumulateCols (some a) c).sumsq.getD i 0 = a.sumsq.getD i 0 + sumSq (c.getD i [])) := by
  refine ⟨?_, ?_, ?_, ?_, ?_⟩
  · simp [accumulateCols]
  · simp [accumulateCols, h1, hc]
  · simp [accumulateCols, h2, hc]
  · intro i hi
    have hi1 : i < a.sum.length := by omega
    have hi2 : i < c.length := by omega
    simp [accumulateCols, List.getD_eq_getElem?_getD, List.getElem?_zipWith,
      List.getElem?_eq_getElem hi1, List.getElem?_eq_getElem hi2]
  · intro i hi
    have hi1 : i < a.sumsq.length := by omega
    have hi2 : i < c.length := by omega
    simp [accumulateCols, List.getD_eq_getElem?_getD, List.getElem?_zipWith,
      List.getElem?_eq_getElem hi1, List.getElem?_eq_getElem hi2]

/-- The fold started from existing buffers. -/
theorem foldl_accumulate (chunks : List (List (List Rat))) (X : Nat) (a : Acc)
    (h1 : a.sum.length = X) (h2 : a.sumsq.length = X) (hX : ∀ c ∈ chunks, c.length = X) :
    ∃ b, chunks.foldl (fun st c => some (accumulateCols st c)) (some a) = some b ∧
      b.count = a.count + totCount chunks ∧ b.sum.length = X ∧ b.sumsq.length = X ∧
      (∀ i, i < X → b.sum.getD i 0 = a.sum.getD i 0 + totOf List.sum chunks i) ∧
      (∀ i, i < X → b.sumsq.getD i 0 = a.sumsq.getD i 0 + totOf sumSq chunks i) := by
  induction chunks generalizing a with
  | nil => exact ⟨a, rfl, by simp [totCount], h1, h2, by simp [totOf], by simp [totOf]⟩
  | cons c cs ih =>
    have hc : c.length = X := hX c (by simp)
    obtain ⟨s0, s1, s2, s3, s4⟩ := accumulateCols_some a c X h1 h2 hc
    obtain ⟨b, hb, b0, b1, b2, b3, b4⟩ := ih (accumulateCols (some a) c) s1 s2
      (fun c' hc' => hX c' (by simp [hc']))
    refine ⟨b, by simpa [List.foldl_cons] using hb, ?_, b1, b2, ?_, ?_⟩
    · rw [b0, s0]; simp [totCount]; omega
    · intro i hi; rw [b3 i hi, s3 i hi]; simp [totOf]; ring
    · intro i hi; rw [b4 i hi, s4 i hi]; simp [totOf]; ring

/-- The whole history from the lazily created buffers. -/
theorem accumulateAllCols_spec (chunks : List (List (List Rat))) (X : Nat)
    (hne : chunks ≠ []) (hX : ∀ c ∈ chunks, c.length = X) :
    ∃ b, accumulateAllCols chunks = some b ∧
      b.count = totCount chunks ∧ b.sum.length = X ∧ b.sumsq.length = X ∧
      (∀ i, i < X → b.sum.getD i 0 = totOf List.sum chunks i) ∧
      (∀ i, i < X → b.sumsq.getD i 0 = totOf sumSq chunks i) := by
  cases chunks with
  | nil => exact absurd rfl hne
  | cons c cs =>
    have hc : c.length = X := hX c (by simp)
    let a0 : Acc := ⟨0, List.replicate c.length 0, List.replicate c.length 0⟩
    obtain ⟨b, hb, b0, b1, b2, b3, b4⟩ := foldl_accumulate (c :: cs) X a0
      (by simp [a0, hc]) (by simp [a0, hc]) hX
    refine ⟨b, ?_, by simpa [a0] using b0, b1, b2, ?_, ?_⟩
    · unfold accumulateAllCols
      rw [List.foldl_cons, accumulateCols_none]
      simpa [List.foldl_cons] using hb
    · intro i hi
      have := b3 i hi
      have hi' : i < c.length := by omega
      have hz : a0.sum.getD i 0 = 0 := by
        simp [a0, List.getD_eq_getElem?_getD, hi']
      rw [this, hz]; ring
    · intro i hi
      have := b4 i hi
      have hi' : i < c.length := by omega
      have hz : a0.sumsq.getD i 0 = 0 := by
        simp [a0, List.getD_eq_getElem?_getD, hi']
      rw [this, hz]; ring

theorem totOf_sum_eq (chunks : List (List (List Rat))) (i : Nat) :
    totOf List.sum chunks i = (chunks.flatMap (fun c => c.getD i [])).sum := by
  induction chunks with
  | nil => simp [totOf]
  | cons c cs ih => simp [totOf] at ih ⊢; rw [ih]

theorem totOf_sumSq_eq (chunks : List (List (List Rat))) (i : Nat) :
    totOf sumSq chunks i = sumSq (chunks.flatMap (fun c => c.getD i [])) := by
  induction chunks with
  | nil => simp [totOf, sumSq]
  | cons c cs ih => simp [totOf, sumSq_append] at ih ⊢; rw [ih]

/-- With rectangular chunks the frame count is the length of any coefficient's pool. -/
theorem totCount_eq (chunks : List (List (List Rat))) (i : Nat)
    (hrect : ∀ c ∈ chunks, (c.getD i []).length = (c.headD []).length) :
    totCount chunks = (chunks.flatMap (fun c => c.getD i [])).length := by
  induction chunks with
  | nil => simp [totCount]
  | cons c cs ih =>
    have h1 := hrect c (by simp)
    have h2 := ih (fun c' hc' => hrect c' (by simp [hc']))
    simp [totCount] at h1 h2 ⊢
    rw [h2, h1]

/-! ## `mean_var_norm` column by column -/

theorem meanVarNormCols_ys (cols : List (List Rat)) (mean? std? : Option (List Rat))
    (sq : List Rat) (eps : Rat) (i : Nat) (hi : i < cols.length)
    (hm : i < (mean?.getD (cols.map mean)).length) (hs : i < (std?.getD sq).length) :
    (meanVarNormCols cols mean? std? sq eps).2.2.getD i []
      = normCol (cols.getD i []) ((mean?.getD (cols.map mean)).getD i 0)
          ((std?.getD sq).getD i 0) eps := by
  simp [meanVarNormCols, normCol, List.getD_eq_getElem?_getD, List.getElem?_zipWith,
    List.getElem?_eq_getElem hi, List.getElem?_eq_getElem hm, List.getElem?_eq_getElem hs]

theorem meanVarNormCols_mean_own (cols : List (List Rat)) (std? : Option (List Rat))
    (sq : List Rat) (eps : Rat) (i : Nat) (hi : i < cols.length) :
    (meanVarNormCols cols none std? sq eps).1.getD i 0 = poolMean (cols.getD i []) := by
  simp [meanVarNormCols, List.getD_eq_getElem?_getD, List.getElem?_eq_getElem hi, mean_eq_poolMean]

theorem poolVar_nil : poolVar [] = 0 := by simp [poolVar]

theorem meanVarNormCols_var_own (cols : List (List Rat)) (std? : Option (List Rat))
    (sq : List Rat) (eps : Rat) (i : Nat) (hi : i < cols.length) :
    (meanVarNormCols cols none std? sq eps).2.1.getD i 0 = poolVar (cols.getD i []) := by
  simp only [meanVarNormCols, Option.getD_none]
  simp only [List.getD_eq_getElem?_getD, List.getElem?_map, List.getElem?_zipWith,
    List.getElem?_eq_getElem hi, Option.map_some, Option.getD_some,
    varCentral_eq_poolVar, mean_eq_poolMean]
  rcases Nat.eq_zero_or_pos (cols[i]).length with h0 | h0
  · have : cols[i] = [] := List.length_eq_zero_iff.mp h0
    simp [this]
  · exact poolVar_shift _ _ h0

/-! ## Returns -/

theorem dot_nil_left (b : List Rat) : dot [] b = 0 := by simp [dot]
theorem dot_cons (a : Rat) (as : List Rat) (b : Rat) (bs : List Rat) :
    dot (a :: as) (b :: bs) = a * b + dot as bs := by simp [dot]

theorem dot_comm (a b : List Rat) : dot a b = dot b a := by
  induction a generalizing b with
  | nil => cases b <;> simp [dot]
  | cons x xs ih =>
    cases b with
    | nil => simp [dot]
    | cons y ys => rw [dot_cons, dot_cons, ih, mul_comm]

/-- The heart of `C18_return`: a row of the discount matrix, started at column offset `o`,
against a reward sequence. -/
theorem dot_discount_row (g : Rat) (t : Nat) (c : List Rat) (o : Nat) :
    dot ((List.range' o c.length).map (fun j => if t ≤ j then g ^ (j - t) else 0)) c
      = if t ≤ o then g ^ (o - t) * retSpec g c else retSpec g (c.drop (t - o)) := by
  induction c generalizing o with
  | nil => simp [dot, retSpec]
  | cons x xs ih =>
    simp only [List.length_cons, List.range'_succ, List.map_cons, dot_cons, ih (o + 1)]
    by_cases h1 : t ≤ o
    · have h2 : t ≤ o + 1 := by omega
      have h3 : o + 1 - t = (o - t) + 1 := by omega
      simp only [h1, h2, if_true, retSpec, h3, pow_succ]
      ring
    · by_cases h2 : t ≤ o + 1
      · have h3 : t = o + 1 := by omega
        subst h3
        simp
      · have h3 : t - o = (t - (o + 1)) + 1 := by omega
        simp only [h1, h2, if_false, h3, List.drop_succ_cons]
        ring

theorem dot_discount_row0 (g : Rat) (t : Nat) (c : List Rat) :
    dot ((List.range c.length).map (fun j => if t ≤ j then g ^ (j - t) else 0)) c
      = retSpec g (c.drop t) := by
  have := dot_discount_row g t c 0
  rw [← List.range_eq_range'] at this
  rw [this]
  by_cases h : t ≤ 0
  · have : t = 0 := by omega
    subst this; simp
  · simp [h]

theorem matmul_getD (A B : List (List Rat)) (ncols t n : Nat) (ht : t < A.length) (hn : n < ncols) :
    ((matmul A B ncols).getD t []).getD n 0 = dot (A.getD t []) (B.map (fun br => br.getD n 0)) := by
  simp [matmul, List.getD_eq_getElem?_getD, List.getElem?_map, List.getElem?_eq_getElem ht,
    List.getElem?_range hn]

theorem retSpec_drop (g : Rat) (l : List Rat) (t : Nat) (ht : t < l.length) :
    retSpec g (l.drop t) = l.getD t 0 + g * retSpec g (l.drop (t + 1)) := by
  rw [List.drop_eq_getElem_cons ht, retSpec]
  simp [List.getD_eq_getElem?_getD, List.getElem?_eq_getElem ht]

theorem retSpec_drop_length (g : Rat) (l : List Rat) (t : Nat) (ht : l.length ≤ t) :
    retSpec g (l.drop t) = 0 := by
  rw [List.drop_eq_nil_of_le ht, retSpec]

theorem powers_getD (g : Rat) (T j : Nat) (hj : j < T) : (powers g T).getD j 0 = g ^ j := by
  simp [powers, List.getD_eq_getElem?_getD, List.getElem?_range hj]

theorem discountTriuQuot_eq (g : Rat) (hg : g ≠ 0) (T : Nat) :
    discountTriuQuot (powers g T) = discountTriu g T := by
  unfold discountTriuQuot discountTriu
  have hl : (powers g T).length = T := by simp [powers]
  rw [hl]
  apply List.map_congr_left
  intro i hi
  apply List.map_congr_left
  intro j hj
  rw [List.mem_range] at hi hj
  by_cases h : i ≤ j
  · simp only [h, if_true, powers_getD g T j hj, powers_getD g T i hi]
    rw [pow_sub₀ g hg h]
    rfl
  · simp [h]

theorem discountTrilQuot_eq (g : Rat) (hg : g ≠ 0) (T : Nat) :
    discountTrilQuot (powers g T) = discountTril g T := by
  unfold discountTrilQuot discountTril
  have hl : (powers g T).length = T := by simp [powers]
  rw [hl]
  apply List.map_congr_left
  intro i hi
  apply List.map_congr_left
  intro j hj
  rw [List.mem_range] at hi hj
  by_cases h : j ≤ i
  · simp only [h, if_true, powers_getD g T j hj, powers_getD g T i hi]
    rw [pow_sub₀ g hg h]
    rfl
  · simp [h]


/-! ## Deltas: the regression kernel, its convolution powers, and the recursive formula -/

/-- The regression kernel as a function on `ℤ`: `k / (2 Σ_{j≤w} j²)`. -/
def gk (w : Nat) (k : Int) : Rat := (k : Rat) / ((2 * sumSquares w : Nat) : Rat)

/-- The window `-w … w`. -/
def win (w : Nat) : Finset Int := Finset.Icc (-(w : Int)) w

/-- Convolution powers of the kernel: `gpow 0 = δ₀`, `gpow (u+1) = gk * gpow u`. -/
def gpow (w : Nat) : Nat → Int → Rat
  | 0, n => if n = 0 then 1 else 0
  | u + 1, n => ∑ k ∈ win w, gk w k * gpow w u (n - k)

theorem mem_win (w : Nat) (k : Int) : k ∈ win w ↔ -(w : Int) ≤ k ∧ k ≤ w := by
  simp [win, Finset.mem_Icc]

theorem win_succ (w : Nat) :
    win (w + 1) = insert ((w : Int) + 1) (insert (-((w : Int) + 1)) (win w)) := by
  ext k
  simp only [mem_win, Finset.mem_insert]
  push_cast
  omega

theorem regNumer_eq (e : Int → Rat) (t : Int) (w : Nat) :
    regNumer e t w = ∑ k ∈ win w, (k : Rat) * e (t + k) := by
  induction w with
  | zero => simp [regNumer, win]
  | succ w ih =>
    rw [win_succ, Finset.sum_insert, Finset.sum_insert, regNumer, ih]
    · push_cast
      have : t - ((w : Int) + 1) = t + -((w : Int) + 1) := by ring
      rw [this]
      ring
    · simp only [mem_win]; omega
    · simp only [Finset.mem_insert, mem_win]; omega

theorem regDelta_eq (w : Nat) (e : Int → Rat) (t : Int) :
    regDelta w e t = ∑ k ∈ win w, gk w k * e (t + k) := by
  unfold regDelta
  rw [regNumer_eq, div_eq_mul_inv, Finset.sum_mul]
  apply Finset.sum_congr rfl
  intro k _
  unfold gk
  ring

/-- `gpow u` vanishes outside `[-u·w, u·w]`. -/
theorem gpow_support (w u : Nat) (n : Int) (h : n < -((u * w : Nat) : Int) ∨ ((u * w : Nat) : Int) < n) :
    gpow w u n = 0 := by
  induction u generalizing n with
  | zero =>
    simp only [gpow]
    have : n ≠ 0 := by simp at h; omega
    simp [this]
  | succ u ih =>
    simp only [gpow]
    apply Finset.sum_eq_zero
    intro k hk
    rw [mem_win] at hk
    rw [ih (n - k), mul_zero]
    have : ((u + 1) * w : Nat) = u * w + w := by ring
    rw [this] at h
    push_cast at h ⊢
    omega

/-- Shifting the summation variable over an integer interval. -/
theorem sum_Icc_shift (F : Int → Rat) (a b c : Int) :
    ∑ n ∈ Finset.Icc a b, F n = ∑ m ∈ Finset.Icc (a + c) (b + c), F (m - c) := by
  apply Finset.sum_nbij' (fun n => n + c) (fun m => m - c)
  · intro n hn; rw [Finset.mem_Icc] at hn ⊢; omega
  · intro m hm; rw [Finset.mem_Icc] at hm ⊢; omega
  · intro n _; ring
  · intro m _; ring
  · intro n _; congr 1; ring

/-- A sum over a larger interval of a function vanishing outside the smaller one. -/
theorem sum_Icc_extend (F : Int → Rat) (a b a' b' : Int) (ha : a' ≤ a) (hb : b ≤ b')
    (hz : ∀ m, (m < a ∨ b < m) → F m = 0) :
    ∑ m ∈ Finset.Icc a b, F m = ∑ m ∈ Finset.Icc a' b', F m := by
  apply Finset.sum_subset
  · intro m hm; rw [Finset.mem_Icc] at hm ⊢; omega
  · intro m _ hm2
    apply hz
    rw [Finset.mem_Icc] at hm2
    omega

/-- **One convolution with the composite filter = the recursive formula.** -/
theorem gpow_sum_eq_deltaSpec (w u : Nat) (e : Int → Rat) (t : Int) :
    ∑ n ∈ Finset.Icc (-((u * w : Nat) : Int)) ((u * w : Nat) : Int), gpow w u n * e (t + n)
      = deltaSpec w e u t := by
  induction u generalizing t with
  | zero => simp [gpow, deltaSpec]
  | succ u ih =>
    rw [deltaSpec, regDelta_eq]
    simp only [gpow, Finset.sum_mul]
    rw [Finset.sum_comm]
    apply Finset.sum_congr rfl
    intro k hk
    rw [mem_win] at hk
    rw [← ih (t + k), Finset.mul_sum]
    have hS : ((u + 1) * w : Nat) = u * w + w := by ring
    -- bring the right-hand side to the interval shifted by k, then extend it
    rw [sum_Icc_shift (fun n => gk w k * (gpow w u n * e (t + k + n))) _ _ k]
    rw [sum_Icc_extend (fun m => gk w k * (gpow w u (m - k) * e (t + k + (m - k))))
      (-((u * w : Nat) : Int) + k) (((u * w : Nat) : Int) + k)
      (-(((u + 1) * w : Nat) : Int)) ((((u + 1) * w : Nat) : Int))
      (by rw [hS]; push_cast; omega) (by rw [hS]; push_cast; omega)
      (by
        intro m hm
        rw [gpow_support w u (m - k) (by omega)]
        ring)]
    apply Finset.sum_congr rfl
    intro m _
    have : t + k + (m - k) = t + m := by ring
    rw [this]
    ring


/-! ## Deltas: from the list model to sums over `ℤ` -/

theorem list_range_sum (n : Nat) (F : Nat → Rat) :
    ((List.range n).map F).sum = ∑ j ∈ Finset.range n, F j := by
  induction n with
  | zero => simp
  | succ n ih => rw [List.range_succ, List.map_append, List.sum_append, ih, Finset.sum_range_succ]; simp

theorem corrValid_length (x f : List Rat) : (corrValid x f).length = x.length + 1 - f.length := by
  simp [corrValid]

theorem corrValid_getD (x f : List Rat) (i : Nat) (hi : i < x.length + 1 - f.length) :
    (corrValid x f).getD i 0 = ∑ j ∈ Finset.range f.length, x.getD (i + j) 0 * f.getD j 0 := by
  simp only [corrValid, List.getD_eq_getElem?_getD, List.getElem?_map, List.getElem?_range hi,
    Option.map_some, Option.getD_some]
  rw [list_range_sum]

/-- `j ↦ j - c` from `0 … 2c` onto `-c … c`. -/
theorem sum_range_centre (c : Nat) (F : Nat → Rat) :
    ∑ j ∈ Finset.range (2 * c + 1), F j = ∑ n ∈ Finset.Icc (-(c : Int)) c, F (n + c).toNat := by
  apply Finset.sum_nbij' (fun (j : Nat) => ((j : Int) - (c : Int) : Int)) (fun (n : Int) => (n + c).toNat)
  · intro j hj; rw [Finset.mem_range] at hj; rw [Finset.mem_Icc]; omega
  · intro n hn; rw [Finset.mem_Icc] at hn; rw [Finset.mem_range]; omega
  · intro j _; simp
  · intro n hn; rw [Finset.mem_Icc] at hn; omega
  · intro j _; simp

/-- `j ↦ c - j` from `0 … 2c` onto `-c … c` (reflection). -/
theorem sum_range_reflect (c : Nat) (F : Nat → Rat) :
    ∑ j ∈ Finset.range (2 * c + 1), F j = ∑ k ∈ Finset.Icc (-(c : Int)) c, F ((c : Int) - k).toNat := by
  apply Finset.sum_nbij' (fun (j : Nat) => ((c : Int) - (j : Int) : Int)) (fun (k : Int) => ((c : Int) - k).toNat)
  · intro j hj; rw [Finset.mem_range] at hj; rw [Finset.mem_Icc]; omega
  · intro k hk; rw [Finset.mem_Icc] at hk; rw [Finset.mem_range]; omega
  · intro j _; simp
  · intro k hk; rw [Finset.mem_Icc] at hk; omega
  · intro j _; simp

theorem kernel_length (w : Nat) : (kernel w).length = 2 * w + 1 := by simp [kernel]

theorem kernel_getD (w j : Nat) (hj : j < 2 * w + 1) :
    (kernel w).getD j 0 = gk w ((w : Int) - j) := by
  simp [kernel, gk, List.getD_eq_getElem?_getD, List.getElem?_map, List.getElem?_range hj]

/-- A filter buffer of length `2c+1` read as a function on `ℤ` centred at `c`. -/
def view (f : List Rat) (c : Nat) (n : Int) : Rat :=
  if -(c : Int) ≤ n ∧ n ≤ c then f.getD (n + c).toNat 0 else 0

theorem padZero_getD (w c : Nat) (f : List Rat) (hf : f.length = 2 * c + 1) (m : Nat) :
    (padZero w f).getD m 0 = view f c ((m : Int) - w - c) := by
  unfold padZero view
  rw [List.getD_eq_getElem?_getD, List.append_assoc]
  by_cases h1 : m < w
  · rw [List.getElem?_append_left (by simpa using h1)]
    have : ¬ (-(c : Int) ≤ (m : Int) - w - c ∧ (m : Int) - w - c ≤ c) := by omega
    simp [h1]
  · rw [List.getElem?_append_right (by simpa using Nat.le_of_not_lt h1)]
    simp only [List.length_replicate]
    by_cases h2 : m - w < f.length
    · rw [List.getElem?_append_left h2]
      have h3 : (-(c : Int) ≤ (m : Int) - w - c ∧ (m : Int) - w - c ≤ c) := by omega
      have h4 : ((m : Int) - w - c + c).toNat = m - w := by omega
      simp [h3, List.getD_eq_getElem?_getD]
    · rw [List.getElem?_append_right (Nat.le_of_not_lt h2)]
      have : ¬ (-(c : Int) ≤ (m : Int) - w - c ∧ (m : Int) - w - c ≤ c) := by omega
      simp only [this, if_false]
      rw [List.getElem?_replicate]
      split <;> rfl

theorem filtIter_length (w c : Nat) (f0 : List Rat) (hf : f0.length = 2 * c + 1) (u : Nat) :
    (filtIter w f0 u).length = 2 * c + 1 := by
  induction u with
  | zero => exact hf
  | succ u ih =>
    simp only [filtIter]
    rw [corrValid_length, kernel_length]
    simp [padZero, ih]
    omega

/-- One `conv1d(…, kernel, padding=width)` step on a buffer is one convolution with `gk`. -/
theorem view_filt_step (w c : Nat) (f : List Rat) (hf : f.length = 2 * c + 1) (n : Int) :
    view (corrValid (padZero w f) (kernel w)) c n
      = if -(c : Int) ≤ n ∧ n ≤ c then ∑ k ∈ win w, gk w k * view f c (n - k) else 0 := by
  have hlen : (padZero w f).length = 2 * c + 1 + 2 * w := by simp [padZero, hf]; omega
  unfold view
  by_cases h : -(c : Int) ≤ n ∧ n ≤ c
  · simp only [h, and_self, if_true]
    have hi : (n + c).toNat < (padZero w f).length + 1 - (kernel w).length := by
      rw [hlen, kernel_length]; omega
    rw [corrValid_getD _ _ _ hi, kernel_length, sum_range_reflect]
    unfold win
    apply Finset.sum_congr rfl
    intro k hk
    rw [Finset.mem_Icc] at hk
    rw [padZero_getD w c f hf, kernel_getD w _ (by omega)]
    have h1 : (((n + c).toNat + ((w : Int) - k).toNat : Nat) : Int) - w - c = n - k := by omega
    have h2 : (w : Int) - (((w : Int) - k).toNat : Nat) = k := by omega
    rw [h1, h2]
    unfold view
    ring
  · simp [h]

/-- The `u`-th buffer of `_feat_delta_filters` (one-hot of length `2c+1` centred at `c`,
convolved `u` times) is the `u`-fold convolution power of the regression kernel, as long as
its support fits (`u·w ≤ c`; in the code `c = w·order` and `u ≤ order`). -/
theorem view_filtIter (w c u : Nat) (hu : u * w ≤ c) (n : Int) :
    view (filtIter w (oneHot (2 * c + 1) c) u) c n = gpow w u n := by
  have hf0 : (oneHot (2 * c + 1) c).length = 2 * c + 1 := by simp [oneHot]
  induction u generalizing n with
  | zero =>
    simp only [filtIter, gpow]
    unfold view oneHot
    by_cases h : -(c : Int) ≤ n ∧ n ≤ (c : Int)
    · have hlt : (n + (c : Int)).toNat < 2 * c + 1 := by omega
      simp only [h, and_self, if_true, List.getD_eq_getElem?_getD, List.getElem?_map,
        List.getElem?_range hlt, Option.map_some, Option.getD_some]
      by_cases h0 : n = 0
      · subst h0; simp
      · have : (n + (c : Int)).toNat ≠ c := by omega
        simp [h0, this]
    · have h0 : n ≠ 0 := by omega
      simp only [h, if_false, h0]
  | succ u ih =>
    have hsm : (u + 1) * w = u * w + w := Nat.succ_mul u w
    have hlen := filtIter_length w c _ hf0 u
    simp only [filtIter]
    rw [view_filt_step w c _ hlen n]
    by_cases h : -(c : Int) ≤ n ∧ n ≤ (c : Int)
    · simp only [h, and_self, if_true, gpow]
      apply Finset.sum_congr rfl
      intro k _
      rw [ih (by omega)]
    · simp only [h, if_false]
      symm
      apply gpow_support
      have h2 : (((u + 1) * w : Nat) : Int) ≤ (c : Int) := by exact_mod_cast hu
      omega

theorem pad1d_length (mode : PadMode) (p : Nat) (x xp : List Rat) (h : pad1d mode p x = some xp) :
    xp.length = x.length + 2 * p := by
  by_cases hl : padLegal mode p x.length = true
  · simp only [pad1d, hl, if_true, Option.some.injEq] at h
    subst h; simp
  · simp [pad1d, hl] at h

theorem pad1d_getD (mode : PadMode) (p : Nat) (x xp : List Rat) (h : pad1d mode p x = some xp)
    (m : Nat) (hm : m < x.length + 2 * p) : xp.getD m 0 = extAt mode x ((m : Int) - p) := by
  by_cases hl : padLegal mode p x.length = true
  · simp only [pad1d, hl, if_true, Option.some.injEq] at h
    subst h
    simp [List.getD_eq_getElem?_getD, List.getElem?_map, List.getElem?_range hm]
  · simp [pad1d, hl] at h

/-- One `conv1d` of the padded row with a buffer of length `2c+1` (`c` = the padding). -/
theorem corr_padded (mode : PadMode) (c : Nat) (x xp f : List Rat)
    (h : pad1d mode c x = some xp) (hf : f.length = 2 * c + 1) (t : Nat) (ht : t < x.length) :
    (corrValid xp f).getD t 0
      = ∑ n ∈ Finset.Icc (-(c : Int)) c, view f c n * extAt mode x ((t : Int) + n) := by
  have hl := pad1d_length mode c x xp h
  rw [corrValid_getD _ _ _ (by omega), hf, sum_range_centre]
  apply Finset.sum_congr rfl
  intro n hn
  rw [Finset.mem_Icc] at hn
  rw [pad1d_getD mode c x xp h _ (by omega)]
  have h1 : ((t + (n + c).toNat : Nat) : Int) - c = t + n := by omega
  rw [h1]
  unfold view
  simp only [hn, and_self, if_true]
  ring


end PdtVerif.FeatStats
