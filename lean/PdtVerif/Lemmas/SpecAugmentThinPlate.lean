import PdtVerif.Lemmas.SpecAugmentWarp
import Mathlib.Analysis.SpecialFunctions.Log.Basic
/-!
# C08: the order-2 (thin-plate, `r² log r`) spline through the three knots of `warp_1d_grid`

`r² log r` is not a rational function, so this part lives over `ℝ`: the knots of the (rational)
model are cast.  `_phi(r, 2) = r ** 2 * log(clamp(r, min = eps))`.
-/
namespace PdtVerif.SpecAugment

/-- `_phi(r, 2)`. -/
noncomputable def phi2 (eps r : ℝ) : ℝ := r ^ 2 * Real.log (max r eps)

/-- `_apply_interpolation` in one dimension over the reals. -/
noncomputable def splineEvalR (φ : ℝ → ℝ) (c1 c2 c3 w1 w2 w3 v1 v0 : ℝ) (x : ℝ) : ℝ :=
  w1 * φ |x - c1| + w2 * φ |x - c2| + w3 * φ |x - c3| + v1 * x + v0

/-- The system of `_solve_interpolation` for three real knots `c1 c2 c3` with values `c1 y2 c3`. -/
structure SplineSystemR (φ : ℝ → ℝ) (c1 c2 c3 y2 : ℝ) (w1 w2 w3 v1 v0 : ℝ) : Prop where
  at1 : splineEvalR φ c1 c2 c3 w1 w2 w3 v1 v0 c1 = c1
  at2 : splineEvalR φ c1 c2 c3 w1 w2 w3 v1 v0 c2 = y2
  at3 : splineEvalR φ c1 c2 c3 w1 w2 w3 v1 v0 c3 = c3
  orth0 : w1 + w2 + w3 = 0
  orth1 : w1 * c1 + w2 * c2 + w3 * c3 = 0

theorem phi2_zero (eps : ℝ) : phi2 eps 0 = 0 := by unfold phi2; simp

theorem phi2_of_le {eps r : ℝ} (h : eps ≤ r) : phi2 eps r = r ^ 2 * Real.log r := by
  unfold phi2; rw [max_eq_left h]

theorem splineSystemR_iff {φ : ℝ → ℝ} (h0 : φ 0 = 0) {c1 c2 c3 y2 : ℝ} (h12 : c1 < c2) (h23 : c2 < c3)
    (w1 w2 w3 v1 v0 : ℝ) :
    SplineSystemR φ c1 c2 c3 y2 w1 w2 w3 v1 v0 ↔
      Poly3Sys c1 (c2 - c1) (c3 - c2) (φ (c2 - c1)) (φ (c3 - c2)) (φ ((c2 - c1) + (c3 - c2)))
        c1 y2 c3 w1 w2 w3 v1 v0 := by
  have r11 : |c1 - c1| = 0 := by simp
  have r12 : |c1 - c2| = c2 - c1 := by rw [abs_of_nonpos (by linarith)]; ring
  have r13 : |c1 - c3| = (c2 - c1) + (c3 - c2) := by rw [abs_of_nonpos (by linarith)]; ring
  have r21 : |c2 - c1| = c2 - c1 := abs_of_nonneg (by linarith)
  have r22 : |c2 - c2| = 0 := by simp
  have r23 : |c2 - c3| = c3 - c2 := by rw [abs_of_nonpos (by linarith)]; ring
  have r31 : |c3 - c1| = (c2 - c1) + (c3 - c2) := by rw [abs_of_nonneg (by linarith)]; ring
  have r32 : |c3 - c2| = c3 - c2 := abs_of_nonneg (by linarith)
  have r33 : |c3 - c3| = 0 := by simp
  constructor
  · rintro ⟨e1, e2, e3, o0, o1⟩
    unfold splineEvalR at e1 e2 e3
    rw [r11, r12, r13, h0] at e1
    rw [r21, r22, r23, h0] at e2
    rw [r31, r32, r33, h0] at e3
    exact ⟨by linarith, by linarith, by linarith, o0, by linarith⟩
  · rintro ⟨e1, e2, e3, o0, o1⟩
    refine ⟨?_, ?_, ?_, o0, by linarith⟩
    · unfold splineEvalR; rw [r11, r12, r13, h0]; linarith
    · unfold splineEvalR; rw [r21, r22, r23, h0]; linarith
    · unfold splineEvalR; rw [r31, r32, r33, h0]; linarith

/-- Order 2: `Q = a b (a+b) · ((a+b) log(a+b) − a log a − b log b) > 0` when both gaps are at
least `eps` (the clamp inside `_phi` is then inactive). -/
theorem poly3Q_phi2 {eps a b : ℝ} (he : 0 < eps) (ha : eps ≤ a) (hb : eps ≤ b) :
    poly3Q a b (phi2 eps a) (phi2 eps b) (phi2 eps (a + b)) ≠ 0 := by
  have ha0 : 0 < a := lt_of_lt_of_le he ha
  have hb0 : 0 < b := lt_of_lt_of_le he hb
  rw [phi2_of_le ha, phi2_of_le hb, phi2_of_le (show eps ≤ a + b by linarith)]
  have e : poly3Q a b (a ^ 2 * Real.log a) (b ^ 2 * Real.log b) ((a + b) ^ 2 * Real.log (a + b))
      = a * b * (a + b) * ((a + b) * Real.log (a + b) - a * Real.log a - b * Real.log b) := by
    unfold poly3Q; ring
  rw [e]
  have la : Real.log a < Real.log (a + b) := Real.log_lt_log ha0 (by linarith)
  have lb : Real.log b < Real.log (a + b) := Real.log_lt_log hb0 (by linarith)
  have h1 : a * Real.log a < a * Real.log (a + b) := mul_lt_mul_of_pos_left la ha0
  have h2 : b * Real.log b < b * Real.log (a + b) := mul_lt_mul_of_pos_left lb hb0
  have hpos : 0 < (a + b) * Real.log (a + b) - a * Real.log a - b * Real.log b := by nlinarith
  have : 0 < a * b * (a + b) := by positivity
  exact ne_of_gt (mul_pos this hpos)

end PdtVerif.SpecAugment
