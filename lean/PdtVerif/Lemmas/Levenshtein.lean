import PdtVerif.Spec.Levenshtein
import Mathlib.Tactic.Linarith
import Mathlib.Tactic.Ring
import Mathlib.Algebra.Order.Ring.Rat
/-!
# Facts about the Levenshtein spec shared by C01–C03

* `lev_isLevDist` — the recursion computes the minimum script cost (both inequalities);
* `Aligns.append`, `Aligns.reverse`, `lev_reverse` — scripts and `lev` are invariant under
  reversing both strings;
* `lev_nil_left`, `lev_nil_right`, `lev_snoc` — the recursion re-expressed on *prefixes*
  (append at the end), which is the shape of the row-by-row dynamic programme in the code;
* `scriptCost_unit`, `lev_uniform_scale` — unit costs count edits; equal costs scale.
-/
set_option linter.unusedSectionVars false

namespace PdtVerif.Lev

variable {α : Type} [DecidableEq α]

@[simp] theorem scriptCost_nil (c : Costs) : scriptCost c ([] : List (Edit α)) = 0 := rfl

@[simp] theorem scriptCost_cons (c : Costs) (e : Edit α) (s : List (Edit α)) :
    scriptCost c (e :: s) = e.cost c + scriptCost c s := by
  simp [scriptCost]

theorem scriptCost_append (c : Costs) (s t : List (Edit α)) :
    scriptCost c (s ++ t) = scriptCost c s + scriptCost c t := by
  simp [scriptCost, List.sum_append]

theorem numEdits_append (s t : List (Edit α)) : numEdits (s ++ t) = numEdits s + numEdits t := by
  simp [numEdits, List.countP_append]

theorem lev_nil_left (c : Costs) (h : List α) : lev c [] h = c.ins * h.length := by
  simp [lev]

theorem lev_nil_right (c : Costs) (r : List α) : lev c r [] = c.del * r.length := by
  cases r <;> simp [lev]

theorem lev_cons_cons (c : Costs) (x y : α) (r h : List α) :
    lev c (x :: r) (y :: h)
      = min (min (lev c r (y :: h) + c.del) (lev c (x :: r) h + c.ins)) (lev c r h + subCost c x y) := by
  simp [lev]

/-- Every script costs at least `lev`. No sign condition on the costs is needed. -/
theorem lev_le_scriptCost (c : Costs) {s : List (Edit α)} {r h : List α} (a : Aligns s r h) :
    lev c r h ≤ scriptCost c s := by
  induction a with
  | nil => simp [lev]
  | @ins s r h y _ ih =>
    rw [scriptCost_cons]
    cases r with
    | nil =>
      rw [lev_nil_left] at ih ⊢
      simp only [Edit.cost, List.length_cons]
      push_cast
      linarith
    | cons x r =>
      rw [lev_cons_cons]
      simp only [Edit.cost]
      have := min_le_left (min (lev c r (y :: h) + c.del) (lev c (x :: r) h + c.ins))
        (lev c r h + subCost c x y)
      have := min_le_right (lev c r (y :: h) + c.del) (lev c (x :: r) h + c.ins)
      linarith
  | @del s r h x _ ih =>
    rw [scriptCost_cons]
    cases h with
    | nil =>
      rw [lev_nil_right] at ih ⊢
      simp only [Edit.cost, List.length_cons]
      push_cast
      linarith
    | cons y h =>
      rw [lev_cons_cons]
      simp only [Edit.cost]
      have := min_le_left (min (lev c r (y :: h) + c.del) (lev c (x :: r) h + c.ins))
        (lev c r h + subCost c x y)
      have := min_le_left (lev c r (y :: h) + c.del) (lev c (x :: r) h + c.ins)
      linarith
  | @sub s r h x y hne _ ih =>
    rw [scriptCost_cons, lev_cons_cons]
    simp only [Edit.cost]
    have := min_le_right (min (lev c r (y :: h) + c.del) (lev c (x :: r) h + c.ins))
      (lev c r h + subCost c x y)
    simp only [subCost, hne, if_false] at this ⊢
    linarith
  | @keep s r h x _ ih =>
    rw [scriptCost_cons, lev_cons_cons]
    simp only [Edit.cost]
    have := min_le_right (min (lev c r (x :: h) + c.del) (lev c (x :: r) h + c.ins))
      (lev c r h + subCost c x x)
    simp only [subCost, if_true] at this ⊢
    linarith

/-- All-insertions script. -/
def insAll (h : List α) : List (Edit α) := h.map Edit.ins
/-- All-deletions script. -/
def delAll (r : List α) : List (Edit α) := r.map Edit.del

theorem aligns_insAll (h : List α) : Aligns (insAll h) [] h := by
  induction h with
  | nil => exact .nil
  | cons y h ih => exact .ins y ih

theorem aligns_delAll (r : List α) : Aligns (delAll r) r [] := by
  induction r with
  | nil => exact .nil
  | cons x r ih => exact .del x ih

theorem scriptCost_insAll (c : Costs) (h : List α) : scriptCost c (insAll h) = c.ins * h.length := by
  induction h with
  | nil => simp [insAll]
  | cons y h ih =>
    simp only [insAll, List.map_cons, scriptCost_cons, Edit.cost, List.length_cons] at ih ⊢
    push_cast; linarith

theorem scriptCost_delAll (c : Costs) (r : List α) : scriptCost c (delAll r) = c.del * r.length := by
  induction r with
  | nil => simp [delAll]
  | cons x r ih =>
    simp only [delAll, List.map_cons, scriptCost_cons, Edit.cost, List.length_cons] at ih ⊢
    push_cast; linarith

/-- `lev` is attained by a script. -/
theorem lev_attained (c : Costs) (r h : List α) :
    ∃ s : List (Edit α), Aligns s r h ∧ scriptCost c s = lev c r h := by
  induction r generalizing h with
  | nil => exact ⟨insAll h, aligns_insAll h, by rw [scriptCost_insAll, lev_nil_left]⟩
  | cons x r ihr =>
    induction h with
    | nil => exact ⟨delAll (x :: r), aligns_delAll _, by rw [scriptCost_delAll, lev_nil_right]⟩
    | cons y h ihh =>
      rw [lev_cons_cons]
      obtain ⟨s1, a1, e1⟩ := ihr (y :: h)
      obtain ⟨s2, a2, e2⟩ := ihh
      obtain ⟨s3, a3, e3⟩ := ihr h
      rcases min_choice (min (lev c r (y :: h) + c.del) (lev c (x :: r) h + c.ins))
          (lev c r h + subCost c x y) with hm | hm
      · rw [hm]
        rcases min_choice (lev c r (y :: h) + c.del) (lev c (x :: r) h + c.ins) with hm2 | hm2
        · rw [hm2]
          exact ⟨.del x :: s1, .del x a1, by simp [Edit.cost, e1]; ring⟩
        · rw [hm2]
          exact ⟨.ins y :: s2, .ins y a2, by simp [Edit.cost, e2]; ring⟩
      · rw [hm]
        by_cases hxy : x = y
        · subst hxy
          exact ⟨.keep x :: s3, .keep x a3, by simp [Edit.cost, subCost, e3]⟩
        · exact ⟨.sub x y :: s3, .sub x y hxy a3, by simp [Edit.cost, subCost, hxy, e3]; ring⟩

/-- **The recursion is the weighted edit distance.** -/
theorem lev_isLevDist (c : Costs) (r h : List α) : IsLevDist c r h (lev c r h) :=
  ⟨lev_attained c r h, fun _ a => lev_le_scriptCost c a⟩

/-- The distance is unique. -/
theorem IsLevDist.unique {c : Costs} {r h : List α} {d d' : Rat}
    (h1 : IsLevDist c r h d) (h2 : IsLevDist c r h d') : d = d' := by
  obtain ⟨⟨s, a, e⟩, lb⟩ := h1
  obtain ⟨⟨s', a', e'⟩, lb'⟩ := h2
  have := lb s' a'
  have := lb' s a
  linarith

/-! ### Concatenation and reversal of scripts -/

theorem Aligns.append {s₁ s₂ : List (Edit α)} {r₁ r₂ h₁ h₂ : List α}
    (a₁ : Aligns s₁ r₁ h₁) (a₂ : Aligns s₂ r₂ h₂) : Aligns (s₁ ++ s₂) (r₁ ++ r₂) (h₁ ++ h₂) := by
  induction a₁ with
  | nil => simpa using a₂
  | ins y _ ih => exact .ins y ih
  | del x _ ih => exact .del x ih
  | sub x y hne _ ih => exact .sub x y hne ih
  | keep x _ ih => exact .keep x ih

theorem Aligns.reverse {s : List (Edit α)} {r h : List α} (a : Aligns s r h) :
    Aligns s.reverse r.reverse h.reverse := by
  induction a with
  | nil => exact .nil
  | @ins s r h y _ ih =>
    simp only [List.reverse_cons]
    have := ih.append (Aligns.ins y Aligns.nil)
    simpa using this
  | @del s r h x _ ih =>
    simp only [List.reverse_cons]
    have := ih.append (Aligns.del x Aligns.nil)
    simpa using this
  | @sub s r h x y hne _ ih =>
    simp only [List.reverse_cons]
    exact ih.append (Aligns.sub x y hne Aligns.nil)
  | @keep s r h x _ ih =>
    simp only [List.reverse_cons]
    exact ih.append (Aligns.keep x Aligns.nil)

theorem scriptCost_reverse (c : Costs) (s : List (Edit α)) :
    scriptCost c s.reverse = scriptCost c s := by
  induction s with
  | nil => rfl
  | cons e s ih =>
    rw [List.reverse_cons, scriptCost_append, ih, scriptCost_cons, scriptCost_cons, scriptCost_nil]
    ring

theorem numEdits_reverse (s : List (Edit α)) : numEdits s.reverse = numEdits s := by
  simp [numEdits]

theorem isLevDist_reverse {c : Costs} {r h : List α} {d : Rat} (hd : IsLevDist c r h d) :
    IsLevDist c r.reverse h.reverse d := by
  obtain ⟨⟨s, a, e⟩, lb⟩ := hd
  refine ⟨⟨s.reverse, a.reverse, by rw [scriptCost_reverse, e]⟩, ?_⟩
  intro s' a'
  have := lb s'.reverse (by simpa using a'.reverse)
  rwa [scriptCost_reverse] at this

theorem lev_reverse (c : Costs) (r h : List α) : lev c r.reverse h.reverse = lev c r h :=
  (lev_isLevDist c r.reverse h.reverse).unique (isLevDist_reverse (lev_isLevDist c r h))

/-- **Prefix form of the recursion** — the shape of one dynamic-programming cell:
`D[j+1][k+1] = min (D[j][k+1] + del) (D[j+1][k] + ins) (D[j][k] + sub·[x ≠ y])`. -/
theorem lev_snoc (c : Costs) (r h : List α) (x y : α) :
    lev c (r ++ [x]) (h ++ [y])
      = min (min (lev c r (h ++ [y]) + c.del) (lev c (r ++ [x]) h + c.ins))
          (lev c r h + subCost c x y) := by
  have e1 := lev_reverse c (r ++ [x]) (h ++ [y])
  have e2 := lev_reverse c r (h ++ [y])
  have e3 := lev_reverse c (r ++ [x]) h
  have e4 := lev_reverse c r h
  simp only [List.reverse_append, List.reverse_cons, List.reverse_nil, List.nil_append,
    List.singleton_append] at e1 e2 e3
  rw [← e1, ← e2, ← e3, ← e4, lev_cons_cons]

theorem lev_snoc_left_nil (c : Costs) (r : List α) (x : α) :
    lev c (r ++ [x]) [] = lev c r [] + c.del := by
  simp only [lev_nil_right, List.length_append, List.length_cons, List.length_nil]
  push_cast; ring

theorem lev_snoc_right_nil (c : Costs) (h : List α) (y : α) :
    lev c [] (h ++ [y]) = lev c [] h + c.ins := by
  simp only [lev_nil_left, List.length_append, List.length_cons, List.length_nil]
  push_cast; ring

/-! ### Unit costs and uniform scaling -/

theorem scriptCost_unit (s : List (Edit α)) : scriptCost unitCosts s = (numEdits s : Rat) := by
  induction s with
  | nil => simp [numEdits]
  | cons e s ih =>
    rw [scriptCost_cons, ih]
    cases e <;> simp [Edit.cost, unitCosts, numEdits, Edit.isEdit, List.countP_cons] <;> ring

theorem scriptCost_uniform (k : Rat) (s : List (Edit α)) :
    scriptCost ⟨k, k, k⟩ s = k * scriptCost unitCosts s := by
  induction s with
  | nil => simp
  | cons e s ih =>
    rw [scriptCost_cons, scriptCost_cons, ih]
    cases e <;> simp [Edit.cost, unitCosts] <;> ring

/-- Equal non-negative costs: the distance is `k` times the unit-cost distance — the
justification of the shortcut in `_string_matching`. -/
theorem lev_uniform_scale (k : Rat) (hk : 0 ≤ k) (r h : List α) :
    lev ⟨k, k, k⟩ r h = k * lev unitCosts r h := by
  apply (lev_isLevDist ⟨k, k, k⟩ r h).unique
  obtain ⟨⟨s, a, e⟩, lb⟩ := lev_isLevDist unitCosts r h
  refine ⟨⟨s, a, by rw [scriptCost_uniform, e]⟩, ?_⟩
  intro s' a'
  rw [scriptCost_uniform]
  exact mul_le_mul_of_nonneg_left (lb s' a') hk

/-- With unit costs `lev` is a natural number: the fewest edits of any script. -/
theorem lev_unit_eq_numEdits (r h : List α) :
    ∃ s : List (Edit α), Aligns s r h ∧ lev unitCosts r h = (numEdits s : Rat)
      ∧ ∀ s', Aligns s' r h → numEdits s ≤ numEdits s' := by
  obtain ⟨⟨s, a, e⟩, lb⟩ := lev_isLevDist unitCosts r h
  refine ⟨s, a, by rw [← e, scriptCost_unit], ?_⟩
  intro s' a'
  have := lb s' a'
  rw [← e, scriptCost_unit, scriptCost_unit] at this
  exact_mod_cast this

end PdtVerif.Lev
