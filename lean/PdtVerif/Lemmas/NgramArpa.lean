import PdtVerif.Model.NgramArpa
/-!
# Lemmas for C06_arpa: reading back one printed entry line
-/
namespace PdtVerif.NgramArpa

/-- Well-formed entry of order `n` in a table of `N` orders: `n` tokens, a back-off weight
exactly when the order is not the highest. -/
structure EntryWf (N n : Nat) (e : PEntry) : Prop where
  key_len : e.key.length = n
  logb_iff : e.logb = none ↔ n = N

theorem addEntry_printEntry (implicit : Bool) (tok : String → Field) (htok : ∀ x, (tok x).s = x)
    (N n : Nat) (hnN : n ≤ N) (e : PEntry) (hwf : EntryWf N n e) (ds : List (List PEntry)) :
    ∃ p fs, printEntry implicit (n == N) tok e = .entry p fs ∧
      addEntry N n ds p fs = some (ds.modify (n - 1) (fun d => insert d e)) := by
  obtain ⟨hk, hl⟩ := hwf
  have hmap : (e.key.map tok).map (·.s) = e.key := by
    rw [List.map_map]
    conv => rhs; rw [← List.map_id e.key]
    apply List.map_congr_left
    intro x _
    simp [htok]
  cases hb : e.logb with
  | none =>
    have hN : n = N := hl.mp hb
    refine ⟨e.logp, e.key.map tok, by simp [printEntry, hb], ?_⟩
    have hne : ¬ (e.key.length = n + 1 ∧ n < N) := by omega
    simp only [addEntry, List.length_map, hne, if_false, hk, ne_eq, not_true_eq_false,
      hmap, hN]
    congr 3
    cases e; simp_all
  | some b =>
    have hN : n ≠ N := fun h => by rw [hl.mpr h] at hb; cases hb
    have hlt : n < N := by omega
    have hbeq : (n == N) = false := by simp [hN]
    by_cases himp : (implicit && b == 0) = true
    · have hb0 : b = 0 := by
        simp only [Bool.and_eq_true, beq_iff_eq] at himp; exact himp.2
      refine ⟨e.logp, e.key.map tok, by simp [printEntry, hb, hbeq, himp], ?_⟩
      have hne : ¬ (e.key.length = n + 1 ∧ n < N) := by omega
      simp only [addEntry, List.length_map, hne, if_false, hk, ne_eq, not_true_eq_false, hmap, hN,
        not_false_eq_true, if_true]
      congr 3
      cases e; simp_all
    · refine ⟨e.logp, e.key.map tok ++ [numField b], by simp [printEntry, hb, hbeq, himp], ?_⟩
      have hlen : (e.key.map tok ++ [numField b]).length = n + 1 := by simp [hk]
      simp only [addEntry, hlen, hlt, and_self, if_true, List.getLast?_append, List.getLast?_singleton,
        Option.some_or, Option.bind_some, numField, List.dropLast_concat, List.length_map, hk,
        ne_eq, not_true_eq_false, if_false, hmap, hN, not_false_eq_true]
      congr 3
      cases e; simp_all


/-! ## the whole file -/

theorem insert_fresh (d : List PEntry) (e : PEntry) (h : e.key ∉ d.map (·.key)) :
    insert d e = d ++ [e] := by
  unfold insert
  have : d.any (fun x => x.key == e.key) = false := by
    rw [List.any_eq_false]
    intro x hx hk
    simp only [beq_iff_eq] at hk
    exact h (by rw [← hk]; exact List.mem_map_of_mem hx)
  simp [this]

theorem modify_set {α} (l : List α) (i : Nat) (a : α) (f : α → α) (hi : i < l.length) :
    (l.set i a).modify i f = l.set i (f a) := by
  induction l generalizing i with
  | nil => simp at hi
  | cons x xs ih =>
    cases i with
    | zero => simp
    | succ i => simp at hi; simp [ih i hi]

theorem parse_entries (implicit : Bool) (tok : String → Field) (htok : ∀ x, (tok x).s = x)
    (cs : List Nat) (n : Nat) (hn : 1 ≤ n) (hnN : n ≤ cs.length) (rest : List Line) :
    ∀ (d acc : List PEntry) (ds : List (List PEntry)), ds.length = cs.length →
      (∀ e ∈ d, EntryWf cs.length n e) → ((acc ++ d).map (·.key)).Nodup →
      parseGo (d.map (printEntry implicit (n == cs.length) tok) ++ rest) (.sect cs (ds.set (n - 1) acc) n)
        = parseGo rest (.sect cs (ds.set (n - 1) (acc ++ d)) n) := by
  intro d
  induction d with
  | nil => intro acc ds _ _ _; simp
  | cons e d ih =>
    intro acc ds hds hwf hnd
    obtain ⟨p, fs, hpr, hadd⟩ := addEntry_printEntry implicit tok htok cs.length n hnN e
      (hwf e (by simp)) (ds.set (n - 1) acc)
    simp only [List.map_cons, List.cons_append, hpr, parseGo, hadd]
    rw [modify_set _ _ _ _ (by omega)]
    have hfresh : e.key ∉ acc.map (·.key) := by
      intro hmem
      simp only [List.map_append, List.map_cons] at hnd
      have := (List.nodup_append.mp hnd).2.2
      exact this _ hmem _ (by simp) rfl
    rw [insert_fresh _ _ hfresh]
    have := ih (acc ++ [e]) ds hds (fun x hx => hwf x (by simp [hx])) (by simpa using hnd)
    simpa using this

/-- Well-formed table: order `n` (1-based) holds entries of `n` tokens with distinct keys;
back-off weights exactly below the highest order. -/
def TableWf (t : List (List PEntry)) : Prop :=
  ∀ i d, t[i]? = some d → (∀ e ∈ d, EntryWf t.length (i + 1) e) ∧ (d.map (·.key)).Nodup

theorem parse_sections (implicit : Bool) (tok : String → Field) (htok : ∀ x, (tok x).s = x)
    (cs : List Nat) :
    ∀ (orders : List (List PEntry)) (done : List (List PEntry)) (m : Nat),
      done.length + orders.length = cs.length →
      (∀ i d, orders[i]? = some d →
        (∀ e ∈ d, EntryWf cs.length (done.length + i + 1) e) ∧ (d.map (·.key)).Nodup) →
      parseGo (printSections implicit tok cs.length (done.length + 1) orders ++ [.end_])
        (.sect cs (done ++ List.replicate orders.length []) m) = finish cs (done ++ orders) := by
  intro orders
  induction orders with
  | nil => intro done m _ _; simp [printSections, parseGo]
  | cons d rest ih =>
    intro done m hlen hwf
    have hn : done.length + 1 ≤ cs.length := by simp at hlen; omega
    obtain ⟨hwfd, hnd⟩ := hwf 0 d rfl
    simp only [printSections, List.cons_append, parseGo, Nat.succ_ne_zero, if_false,
      Nat.add_eq_zero_iff, and_false]
    rw [if_neg (by omega)]
    have hset : done ++ List.replicate (d :: rest).length [] =
        (done ++ List.replicate (d :: rest).length []).set (done.length + 1 - 1) [] := by
      simp [List.set_append, List.replicate_succ]
    rw [hset, List.append_assoc, parse_entries implicit tok htok cs (done.length + 1) (by omega) hn _ d []
      _ (by simp at hlen ⊢; omega) (by simpa using hwfd) (by simpa using hnd)]
    simp only [List.cons_append, parseGo, List.nil_append]
    have hset2 : (done ++ List.replicate (d :: rest).length []).set (done.length + 1 - 1) d =
        (done ++ [d]) ++ List.replicate rest.length [] := by
      simp [List.set_append, List.replicate_succ]
    rw [hset2]
    have := ih (done ++ [d]) (done.length + 1) (by simp at hlen ⊢; omega) (by
      intro i d' hi
      have := hwf (i + 1) d' (by simpa using hi)
      simpa [Nat.add_assoc, Nat.add_comm 1 i] using this)
    simp only [List.length_append, List.length_singleton] at this
    rw [this]
    simp

theorem parse_counts (rest : List Line) :
    ∀ (l : List (List PEntry)) (k : Nat) (cs : List Nat), cs.length = k →
      parseGo ((l.zipIdx k).map (fun (d, i) => Line.count (i + 1) d.length) ++ rest) (.counts cs) =
        parseGo rest (.counts (cs ++ l.map List.length)) := by
  intro l
  induction l with
  | nil => intro k cs _; simp
  | cons d l ih =>
    intro k cs hk
    simp only [List.zipIdx_cons, List.map_cons, List.cons_append, parseGo, Nat.succ_ne_zero, if_false]
    have hset : setCount cs (k + 1) d.length = cs ++ [d.length] := by
      unfold setCount
      have : k + 1 - cs.length = 1 := by omega
      rw [this]
      simp [List.set_append, hk]
    rw [hset, ih (k + 1) (cs ++ [d.length]) (by simp [hk])]
    simp

/-- **Round trip of the line-level reader**: printing any well-formed table and reading it
back gives the table, whatever the tokens look like (a token may read as a number), with
explicit or implicit (omitted zero) back-off weights. -/
theorem parseArpa_printArpa (implicit : Bool) (tok : String → Field) (htok : ∀ x, (tok x).s = x)
    (t : List (List PEntry)) (hwf : TableWf t) :
    parseArpa (printArpa implicit tok t) = .ok t := by
  unfold parseArpa printArpa
  simp only [List.cons_append, List.nil_append, parseGo, List.append_assoc]
  rw [parse_counts _ t 0 [] rfl]
  simp only [List.nil_append, List.cons_append, parseGo]
  cases t with
  | nil => simp [printSections, parseGo, finish]
  | cons d rest =>
    have hlenmap : ((d :: rest).map List.length).length = (d :: rest).length := by simp
    have key := parse_sections implicit tok htok ((d :: rest).map List.length) (d :: rest) [] 0
      (by simp) (by
        intro i d' hi
        have := hwf i d' hi
        simpa [hlenmap] using this)
    simp only [List.length_nil, Nat.zero_add, List.nil_append, hlenmap] at key
    -- the first header is handled identically from the `counts` state
    have hfirst : parseGo (printSections implicit tok (d :: rest).length 1 (d :: rest) ++ [.end_])
        (.counts ((d :: rest).map List.length)) =
        parseGo (printSections implicit tok (d :: rest).length 1 (d :: rest) ++ [.end_])
        (.sect ((d :: rest).map List.length) (List.replicate (d :: rest).length []) 0) := by
      simp only [printSections, List.cons_append, parseGo, hlenmap]
    rw [hfirst, key]
    simp [finish]

end PdtVerif.NgramArpa
