import PdtVerif.Lemmas.Controller
import PdtVerif.Model.ControllerText
import Mathlib.Tactic.Linarith
import Mathlib.Tactic.Ring
import Mathlib.Tactic.FieldSimp
import Mathlib.Algebra.Order.Field.Rat
import Mathlib.Data.Rat.Floor
/-!
# C15 helper lemmas: the text of the history file

* digits: `fmtNat` produces exactly `w` decimal digits for `n < 10^w`;
* `decValue (sciText sig s) = sciValue sig s`: the characters `d.dddde±XX` denote the value of the
  record, for every record with a `sig`-digit mantissa;
* `fmtSci` only produces such records (`exp10` really is the decimal exponent);
* `parseInt ∘ fmtInt = id`; the csv layer; `repr`; user entries; the whole file.
-/
namespace PdtVerif.Controller

/-! ## digits -/

/-- the characters `'0'…'9'` -/
def IsDig (c : Char) : Prop := ∃ d, d < 10 ∧ c = digitChar d

theorem digitChar_facts : ∀ d, d < 10 →
    notExpMark (digitChar d) = true ∧ notPoint (digitChar d) = true ∧ digitChar d ≠ '-' ∧
    digitChar d ≠ '+' ∧ csvSpecial (digitChar d) = false := by decide

theorem isDig_zero : IsDig '0' := ⟨0, by decide, by decide⟩

theorem digitsAux_mem : ∀ (f n : Nat) (acc : List Char) (c : Char),
    c ∈ digitsAux f n acc → c ∈ acc ∨ IsDig c := by
  intro f
  induction f with
  | zero => intro n acc c h; left; simpa [digitsAux] using h
  | succ f ih =>
    intro n acc c h
    unfold digitsAux at h
    split at h
    · rcases List.mem_cons.1 h with h | h
      · right; exact ⟨n % 10, Nat.mod_lt _ (by decide), by rw [h]; unfold digitChar; simp⟩
      · left; exact h
    · rcases ih _ _ _ h with h | h
      · rcases List.mem_cons.1 h with h | h
        · right; exact ⟨n % 10, Nat.mod_lt _ (by decide), h⟩
        · left; exact h
      · right; exact h

theorem natDigits_dig (n : Nat) : ∀ c ∈ natDigits n, IsDig c := by
  intro c h
  rcases digitsAux_mem _ _ _ _ h with h | h
  · simp at h
  · exact h

theorem fmtNat_dig (w n : Nat) : ∀ c ∈ fmtNat w n, IsDig c := by
  intro c h
  unfold fmtNat at h
  rcases List.mem_append.1 h with h | h
  · have := (List.mem_replicate.1 h).2
    rw [this]; exact isDig_zero
  · exact natDigits_dig n c h

theorem digitsAux_len : ∀ (f n k : Nat), 1 ≤ k → n < 10 ^ k → (digitsAux f n []).length ≤ k := by
  intro f
  induction f with
  | zero => intro n k _ _; simp [digitsAux]
  | succ f ih =>
    intro n k hk hn
    unfold digitsAux
    split
    · simpa using hk
    · rename_i h
      rw [digitsAux_acc]
      have hk2 : 2 ≤ k := by
        rcases Nat.lt_or_ge k 2 with h2 | h2
        · have : k = 1 := by omega
          subst this
          omega
        · exact h2
      have hn' : n / 10 < 10 ^ (k - 1) := by
        rw [Nat.div_lt_iff_lt_mul (by decide)]
        have : 10 ^ k = 10 ^ (k - 1) * 10 := by
          rw [← Nat.pow_succ]; congr 1; omega
        omega
      have := ih (n / 10) (k - 1) (by omega) hn'
      simp only [List.length_append, List.length_cons, List.length_nil]
      omega

theorem natDigits_ne_nil (n : Nat) : natDigits n ≠ [] := by
  unfold natDigits
  unfold digitsAux
  split
  · simp
  · rw [digitsAux_acc]; simp

theorem fmtNat_length {w n : Nat} (hw : 1 ≤ w) (hn : n < 10 ^ w) : (fmtNat w n).length = w := by
  unfold fmtNat
  have h1 : (natDigits n).length ≤ w := digitsAux_len _ _ _ hw hn
  simp only [List.length_append, List.length_replicate]
  omega

theorem fmtNat_ne_nil (w n : Nat) : fmtNat w n ≠ [] := by
  unfold fmtNat
  simp [natDigits_ne_nil]

theorem parseNat_fmtNat (w n : Nat) : parseNat (fmtNat w n) = some n := by
  rw [parseNat_eq]
  unfold fmtNat
  simp only [List.foldl_append, parse_zeros, parse_natDigits]

/-! ## `d.dddde±XX` denotes the value of the record -/

theorem splitSign_dig {c : Char} (hc : IsDig c) (r : List Char) :
    splitSign (c :: r) = (false, c :: r) := by
  obtain ⟨d, hd, rfl⟩ := hc
  obtain ⟨_, _, h1, h2, _⟩ := digitChar_facts d hd
  simp [splitSign, h1, h2]

theorem all_notExp {l : List Char} (h : ∀ c ∈ l, IsDig c) : ∀ c ∈ l, notExpMark c = true := by
  intro c hc
  obtain ⟨d, hd, rfl⟩ := h c hc
  exact (digitChar_facts d hd).1

theorem all_notPoint {l : List Char} (h : ∀ c ∈ l, IsDig c) : ∀ c ∈ l, notPoint c = true := by
  intro c hc
  obtain ⟨d, hd, rfl⟩ := h c hc
  exact (digitChar_facts d hd).2.1

/-- the exponent part `e±XX` -/
theorem expValue_text (e : Int) :
    expValue ('e' :: (if e < 0 then '-' else '+') :: fmtNat 2 e.natAbs) = some e := by
  unfold expValue
  simp only
  by_cases he : e < 0
  · simp only [he, if_true, splitSign]
    simp only [if_true, List.isEmpty_iff, fmtNat_ne_nil, if_false, parseNat_fmtNat]
    congr 1
    omega
  · simp only [he, if_false, splitSign]
    have : ¬ ('+' = '-') := by decide
    simp only [this, if_false, if_true, List.isEmpty_iff, fmtNat_ne_nil, parseNat_fmtNat]
    simp only [Bool.false_eq_true, if_false]
    congr 1
    omega

theorem takeWhile_stop {p : Char → Bool} {l r : List Char} {x : Char} (h : ∀ a ∈ l, p a = true)
    (hx : p x = false) : (l ++ x :: r).takeWhile p = l := by
  rw [List.takeWhile_append_of_pos h, List.takeWhile_cons_of_neg (by simp [hx])]
  simp

theorem dropWhile_stop {p : Char → Bool} {l r : List Char} {x : Char} (h : ∀ a ∈ l, p a = true)
    (hx : p x = false) : (l ++ x :: r).dropWhile p = x :: r := by
  rw [List.dropWhile_append_of_pos h, List.dropWhile_cons_of_neg (by simp [hx])]

theorem takeWhile_all {p : Char → Bool} {l : List Char} (h : ∀ a ∈ l, p a = true) :
    l.takeWhile p = l := by
  have := List.takeWhile_append_of_pos (l₂ := []) h
  simpa using this

theorem dropWhile_all {p : Char → Bool} {l : List Char} (h : ∀ a ∈ l, p a = true) :
    l.dropWhile p = [] := by
  have := List.dropWhile_append_of_pos (l₂ := []) h
  simpa using this

/-- mantissa digits `ds` (at least one), printed as `d[.ddd]`, followed by the exponent part:
the value is `mantissa · 10^(e - number of fraction digits)` -/
theorem decValue_body (ds : List Char) (hd : ∀ c ∈ ds, IsDig c) (hne : ds ≠ []) (m : Nat)
    (hm : parseNat ds = some m) (e : Int) :
    decValue (ds.take 1 ++ (if (ds.drop 1).isEmpty then [] else '.' :: ds.drop 1) ++ ['e']
      ++ [if e < 0 then '-' else '+'] ++ fmtNat 2 e.natAbs)
    = some ((m : Rat) * pow10 (e - ((ds.length : Int) - 1))) := by
  obtain ⟨c, r, rfl⟩ := List.exists_cons_of_ne_nil hne
  have hc : IsDig c := hd c (by simp)
  have hr : ∀ x ∈ r, IsDig x := fun x hx => hd x (by simp [hx])
  simp only [List.take_succ_cons, List.take_zero, List.drop_succ_cons, List.drop_zero,
    List.length_cons]
  have hE := expValue_text e
  have hee : notExpMark 'e' = false := by decide
  have hpp : notPoint '.' = false := by decide
  by_cases hr0 : r = []
  · subst hr0
    simp only [List.isEmpty_nil, if_true, List.append_nil, List.length_nil]
    have hbody : [c] ++ ['e'] ++ [if e < 0 then '-' else '+'] ++ fmtNat 2 e.natAbs
        = c :: ([] ++ 'e' :: (if e < 0 then '-' else '+') :: fmtNat 2 e.natAbs) := by simp
    rw [hbody]
    unfold decValue
    rw [splitSign_dig hc]
    simp only
    have hb2 : c :: ([] ++ 'e' :: (if e < 0 then '-' else '+') :: fmtNat 2 e.natAbs)
        = [c] ++ 'e' :: (if e < 0 then '-' else '+') :: fmtNat 2 e.natAbs := by simp
    rw [hb2, takeWhile_stop (all_notExp hd) hee, dropWhile_stop (all_notExp hd) hee, hE,
      takeWhile_all (all_notPoint hd), dropWhile_all (all_notPoint hd)]
    simp only [List.drop_nil, List.append_nil, hm, List.length_nil]
    simp
  · have hemp : (r.isEmpty) = false := by
      cases r with
      | nil => exact absurd rfl hr0
      | cons a l => rfl
    simp only [hemp, Bool.false_eq_true, if_false]
    have hbody : [c] ++ '.' :: r ++ ['e'] ++ [if e < 0 then '-' else '+'] ++ fmtNat 2 e.natAbs
        = c :: ('.' :: r ++ 'e' :: (if e < 0 then '-' else '+') :: fmtNat 2 e.natAbs) := by simp
    rw [hbody]
    unfold decValue
    rw [splitSign_dig hc]
    simp only
    have hb2 : c :: ('.' :: r ++ 'e' :: (if e < 0 then '-' else '+') :: fmtNat 2 e.natAbs)
        = (c :: '.' :: r) ++ 'e' :: (if e < 0 then '-' else '+') :: fmtNat 2 e.natAbs := by simp
    have hall : ∀ x ∈ c :: '.' :: r, notExpMark x = true := by
      intro x hx
      rcases List.mem_cons.1 hx with h | h
      · rw [h]; exact (all_notExp hd) c (by simp)
      · rcases List.mem_cons.1 h with h | h
        · rw [h]; decide
        · exact (all_notExp hr) x h
    rw [hb2, takeWhile_stop hall hee, dropWhile_stop hall hee, hE]
    have hc1 : ∀ x ∈ [c], notPoint x = true := by
      intro x hx
      have : x = c := by simpa using hx
      rw [this]; exact (all_notPoint hd) c (by simp)
    have hb3 : c :: '.' :: r = [c] ++ '.' :: r := by simp
    rw [hb3, takeWhile_stop hc1 hpp, dropWhile_stop hc1 hpp]
    simp only [List.drop_succ_cons, List.drop_zero, List.cons_append, List.nil_append, hm]
    simp

theorem decValue_neg {c : Char} (hc : IsDig c) (r : List Char) :
    decValue ('-' :: c :: r) = (decValue (c :: r)).map (fun v => -v) := by
  unfold decValue
  rw [splitSign_dig hc]
  have h : splitSign ('-' :: c :: r) = (true, c :: r) := by simp [splitSign]
  rw [h]
  simp only
  split
  · rfl
  · cases parseNat _ <;> cases expValue _ <;> simp

/-- **the text of a float column denotes the value of the record**: for every record whose
mantissa has `sig` digits (`fmtNat sig mant` has length `sig`), the value of the literal
`[-]d.dddde±XX` is `±mant · 10^(exp - (sig-1))`. -/
theorem decValue_sciText (sig : Nat) (s : Sci) (hlen : (fmtNat sig s.mant).length = sig) :
    decValue (sciText sig s) = some (sciValue sig s) := by
  have hd := fmtNat_dig sig s.mant
  have hne := fmtNat_ne_nil sig s.mant
  have hb := decValue_body (fmtNat sig s.mant) hd hne s.mant (parseNat_fmtNat _ _) s.exp
  rw [hlen] at hb
  unfold sciText sciValue
  simp only
  by_cases hn : s.neg = true
  · simp only [hn, if_true]
    obtain ⟨c, r, hcr⟩ := List.exists_cons_of_ne_nil hne
    have hc : IsDig c := hd c (by rw [hcr]; simp)
    have hshape : ['-'] ++ List.take 1 (fmtNat sig s.mant) ++
        (if (List.drop 1 (fmtNat sig s.mant)).isEmpty = true then []
          else '.' :: List.drop 1 (fmtNat sig s.mant)) ++ ['e'] ++
        [if s.exp < 0 then '-' else '+'] ++ fmtNat 2 s.exp.natAbs
        = '-' :: c :: (List.take 0 r ++
        (if (List.drop 1 (fmtNat sig s.mant)).isEmpty = true then []
          else '.' :: List.drop 1 (fmtNat sig s.mant)) ++ ['e'] ++
        [if s.exp < 0 then '-' else '+'] ++ fmtNat 2 s.exp.natAbs) := by
      rw [hcr]; simp
    have hshape2 : List.take 1 (fmtNat sig s.mant) ++
        (if (List.drop 1 (fmtNat sig s.mant)).isEmpty = true then []
          else '.' :: List.drop 1 (fmtNat sig s.mant)) ++ ['e'] ++
        [if s.exp < 0 then '-' else '+'] ++ fmtNat 2 s.exp.natAbs
        = c :: (List.take 0 r ++
        (if (List.drop 1 (fmtNat sig s.mant)).isEmpty = true then []
          else '.' :: List.drop 1 (fmtNat sig s.mant)) ++ ['e'] ++
        [if s.exp < 0 then '-' else '+'] ++ fmtNat 2 s.exp.natAbs) := by
      rw [hcr]; simp
    rw [hshape, decValue_neg hc, ← hshape2, hb]
    rfl
  · have hn' : s.neg = false := by cases h : s.neg <;> simp_all
    simp only [hn', Bool.false_eq_true, if_false, List.nil_append]
    exact hb

/-! ## `fmtSci` only produces records with a `sig`-digit mantissa -/

theorem pow10_eq_zpow (k : Int) : pow10 k = (10 : Rat) ^ k := by
  unfold pow10
  split
  · rename_i h
    obtain ⟨n, rfl⟩ := Int.eq_ofNat_of_zero_le h
    simp
  · rename_i h
    have hk : k = -((-k).toNat : Int) := by omega
    rw [hk]
    generalize (-k).toNat = n
    simp [zpow_neg]

theorem pow10_pos (k : Int) : 0 < pow10 k := by
  rw [pow10_eq_zpow]; exact zpow_pos (by norm_num) k

theorem pow10_add (a b : Int) : pow10 (a + b) = pow10 a * pow10 b := by
  simp only [pow10_eq_zpow]
  exact zpow_add₀ (by norm_num) a b

theorem pow10_natCast (n : Nat) : pow10 (n : Int) = ((10 ^ n : Nat) : Rat) := by
  rw [pow10_eq_zpow]; simp

/-- `numDigitsAux` with enough fuel counts the decimal digits -/
theorem numDigitsAux_spec : ∀ (f n : Nat), n < 2 ^ f → 0 < n →
    10 ^ (numDigitsAux f n - 1) ≤ n ∧ n < 10 ^ numDigitsAux f n := by
  intro f
  induction f with
  | zero => intro n h1 h2; simp at h1; omega
  | succ f ih =>
    intro n h1 h2
    unfold numDigitsAux
    split
    · rename_i h; simp; omega
    · rename_i h
      have hlt : n / 10 < 2 ^ f := by
        rw [Nat.pow_succ] at h1
        omega
      have hpos : 0 < n / 10 := by omega
      obtain ⟨a, b⟩ := ih (n / 10) hlt hpos
      have hd : 1 ≤ numDigitsAux f (n / 10) := by
        cases f with
        | zero => simp [numDigitsAux]
        | succ g => unfold numDigitsAux; split <;> omega
      constructor
      · have : 1 + numDigitsAux f (n / 10) - 1 = (numDigitsAux f (n / 10) - 1) + 1 := by omega
        rw [this, Nat.pow_succ]
        omega
      · rw [Nat.add_comm, Nat.pow_succ]
        omega

theorem numDigits_spec (n : Nat) (hn : 0 < n) :
    10 ^ (numDigits n - 1) ≤ n ∧ n < 10 ^ numDigits n ∧ 1 ≤ numDigits n := by
  unfold numDigits
  obtain ⟨a, b⟩ := numDigitsAux_spec (Nat.log2 n + 1) n Nat.lt_log2_self hn
  refine ⟨a, b, ?_⟩
  unfold numDigitsAux
  split <;> omega

/-- `exp10 a` is the decimal exponent of `a > 0`: `10^e ≤ a < 10^(e+1)` -/
theorem exp10_spec (a : Rat) (ha : 0 < a) : pow10 (exp10 a) ≤ a ∧ a < pow10 (exp10 a + 1) := by
  have hnum : 0 < a.num := Rat.num_pos.2 ha
  have hden : 0 < a.den := a.den_pos
  obtain ⟨n1, n2, n3⟩ := numDigits_spec a.num.natAbs (by omega)
  obtain ⟨d1, d2, d3⟩ := numDigits_spec a.den hden
  have hna : ((a.num.natAbs : Nat) : Rat) = (a.num : Rat) := by
    have : ((a.num.natAbs : Nat) : Int) = a.num := by omega
    rw [← this]; simp
  have hdenQ : (0 : Rat) < (a.den : Rat) := by exact_mod_cast hden
  have ha_eq : a = (a.num : Rat) / (a.den : Rat) := (Rat.num_div_den a).symm
  -- bounds on numerator and denominator as rationals
  have N1 : pow10 ((numDigits a.num.natAbs : Int) - 1) ≤ (a.num : Rat) := by
    have : ((numDigits a.num.natAbs : Int) - 1) = ((numDigits a.num.natAbs - 1 : Nat) : Int) := by omega
    rw [this, pow10_natCast, ← hna]
    exact_mod_cast n1
  have N2 : (a.num : Rat) < pow10 (numDigits a.num.natAbs : Int) := by
    rw [pow10_natCast, ← hna]
    exact_mod_cast n2
  have D1 : pow10 ((numDigits a.den : Int) - 1) ≤ (a.den : Rat) := by
    have : ((numDigits a.den : Int) - 1) = ((numDigits a.den - 1 : Nat) : Int) := by omega
    rw [this, pow10_natCast]
    exact_mod_cast d1
  have D2 : (a.den : Rat) < pow10 (numDigits a.den : Int) := by
    rw [pow10_natCast]
    exact_mod_cast d2
  -- a < 10^(e0 + 1) and 10^(e0 - 1) < a
  have U : a < pow10 ((numDigits a.num.natAbs : Int) - (numDigits a.den : Int) + 1) := by
    have hsplit : pow10 ((numDigits a.num.natAbs : Int) - (numDigits a.den : Int) + 1)
        * pow10 ((numDigits a.den : Int) - 1) = pow10 (numDigits a.num.natAbs : Int) := by
      rw [← pow10_add]; congr 1; omega
    have hp := pow10_pos ((numDigits a.num.natAbs : Int) - (numDigits a.den : Int) + 1)
    have hgoal : (a.num : Rat) / (a.den : Rat)
        < pow10 ((numDigits a.num.natAbs : Int) - (numDigits a.den : Int) + 1) := by
      rw [div_lt_iff₀ hdenQ]
      calc (a.num : Rat) < pow10 (numDigits a.num.natAbs : Int) := N2
        _ = pow10 ((numDigits a.num.natAbs : Int) - (numDigits a.den : Int) + 1)
              * pow10 ((numDigits a.den : Int) - 1) := hsplit.symm
        _ ≤ pow10 ((numDigits a.num.natAbs : Int) - (numDigits a.den : Int) + 1) * (a.den : Rat) :=
              mul_le_mul_of_nonneg_left D1 (le_of_lt hp)
    calc a = (a.num : Rat) / (a.den : Rat) := ha_eq
      _ < _ := hgoal
  have Lo : pow10 ((numDigits a.num.natAbs : Int) - (numDigits a.den : Int) - 1) ≤ a := by
    have hsplit : pow10 ((numDigits a.num.natAbs : Int) - (numDigits a.den : Int) - 1)
        * pow10 (numDigits a.den : Int) = pow10 ((numDigits a.num.natAbs : Int) - 1) := by
      rw [← pow10_add]; congr 1; omega
    have hp := pow10_pos ((numDigits a.num.natAbs : Int) - (numDigits a.den : Int) - 1)
    have hgoal : pow10 ((numDigits a.num.natAbs : Int) - (numDigits a.den : Int) - 1)
        ≤ (a.num : Rat) / (a.den : Rat) := by
      rw [le_div_iff₀ hdenQ]
      calc pow10 ((numDigits a.num.natAbs : Int) - (numDigits a.den : Int) - 1) * (a.den : Rat)
          ≤ pow10 ((numDigits a.num.natAbs : Int) - (numDigits a.den : Int) - 1)
              * pow10 (numDigits a.den : Int) := mul_le_mul_of_nonneg_left (le_of_lt D2) (le_of_lt hp)
        _ = pow10 ((numDigits a.num.natAbs : Int) - 1) := hsplit
        _ ≤ (a.num : Rat) := N1
    calc _ ≤ (a.num : Rat) / (a.den : Rat) := hgoal
      _ = a := ha_eq.symm
  unfold exp10
  simp only
  split
  · rename_i h
    exact ⟨h, U⟩
  · rename_i h
    refine ⟨Lo, ?_⟩
    have : (numDigits a.num.natAbs : Int) - (numDigits a.den : Int) - 1 + 1
        = (numDigits a.num.natAbs : Int) - (numDigits a.den : Int) := by omega
    rw [this]
    exact lt_of_not_ge h

theorem ratAbs_pos {x : Rat} (hx : x ≠ 0) : 0 < ratAbs x := by
  unfold ratAbs
  split
  · rename_i h; linarith
  · rename_i h
    rcases lt_or_gt_of_ne hx with h' | h'
    · exact absurd h' h
    · exact h'

/-- rounding a non-negative number below the natural `N` gives at most `N` -/
theorem roundHalfEven_le {q : Rat} {N : Nat} (h0 : 0 ≤ q) (h : q < (N : Rat)) :
    roundHalfEven q ≤ N := by
  have hf : q.floor < (N : Int) := Rat.floor_lt_iff.2 (by exact_mod_cast h)
  have hf0 : 0 ≤ q.floor := Rat.le_floor_iff.2 (by exact_mod_cast h0)
  unfold roundHalfEven
  simp only
  split
  · omega
  · split
    · omega
    · split <;> omega

/-- **`fmtSci` is well formed**: the mantissa of `"{:.{sig-1}e}".format(x)` has at most `sig`
digits, for every `x` and every `sig ≥ 1`. -/
theorem fmtSci_mant_lt (sig : Nat) (hsig : 1 ≤ sig) (x : Rat) : (fmtSci sig x).mant < 10 ^ sig := by
  unfold fmtSci
  split
  · exact Nat.pow_pos (by decide)
  · rename_i hx
    simp only
    split
    · exact Nat.pow_lt_pow_right (by decide) (by omega)
    · rename_i hm
      have ha := ratAbs_pos hx
      obtain ⟨_, hu⟩ := exp10_spec _ ha
      have hp := pow10_pos (exp10 (ratAbs x) - ((sig : Int) - 1))
      have hq0 : 0 ≤ ratAbs x / pow10 (exp10 (ratAbs x) - ((sig : Int) - 1)) :=
        le_of_lt (div_pos ha hp)
      have hq : ratAbs x / pow10 (exp10 (ratAbs x) - ((sig : Int) - 1)) < ((10 ^ sig : Nat) : Rat) := by
        rw [div_lt_iff₀ hp, ← pow10_natCast, ← pow10_add]
        have : (sig : Int) + (exp10 (ratAbs x) - ((sig : Int) - 1)) = exp10 (ratAbs x) + 1 := by omega
        rw [this]; exact hu
      have := roundHalfEven_le hq0 hq
      show roundHalfEven _ < 10 ^ sig
      omega

/-- **float columns, text level** (`sig ≥ 1`, every `x`): reading the characters that
`"{:.{sig-1}e}".format(x)` writes gives exactly the value of the printed record. -/
theorem decValue_fmtFloat (sig : Nat) (hsig : 1 ≤ sig) (x : Rat) :
    decValue (fmtFloat sig x) = some (sciValue sig (fmtSci sig x)) :=
  decValue_sciText sig _ (fmtNat_length hsig (fmtSci_mant_lt sig hsig x))

/-! ## `int(...)` of a printed integer -/

theorem parseInt_fmtInt (w : Nat) (n : Int) : parseInt (fmtInt w n) = some n := by
  unfold parseInt fmtInt
  by_cases hn : n < 0
  · simp only [hn, if_true, splitSign]
    simp only [if_true, List.isEmpty_iff, fmtNat_ne_nil, if_false, parseNat_fmtNat]
    congr 1
    omega
  · simp only [hn, if_false]
    obtain ⟨c, r, hcr⟩ := List.exists_cons_of_ne_nil (fmtNat_ne_nil w n.toNat)
    have hc : IsDig c := fmtNat_dig w n.toNat c (by rw [hcr]; simp)
    rw [hcr, splitSign_dig hc, ← hcr]
    simp only [List.isEmpty_iff, fmtNat_ne_nil, if_false, parseNat_fmtNat]
    simp only [Bool.false_eq_true, if_false]
    congr 1
    omega

/-! ## the csv layer: `reader (writer rows) = rows` -/

/-- feed characters to the reader's state machine -/
def feed (a : CsvAcc) (cs : List Char) : CsvAcc := cs.foldl csvStep a

theorem feed_append (a : CsvAcc) (x y : List Char) : feed a (x ++ y) = feed (feed a x) y := by
  unfold feed; rw [List.foldl_append]

theorem feed_cons (a : CsvAcc) (c : Char) (y : List Char) : feed a (c :: y) = feed (csvStep a c) y := rfl

theorem feed_nil (a : CsvAcc) : feed a [] = a := rfl

theorem special_facts {c : Char} (h : csvSpecial c = false) :
    isEol c = false ∧ (c == '"') = false ∧ (c == ',') = false := by
  unfold csvSpecial at h
  simp only [Bool.or_eq_false_iff] at h
  unfold isEol
  simp only [Bool.or_eq_false_iff]
  exact ⟨⟨h.2, h.1.2⟩, h.1.1.2, h.1.1.1⟩

/-- unquoted characters inside a field -/
theorem feed_plain : ∀ (f : List Char), (∀ c ∈ f, csvSpecial c = false) → ∀ (a : CsvAcc),
    a.st = .inField → feed a f = { a with field := a.field ++ f } := by
  intro f
  induction f with
  | nil => intro _ a _; simp [feed_nil]
  | cons c f ih =>
    intro h a ha
    obtain ⟨h1, h2, h3⟩ := special_facts (h c (by simp))
    rw [feed_cons]
    have hstep : csvStep a c = { a with field := a.field ++ [c] } := by
      unfold csvStep; rw [ha]; simp only [h1, h3, Bool.false_eq_true, if_false]
    rw [hstep, ih (fun x hx => h x (by simp [hx])) { a with field := a.field ++ [c] } ha]
    simp

def escQ (f : List Char) : List Char := f.flatMap (fun c => if c == '"' then ['"', '"'] else [c])

/-- the body of a quoted field: every character except the quote is data, line ends included -/
theorem feed_quoted : ∀ (f : List Char) (a : CsvAcc), a.st = .inQuoted →
    feed a (escQ f) = { a with field := a.field ++ f } := by
  intro f
  induction f with
  | nil => intro a _; simp [escQ, feed_nil]
  | cons c f ih =>
    intro a ha
    have hesc : escQ (c :: f) = (if c == '"' then ['"', '"'] else [c]) ++ escQ f := by
      simp [escQ]
    rw [hesc]
    by_cases hc : (c == '"') = true
    · have hceq : c = '"' := by simpa using hc
      simp only [hc, if_true, List.cons_append, List.nil_append, feed_cons]
      have h1 : csvStep a '"' = { a with st := .quoteInQuoted } := by
        unfold csvStep; rw [ha]; simp
      have h2 : csvStep { a with st := .quoteInQuoted } '"'
          = { a with st := .inQuoted, field := a.field ++ ['"'] } := by
        unfold csvStep; simp
      rw [h1, h2, ih _ rfl, hceq]
      simp [ha]
    · have hc' : (c == '"') = false := by cases h : (c == '"') <;> simp_all
      simp only [hc', Bool.false_eq_true, if_false, List.cons_append, List.nil_append, feed_cons]
      have h1 : csvStep a c = { a with field := a.field ++ [c] } := by
        unfold csvStep; rw [ha]; simp only [hc', Bool.false_eq_true, if_false]
      rw [h1, ih { a with field := a.field ++ [c] } ha]
      simp

/-- where a field may start -/
def AtStart (a : CsvAcc) : Prop :=
  a.field = [] ∧ (a.st = .startField ∨ (a.st = .startRecord ∧ a.fields = []))

theorem step_open_quote {a : CsvAcc} (ha : AtStart a) : csvStep a '"' = { a with st := .inQuoted } := by
  obtain ⟨_, hst⟩ := ha
  unfold csvStep
  rcases hst with h | ⟨h, _⟩ <;> rw [h] <;> simp [csvStart, isEol]

theorem step_first_plain {a : CsvAcc} (ha : AtStart a) {c : Char} (hc : csvSpecial c = false) :
    csvStep a c = { a with st := .inField, field := [c] } := by
  obtain ⟨_, hst⟩ := ha
  obtain ⟨h1, h2, h3⟩ := special_facts hc
  unfold csvStep
  rcases hst with h | ⟨h, _⟩ <;> rw [h] <;>
    simp only [csvStart, h1, h2, h3, Bool.false_eq_true, if_false]

/-- a field followed by a comma -/
theorem feed_field_comma (f : List Char) (a : CsvAcc) (ha : AtStart a) :
    feed a (csvField f ++ [',']) = { a with st := .startField, field := [], fields := a.fields ++ [f] } := by
  have ha0 := ha
  obtain ⟨hf0, hst⟩ := ha
  unfold csvField
  by_cases hq : f.any csvSpecial = true
  · simp only [hq, if_true]
    have hshape : '"' :: (f.flatMap fun c => if (c == '"') = true then ['"', '"'] else [c]) ++ ['"'] ++ [',']
        = '"' :: (escQ f ++ ['"', ',']) := by simp [escQ]
    rw [hshape, feed_cons, step_open_quote ha0, feed_append, feed_quoted f _ rfl]
    simp only [feed_cons, feed_nil]
    unfold csvStep
    simp [hf0, isEol]
  · have hq' : f.any csvSpecial = false := by cases h : f.any csvSpecial <;> simp_all
    simp only [hq', Bool.false_eq_true, if_false]
    have hpl : ∀ c ∈ f, csvSpecial c = false := by
      intro c hc
      have := List.any_eq_false.1 hq' c hc
      simpa using this
    cases f with
    | nil =>
      simp only [List.nil_append, feed_cons, feed_nil]
      unfold csvStep
      rcases hst with h | ⟨h, _⟩ <;> rw [h] <;> simp [hf0, csvStart, isEol]
    | cons c f =>
      simp only [List.cons_append, feed_cons]
      rw [step_first_plain ha0 (hpl c (by simp)), feed_append,
        feed_plain f (fun x hx => hpl x (by simp [hx])) _ rfl]
      simp only [feed_cons, feed_nil]
      unfold csvStep
      simp [isEol]

/-- the record a line end completes -/
def closeRec (a : CsvAcc) (f : List Char) : CsvAcc :=
  { st := .startRecord, field := [], fields := [], recs := a.recs ++ [a.fields ++ [f]] }

/-- a field followed by the line terminator `\r\n` (an empty unquoted field directly at the start
of a record is an empty *line*, not a field: `csvRecord` writes that record as `""`) -/
theorem feed_field_eol (f : List Char) (a : CsvAcc) (ha : AtStart a)
    (hne : a.st = .startRecord → f ≠ []) :
    feed a (csvField f ++ ['\r', '\n']) = closeRec a f := by
  have ha0 := ha
  obtain ⟨hf0, hst⟩ := ha
  unfold csvField closeRec
  by_cases hq : f.any csvSpecial = true
  · simp only [hq, if_true]
    have hshape : '"' :: (f.flatMap fun c => if (c == '"') = true then ['"', '"'] else [c]) ++ ['"']
          ++ ['\r', '\n']
        = '"' :: (escQ f ++ ['"', '\r', '\n']) := by simp [escQ]
    rw [hshape, feed_cons, step_open_quote ha0, feed_append, feed_quoted f _ rfl]
    simp only [feed_cons, feed_nil]
    unfold csvStep
    simp [hf0, isEol, eolState]
  · have hq' : f.any csvSpecial = false := by cases h : f.any csvSpecial <;> simp_all
    simp only [hq', Bool.false_eq_true, if_false]
    have hpl : ∀ c ∈ f, csvSpecial c = false := by
      intro c hc
      have := List.any_eq_false.1 hq' c hc
      simpa using this
    cases f with
    | nil =>
      simp only [List.nil_append, feed_cons, feed_nil]
      rcases hst with h | ⟨h, _⟩
      · unfold csvStep; rw [h]; simp [isEol, eolState]
      · exact absurd rfl (hne h)
    | cons c f =>
      simp only [List.cons_append, feed_cons]
      rw [step_first_plain ha0 (hpl c (by simp)), feed_append,
        feed_plain f (fun x hx => hpl x (by simp [hx])) _ rfl]
      simp only [feed_cons, feed_nil]
      unfold csvStep
      simp [isEol, eolState]

/-- a whole record with its terminator -/
theorem feed_join : ∀ (fs : List (List Char)), fs ≠ [] → ∀ (a : CsvAcc), AtStart a →
    (a.st = .startRecord → fs ≠ [[]]) →
    feed a (csvJoin fs ++ ['\r', '\n'])
      = { st := .startRecord, field := [], fields := [], recs := a.recs ++ [a.fields ++ fs] } := by
  intro fs
  induction fs with
  | nil => intro h; exact absurd rfl h
  | cons f fs ih =>
    intro _ a ha hne
    cases fs with
    | nil =>
      simp only [csvJoin]
      rw [feed_field_eol f a ha (fun h => by
        intro hf; subst hf; exact hne h rfl)]
      rfl
    | cons g fs =>
      have hj : csvJoin (f :: g :: fs) ++ ['\r', '\n']
          = (csvField f ++ [',']) ++ (csvJoin (g :: fs) ++ ['\r', '\n']) := by
        simp [csvJoin]
      rw [hj, feed_append, feed_field_comma f a ha]
      have hat : AtStart { a with st := .startField, field := [], fields := a.fields ++ [f] } :=
        ⟨rfl, Or.inl rfl⟩
      rw [ih (by simp) _ hat (fun h => by simp at h)]
      simp

theorem feed_record (fs : List (List Char)) (a : CsvAcc) (hs : a.st = .startRecord)
    (hf : a.field = []) (hfs : a.fields = []) :
    feed a (csvRecord fs) = { a with recs := a.recs ++ [fs] } := by
  unfold csvRecord
  by_cases h1 : fs = [[]]
  · subst h1
    simp only [if_true, List.cons_append, List.nil_append, feed_cons, feed_nil]
    unfold csvStep
    simp [hs, hf, hfs, csvStart, isEol, eolState]
  · simp only [h1, if_false]
    by_cases h0 : fs = []
    · subst h0
      simp only [csvJoin, List.nil_append, feed_cons, feed_nil]
      unfold csvStep
      simp [hs, csvStart, isEol, eolState]
    · rw [feed_join fs h0 a ⟨hf, Or.inr ⟨hs, hfs⟩⟩ (fun _ => h1)]
      cases a; simp_all

theorem feed_records : ∀ (recs : List (List (List Char))) (a : CsvAcc), a.st = .startRecord →
    a.field = [] → a.fields = [] →
    feed a (recs.flatMap csvRecord) = { a with recs := a.recs ++ recs } := by
  intro recs
  induction recs with
  | nil => intro a _ _ _; simp [feed_nil]
  | cons fs recs ih =>
    intro a hs hf hfs
    simp only [List.flatMap_cons]
    rw [feed_append, feed_record fs a hs hf hfs, ih { a with recs := a.recs ++ [fs] } hs hf hfs]
    simp

/-- **csv layer**: what `csv.reader` reads (file opened with `newline=""`) is what `csv.writer`
was given — for all records and all fields: commas, double quotes, carriage returns and line feeds
inside fields included. -/
theorem csvRead_csvWrite (recs : List (List (List Char))) :
    csvRead (recs.flatMap csvRecord) = recs := by
  unfold csvRead
  have := feed_records recs {} rfl rfl rfl
  unfold feed at this
  rw [this]
  simp

/-! ## user entries: one value through `fmt.format` and `typ(...)` -/

/-- whatever comes back from the file has the declared type -/
theorem rtEntry_typ {rnd : Rat → Rat} {d : EntryDecl} {v v' : EVal} (h : rtEntry rnd d v = some v') :
    v'.typ = d.typ := by
  unfold rtEntry at h
  cases hf : fmtEntry rnd d.fmt v with
  | none => simp [hf] at h
  | some t =>
    simp only [hf] at h
    cases hd : d.typ with
    | int =>
      simp only [hd, parseEntry, Option.map_eq_some_iff] at h
      obtain ⟨n, _, rfl⟩ := h
      rfl
    | flt =>
      simp only [hd, parseEntry, Option.map_eq_some_iff] at h
      obtain ⟨n, _, rfl⟩ := h
      rfl
    | str =>
      simp only [hd, parseEntry, Option.some.injEq] at h
      rw [← h]; rfl

/-- integer entries with `"{}"`, `"{:d}"`, `"{:0wd}"`, `"{!r}"` come back unchanged (every integer) -/
theorem rtEntry_int (rnd : Rat → Rat) (name : List Char) (f : EFmt) (n : Int)
    (hf : f = .plain ∨ (∃ w, f = .dec w) ∨ f = .r) :
    rtEntry rnd ⟨name, .int, f⟩ (.int n) = some (.int n) := by
  unfold rtEntry
  rcases hf with rfl | ⟨w, rfl⟩ | rfl <;> simp [fmtEntry, parseEntry, parseInt_fmtInt]

/-- string entries with `"{}"`, `"{:s}"` come back unchanged at this level (the csv layer is
`csvRead_csvWrite`) -/
theorem rtEntry_str (rnd : Rat → Rat) (name : List Char) (f : EFmt) (t : List Char)
    (hf : f = .plain ∨ f = .s) :
    rtEntry rnd ⟨name, .str, f⟩ (.str t) = some (.str t) := by
  unfold rtEntry
  rcases hf with rfl | rfl <;> simp [fmtEntry, parseEntry]

/-- float entries with `"{:.{sig-1}e}"` come back rounded to `sig` significant digits -/
theorem rtEntry_sci (rnd : Rat → Rat) (name : List Char) (sig : Nat) (hsig : 1 ≤ sig) (x : Rat) :
    rtEntry rnd ⟨name, .flt, .sci sig⟩ (.flt x) = some (.flt (rnd (sciValue sig (fmtSci sig x)))) := by
  unfold rtEntry
  simp [fmtEntry, parseEntry, decValue_fmtFloat sig hsig x]

/-! ## the whole file: `update_cache ∘ save_info_to_hist*` at the level of characters -/

theorem optAll_map_some {α β γ : Type} (f : α → Option β) (g : β → Option γ) (h : α → Option γ) :
    ∀ (xs : List α) (ys : List β), optAll (xs.map f) = some ys →
      (∀ x ∈ xs, ∀ y, f x = some y → g y = h x) →
      optAll (ys.map g) = optAll (xs.map h) := by
  intro xs
  induction xs with
  | nil =>
    intro ys h1 _
    simp only [List.map_nil, optAll, Option.some.injEq] at h1
    subst h1; rfl
  | cons x xs ih =>
    intro ys h1 h2
    simp only [List.map_cons] at h1
    cases hfx : f x with
    | none => rw [hfx] at h1; simp [optAll] at h1
    | some y =>
      rw [hfx] at h1
      simp only [optAll, Option.map_eq_some_iff] at h1
      obtain ⟨ys', hys', rfl⟩ := h1
      have hg := h2 x (by simp) y hfx
      have := ih ys' hys' (fun x' hx' => h2 x' (by simp [hx']))
      simp only [List.map_cons, optAll, hg]
      cases h x <;> simp [optAll, this]

theorem optAll_length {α : Type} : ∀ (xs : List (Option α)) (ys : List α), optAll xs = some ys →
    ys.length = xs.length := by
  intro xs
  induction xs with
  | nil => intro ys h; simp only [optAll, Option.some.injEq] at h; subst h; rfl
  | cons x xs ih =>
    intro ys h
    cases x with
    | none => simp [optAll] at h
    | some a =>
      simp only [optAll, Option.map_eq_some_iff] at h
      obtain ⟨ys', hys', rfl⟩ := h
      simp [ih ys' hys']

theorem optAll_mem {α : Type} : ∀ (xs : List (Option α)) (ys : List α), optAll xs = some ys →
    ∀ y ∈ ys, some y ∈ xs := by
  intro xs
  induction xs with
  | nil => intro ys h y hy; simp only [optAll, Option.some.injEq] at h; subst h; simp at hy
  | cons x xs ih =>
    intro ys h y hy
    cases x with
    | none => simp [optAll] at h
    | some a =>
      simp only [optAll, Option.map_eq_some_iff] at h
      obtain ⟨ys', hys', rfl⟩ := h
      rcases List.mem_cons.1 hy with h1 | h1
      · simp [h1]
      · have := ih ys' hys' y h1
        simp [this]

/-! ### `DictReader` lookups -/

theorem findIdx_at (n : List Char) : ∀ (pre rest : List (List Char)),
    (∀ h ∈ pre, (h == n) = false) →
    (pre ++ n :: rest).findIdx? (fun h => h == n) = some pre.length := by
  intro pre
  induction pre with
  | nil => intro rest _; simp [List.findIdx?_cons]
  | cons a pre ih =>
    intro rest h
    have ha : (a == n) = false := h a (by simp)
    simp only [List.cons_append, List.findIdx?_cons, ha, Bool.false_eq_true, if_false,
      ih rest (fun x hx => h x (by simp [hx])), Option.map_some, List.length_cons]

theorem column_at (n : List Char) (pre rest pf rf : List (List Char)) (t : List Char)
    (hpre : ∀ h ∈ pre, (h == n) = false) (hlen : pf.length = pre.length) :
    column (pre ++ n :: rest) (pf ++ t :: rf) n = some t := by
  unfold column
  rw [findIdx_at n pre rest hpre]
  simp [← hlen]

/-- the control columns of a written line -/
theorem column_ctl (names : List (List Char)) (a0 a1 a2 a3 a4 a5 a6 a7 : List Char)
    (ts : List (List Char)) :
    let header := headerC ++ names
    let line := [a0, a1, a2, a3, a4, a5, a6, a7] ++ ts
    column header line nEpoch = some a0 ∧ column header line nEsResume = some a1 ∧
    column header line nEsCd = some a2 ∧ column header line nRlrResume = some a3 ∧
    column header line nRlrCd = some a4 ∧ column header line nLr = some a5 ∧
    column header line nTrain = some a6 ∧ column header line nVal = some a7 := by
  simp only
  refine ⟨?_, ?_, ?_, ?_, ?_, ?_, ?_, ?_⟩
  · exact column_at nEpoch [] ([nEsResume, nEsCd, nRlrResume, nRlrCd, nLr, nTrain, nVal] ++ names)
      [] ([a1, a2, a3, a4, a5, a6, a7] ++ ts) a0 (by decide) rfl
  · exact column_at nEsResume [nEpoch] ([nEsCd, nRlrResume, nRlrCd, nLr, nTrain, nVal] ++ names)
      [a0] ([a2, a3, a4, a5, a6, a7] ++ ts) a1 (by decide) rfl
  · exact column_at nEsCd [nEpoch, nEsResume] ([nRlrResume, nRlrCd, nLr, nTrain, nVal] ++ names)
      [a0, a1] ([a3, a4, a5, a6, a7] ++ ts) a2 (by decide) rfl
  · exact column_at nRlrResume [nEpoch, nEsResume, nEsCd] ([nRlrCd, nLr, nTrain, nVal] ++ names)
      [a0, a1, a2] ([a4, a5, a6, a7] ++ ts) a3 (by decide) rfl
  · exact column_at nRlrCd [nEpoch, nEsResume, nEsCd, nRlrResume] ([nLr, nTrain, nVal] ++ names)
      [a0, a1, a2, a3] ([a5, a6, a7] ++ ts) a4 (by decide) rfl
  · exact column_at nLr [nEpoch, nEsResume, nEsCd, nRlrResume, nRlrCd] ([nTrain, nVal] ++ names)
      [a0, a1, a2, a3, a4] ([a6, a7] ++ ts) a5 (by decide) rfl
  · exact column_at nTrain [nEpoch, nEsResume, nEsCd, nRlrResume, nRlrCd, nLr] ([nVal] ++ names)
      [a0, a1, a2, a3, a4, a5] ([a7] ++ ts) a6 (by decide) rfl
  · exact column_at nVal [nEpoch, nEsResume, nEsCd, nRlrResume, nRlrCd, nLr, nTrain] names
      [a0, a1, a2, a3, a4, a5, a6] ts a7 (by decide) rfl

/-- the user columns of a written line: looked up by name, converted with the declared type -/
theorem readUsers_at (rnd : Rat → Rat) : ∀ (decls : List EntryDecl) (ts pre pf : List (List Char)),
    decls.length = ts.length → pf.length = pre.length →
    (∀ d ∈ decls, ∀ h ∈ pre, (h == d.name) = false) →
    (decls.map (·.name)).Nodup →
    decls.map (fun d => (column (pre ++ decls.map (·.name)) (pf ++ ts) d.name).bind
        (parseEntry rnd d.typ))
      = (decls.zip ts).map (fun dt => parseEntry rnd dt.1.typ dt.2) := by
  intro decls
  induction decls with
  | nil => intro ts pre pf _ _ _ _; simp
  | cons d ds ih =>
    intro ts pre pf hl hp hpre hnd
    cases ts with
    | nil => simp at hl
    | cons t ts =>
      simp only [List.map_cons, List.zip_cons_cons]
      have hc : column (pre ++ d.name :: ds.map (·.name)) (pf ++ t :: ts) d.name = some t :=
        column_at d.name pre _ pf ts t (hpre d (by simp)) hp
      rw [hc]
      simp only [Option.bind_some, List.cons.injEq, true_and]
      have hnd' := List.nodup_cons.1 hnd
      have hshape1 : pre ++ d.name :: ds.map (·.name) = (pre ++ [d.name]) ++ ds.map (·.name) := by simp
      have hshape2 : pf ++ t :: ts = (pf ++ [t]) ++ ts := by simp
      rw [hshape1, hshape2]
      apply ih ts (pre ++ [d.name]) (pf ++ [t]) (by simpa using hl) (by simp [hp]) ?_ hnd'.2
      intro d' hd' h hh
      rcases List.mem_append.1 hh with h1 | h1
      · exact hpre d' (by simp [hd']) h h1
      · have : h = d.name := by simpa using h1
        rw [this]
        have hne : d.name ≠ d'.name := by
          intro he
          exact hnd'.1 (List.mem_map.2 ⟨d', hd', he.symm⟩)
        simpa using hne

theorem rt_users_chain (rnd : Rat → Rat) : ∀ (decls : List EntryDecl) (us : List EVal)
    (ts : List (List Char)),
    optAll ((decls.zip us).map (fun dv => fmtEntry rnd dv.1.fmt dv.2)) = some ts →
    decls.length = us.length →
    optAll ((decls.zip ts).map (fun dt => parseEntry rnd dt.1.typ dt.2))
      = optAll ((decls.zip us).map (fun dv => rtEntry rnd dv.1 dv.2)) := by
  intro decls
  induction decls with
  | nil => intro us ts h _; simp [optAll]
  | cons d ds ih =>
    intro us ts h hl
    cases us with
    | nil => simp at hl
    | cons u us =>
      simp only [List.zip_cons_cons, List.map_cons] at h ⊢
      cases hf : fmtEntry rnd d.fmt u with
      | none => rw [hf] at h; simp [optAll] at h
      | some t =>
        rw [hf] at h
        simp only [optAll, Option.map_eq_some_iff] at h
        obtain ⟨ts', hts', rfl⟩ := h
        have := ih us ts' hts' (by simpa using hl)
        have hrt : rtEntry rnd d u = parseEntry rnd d.typ t := by simp only [rtEntry, hf]
        simp only [List.zip_cons_cons, List.map_cons, hrt]
        cases parseEntry rnd d.typ t <;> simp [optAll, this]

theorem parseInt_fmtNat (w n : Nat) : parseInt (fmtNat w n) = some (n : Int) := by
  have h := parseInt_fmtInt w (n : Int)
  unfold fmtInt at h
  have h0 : ¬ ((n : Int) < 0) := by omega
  simpa [h0] using h

theorem parseFloat_fmtOptRat (P : Params) (hsig : 1 ≤ P.sig) (x : Rat) :
    parseFloat P (fmtOptRat P.sig (some x)) = some (rt P x) := by
  unfold parseFloat fmtOptRat
  have := decValue_fmtFloat P.sig hsig x
  unfold fmtFloat at this
  simp only [this, Option.map_some]
  rfl

/-- what a file is expected to satisfy: the declared names are distinct and not reserved
(`add_entry` refuses reserved names; `user_entry_types` is a dict), every written row has its three
float columns (every row but the dummy epoch 0, which is never written) -/
structure FileWF (P : Params) (decls : List EntryDecl) (rows : List RowE) : Prop where
  sig : 1 ≤ P.sig
  nodup : (decls.map (·.name)).Nodup
  fresh : ∀ d ∈ decls, ∀ h ∈ headerC, (h == d.name) = false
  mets : ∀ r ∈ rows, ∃ a b c, r.row.lr = some a ∧ r.row.train = some b ∧ r.row.val = some c

/-- one written line, read back through `DictReader` and the conversions of `update_cache`, is
the record-level re-read `rtRow` / `rtEntry` of the row -/
theorem readRow_written (P : Params) (decls : List EntryDecl) (r : RowE) (line : List (List Char))
    (hsig : 1 ≤ P.sig) (hnd : (decls.map (·.name)).Nodup)
    (hfresh : ∀ d ∈ decls, ∀ h ∈ headerC, (h == d.name) = false)
    (hm : ∃ a b c, r.row.lr = some a ∧ r.row.train = some b ∧ r.row.val = some c)
    (hline : rowFieldsE P decls r = some line) :
    readRow P decls (headerFields decls) line = rtRowE P decls r := by
  obtain ⟨xa, xb, xc, ha, hb, hc⟩ := hm
  unfold rowFieldsE at hline
  simp only [Option.map_eq_some_iff] at hline
  obtain ⟨ts, hts, rfl⟩ := hline
  have hts0 := hts
  unfold fmtUsers at hts
  split at hts
  · rename_i hl
    have htl : ts.length = decls.length := by
      have := optAll_length _ _ hts
      simpa [List.length_zip, hl] using this
    -- the user columns
    have hU : readUsers P.rnd decls (headerFields decls) (rowFieldsC P r.row ++ ts)
        = rtUsers P.rnd decls r.user := by
      unfold readUsers rtUsers headerFields
      rw [readUsers_at P.rnd decls ts headerC (rowFieldsC P r.row) htl.symm rfl hfresh hnd,
        rt_users_chain P.rnd decls r.user ts hts hl]
      simp [hl]
    -- the controller's columns
    have hC := column_ctl (decls.map (·.name)) (fmtNat (widths P).epoch r.row.epoch)
      (fmtInt (widths P).esResume r.row.esResume) (fmtInt (widths P).esCd r.row.esCd)
      (fmtInt (widths P).rlrResume r.row.rlrResume) (fmtInt (widths P).rlrCd r.row.rlrCd)
      (fmtOptRat P.sig r.row.lr) (fmtOptRat P.sig r.row.train) (fmtOptRat P.sig r.row.val) ts
    simp only at hC
    obtain ⟨c0, c1, c2, c3, c4, c5, c6, c7⟩ := hC
    have hrow : rowFieldsC P r.row = [fmtNat (widths P).epoch r.row.epoch,
        fmtInt (widths P).esResume r.row.esResume, fmtInt (widths P).esCd r.row.esCd,
        fmtInt (widths P).rlrResume r.row.rlrResume, fmtInt (widths P).rlrCd r.row.rlrCd,
        fmtOptRat P.sig r.row.lr, fmtOptRat P.sig r.row.train, fmtOptRat P.sig r.row.val] := rfl
    unfold readRow
    simp only
    rw [hU]
    rw [hrow]
    unfold headerFields
    rw [c0, c1, c2, c3, c4, c5, c6, c7]
    simp only [Option.bind_some, parseInt_fmtNat, parseInt_fmtInt, ha, hb, hc,
      parseFloat_fmtOptRat P hsig]
    unfold rtRowE
    cases hru : rtUsers P.rnd decls r.user with
    | none => simp
    | some us' =>
      have h0 : (0 : Int) ≤ (r.row.epoch : Int) := by omega
      simp only [h0, if_true, Option.map_some, Option.some.injEq]
      unfold rtRow
      cases hr : r.row
      simp_all
  · cases hts

/-- **the file-level re-read is the record-level re-read**: writing rows one by one with
`save_info_to_hist` (format strings, `csv.writer`) and reading the file back with `update_cache`
(`csv.DictReader`, `int`/`float`/declared type) yields, row by row, `rtRow` on the
controller's columns and `rtEntry` on every user entry; it raises (`none`) exactly when one of the
user-entry conversions raises. -/
theorem readHist_fileText (P : Params) (decls : List EntryDecl) (rows : List RowE)
    (hwf : FileWF P decls rows) (text : List Char) (ht : fileText P decls rows = some text) :
    readHist P decls text = optAll (rows.map (rtRowE P decls)) := by
  unfold fileText at ht
  simp only [Option.map_eq_some_iff] at ht
  obtain ⟨lines, hlines, rfl⟩ := ht
  -- the csv layer
  have hread : csvRead (csvRecord (headerFields decls) ++ lines.flatMap csvRecord)
      = headerFields decls :: lines := by
    have := csvRead_csvWrite (headerFields decls :: lines)
    simpa using this
  unfold readHist
  rw [hread]
  simp only
  exact optAll_map_some (rowFieldsE P decls) (readRow P decls (headerFields decls))
    (rtRowE P decls) rows lines hlines
    (fun r hr line hl => readRow_written P decls r line hwf.sig hwf.nodup hwf.fresh (hwf.mets r hr) hl)

/-! ## index-wise view of a successful re-read -/

theorem optAll_get {α : Type} : ∀ (xs : List (Option α)) (ys : List α), optAll xs = some ys →
    ∀ (i : Nat) (y : α), ys[i]? = some y → xs[i]? = some (some y) := by
  intro xs
  induction xs with
  | nil => intro ys h i y hy; simp only [optAll, Option.some.injEq] at h; subst h; simp at hy
  | cons x xs ih =>
    intro ys h i y hy
    cases x with
    | none => simp [optAll] at h
    | some a =>
      simp only [optAll, Option.map_eq_some_iff] at h
      obtain ⟨ys', hys', rfl⟩ := h
      cases i with
      | zero => simpa using hy
      | succ k =>
        simp only [List.getElem?_cons_succ] at hy ⊢
        exact ih ys' hys' k y hy

theorem reread_rows (P : Params) (decls : List EntryDecl) : ∀ (D : List Row) (users : List (List EVal))
    (rows' : List RowE), users.length = D.length →
    optAll ((List.zipWith (fun r u => ({ row := r, user := u } : RowE)) D users).map (rtRowE P decls))
      = some rows' →
    rows'.map (·.row) = D.map (rtRow P) ∧ rows'.length = users.length ∧
    ∀ (i : Nat) (us us' : List EVal), users[i]? = some us → (rows'.map (·.user))[i]? = some us' →
      rtUsers P.rnd decls us = some us' := by
  intro D
  induction D with
  | nil =>
    intro users rows' hl h
    have : users = [] := by cases users <;> simp_all
    subst this
    simp only [List.zipWith_nil_left, List.map_nil, optAll, Option.some.injEq] at h
    subst h
    simp
  | cons r D ih =>
    intro users rows' hl h
    cases users with
    | nil => simp at hl
    | cons u users =>
      simp only [List.zipWith_cons_cons, List.map_cons] at h
      cases hr : rtRowE P decls { row := r, user := u } with
      | none => rw [hr] at h; simp [optAll] at h
      | some r' =>
        rw [hr] at h
        simp only [optAll, Option.map_eq_some_iff] at h
        obtain ⟨rows'', h'', rfl⟩ := h
        obtain ⟨i1, i2, i3⟩ := ih users rows'' (by simpa using hl) h''
        unfold rtRowE at hr
        simp only [Option.map_eq_some_iff] at hr
        obtain ⟨us', hus', rfl⟩ := hr
        refine ⟨by simp [i1], by simp [i2], ?_⟩
        intro i us us2 hus hus2
        cases i with
        | zero =>
          simp only [List.getElem?_cons_zero, Option.some.injEq, List.map_cons] at hus hus2
          subst hus hus2
          exact hus'
        | succ k =>
          simp only [List.getElem?_cons_succ, List.map_cons] at hus hus2
          exact i3 k us us2 hus hus2

/-- the state-level restart through the text of the file is the record-level `restart` -/
theorem restartText_eq (P : Params) (decls : List EntryDecl) (S : State) (users : List (List EVal))
    (hlen : users.length = (S.hist.drop 1).length)
    (hwf : FileWF P decls
      (List.zipWith (fun r u => ({ row := r, user := u } : RowE)) (S.hist.drop 1) users))
    (text : List Char)
    (ht : fileText P decls
      (List.zipWith (fun r u => ({ row := r, user := u } : RowE)) (S.hist.drop 1) users) = some text)
    (S' : State) (users' : List (List EVal))
    (h : restartText P decls S users = some (S', users')) :
    S' = restart P S ∧ users'.length = users.length ∧
    ∀ (i : Nat) (us us' : List EVal), users[i]? = some us → users'[i]? = some us' →
      rtUsers P.rnd decls us = some us' := by
  unfold restartText at h
  simp only [ht, Option.bind_some] at h
  rw [readHist_fileText P decls _ hwf text ht] at h
  cases hopt : optAll ((List.zipWith (fun r u => ({ row := r, user := u } : RowE)) (S.hist.drop 1) users).map
      (rtRowE P decls)) with
  | none => rw [hopt] at h; simp at h
  | some rows' =>
    rw [hopt] at h
    simp only [Option.some.injEq, Prod.mk.injEq] at h
    obtain ⟨rfl, rfl⟩ := h
    obtain ⟨h1, h2, h3⟩ := reread_rows P decls (S.hist.drop 1) users rows' hlen hopt
    refine ⟨?_, by simpa using h2, h3⟩
    unfold restart
    rw [h1]

/-! ## `repr(float)`: the shortest digit string, laid out in fixed or exponent notation, reads back -/

theorem zeros_fold : ∀ (z : Nat) (acc : Option Nat),
    (List.replicate z '0').foldl pf acc = acc.map (· * 10 ^ z) := by
  intro z
  induction z with
  | zero => intro acc; cases acc <;> simp
  | succ z ih =>
    intro acc
    rw [List.replicate_succ, List.foldl_cons]
    cases acc with
    | none =>
      have : pf none '0' = none := rfl
      rw [this, ih]; rfl
    | some a =>
      have : pf (some a) '0' = some (10 * a) := by
        have h := pf_digit a 0 (by decide)
        have h0 : digitChar 0 = '0' := by decide
        rw [h0] at h
        simpa using h
      rw [this, ih]
      simp only [Option.map_some, Option.some.injEq]
      rw [Nat.pow_succ]
      ring

theorem parseNat_append_zeros (l : List Char) (z : Nat) :
    parseNat (l ++ List.replicate z '0') = (parseNat l).map (· * 10 ^ z) := by
  rw [parseNat_eq, List.foldl_append, zeros_fold, ← parseNat_eq]

theorem parseNat_zeros_prefix (l : List Char) (z : Nat) :
    parseNat (List.replicate z '0' ++ l) = parseNat l := by
  rw [parseNat_eq, List.foldl_append, parse_zeros, ← parseNat_eq]

/-- fixed notation `ddd.ddd` (no exponent part) -/
theorem decValue_fixed (ip fp : List Char) (hip : ∀ c ∈ ip, IsDig c) (hfp : ∀ c ∈ fp, IsDig c)
    (hne : ip ≠ []) (m : Nat) (hm : parseNat (ip ++ fp) = some m) :
    decValue (ip ++ '.' :: fp) = some ((m : Rat) * pow10 (0 - (fp.length : Int))) := by
  obtain ⟨c, r, rfl⟩ := List.exists_cons_of_ne_nil hne
  have hc : IsDig c := hip c (by simp)
  have hpp : notPoint '.' = false := by decide
  have hall : ∀ x ∈ (c :: r) ++ '.' :: fp, notExpMark x = true := by
    intro x hx
    rcases List.mem_append.1 hx with h | h
    · exact all_notExp hip x h
    · rcases List.mem_cons.1 h with h | h
      · rw [h]; decide
      · exact all_notExp hfp x h
  unfold decValue
  have hs : splitSign ((c :: r) ++ '.' :: fp) = (false, (c :: r) ++ '.' :: fp) := by
    simpa using splitSign_dig hc (r ++ '.' :: fp)
  rw [hs]
  simp only
  rw [takeWhile_all hall, dropWhile_all hall, takeWhile_stop (all_notPoint hip) hpp,
    dropWhile_stop (all_notPoint hip) hpp]
  simp only [List.drop_succ_cons, List.drop_zero, hm, expValue]
  simp

theorem decValue_neg' (l : List Char) (hne : l ≠ []) (hd : ∀ c ∈ l.take 1, IsDig c) :
    decValue ('-' :: l) = (decValue l).map (fun v => -v) := by
  obtain ⟨c, r, rfl⟩ := List.exists_cons_of_ne_nil hne
  exact decValue_neg (hd c (by simp)) r

theorem int_sub_toNat {a b : Int} (h : b ≤ a) : ((a - b).toNat : Int) = a - b := by omega

/-- the value of the `repr` layout: `±m · 10^(e - (k-1))` for a `k`-digit mantissa -/
theorem decValue_reprLayout (neg : Bool) (k m : Nat) (e : Int) (hk : 1 ≤ k) (hm : m < 10 ^ k) :
    decValue (reprLayout neg k m e)
      = some (if neg then -((m : Rat) * pow10 (e - ((k : Int) - 1)))
              else (m : Rat) * pow10 (e - ((k : Int) - 1))) := by
  have hlen := fmtNat_length hk hm
  have hd := fmtNat_dig k m
  have hne := fmtNat_ne_nil k m
  have hpm := parseNat_fmtNat k m
  -- the unsigned literal
  have key : ∃ body : List Char, reprLayout neg k m e = (if neg then ['-'] else []) ++ body ∧
      body ≠ [] ∧ (∀ c ∈ body.take 1, IsDig c) ∧
      decValue body = some ((m : Rat) * pow10 (e - ((k : Int) - 1))) := by
    unfold reprLayout
    simp only
    by_cases hfix : -4 ≤ e ∧ e < 16
    · simp only [hfix, and_self, if_true]
      by_cases h1 : (k : Int) - 1 ≤ e
      · -- digits, zeros, ".0"
        simp only [h1, if_true]
        refine ⟨fmtNat k m ++ List.replicate (e - ((k : Int) - 1)).toNat '0' ++ ['.', '0'],
          by simp, by simp [hne], ?_, ?_⟩
        · intro c hc
          obtain ⟨c0, r0, h0⟩ := List.exists_cons_of_ne_nil hne
          rw [h0] at hc
          simp only [List.cons_append, List.take_succ_cons, List.take_zero, List.mem_cons,
            List.mem_nil_iff, or_false] at hc
          rw [hc]; exact hd c0 (by rw [h0]; simp)
        · have hz : ∀ c ∈ fmtNat k m ++ List.replicate (e - ((k : Int) - 1)).toNat '0', IsDig c := by
            intro c hc
            rcases List.mem_append.1 hc with h | h
            · exact hd c h
            · rw [(List.mem_replicate.1 h).2]; exact isDig_zero
          have h0 : ∀ c ∈ ['0'], IsDig c := by
            intro c hc; simp only [List.mem_cons, List.mem_nil_iff, or_false] at hc; rw [hc]; exact isDig_zero
          have hp : parseNat ((fmtNat k m ++ List.replicate (e - ((k : Int) - 1)).toNat '0') ++ ['0'])
              = some (m * 10 ^ ((e - ((k : Int) - 1)).toNat + 1)) := by
            have : (fmtNat k m ++ List.replicate (e - ((k : Int) - 1)).toNat '0') ++ ['0']
                = fmtNat k m ++ List.replicate ((e - ((k : Int) - 1)).toNat + 1) '0' := by
              rw [List.replicate_succ', List.append_assoc]
            rw [this, parseNat_append_zeros, hpm]; rfl
          have := decValue_fixed _ ['0'] hz h0 (by simp [hne]) _ hp
          have hshape : fmtNat k m ++ List.replicate (e - ((k : Int) - 1)).toNat '0' ++ ['.', '0']
              = (fmtNat k m ++ List.replicate (e - ((k : Int) - 1)).toNat '0') ++ '.' :: ['0'] := by simp
          rw [hshape, this]
          simp only [Option.some.injEq, List.length_cons, List.length_nil, pow10_eq_zpow]
          have hz := int_sub_toNat h1
          push_cast
          rw [mul_assoc]
          congr 1
          rw [← zpow_natCast (10 : ℚ) ((e - ((k : Int) - 1)).toNat + 1),
            ← zpow_add₀ (by norm_num : (10 : ℚ) ≠ 0)]
          congr 1
          push_cast
          omega
      · simp only [h1, if_false]
        by_cases h2 : 0 ≤ e
        · -- the point inside the digits
          simp only [h2, if_true]
          have hlt : e.toNat + 1 ≤ k := by omega
          refine ⟨(fmtNat k m).take (e.toNat + 1) ++ '.' :: (fmtNat k m).drop (e.toNat + 1),
            by simp, by simp [hne], ?_, ?_⟩
          · intro c hc
            obtain ⟨c0, r0, h0⟩ := List.exists_cons_of_ne_nil hne
            rw [h0] at hc
            simp only [List.take_succ_cons, List.cons_append, List.take_zero, List.mem_cons,
              List.mem_nil_iff, or_false] at hc
            rw [hc]; exact hd c0 (by rw [h0]; simp)
          · have hip : ∀ c ∈ (fmtNat k m).take (e.toNat + 1), IsDig c :=
              fun c hc => hd c (List.mem_of_mem_take hc)
            have hfp : ∀ c ∈ (fmtNat k m).drop (e.toNat + 1), IsDig c :=
              fun c hc => hd c (List.mem_of_mem_drop hc)
            have hipne : (fmtNat k m).take (e.toNat + 1) ≠ [] := by
              obtain ⟨c0, r0, h0⟩ := List.exists_cons_of_ne_nil hne
              rw [h0]; simp
            have := decValue_fixed _ _ hip hfp hipne m (by rw [List.take_append_drop]; exact hpm)
            rw [this]
            have hfl : (((fmtNat k m).drop (e.toNat + 1)).length : Int) = (k : Int) - ((e.toNat : Int) + 1) := by
              rw [List.length_drop, hlen]; omega
            simp only [Option.some.injEq]
            congr 2
            rw [hfl]
            omega
        · -- "0." zeros digits
          simp only [h2, if_false]
          refine ⟨['0', '.'] ++ List.replicate ((-e).toNat - 1) '0' ++ fmtNat k m, by simp, by simp,
            ?_, ?_⟩
          · intro c hc
            simp only [List.cons_append, List.take_succ_cons, List.take_zero, List.mem_cons,
              List.mem_nil_iff, or_false] at hc
            rw [hc]; exact isDig_zero
          · have h0 : ∀ c ∈ ['0'], IsDig c := by
              intro c hc; simp only [List.mem_cons, List.mem_nil_iff, or_false] at hc; rw [hc]; exact isDig_zero
            have hfp : ∀ c ∈ List.replicate ((-e).toNat - 1) '0' ++ fmtNat k m, IsDig c := by
              intro c hc
              rcases List.mem_append.1 hc with h | h
              · rw [(List.mem_replicate.1 h).2]; exact isDig_zero
              · exact hd c h
            have hp : parseNat (['0'] ++ (List.replicate ((-e).toNat - 1) '0' ++ fmtNat k m)) = some m := by
              have : ['0'] ++ (List.replicate ((-e).toNat - 1) '0' ++ fmtNat k m)
                  = List.replicate ((-e).toNat - 1 + 1) '0' ++ fmtNat k m := by
                rw [List.replicate_succ]; simp
              rw [this, parseNat_zeros_prefix, hpm]
            have := decValue_fixed ['0'] _ h0 hfp (by simp) m hp
            have hshape : ['0', '.'] ++ List.replicate ((-e).toNat - 1) '0' ++ fmtNat k m
                = ['0'] ++ '.' :: (List.replicate ((-e).toNat - 1) '0' ++ fmtNat k m) := by simp
            rw [hshape, this]
            have hfl : ((List.replicate ((-e).toNat - 1) '0' ++ fmtNat k m).length : Int)
                = (-e - 1) + (k : Int) := by
              rw [List.length_append, List.length_replicate, hlen]; omega
            simp only [Option.some.injEq]
            congr 2
            rw [hfl]
            omega
    · -- exponent notation: the same characters as `sciText`
      simp only [hfix, if_false]
      refine ⟨(fmtNat k m).take 1 ++ (if ((fmtNat k m).drop 1).isEmpty then [] else '.' :: (fmtNat k m).drop 1)
          ++ ['e'] ++ [if e < 0 then '-' else '+'] ++ fmtNat 2 e.natAbs, by simp, ?_, ?_, ?_⟩
      · obtain ⟨c0, r0, h0⟩ := List.exists_cons_of_ne_nil hne
        rw [h0]; simp
      · intro c hc
        obtain ⟨c0, r0, h0⟩ := List.exists_cons_of_ne_nil hne
        rw [h0] at hc
        simp only [List.take_succ_cons, List.take_zero, List.cons_append, List.nil_append,
          List.mem_cons, List.mem_nil_iff, or_false] at hc
        rw [hc]; exact hd c0 (by rw [h0]; simp)
      · have := decValue_body (fmtNat k m) hd hne m hpm e
        rw [hlen] at this
        exact this
  obtain ⟨body, hb, hbne, hbd, hbv⟩ := key
  rw [hb]
  cases neg with
  | false => simpa using hbv
  | true =>
    simp only [if_true, List.cons_append, List.nil_append]
    rw [decValue_neg' body hbne hbd, hbv]
    rfl

theorem truncSci_lt (k : Nat) (a : Rat) (ha : 0 < a) : (truncSci k a).1 < 10 ^ k := by
  unfold truncSci
  simp only
  obtain ⟨_, hu⟩ := exp10_spec a ha
  have hp := pow10_pos (exp10 a - ((k : Int) - 1))
  have hq0 : 0 ≤ a / pow10 (exp10 a - ((k : Int) - 1)) := le_of_lt (div_pos ha hp)
  have hq : a / pow10 (exp10 a - ((k : Int) - 1)) < ((10 ^ k : Nat) : Rat) := by
    rw [div_lt_iff₀ hp, ← pow10_natCast, ← pow10_add]
    have : (k : Int) + (exp10 a - ((k : Int) - 1)) = exp10 a + 1 := by omega
    rw [this]; exact hu
  have hf : (a / pow10 (exp10 a - ((k : Int) - 1))).floor < ((10 ^ k : Nat) : Int) :=
    Rat.floor_lt_iff.2 (by exact_mod_cast hq)
  have hf0 : 0 ≤ (a / pow10 (exp10 a - ((k : Int) - 1))).floor :=
    Rat.le_floor_iff.2 (by exact_mod_cast hq0)
  omega

theorem normSci_lt (k m : Nat) (e : Int) (hk : 1 ≤ k) (hm : m ≤ 10 ^ k) : (normSci k m e).1 < 10 ^ k := by
  unfold normSci
  split
  · exact Nat.pow_lt_pow_right (by decide) (by omega)
  · rename_i h
    simp only
    omega

theorem reprCandidates_spec (rnd : Rat → Rat) (k : Nat) (hk : 1 ≤ k) (a : Rat) (ha : 0 < a)
    (c : Nat × Int) (hc : c ∈ reprCandidates rnd k a) :
    c.1 < 10 ^ k ∧ rnd ((c.1 : Rat) * pow10 (c.2 - ((k : Int) - 1))) = a := by
  unfold reprCandidates at hc
  simp only [List.mem_filter, decide_eq_true_eq] at hc
  obtain ⟨hmem, hok⟩ := hc
  refine ⟨?_, hok⟩
  have hlo := truncSci_lt k a ha
  have hhi := normSci_lt k ((truncSci k a).1 + 1) (truncSci k a).2 hk (by omega)
  split at hmem <;>
    (simp only [List.mem_cons, List.mem_nil_iff, or_false] at hmem
     rcases hmem with h | h <;> rw [h] <;> assumption)

theorem reprSearch_spec (rnd : Rat → Rat) (a : Rat) : ∀ (fuel k0 k m : Nat) (e : Int),
    reprSearch rnd a fuel k0 = some (k, m, e) → k0 ≤ k ∧ (m, e) ∈ reprCandidates rnd k a := by
  intro fuel
  induction fuel with
  | zero => intro k0 k m e h; simp [reprSearch] at h
  | succ f ih =>
    intro k0 k m e h
    unfold reprSearch at h
    split at h
    · rename_i c cs hc
      simp only [Option.some.injEq, Prod.mk.injEq] at h
      obtain ⟨rfl, rfl, rfl⟩ := h
      exact ⟨Nat.le_refl _, by rw [hc]; simp⟩
    · obtain ⟨h1, h2⟩ := ih (k0 + 1) k m e h
      exact ⟨by omega, h2⟩

/-- **`repr` reads back**: whenever the search for the shortest digit string succeeds, `float(...)`
of the text `repr(x)` is `x` — for every rounding function that is odd (`rnd (-v) = -rnd v`), every
`x`, in fixed and in exponent notation. -/
theorem reprText_reads_back (rnd : Rat → Rat) (hodd : ∀ v, rnd (-v) = -(rnd v)) (x : Rat)
    (t : List Char) (h : reprText rnd x = some t) : (decValue t).map rnd = some x := by
  have hr0 : rnd 0 = 0 := by
    have := hodd 0
    simp only [neg_zero] at this
    linarith
  unfold reprText at h
  split at h
  · rename_i hx
    simp only [Option.some.injEq] at h
    subst h
    have h0 : ∀ c ∈ ['0'], IsDig c := by
      intro c hc; simp only [List.mem_cons, List.mem_nil_iff, or_false] at hc; rw [hc]; exact isDig_zero
    have := decValue_fixed ['0'] ['0'] h0 h0 (by simp) 0 (by decide)
    have hshape : ['0', '.', '0'] = ['0'] ++ '.' :: ['0'] := rfl
    rw [hshape, this]
    simp [hr0, hx]
  · rename_i hx
    have ha := ratAbs_pos hx
    cases hd : reprDigits rnd (ratAbs x) with
    | none => rw [hd] at h; simp at h
    | some kme =>
      obtain ⟨k, m, e⟩ := kme
      rw [hd] at h
      simp only [Option.some.injEq] at h
      subst h
      unfold reprDigits at hd
      obtain ⟨hk, hc⟩ := reprSearch_spec rnd (ratAbs x) 17 1 k m e hd
      obtain ⟨hm, hv⟩ := reprCandidates_spec rnd k hk (ratAbs x) ha (m, e) hc
      rw [decValue_reprLayout _ k m e hk hm]
      simp only [Option.map_some, Option.some.injEq]
      by_cases hneg : x < 0
      · simp only [hneg, decide_true, if_true, hodd, hv]
        unfold ratAbs
        simp [hneg]
      · simp only [hneg, decide_false, Bool.false_eq_true, if_false, hv]
        unfold ratAbs
        simp [hneg]

/-- float entries with `"{}"` / `"{!r}"` come back unchanged whenever `repr` found its digits -/
theorem rtEntry_repr (rnd : Rat → Rat) (hodd : ∀ v, rnd (-v) = -(rnd v)) (name : List Char) (f : EFmt)
    (hf : f = .plain ∨ f = .r) (x : Rat) (t : List Char) (ht : reprText rnd x = some t) :
    rtEntry rnd ⟨name, .flt, f⟩ (.flt x) = some (.flt x) := by
  have := reprText_reads_back rnd hodd x t ht
  simp only [Option.map_eq_some_iff] at this
  obtain ⟨v, hv, hx⟩ := this
  unfold rtEntry
  rcases hf with rfl | rfl <;> simp [fmtEntry, parseEntry, ht, hv, hx]

/-- binary64 rounding is odd -/
theorem roundBits_neg (bits : Nat) (q : Rat) : roundBits bits (-q) = -(roundBits bits q) := by
  unfold roundBits
  by_cases hq : q = 0
  · simp [hq]
  · have hnq : ¬ (-q = 0) := by simpa using hq
    have habs : ratAbs (-q) = ratAbs q := by
      unfold ratAbs
      rcases lt_or_gt_of_ne hq with h | h
      · have h1 : ¬ (-q < 0) := by linarith
        simp [h, h1]
      · have h1 : -q < 0 := by linarith
        have h2 : ¬ (q < 0) := by linarith
        simp [h1, h2]
    simp only [hq, hnq, if_false, habs]
    rcases lt_or_gt_of_ne hq with h | h
    · have h1 : ¬ (-q < 0) := by linarith
      simp [h, h1]
    · have h1 : -q < 0 := by linarith
      have h2 : ¬ (q < 0) := by linarith
      simp [h1, h2]

end PdtVerif.Controller
