import PdtVerif.Spec.Ctc
import Mathlib.Algebra.Order.Field.Rat
import Mathlib.Tactic.Ring
import Mathlib.Tactic.Linarith
import Mathlib.Data.List.Basic
/-! Helper lemmas for C05 about the specification layer (`Spec/Ctc.lean`):
the forward recursion is monotone, the map-based prefix-beam recursion computes the
forward recursion restricted to the kept prefixes, and the forward variables are the
alignment sums. -/
namespace PdtVerif.Ctc

/-- All probabilities of a frame are non-negative. -/
structure Frame.Nonneg (f : Frame) : Prop where
  blank : 0 ≤ f.blank
  tok : ∀ v, 0 ≤ f.tok v
  ext : ∀ q v, 0 ≤ f.ext q v

/-- Pointwise non-negativity of a `(nb, b)` assignment. -/
def NonnegFn (S : List Nat → Rat × Rat) : Prop := ∀ p, 0 ≤ (S p).1 ∧ 0 ≤ (S p).2

/-- Pointwise (componentwise) order on `(nb, b)` assignments. -/
def LeFn (S S' : List Nat → Rat × Rat) : Prop := ∀ p, (S p).1 ≤ (S' p).1 ∧ (S p).2 ≤ (S' p).2

theorem stepFn_fst (V : Nat) (f : Frame) (S : List Nat → Rat × Rat) (p : List Nat) :
    (stepFn V f S p).1 =
      (match p.getLast? with
        | some v => (S p).1 * f.tok v
        | none => 0) +
      (match p.getLast? with
        | some v =>
          if v < V then ((S p.dropLast).2 + (if p.dropLast.getLast? = some v then 0 else (S p.dropLast).1))
              * f.ext p.dropLast v else 0
        | none => 0) := rfl

theorem stepFn_snd (V : Nat) (f : Frame) (S : List Nat → Rat × Rat) (p : List Nat) :
    (stepFn V f S p).2 = ((S p).1 + (S p).2) * f.blank := rfl

theorem stepFn_nonneg {V : Nat} {f : Frame} {S : List Nat → Rat × Rat} (hf : f.Nonneg)
    (hS : NonnegFn S) : NonnegFn (stepFn V f S) := by
  intro p
  refine ⟨?_, ?_⟩
  · rw [stepFn_fst]
    cases p.getLast? with
    | none => simp
    | some v =>
      simp only
      apply add_nonneg
      · exact mul_nonneg (hS p).1 (hf.tok v)
      · split
        · apply mul_nonneg _ (hf.ext _ _)
          apply add_nonneg (hS _).2
          split
          · exact le_refl _
          · exact (hS _).1
        · exact le_refl _
  · rw [stepFn_snd]
    exact mul_nonneg (add_nonneg (hS p).1 (hS p).2) hf.blank

theorem stepFn_mono {V : Nat} {f : Frame} {S S' : List Nat → Rat × Rat} (hf : f.Nonneg)
    (hle : LeFn S S') : LeFn (stepFn V f S) (stepFn V f S') := by
  intro p
  refine ⟨?_, ?_⟩
  · rw [stepFn_fst, stepFn_fst]
    cases p.getLast? with
    | none => simp
    | some v =>
      simp only
      apply add_le_add
      · exact mul_le_mul_of_nonneg_right (hle p).1 (hf.tok v)
      · split
        · apply mul_le_mul_of_nonneg_right _ (hf.ext _ _)
          apply add_le_add (hle _).2
          split
          · exact le_refl _
          · exact (hle _).1
        · exact le_refl _
  · rw [stepFn_snd, stepFn_snd]
    exact mul_le_mul_of_nonneg_right (add_le_add (hle p).1 (hle p).2) hf.blank

/-! ### the association list -/

theorem lookup_map_self {β} (g : List Nat → β) (l : List (List Nat)) (p : List Nat) :
    (l.map (fun q => (q, g q))).lookup p = if p ∈ l then some (g p) else none := by
  induction l with
  | nil => simp
  | cons a l ih =>
    simp only [List.map_cons, List.lookup_cons, List.mem_cons]
    by_cases h : p = a
    · subst h; simp
    · have : (p == a) = false := by simpa using h
      simp [this, ih, h]

theorem get_beamStep (V : Nat) (f : Frame) (keep : List (List Nat)) (bm : Beam) (p : List Nat) :
    (beamStep V f keep bm).get p =
      if p ∈ keep ∧ p ∈ cands V bm then stepFn V f bm.get p else (0, 0) := by
  have hget : (beamStep V f keep bm).get p =
      (match (beamStep V f keep bm).lookup p with
        | some x => x
        | none => (0, 0)) := rfl
  rw [hget]
  unfold beamStep
  rw [lookup_map_self]
  by_cases h : p ∈ keep ∧ p ∈ cands V bm
  · have : p ∈ keep.filter (fun p => (cands V bm).contains p) := by
      simp [List.mem_filter, h.1, h.2]
    rw [if_pos this, if_pos h]
  · have : p ∉ keep.filter (fun p => (cands V bm).contains p) := by
      simp only [List.mem_filter, List.contains_iff_mem]
      exact h
    rw [if_neg this, if_neg h]

theorem keys_beamStep (V : Nat) (f : Frame) (keep : List (List Nat)) (bm : Beam) :
    (beamStep V f keep bm).keys = keep.filter (fun p => (cands V bm).contains p) := by
  unfold beamStep Beam.keys
  rw [List.map_map]
  simp [Function.comp_def]

theorem get_eq_zero_of_not_mem_keys (bm : Beam) (p : List Nat) (h : p ∉ bm.keys) :
    bm.get p = (0, 0) := by
  unfold Beam.get
  have : bm.lookup p = none := by
    rw [List.lookup_eq_none_iff]
    intro e he
    simp only [bne_iff_ne, ne_eq]
    intro hpe
    apply h
    unfold Beam.keys
    rw [hpe]
    exact List.mem_map_of_mem he
  rw [this]

theorem mem_cands {V : Nat} {bm : Beam} {p : List Nat} :
    p ∈ cands V bm ↔ p ∈ bm.keys ∨ ∃ q ∈ bm.keys, ∃ v, v < V ∧ p = q ++ [v] := by
  unfold cands
  simp only [List.mem_append, List.mem_flatMap, List.mem_map, List.mem_range]
  constructor
  · rintro (h | ⟨q, hq, v, hv, rfl⟩)
    · exact Or.inl h
    · exact Or.inr ⟨q, hq, v, hv, rfl⟩
  · rintro (h | ⟨q, hq, v, hv, rfl⟩)
    · exact Or.inl h
    · exact Or.inr ⟨q, hq, v, hv, rfl⟩

/-- The forward recursion applied to a map that is zero outside its keys is zero outside
the candidate set: restricting the merged candidates to `cands` loses nothing. -/
theorem stepFn_eq_zero_of_not_mem_cands (V : Nat) (f : Frame) (bm : Beam) (p : List Nat)
    (h : p ∉ cands V bm) : stepFn V f bm.get p = (0, 0) := by
  rw [mem_cands] at h
  have hk : p ∉ bm.keys := fun hh => h (Or.inl hh)
  have hp : bm.get p = (0, 0) := get_eq_zero_of_not_mem_keys bm p hk
  apply Prod.ext
  · rw [stepFn_fst]
    cases hl : p.getLast? with
    | none => simp
    | some v =>
      simp only [hp, zero_mul, zero_add]
      split
      · rename_i hv
        have hq : p.dropLast ∉ bm.keys := by
          intro hq
          apply h
          refine Or.inr ⟨p.dropLast, hq, v, hv, ?_⟩
          exact (List.dropLast_append_getLast? v hl).symm
        rw [get_eq_zero_of_not_mem_keys bm _ hq]
        simp
      · rfl
  · rw [stepFn_snd, hp]; simp

/-! ### runs -/

theorem beamRun_cons (V : Nat) (f : Frame) (fs : List Frame) (k : List (List Nat))
    (ks : List (List (List Nat))) (bm : Beam) :
    beamRun V (f :: fs) (k :: ks) bm = beamRun V fs ks (beamStep V f k bm) := rfl

theorem nonneg_get_beamStep {V : Nat} {f : Frame} (hf : f.Nonneg) (keep : List (List Nat))
    (bm : Beam) (h : NonnegFn bm.get) : NonnegFn (beamStep V f keep bm).get := by
  intro p
  rw [get_beamStep]
  split
  · exact stepFn_nonneg hf h p
  · simp

/-- **Pruned ≤ exact, one run**: whatever is kept at each frame, the map-based recursion
stays below the forward variables, provided it starts below them. -/
theorem beamRun_le (V : Nat) :
    ∀ (frames : List Frame) (keeps : List (List (List Nat))) (bm : Beam)
      (S : List Nat → Rat × Rat),
      (∀ f ∈ frames, f.Nonneg) → keeps.length = frames.length →
      NonnegFn bm.get → LeFn bm.get S →
      LeFn (beamRun V frames keeps bm).get (frames.foldl (fun S f => stepFn V f S) S)
  | [], [], bm, S, _, _, _, hle => by simpa [beamRun] using hle
  | [], _ :: _, _, _, _, hlen, _, _ => by simp at hlen
  | _ :: _, [], _, _, _, hlen, _, _ => by simp at hlen
  | f :: fs, k :: ks, bm, S, hf, hlen, h0, hle => by
    rw [beamRun_cons, List.foldl_cons]
    have hfn : f.Nonneg := hf f (by simp)
    apply beamRun_le V fs ks _ _ (fun g hg => hf g (by simp [hg])) (by simpa using hlen)
      (nonneg_get_beamStep hfn k bm h0)
    intro p
    rw [get_beamStep]
    split
    · exact stepFn_mono hfn hle p
    · have := stepFn_nonneg hfn (fun q => ⟨le_trans (h0 q).1 (hle q).1, le_trans (h0 q).2 (hle q).2⟩)
        (V := V) p
      simpa using this

/-- Nothing pruned: every candidate of every frame is kept. -/
def Unpruned (V : Nat) : List Frame → List (List (List Nat)) → Beam → Prop
  | f :: fs, k :: ks, bm => (∀ p ∈ cands V bm, p ∈ k) ∧ Unpruned V fs ks (beamStep V f k bm)
  | [], [], _ => True
  | _, _, _ => False

/-- **Unpruned = exact, one run.** -/
theorem beamRun_eq (V : Nat) :
    ∀ (frames : List Frame) (keeps : List (List (List Nat))) (bm : Beam)
      (S : List Nat → Rat × Rat),
      Unpruned V frames keeps bm → (∀ p, bm.get p = S p) →
      ∀ p, (beamRun V frames keeps bm).get p = (frames.foldl (fun S f => stepFn V f S) S) p
  | [], [], bm, S, _, heq => by simpa [beamRun] using heq
  | [], _ :: _, _, _, hu, _ => by simp [Unpruned] at hu
  | _ :: _, [], _, _, hu, _ => by simp [Unpruned] at hu
  | f :: fs, k :: ks, bm, S, hu, heq => by
    rw [beamRun_cons, List.foldl_cons]
    obtain ⟨hall, hrest⟩ := hu
    apply beamRun_eq V fs ks _ _ hrest
    intro p
    rw [get_beamStep]
    have hS : stepFn V f bm.get p = stepFn V f S p := by
      have : bm.get = S := funext heq
      rw [this]
    split
    · exact hS
    · rename_i hn
      have : p ∉ cands V bm := fun hc => hn ⟨hall p hc, hc⟩
      rw [← hS, stepFn_eq_zero_of_not_mem_cands V f bm p this]

theorem beamRun_nonneg (V : Nat) :
    ∀ (frames : List Frame) (keeps : List (List (List Nat))) (bm : Beam),
      (∀ f ∈ frames, f.Nonneg) → NonnegFn bm.get → NonnegFn (beamRun V frames keeps bm).get
  | [], _, bm, _, h0 => by simpa [beamRun] using h0
  | _ :: _, [], bm, _, h0 => by simpa [beamRun] using h0
  | f :: fs, k :: ks, bm, hf, h0 => by
    rw [beamRun_cons]
    exact beamRun_nonneg V fs ks _ (fun g hg => hf g (by simp [hg]))
      (nonneg_get_beamStep (hf f (by simp)) k bm h0)

/-! ### shape -/

/-- A run in which every frame's survivors are a legitimate best-`width` choice. -/
def ValidRun (V width : Nat) : List Frame → List (List (List Nat)) → Beam → Prop
  | f :: fs, k :: ks, bm => IsTopK V f width bm k ∧ ValidRun V width fs ks (beamStep V f k bm)
  | [], [], _ => True
  | _, _, _ => False

def BeamInv (V t : Nat) (bm : Beam) : Prop :=
  bm.keys.Nodup ∧ ∀ p ∈ bm.keys, p.length ≤ t ∧ ∀ x ∈ p, x < V

def BeamSorted (bm : Beam) : Prop :=
  bm.Pairwise (fun e₁ e₂ => e₂.2.1 + e₂.2.2 ≤ e₁.2.1 + e₁.2.2)

theorem shape_step {V width t : Nat} {f : Frame} {bm : Beam} {keep : List (List Nat)}
    (hk : IsTopK V f width bm keep) (hinv : BeamInv V t bm) :
    BeamInv V (t + 1) (beamStep V f keep bm) ∧ BeamSorted (beamStep V f keep bm) ∧
      (beamStep V f keep bm).length ≤ width := by
  refine ⟨⟨?_, ?_⟩, ?_, ?_⟩
  · rw [keys_beamStep]; exact hk.nodup.filter _
  · intro p hp
    rw [keys_beamStep, List.mem_filter] at hp
    have hc := hk.sub p hp.1
    rcases mem_cands.1 hc with h | ⟨q, hq, v, hv, rfl⟩
    · obtain ⟨h1, h2⟩ := hinv.2 p h
      exact ⟨by omega, h2⟩
    · obtain ⟨h1, h2⟩ := hinv.2 q hq
      refine ⟨by simp; omega, ?_⟩
      intro x hx
      rcases List.mem_append.1 hx with hx | hx
      · exact h2 x hx
      · have : x = v := by simpa using hx
        omega
  · unfold BeamSorted beamStep
    rw [List.pairwise_map]
    exact (hk.sorted.sublist List.filter_sublist)
  · unfold beamStep
    rw [List.length_map]
    calc (keep.filter _).length ≤ keep.length := List.length_filter_le _ _
      _ = min width _ := hk.card
      _ ≤ width := Nat.min_le_left _ _

theorem shape_run (V width : Nat) :
    ∀ (frames : List Frame) (keeps : List (List (List Nat))) (bm : Beam) (t : Nat),
      ValidRun V width frames keeps bm → BeamInv V t bm → BeamSorted bm → bm.length ≤ width →
      BeamInv V (t + frames.length) (beamRun V frames keeps bm) ∧
        BeamSorted (beamRun V frames keeps bm) ∧ (beamRun V frames keeps bm).length ≤ width
  | [], [], bm, t, _, hinv, hs, hl => by simpa [beamRun] using ⟨hinv, hs, hl⟩
  | [], _ :: _, _, _, hv, _, _, _ => by simp [ValidRun] at hv
  | _ :: _, [], _, _, hv, _, _, _ => by simp [ValidRun] at hv
  | f :: fs, k :: ks, bm, t, hv, hinv, _, _ => by
    obtain ⟨hk, hrest⟩ := hv
    obtain ⟨h1, h2, h3⟩ := shape_step hk hinv
    have := shape_run V width fs ks _ (t + 1) hrest h1 h2 h3
    rw [beamRun_cons, List.length_cons]
    have e : t + 1 + fs.length = t + (fs.length + 1) := by omega
    rw [← e]
    exact this

/-! ### prefix-closed survivors (size classes of the harness: true mass without enumerating alignments) -/

/-- The forward recursion of a prefix reads the prefix itself and its parent only. -/
theorem stepFn_congr (V : Nat) (f : Frame) (S S' : List Nat → Rat × Rat) (p : List Nat)
    (h1 : S p = S' p) (h2 : S p.dropLast = S' p.dropLast) : stepFn V f S p = stepFn V f S' p := by
  unfold stepFn
  simp only [h1, h2]

/-- **Prefix-closed survivors lose nothing of their own mass, one run**: if the same prefix-closed set `Q`
survives every frame, the map recursion agrees with the unpruned forward recursion on `Q`, provided it
starts in agreement on `Q` (whatever happens outside `Q`). -/
theorem beamRun_closed (V : Nat) (Q : List (List Nat)) (hQ : ∀ q ∈ Q, q.dropLast ∈ Q) :
    ∀ (frames : List Frame) (bm : Beam) (S : List Nat → Rat × Rat),
      (∀ q ∈ Q, bm.get q = S q) →
      ∀ q ∈ Q, (beamRun V frames (List.replicate frames.length Q) bm).get q =
        (frames.foldl (fun S f => stepFn V f S) S) q
  | [], bm, S, h => by simpa [beamRun] using h
  | f :: fs, bm, S, h => by
    rw [List.length_cons, List.replicate_succ, beamRun_cons, List.foldl_cons]
    apply beamRun_closed V Q hQ fs
    intro q hq
    have hc : stepFn V f bm.get q = stepFn V f S q :=
      stepFn_congr V f _ _ q (h q hq) (h _ (hQ q hq))
    rw [get_beamStep]
    split
    · exact hc
    · rename_i hn
      have : q ∉ cands V bm := fun hc' => hn ⟨hq, hc'⟩
      rw [← hc, stepFn_eq_zero_of_not_mem_cands V f bm q this]

end PdtVerif.Ctc
