import PdtVerif.Lemmas.CtcAlign
/-! Normalisation and monotonicity of prefix masses (C05, improvement round 3).

* `totalW (finals V fs)` — the total weight of all alignments — is at most 1 when every frame is
  sub-stochastic (`Frame.SubStoch`: from every reading state the outgoing weights sum to at most 1),
  and exactly 1 when every frame is stochastic (`totalW_le_one`, `totalW_eq_one`);
* the masses of pairwise distinct prefixes add up to at most the total weight (`sum_mass_le_total`),
  to exactly the total weight when the prefixes cover every collapsed alignment (`sum_mass_eq_total`);
* `prefixMass p` (Graves' prefix probability: total weight of the alignments whose collapse STARTS with
  `p`) splits into the mass of `p` itself and the prefix probabilities of its `V` one-token extensions
  (`prefixMass_split`), hence the extensions together never outweigh their parent. -/
namespace PdtVerif.Ctc

/-! ### sums of rationals over lists -/

theorem sum_map_mul_left' {α} (l : List α) (c : Rat) (g : α → Rat) :
    (l.map (fun x => c * g x)).sum = c * (l.map g).sum := by
  induction l with
  | nil => simp
  | cons a l ih => simp only [List.map_cons, List.sum_cons, ih]; ring

theorem sum_map_le {α} (l : List α) (g h : α → Rat) (hle : ∀ x ∈ l, g x ≤ h x) :
    (l.map g).sum ≤ (l.map h).sum := by
  induction l with
  | nil => simp
  | cons a l ih =>
    simp only [List.map_cons, List.sum_cons]
    exact add_le_add (hle a (by simp)) (ih (fun x hx => hle x (by simp [hx])))

theorem sum_map_nonneg {α} (l : List α) (g : α → Rat) (h : ∀ x ∈ l, 0 ≤ g x) : 0 ≤ (l.map g).sum := by
  induction l with
  | nil => simp
  | cons a l ih =>
    simp only [List.map_cons, List.sum_cons]
    exact add_nonneg (h a (by simp)) (ih (fun x hx => h x (by simp [hx])))

theorem sum_map_filter' {α} (l : List α) (p : α → Bool) (g : α → Rat) :
    (l.map (fun x => if p x = true then g x else 0)).sum = ((l.filter p).map g).sum := by
  induction l with
  | nil => simp
  | cons a l ih =>
    simp only [List.map_cons, List.sum_cons, List.filter_cons]
    by_cases h : p a = true
    · simp only [h, if_true, List.map_cons, List.sum_cons, ih]
    · simp only [h, if_false, Bool.false_eq_true, ih, zero_add]

/-! ### outgoing weight of a reading state -/

/-- The weight leaving a reading state (collapsed prefix `pre`, symbol just read `last`) at frame `f`:
the blank, plus for every token either its repeat weight (it is the symbol just read: the prefix stays) or
the weight of extending `pre` by it. -/
def outW (V : Nat) (f : Frame) (pre : List Nat) (last : Option Nat) : Rat :=
  f.blank + ((List.range V).map (fun v => if last = some v then f.tok v else f.ext pre v)).sum

/-- A frame whose weights are non-negative and, from every reading state, sum to at most one. -/
structure Frame.SubStoch (V : Nat) (f : Frame) : Prop where
  nonneg : f.Nonneg
  out : ∀ pre last, outW V f pre last ≤ 1

/-- … sum to exactly one (a frame of probabilities without fusion). -/
structure Frame.Stoch (V : Nat) (f : Frame) : Prop where
  nonneg : f.Nonneg
  out : ∀ pre last, outW V f pre last = 1

theorem Frame.Stoch.sub {V : Nat} {f : Frame} (h : f.Stoch V) : f.SubStoch V :=
  ⟨h.nonneg, fun pre last => le_of_eq (h.out pre last)⟩

/-- without a language model (`ext q v = tok v`) the outgoing weight is `blank + Σ_v tok v`, whatever
the state -/
theorem outW_plain {V : Nat} {f : Frame} (hext : ∀ q v, f.ext q v = f.tok v) (pre : List Nat)
    (last : Option Nat) : outW V f pre last = f.blank + ((List.range V).map f.tok).sum := by
  unfold outW
  congr 2
  apply List.map_congr_left
  intro v _
  rw [hext]
  split <;> rfl

/-- the frames of the search without fusion: non-negative probabilities summing to at most / exactly one -/
theorem subStoch_plain {V : Nat} {f : Frame} (hn : f.Nonneg) (hext : ∀ q v, f.ext q v = f.tok v)
    (hs : f.blank + ((List.range V).map f.tok).sum ≤ 1) : f.SubStoch V :=
  ⟨hn, fun pre last => by rw [outW_plain hext]; exact hs⟩

/-- PLAIN shallow fusion (`ext q v = factor q v · tok v` with an LM factor `exp(β · log_softmax) ≤ 1`), and any
other frame whose extension weights never exceed the token probabilities: sub-stochastic as soon as
`blank + Σ_v tok v ≤ 1` (audit, round e: the harness applies `C05.exact.total` to plain-fusion cases too) -/
theorem subStoch_of_ext_le {V : Nat} {f : Frame} (hn : f.Nonneg) (hext : ∀ q v, f.ext q v ≤ f.tok v)
    (hs : f.blank + ((List.range V).map f.tok).sum ≤ 1) : f.SubStoch V := by
  refine ⟨hn, fun pre last => le_trans ?_ hs⟩
  unfold outW
  refine add_le_add (le_refl _) ?_
  apply sum_map_le
  intro v _
  split
  · exact le_refl _
  · exact hext pre v

theorem stoch_plain {V : Nat} {f : Frame} (hn : f.Nonneg) (hext : ∀ q v, f.ext q v = f.tok v)
    (hs : f.blank + ((List.range V).map f.tok).sum = 1) : f.Stoch V :=
  ⟨hn, fun pre last => by rw [outW_plain hext]; exact hs⟩

/-! ### total weight of all alignments -/

/-- total weight of a list of reading states -/
def totalW (L : List AState) : Rat := (L.map (fun st => st.w)).sum

theorem w_stepSym_tok (V : Nat) (f : Frame) (st : AState) {s : Nat} (hs : s ≠ V) :
    (stepSym V f st s).w = st.w * (if st.last = some s then f.tok s else f.ext st.pre s) := by
  unfold stepSym
  rw [if_neg hs]
  split <;> rfl

theorem w_stepSym_blank (V : Nat) (f : Frame) (st : AState) : (stepSym V f st V).w = st.w * f.blank := by
  unfold stepSym
  rw [if_pos rfl]

/-- reading one more symbol, summed over all symbols: the weight times the outgoing weight -/
theorem sum_w_step (V : Nat) (f : Frame) (st : AState) :
    totalW ((List.range (V + 1)).map (stepSym V f st)) = st.w * outW V f st.pre st.last := by
  unfold totalW outW
  rw [List.range_succ, List.map_append, List.map_append, List.sum_append, List.map_map]
  have h1 : ((List.range V).map ((fun st => st.w) ∘ stepSym V f st)).sum
      = st.w * ((List.range V).map (fun v => if st.last = some v then f.tok v else f.ext st.pre v)).sum := by
    rw [← sum_map_mul_left']
    congr 1
    apply List.map_congr_left
    intro s hs
    have hne : s ≠ V := by
      have := List.mem_range.1 hs
      omega
    simp only [Function.comp]
    exact w_stepSym_tok V f st hne
  rw [h1]
  simp only [List.map_cons, List.map_nil, List.sum_cons, List.sum_nil, add_zero]
  rw [w_stepSym_blank]
  ring

theorem totalW_cons (st : AState) (L : List AState) : totalW (st :: L) = st.w + totalW L := by
  simp [totalW]

theorem totalW_append (L L' : List AState) : totalW (L ++ L') = totalW L + totalW L' := by
  simp [totalW]

theorem totalW_expand (V : Nat) (f : Frame) (L : List AState) :
    totalW (expandStates V f L) = (L.map (fun st => st.w * outW V f st.pre st.last)).sum := by
  induction L with
  | nil => simp [expandStates, totalW]
  | cons st L ih =>
    have : expandStates V f (st :: L) = (List.range (V + 1)).map (stepSym V f st) ++ expandStates V f L := by
      simp [expandStates]
    rw [this, totalW_append, ih, sum_w_step]
    simp

theorem w_nonneg_stepSym {V : Nat} {f : Frame} (hf : f.Nonneg) {st : AState} (h : 0 ≤ st.w) (s : Nat) :
    0 ≤ (stepSym V f st s).w := by
  unfold stepSym
  split
  · exact mul_nonneg h hf.blank
  · split
    · exact mul_nonneg h (hf.tok s)
    · exact mul_nonneg h (hf.ext st.pre s)

theorem w_nonneg_finals (V : Nat) (fs : List Frame) (hf : ∀ f ∈ fs, f.Nonneg) :
    ∀ st ∈ finals V fs, 0 ≤ st.w := by
  induction fs using List.reverseRec with
  | nil =>
    rw [finals_nil]
    intro st hst
    simp only [List.mem_singleton] at hst
    subst hst
    simp [aInit]
  | append_singleton fs f ih =>
    rw [finals_snoc]
    intro st hst
    simp only [expandStates, List.mem_flatMap, List.mem_map] at hst
    obtain ⟨st0, h0, s, _, rfl⟩ := hst
    exact w_nonneg_stepSym (hf f (by simp)) (ih (fun g hg => hf g (by simp [hg])) st0 h0) s

/-- **sub-stochastic frames: the alignments weigh at most one in total** -/
theorem totalW_le_one (V : Nat) (fs : List Frame) (hf : ∀ f ∈ fs, f.SubStoch V) :
    totalW (finals V fs) ≤ 1 := by
  induction fs using List.reverseRec with
  | nil => rw [finals_nil]; simp [totalW, aInit]
  | append_singleton fs f ih =>
    have hfs : ∀ g ∈ fs, g.SubStoch V := fun g hg => hf g (by simp [hg])
    have hff : f.SubStoch V := hf f (by simp)
    rw [finals_snoc, totalW_expand]
    have hnn := w_nonneg_finals V fs (fun g hg => (hfs g hg).nonneg)
    have : ((finals V fs).map (fun st => st.w * outW V f st.pre st.last)).sum
        ≤ ((finals V fs).map (fun st => st.w)).sum := by
      apply sum_map_le
      intro st hst
      calc st.w * outW V f st.pre st.last ≤ st.w * 1 :=
            mul_le_mul_of_nonneg_left (hff.out st.pre st.last) (hnn st hst)
        _ = st.w := by ring
    exact le_trans this (ih hfs)

/-- **stochastic frames: the alignments weigh exactly one in total** -/
theorem totalW_eq_one (V : Nat) (fs : List Frame) (hf : ∀ f ∈ fs, f.Stoch V) :
    totalW (finals V fs) = 1 := by
  induction fs using List.reverseRec with
  | nil => rw [finals_nil]; simp [totalW, aInit]
  | append_singleton fs f ih =>
    have hfs : ∀ g ∈ fs, g.Stoch V := fun g hg => hf g (by simp [hg])
    have hff : f.Stoch V := hf f (by simp)
    rw [finals_snoc, totalW_expand]
    have : ((finals V fs).map (fun st => st.w * outW V f st.pre st.last))
        = ((finals V fs).map (fun st => st.w)) := by
      apply List.map_congr_left
      intro st _
      rw [hff.out]; ring
    rw [this]
    exact ih hfs

/-! ### masses of distinct prefixes -/

theorem mass_eq_finals (V : Nat) (fs : List Frame) (p : List Nat) :
    mass V fs p = ((finals V fs).map (fun st => if st.pre = p then st.w else 0)).sum := by
  unfold mass finals
  rw [List.map_map]
  rfl

/-- the masses of pairwise distinct prefixes add up to the weight of the alignments collapsing into one
of them -/
theorem sum_mass_eq_mem (L : List AState) : ∀ (ps : List (List Nat)), ps.Nodup →
    (ps.map (fun p => (L.map (fun st => if st.pre = p then st.w else 0)).sum)).sum
      = (L.map (fun st => if st.pre ∈ ps then st.w else 0)).sum
  | [], _ => by
    simp only [List.map_nil, List.sum_nil, List.not_mem_nil, if_false]
    exact (sum_map_zero L _ (fun _ _ => rfl)).symm
  | p :: ps, hnd => by
    have hp : p ∉ ps := (List.nodup_cons.1 hnd).1
    rw [List.map_cons, List.sum_cons, sum_mass_eq_mem L ps (List.nodup_cons.1 hnd).2, ← List.sum_map_add]
    congr 1
    apply List.map_congr_left
    intro st _
    by_cases h1 : st.pre = p
    · have : st.pre ∉ ps := by rw [h1]; exact hp
      simp [h1, hp]
    · by_cases h2 : st.pre ∈ ps
      · simp [h1, h2]
      · simp [h1, h2]

/-- **the masses of pairwise distinct prefixes never add up to more than the total weight** -/
theorem sum_mass_le_total (V : Nat) (fs : List Frame) (hf : ∀ f ∈ fs, f.Nonneg) (ps : List (List Nat))
    (hnd : ps.Nodup) : (ps.map (mass V fs)).sum ≤ totalW (finals V fs) := by
  have h1 : ps.map (mass V fs)
      = ps.map (fun p => ((finals V fs).map (fun st => if st.pre = p then st.w else 0)).sum) := by
    apply List.map_congr_left
    intro p _
    exact mass_eq_finals V fs p
  rw [h1, sum_mass_eq_mem _ ps hnd]
  unfold totalW
  apply sum_map_le
  intro st hst
  have := w_nonneg_finals V fs hf st hst
  split
  · exact le_refl _
  · exact this

/-- … and to exactly the total weight when every collapsed alignment is among them -/
theorem sum_mass_eq_total (V : Nat) (fs : List Frame) (ps : List (List Nat)) (hnd : ps.Nodup)
    (hall : ∀ st ∈ finals V fs, st.pre ∈ ps) : (ps.map (mass V fs)).sum = totalW (finals V fs) := by
  have h1 : ps.map (mass V fs)
      = ps.map (fun p => ((finals V fs).map (fun st => if st.pre = p then st.w else 0)).sum) := by
    apply List.map_congr_left
    intro p _
    exact mass_eq_finals V fs p
  rw [h1, sum_mass_eq_mem _ ps hnd]
  unfold totalW
  congr 1
  apply List.map_congr_left
  intro st hst
  rw [if_pos (hall st hst)]

/-! ### prefix probabilities: a prefix and its one-token extensions -/

/-- Graves' prefix probability: the total weight of the alignments whose collapse STARTS with `p`. -/
def prefixMass (V : Nat) (fs : List Frame) (p : List Nat) : Rat :=
  ((finals V fs).map (fun st => if p.isPrefixOf st.pre = true then st.w else 0)).sum

theorem prefixMass_eq (V : Nat) (fs : List Frame) (p : List Nat) :
    prefixMass V fs p = ((finals V fs).map (fun st => if p <+: st.pre then st.w else 0)).sum := by
  unfold prefixMass
  congr 1
  apply List.map_congr_left
  intro st _
  by_cases h : p <+: st.pre
  · rw [if_pos h, if_pos (List.isPrefixOf_iff_prefix.2 h)]
  · rw [if_neg h, if_neg (fun hh => h (List.isPrefixOf_iff_prefix.1 hh))]

/-- collapsed prefixes hold tokens only (no blank, nothing beyond the vocabulary) -/
def PreOK (V : Nat) (st : AState) : Prop := ∀ x ∈ st.pre, x < V

theorem preOK_stepSym {V : Nat} (f : Frame) {st : AState} {s : Nat} (h : PreOK V st) (hs : s ≤ V) :
    PreOK V (stepSym V f st s) := by
  unfold stepSym
  split
  · exact h
  · split
    · exact h
    · rename_i hne _
      intro x hx
      rcases List.mem_append.1 hx with hx | hx
      · exact h x hx
      · have : x = s := by simpa using hx
        omega

theorem preOK_finals (V : Nat) (fs : List Frame) : ∀ st ∈ finals V fs, PreOK V st := by
  induction fs using List.reverseRec with
  | nil =>
    rw [finals_nil]
    intro st hst
    simp only [List.mem_singleton] at hst
    subst hst
    intro x hx
    simp [aInit] at hx
  | append_singleton fs f ih =>
    rw [finals_snoc]
    intro st hst
    simp only [expandStates, List.mem_flatMap, List.mem_map, List.mem_range] at hst
    obtain ⟨st0, h0, s, hs, rfl⟩ := hst
    exact preOK_stepSym f (ih st0 h0) (by omega)

theorem sum_comm' {α β} (l : List α) (m : List β) (g : α → β → Rat) :
    (l.map (fun x => (m.map (fun y => g x y)).sum)).sum = (m.map (fun y => (l.map (fun x => g x y)).sum)).sum := by
  induction l with
  | nil =>
    simp only [List.map_nil, List.sum_nil]
    exact (sum_map_zero m _ (fun _ _ => rfl)).symm
  | cons a l ih =>
    simp only [List.map_cons, List.sum_cons, ih]
    rw [← List.sum_map_add]

/-- one reading state: it starts with `p` iff it IS `p` or starts with exactly one of `p ++ [v]`, `v < V` -/
theorem prefix_split_state {V : Nat} (p pre : List Nat) (w : Rat) (hpre : ∀ x ∈ pre, x < V) :
    (if p <+: pre then w else 0)
      = (if pre = p then w else 0) + ((List.range V).map (fun v => if p ++ [v] <+: pre then w else 0)).sum := by
  by_cases h : p <+: pre
  · obtain ⟨r, rfl⟩ := h
    cases r with
    | nil =>
      have hz : ((List.range V).map (fun v => if p ++ [v] <+: p ++ [] then w else 0)).sum = 0 := by
        apply sum_map_zero
        intro v _
        have : ¬ (p ++ [v] <+: p ++ []) := by
          intro hh
          have := hh.length_le
          simp at this
        rw [if_neg this]
      rw [hz]
      simp
    | cons x r =>
      have hx : x < V := hpre x (by simp)
      have hne : p ++ x :: r ≠ p := by
        intro hh
        have := congrArg List.length hh
        simp at this
      have hiff : ∀ v, (p ++ [v] <+: p ++ x :: r) ↔ v = x := by
        intro v
        constructor
        · intro hh
          have h2 : [v] <+: x :: r := (List.prefix_append_right_inj p).1 hh
          obtain ⟨t, ht⟩ := h2
          have := List.cons.inj ht
          exact this.1
        · rintro rfl
          exact (List.prefix_append_right_inj p).2 ⟨r, rfl⟩
      have hs : ((List.range V).map (fun v => if p ++ [v] <+: p ++ x :: r then w else 0)).sum
          = ((List.range V).map (fun v => if v = x then (fun _ => w) v else 0)).sum := by
        congr 1
        apply List.map_congr_left
        intro v _
        by_cases hv : v = x
        · rw [if_pos ((hiff v).2 hv), if_pos hv]
        · rw [if_neg (fun hh => hv ((hiff v).1 hh)), if_neg hv]
      rw [hs, sum_range_single, if_pos hx, if_pos (List.prefix_append p (x :: r)), if_neg hne]
      simp
  · have hne : pre ≠ p := by
      rintro rfl
      exact h (List.prefix_refl _)
    have hz : ((List.range V).map (fun v => if p ++ [v] <+: pre then w else 0)).sum = 0 := by
      apply sum_map_zero
      intro v _
      have : ¬ (p ++ [v] <+: pre) := fun hh => h (List.IsPrefix.trans (List.prefix_append p [v]) hh)
      rw [if_neg this]
    rw [if_neg h, if_neg hne, hz]
    simp

/-- **prefix probabilities split**: the alignments whose collapse starts with `p` are those that collapse
to `p` itself and, for each token `v`, those whose collapse starts with `p ++ [v]` — all frames, all
prefixes, with or without fusion, no assumption on the weights. -/
theorem prefixMass_split (V : Nat) (fs : List Frame) (p : List Nat) :
    prefixMass V fs p = mass V fs p + ((List.range V).map (fun v => prefixMass V fs (p ++ [v]))).sum := by
  have hfun : (fun v => prefixMass V fs (p ++ [v]))
      = fun v => ((finals V fs).map (fun st => if p ++ [v] <+: st.pre then st.w else 0)).sum :=
    funext (fun v => prefixMass_eq V fs (p ++ [v]))
  rw [hfun, prefixMass_eq]
  rw [mass_eq_finals, ← sum_comm' (finals V fs) (List.range V) (fun st v => if p ++ [v] <+: st.pre then st.w else 0),
    ← List.sum_map_add]
  congr 1
  apply List.map_congr_left
  intro st hst
  exact prefix_split_state p st.pre st.w (preOK_finals V fs st hst)

theorem prefixMass_nonneg (V : Nat) (fs : List Frame) (hf : ∀ f ∈ fs, f.Nonneg) (p : List Nat) :
    0 ≤ prefixMass V fs p := by
  rw [prefixMass_eq]
  apply sum_map_nonneg
  intro st hst
  split
  · exact w_nonneg_finals V fs hf st hst
  · exact le_refl _

theorem mass_nonneg (V : Nat) (fs : List Frame) (hf : ∀ f ∈ fs, f.Nonneg) (p : List Nat) :
    0 ≤ mass V fs p := by
  rw [mass_eq_finals]
  apply sum_map_nonneg
  intro st hst
  split
  · exact w_nonneg_finals V fs hf st hst
  · exact le_refl _

/-- the empty prefix starts everything: its prefix probability is the total weight -/
theorem prefixMass_nil (V : Nat) (fs : List Frame) : prefixMass V fs [] = totalW (finals V fs) := by
  rw [prefixMass_eq]
  unfold totalW
  congr 1

/-- a longer prefix is never more probable -/
theorem prefixMass_mono (V : Nat) (fs : List Frame) (hf : ∀ f ∈ fs, f.Nonneg) {p q : List Nat} (h : p <+: q) :
    prefixMass V fs q ≤ prefixMass V fs p := by
  rw [prefixMass_eq, prefixMass_eq]
  apply sum_map_le
  intro st hst
  have hw := w_nonneg_finals V fs hf st hst
  by_cases hq : q <+: st.pre
  · rw [if_pos hq, if_pos (List.IsPrefix.trans h hq)]
  · rw [if_neg hq]
    split
    · exact hw
    · exact le_refl _

end PdtVerif.Ctc
