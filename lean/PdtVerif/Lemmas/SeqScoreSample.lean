import PdtVerif.Lemmas.SeqScoreWalk
import PdtVerif.Lemmas.SeqScoreEnum
/-! Samples of the distribution wrapper are rows of the enumerated support (core Lean only). -/
namespace PdtVerif.SeqScore

/-- Nothing but `e` after the first `e`. -/
def EosClosed (e : Nat) (l : List Nat) : Prop :=
  ∀ i j, i < j → j < l.length → l[i]? = some e → l[j]? = some e

theorem fillSpec_fix_of_closed (e : Nat) : ∀ (l : List Nat), EosClosed e l → Spec.fillSpec e l = l
  | [], _ => fillSpec_nil e
  | v :: l, h => by
    by_cases hv : v = e
    · subst hv
      rw [fillSpec_cons_eos]
      congr 1
      apply List.ext_getElem
      · simp
      · intro i h1 h2
        have := h 0 (i + 1) (by omega) (by simpa using h2) (by simp)
        have h3 : l[i]? = some v := by simpa using this
        rw [List.getElem?_eq_getElem h2] at h3
        simp only [List.getElem_replicate]
        exact (Option.some.inj h3).symm
    · rw [fillSpec_cons_ne e v l hv, fillSpec_fix_of_closed e l ?_]
      intro i j hij hj hi
      have := h (i + 1) (j + 1) (by omega) (by simpa using hj) (by simpa using hi)
      simpa using this

theorem closed_padTo (e T : Nat) (col : List Nat) (h : EosClosed e col) :
    EosClosed e (padTo T e col) := by
  intro i j hij hj hi
  unfold padTo at hj hi ⊢
  by_cases hjc : j < col.length
  · rw [List.getElem?_append_left hjc]
    rw [List.getElem?_append_left (by omega)] at hi
    exact h i j hij hjc hi
  · rw [List.getElem?_append_right (by omega)]
    have : j < col.length + (T - col.length) := by simpa using hj
    rw [List.getElem?_replicate]
    have : j - col.length < T - col.length := by omega
    simp [this]

theorem padTo_padTo (S T e : Nat) (col : List Nat) (h1 : col.length ≤ S) (h2 : S ≤ T) :
    padTo T e (padTo S e col) = padTo T e col := by
  unfold padTo
  rw [List.append_assoc, List.replicate_append_replicate]
  congr 2
  simp only [List.length_append, List.length_replicate]
  omega

/-- A column of at most `T` in-vocabulary tokens that is closed under `eos`, padded with `eos`
to `T`, is a row of the support. -/
theorem canon_padTo (V : Nat) (eos : Option Nat) (T : Nat) (col : List Nat)
    (heos : ∀ e, eos = some e → e < V) (hlen : col.length ≤ T) (hv : ∀ x ∈ col, x < V)
    (hclosed : ∀ e, eos = some e → EosClosed e col) (hfull : eos = none → col.length = T) :
    Canon V eos T (padTo T (eos.getD 0) col) := by
  refine ⟨?_, ?_, ?_⟩
  · simp only [padTo, List.length_append, List.length_replicate]; omega
  · intro x hx
    simp only [padTo, List.mem_append, List.mem_replicate] at hx
    rcases hx with hx | ⟨hne, rfl⟩
    · exact hv x hx
    · cases heq : eos with
      | none => have := hfull heq; omega
      | some e => simpa using heos e heq
  · intro e he
    subst he
    exact fillSpec_fix_of_closed e _ (closed_padTo e T col (hclosed e rfl))

theorem foldl_max_le (l : List Nat) (a T : Nat) (ha : a ≤ T) (h : ∀ x ∈ l, x ≤ T) :
    l.foldl max a ≤ T := by
  induction l generalizing a with
  | nil => simpa using ha
  | cons x xs ih =>
    simp only [List.foldl_cons]
    apply ih
    · have := h x (by simp); omega
    · intro y hy; exact h y (List.mem_cons_of_mem _ hy)

/-- What the walk's invariant says about a column of the returned `y`. -/
theorem walk_columns (lm : LM) (V : Nat) (eos : Option Nat) (N T : Nat) (draws : List (List Nat))
    (heos : ∀ e, eos = some e → e < V) (hrows : Rows N V (draws.take T))
    (hf : Forced eos N (draws.take T)) (henough : eos = none → T ≤ draws.length)
    (n : Nat) (hn : n < N) :
    (column (walk lm V eos N T draws).y n).length ≤ T ∧
    (∀ x ∈ column (walk lm V eos N T draws).y n, x < V) ∧
    (∀ e, eos = some e → EosClosed e (column (walk lm V eos N T draws).y n)) ∧
    (eos = none → (column (walk lm V eos N T draws).y n).length = T) := by
  have hst : ∃ t, t ≤ (draws.take T).length ∧
      Inv lm eos N ((draws.take T).take t) (walk lm V eos N T draws) ∧
      (t = (draws.take T).length ∨ AllDone eos N ((draws.take T).take t)) := by
    have := walkLoop_inv lm V eos N heos (draws.take T) [] (initState N)
      (by simpa using hrows) (by simpa using hf) (inv_init lm eos N)
    simpa [walk] using this
  obtain ⟨t, ht, hinv, hend⟩ := hst
  have hy : (walk lm V eos N T draws).y = (draws.take T).take t := hinv.y
  rw [hy]
  have hDlen : (draws.take T).length ≤ T := by simp [List.length_take]; omega
  refine ⟨?_, ?_, ?_, ?_⟩
  · rw [column_length, List.length_take]; omega
  · intro x hx
    simp only [column, List.mem_map] at hx
    obtain ⟨row, hrow, rfl⟩ := hx
    have hrowD : row ∈ draws.take T := List.mem_of_mem_take hrow
    have hl : row.length = N := hrows.len row hrowD
    have : row.getD n 0 = row[n] := by
      simp [List.getD_eq_getElem?_getD, List.getElem?_eq_getElem (by omega : n < row.length)]
    rw [this]
    exact hrows.vocab row hrowD _ (List.getElem_mem _)
  · intro e he i j hij hj hi
    have hcol : column ((draws.take T).take t) n = (column (draws.take T) n).take t := by
      simp [column, List.map_take]
    rw [hcol] at hj hi ⊢
    have hjt : j < t := by
      have := hj; rw [List.length_take] at this; omega
    have hjD : j < (draws.take T).length := by
      have := hj; rw [List.length_take, column_length] at this; omega
    rw [List.getElem?_take_of_lt hjt]
    rw [List.getElem?_take_of_lt (by omega)] at hi
    exact hf e he n hn i j hij hjD hi
  · intro hnone
    rw [column_length]
    rcases hend with h | h
    · rw [h, List.take_length, List.length_take]
      have := henough hnone
      omega
    · have := h n hn
      rw [hnone] at this
      simp [isDone] at this

theorem mem_enumerate_of_column (lm : LM) (V : Nat) (eos : Option Nat) (N T : Nat)
    (draws : List (List Nat)) (heos : ∀ e, eos = some e → e < V)
    (hrows : Rows N V (draws.take T)) (hf : Forced eos N (draws.take T))
    (henough : eos = none → T ≤ draws.length) (n : Nat) (hn : n < N) :
    padTo T (eos.getD 0) (column (walk lm V eos N T draws).y n) ∈ enumerateSupport V T eos := by
  obtain ⟨h1, h2, h3, h4⟩ := walk_columns lm V eos N T draws heos hrows hf henough n hn
  rw [mem_enumerateSupport, mem_support]
  exact canon_padTo V eos T _ heos h1 h2 h3 h4

end PdtVerif.SeqScore
