import PdtVerif.Lemmas.Estimators
/-!
# C19 — the two constructions of the relaxed distributions (`probs=` / `logits=`)

Helper lemmas for `C19_params_*` (Properties/C19.lean): the conversions of
`torch.distributions.utils` (`probs_to_logits`, `logits_to_probs`, binary and not), the
row-wise normalisations of `GumbelOneHotCategorical.__init__`, and the bookkeeping of rows of the
last axis of a flat tensor.
-/
namespace PdtVerif.Estimators

/-! ## LogisticBernoulli: `sigmoid` and `logit` are mutually inverse -/

/-- `probs_to_logits(p, is_binary=True)` without the clamp is `log (p / (1 - p))` -/
theorem probsToLogitsBin_eq (eps p : ℝ) (hp : eps ≤ p) (hp1 : p ≤ 1 - eps) (h0 : 0 < eps) :
    probsToLogitsBin TR eps p = Real.log (p / (1 - p)) := by
  have h1 : (0 : ℝ) < p := by linarith
  have h2 : (0 : ℝ) < 1 - p := by linarith
  simp only [probsToLogitsBin, clampProbs_id eps p hp hp1, Transc.log1p, TR]
  have e : (1 : ℝ) + -p = 1 - p := by ring
  rw [e, Real.log_div h1.ne' h2.ne']

/-- `sigmoid (log (p / (1 - p))) = p` -/
theorem sigmoid_logit (p : ℝ) (h1 : 0 < p) (h2 : p < 1) :
    TR.sigmoid (Real.log (p / (1 - p))) = p := by
  have h3 : (0 : ℝ) < 1 - p := by linarith
  have h4 : (0 : ℝ) < p / (1 - p) := div_pos h1 h3
  rw [lb_sigmoid_eq, Real.exp_log h4]
  field_simp
  ring

/-- whatever `probs` is, `sigmoid(probs_to_logits(probs)) = clamp_probs(probs)` -/
theorem sigmoid_probsToLogitsBin (eps p : ℝ) (h0 : 0 < eps) (h1 : eps < 1 / 2) :
    TR.sigmoid (probsToLogitsBin TR eps p) = clampProbs eps p := by
  obtain ⟨hc0, hc1⟩ := clampProbs_mem eps p h0 h1
  have h3 : (0 : ℝ) < 1 - clampProbs eps p := by linarith
  have e : probsToLogitsBin TR eps p = Real.log (clampProbs eps p / (1 - clampProbs eps p)) := by
    simp only [probsToLogitsBin, Transc.log1p, TR]
    have e : (1 : ℝ) + -clampProbs eps p = 1 - clampProbs eps p := by ring
    rw [e, Real.log_div hc0.ne' h3.ne']
  rw [e, sigmoid_logit _ hc0 hc1]

/-- `probs_to_logits(sigmoid(l)) = l` while the clamp is inactive -/
theorem probsToLogitsBin_sigmoid (eps l : ℝ) (h0 : 0 < eps) (hl : eps ≤ TR.sigmoid l)
    (hl1 : TR.sigmoid l ≤ 1 - eps) : probsToLogitsBin TR eps (TR.sigmoid l) = l := by
  rw [probsToLogitsBin_eq eps _ hl hl1 h0, lb_logit_sigmoid]

/-! ## one row of the class axis -/

theorem sumL_map_div (l : List ℝ) (s : ℝ) : sumL (l.map (· / s)) = sumL l / s := by
  rw [sumL_eq_sum, sumL_eq_sum]
  induction l with
  | nil => simp
  | cons x xs ih => simp only [List.map_cons, List.sum_cons, ih]; ring

theorem sumL_map_exp_sub (l : List ℝ) (c : ℝ) :
    sumL ((l.map (· - c)).map Real.exp) = sumL (l.map Real.exp) / Real.exp c := by
  rw [sumL_eq_sum, sumL_eq_sum]
  induction l with
  | nil => simp
  | cons x xs ih =>
    simp only [List.map_cons, List.sum_cons, ih, Real.exp_sub]; ring

theorem sumL_exp_pos (l : List ℝ) (h : l ≠ []) : 0 < sumL (l.map Real.exp) := by
  rw [sumL_eq_sum]
  cases l with
  | nil => exact absurd rfl h
  | cons x xs =>
    simp only [List.map_cons, List.sum_cons]
    have : 0 ≤ (xs.map Real.exp).sum :=
      List.sum_nonneg (by intro y hy; obtain ⟨z, _, rfl⟩ := List.mem_map.1 hy; exact (Real.exp_pos z).le)
    have := Real.exp_pos x
    linarith

/-- the normalised logits of a row: `Σ exp(log_softmax(row)) = 1` -/
theorem sum_exp_logSoftmaxRow (row : List ℝ) (h : row ≠ []) :
    sumL ((logSoftmaxRow TR row).map Real.exp) = 1 := by
  have hp := sumL_exp_pos row h
  simp only [logSoftmaxRow, TR]
  rw [sumL_map_exp_sub, Real.exp_log hp, div_self hp.ne']

/-- `softmax(log_softmax(row)) = exp(log_softmax(row))`: the `probs` of a logits-constructed
row are `exp(logits)` -/
theorem softmaxRow_logSoftmaxRow (row : List ℝ) (h : row ≠ []) :
    softmaxRow TR (logSoftmaxRow TR row) = (logSoftmaxRow TR row).map Real.exp := by
  have e := sum_exp_logSoftmaxRow row h
  simp only [softmaxRow]
  have e' : sumL ((logSoftmaxRow TR row).map TR.exp) = 1 := e
  rw [e']
  apply List.map_congr_left
  intro x _
  show Real.exp x / 1 = Real.exp x
  rw [div_one]

/-- softmax does not see the normalisation: `softmax(log_softmax(row)) = softmax(row)` -/
theorem softmaxRow_shift (row : List ℝ) (h : row ≠ []) :
    softmaxRow TR (logSoftmaxRow TR row) = softmaxRow TR row := by
  have hp := sumL_exp_pos row h
  rw [softmaxRow_logSoftmaxRow row h]
  simp only [logSoftmaxRow, softmaxRow, TR, List.map_map]
  apply List.map_congr_left
  intro x _
  simp only [Function.comp, Real.exp_sub, Real.exp_log hp]

/-- a normalised row sums to one -/
theorem sumL_normRow (row : List ℝ) (h : sumL row ≠ 0) : sumL (normRow row) = 1 := by
  simp only [normRow]
  rw [sumL_map_div, div_self h]

/-- a row that already sums to one is not changed by the normalisation -/
theorem normRow_of_sum_one (row : List ℝ) (h : sumL row = 1) : normRow row = row := by
  simp only [normRow, h]
  conv_rhs => rw [← List.map_id row]
  apply List.map_congr_left
  intro x _
  simp

/-- log-probabilities of a probability row are already normalised: `log_softmax(log p) = log p` -/
theorem logSoftmaxRow_log (p : List ℝ) (hpos : ∀ x ∈ p, 0 < x) (hsum : sumL p = 1) :
    logSoftmaxRow TR (p.map Real.log) = p.map Real.log := by
  have e : (p.map Real.log).map Real.exp = p := by
    rw [List.map_map]
    conv_rhs => rw [← List.map_id p]
    apply List.map_congr_left
    intro x hx
    simp [Real.exp_log (hpos x hx)]
  simp only [logSoftmaxRow, TR]
  rw [e, hsum, Real.log_one]
  conv_rhs => rw [← List.map_id (p.map Real.log)]
  apply List.map_congr_left
  intro x _
  simp

/-- `probs_to_logits` of a row on which the clamp is inactive is the entrywise logarithm -/
theorem map_probsToLogits_id (eps : ℝ) (p : List ℝ) (h : ∀ x ∈ p, eps ≤ x ∧ x ≤ 1 - eps) :
    p.map (probsToLogits TR eps) = p.map Real.log := by
  apply List.map_congr_left
  intro x hx
  simp only [probsToLogits, clampProbs_id eps x (h x hx).1 (h x hx).2, TR]

/-- probs-construction of one row, then its logits fed to the logits-construction: same row -/
theorem row_probs_then_logits (eps : ℝ) (h0 : 0 < eps) (θ : List ℝ) (hs : sumL θ ≠ 0)
    (hc : ∀ x ∈ normRow θ, eps ≤ x ∧ x ≤ 1 - eps) :
    logSoftmaxRow TR ((normRow θ).map (probsToLogits TR eps)) = (normRow θ).map (probsToLogits TR eps)
    ∧ softmaxRow TR ((normRow θ).map (probsToLogits TR eps)) = normRow θ := by
  have hpos : ∀ x ∈ normRow θ, 0 < x := fun x hx => lt_of_lt_of_le h0 (hc x hx).1
  have hsum := sumL_normRow θ hs
  rw [map_probsToLogits_id eps _ hc]
  have hl := logSoftmaxRow_log (normRow θ) hpos hsum
  refine ⟨hl, ?_⟩
  have hne : (normRow θ).map Real.log ≠ [] := by
    intro hnil
    rw [List.map_eq_nil_iff] at hnil
    rw [hnil] at hsum
    simp [sumL] at hsum
  rw [← hl, softmaxRow_logSoftmaxRow _ hne, hl, List.map_map]
  conv_rhs => rw [← List.map_id (normRow θ)]
  apply List.map_congr_left
  intro x hx
  simp [Real.exp_log (hpos x hx)]

/-- logits-construction of one row, then its probs fed to the probs-construction: same row -/
theorem row_logits_then_probs (eps : ℝ) (l : List ℝ) (hne : l ≠ [])
    (hc : ∀ x ∈ softmaxRow TR (logSoftmaxRow TR l), eps ≤ x ∧ x ≤ 1 - eps) :
    normRow (softmaxRow TR (logSoftmaxRow TR l)) = softmaxRow TR (logSoftmaxRow TR l)
    ∧ (softmaxRow TR (logSoftmaxRow TR l)).map (probsToLogits TR eps) = logSoftmaxRow TR l := by
  have e := softmaxRow_logSoftmaxRow l hne
  have hsum : sumL (softmaxRow TR (logSoftmaxRow TR l)) = 1 := by
    rw [e]; exact sum_exp_logSoftmaxRow l hne
  refine ⟨normRow_of_sum_one _ hsum, ?_⟩
  rw [map_probsToLogits_id eps _ hc, e, List.map_map]
  conv_rhs => rw [← List.map_id (logSoftmaxRow TR l)]
  apply List.map_congr_left
  intro x _
  simp

/-! ## rows of the last axis of a flat tensor -/

section Rows
variable {α : Type}

/-- splitting the concatenation of `n` rows of `V` entries gives the rows back -/
theorem rowsOf_flatten (V : Nat) : ∀ (rows : List (List α)), (∀ r ∈ rows, r.length = V) →
    rowsOf V rows.length rows.flatten = rows
  | [], _ => rfl
  | r :: rs, h => by
    have hr : r.length = V := h r (List.mem_cons_self ..)
    have ih := rowsOf_flatten V rs (fun x hx => h x (List.mem_cons_of_mem _ hx))
    simp only [List.length_cons, List.flatten_cons, rowsOf]
    rw [← hr, List.take_left, List.drop_left, hr, ih]

theorem rowsOf_length (V : Nat) : ∀ (n : Nat) (l : List α), (rowsOf V n l).length = n
  | 0, _ => rfl
  | n + 1, l => by simp [rowsOf, rowsOf_length V n]

/-- every row has `V` entries when the tensor has `n * V` of them -/
theorem rowsOf_row_length (V : Nat) : ∀ (n : Nat) (l : List α), l.length = n * V →
    ∀ r ∈ rowsOf V n l, r.length = V
  | 0, _, _ => by simp [rowsOf]
  | n + 1, l, h => by
    intro r hr
    simp only [rowsOf, List.mem_cons] at hr
    rcases hr with rfl | hr
    · rw [List.length_take, h]; exact Nat.min_eq_left (by rw [Nat.add_mul]; omega)
    · exact rowsOf_row_length V n (l.drop V) (by rw [List.length_drop, h, Nat.add_mul]; omega) r hr

/-- a row-wise map that keeps the row length commutes with flattening and re-splitting -/
theorem rowsOf_flatten_map (V n : Nat) (l : List α) (hl : l.length = n * V) (f : List α → List α)
    (hf : ∀ r, r.length = V → (f r).length = V) :
    rowsOf V n ((rowsOf V n l).map f).flatten = (rowsOf V n l).map f := by
  have h := rowsOf_flatten V ((rowsOf V n l).map f) (by
    intro r hr
    obtain ⟨r0, hr0, rfl⟩ := List.mem_map.1 hr
    exact hf r0 (rowsOf_row_length V n l hl r0 hr0))
  rwa [List.length_map, rowsOf_length] at h

/-- the rows of a concatenation, when the first part consists of whole rows -/
theorem rowsOf_append (V : Nat) : ∀ (a b : Nat) (l1 l2 : List α), l1.length = a * V →
    rowsOf V (a + b) (l1 ++ l2) = rowsOf V a l1 ++ rowsOf V b l2
  | 0, b, l1, l2, h => by
    have : l1 = [] := List.length_eq_zero_iff.1 (by simpa using h)
    subst this
    simp [rowsOf]
  | a + 1, b, l1, l2, h => by
    have hV : V ≤ l1.length := by rw [h, Nat.add_mul]; omega
    have e : a + 1 + b = (a + b) + 1 := by omega
    rw [e]
    simp only [rowsOf]
    rw [List.take_append_of_le_length hV, List.drop_append_of_le_length hV,
      rowsOf_append V a b (l1.drop V) l2 (by rw [List.length_drop, h, Nat.add_mul]; omega)]
    rfl

/-- the rows of a tensor repeated `k` times along a new leading axis -/
theorem rowsOf_replicate (V n : Nat) (data : List α) (h : data.length = n * V) : ∀ k : Nat,
    rowsOf V (k * n) (List.replicate k data).flatten = (List.replicate k (rowsOf V n data)).flatten
  | 0 => by simp [rowsOf]
  | k + 1 => by
    have e : (k + 1) * n = n + k * n := by rw [Nat.add_mul]; omega
    rw [e, List.replicate_succ, List.flatten_cons, rowsOf_append V n (k * n) data _ h,
      rowsOf_replicate V n data h k, List.replicate_succ, List.flatten_cons]

theorem flatten_replicate_flatten (k : Nat) (rows : List (List α)) :
    ((List.replicate k rows).flatten).flatten = (List.replicate k rows.flatten).flatten := by
  induction k with
  | zero => rfl
  | succ k ih => simp only [List.replicate_succ, List.flatten_cons, List.flatten_append, ih]

end Rows

theorem prodL_append (a b : List Nat) : prodL (a ++ b) = prodL a * prodL b := by
  induction a with
  | nil => simp [prodL]
  | cons x xs ih =>
    simp only [prodL, List.cons_append, List.foldr_cons] at ih ⊢
    rw [ih, Nat.mul_assoc]

theorem normRow_length (r : List ℝ) : (normRow r).length = r.length := by simp [normRow]
theorem logSoftmaxRow_length (r : List ℝ) : (logSoftmaxRow TR r).length = r.length := by
  simp [logSoftmaxRow]
theorem softmaxRow_length (r : List ℝ) : (softmaxRow TR r).length = r.length := by simp [softmaxRow]

theorem paramRowAt_length (xs : List ℝ) (V B r : Nat) (hB : 0 < B) (hx : xs.length = B * V) :
    (paramRowAt xs V B r).length = V := by
  have h1 : r % B < B := Nat.mod_lt _ hB
  have h2 : (r % B) * V + V ≤ B * V := by
    calc (r % B) * V + V = (r % B + 1) * V := by ring
      _ ≤ B * V := Nat.mul_le_mul_right V h1
  simp only [paramRowAt, List.length_take, List.length_drop, hx]
  omega

end PdtVerif.Estimators
