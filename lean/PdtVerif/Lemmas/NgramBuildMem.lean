import PdtVerif.Model.NgramBuildMem
import PdtVerif.Lemmas.NgramShape
/-!
# Lemmas for C06, part 12: `_build_trie` and the caller's objects

* `buildTrieMem_fst` – the buffers returned by the procedure `buildTrieMem` (heap in, heap out) are
  the pure function `buildTrie` of what the table reference shows at call time, whatever
  `destructive` is and whatever else lives in the heap;
* `buildTrieMem_frame` – with `destructive = false` every object that existed before the call is
  unchanged afterwards (the heap only grows): all writes go to the fresh copies;
* `buildSession_pure` – hence any sequence of non-destructive constructions from one table
  reference yields, step by step, `buildTrie` of the ORIGINAL table;
* `buildTrie_offsets_fit`, `bitsFor_least` – the integer type recorded for `offsets` holds every
  offset and is the narrowest of uint8 / int16 / int32 / int64 that does.
-/
namespace PdtVerif.NgramTrie

/-! ## the checking loop with its partial result = the `Option`-valued one -/

def optOf {α} (r : Bool × α) : Option α := if r.1 then some r.2 else none

theorem addSuffixesS_fold (V : Nat) (sos : Int) (len : Nat) : ∀ (d : List Item) (acc : Bool × List Item),
    d.foldl (fun acc e =>
      match acc with
      | none => none
      | some low =>
        if e.key.length ≠ len then none
        else if e.key.any (fun t => !(decide (0 ≤ t ∧ t < V) || (shiftOf V sos == 1 && t == sos))) then none
        else
          let suffix := e.key.tail
          if hasKey low suffix then some low
          else some (low ++ [⟨suffix, LogP.negInf, LogP.fin 0⟩])) (optOf acc) =
    optOf (d.foldl (fun (acc : Bool × List Item) e =>
      if !acc.1 then acc
      else if e.key.length ≠ len then (false, acc.2)
      else if e.key.any (fun t => !(decide (0 ≤ t ∧ t < V) || (shiftOf V sos == 1 && t == sos))) then
        (false, acc.2)
      else
        let suffix := e.key.tail
        if hasKey acc.2 suffix then acc
        else (true, acc.2 ++ [⟨suffix, LogP.negInf, LogP.fin 0⟩])) acc)
  | [], _ => rfl
  | e :: rest, acc => by
    rw [List.foldl_cons, List.foldl_cons, ← addSuffixesS_fold V sos len rest]
    congr 1
    obtain ⟨ok, low⟩ := acc
    cases ok
    · rfl
    · simp only [optOf, if_true, Bool.not_true, Bool.false_eq_true, if_false]
      split
      · rfl
      · split
        · rfl
        · split <;> rfl

theorem addSuffixes_eq (V : Nat) (sos : Int) (len : Nat) (d lower : List Item) :
    addSuffixes V sos len d lower = optOf (addSuffixesS V sos len d lower) := by
  unfold addSuffixes addSuffixesS
  exact addSuffixesS_fold V sos len d (true, lower)

theorem closeDown_eq (V : Nat) (sos : Int) : ∀ (lowers : List (List Item)) (cur : List Item),
    closeDown V sos cur lowers = optOf (closeDownS V sos cur lowers)
  | [], cur => by
    unfold closeDown closeDownS
    cases addUnigrams V sos cur <;> rfl
  | lower :: rest, cur => by
    unfold closeDown closeDownS
    rw [addSuffixes_eq]
    cases h : (addSuffixesS V sos (rest.length + 2) cur lower).1
    · simp [optOf, h]
    · simp only [optOf, h, if_true]
      rw [closeDown_eq V sos rest]
      cases h2 : (closeDownS V sos (addSuffixesS V sos (rest.length + 2) cur lower).2 rest).1 <;>
        simp [optOf, h2]

/-- The partial result always lists every order (so writing it back touches every working dict). -/
theorem closeDownS_length (V : Nat) (sos : Int) : ∀ (lowers : List (List Item)) (cur : List Item),
    (closeDownS V sos cur lowers).2.length = lowers.length + 1
  | [], cur => by
    unfold closeDownS
    cases addUnigrams V sos cur <;> rfl
  | lower :: rest, cur => by
    unfold closeDownS
    simp only
    cases h : (addSuffixesS V sos (rest.length + 2) cur lower).1
    · simp
    · simp only [if_true, List.length_cons]
      rw [closeDownS_length V sos rest]

theorem assembleBufs_eq (V : Nat) (sos : Int) (N : Nat) (closedRev : List (List Item)) :
    assembleBufs V sos N closedRev = assemble V sos N closedRev := rfl

/-! ## the result is a function of what the table reference shows -/

theorem buildWork_fst (V : Nat) (sos : Int) (m1 : Mem) (w : Nat) (hne : (m1.table w).length ≠ 0) :
    (buildWork V sos m1 w).1 = buildTrie V sos (m1.table w) := by
  rw [buildTrie_eq, if_neg hne]
  unfold buildWork
  simp only
  by_cases h : ((m1.table w).getLastD []).isEmpty
  · rw [if_pos h, if_pos h]
  · rw [if_neg h, if_neg h, closeDown_eq]
    cases h2 : (closeDownS V sos ((m1.table w).getLastD []) (m1.table w).reverse.tail).1
    · simp only [optOf, h2, Bool.false_eq_true, if_false, Option.map_none]
    · simp only [optOf, h2, if_true, Option.map_some, assembleBufs_eq]

theorem Mem.copyTable_list (m : Mem) (l : Nat) :
    (m.copyTable l).1.list (m.copyTable l).2 =
      (List.range (m.list l).length).map (m.dicts.length + ·) := by
  unfold Mem.copyTable Mem.list
  simp

theorem Mem.copyTable_table (m : Mem) (l : Nat) :
    (m.copyTable l).1.table (m.copyTable l).2 = m.table l := by
  unfold Mem.table
  rw [Mem.copyTable_list]
  apply List.ext_getElem?
  intro i
  simp only [List.getElem?_map, List.range_eq_range']
  by_cases hi : i < (m.list l).length
  · have h1 : (List.range' 0 (m.list l).length)[i]? = some i := by
      rw [List.getElem?_range' hi]; simp
    rw [h1, List.getElem?_eq_getElem hi]
    simp only [Option.map_some, Mem.dict, Mem.copyTable]
    rw [List.getD_eq_getElem?_getD, List.getElem?_append_right (by omega)]
    simp [List.getElem?_map, List.getElem?_eq_getElem hi, Mem.dict]
  · have h1 : (List.range' 0 (m.list l).length)[i]? = none := by
      apply List.getElem?_eq_none; simp; omega
    rw [h1, List.getElem?_eq_none (by omega)]
    rfl

/-- **The buffers are a function of the table's contents at call time** – not of `destructive`,
not of the rest of the heap. -/
theorem buildTrieMem_fst (d : Bool) (V : Nat) (sos : Int) (m : Mem) (l : Nat) :
    (buildTrieMem d V sos m l).1 = buildTrie V sos (m.table l) := by
  unfold buildTrieMem
  by_cases h0 : (m.list l).length = 0
  · rw [if_pos h0, buildTrie_eq, if_pos (by simp [Mem.table, h0])]
  · rw [if_neg h0]
    have hne : (m.table l).length ≠ 0 := by simp [Mem.table]; exact fun h => h0 (by simp [h])
    cases d
    · simp only [Bool.false_eq_true, if_false]
      rw [buildWork_fst V sos _ _ (by rw [Mem.copyTable_table]; exact hne), Mem.copyTable_table]
    · simp only [if_true]
      exact buildWork_fst V sos m l hne

/-! ## the frame: writes above a watermark leave everything below it alone -/

theorem Mem.store_lists (m : Mem) : ∀ (addrs : List Nat) (ds : List (List Item)),
    (m.store addrs ds).lists = m.lists := by
  intro addrs
  induction addrs generalizing m with
  | nil => intro ds; rfl
  | cons a as ih =>
    intro ds
    cases ds with
    | nil => rfl
    | cons d ds => simp only [Mem.store]; rw [ih]; rfl

theorem Mem.store_take (n : Nat) : ∀ (addrs : List Nat) (m : Mem) (ds : List (List Item)),
    (∀ a ∈ addrs, n ≤ a) → (m.store addrs ds).dicts.take n = m.dicts.take n := by
  intro addrs
  induction addrs with
  | nil => intro m ds _; rfl
  | cons a as ih =>
    intro m ds h
    cases ds with
    | nil => rfl
    | cons d ds =>
      simp only [Mem.store]
      rw [ih _ _ (fun x hx => h x (List.mem_cons_of_mem _ hx))]
      exact List.take_set_of_le (h a List.mem_cons_self)

/-- `buildWork` on a table whose dict objects all live at addresses `≥ n` and whose list object
lives at an address `≥ k`: the dict objects below `n` and the list objects below `k` are untouched. -/
theorem buildWork_frame (V : Nat) (sos : Int) (m1 : Mem) (w n k : Nat)
    (hn : ∀ a ∈ m1.list w, n ≤ a) (hk : k ≤ w) :
    (buildWork V sos m1 w).2.dicts.take n = m1.dicts.take n ∧
    (buildWork V sos m1 w).2.lists.take k = m1.lists.take k := by
  have htl : ∀ a ∈ (m1.list w).tail, n ≤ a := fun a ha => hn a (List.mem_of_mem_tail ha)
  unfold buildWork
  simp only
  split
  · exact ⟨rfl, rfl⟩
  · split
    · constructor
      · show ((Mem.store _ _ _).setList w []).dicts.take n = _
        unfold Mem.setList
        simp only
        rw [Mem.store_take n _ _ _ htl, Mem.store_take n _ _ _ hn, Mem.store_take n _ _ _ hn]
      · show ((Mem.store _ _ _).setList w []).lists.take k = _
        unfold Mem.setList
        simp only
        rw [List.take_set_of_le hk, Mem.store_lists, Mem.store_lists, Mem.store_lists]
    · exact ⟨Mem.store_take n _ _ _ hn, by rw [Mem.store_lists]⟩

/-- `m'` extends `m`: every dict object and every list object of `m` is in `m'`, unchanged. -/
def Mem.Ext (m m' : Mem) : Prop :=
  m'.dicts.take m.dicts.length = m.dicts ∧ m'.lists.take m.lists.length = m.lists

theorem Mem.Ext.refl (m : Mem) : Mem.Ext m m := ⟨List.take_length, List.take_length⟩

theorem take_eq_self_le {α} {l l' : List α} (h : l'.take l.length = l) : l.length ≤ l'.length := by
  have := congrArg List.length h
  rw [List.length_take] at this
  omega

theorem Mem.Ext.trans {a b c : Mem} (h1 : Mem.Ext a b) (h2 : Mem.Ext b c) : Mem.Ext a c := by
  constructor
  · have hl := take_eq_self_le h1.1
    have := congrArg (List.take a.dicts.length) h2.1
    rw [List.take_take, Nat.min_eq_left hl] at this
    rw [this, h1.1]
  · have hl := take_eq_self_le h1.2
    have := congrArg (List.take a.lists.length) h2.2
    rw [List.take_take, Nat.min_eq_left hl] at this
    rw [this, h1.2]

/-- A reference that is valid in `m` shows the same table in every extension of `m`. -/
theorem Mem.Ext.table {m m' : Mem} (h : Mem.Ext m m') (l : Nat) (hl : l < m.lists.length)
    (ha : ∀ a ∈ m.list l, a < m.dicts.length) : m'.table l = m.table l := by
  have hlist : m'.list l = m.list l := by
    unfold Mem.list
    rw [List.getD_eq_getElem?_getD, List.getD_eq_getElem?_getD]
    have := congrArg (fun x => x[l]?) h.2
    simp only [List.getElem?_take, if_pos hl] at this
    rw [this]
  unfold Mem.table
  rw [hlist]
  apply List.map_congr_left
  intro a hmem
  unfold Mem.dict
  rw [List.getD_eq_getElem?_getD, List.getD_eq_getElem?_getD]
  have := congrArg (fun x => x[a]?) h.1
  simp only [List.getElem?_take, if_pos (ha a hmem)] at this
  rw [this]

/-- **Non-destructive construction leaves every existing object alone.** -/
theorem buildTrieMem_frame (V : Nat) (sos : Int) (m : Mem) (l : Nat) :
    Mem.Ext m (buildTrieMem false V sos m l).2 := by
  unfold buildTrieMem
  by_cases h0 : (m.list l).length = 0
  · rw [if_pos h0]; exact Mem.Ext.refl m
  · rw [if_neg h0]
    simp only [Bool.false_eq_true, if_false]
    have hfr := buildWork_frame V sos (m.copyTable l).1 (m.copyTable l).2 m.dicts.length m.lists.length
      (by
        intro a ha
        rw [Mem.copyTable_list] at ha
        obtain ⟨i, _, rfl⟩ := List.mem_map.mp ha
        omega)
      (by unfold Mem.copyTable; simp)
    constructor
    · rw [hfr.1]; unfold Mem.copyTable; simp
    · rw [hfr.2]; unfold Mem.copyTable; simp

/-- All steps of a session are non-destructive. -/
def allKeep (steps : List (Bool × Nat × Int)) : Prop := ∀ s ∈ steps, s.1 = false

/-- **Reuse.** Any sequence of non-destructive constructions from the same (valid) table reference:
step `k` returns `buildTrie V_k sos_k` of the ORIGINAL table, and the heap at the end extends the
original heap. -/
theorem buildSession_pure (l : Nat) : ∀ (steps : List (Bool × Nat × Int)) (m : Mem),
    allKeep steps → l < m.lists.length → (∀ a ∈ m.list l, a < m.dicts.length) →
    (buildSession m l steps).1 = steps.map (fun s => buildTrie s.2.1 s.2.2 (m.table l)) ∧
    Mem.Ext m (buildSession m l steps).2
  | [], m, _, _, _ => ⟨rfl, Mem.Ext.refl m⟩
  | (d, V, sos) :: rest, m, hk, hl, ha => by
    have hd : d = false := hk (d, V, sos) List.mem_cons_self
    subst hd
    have hext := buildTrieMem_frame V sos m l
    have htab := hext.table l hl ha
    have hl' : l < (buildTrieMem false V sos m l).2.lists.length :=
      Nat.lt_of_lt_of_le hl (take_eq_self_le hext.2)
    have hlist : (buildTrieMem false V sos m l).2.list l = m.list l := by
      unfold Mem.list
      rw [List.getD_eq_getElem?_getD, List.getD_eq_getElem?_getD]
      have := congrArg (fun x => x[l]?) hext.2
      simp only [List.getElem?_take, if_pos hl] at this
      rw [this]
    have ha' : ∀ a ∈ (buildTrieMem false V sos m l).2.list l,
        a < (buildTrieMem false V sos m l).2.dicts.length := by
      intro a hmem
      rw [hlist] at hmem
      exact Nat.lt_of_lt_of_le (ha a hmem) (take_eq_self_le hext.1)
    have ih := buildSession_pure l rest (buildTrieMem false V sos m l).2
      (fun s hs => hk s (List.mem_cons_of_mem _ hs)) hl' ha'
    unfold buildSession
    simp only [List.map_cons]
    refine ⟨?_, hext.trans ih.2⟩
    rw [ih.1, htab, buildTrieMem_fst]

/-! ## one caller, one table -/

theorem Mem.ofTable_table (dicts : List (List Item)) : (Mem.ofTable dicts).table 0 = dicts := by
  unfold Mem.table Mem.list Mem.ofTable Mem.dict
  simp only [List.getD_cons_zero]
  apply List.ext_getElem?
  intro i
  simp only [List.getElem?_map, List.range_eq_range']
  by_cases hi : i < dicts.length
  · have h1 : (List.range' 0 dicts.length)[i]? = some i := by
      rw [List.getElem?_range' hi]; simp
    rw [h1]
    simp [List.getD_eq_getElem?_getD, List.getElem?_eq_getElem hi]
  · have h1 : (List.range' 0 dicts.length)[i]? = none := by
      apply List.getElem?_eq_none; simp; omega
    rw [h1, List.getElem?_eq_none (by omega)]
    rfl

theorem Mem.ofTable_valid (dicts : List (List Item)) :
    0 < (Mem.ofTable dicts).lists.length ∧
    ∀ a ∈ (Mem.ofTable dicts).list 0, a < (Mem.ofTable dicts).dicts.length := by
  refine ⟨by simp [Mem.ofTable], ?_⟩
  intro a ha
  simp only [Mem.ofTable, Mem.list, List.getD_cons_zero, List.mem_range] at ha
  exact ha

/-! ## what `destructive = true` does to the caller -/

/-- After a successful destructive construction the caller's list object is empty
(`prob_dicts.pop(0)` until nothing is left). -/
theorem buildTrieMem_consumed (V : Nat) (sos : Int) (m : Mem) (l : Nat) (hl : l < m.lists.length)
    (hb : (buildTrieMem true V sos m l).1.isSome = true) :
    (buildTrieMem true V sos m l).2.list l = [] := by
  unfold buildTrieMem at hb ⊢
  by_cases h0 : (m.list l).length = 0
  · rw [if_pos h0] at hb; cases hb
  · rw [if_neg h0] at hb ⊢
    simp only [if_true] at hb ⊢
    unfold buildWork at hb ⊢
    simp only at hb ⊢
    split at hb
    · cases hb
    · rename_i h1
      rw [if_neg h1]
      split at hb
      · rename_i h2
        rw [if_pos h2]
        simp only [Mem.list, Mem.setList, Mem.store_lists]
        rw [List.getD_eq_getElem?_getD, List.getElem?_set_self hl]
        rfl
      · cases hb

/-! ## the integer width chosen for `offsets` -/

/-- Largest value of uint8 / int16 / int32 / int64. -/
def intMax (bits : Nat) : Nat :=
  if bits = 8 then 255 else if bits = 16 then 32767 else if bits = 32 then 2147483647
  else 9223372036854775807

theorem bitsFor_fits (m : Nat) (h : m ≤ 9223372036854775807) : m ≤ intMax (bitsFor m) := by
  unfold bitsFor intMax
  split
  · simpa
  · split
    · simpa
    · split
      · simpa
      · simpa

/-- `bitsFor` picks the narrowest type: one step narrower does not fit. -/
theorem bitsFor_least (m : Nat) :
    (bitsFor m = 16 → 255 < m) ∧ (bitsFor m = 32 → 32767 < m) ∧ (bitsFor m = 64 → 2147483647 < m) := by
  unfold bitsFor
  refine ⟨?_, ?_, ?_⟩ <;> intro h <;> (repeat' split at h) <;> simp_all <;> omega

theorem le_foldl_max : ∀ (l : List Nat) (a x : Nat), (x ≤ a ∨ x ∈ l) → x ≤ l.foldl max a
  | [], a, x, h => by
    rcases h with h | h
    · exact h
    · cases h
  | y :: ys, a, x, h => by
    rw [List.foldl_cons]
    apply le_foldl_max ys
    rcases h with h | h
    · left; exact Nat.le_trans h (Nat.le_max_left _ _)
    · rcases List.mem_cons.mp h with rfl | h
      · left; exact Nat.le_max_right _ _
      · right; exact h

theorem foldl_max_le (M : Nat) : ∀ (l : List Nat) (a : Nat), a ≤ M → (∀ x ∈ l, x ≤ M) → l.foldl max a ≤ M
  | [], _, ha, _ => ha
  | y :: ys, a, ha, h => by
    rw [List.foldl_cons]
    exact foldl_max_le M ys _ (Nat.max_le.mpr ⟨ha, h y List.mem_cons_self⟩)
      (fun x hx => h x (List.mem_cons_of_mem _ hx))

theorem offsets_fit (offs : Array Nat) (h64 : ∀ i, offs.getD i 0 ≤ 9223372036854775807) (i : Nat) :
    offs.getD i 0 ≤ intMax (if offs.size = 0 then 8 else bitsFor (offs.foldl max 0)) := by
  split
  · rename_i h0
    rw [Array.getD_eq_getD_getElem?, Array.getElem?_eq_none (by omega)]
    simp [intMax]
  · have hall : ∀ x ∈ offs.toList, x ≤ 9223372036854775807 := by
      intro x hx
      obtain ⟨j, hj, rfl⟩ := List.mem_iff_getElem.mp hx
      have := h64 j
      rw [Array.getD_eq_getD_getElem?, Array.getElem?_eq_getElem (by simpa using hj)] at this
      simpa using this
    have hle : offs.getD i 0 ≤ offs.foldl max 0 := by
      rw [← Array.foldl_toList]
      apply le_foldl_max
      by_cases hi : i < offs.size
      · right
        rw [Array.getD_eq_getD_getElem?, Array.getElem?_eq_getElem hi]
        simp
      · left
        rw [Array.getD_eq_getD_getElem?, Array.getElem?_eq_none (by omega)]
        exact Nat.le_refl _
    refine Nat.le_trans hle (bitsFor_fits _ ?_)
    rw [← Array.foldl_toList]
    exact foldl_max_le _ _ _ (by omega) hall

theorem buildTrie_offsets_fit (V : Nat) (sos : Int) (dicts : List (List Item)) (b : Buffers)
    (hb : buildTrie V sos dicts = some b)
    (h64 : ∀ i, b.offsets.getD i 0 ≤ 9223372036854775807) (i : Nat) :
    b.offsets.getD i 0 ≤ intMax b.offBits := by
  rw [buildTrie_eq] at hb
  split at hb
  · cases hb
  · split at hb
    · cases hb
    · cases hc : closeDown V sos (dicts.getLastD []) dicts.reverse.tail with
      | none => rw [hc] at hb; cases hb
      | some cr =>
        rw [hc] at hb
        simp only [Option.map_some, Option.some.injEq] at hb
        subst hb
        exact offsets_fit _ h64 i

theorem foldl_max_mem : ∀ (l : List Nat) (a : Nat), l.foldl max a = a ∨ l.foldl max a ∈ l
  | [], _ => Or.inl rfl
  | y :: ys, a => by
    rw [List.foldl_cons]
    rcases foldl_max_mem ys (max a y) with h | h
    · rw [h]
      rcases Nat.le_total a y with hle | hle
      · right; rw [Nat.max_eq_right hle]; exact List.mem_cons_self
      · left; exact Nat.max_eq_left hle
    · right; exact List.mem_cons_of_mem _ h

theorem offsets_least (offs : Array Nat) (hne : offs.size ≠ 0) (lim : Nat)
    (h : lim < offs.foldl max 0) : ∃ i, lim < offs.getD i 0 := by
  rw [← Array.foldl_toList] at h
  rcases foldl_max_mem offs.toList 0 with h0 | hm
  · rw [h0] at h; omega
  · obtain ⟨j, hj, hje⟩ := List.mem_iff_getElem.mp hm
    refine ⟨j, ?_⟩
    have hj' : j < offs.size := by simpa using hj
    rw [Array.getD_eq_getD_getElem?, Array.getElem?_eq_getElem hj']
    simp only [Option.getD_some]
    have : offs[j] = offs.toList[j] := by simp
    rw [this, hje]
    exact h

theorem buildTrie_offsets_least (V : Nat) (sos : Int) (dicts : List (List Item)) (b : Buffers)
    (hb : buildTrie V sos dicts = some b) (hne : b.offsets.size ≠ 0) :
    (b.offBits = 16 → ∃ i, 255 < b.offsets.getD i 0) ∧
    (b.offBits = 32 → ∃ i, 32767 < b.offsets.getD i 0) ∧
    (b.offBits = 64 → ∃ i, 2147483647 < b.offsets.getD i 0) := by
  rw [buildTrie_eq] at hb
  split at hb
  · cases hb
  · split at hb
    · cases hb
    · cases hc : closeDown V sos (dicts.getLastD []) dicts.reverse.tail with
      | none => rw [hc] at hb; cases hb
      | some cr =>
        rw [hc] at hb
        simp only [Option.map_some, Option.some.injEq] at hb
        subst hb
        unfold assemble at hne ⊢
        simp only at hne ⊢
        rw [if_neg hne]
        have hl := bitsFor_least ((fillLevels (V + shiftOf V sos + 1 % dicts.length)
          (cr.reverse.map (fun d => d.map (remapItem V sos))).tail
          (initFill V sos dicts.length (cr.reverse.map (fun d => d.map (remapItem V sos))))).offsets.foldl max 0)
        exact ⟨fun h => offsets_least _ hne _ (hl.1 h), fun h => offsets_least _ hne _ (hl.2.1 h),
          fun h => offsets_least _ hne _ (hl.2.2 h)⟩

end PdtVerif.NgramTrie
