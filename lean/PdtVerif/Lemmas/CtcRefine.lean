import PdtVerif.Lemmas.CtcPrefix
import PdtVerif.Lemmas.Ctc
/-! Towards `C05_refines`: a functional mirror of the intermediate tensors of the repaired
`advance` (one function per tensor, indexed by slot / token) and accessor lemmas that read
the output of `advance` in terms of the mirror. -/
namespace PdtVerif.CtcPrefix

section Mirror
variable (V : Nat) (ext : List (List XR)) (nonext : List XR) (blank : XR) (st : State)

/-- `invalid_prev[k]` of the repair -/
def invF (k : Nat) : Bool := decide (k < st.nb.length) && (getX st.nb k + getX st.b k).isNegInf
def nbPF (k : Nat) : XR := if invF st k then XR.zero else getX st.nb k
def bPF (k : Nat) : XR := if invF st k then XR.zero else getX st.b k
def totF (k : Nat) : XR := if invF st k then XR.zero else getX st.nb k + getX st.b k
def isPF (k k' : Nat) : Bool := get2B st.isPrefix k k' && !invF st k && !invF st k'
def lastF (k : Nat) : Nat := min (getN st.last k) (V - 1)
def nbExt0F (k v : Nat) : XR :=
  ((if v = lastF V st k then XR.zero else nbPF st k) + bPF st k) * get2X ext k v
def bNonF (k : Nat) : XR := totF st k * blank
def nbNon0F (k : Nat) : XR := nbPF st k * getX nonext (lastF V st k)
def toMatchF (k k' : Nat) : Nat :=
  if st.tm1 = 0 then 0 else min (get2N st.y k' (min (getN st.lens k) (st.tm1 - 1))) (V - 1)
def exactF (k k' : Nat) : Bool := (getN st.lens k + 1 == getN st.lens k') && isPF st k k'
def nbNon1F (k' : Nat) : XR :=
  nbNon0F V nonext st k' + XR.sum ((List.range st.nb.length).map (fun k =>
    if exactF st k k' then nbExt0F V ext st k (toMatchF V st k k') else XR.zero))
def hasMatchF (k v : Nat) : Bool :=
  (List.range st.nb.length).any (fun k' => toMatchF V st k k' == v && exactF st k k')
def nbExtF (k v : Nat) : XR :=
  if hasMatchF V st k v || invF st k then XR.negInf else nbExt0F V ext st k v
def nbNonF (k : Nat) : XR := if invF st k then XR.negInf else nbNon1F V ext nonext st k
end Mirror

theorem getD_flatten_uniform {α} (d : α) (m : Nat) : ∀ (rows : List (List α)),
    (∀ r ∈ rows, r.length = m) → ∀ (k v : Nat), v < m →
    rows.flatten.getD (k * m + v) d = (rows.getD k []).getD v d
  | [], _, k, v, _ => by simp
  | r :: rows, h, 0, v, hv => by
    have hr : r.length = m := h r (by simp)
    simp only [List.flatten_cons, Nat.zero_mul, Nat.zero_add, List.getD_cons_zero]
    exact getD_append_left' _ _ _ _ (by omega)
  | r :: rows, h, k + 1, v, hv => by
    have hr : r.length = m := h r (by simp)
    simp only [List.flatten_cons, List.getD_cons_succ]
    rw [List.getD_eq_getElem?_getD, List.getElem?_append_right (by rw [hr, Nat.succ_mul]; omega)]
    have : (k + 1) * m + v - r.length = k * m + v := by rw [hr, Nat.succ_mul]; omega
    rw [this, ← List.getD_eq_getElem?_getD]
    exact getD_flatten_uniform d m rows (fun r' hr' => h r' (by simp [hr'])) k v hv

theorem get2X_map_range2 (n m : Nat) (g : Nat → Nat → XR) (k v : Nat) (hk : k < n) (hv : v < m) :
    get2X ((List.range n).map (fun k => (List.range m).map (g k))) k v = g k v := by
  unfold get2X
  rw [getD_map_range _ _ _ _ hk]
  exact getX_map_range _ _ _ hv

theorem get2B_map_range2 (n m : Nat) (g : Nat → Nat → Bool) (k v : Nat) (hk : k < n) (hv : v < m) :
    get2B ((List.range n).map (fun k => (List.range m).map (g k))) k v = g k v := by
  unfold get2B
  rw [getD_map_range _ _ _ _ hk]
  exact getB_map_range _ _ _ hv

theorem get2N_map_range2 (n m : Nat) (g : Nat → Nat → Nat) (k v : Nat) (hk : k < n) (hv : v < m) :
    get2N ((List.range n).map (fun k => (List.range m).map (g k))) k v = g k v := by
  unfold get2N
  rw [getD_map_range _ _ _ _ hk]
  exact getD_map_range _ _ _ _ hv

theorem any_range_congr (n : Nat) (p q : Nat → Bool) (h : ∀ k, k < n → p k = q k) :
    (List.range n).any p = (List.range n).any q := by
  induction n with
  | zero => rfl
  | succ n ih =>
    rw [List.range_succ, List.any_append, List.any_append, ih (fun k hk => h k (by omega))]
    simp [h n (by omega)]

theorem getN_map_range (n : Nat) (g : Nat → Nat) (k : Nat) (h : k < n) :
    getN ((List.range n).map g) k = g k := getD_map_range n g k _ h

/-- the masses of the output slots of the repaired step, read through the mirror -/
theorem advance_masses (V width : Nat) (hV : 0 < V) (ext : List (List XR)) (nonext : List XR)
    (blank : XR) (st : State) (s : List Nat) (j : Nat)
    (hj : j < min width (st.nb.length * (V + 1)))
    (hs : getN s j < st.nb.length * V + st.nb.length) :
    (st.nb.length * V ≤ getN s j →
      getX (advance true V width ext nonext blank st (some s)).st.nb j
        = nbNonF V ext nonext st (getN s j - st.nb.length * V) ∧
      getX (advance true V width ext nonext blank st (some s)).st.b j
        = bNonF blank st (getN s j - st.nb.length * V)) ∧
    (getN s j < st.nb.length * V →
      getX (advance true V width ext nonext blank st (some s)).st.nb j
        = nbExtF V ext st (getN s j / V) (getN s j % V) ∧
      getX (advance true V width ext nonext blank st (some s)).st.b j
        = XR.mulBool (bNonF blank st (getN s j / V)) false) := by
  unfold advance
  extract_lets Kp ks vs K tm1 tot0 invalid inv nbP bP tot isP last nbExt0 bNon nbNon0 toMatch exact nbNon1 hasMatch nbExt nbNon flatExt cand sel' js ind isNon src extTok prefLens yNext lensNext nbNext bNext lastNext isPNext rem padRow
  have hKp : Kp = st.nb.length := rfl
  generalize hi : getN s j = i at hs ⊢
  have h_inv : ∀ k, inv k = invF st k := by
    intro k
    show getB invalid k = _
    unfold invF
    by_cases hk : k < Kp
    · simp only [invalid, ks]
      rw [getB_map_range _ _ _ hk]
      simp only [tot0, ks, Bool.true_and]
      rw [getX_map_range _ _ _ hk]
      simp [← hKp, hk]
    · have : getB invalid k = false := by
        unfold getB; rw [getD_ge _ _ _ (by simp [invalid, ks]; omega)]
      rw [this]
      simp [← hKp, hk]
  have h_nbP : ∀ k, k < Kp → getX nbP k = nbPF st k := by
    intro k hk; simp only [nbP, ks]; rw [getX_map_range _ _ _ hk, h_inv]; rfl
  have h_bP : ∀ k, k < Kp → getX bP k = bPF st k := by
    intro k hk; simp only [bP, ks]; rw [getX_map_range _ _ _ hk, h_inv]; rfl
  have h_tot : ∀ k, k < Kp → getX tot k = totF st k := by
    intro k hk; simp only [tot, ks]; rw [getX_map_range _ _ _ hk, h_inv]
    simp only [tot0, ks]; rw [getX_map_range _ _ _ hk]; rfl
  have h_last : ∀ k, k < Kp → getN last k = lastF V st k := by
    intro k hk; simp only [last, ks]; rw [getN_map_range _ _ _ hk]; rfl
  have h_isP : ∀ k k', k < Kp → k' < Kp → get2B isP k k' = isPF st k k' := by
    intro k k' hk hk'; simp only [isP, ks]; rw [get2B_map_range2 _ _ _ _ _ hk hk', h_inv, h_inv]; rfl
  have h_nbExt0 : ∀ k v, k < Kp → v < V → get2X nbExt0 k v = nbExt0F V ext st k v := by
    intro k v hk hv
    simp only [nbExt0, ks, vs]
    rw [get2X_map_range2 _ _ _ _ _ hk hv, h_last k hk, h_nbP k hk, h_bP k hk]; rfl
  have h_bNon : ∀ k, k < Kp → getX bNon k = bNonF blank st k := by
    intro k hk; simp only [bNon, ks]; rw [getX_map_range _ _ _ hk, h_tot k hk]; rfl
  have h_nbNon0 : ∀ k, k < Kp → getX nbNon0 k = nbNon0F V nonext st k := by
    intro k hk; simp only [nbNon0, ks]; rw [getX_map_range _ _ _ hk, h_nbP k hk, h_last k hk]; rfl
  have h_toMatch : ∀ k k', k < Kp → k' < Kp → get2N toMatch k k' = toMatchF V st k k' := by
    intro k k' hk hk'; simp only [toMatch, ks]; rw [get2N_map_range2 _ _ _ _ _ hk hk']; rfl
  have h_tm_lt : ∀ k k', toMatchF V st k k' < V := by
    intro k k'; unfold toMatchF; split <;> omega
  have h_exact : ∀ k k', k < Kp → k' < Kp → get2B exact k k' = exactF st k k' := by
    intro k k' hk hk'; simp only [exact, ks]
    rw [get2B_map_range2 _ _ _ _ _ hk hk', h_isP k k' hk hk']; rfl
  have h_nbNon1 : ∀ k', k' < Kp → getX nbNon1 k' = nbNon1F V ext nonext st k' := by
    intro k' hk'
    simp only [nbNon1, ks]
    rw [getX_map_range _ _ _ hk', h_nbNon0 k' hk']
    unfold nbNon1F
    congr 2
    apply List.map_congr_left
    intro k hk
    have hk : k < Kp := by simpa using hk
    rw [h_exact k k' hk hk', h_toMatch k k' hk hk', h_nbExt0 k _ hk (h_tm_lt k k')]
  have h_hasMatch : ∀ k v, k < Kp → v < V → get2B hasMatch k v = hasMatchF V st k v := by
    intro k v hk hv
    simp only [hasMatch, ks, vs]
    rw [get2B_map_range2 _ _ _ _ _ hk hv]
    unfold hasMatchF
    apply any_range_congr
    intro k' hk'
    rw [h_toMatch k k' hk hk', h_exact k k' hk hk']
  have h_nbExt : ∀ k v, k < Kp → v < V → get2X nbExt k v = nbExtF V ext st k v := by
    intro k v hk hv
    simp only [nbExt, ks, vs]
    rw [get2X_map_range2 _ _ _ _ _ hk hv, h_hasMatch k v hk hv, h_inv, h_nbExt0 k v hk hv]; rfl
  have h_nbNon : ∀ k, k < Kp → getX nbNon k = nbNonF V ext nonext st k := by
    intro k hk; simp only [nbNon, ks]; rw [getX_map_range _ _ _ hk, h_inv, h_nbNon1 k hk]; rfl
  have h_flat : ∀ k v, k < Kp → v < V → getX flatExt (k * V + v) = nbExtF V ext st k v := by
    intro k v hk hv
    rw [← h_nbExt k v hk hv]
    unfold getX get2X getX
    apply getD_flatten_uniform
    · intro r hr
      simp only [nbExt, ks, vs, List.mem_map, List.mem_range] at hr
      obtain ⟨k0, _, rfl⟩ := hr
      simp
    · exact hv
  have hjK : j < K := hj
  have hnbL : nbNext.length = K := by simp [nbNext, js]
  have hbL : bNext.length = K := by simp [bNext, js]
  have hind : ind j = i := hi
  have hisNon : getB isNon j = decide (Kp * V ≤ i) := by
    simp only [isNon, js]; rw [getB_map_range _ _ _ hjK, hind]
  have hsrc : getN src j = if Kp * V ≤ i then i - Kp * V else i / V := by
    simp only [src, js]; rw [getN_map_range _ _ _ hjK, hind]
  have e_nb : getX (nbNext ++ List.replicate rem XR.negInf) j = if getB isNon j = true then getX nbNon (getN src j)
      else getX flatExt (min (ind j) (Kp * V - 1)) := by
    show List.getD _ j XR.zero = _
    rw [getD_append_left' _ _ _ _ (by omega)]
    simp only [nbNext, js]
    rw [getD_map_range _ _ _ _ hjK]
  have e_b : getX (bNext ++ List.replicate rem XR.negInf) j = XR.mulBool (getX bNon (getN src j)) (getB isNon j) := by
    show List.getD _ j XR.zero = _
    rw [getD_append_left' _ _ _ _ (by omega)]
    simp only [bNext, js]
    rw [getD_map_range _ _ _ _ hjK]
  have hs' : i < Kp * V + Kp := hs
  show (Kp * V ≤ i → getX (nbNext ++ List.replicate rem XR.negInf) j = nbNonF V ext nonext st (i - Kp * V) ∧
      getX (bNext ++ List.replicate rem XR.negInf) j = bNonF blank st (i - Kp * V)) ∧
    (i < Kp * V → getX (nbNext ++ List.replicate rem XR.negInf) j = nbExtF V ext st (i / V) (i % V) ∧
      getX (bNext ++ List.replicate rem XR.negInf) j = XR.mulBool (bNonF blank st (i / V)) false)
  constructor
  · intro h
    have hk : i - Kp * V < Kp := by omega
    rw [e_nb, e_b, hisNon, hsrc]
    simp only [h, decide_true, if_true]
    rw [h_nbNon _ hk, h_bNon _ hk]
    refine ⟨rfl, ?_⟩
    show bNonF blank st (i - Kp * V) * XR.one = _
    exact mul_one' _
  · intro h
    have hn : ¬ Kp * V ≤ i := by omega
    have hk : i / V < Kp := by
      rw [Nat.div_lt_iff_lt_mul hV]; exact h
    have hv : i % V < V := Nat.mod_lt _ hV
    rw [e_nb, e_b, hisNon, hsrc]
    simp only [hn, decide_false, if_false, Bool.false_eq_true]
    have hmin : min (ind j) (Kp * V - 1) = i / V * V + i % V := by
      rw [hind, Nat.div_add_mod']; omega
    rw [hmin, h_flat _ _ hk hv, h_bNon _ hk]
    exact ⟨rfl, rfl⟩


open PdtVerif.Ctc (Frame stepFn Beam beamStep beamRun beamInit cands)

/-- the prefix held by slot `k` -/
def preOf (st : State) (k : Nat) : List Nat := (st.y.getD k []).take (getN st.lens k)

/-- slot `k` holds a real prefix: it exists and its total mass is not `-inf` -/
def validB (st : State) (k : Nat) : Bool := decide (k < st.nb.length) && !(invF st k)

def toRat : XR → Rat
  | .fin q => q
  | _ => 0

def nbq (st : State) (k : Nat) : Rat := toRat (getX st.nb k)
def bq (st : State) (k : Nat) : Rat := toRat (getX st.b k)

/-- the finite map the array state stands for: prefix ↦ (nb, b) of the real slot holding it -/
def absGet (st : State) (p : List Nat) : Rat × Rat :=
  match (List.range st.nb.length).find? (fun k => validB st k && (preOf st k == p)) with
  | some k => (nbq st k, bq st k)
  | none => (0, 0)

/-- well-formedness of a state: what the search maintains about its real slots -/
structure WF (V : Nat) (st : State) : Prop where
  clean : CleanState st
  lens : LensOk st
  rows : ∀ k, validB st k = true → k < st.y.length
  dist : ∀ k k', validB st k = true → validB st k' = true → preOf st k = preOf st k' → k = k'
  mat : ∀ k k', validB st k = true → validB st k' = true →
    (get2B st.isPrefix k k' = true ↔ preOf st k <+: preOf st k')
  tok : ∀ k, validB st k = true → ∀ x ∈ preOf st k, x < V
  last : ∀ k, validB st k = true → ∀ v, (preOf st k).getLast? = some v → getN st.last k = v
  empty : ∀ k, validB st k = true → preOf st k = [] → getX st.nb k = XR.fin 0

/-- the probabilities handed to the step are those of the specification frame `f` -/
structure FrameLink (V : Nat) (f : Frame) (ext : List (List XR)) (nonext : List XR) (blank : XR)
    (st : State) : Prop where
  blank : blank = XR.fin f.blank
  tok : ∀ v, v < V → getX nonext v = XR.fin (f.tok v)
  ext : ∀ k, validB st k = true → ∀ v, v < V → get2X ext k v = XR.fin (f.ext (preOf st k) v)

theorem validB_iff {st : State} {k : Nat} :
    validB st k = true ↔ k < st.nb.length ∧ invF st k = false := by
  simp [validB]

theorem valid_fin {V : Nat} {st : State} (h : WF V st) {k : Nat} (hk : validB st k = true) :
    getX st.nb k = XR.fin (nbq st k) ∧ getX st.b k = XR.fin (bq st k) := by
  obtain ⟨hlt, hinv⟩ := validB_iff.1 hk
  have : (getX st.nb k + getX st.b k).isNegInf = false := by
    simpa [invF, hlt] using hinv
  obtain ⟨h1, h2⟩ := fin_of_tot (getX_clean _ h.clean.1 k) (getX_clean _ h.clean.2 k) this
  obtain ⟨a, ha⟩ := fin_of_isFin h1
  obtain ⟨b, hb⟩ := fin_of_isFin h2
  simp [nbq, bq, ha, hb, toRat]

theorem absGet_valid {V : Nat} {st : State} (h : WF V st) {k : Nat} (hk : validB st k = true) :
    absGet st (preOf st k) = (nbq st k, bq st k) := by
  unfold absGet
  have hlt := (validB_iff.1 hk).1
  cases hf : (List.range st.nb.length).find? (fun k' => validB st k' && (preOf st k' == preOf st k)) with
  | none =>
    rw [List.find?_eq_none] at hf
    have := hf k (by simpa using hlt)
    simp [hk] at this
  | some k0 =>
    have hp := List.find?_some hf
    simp only [Bool.and_eq_true, beq_iff_eq] at hp
    have : k0 = k := h.dist k0 k hp.1 hk hp.2
    subst this
    rfl

theorem absGet_none {st : State} {p : List Nat} (h : ∀ k, validB st k = true → preOf st k ≠ p) :
    absGet st p = (0, 0) := by
  unfold absGet
  have : (List.range st.nb.length).find? (fun k => validB st k && (preOf st k == p)) = none := by
    rw [List.find?_eq_none]
    intro k _
    by_cases hv : validB st k = true
    · have := h k hv
      simp [hv, this]
    · simp [hv]
  rw [this]

theorem fin_add (a b : Rat) : XR.fin a + XR.fin b = XR.fin (a + b) := rfl
theorem fin_mul (a b : Rat) : XR.fin a * XR.fin b = XR.fin (a * b) := rfl

/-- `lastF` of a real slot with a non-empty prefix is the prefix's last token -/
theorem lastF_of_getLast {V : Nat} {st : State} (h : WF V st) {k : Nat} (hk : validB st k = true)
    {l : Nat} (hl : (preOf st k).getLast? = some l) : lastF V st k = l ∧ l < V := by
  have h1 := h.last k hk l hl
  have h2 : l < V := h.tok k hk l (List.mem_of_getLast? hl)
  unfold lastF
  rw [h1]
  exact ⟨by omega, h2⟩

/-- L1: the extension candidate of a real slot -/
theorem nbExt0F_valid {V : Nat} {f : Frame} {ext : List (List XR)} {nonext : List XR} {blank : XR}
    {st : State} (h : WF V st) (hf : FrameLink V f ext nonext blank st) {k : Nat}
    (hk : validB st k = true) {v : Nat} (hv : v < V) :
    nbExt0F V ext st k v = XR.fin ((bq st k + (if (preOf st k).getLast? = some v then 0 else nbq st k))
      * f.ext (preOf st k) v) := by
  obtain ⟨hnb, hb⟩ := valid_fin h hk
  have hinv := (validB_iff.1 hk).2
  unfold nbExt0F nbPF bPF
  rw [hinv, hf.ext k hk v hv]
  simp only [Bool.false_eq_true, if_false, hnb, hb]
  cases hl : (preOf st k).getLast? with
  | none =>
    have he : preOf st k = [] := by simpa using hl
    have h0 := h.empty k hk he
    rw [hnb] at h0
    have hq : nbq st k = 0 := by simpa using h0
    simp only [hq]
    split
    · show (XR.fin 0 + XR.fin _) * XR.fin _ = _
      rw [fin_add, fin_mul]; simp
    · rw [fin_add, fin_mul]; simp
  | some l =>
    obtain ⟨hl1, _⟩ := lastF_of_getLast h hk hl
    rw [hl1]
    by_cases hvl : v = l
    · subst hvl
      simp only [if_true]
      show (XR.fin 0 + XR.fin _) * XR.fin _ = _
      rw [fin_add, fin_mul]; simp
    · have : ¬ (some l = some v) := by
        intro hh; exact hvl (Option.some.inj hh).symm
      simp only [hvl, this, if_false]
      rw [fin_add, fin_mul]
      congr 1
      ring

/-- L2: the blank candidate of a real slot -/
theorem bNonF_valid {V : Nat} {f : Frame} {ext : List (List XR)} {nonext : List XR} {blank : XR}
    {st : State} (h : WF V st) (hf : FrameLink V f ext nonext blank st) {k : Nat}
    (hk : validB st k = true) :
    bNonF blank st k = XR.fin ((nbq st k + bq st k) * f.blank) := by
  obtain ⟨hnb, hb⟩ := valid_fin h hk
  have hinv := (validB_iff.1 hk).2
  unfold bNonF totF
  rw [hinv, hf.blank, hnb, hb]
  rfl

/-- L3: the "stay" part of the non-extending candidate of a real slot -/
theorem nbNon0F_valid {V : Nat} (hV : 0 < V) {f : Frame} {ext : List (List XR)} {nonext : List XR}
    {blank : XR} {st : State} (h : WF V st) (hf : FrameLink V f ext nonext blank st) {k : Nat}
    (hk : validB st k = true) :
    nbNon0F V nonext st k = XR.fin (match (preOf st k).getLast? with
      | some v => nbq st k * f.tok v
      | none => 0) := by
  obtain ⟨hnb, _⟩ := valid_fin h hk
  have hinv := (validB_iff.1 hk).2
  unfold nbNon0F nbPF
  rw [hinv]
  simp only [Bool.false_eq_true, if_false, hnb]
  cases hl : (preOf st k).getLast? with
  | none =>
    have he : preOf st k = [] := by simpa using hl
    have h0 := h.empty k hk he
    rw [hnb] at h0
    have hq : nbq st k = 0 := by simpa using h0
    have hlt : lastF V st k < V := by unfold lastF; omega
    rw [hf.tok _ hlt, fin_mul, hq]
    simp
  | some l =>
    obtain ⟨hl1, hl2⟩ := lastF_of_getLast h hk hl
    rw [hl1, hf.tok _ hl2, fin_mul]


theorem preOf_length {V : Nat} {st : State} (h : WF V st) {k : Nat} (hk : validB st k = true) :
    (preOf st k).length = getN st.lens k := by
  unfold preOf
  rw [List.length_take, h.lens.2 k (h.rows k hk)]
  exact Nat.min_eq_left (h.lens.1 k)

theorem prefix_succ_iff {p q : List Nat} : (p <+: q ∧ p.length + 1 = q.length) ↔ ∃ v, q = p ++ [v] := by
  constructor
  · rintro ⟨⟨t, rfl⟩, hl⟩
    have : t.length = 1 := by simp at hl; omega
    match t, this with
    | [v], _ => exact ⟨v, rfl⟩
  · rintro ⟨v, rfl⟩
    exact ⟨⟨[v], rfl⟩, by simp⟩

theorem exactF_iff {V : Nat} {st : State} (h : WF V st) {k k' : Nat} (hk : k < st.nb.length)
    (hk' : validB st k' = true) :
    exactF st k k' = true ↔ validB st k = true ∧ ∃ v, preOf st k' = preOf st k ++ [v] := by
  have hinv' := (validB_iff.1 hk').2
  unfold exactF isPF
  simp only [Bool.and_eq_true, beq_iff_eq, Bool.not_eq_true', hinv', and_true]
  constructor
  · rintro ⟨hl, hm, hi⟩
    have hv : validB st k = true := validB_iff.2 ⟨hk, hi⟩
    refine ⟨hv, prefix_succ_iff.1 ⟨(h.mat k k' hv hk').1 hm, ?_⟩⟩
    rw [preOf_length h hv, preOf_length h hk']; exact hl
  · rintro ⟨hv, hex⟩
    obtain ⟨hp, hl⟩ := prefix_succ_iff.2 hex
    rw [preOf_length h hv, preOf_length h hk'] at hl
    exact ⟨hl, (h.mat k k' hv hk').2 hp, (validB_iff.1 hv).2⟩

theorem toMatchF_of_ext {V : Nat} {st : State} (h : WF V st) {k k' : Nat}
    (hk : validB st k = true) (hk' : validB st k' = true) {v : Nat}
    (he : preOf st k' = preOf st k ++ [v]) : toMatchF V st k k' = v := by
  have hl : getN st.lens k' = getN st.lens k + 1 := by
    rw [← preOf_length h hk', ← preOf_length h hk, he]; simp
  have hle := h.lens.1 k'
  have hrow := h.lens.2 k' (h.rows k' hk')
  have hv : v < V := h.tok k' hk' v (by rw [he]; simp)
  unfold toMatchF
  have h0 : st.tm1 ≠ 0 := by omega
  rw [if_neg h0]
  have hm : min (getN st.lens k) (st.tm1 - 1) = getN st.lens k := by omega
  rw [hm]
  have : get2N st.y k' (getN st.lens k) = v := by
    unfold get2N getN
    have hi : st.lens.getD k 0 < (st.y.getD k' []).length := by
      have : getN st.lens k = st.lens.getD k 0 := rfl
      omega
    rw [List.getD_eq_getElem?_getD (l := st.y.getD k' []), List.getElem?_eq_getElem hi]
    have e : (preOf st k')[st.lens.getD k 0]? = some v := by
      rw [he, List.getElem?_append_right (by rw [preOf_length h hk]; exact Nat.le_refl _)]
      rw [preOf_length h hk]
      simp [getN]
    unfold preOf at e
    rw [List.getElem?_take] at e
    have hlt : st.lens.getD k 0 < getN st.lens k' := by
      have : getN st.lens k = st.lens.getD k 0 := rfl
      omega
    simp only [hlt, if_true] at e
    rw [List.getElem?_eq_getElem hi] at e
    simpa using e
  rw [this]
  omega

theorem zero_add' (x : XR) : XR.zero + x = x := by
  cases x with
  | fin a => show XR.fin (0 + a) = XR.fin a; rw [Rat.zero_add]
  | negInf => rfl
  | posInf => rfl
  | nan => rfl

theorem sum_append_single (l : List XR) (x : XR) : XR.sum (l ++ [x]) = XR.sum l + x := by
  unfold XR.sum
  rw [List.foldl_append]
  rfl

/-- a sum in which at most the entry `k0` is different from zero -/
theorem sum_range_single' (n k0 : Nat) (g : Nat → XR) (h : ∀ k, k < n → k ≠ k0 → g k = XR.zero) :
    XR.sum ((List.range n).map g) = if k0 < n then g k0 else XR.zero := by
  induction n with
  | zero => rfl
  | succ n ih =>
    rw [List.range_succ, List.map_append, List.map_cons, List.map_nil, sum_append_single,
      ih (fun k hk => h k (by omega))]
    by_cases h1 : k0 < n
    · have : g n = XR.zero := h n (by omega) (by omega)
      rw [if_pos h1, if_pos (by omega), this]
      exact add_fin_zero _
    · by_cases h2 : k0 = n
      · subst h2
        rw [if_neg h1, if_pos (by omega)]
        exact zero_add' _
      · rw [if_neg h1, if_neg (by omega), h n (by omega) (fun hh => h2 hh.symm)]
        exact zero_add' _


theorem exactF_valid' {st : State} {k k' : Nat} (hk' : k' < st.nb.length) (h : exactF st k k' = true) :
    validB st k' = true := by
  unfold exactF isPF at h
  simp only [Bool.and_eq_true, Bool.not_eq_true'] at h
  exact validB_iff.2 ⟨hk', h.2.2⟩

/-- L5: an extension candidate is "matched" iff the extended prefix is already held by a real slot -/
theorem hasMatchF_iff {V : Nat} {st : State} (h : WF V st) {k : Nat} (hk : validB st k = true) (v : Nat) :
    hasMatchF V st k v = true ↔ ∃ k', validB st k' = true ∧ preOf st k' = preOf st k ++ [v] := by
  have hlt := (validB_iff.1 hk).1
  unfold hasMatchF
  simp only [List.any_eq_true, List.mem_range, Bool.and_eq_true, beq_iff_eq]
  constructor
  · rintro ⟨k', hk', htm, hex⟩
    have hv' := exactF_valid' hk' hex
    obtain ⟨_, v', he⟩ := (exactF_iff h hlt hv').1 hex
    have := toMatchF_of_ext h hk hv' he
    rw [this] at htm
    subst htm
    exact ⟨k', hv', he⟩
  · rintro ⟨k', hv', he⟩
    exact ⟨k', (validB_iff.1 hv').1, toMatchF_of_ext h hk hv' he, (exactF_iff h hlt hv').2 ⟨hk, v, he⟩⟩

/-- L4: the non-extending candidate of a real slot, merged extensions included, is the non-blank
component of the forward recursion applied to the abstracted map -/
theorem nbNon1F_valid {V : Nat} (hV : 0 < V) {f : Frame} {ext : List (List XR)} {nonext : List XR}
    {blank : XR} {st : State} (h : WF V st) (hf : FrameLink V f ext nonext blank st) {k' : Nat}
    (hk' : validB st k' = true) :
    nbNon1F V ext nonext st k' = XR.fin ((stepFn V f (absGet st) (preOf st k')).1) := by
  unfold nbNon1F
  rw [nbNon0F_valid hV h hf hk', Ctc.stepFn_fst, absGet_valid h hk']
  -- the merge sum
  have key : XR.sum ((List.range st.nb.length).map (fun k =>
        if exactF st k k' = true then nbExt0F V ext st k (toMatchF V st k k') else XR.zero))
      = XR.fin (match (preOf st k').getLast? with
          | some v =>
            if v < V then ((absGet st (preOf st k').dropLast).2 +
                (if (preOf st k').dropLast.getLast? = some v then 0
                  else (absGet st (preOf st k').dropLast).1)) * f.ext (preOf st k').dropLast v
            else 0
          | none => 0) := by
    rcases List.eq_nil_or_concat (preOf st k') with he | ⟨q, l, he⟩
    · -- empty prefix: nothing can be merged into it
      rw [sum_range_single' _ st.nb.length _ (by
        intro k hk _
        have : exactF st k k' = false := by
          cases hx : exactF st k k' with
          | false => rfl
          | true =>
            obtain ⟨_, v, hv⟩ := (exactF_iff h hk hk').1 hx
            rw [he] at hv
            simp at hv
        simp [this])]
      simp [he]
      rfl
    · rw [List.concat_eq_append] at he
      have hlV : l < V := h.tok k' hk' l (by rw [he]; simp)
      have hgl : (preOf st k').getLast? = some l := by rw [he]; simp
      have hdl : (preOf st k').dropLast = q := by rw [he]; simp
      rw [hgl, hdl]
      simp only [hlV, if_true]
      by_cases hex : ∃ k0, validB st k0 = true ∧ preOf st k0 = q
      · obtain ⟨k0, hv0, hp0⟩ := hex
        have hlt0 := (validB_iff.1 hv0).1
        rw [sum_range_single' _ k0 _ (by
          intro k hk hne
          have : exactF st k k' = false := by
            cases hx : exactF st k k' with
            | false => rfl
            | true =>
              obtain ⟨hvk, v, hv⟩ := (exactF_iff h hk hk').1 hx
              rw [he] at hv
              have := (List.append_inj' hv rfl).1
              exact absurd (h.dist k k0 hvk hv0 (by rw [hp0]; exact this.symm)) hne
          simp [this])]
        have hx0 : exactF st k0 k' = true := (exactF_iff h hlt0 hk').2 ⟨hv0, l, by rw [he, hp0]⟩
        have htm : toMatchF V st k0 k' = l := toMatchF_of_ext h hv0 hk' (by rw [he, hp0])
        rw [if_pos hlt0, hx0, if_pos rfl, htm, nbExt0F_valid h hf hv0 hlV, ← hp0, absGet_valid h hv0]
      · have hall : ∀ k, validB st k = true → preOf st k ≠ q := fun k hk hp => hex ⟨k, hk, hp⟩
        rw [sum_range_single' _ st.nb.length _ (by
          intro k hk _
          have : exactF st k k' = false := by
            cases hx : exactF st k k' with
            | false => rfl
            | true =>
              obtain ⟨hvk, v, hv⟩ := (exactF_iff h hk hk').1 hx
              rw [he] at hv
              exact absurd (List.append_inj' hv rfl).1.symm (hall k hvk)
          simp [this])]
        rw [absGet_none hall]
        simp
        rfl
  rw [key, fin_add]
  rfl


theorem take_succ_set {α} (l : List α) (n : Nat) (x : α) (h : n < l.length) :
    (l.set n x).take (n + 1) = l.take n ++ [x] := by
  induction l generalizing n with
  | nil => simp at h
  | cons a l ih =>
    cases n with
    | zero => simp
    | succ n =>
      simp only [List.set_cons_succ, List.take_succ_cons, List.cons_append]
      rw [ih n (by simpa using h)]

/-- the token row of slot `k` cut / padded to the time dimension -/
def padRowOf (st : State) (k : Nat) : List Nat :=
  (st.y.getD k []).take st.tm1 ++ List.replicate (st.tm1 - (st.y.getD k []).length) 0

/-- tokens, lengths and last tokens of the output slots of a step -/
theorem advance_slots (fix : Bool) (V width : Nat) (ext : List (List XR)) (nonext : List XR)
    (blank : XR) (st : State) (s : List Nat) (j : Nat)
    (hj : j < min width (st.nb.length * (V + 1)))
    (hs : getN s j < st.nb.length * V + st.nb.length) :
    (st.nb.length * V ≤ getN s j →
      getN (advance fix V width ext nonext blank st (some s)).st.lens j
        = getN st.lens (getN s j - st.nb.length * V) ∧
      (advance fix V width ext nonext blank st (some s)).st.y.getD j []
        = (padRowOf st (getN s j - st.nb.length * V) ++ [0]).set
            (getN st.lens (getN s j - st.nb.length * V)) (getN s j % V) ∧
      getN (advance fix V width ext nonext blank st (some s)).st.last j
        = lastF V st (getN s j - st.nb.length * V)) ∧
    (getN s j < st.nb.length * V →
      getN (advance fix V width ext nonext blank st (some s)).st.lens j
        = getN st.lens (getN s j / V) + 1 ∧
      (advance fix V width ext nonext blank st (some s)).st.y.getD j []
        = (padRowOf st (getN s j / V) ++ [0]).set (getN st.lens (getN s j / V)) (getN s j % V) ∧
      getN (advance fix V width ext nonext blank st (some s)).st.last j = getN s j % V) := by
  unfold advance
  extract_lets Kp ks vs K tm1 tot0 invalid inv nbP bP tot isP last nbExt0 bNon nbNon0 toMatch exact nbNon1 hasMatch nbExt nbNon flatExt cand sel' js ind isNon src extTok prefLens yNext lensNext nbNext bNext lastNext isPNext rem padRow
  generalize hi : getN s j = i at hs ⊢
  have hs' : i < Kp * V + Kp := hs
  have hjK : j < K := hj
  have hind : ind j = i := hi
  have hisNon : getB isNon j = decide (Kp * V ≤ i) := by
    simp only [isNon, js]; rw [getB_map_range _ _ _ hjK, hind]
  have hsrc : getN src j = if Kp * V ≤ i then i - Kp * V else i / V := by
    simp only [src, js]; rw [getN_map_range _ _ _ hjK, hind]
  have hext : getN extTok j = i % V := by
    simp only [extTok, js]; rw [getN_map_range _ _ _ hjK, hind]
  have hpl : getN prefLens j = getN st.lens (getN src j) := by
    simp only [prefLens, js]; rw [getN_map_range _ _ _ hjK]
  have e_lens : getN (lensNext ++ List.replicate rem 0) j
      = getN prefLens j + (if getB isNon j = true then 0 else 1) := by
    show List.getD _ j 0 = _
    rw [getD_append_left' _ _ _ _ (by simp [lensNext, js]; exact hjK)]
    simp only [lensNext, js]
    rw [getD_map_range _ _ _ _ hjK]
  have e_y : (yNext ++ List.replicate rem padRow).getD j []
      = (padRowOf st (getN src j) ++ [0]).set (getN prefLens j) (getN extTok j) := by
    rw [getD_append_left' _ _ _ _ (by simp [yNext, js]; exact hjK)]
    simp only [yNext, js]
    rw [getD_map_range _ _ _ _ hjK]
    rfl
  have e_last : getN (lastNext ++ List.replicate rem 0) j
      = if getB isNon j = true then getN last (getN src j) else getN extTok j := by
    show List.getD _ j 0 = _
    rw [getD_append_left' _ _ _ _ (by simp [lastNext, js]; exact hjK)]
    simp only [lastNext, js]
    rw [getD_map_range _ _ _ _ hjK]
  show (Kp * V ≤ i → getN (lensNext ++ List.replicate rem 0) j = getN st.lens (i - Kp * V) ∧
        (yNext ++ List.replicate rem padRow).getD j []
          = (padRowOf st (i - Kp * V) ++ [0]).set (getN st.lens (i - Kp * V)) (i % V) ∧
        getN (lastNext ++ List.replicate rem 0) j = lastF V st (i - Kp * V)) ∧
      (i < Kp * V → getN (lensNext ++ List.replicate rem 0) j = getN st.lens (i / V) + 1 ∧
        (yNext ++ List.replicate rem padRow).getD j []
          = (padRowOf st (i / V) ++ [0]).set (getN st.lens (i / V)) (i % V) ∧
        getN (lastNext ++ List.replicate rem 0) j = i % V)
  rw [e_lens, e_y, e_last, hpl, hisNon, hsrc, hext]
  constructor
  · intro h
    simp only [h, decide_true, if_true, Nat.add_zero]
    refine ⟨trivial, trivial, ?_⟩
    have hk : i - Kp * V < Kp := by omega
    simp only [last, ks]
    rw [getN_map_range _ _ _ hk]
    rfl
  · intro h
    have hn : ¬ Kp * V ≤ i := by omega
    simp only [hn, decide_false, if_false, Bool.false_eq_true]
    exact ⟨trivial, trivial, trivial⟩



theorem padRowOf_valid {V : Nat} {st : State} (h : WF V st) {k : Nat} (hk : validB st k = true) :
    padRowOf st k = st.y.getD k [] ∧ (st.y.getD k []).length = st.tm1 := by
  have hrow := h.lens.2 k (h.rows k hk)
  unfold padRowOf
  rw [hrow, Nat.sub_self, List.replicate_zero, List.append_nil, ← hrow, List.take_length]
  exact ⟨rfl, rfl⟩

/-- the prefix held by an output slot whose source slot is real -/
theorem preOf_out (fix : Bool) {V : Nat} (width : Nat) (ext : List (List XR)) (nonext : List XR)
    (blank : XR) {st : State} (h : WF V st) (s : List Nat) (j : Nat)
    (hj : j < min width (st.nb.length * (V + 1)))
    (hs : getN s j < st.nb.length * V + st.nb.length) :
    (st.nb.length * V ≤ getN s j → validB st (getN s j - st.nb.length * V) = true →
      preOf (advance fix V width ext nonext blank st (some s)).st j
        = preOf st (getN s j - st.nb.length * V)) ∧
    (getN s j < st.nb.length * V → validB st (getN s j / V) = true →
      preOf (advance fix V width ext nonext blank st (some s)).st j
        = preOf st (getN s j / V) ++ [getN s j % V]) := by
  obtain ⟨h1, h2⟩ := advance_slots fix V width ext nonext blank st s j hj hs
  constructor
  · intro hi hv
    obtain ⟨e1, e2, _⟩ := h1 hi
    obtain ⟨hp, hrow⟩ := padRowOf_valid h hv
    unfold preOf
    rw [e1, e2, hp, List.take_set_of_le (Nat.le_refl _)]
    apply List.take_append_of_le_length
    rw [hrow]; exact h.lens.1 _
  · intro hi hv
    obtain ⟨e1, e2, _⟩ := h2 hi
    obtain ⟨hp, hrow⟩ := padRowOf_valid h hv
    unfold preOf
    rw [e1, e2, hp, take_succ_set _ _ _ (by
      rw [List.length_append, hrow]; have := h.lens.1 (getN s j / V); simp; omega)]
    congr 1
    apply List.take_append_of_le_length
    rw [hrow]; exact h.lens.1 _

theorem negInf_add (x : XR) (hx : x.clean = true) : (XR.negInf + x).isNegInf = true := by
  cases x <;> first | rfl | (exfalso; revert hx; simp [XR.clean]; done)

/-- **one step of the repaired array code computes one step of the map recursion**: every real
output slot carries exactly the `(nb, b)` that the forward recursion, applied to the map the
input state stands for, assigns to the slot's prefix. -/
theorem refine_step_values {V : Nat} (hV : 0 < V) (width : Nat) {f : Frame} {ext : List (List XR)}
    {nonext : List XR} {blank : XR} {st : State} (h : WF V st)
    (hf : FrameLink V f ext nonext blank st) (s : List Nat) (j : Nat)
    (hj : j < min width (st.nb.length * (V + 1)))
    (hs : getN s j < st.nb.length * V + st.nb.length)
    (hval : validB (advance true V width ext nonext blank st (some s)).st j = true) :
    let o := (advance true V width ext nonext blank st (some s)).st
    getX o.nb j = XR.fin ((stepFn V f (absGet st) (preOf o j)).1) ∧
    getX o.b j = XR.fin ((stepFn V f (absGet st) (preOf o j)).2) ∧
    ((st.nb.length * V ≤ getN s j ∧ validB st (getN s j - st.nb.length * V) = true ∧
        preOf o j = preOf st (getN s j - st.nb.length * V)) ∨
     (getN s j < st.nb.length * V ∧ validB st (getN s j / V) = true ∧
        preOf o j = preOf st (getN s j / V) ++ [getN s j % V] ∧
        ∀ k', validB st k' = true → preOf st k' ≠ preOf st (getN s j / V) ++ [getN s j % V])) := by
  intro o
  obtain ⟨m1, m2⟩ := advance_masses V width hV ext nonext blank st s j hj hs
  obtain ⟨p1, p2⟩ := preOf_out true width ext nonext blank h s j hj hs
  have hinvo : (getX o.nb j + getX o.b j).isNegInf = false := by
    have := (validB_iff.1 hval).2
    unfold invF at this
    simp only [Bool.and_eq_false_imp, decide_eq_true_eq] at this
    exact this (validB_iff.1 hval).1
  by_cases hi : st.nb.length * V ≤ getN s j
  · -- non-extending candidate of slot k
    obtain ⟨enb, eb⟩ := m1 hi
    have hk : getN s j - st.nb.length * V < st.nb.length := by omega
    have hvk : validB st (getN s j - st.nb.length * V) = true := by
      cases hinvk : invF st (getN s j - st.nb.length * V) with
      | false => exact validB_iff.2 ⟨hk, hinvk⟩
      | true =>
        exfalso
        have : getX o.nb j = XR.negInf := by rw [enb]; unfold nbNonF; rw [hinvk]; rfl
        have hb : (getX o.b j).clean = true := by
          rw [eb]; unfold bNonF totF; rw [hinvk, hf.blank]; rfl
        rw [this, negInf_add _ hb] at hinvo
        exact Bool.noConfusion hinvo
    have hp := p1 hi hvk
    have hinvk := (validB_iff.1 hvk).2
    refine ⟨?_, ?_, Or.inl ⟨hi, hvk, hp⟩⟩
    · rw [enb, hp]; unfold nbNonF; rw [hinvk]
      exact nbNon1F_valid hV h hf hvk
    · rw [eb, hp, bNonF_valid h hf hvk, Ctc.stepFn_snd, absGet_valid h hvk]
  · -- extending candidate (k, v)
    have hi' : getN s j < st.nb.length * V := by omega
    obtain ⟨enb, eb⟩ := m2 hi'
    have hk : getN s j / V < st.nb.length := by
      rw [Nat.div_lt_iff_lt_mul hV]; exact hi'
    have hv : getN s j % V < V := Nat.mod_lt _ hV
    -- the candidate was not masked
    have hnm : (hasMatchF V st (getN s j / V) (getN s j % V) || invF st (getN s j / V)) = false := by
      cases hm : (hasMatchF V st (getN s j / V) (getN s j % V) || invF st (getN s j / V)) with
      | false => rfl
      | true =>
        exfalso
        have : getX o.nb j = XR.negInf := by rw [enb]; unfold nbExtF; rw [hm]; rfl
        have hb : (getX o.b j).clean = true := by
          rw [eb]
          unfold bNonF totF
          rw [hf.blank]
          cases hinvk : invF st (getN s j / V) with
          | true => rfl
          | false =>
            obtain ⟨a, b⟩ := valid_fin h (validB_iff.2 ⟨hk, hinvk⟩)
            simp only [Bool.false_eq_true, if_false]
            rw [a, b]; rfl
        rw [this, negInf_add _ hb] at hinvo
        exact Bool.noConfusion hinvo
    simp only [Bool.or_eq_false_iff] at hnm
    have hvk : validB st (getN s j / V) = true := validB_iff.2 ⟨hk, hnm.2⟩
    have hp := p2 hi' hvk
    have hfresh : ∀ k', validB st k' = true → preOf st k' ≠ preOf st (getN s j / V) ++ [getN s j % V] := by
      intro k' hk' he
      have := (hasMatchF_iff h hvk (getN s j % V)).2 ⟨k', hk', he⟩
      rw [this] at hnm
      exact Bool.noConfusion hnm.1
    have hS : absGet st (preOf st (getN s j / V) ++ [getN s j % V]) = (0, 0) := absGet_none hfresh
    refine ⟨?_, ?_, Or.inr ⟨hi', hvk, hp, hfresh⟩⟩
    · rw [enb, hp]
      unfold nbExtF
      rw [hnm.1, hnm.2]
      simp only [Bool.or_self, Bool.false_eq_true, if_false]
      rw [nbExt0F_valid h hf hvk hv, Ctc.stepFn_fst, hS]
      have h1 : (preOf st (getN s j / V) ++ [getN s j % V]).getLast? = some (getN s j % V) := by simp
      have h2 : (preOf st (getN s j / V) ++ [getN s j % V]).dropLast = preOf st (getN s j / V) := by simp
      rw [h1]
      simp only [h2, hv, if_true, absGet_valid h hvk, zero_mul, zero_add]
    · rw [eb, hp, bNonF_valid h hf hvk, Ctc.stepFn_snd, hS]
      show XR.fin _ * XR.fin 0 = _
      rw [fin_mul]
      simp


/-- source slot of the candidate with flat index `i` -/
def srcOf (Kp V i : Nat) : Nat := if Kp * V ≤ i then i - Kp * V else i / V

theorem srcOf_lt {Kp V i : Nat} (hV : 0 < V) (hi : i < Kp * V + Kp) : srcOf Kp V i < Kp := by
  unfold srcOf
  split
  · omega
  · rw [Nat.div_lt_iff_lt_mul hV]; omega

/-- the prefix-matrix entry of two output slots, as the code computes it -/
theorem advance_isPrefix (V width : Nat) (hV : 0 < V) (ext : List (List XR)) (nonext : List XR)
    (blank : XR) (st : State) (s : List Nat) (j j' : Nat)
    (hj : j < min width (st.nb.length * (V + 1))) (hj' : j' < min width (st.nb.length * (V + 1)))
    (hs : getN s j < st.nb.length * V + st.nb.length)
    (hs' : getN s j' < st.nb.length * V + st.nb.length) :
    get2B (advance true V width ext nonext blank st (some s)).st.isPrefix j j' =
      (isPF st (srcOf st.nb.length V (getN s j)) (srcOf st.nb.length V (getN s j'))
       && decide (getN (advance true V width ext nonext blank st (some s)).st.lens j
                  ≤ getN (advance true V width ext nonext blank st (some s)).st.lens j')
       && (decide (st.nb.length * V ≤ getN s j)
           || (!decide (st.nb.length * V ≤ getN s j)
               && (get2N (advance true V width ext nonext blank st (some s)).st.y j'
                    (getN (advance true V width ext nonext blank st (some s)).st.lens j - 1)
                   == getN s j % V)))) := by
  unfold advance
  extract_lets Kp ks vs K tm1 tot0 invalid inv nbP bP tot isP last nbExt0 bNon nbNon0 toMatch exact nbNon1 hasMatch nbExt nbNon flatExt cand sel' js ind isNon src extTok prefLens yNext lensNext nbNext bNext lastNext isPNext rem padRow
  have hjK : j < K := hj
  have hjK' : j' < K := hj'
  have hKp : Kp = st.nb.length := rfl
  have h_inv : ∀ k, inv k = invF st k := by
    intro k
    show getB invalid k = _
    unfold invF
    by_cases hk : k < Kp
    · simp only [invalid, ks]
      rw [getB_map_range _ _ _ hk]
      simp only [tot0, ks, Bool.true_and]
      rw [getX_map_range _ _ _ hk]
      simp [← hKp, hk]
    · have : getB invalid k = false := by
        unfold getB; rw [getD_ge _ _ _ (by simp [invalid, ks]; omega)]
      rw [this]
      simp [← hKp, hk]
  have h_isP : ∀ k k', k < Kp → k' < Kp → get2B isP k k' = isPF st k k' := by
    intro k k' hk hk'; simp only [isP, ks]; rw [get2B_map_range2 _ _ _ _ _ hk hk', h_inv, h_inv]; rfl
  have hsrc : ∀ a, a < K → getN src a = srcOf Kp V (getN s a) := by
    intro a ha; simp only [src, js]; rw [getN_map_range _ _ _ ha]; rfl
  have hisNon : ∀ a, a < K → getB isNon a = decide (Kp * V ≤ getN s a) := by
    intro a ha; simp only [isNon, js]; rw [getB_map_range _ _ _ ha]
  have hext : ∀ a, a < K → getN extTok a = getN s a % V := by
    intro a ha; simp only [extTok, js]; rw [getN_map_range _ _ _ ha]
  have hlens : ∀ a, a < K → getN (lensNext ++ List.replicate rem 0) a = getN lensNext a := by
    intro a ha
    unfold getN
    exact getD_append_left' _ _ _ _ (by simp [lensNext, js]; exact ha)
  have hy : ∀ a x, a < K → get2N (yNext ++ List.replicate rem padRow) a x = get2N yNext a x := by
    intro a x ha
    unfold get2N
    rw [getD_append_left' _ _ _ _ (by simp [yNext, js]; exact ha)]
  show get2B (List.map (fun x => x ++ List.replicate rem false) isPNext ++
        List.replicate rem (List.replicate (K + rem) false)) j j' = _
  have e : get2B (List.map (fun x => x ++ List.replicate rem false) isPNext ++
        List.replicate rem (List.replicate (K + rem) false)) j j'
      = (get2B isP (getN src j) (getN src j') && decide (getN lensNext j ≤ getN lensNext j') &&
          (getB isNon j || (!getB isNon j && (get2N yNext j' (getN lensNext j - 1) == getN extTok j)))) := by
    unfold get2B
    rw [getD_append_left' _ _ _ _ (by simp [isPNext, js]; exact hjK)]
    rw [List.getD_eq_getElem?_getD, List.getElem?_map]
    have hl : j < isPNext.length := by simp [isPNext, js]; exact hjK
    rw [List.getElem?_eq_getElem hl]
    simp only [Option.map_some, Option.getD_some]
    unfold getB
    rw [getD_append_left' _ _ _ _ (by simp [isPNext, js]; exact hjK')]
    simp only [isPNext, js, List.getElem_map, List.getElem_range]
    rw [getD_map_range _ _ _ _ hjK']
    rfl
  rw [e, hsrc j hjK, hsrc j' hjK', hisNon j hjK, hext j hjK,
    h_isP _ _ (srcOf_lt hV hs) (srcOf_lt hV hs')]
  show _ = (isPF st _ _ && decide (getN (lensNext ++ List.replicate rem 0) j ≤ getN (lensNext ++ List.replicate rem 0) j')
      && (decide (Kp * V ≤ getN s j) || (!decide (Kp * V ≤ getN s j) &&
        (get2N (yNext ++ List.replicate rem padRow) j' (getN (lensNext ++ List.replicate rem 0) j - 1) == getN s j % V))))
  rw [hlens j hjK, hlens j' hjK', hy _ _ hjK']


theorem prefix_snoc_of {p q : List Nat} {v : Nat} (h : p <+: q) (hv : q[p.length]? = some v) :
    p ++ [v] <+: q := by
  rw [List.prefix_iff_getElem?] at h ⊢
  intro i hi
  simp only [List.length_append, List.length_singleton] at hi
  by_cases h1 : i < p.length
  · rw [h i h1, List.getElem_append_left h1]
  · have : i = p.length := by omega
    subst this
    rw [hv]
    simp

theorem prefix_snoc_elem {p q : List Nat} {v : Nat} (h : p ++ [v] <+: q) :
    q[p.length]? = some v ∧ p <+: q := by
  refine ⟨?_, (List.prefix_append p [v]).trans h⟩
  rw [List.prefix_iff_getElem?] at h
  have := h p.length (by simp)
  simpa using this

/-- general: length of the prefix held by a slot whose row is long enough -/
theorem preOf_length' {st : State} (hl : LensOk st) {k : Nat} (hk : k < st.y.length) :
    (preOf st k).length = getN st.lens k := by
  unfold preOf
  rw [List.length_take, hl.2 k hk]
  exact Nat.min_eq_left (hl.1 k)

theorem preOf_getElem? {st : State} (hl : LensOk st) {k : Nat} (hk : k < st.y.length) {x : Nat}
    (hx : x < getN st.lens k) : (preOf st k)[x]? = some (get2N st.y k x) := by
  unfold preOf get2N getN
  rw [List.getElem?_take]
  have hx' : x < st.lens.getD k 0 := hx
  simp only [hx', if_true]
  have : x < (st.y.getD k []).length := by
    rw [hl.2 k hk]; have := hl.1 k; unfold getN at this; omega
  rw [List.getElem?_eq_getElem this]
  congr 1
  generalize st.y.getD k [] = row at this
  rw [List.getD_eq_getElem?_getD, List.getElem?_eq_getElem this]
  rfl

theorem nodupB_getN : ∀ (s : List Nat), nodupB s = true → ∀ a b, a < s.length → b < s.length →
    getN s a = getN s b → a = b
  | [], _, a, _, ha, _, _ => by simp at ha
  | x :: r, h, a, b, ha, hb, he => by
    simp only [nodupB, Bool.and_eq_true, Bool.not_eq_true'] at h
    have hnotin : ∀ c, c < r.length → getN r c ≠ x := by
      intro c hc hx
      have : r.contains x = true := by
        rw [List.contains_iff_mem]
        rw [← hx]
        unfold getN
        rw [List.getD_eq_getElem?_getD, List.getElem?_eq_getElem hc]
        exact List.getElem_mem hc
      rw [this] at h
      exact Bool.noConfusion h.1
    cases a with
    | zero =>
      cases b with
      | zero => rfl
      | succ b =>
        exfalso
        have hb' : b < r.length := by simpa using hb
        exact hnotin b hb' (by simpa [getN] using he.symm)
    | succ a =>
      cases b with
      | zero =>
        exfalso
        have ha' : a < r.length := by simpa using ha
        exact hnotin a ha' (by simpa [getN] using he)
      | succ b =>
        have := nodupB_getN r h.2 a b (by simpa using ha) (by simpa using hb) (by simpa [getN] using he)
        omega


/-- what `isTopK` gives about the selection -/
theorem isTopK_facts {cand : List XR} {K : Nat} {s : List Nat} (h : isTopK cand K s = true) :
    s.length = K ∧ (∀ j, j < K → getN s j < cand.length) ∧
    (∀ a b, a < K → b < K → getN s a = getN s b → a = b) := by
  simp only [isTopK, Bool.and_eq_true, beq_iff_eq, List.all_eq_true, decide_eq_true_eq] at h
  obtain ⟨⟨⟨⟨hlen, hlt⟩, hnd⟩, _⟩, _⟩ := h
  refine ⟨hlen, ?_, ?_⟩
  · intro j hj
    have hjs : j < s.length := by omega
    have : getN s j = s[j] := by
      unfold getN; rw [List.getD_eq_getElem?_getD, List.getElem?_eq_getElem hjs]; rfl
    rw [this]
    exact hlt _ (List.getElem_mem hjs)
  · intro a b ha hb he
    exact nodupB_getN s hnd a b (by omega) (by omega) he

theorem isPF_valid_iff {V : Nat} {st : State} (h : WF V st) {k k' : Nat} (hvk : validB st k = true) (hvk' : validB st k' = true) :
    isPF st k k' = true ↔ preOf st k <+: preOf st k' := by
  unfold isPF
  rw [(validB_iff.1 hvk).2, (validB_iff.1 hvk').2]
  simp only [Bool.not_false, Bool.and_true]
  exact h.mat k k' hvk hvk'


section Preserve
variable {V : Nat} (hV : 0 < V) (width : Nat) {f : Frame} {ext : List (List XR)}
  {nonext : List XR} {blank : XR} {st : State} (h : WF V st)
  (hf : FrameLink V f ext nonext blank st) (s : List Nat)
  (hk : isTopK (advance true V width ext nonext blank st (some s)).cand
          (min width (st.nb.length * (V + 1))) s = true)
include hV h hf hk

/-- a real output slot is one of the selected candidates -/
theorem valid_out_lt (j : Nat)
    (hv : validB (advance true V width ext nonext blank st (some s)).st j = true) :
    j < min width (st.nb.length * (V + 1)) := by
  by_contra hn
  have hsz := advance_sized true V width ext nonext blank st (some s)
  have hjw : j < width := by rw [← hsz.1]; exact (validB_iff.1 hv).1
  have hfil := advance_filler true V width ext nonext blank st (some s) j (by omega) hjw
  simp only at hfil
  have := (validB_iff.1 hv).2
  unfold invF at this
  rw [hfil.1, hfil.2.1] at this
  simp only [Bool.and_eq_false_imp, decide_eq_true_eq] at this
  have := this (validB_iff.1 hv).1
  exact Bool.noConfusion this

/-- provenance of a real output slot -/
theorem prov (j : Nat) (hv : validB (advance true V width ext nonext blank st (some s)).st j = true) :
    let o := (advance true V width ext nonext blank st (some s)).st
    let i := getN s j
    let k := srcOf st.nb.length V i
    j < min width (st.nb.length * (V + 1)) ∧ i < st.nb.length * V + st.nb.length ∧
    validB st k = true ∧
    ((st.nb.length * V ≤ i ∧ preOf o j = preOf st k) ∨
     (i < st.nb.length * V ∧ preOf o j = preOf st k ++ [i % V] ∧
        ∀ k', validB st k' = true → preOf st k' ≠ preOf st k ++ [i % V])) := by
  intro o i k
  have hj := valid_out_lt hV width h hf s hk j hv
  have hcl := advance_cand_length true V width ext nonext blank st (some s)
  obtain ⟨_, hlt, _⟩ := isTopK_facts hk
  have hs : i < st.nb.length * V + st.nb.length := by rw [← hcl]; exact hlt j hj
  obtain ⟨_, _, hp⟩ := refine_step_values hV width h hf s j hj hs hv
  refine ⟨hj, hs, ?_⟩
  rcases hp with ⟨hi, hvk, hp⟩ | ⟨hi, hvk, hp, hfr⟩
  · have : k = i - st.nb.length * V := by show srcOf _ _ _ = _; unfold srcOf; rw [if_pos hi]
    rw [this]
    exact ⟨hvk, Or.inl ⟨hi, hp⟩⟩
  · have : k = i / V := by show srcOf _ _ _ = _; unfold srcOf; rw [if_neg (by omega)]
    rw [this]
    exact ⟨hvk, Or.inr ⟨hi, hp, hfr⟩⟩

/-- **C05_isprefix_inv + the other slot invariants**: a step of the repaired code with a legitimate
`topk` answer maps well-formed states to well-formed states. -/
theorem wf_advance (hext : ∀ r ∈ ext, ∀ x ∈ r, x.isFin = true) (hne : ∀ x ∈ nonext, x.isFin = true) :
    WF V (advance true V width ext nonext blank st (some s)).st := by
  have hsz := advance_sized true V width ext nonext blank st (some s)
  have hlo := advance_lensOk true V width ext nonext blank st (some s) h.lens
  have hrows : ∀ j, validB (advance true V width ext nonext blank st (some s)).st j = true →
      j < (advance true V width ext nonext blank st (some s)).st.y.length := by
    intro j hv; rw [hsz.2.2.2, ← hsz.1]; exact (validB_iff.1 hv).1
  obtain ⟨_, _, hnd⟩ := isTopK_facts hk
  refine ⟨advance_clean V width ext nonext blank st (some s) h.clean.1 h.clean.2 hext hne
      (by rw [hf.blank]; rfl), hlo, hrows, ?_, ?_, ?_, ?_, ?_⟩
  · -- distinct prefixes
    intro j j' hv hv' he
    obtain ⟨hj, hs, hvk, hp⟩ := prov hV width h hf s hk j hv
    obtain ⟨hj', hs', hvk', hp'⟩ := prov hV width h hf s hk j' hv'
    apply hnd j j' hj hj'
    rcases hp with ⟨hi, hp⟩ | ⟨hi, hp, hfr⟩ <;> rcases hp' with ⟨hi', hp'⟩ | ⟨hi', hp', hfr'⟩
    · have := h.dist _ _ hvk hvk' (by rw [← hp, ← hp', he])
      unfold srcOf at this
      rw [if_pos hi, if_pos hi'] at this
      omega
    · exfalso
      exact hfr' _ hvk (by rw [← hp, ← hp', he])
    · exfalso
      exact hfr _ hvk' (by rw [← hp, ← hp', he])
    · have e2 : preOf st (srcOf st.nb.length V (getN s j)) ++ [getN s j % V]
          = preOf st (srcOf st.nb.length V (getN s j')) ++ [getN s j' % V] := by rw [← hp, ← hp', he]
      obtain ⟨e3, e4⟩ := List.append_inj' e2 rfl
      have e5 := h.dist _ _ hvk hvk' e3
      have e6 : getN s j % V = getN s j' % V := by simpa using e4
      unfold srcOf at e5
      rw [if_neg (by omega), if_neg (by omega)] at e5
      rw [← Nat.div_add_mod (getN s j) V, ← Nat.div_add_mod (getN s j') V, e5, e6]
  · -- the prefix matrix
    intro j j' hv hv'
    obtain ⟨hj, hs, hvk, hp⟩ := prov hV width h hf s hk j hv
    obtain ⟨hj', hs', hvk', hp'⟩ := prov hV width h hf s hk j' hv'
    rw [advance_isPrefix V width hV ext nonext blank st s j j' hj hj' hs hs']
    have hL := preOf_length' hlo (hrows j hv)
    have hL' := preOf_length' hlo (hrows j' hv')
    have hisP := isPF_valid_iff h hvk hvk'
    have hPk' : preOf st (srcOf st.nb.length V (getN s j')) <+:
        preOf (advance true V width ext nonext blank st (some s)).st j' := by
      rcases hp' with ⟨_, hp'⟩ | ⟨_, hp', _⟩
      · rw [hp']; exact List.prefix_rfl
      · rw [hp']; exact List.prefix_append _ _
    simp only [Bool.and_eq_true, Bool.or_eq_true, decide_eq_true_eq, Bool.not_eq_true', beq_iff_eq,
      decide_eq_false_iff_not]
    rw [hisP, ← hL, ← hL']
    rcases hp with ⟨hi, hp⟩ | ⟨hi, hp, hfr⟩
    · -- `j` did not extend its source
      rw [hp]
      constructor
      · rintro ⟨⟨hpre, _⟩, _⟩
        exact hpre.trans hPk'
      · intro hpre
        refine ⟨⟨?_, hpre.length_le⟩, Or.inl hi⟩
        rcases hp' with ⟨_, hp'⟩ | ⟨_, hp', hfr'⟩
        · rw [hp'] at hpre; exact hpre
        · rw [hp', List.prefix_concat_iff] at hpre
          rcases hpre with he | hpre
          · exact absurd he (hfr' _ hvk)
          · exact hpre
    · -- `j` extended its source by `v`
      have hni : ¬ st.nb.length * V ≤ getN s j := by omega
      rw [hp]
      constructor
      · rintro ⟨⟨hpre, hle⟩, hor⟩
        rcases hor with hcon | ⟨_, hel⟩
        · exact absurd hcon hni
        · apply prefix_snoc_of (hpre.trans hPk')
          have hlen : (preOf st (srcOf st.nb.length V (getN s j)) ++ [getN s j % V]).length - 1
              = (preOf st (srcOf st.nb.length V (getN s j))).length := by simp
          rw [hlen] at hel
          rw [preOf_getElem? hlo (hrows j' hv') (by
            rw [← hL']; simp at hle; omega), hel]
      · intro hpre
        obtain ⟨hel, hpre0⟩ := prefix_snoc_elem hpre
        refine ⟨⟨?_, hpre.length_le⟩, Or.inr ⟨hni, ?_⟩⟩
        · rcases hp' with ⟨_, hp'⟩ | ⟨_, hp', _⟩
          · rw [hp'] at hpre0; exact hpre0
          · rw [hp', List.prefix_concat_iff] at hpre
            rcases hpre with he | hpre
            · rw [(List.append_inj' he rfl).1]; exact List.prefix_rfl
            · exact (List.prefix_append _ _).trans hpre
        · have hlen : (preOf st (srcOf st.nb.length V (getN s j)) ++ [getN s j % V]).length - 1
              = (preOf st (srcOf st.nb.length V (getN s j))).length := by simp
          rw [hlen]
          have hlt : (preOf st (srcOf st.nb.length V (getN s j))).length
              < getN (advance true V width ext nonext blank st (some s)).st.lens j' := by
            rw [← hL']; have := hpre.length_le; simp at this; omega
          rw [preOf_getElem? hlo (hrows j' hv') hlt] at hel
          exact Option.some.inj hel
  · -- tokens
    intro j hv x hx
    obtain ⟨hj, hs, hvk, hp⟩ := prov hV width h hf s hk j hv
    rcases hp with ⟨_, hp⟩ | ⟨_, hp, _⟩
    · rw [hp] at hx; exact h.tok _ hvk x hx
    · rw [hp] at hx
      rcases List.mem_append.1 hx with hx | hx
      · exact h.tok _ hvk x hx
      · have : x = getN s j % V := by simpa using hx
        rw [this]; exact Nat.mod_lt _ hV
  · -- last tokens
    intro j hv v hgl
    obtain ⟨hj, hs, hvk, hp⟩ := prov hV width h hf s hk j hv
    obtain ⟨a1, a2⟩ := advance_slots true V width ext nonext blank st s j hj hs
    rcases hp with ⟨hi, hp⟩ | ⟨hi, hp, _⟩
    · rw [(a1 hi).2.2]
      rw [hp] at hgl
      have hk' : srcOf st.nb.length V (getN s j) = getN s j - st.nb.length * V := by
        unfold srcOf; rw [if_pos hi]
      rw [← hk']
      exact (lastF_of_getLast h hvk hgl).1
    · rw [(a2 hi).2.2]
      rw [hp] at hgl
      simpa using hgl
  · -- the empty prefix carries no non-blank mass
    intro j hv he
    obtain ⟨hj, hs, hvk, hp⟩ := prov hV width h hf s hk j hv
    obtain ⟨e1, _, _⟩ := refine_step_values hV width h hf s j hj hs hv
    rw [e1, he, Ctc.stepFn_fst]
    simp

end Preserve


/-- the prefixes of the real slots of a state -/
def validPrefixes (st : State) : List (List Nat) :=
  ((List.range st.nb.length).filter (validB st)).map (preOf st)

theorem mem_validPrefixes {st : State} {p : List Nat} :
    p ∈ validPrefixes st ↔ ∃ k, validB st k = true ∧ preOf st k = p := by
  unfold validPrefixes
  simp only [List.mem_map, List.mem_filter, List.mem_range]
  constructor
  · rintro ⟨k, ⟨_, hv⟩, hp⟩; exact ⟨k, hv, hp⟩
  · rintro ⟨k, hv, hp⟩; exact ⟨k, ⟨(validB_iff.1 hv).1, hv⟩, hp⟩

/-- the finite map `bm` is the map the array state `st` stands for -/
def Rep (bm : Beam) (st : State) : Prop :=
  (∀ p, bm.get p = absGet st p) ∧ (∀ p, p ∈ bm.keys ↔ ∃ k, validB st k = true ∧ preOf st k = p)

theorem toRat_fin (q : Rat) : toRat (XR.fin q) = q := rfl

/-- **one step: the abstraction commutes** -/
theorem rep_step {V : Nat} (hV : 0 < V) (width : Nat) {f : Frame} {ext : List (List XR)}
    {nonext : List XR} {blank : XR} {st : State} (h : WF V st)
    (hf : FrameLink V f ext nonext blank st) (s : List Nat)
    (hk : isTopK (advance true V width ext nonext blank st (some s)).cand
            (min width (st.nb.length * (V + 1))) s = true)
    (hext : ∀ r ∈ ext, ∀ x ∈ r, x.isFin = true) (hne : ∀ x ∈ nonext, x.isFin = true)
    {bm : Beam} (hr : Rep bm st) :
    Rep (beamStep V f (validPrefixes (advance true V width ext nonext blank st (some s)).st) bm)
      (advance true V width ext nonext blank st (some s)).st := by
  have hwf := wf_advance hV width h hf s hk hext hne
  have hget : bm.get = absGet st := funext hr.1
  -- every real output prefix is a candidate
  have hcand : ∀ j, validB (advance true V width ext nonext blank st (some s)).st j = true →
      preOf (advance true V width ext nonext blank st (some s)).st j ∈ cands V bm := by
    intro j hv
    obtain ⟨_, _, hvk, hp⟩ := prov hV width h hf s hk j hv
    rw [Ctc.mem_cands]
    rcases hp with ⟨_, hp⟩ | ⟨_, hp, _⟩
    · exact Or.inl ((hr.2 _).2 ⟨_, hvk, hp.symm⟩)
    · exact Or.inr ⟨_, (hr.2 _).2 ⟨_, hvk, rfl⟩, _, Nat.mod_lt _ hV, hp⟩
  constructor
  · intro p
    rw [Ctc.get_beamStep, hget]
    by_cases hex : ∃ j, validB (advance true V width ext nonext blank st (some s)).st j = true ∧
        preOf (advance true V width ext nonext blank st (some s)).st j = p
    · obtain ⟨j, hv, hp⟩ := hex
      have hmem : p ∈ validPrefixes (advance true V width ext nonext blank st (some s)).st :=
        mem_validPrefixes.2 ⟨j, hv, hp⟩
      rw [if_pos ⟨hmem, hp ▸ hcand j hv⟩, ← hp, absGet_valid hwf hv]
      obtain ⟨hj, hs, _, _⟩ := prov hV width h hf s hk j hv
      obtain ⟨e1, e2, _⟩ := refine_step_values hV width h hf s j hj hs hv
      unfold nbq bq
      rw [e1, e2]
      rfl
    · have hnot : p ∉ validPrefixes (advance true V width ext nonext blank st (some s)).st := by
        intro hm; exact hex (mem_validPrefixes.1 hm)
      rw [if_neg (fun hh => hnot hh.1)]
      exact (absGet_none (fun k hv hp => hex ⟨k, hv, hp⟩)).symm
  · intro p
    rw [Ctc.keys_beamStep, List.mem_filter, mem_validPrefixes]
    constructor
    · rintro ⟨hm, _⟩; exact hm
    · rintro ⟨j, hv, hp⟩
      refine ⟨⟨j, hv, hp⟩, ?_⟩
      rw [List.contains_iff_mem, ← hp]
      exact hcand j hv


/-! ### whole runs -/

/-- iterating the repaired step over frames all of which are valid for the element -/
def runAll (V width : Nat) : State → List FrameIn → State
  | st, [] => st
  | st, fr :: frs => runAll V width (advance true V width fr.ext fr.nonext fr.blank st fr.sel).st frs

/-- the survivors the array code chose at each frame: the prefixes of its real slots -/
def keepsOf (V width : Nat) : State → List FrameIn → List (List (List Nat))
  | _, [] => []
  | st, fr :: frs =>
    validPrefixes (advance true V width fr.ext fr.nonext fr.blank st fr.sel).st ::
      keepsOf V width (advance true V width fr.ext fr.nonext fr.blank st fr.sel).st frs

/-- a run in which, at every frame, the probabilities handed to the step are finite and are those
of the specification frame (per real slot: the fused extension scores of the slot's prefix), and
the `topk` answer is legitimate -/
def GoodRun (V width : Nat) : State → List FrameIn → List Frame → Prop
  | _, [], [] => True
  | st, fr :: frs, f :: fs =>
    ∃ s, fr.sel = some s ∧ FrameLink V f fr.ext fr.nonext fr.blank st ∧
      (∀ r ∈ fr.ext, ∀ x ∈ r, x.isFin = true) ∧ (∀ x ∈ fr.nonext, x.isFin = true) ∧
      isTopK (advance true V width fr.ext fr.nonext fr.blank st (some s)).cand
        (min width (st.nb.length * (V + 1))) s = true ∧
      GoodRun V width (advance true V width fr.ext fr.nonext fr.blank st (some s)).st frs fs
  | _, _, _ => False

theorem rep_run {V : Nat} (hV : 0 < V) (width : Nat) :
    ∀ (frames : List FrameIn) (fs : List Frame) (st : State) (bm : Beam),
      WF V st → Rep bm st → GoodRun V width st frames fs →
      WF V (runAll V width st frames) ∧
        Rep (beamRun V fs (keepsOf V width st frames) bm) (runAll V width st frames)
  | [], [], st, bm, h, hr, _ => by simpa [runAll, keepsOf, beamRun] using ⟨h, hr⟩
  | [], _ :: _, _, _, _, _, hg => by simp [GoodRun] at hg
  | _ :: _, [], _, _, _, _, hg => by simp [GoodRun] at hg
  | fr :: frs, f :: fs, st, bm, h, hr, hg => by
    obtain ⟨s, hsel, hf, hext, hne, hk, hrest⟩ := hg
    simp only [runAll, keepsOf, hsel, Ctc.beamRun_cons]
    exact rep_run hV width frs fs _ _ (wf_advance hV width h hf s hk hext hne)
      (rep_step hV width h hf s hk hext hne hr) hrest

theorem validB_init (k : Nat) : validB initState k = true ↔ k = 0 := by
  constructor
  · intro h
    have := (validB_iff.1 h).1
    simp [initState] at this
    exact this
  · rintro rfl
    decide +kernel

theorem wf_init (V : Nat) : WF V initState := by
  refine ⟨⟨?_, ?_⟩, lensOk_init, ?_, ?_, ?_, ?_, ?_, ?_⟩
  · intro x hx
    have : x = XR.zero := by simpa [initState] using hx
    rw [this]; rfl
  · intro x hx
    have : x = XR.one := by simpa [initState] using hx
    rw [this]; rfl
  · intro k hk
    rw [(validB_init k).1 hk]; simp [initState]
  · intro k k' hk hk' _
    rw [(validB_init k).1 hk, (validB_init k').1 hk']
  · intro k k' hk hk'
    rw [(validB_init k).1 hk, (validB_init k').1 hk']
    simp [initState, get2B, getB, preOf, getN]
  · intro k hk x hx
    rw [(validB_init k).1 hk] at hx
    simp [initState, preOf, getN] at hx
  · intro k hk v hv
    rw [(validB_init k).1 hk] at hv
    simp [initState, preOf, getN] at hv
  · intro k hk _
    rw [(validB_init k).1 hk]
    rfl

theorem rep_init : Rep beamInit initState := by
  constructor
  · intro p
    by_cases hp : p = []
    · subst hp
      have := absGet_valid (wf_init 1) ((validB_init 0).2 rfl)
      have e : preOf initState 0 = [] := by simp [preOf, initState, getN]
      rw [e] at this
      rw [this]
      simp [Ctc.Beam.get, beamInit, List.lookup, nbq, bq, initState, getX, toRat, XR.zero, XR.one]
    · have : (p == []) = false := by simpa using hp
      rw [absGet_none (by
        intro k hk he
        rw [(validB_init k).1 hk] at he
        apply hp
        rw [← he]; simp [preOf, initState, getN])]
      simp [Ctc.Beam.get, beamInit, List.lookup, this]
  · intro p
    simp only [Ctc.Beam.keys, beamInit, List.map_cons, List.map_nil, List.mem_singleton]
    constructor
    · rintro rfl
      exact ⟨0, (validB_init 0).2 rfl, by simp [preOf, initState, getN]⟩
    · rintro ⟨k, hk, he⟩
      rw [(validB_init k).1 hk] at he
      rw [← he]; simp [preOf, initState, getN]

/-- the module loop on an element all of whose frames are valid is `runAll` -/
theorem loop_eq_runAll (V width len : Nat) :
    ∀ (frames : List FrameIn) (t : Nat) (st : State), t + frames.length ≤ len →
      (loop true V width len t st frames).1 = runAll V width st frames
  | [], _, st, _ => by simp [loop, runAll]
  | fr :: frs, t, st, ht => by
    have hd : decide (t < len) = true := by simp at ht ⊢; omega
    simp only [loop, hd, runAll]
    have : (loopStep true V width true st fr).1
        = (advance true V width fr.ext fr.nonext fr.blank st fr.sel).st := by simp [loopStep]
    rw [this]
    exact loop_eq_runAll V width len frs (t + 1) _ (by simp at ht; omega)


theorem runAll_sized (V width : Nat) : ∀ (frames : List FrameIn) (st : State), frames ≠ [] →
    Sized width (runAll V width st frames)
  | [], _, h => absurd rfl h
  | [fr], st, _ => by simpa [runAll] using advance_sized true V width fr.ext fr.nonext fr.blank st fr.sel
  | fr :: fr2 :: frs, st, _ => by
    simp only [runAll]
    exact runAll_sized V width (fr2 :: frs) _ (by simp)

/-- the result of the module for an element with `frames.length` valid frames, read off the
final state of the run -/
theorem search_eq_runAll (V width : Nat) (frames : List FrameIn) (hne : frames ≠ []) (k : Nat)
    (hk : k < width) :
    let r := (search true V width frames.length frames).1
    let stf := runAll V width initState frames
    getX r.probs k = getX stf.nb k + getX stf.b k ∧ r.prefixes.getD k [] = preOf stf k := by
  intro r stf
  have e : r = finish width stf := by
    show (search true V width frames.length frames).1 = _
    simp only [search]
    rw [loop_eq_runAll V width frames.length frames 0 initState (by omega)]
  have hs : Sized width stf := runAll_sized V width frames initState hne
  constructor
  · rw [e, finish_probs_of_sized width _ hs]
    exact getX_map_range _ _ _ hk
  · rw [e]
    have hc : (width == 1 && width != 1) = false := by
      cases h : width == 1 <;> simp [bne, h]
    simp only [finish, hs.1, hc, Bool.false_eq_true, if_false, hs.2.2.1]
    rw [getD_map_range _ _ _ _ hk]
    rfl

/-- the total of a real slot, as a rational -/
theorem total_of_valid {V : Nat} {st : State} (h : WF V st) {k : Nat} (hk : validB st k = true) :
    getX st.nb k + getX st.b k = XR.fin (nbq st k + bq st k) := by
  obtain ⟨a, b⟩ := valid_fin h hk
  rw [a, b]; rfl

/-- a slot whose total is a rational number is a real slot -/
theorem valid_of_total_fin {st : State} {k : Nat} (hk : k < st.nb.length) {q : Rat}
    (h : getX st.nb k + getX st.b k = XR.fin q) : validB st k = true := by
  apply validB_iff.2 ⟨hk, ?_⟩
  unfold invF
  rw [h]
  simp [XR.isNegInf]


end PdtVerif.CtcPrefix
