import PdtVerif.Spec.Estimators
import Mathlib.Analysis.SpecialFunctions.Log.Basic
import Mathlib.Algebra.BigOperators.Group.List.Basic
import Mathlib.Algebra.BigOperators.Ring.List
import Mathlib.Algebra.Field.Basic
import Mathlib.Algebra.Order.Field.Basic
import Mathlib.Data.Nat.Choose.Basic
import Mathlib.Data.List.Nodup
import Mathlib.Data.Nat.Factorial.Basic
import Mathlib.Tactic.Ring
import Mathlib.Tactic.FieldSimp
import Mathlib.Tactic.Linarith
/-!
# C19 — helper lemmas (dual numbers, sums over the tuple space, SRSWOR invariant,
logistic identities). Property theorems are in `Properties/C19.lean`.
-/
namespace PdtVerif.Estimators

/-! ## dual numbers and the tuple space -/


section
variable {α : Type} [Field α]

@[simp] theorem Dual.add_val (a b : Dual α) : (a + b).val = a.val + b.val := rfl
@[simp] theorem Dual.add_grad (a b : Dual α) : (a + b).grad = a.grad + b.grad := rfl
@[simp] theorem Dual.sub_val (a b : Dual α) : (a - b).val = a.val - b.val := rfl
@[simp] theorem Dual.sub_grad (a b : Dual α) : (a - b).grad = a.grad - b.grad := rfl
@[simp] theorem Dual.mul_val (a b : Dual α) : (a * b).val = a.val * b.val := rfl
@[simp] theorem Dual.mul_grad (a b : Dual α) : (a * b).grad = a.grad * b.val + a.val * b.grad := rfl
@[simp] theorem Dual.zero_val : (0 : Dual α).val = 0 := rfl
@[simp] theorem Dual.zero_grad : (0 : Dual α).grad = 0 := rfl
@[simp] theorem Dual.detach_val (a : Dual α) : a.detach.val = a.val := rfl
@[simp] theorem Dual.detach_grad (a : Dual α) : a.detach.grad = 0 := rfl

omit [Field α] in
theorem Dual.ext' {a b : Dual α} (h1 : a.val = b.val) (h2 : a.grad = b.grad) : a = b := by
  cases a; cases b; simp_all

theorem Dual.sum_val (xs : List (Dual α)) : (Dual.sum xs).val = (xs.map (·.val)).sum := by
  induction xs with
  | nil => rfl
  | cons x xs ih => simp only [List.map_cons, List.sum_cons, ← ih]; rfl

theorem Dual.sum_grad (xs : List (Dual α)) : (Dual.sum xs).grad = (xs.map (·.grad)).sum := by
  induction xs with
  | nil => rfl
  | cons x xs ih => simp only [List.map_cons, List.sum_cons, ← ih]; rfl

theorem Dual.mean_val (xs : List (Dual α)) :
    (Dual.mean xs).val = (xs.map (·.val)).sum / (xs.length : α) := by
  simp [Dual.mean, Dual.divConst, Dual.sum_val]

theorem Dual.mean_grad (xs : List (Dual α)) :
    (Dual.mean xs).grad = (xs.map (·.grad)).sum / (xs.length : α) := by
  simp [Dual.mean, Dual.divConst, Dual.sum_grad]

omit [Field α] in
theorem zipWith_map_map {β γ δ ε : Type} (l : List β) (f : β → γ) (g : β → δ) (h : γ → δ → ε) :
    List.zipWith h (l.map f) (l.map g) = l.map (fun x => h (f x) (g x)) := by
  induction l with
  | nil => rfl
  | cons x xs ih => simp [ih]

theorem directEstimate_val (ss : List (DirectSample α)) (μ : Option (Dual α)) :
    (directEstimate ss μ).val = (ss.map fun s => (directFb μ s).val).sum / (ss.length : α) := by
  simp only [directEstimate, Dual.add_val, Dual.sub_val, Dual.detach_val, Dual.mean_val,
    List.map_map, List.length_map, add_sub_cancel_right, Function.comp_def]

theorem directEstimate_grad (ss : List (DirectSample α)) (μ : Option (Dual α)) :
    (directEstimate ss μ).grad =
      (ss.map fun s => (directFb μ s).grad + (directFb μ s).val * s.logp.grad).sum / (ss.length : α) := by
  simp only [directEstimate, Dual.add_grad, Dual.sub_grad, Dual.detach_grad, Dual.mean_grad,
    List.map_map, List.length_map, zipWith_map_map, sub_zero, Function.comp_def,
    Dual.mul_grad, Dual.detach_val, zero_mul, zero_add]
  rw [← add_div, ← List.sum_map_add]


/-! ### sums over the tuple space -/
variable {β : Type}

omit [Field α] in
theorem sum_map_flatMap {γ : Type} [AddCommMonoid γ] (l : List β) (F : β → List (List β)) (h : List β → γ) :
    ((l.flatMap F).map h).sum = (l.map fun b => ((F b).map h).sum).sum := by
  induction l with
  | nil => simp
  | cons x xs ih => simp [List.flatMap_cons, ih]

theorem weight_cons (w : β → α) (b : β) (t : List β) : weight w (b :: t) = w b * weight w t := by
  simp [weight]

theorem weight_nil (w : β → α) : weight w ([] : List β) = 1 := by simp [weight]

omit [Field α] in
theorem length_of_mem_tuples (Ω : List β) : ∀ (N : Nat) (t : List β), t ∈ tuples N Ω → t.length = N := by
  intro N
  induction N with
  | zero => intro t ht; simp [tuples] at ht; simp [ht]
  | succ n ih =>
    intro t ht
    simp only [tuples, List.mem_flatMap, List.mem_map] at ht
    obtain ⟨b, _, t', ht', rfl⟩ := ht
    simp [ih t' ht']

omit [Field α] in
theorem mem_of_mem_tuples (Ω : List β) : ∀ (N : Nat) (t : List β), t ∈ tuples N Ω → ∀ b ∈ t, b ∈ Ω := by
  intro N
  induction N with
  | zero => intro t ht; simp [tuples] at ht; simp [ht]
  | succ n ih =>
    intro t ht
    simp only [tuples, List.mem_flatMap, List.mem_map] at ht
    obtain ⟨b, hb, t', ht', rfl⟩ := ht
    intro x hx
    simp only [List.mem_cons] at hx
    rcases hx with rfl | hx
    · exact hb
    · exact ih t' ht' x hx

theorem sum_weight_tuples (w : β → α) (Ω : List β) (hw : (Ω.map w).sum = 1) (N : Nat) :
    ((tuples N Ω).map (weight w)).sum = 1 := by
  induction N with
  | zero => simp [tuples, weight]
  | succ n ih =>
    simp only [tuples, sum_map_flatMap, List.map_map, Function.comp_def, weight_cons]
    simp only [List.sum_map_mul_left, ih, mul_one]
    exact hw

theorem sum_additive_tuples (w g : β → α) (Ω : List β) (hw : (Ω.map w).sum = 1) (N : Nat) :
    ((tuples N Ω).map fun t => weight w t * (t.map g).sum).sum
      = (N : α) * (Ω.map fun b => w b * g b).sum := by
  induction N with
  | zero => simp [tuples, weight]
  | succ n ih =>
    simp only [tuples, sum_map_flatMap, List.map_map, Function.comp_def, weight_cons,
      List.map_cons, List.sum_cons]
    have key : ∀ b : β, ((tuples n Ω).map fun t => w b * weight w t * (g b + (t.map g).sum)).sum
        = w b * g b + w b * ((n : α) * (Ω.map fun b => w b * g b).sum) := by
      intro b
      have e : (fun t : List β => w b * weight w t * (g b + (t.map g).sum))
          = fun t => (w b * g b) * weight w t + w b * (weight w t * (t.map g).sum) := by
        funext t; ring
      rw [e, List.sum_map_add, List.sum_map_mul_left, List.sum_map_mul_left, ih,
        sum_weight_tuples w Ω hw n, mul_one]
    simp only [key, List.sum_map_add, List.sum_map_mul_right, hw]
    push_cast
    ring

/-- An estimator whose value and gradient are sample means of per-point quantities has, as its
average over the whole sample space, the exact weighted sums. -/
theorem meanOver_additive (w : β → α) (Ω : List β) (hw : (Ω.map w).sum = 1) (N : Nat)
    (hN : (N : α) ≠ 0) (G : List β → Dual α) (gv gg : β → α)
    (hG : ∀ t ∈ tuples N Ω, G t = ⟨(t.map gv).sum / (N : α), (t.map gg).sum / (N : α)⟩) :
    meanOver w N Ω G = ⟨(Ω.map fun b => w b * gv b).sum, (Ω.map fun b => w b * gg b).sum⟩ := by
  have h1 : ∀ g : β → α, ((tuples N Ω).map fun t => weight w t * ((t.map g).sum / (N : α))).sum
      = (Ω.map fun b => w b * g b).sum := by
    intro g
    have e : (fun t : List β => weight w t * ((t.map g).sum / (N : α)))
        = fun t => (weight w t * (t.map g).sum) * (N : α)⁻¹ := by
      funext t; rw [div_eq_mul_inv]; ring
    rw [e, List.sum_map_mul_right, sum_additive_tuples w g Ω hw N]
    field_simp
  apply Dual.ext'
  · simp only [meanOver, Dual.sum_val, List.map_map, Function.comp_def, Dual.smul]
    rw [← h1 gv]
    congr 1
    apply List.map_congr_left
    intro t ht
    rw [hG t ht]
  · simp only [meanOver, Dual.sum_grad, List.map_map, Function.comp_def, Dual.smul]
    rw [← h1 gg]
    congr 1
    apply List.map_congr_left
    intro t ht
    rw [hG t ht]

end

/-! ## SRSWOR -/


/-- `remainder_t` when `r` positions of the vector remain: `max r 1`. -/
def clampR (r : Nat) : Rat := if (r : Rat) < 1 then 1 else (r : Rat)

theorem clampR_zero : clampR 0 = 1 := by simp [clampR]
theorem clampR_succ (r : Nat) : clampR (r + 1) = (r : Rat) + 1 := by
  have : ¬ ((r : Rat) + 1 < 1) := by
    have : (0 : Rat) ≤ (r : Rat) := by exact_mod_cast Nat.zero_le r
    linarith
  simp [clampR, this]

theorem clampR_step_zero : (if clampR 0 - 1 < 1 then (1 : Rat) else clampR 0 - 1) = clampR 0 := by
  simp [clampR_zero]

theorem clampR_step_succ (r : Nat) :
    (if clampR (r + 1) - 1 < 1 then (1 : Rat) else clampR (r + 1) - 1) = clampR r := by
  rw [clampR_succ]
  simp [clampR]

theorem consistent_iff (p o : Rat) : bernoulliConsistent (p, o) = true ↔
    (o = 0 ∨ o = 1) ∧ (p = 1 → o = 1) ∧ (p = 0 → o = 0) := by
  simp only [bernoulliConsistent, Bool.and_eq_true, Bool.or_eq_true, beq_iff_eq, bne_iff_ne, ne_eq]
  constructor
  · rintro ⟨⟨h1, h2⟩, h3⟩
    exact ⟨h1, fun hp => h2.resolve_left (fun h => h hp), fun hp => h3.resolve_left (fun h => h hp)⟩
  · rintro ⟨h1, h2, h3⟩
    refine ⟨⟨h1, ?_⟩, ?_⟩
    · by_cases hp : p = 1
      · exact Or.inr (h2 hp)
      · exact Or.inl hp
    · by_cases hp : p = 0
      · exact Or.inr (h3 hp)
      · exact Or.inl hp

theorem srsworLoop_spec : ∀ (os : List Rat) (ell r : Nat), ell ≤ r → r ≤ os.length →
    (∀ s ∈ srsworLoop ell (clampR r) os, bernoulliConsistent s = true) →
    (∀ b ∈ (srsworLoop ell (clampR r) os).map Prod.snd, b = 0 ∨ b = 1) ∧
    (((srsworLoop ell (clampR r) os).map Prod.snd).take r).sum = (ell : Rat) ∧
    (∀ b ∈ ((srsworLoop ell (clampR r) os).map Prod.snd).drop r, b = 0) := by
  intro os
  induction os with
  | nil =>
    intro ell r h1 h2 _
    have : r = 0 := by simpa using h2
    subst this
    have : ell = 0 := by omega
    subst this
    simp [srsworLoop]
  | cons o os ih =>
    intro ell r h1 h2 hc
    cases r with
    | zero =>
      have : ell = 0 := by omega
      subst this
      simp only [srsworLoop, List.mem_cons, forall_eq_or_imp] at hc
      obtain ⟨hc0, hcr⟩ := hc
      rw [consistent_iff] at hc0
      have ho : o = 0 := hc0.2.2 (by simp)
      subst ho
      have hstep : srsworLoop (((0 : Nat) : Rat) - 0) (if clampR 0 - 1 < 1 then 1 else clampR 0 - 1) os
          = srsworLoop ((0 : Nat) : Rat) (clampR 0) os := by
        rw [clampR_step_zero]; simp
      rw [hstep] at hcr
      obtain ⟨a, b, c⟩ := ih 0 0 (le_refl _) (Nat.zero_le _) hcr
      simp only [srsworLoop, hstep]
      refine ⟨?_, by simp, ?_⟩
      · intro b hb
        simp only [List.map_cons, List.mem_cons] at hb
        rcases hb with rfl | hb
        · exact Or.inl rfl
        · exact a b hb
      · intro b hb
        simp only [List.map_cons, List.drop_zero, List.mem_cons] at hb
        rcases hb with rfl | hb
        · rfl
        · exact c b (by simpa using hb)
    | succ r =>
      simp only [srsworLoop, List.mem_cons, forall_eq_or_imp] at hc
      obtain ⟨hc0, hcr⟩ := hc
      rw [consistent_iff] at hc0
      obtain ⟨hbin, hp1, hp0⟩ := hc0
      have hr : clampR (r + 1) = (r : Rat) + 1 := clampR_succ r
      have hrpos : (0 : Rat) < (r : Rat) + 1 := by
        have : (0 : Rat) ≤ (r : Rat) := by exact_mod_cast Nat.zero_le r
        linarith
      rw [clampR_step_succ] at hcr
      have hlen : r ≤ os.length := by simpa using h2
      rcases hbin with rfl | rfl
      · -- outcome 0: then ell ≤ r
        have hell : ell ≤ r := by
          by_contra hcon
          have : ell = r + 1 := by omega
          have hp : (ell : Rat) / clampR (r + 1) = 1 := by
            rw [hr, this]; push_cast; exact div_self hrpos.ne'
          have := hp1 hp
          norm_num at this
        have e : ((ell : Nat) : Rat) - 0 = ((ell : Nat) : Rat) := by ring
        rw [e] at hcr
        obtain ⟨a, b, c⟩ := ih ell r hell hlen hcr
        simp only [srsworLoop, clampR_step_succ, e]
        refine ⟨?_, ?_, ?_⟩
        · intro x hx
          simp only [List.map_cons, List.mem_cons] at hx
          rcases hx with rfl | hx
          · exact Or.inl rfl
          · exact a x hx
        · simp only [List.map_cons, List.take_succ_cons, List.sum_cons, b]; ring
        · intro x hx
          simp only [List.map_cons, List.drop_succ_cons] at hx
          exact c x hx
      · -- outcome 1: then 1 ≤ ell
        have hell : 1 ≤ ell := by
          by_contra hcon
          have : ell = 0 := by omega
          have hp : (ell : Rat) / clampR (r + 1) = 0 := by
            rw [this]; simp
          have := hp0 hp
          norm_num at this
        have e : ((ell : Nat) : Rat) - 1 = ((ell - 1 : Nat) : Rat) := by
          rw [Nat.cast_sub hell]; simp
        rw [e] at hcr
        obtain ⟨a, b, c⟩ := ih (ell - 1) r (by omega) hlen hcr
        simp only [srsworLoop, clampR_step_succ, e]
        refine ⟨?_, ?_, ?_⟩
        · intro x hx
          simp only [List.map_cons, List.mem_cons] at hx
          rcases hx with rfl | hx
          · exact Or.inr rfl
          · exact a x hx
        · simp only [List.map_cons, List.take_succ_cons, List.sum_cons, b]
          rw [Nat.cast_sub hell]; simp
        · intro x hx
          simp only [List.map_cons, List.drop_succ_cons] at hx
          exact c x hx


/-! ## logistic / Bernoulli relaxation over ℝ -/


noncomputable def TR : Transc ℝ := ⟨Real.exp, Real.log⟩

theorem lbCsample_one_pos (eps p v : ℝ) (heps : 0 ≤ eps) (hp1 : p < 1) (hv : 0 < v) (hv1 : v < 1) :
    0 < lbCsample TR eps p v 1 := by
  have hden : 0 < (1 - v) * (1 - p) := mul_pos (by linarith) (by linarith)
  have h1 : 1 < v / ((1 - v) * (1 - p)) + 1 := by
    have : 0 < v / ((1 - v) * (1 - p)) := div_pos hv hden
    linarith
  have hl := Real.log_pos h1
  have e : lbCsample TR eps p v 1 = Real.log (v / ((1 - v) * (1 - p)) + 1) + eps := by
    simp only [lbCsample, TR]; ring_nf
  rw [e]; linarith

theorem lbCsample_zero_neg (eps p v : ℝ) (hp : 0 < p) (hv : 0 < v) (hv1 : v < 1) :
    lbCsample TR eps p v 0 < 0 := by
  have hden : 0 < (1 - v) * p := mul_pos (by linarith) hp
  have h1 : 1 < v / ((1 - v) * p) + 1 := by
    have : 0 < v / ((1 - v) * p) := div_pos hv hden
    linarith
  have hl := Real.log_pos h1
  have e : lbCsample TR eps p v 0 = - Real.log (v / ((1 - v) * p) + 1) := by
    simp only [lbCsample, TR]; ring_nf
  rw [e]; linarith

theorem lb_sigmoid_eq (l : ℝ) : TR.sigmoid l = Real.exp l / (1 + Real.exp l) := by
  simp only [Transc.sigmoid, TR, Real.exp_neg]
  have := Real.exp_pos l
  field_simp
  ring


/-- `log(1 + e^{-l}) = log(1 + e^{l}) - l` -/
theorem log1p_exp_neg (l : ℝ) : Real.log (1 + Real.exp (-l)) = Real.log (1 + Real.exp l) - l := by
  have hpos : 0 < 1 + Real.exp l := by have := Real.exp_pos l; linarith
  have e : 1 + Real.exp (-l) = (1 + Real.exp l) / Real.exp l := by
    rw [Real.exp_neg]; have := Real.exp_pos l; field_simp; ring
  rw [e, Real.log_div hpos.ne' (Real.exp_pos l).ne', Real.log_exp]

/-- the executed (stable) form of `-BCE-with-logits` is its documented meaning, for every `b` -/
theorem lbTlogProb_eq_doc (logit b : ℝ) : lbTlogProb TR logit b = lbTlogProbDoc TR logit b := by
  have hpos : 0 < 1 + Real.exp logit := by have := Real.exp_pos logit; linarith
  have hs := lb_sigmoid_eq logit
  have h1 : Real.log (TR.sigmoid logit) = logit - Real.log (1 + Real.exp logit) := by
    rw [hs, Real.log_div (Real.exp_pos logit).ne' hpos.ne', Real.log_exp]
  have h0 : Real.log (1 - TR.sigmoid logit) = - Real.log (1 + Real.exp logit) := by
    have : 1 - TR.sigmoid logit = (1 + Real.exp logit)⁻¹ := by
      rw [hs]; field_simp; ring
    rw [this, Real.log_inv]
  simp only [lbTlogProb, lbTlogProbDoc, Transc.log1p]
  have e1 : TR.log = Real.log := rfl
  have e2 : TR.exp = Real.exp := rfl
  rw [e1, e2, h1, h0, log1p_exp_neg]
  ring

theorem lb_sigmoid_neg (l : ℝ) : TR.sigmoid (-l) = 1 - TR.sigmoid l := by
  rw [lb_sigmoid_eq, lb_sigmoid_eq, Real.exp_neg]
  have := Real.exp_pos l
  field_simp
  ring

theorem lb_sigmoid_pos (l : ℝ) : 0 < TR.sigmoid l ∧ TR.sigmoid l < 1 := by
  rw [lb_sigmoid_eq]
  have := Real.exp_pos l
  constructor
  · positivity
  · rw [div_lt_one (by linarith)]; linarith

theorem lb_logit_sigmoid (l : ℝ) : Real.log (TR.sigmoid l / (1 - TR.sigmoid l)) = l := by
  have h := Real.exp_pos l
  have e : TR.sigmoid l / (1 - TR.sigmoid l) = Real.exp l := by
    rw [lb_sigmoid_eq]; field_simp; ring
  rw [e, Real.log_exp]

/-- `clamp_probs` lands strictly inside the unit interval (`0 < eps < 1/2`), whatever its input -/
theorem clampProbs_mem (eps x : ℝ) (h0 : 0 < eps) (h1 : eps < 1 / 2) :
    0 < clampProbs eps x ∧ clampProbs eps x < 1 := by
  simp only [clampProbs]
  constructor <;> (split_ifs <;> linarith)

/-- inside `[eps, 1 - eps]` the clamp is the identity -/
theorem clampProbs_id (eps x : ℝ) (h0 : eps ≤ x) (h1 : x ≤ 1 - eps) : clampProbs eps x = x := by
  simp only [clampProbs]
  split_ifs <;> linarith

/-- `z(u)` of `rsample` as a single logarithm -/
theorem lbRsample_eq (p u : ℝ) (hp : 0 < p) (hp1 : p < 1) (hu : 0 < u) (hu1 : u < 1) :
    lbRsample TR (Real.log (p / (1 - p))) u = Real.log (p * u / ((1 - p) * (1 - u))) := by
  have h1 : (0 : ℝ) < 1 - p := by linarith
  have h2 : (0 : ℝ) < 1 - u := by linarith
  simp only [lbRsample, TR, Transc.log1p]
  have e : (1 : ℝ) + -u = 1 - u := by ring
  rw [e, Real.log_div (mul_pos hp hu).ne' (mul_pos h1 h2).ne', Real.log_mul hp.ne' hu.ne',
    Real.log_mul h1.ne' h2.ne', Real.log_div hp.ne' h1.ne']
  ring


/-! ## argmax and one-hot sums (categorical relaxation) -/
section Argmax
variable {α : Type} [LinearOrder α]

theorem argmaxFrom_keep : ∀ (xs : List α) (i bi : Nat) (bv : α), (∀ x ∈ xs, ¬ bv < x) →
    argmaxFrom i bi bv xs = bi := by
  intro xs
  induction xs with
  | nil => intro i bi bv _; rfl
  | cons x xs ih =>
    intro i bi bv h
    have hx : ¬ bv < x := h x (by simp)
    simp only [argmaxFrom, hx, if_false]
    exact ih (i + 1) bi bv (fun y hy => h y (by simp [hy]))

theorem argmaxFrom_found (m : α) (post : List α) (hpost : ∀ x ∈ post, x < m) :
    ∀ (pre : List α) (i bi : Nat) (bv : α), bv < m → (∀ x ∈ pre, x < m) →
      argmaxFrom i bi bv (pre ++ m :: post) = i + pre.length := by
  intro pre
  induction pre with
  | nil =>
    intro i bi bv hbv _
    simp only [List.nil_append, argmaxFrom, hbv, if_true, List.length_nil, Nat.add_zero]
    exact argmaxFrom_keep post (i + 1) i m (fun x hx => not_lt.mpr (hpost x hx).le)
  | cons x pre ih =>
    intro i bi bv hbv hpre
    have hx : x < m := hpre x (by simp)
    have hpre' : ∀ y ∈ pre, y < m := fun y hy => hpre y (by simp [hy])
    simp only [List.cons_append, argmaxFrom, List.length_cons]
    split
    · rw [ih (i + 1) i x hx hpre']; omega
    · rw [ih (i + 1) bi bv hbv hpre']; omega

/-- a strict maximum at position `k` is what `argmax` returns -/
theorem argmax_of_strict_max (z : List α) (k : Nat) (hk : k < z.length)
    (h : ∀ j (hj : j < z.length), j ≠ k → z[j] < z[k]) : argmax z = k := by
  cases z with
  | nil => simp at hk
  | cons x xs =>
    cases k with
    | zero =>
      simp only [argmax]
      apply argmaxFrom_keep
      intro y hy
      obtain ⟨j, hj, rfl⟩ := List.getElem_of_mem hy
      have := h (j + 1) (by simp; omega) (by omega)
      simp at this
      exact not_lt.mpr this.le
    | succ k =>
      have hk' : k < xs.length := by simpa using hk
      simp only [argmax]
      have hsplit : xs = xs.take k ++ xs[k] :: xs.drop (k + 1) := by
        rw [List.getElem_cons_drop, List.take_append_drop]
      have hm : x < xs[k] := by
        have := h 0 (by simp) (by omega)
        simpa using this
      have hpre : ∀ y ∈ xs.take k, y < xs[k] := by
        intro y hy
        obtain ⟨j, hj, rfl⟩ := List.getElem_of_mem hy
        have hj' : j < k := by simp at hj; omega
        have := h (j + 1) (by simp; omega) (by omega)
        simp only [List.getElem_cons_succ] at this
        simpa [List.getElem_take] using this
      have hpost : ∀ y ∈ xs.drop (k + 1), y < xs[k] := by
        intro y hy
        obtain ⟨j, hj, rfl⟩ := List.getElem_of_mem hy
        have hj' : k + 1 + j < xs.length := by simp at hj; omega
        have := h (k + 1 + j + 1) (by simp; omega) (by omega)
        simp only [List.getElem_cons_succ] at this
        simpa [List.getElem_drop] using this
      rw [hsplit, argmaxFrom_found xs[k] _ hpost _ 1 0 x hm hpre]
      simp [List.length_take]; omega

end Argmax

section Gumbel
variable {α : Type} [Field α] [LinearOrder α] [IsStrictOrderedRing α]

omit [LinearOrder α] [IsStrictOrderedRing α] in
theorem sumL_zero : ∀ (l : List α), (∀ x ∈ l, x = 0) → sumL l = 0 := by
  intro l
  induction l with
  | nil => intro _; rfl
  | cons x xs ih =>
    intro h
    show x + sumL xs = 0
    rw [h x (by simp), ih (fun y hy => h y (by simp [hy])), add_zero]

omit [LinearOrder α] [IsStrictOrderedRing α] in
/-- a list that vanishes off position `k` sums to its `k`-th entry -/
theorem sumL_single : ∀ (l : List α) (k : Nat) (hk : k < l.length),
    (∀ j (hj : j < l.length), j ≠ k → l[j] = 0) → sumL l = l[k] := by
  intro l
  induction l with
  | nil => intro k hk; simp at hk
  | cons x xs ih =>
    intro k hk h
    cases k with
    | zero =>
      have hz : sumL xs = 0 := by
        apply sumL_zero
        intro y hy
        obtain ⟨j, hj, rfl⟩ := List.getElem_of_mem hy
        have := h (j + 1) (by simp; omega) (by omega)
        simp only [List.getElem_cons_succ] at this
        exact this
      show x + sumL xs = x
      rw [hz, add_zero]
    | succ k =>
      have hx : x = 0 := by
        have := h 0 (by simp) (by omega)
        simp only [List.getElem_cons_zero] at this
        exact this
      have hk' : k < xs.length := by simpa using hk
      have := ih k hk' (fun j hj hne => by
        have := h (j + 1) (by simp; omega) (by omega)
        simp only [List.getElem_cons_succ] at this
        exact this)
      show x + sumL xs = xs[k]
      rw [hx, this, zero_add]

end Gumbel

/-! ## categorical relaxation: densities as sums over positions -/
section
variable {α : Type} [LinearOrder α]
theorem argmaxFrom_lt : ∀ (xs : List α) (i bi : Nat) (bv : α), bi < i →
    argmaxFrom i bi bv xs < i + xs.length := by
  intro xs
  induction xs with
  | nil => intro i bi bv h; simpa [argmaxFrom] using h
  | cons x xs ih =>
    intro i bi bv h
    simp only [argmaxFrom, List.length_cons]
    split
    · have := ih (i + 1) i x (by omega); omega
    · have := ih (i + 1) bi bv (by omega); omega

theorem argmax_lt (z : List α) (h : 0 < z.length) : argmax z < z.length := by
  cases z with
  | nil => simp at h
  | cons x xs =>
    have := argmaxFrom_lt xs 1 0 x (by omega)
    simp only [argmax, List.length_cons]; omega
end

theorem sumL_eq_sum (l : List ℝ) : sumL l = l.sum := by
  induction l with
  | nil => rfl
  | cons x xs ih => show x + sumL xs = _; rw [ih, List.sum_cons]

theorem sum_range_ite (V k : Nat) (hk : k < V) (g : Nat → ℝ) :
    ((List.range V).map fun j => if j = k then g j else 0).sum = g k := by
  rw [← sumL_eq_sum, sumL_single _ k (by simpa using hk)]
  · simp
  · intro j hj hne
    simp [hne]

theorem gLogProb_map (R : List Nat) (lf zf : Nat → ℝ) :
    gLogProb TR (R.map lf) (R.map zf)
      = (R.map fun j => (lf j - zf j) - Real.exp (lf j - zf j)).sum := by
  simp only [gLogProb, zipWith_map_map, sumL_eq_sum, TR]

theorem gTlogProb_map (R : List Nat) (lf bf : Nat → ℝ) :
    gTlogProb (R.map lf) (R.map bf) = (R.map fun j => if bf j = 0 then 0 else lf j).sum := by
  simp only [gTlogProb, zipWith_map_map, sumL_eq_sum]

theorem gClogProb_map (R : List Nat) (lf zf bf : Nat → ℝ) (h : gThreshold (R.map zf) = R.map bf) :
    gClogProb TR (R.map lf) (R.map zf) (R.map bf)
      = some ((R.map fun j =>
          ((lf j * (1 - bf j) - zf j) - Real.exp (lf j * (1 - bf j) - zf j))
            - (-Real.exp (lf j * (1 - bf j) - (R.map fun i => zf i * bf i).sum) * (1 - bf j))).sum) := by
  unfold gClogProb
  rw [if_neg (by rw [h]; simp)]
  simp only [List.map_map, zipWith_map_map, sumL_eq_sum, TR, Function.comp_def]


/-! ## SRSWOR length, Metropolis–Hastings chain -/


theorem srsworLoop_length : ∀ (os : List Rat) (ell rt : Rat), (srsworLoop ell rt os).length = os.length := by
  intro os
  induction os with
  | nil => intro _ _; rfl
  | cons o os ih => intro ell rt; simp [srsworLoop, ih]

section IMH
variable {α σ : Type} [Field α] [LinearOrder α]

/-- `log u` for some `u ∈ [0, 1)`: `-inf` or a negative number -/
def NegLog (lu : Option α) : Prop := ∀ l, lu = some l → l < 0

/-- the chain loop when every proposal is accepted -/
def plainLoop (f : σ → α) (burnIn : Nat) : Nat → Option α → List σ → Option α
  | _, v, [] => v
  | n, v, c :: cs =>
    plainLoop f burnIn (n + 1)
      (if burnIn ≤ n then (if n = burnIn then some (f c) else v.map (· + f c)) else v) cs

theorem imhLoop_accept_all (ratio : σ → α) (f : σ → α) (burnIn : Nat) (hr : ∀ b, ratio b = 0) :
    ∀ (steps : List (σ × Option α)) (n : Nat) (last : σ) (v : Option α),
      (∀ s ∈ steps, NegLog s.2) →
      imhLoop ratio f burnIn n last 0 v steps = plainLoop f burnIn n v (steps.map Prod.fst) := by
  intro steps
  induction steps with
  | nil => intro n last v _; rfl
  | cons s rest ih =>
    intro n last v h
    obtain ⟨c, lu⟩ := s
    have hlu : NegLog lu := h (c, lu) (by simp)
    have hrest : ∀ s ∈ rest, NegLog s.2 := fun s hs => h s (by simp [hs])
    cases lu with
    | none =>
      simp only [imhLoop, if_true, List.map_cons, plainLoop, hr c]
      exact ih (n + 1) c _ hrest
    | some l =>
      have hl : l < 0 := hlu l rfl
      simp only [imhLoop, hr c, sub_self, hl, decide_true, if_true, List.map_cons, plainLoop]
      exact ih (n + 1) c _ hrest

omit [LinearOrder α] in
theorem plainLoop_after (f : σ → α) (burnIn : Nat) :
    ∀ (cs : List σ) (n : Nat) (s : α), burnIn < n →
      plainLoop f burnIn n (some s) cs = some (s + (cs.map f).sum) := by
  intro cs
  induction cs with
  | nil => intro n s _; simp [plainLoop]
  | cons c cs ih =>
    intro n s hn
    have h1 : burnIn ≤ n := by omega
    have h2 : ¬ n = burnIn := by omega
    simp only [plainLoop, h1, h2, if_true, if_false, Option.map_some, List.map_cons, List.sum_cons]
    rw [ih (n + 1) _ (by omega)]
    congr 1; ring

omit [LinearOrder α] in
theorem plainLoop_before (f : σ → α) (burnIn : Nat) :
    ∀ (cs : List σ) (n : Nat) (v : Option α), n ≤ burnIn → burnIn - n < cs.length →
      plainLoop f burnIn n v cs = some (((cs.drop (burnIn - n)).map f).sum) := by
  intro cs
  induction cs with
  | nil => intro n v _ h; simp at h
  | cons c cs ih =>
    intro n v hn hl
    by_cases he : n = burnIn
    · subst he
      simp only [plainLoop, le_refl, if_true, Nat.sub_self, List.drop_zero, List.map_cons, List.sum_cons]
      exact plainLoop_after f n cs (n + 1) (f c) (by omega)
    · have h1 : ¬ burnIn ≤ n := by omega
      simp only [plainLoop, h1, if_false]
      have e : burnIn - n = (burnIn - (n + 1)) + 1 := by omega
      rw [ih (n + 1) v (by omega) (by simp at hl; omega), e, List.drop_succ_cons]


/-- the chain part of `imhEstimate` when proposal = density -/
theorem imh_chain (ratio : σ → α) (f : σ → α) (hr : ∀ b, ratio b = 0) (N burnIn : Nat) (b0 : σ)
    (rest : List σ) (lus : List (Option α)) (hlu : ∀ lu ∈ lus, NegLog lu) (hb : burnIn < N)
    (hd : N ≤ rest.length) (hl : N ≤ lus.length) :
    imhLoop ratio f burnIn 0 b0 (ratio b0) none ((rest.take N).zip (lus.take N))
      = some ((((rest.take N).drop burnIn).map f).sum) := by
  rw [hr b0, imhLoop_accept_all ratio f burnIn hr]
  · have hz : ((rest.take N).zip (lus.take N)).map Prod.fst = rest.take N := by
      apply List.map_fst_zip
      simp [List.length_take]; omega
    rw [hz, plainLoop_before f burnIn _ 0 none (Nat.zero_le _) (by simp [List.length_take]; omega)]
    simp
  · intro s hs
    obtain ⟨c, lu⟩ := s
    have := (List.of_mem_zip hs).2
    exact hlu lu (List.mem_of_mem_take this)

end IMH

/-! ## binomial tables -/
section Binom
open Nat


theorem cumsumFrom_choose (c : Nat) : ∀ (k s : Nat),
    cumsumFrom (Nat.choose s (c + 1)) ((List.range' s k).map fun m => Nat.choose m c)
      = (List.range' (s + 1) k).map fun m => Nat.choose m (c + 1) := by
  intro k
  induction k with
  | zero => intro s; rfl
  | succ k ih =>
    intro s
    simp only [List.range'_succ, List.map_cons, cumsumFrom]
    have e : Nat.choose s (c + 1) + Nat.choose s c = Nat.choose (s + 1) (c + 1) := by
      rw [Nat.choose_succ_succ, Nat.add_comm]
    rw [e, ih (s + 1)]

theorem binomRow_eq (L : Nat) : ∀ c, binomRow L c = (List.range' 0 (L + 1)).map fun m => Nat.choose m c := by
  intro c
  induction c with
  | zero =>
    simp only [binomRow, Nat.choose_zero_right]
    rw [List.map_const', List.length_range']
  | succ c ih =>
    simp only [binomRow, binomNextRow, ih]
    have hd : ((List.range' 0 (L + 1)).map fun m => Nat.choose m c).dropLast
        = (List.range' 0 L).map fun m => Nat.choose m c := by
      rw [List.range'_1_concat, List.map_append, List.map_singleton, List.dropLast_concat]
    rw [hd]
    have h0 := cumsumFrom_choose c L 0
    simp only [Nat.choose_zero_succ] at h0
    rw [h0]
    conv_rhs => rw [List.range'_succ]
    simp

theorem cumprodFrom_factorial : ∀ (k s : Nat),
    cumprodFrom s ! (List.range' (s + 1) k) = (List.range' (s + 1) k).map Nat.factorial := by
  intro k
  induction k with
  | zero => intro s; rfl
  | succ k ih =>
    intro s
    simp only [List.range'_succ, List.map_cons, cumprodFrom]
    have e : s ! * (s + 1) = (s + 1)! := by rw [Nat.factorial_succ, Nat.mul_comm]
    rw [e, ih (s + 1)]

theorem factTable_eq (L : Nat) : factTable L = (List.range' 0 (L + 2)).map Nat.factorial := by
  simp only [factTable, cumprodFrom, Nat.mul_one]
  have := cumprodFrom_factorial (L + 1) 0
  simp only [Nat.factorial_zero, Nat.zero_add] at this
  rw [this]
  conv_rhs => rw [List.range'_succ]
  simp

theorem factTable_getD (L i : Nat) (h : i ≤ L + 1) : (factTable L).getD i 0 = i ! := by
  rw [factTable_eq, List.getD_eq_getElem?_getD, List.getElem?_map, List.getElem?_range' (by omega)]
  simp


end Binom

/-! ## base-V digits (enumerate_vocab_sequences) -/
/-- little-endian base-`V` digits of `s`, `n` of them -/
def digitsLE (V : Nat) : Nat → Nat → List Nat
  | 0, _ => []
  | n + 1, s => (s % V) :: digitsLE V n (s / V)

theorem enumVocab_row (V n s : Nat) :
    ((List.range n).map fun r => (s / V ^ r) % V) = digitsLE V n s := by
  induction n generalizing s with
  | zero => rfl
  | succ n ih =>
    rw [List.range_succ_eq_map, List.map_cons, List.map_map]
    simp only [digitsLE, pow_zero, Nat.div_one]
    congr 1
    rw [← ih (s / V)]
    apply List.map_congr_left
    intro r _
    simp only [Function.comp, pow_succ, Nat.div_div_eq_div_mul, Nat.mul_comm]

/-- value of a little-endian digit string -/
def ofDigitsLE (V : Nat) : List Nat → Nat
  | [] => 0
  | d :: ds => d + V * ofDigitsLE V ds

theorem ofDigits_digits (V : Nat) : ∀ (n s : Nat), s < V ^ n → ofDigitsLE V (digitsLE V n s) = s := by
  intro n
  induction n with
  | zero => intro s h; simp at h; simp [digitsLE, ofDigitsLE, h]
  | succ n ih =>
    intro s h
    have hV : 0 < V := by
      rcases Nat.eq_zero_or_pos V with h0 | h0
      · subst h0; simp at h
      · exact h0
    have : s / V < V ^ n := by
      rw [Nat.div_lt_iff_lt_mul hV]; rw [pow_succ] at h; exact h
    simp only [digitsLE, ofDigitsLE, ih _ this]
    exact Nat.mod_add_div s V

theorem digits_ofDigits (V : Nat) : ∀ (ds : List Nat), (∀ d ∈ ds, d < V) →
    digitsLE V ds.length (ofDigitsLE V ds) = ds ∧ ofDigitsLE V ds < V ^ ds.length := by
  intro ds
  induction ds with
  | nil => intro _; simp [digitsLE, ofDigitsLE]
  | cons d ds ih =>
    intro h
    have hd : d < V := h d (by simp)
    obtain ⟨e1, e2⟩ := ih (fun x hx => h x (by simp [hx]))
    have hV : 0 < V := by omega
    refine ⟨?_, ?_⟩
    · simp only [List.length_cons, digitsLE, ofDigitsLE]
      have m : (d + V * ofDigitsLE V ds) % V = d := by
        rw [Nat.add_mul_mod_self_left, Nat.mod_eq_of_lt hd]
      have q : (d + V * ofDigitsLE V ds) / V = ofDigitsLE V ds := by
        rw [Nat.add_mul_div_left _ _ hV, Nat.div_eq_of_lt hd, Nat.zero_add]
      rw [m, q, e1]
    · simp only [List.length_cons, ofDigitsLE, pow_succ]
      calc d + V * ofDigitsLE V ds < V + V * ofDigitsLE V ds := by omega
        _ = V * (ofDigitsLE V ds + 1) := by ring
        _ ≤ V * V ^ ds.length := Nat.mul_le_mul_left _ e2
        _ = V ^ ds.length * V := by ring

theorem digitsLE_length (V : Nat) : ∀ n s, (digitsLE V n s).length = n := by
  intro n; induction n with
  | zero => intro s; rfl
  | succ n ih => intro s; simp [digitsLE, ih]

theorem digitsLE_lt (V : Nat) (hV : 0 < V) : ∀ n s, ∀ d ∈ digitsLE V n s, d < V := by
  intro n; induction n with
  | zero => intro s d h; simp [digitsLE] at h
  | succ n ih =>
    intro s d h
    simp only [digitsLE, List.mem_cons] at h
    rcases h with rfl | h
    · exact Nat.mod_lt _ hV
    · exact ih _ d h

theorem enumVocab_eq (n V : Nat) : enumVocab n V = (List.range (V ^ n)).map (digitsLE V n) := by
  simp only [enumVocab, enumVocab_row]


end PdtVerif.Estimators
