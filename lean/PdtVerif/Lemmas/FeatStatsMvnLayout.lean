import PdtVerif.Lemmas.FeatStatsLayout
import Mathlib.Data.List.Perm.Basic
import Mathlib.Data.List.Nodup
/-!
# `accumulate` / `forward`: which entries of the input belong to which coefficient

`columns x dim` (= `x.transpose(0, dim).unsqueeze(-1).flatten(1)`) and `uncolumns`, related to
flat positions of `x` (helper lemmas for `C18_columns_entries`, `C18_forward_layout`).
-/
namespace PdtVerif.FeatStats

/-- Flat position in `x` of the entry that `x.transpose(a, b)` holds at flat position `k'`. -/
def srcPos (x : Tensor) (n a b k' : Nat) : Nat :=
  ravel x.shape ((List.range n).map (fun d => (unravel (x.transpose a b).shape k').getD (swapF a b d) 0))

theorem transpose_shape_getD (t : Tensor) (n : Nat) (hn : t.shape.length = n) (a b j : Nat)
    (hj : j < n) : (t.transpose a b).shape.getD j 1 = t.shape.getD (swapF a b j) 1 := by
  rw [transpose_shape t n hn, getD_map_range n _ j hj]

/-- Everything about reading the transposed tensor at a flat position. -/
theorem transpose_data (x : Tensor) (n : Nat) (hn : x.shape.length = n) (a b : Nat) (ha : a < n)
    (hb : b < n) (k' : Nat) (hk : k' < prod (x.transpose a b).shape) :
    (x.transpose a b).data.getD k' 0 = x.data.getD (srcPos x n a b k') 0 ∧
    srcPos x n a b k' < prod x.shape ∧
    unravel x.shape (srcPos x n a b k')
      = (List.range n).map (fun d => (unravel (x.transpose a b).shape k').getD (swapF a b d) 0) := by
  have hn' : (x.transpose a b).shape.length = n := by rw [transpose_shape_length, hn]
  obtain ⟨e1, v1⟩ := data_getD_eq_at' (x.transpose a b) n hn' k' hk
  obtain ⟨e2, v2⟩ := transpose_at' x n hn a b ha hb _ v1
  have hvalid : Valid x.shape ((List.range n).map
      (fun d => (unravel (x.transpose a b).shape k').getD (swapF a b d) 0)) :=
    (valid_map_range x.shape n hn _).mpr v2
  refine ⟨?_, ravel_lt hvalid, unravel_ravel hvalid⟩
  rw [e1, e2]; rfl

/-- Flat position in `x.transpose(a, b)` of the entry that `x` holds at flat position `k`. -/
def dstPos (x : Tensor) (n a b k : Nat) : Nat :=
  ravel (x.transpose a b).shape ((List.range n).map (fun j => (unravel x.shape k).getD (swapF a b j) 0))

theorem dstPos_props (x : Tensor) (n : Nat) (hn : x.shape.length = n) (a b : Nat) (ha : a < n)
    (hb : b < n) (k : Nat) (hk : k < prod x.shape) :
    dstPos x n a b k < prod (x.transpose a b).shape ∧
    unravel (x.transpose a b).shape (dstPos x n a b k)
      = (List.range n).map (fun j => (unravel x.shape k).getD (swapF a b j) 0) ∧
    srcPos x n a b (dstPos x n a b k) = k := by
  have hn' : (x.transpose a b).shape.length = n := by rw [transpose_shape_length, hn]
  have hv := (valid_iff_getD _ _).mp (unravel_valid x.shape k hk)
  have hvalid : Valid (x.transpose a b).shape
      ((List.range n).map (fun j => (unravel x.shape k).getD (swapF a b j) 0)) := by
    rw [valid_map_range _ n hn']
    intro d hd
    rw [transpose_shape_getD x n hn a b d hd]
    exact hv.2 _ (by rw [hn]; exact swapF_lt a b d n ha hb hd)
  have hun := unravel_ravel hvalid
  refine ⟨ravel_lt hvalid, hun, ?_⟩
  unfold srcPos
  show ravel x.shape ((List.range n).map (fun d =>
    (unravel (x.transpose a b).shape (dstPos x n a b k)).getD (swapF a b d) 0)) = k
  unfold dstPos
  rw [hun]
  have : (List.range n).map (fun d => ((List.range n).map
      (fun j => (unravel x.shape k).getD (swapF a b j) 0)).getD (swapF a b d) 0)
      = unravel x.shape k := by
    rw [← map_range_getD (unravel x.shape k) n (by rw [unravel_length, hn]) 0]
    apply List.map_congr_left
    intro d hd
    have hd' := List.mem_range.mp hd
    rw [getD_map_range n _ _ (swapF_lt a b d n ha hb hd'), swapF_invol,
      map_range_getD (unravel x.shape k) n (by rw [unravel_length, hn]) 0]
  rw [this, ravel_unravel _ _ hk]

theorem srcPos_inj (x : Tensor) (n : Nat) (hn : x.shape.length = n) (a b : Nat) (ha : a < n)
    (hb : b < n) (k1 k2 : Nat) (h1 : k1 < prod (x.transpose a b).shape)
    (h2 : k2 < prod (x.transpose a b).shape) (h : srcPos x n a b k1 = srcPos x n a b k2) : k1 = k2 := by
  have hn' : (x.transpose a b).shape.length = n := by rw [transpose_shape_length, hn]
  obtain ⟨_, _, u1⟩ := transpose_data x n hn a b ha hb k1 h1
  obtain ⟨_, _, u2⟩ := transpose_data x n hn a b ha hb k2 h2
  rw [h, u2] at u1
  have key : unravel (x.transpose a b).shape k1 = unravel (x.transpose a b).shape k2 := by
    rw [← map_range_getD (unravel (x.transpose a b).shape k1) n (by rw [unravel_length, hn']) 0,
      ← map_range_getD (unravel (x.transpose a b).shape k2) n (by rw [unravel_length, hn']) 0]
    apply List.map_congr_left
    intro d hd
    have hd' := List.mem_range.mp hd
    have hs := swapF_lt a b d n ha hb hd'
    have := congrArg (fun l => l.getD (swapF a b d) 0) u1
    simp only [getD_map_range n _ _ hs, swapF_invol] at this
    exact this.symm
  rw [← ravel_unravel _ _ h1, ← ravel_unravel _ _ h2, key]

/-! ## `columns` -/

/-- Shape of `x.transpose(0, dim)`: the normalised axis first. -/
theorem xt0_shape (x : Tensor) (n dim : Nat) (hn : x.shape.length = n) (hdim : dim < n) :
    ∃ tl, (x.transpose 0 dim).shape = x.shape.getD dim 1 :: tl ∧
      x.numel = x.shape.getD dim 1 * prod tl := by
  have hlen : (x.transpose 0 dim).shape.length = n := by rw [transpose_shape_length, hn]
  have h0 := transpose_shape_getD x n hn 0 dim 0 (by omega)
  have hsw : swapF 0 dim 0 = dim := by unfold swapF; simp
  rw [hsw] at h0
  cases hs : (x.transpose 0 dim).shape with
  | nil => rw [hs] at hlen; simp at hlen; omega
  | cons h tl =>
    rw [hs] at h0
    simp only [List.getD_cons_zero] at h0
    refine ⟨tl, by rw [h0], ?_⟩
    unfold Tensor.numel
    rw [← prod_transpose x n hn 0 dim (by omega) hdim, hs, h0]
    rfl

theorem unravel_head (X : Nat) (tl : List Nat) (k : Nat) : (unravel (X :: tl) k).getD 0 0 = k / prod tl := rfl

/-- Row `i` of `columns`: the entries of `x` at the source positions of the flat positions
`i·F … i·F + F − 1` of the transposed tensor (`F` = number of frames). -/
theorem columns_getD (x : Tensor) (n dim : Nat) (hn : x.shape.length = n) (hdim : dim < n) (i : Nat)
    (hi : i < x.shape.getD dim 1) :
    (columns x dim).getD i [] = (List.range (x.numel / x.shape.getD dim 1)).map
      (fun f => x.data.getD (srcPos x n 0 dim (i * (x.numel / x.shape.getD dim 1) + f)) 0) := by
  obtain ⟨tl, hs, hnum⟩ := xt0_shape x n dim hn hdim
  have hX : 0 < x.shape.getD dim 1 := by omega
  have hF : x.numel / x.shape.getD dim 1 = prod tl := by rw [hnum, Nat.mul_div_cancel_left _ hX]
  have hlen : (x.transpose 0 dim).data.length = x.shape.getD dim 1 * prod tl := by
    rw [transpose_eq_permute, permute_data_length, ← transpose_eq_permute, hs]; rfl
  unfold columns
  simp only []
  rw [hF, rowsOf_getD (prod tl) _ _ i hi (by rw [hlen])]
  apply List.map_congr_left
  intro f hf
  have hf' := List.mem_range.mp hf
  have hk : i * prod tl + f < prod (x.transpose 0 dim).shape := by
    rw [hs]; show _ < x.shape.getD dim 1 * prod tl
    calc i * prod tl + f < i * prod tl + prod tl := by omega
      _ = (i + 1) * prod tl := by ring
      _ ≤ x.shape.getD dim 1 * prod tl := Nat.mul_le_mul_right _ hi
  exact (transpose_data x n hn 0 dim (by omega) hdim _ hk).1

theorem columns_length (x : Tensor) (dim : Nat) : (columns x dim).length = x.shape.getD dim 1 := by
  simp [columns, rowsOf]

/-- The source positions of row `i` are exactly the flat positions of `x` whose `dim`-th
coordinate is `i`. -/
theorem column_positions_perm (x : Tensor) (n dim : Nat) (hn : x.shape.length = n) (hdim : dim < n)
    (i : Nat) (hi : i < x.shape.getD dim 1) :
    ((List.range (x.numel / x.shape.getD dim 1)).map
        (fun f => srcPos x n 0 dim (i * (x.numel / x.shape.getD dim 1) + f))).Perm
      ((List.range x.numel).filter (fun k => (unravel x.shape k).getD dim 0 == i)) := by
  obtain ⟨tl, hs, hnum⟩ := xt0_shape x n dim hn hdim
  have hX : 0 < x.shape.getD dim 1 := by omega
  have hF : x.numel / x.shape.getD dim 1 = prod tl := by rw [hnum, Nat.mul_div_cancel_left _ hX]
  rw [hF]
  have hprod : prod (x.transpose 0 dim).shape = x.shape.getD dim 1 * prod tl := by rw [hs]; rfl
  have hpos : ∀ f, f < prod tl → i * prod tl + f < prod (x.transpose 0 dim).shape := by
    intro f hf
    rw [hprod]
    calc i * prod tl + f < i * prod tl + prod tl := by omega
      _ = (i + 1) * prod tl := by ring
      _ ≤ x.shape.getD dim 1 * prod tl := Nat.mul_le_mul_right _ hi
  have hsw : swapF 0 dim dim = 0 := by unfold swapF; split_ifs <;> omega
  apply (List.perm_ext_iff_of_nodup ?_ (List.nodup_range.filter _)).mpr
  · intro k
    simp only [List.mem_map, List.mem_range, List.mem_filter, beq_iff_eq]
    constructor
    · rintro ⟨f, hf, rfl⟩
      obtain ⟨_, h2, h3⟩ := transpose_data x n hn 0 dim (by omega) hdim _ (hpos f hf)
      refine ⟨h2, ?_⟩
      rw [h3, getD_map_range n _ dim hdim, hsw, hs, unravel_head]
      have hP : 0 < prod tl := by omega
      rw [Nat.add_comm, Nat.add_mul_div_right _ _ hP, Nat.div_eq_of_lt hf, Nat.zero_add]
    · rintro ⟨hk, hki⟩
      obtain ⟨d1, d2, d3⟩ := dstPos_props x n hn 0 dim (by omega) hdim k hk
      have hhead : dstPos x n 0 dim k / prod tl = i := by
        have := congrArg (fun l => l.getD 0 0) d2
        rw [getD_map_range n _ 0 (by omega)] at this
        have hsw0 : swapF 0 dim 0 = dim := by unfold swapF; simp
        rw [hsw0, hki, hs, unravel_head] at this
        exact this
      have hP : 0 < prod tl := by
        rcases Nat.eq_zero_or_pos (prod tl) with h0 | h0
        · rw [hprod, h0] at d1; simp at d1
        · exact h0
      refine ⟨dstPos x n 0 dim k % prod tl, Nat.mod_lt _ hP, ?_⟩
      have : i * prod tl + dstPos x n 0 dim k % prod tl = dstPos x n 0 dim k := by
        rw [← hhead]; exact Nat.div_add_mod' _ _
      rw [this, d3]
  · apply List.Nodup.map_on _ List.nodup_range
    intro f1 hf1 f2 hf2 h
    have := srcPos_inj x n hn 0 dim (by omega) hdim _ _ (hpos f1 (List.mem_range.mp hf1))
      (hpos f2 (List.mem_range.mp hf2)) h
    omega

/-! ## `uncolumns` and the whole of `mean_var_norm` -/

theorem double_swap_shape (x : Tensor) (n dim : Nat) (hn : x.shape.length = n) (hdim : dim < n)
    (flat : List Rat) :
    (({ shape := (x.transpose 0 dim).shape, data := flat } : Tensor).transpose 0 dim).shape = x.shape := by
  have hn' : (x.transpose 0 dim).shape.length = n := by rw [transpose_shape_length, hn]
  rw [transpose_shape ({ shape := (x.transpose 0 dim).shape, data := flat } : Tensor) n hn' 0 dim]
  simp only []
  conv_rhs => rw [← map_range_getD x.shape n hn 1]
  apply List.map_congr_left
  intro j hj
  have hj' := List.mem_range.mp hj
  rw [transpose_shape_getD x n hn 0 dim _ (swapF_lt 0 dim j n (by omega) hdim hj'), swapF_invol]

/-- Entry `k` of `uncolumns x dim ys`: the table entry `(k' / F, k' % F)` with `k'` the position
of `k` after `transpose(0, dim)`. -/
theorem uncolumns_getD (x : Tensor) (n dim : Nat) (hn : x.shape.length = n) (hdim : dim < n)
    (ys : List (List Rat)) (F : Nat) (hys : ys.length = x.shape.getD dim 1)
    (hF : x.numel = x.shape.getD dim 1 * F) (hrow : ∀ l ∈ ys, l.length = F) (k : Nat)
    (hk : k < prod x.shape) :
    (uncolumns x dim ys).data.getD k 0
      = (ys.getD (dstPos x n 0 dim k / F) []).getD (dstPos x n 0 dim k % F) 0 := by
  unfold uncolumns
  simp only []
  have hn' : (x.transpose 0 dim).shape.length = n := by rw [transpose_shape_length, hn]
  have hshape := double_swap_shape x n dim hn hdim ys.flatten
  generalize hZ : ({ shape := (x.transpose 0 dim).shape, data := ys.flatten } : Tensor) = Z at hshape
  have hZs : Z.shape = (x.transpose 0 dim).shape := by rw [← hZ]
  have hZd : Z.data = ys.flatten := by rw [← hZ]
  have hZn : Z.shape.length = n := by rw [hZs]; exact hn'
  have hRn : (Z.transpose 0 dim).shape.length = n := by rw [hshape]; exact hn
  obtain ⟨e1, v1⟩ := data_getD_eq_at' (Z.transpose 0 dim) n hRn k (by rw [hshape]; exact hk)
  obtain ⟨e2, _⟩ := transpose_at' Z n hZn 0 dim (by omega) hdim _ v1
  rw [e1, e2]
  unfold Tensor.at
  rw [hshape, hZs, hZd]
  show ys.flatten.getD (dstPos x n 0 dim k) 0 = _
  obtain ⟨d1, _, _⟩ := dstPos_props x n hn 0 dim (by omega) hdim k hk
  have hprod : prod (x.transpose 0 dim).shape = x.shape.getD dim 1 * F := by
    rw [prod_transpose x n hn 0 dim (by omega) hdim]; exact hF
  rw [hprod] at d1
  have hFpos : 0 < F := by
    rcases Nat.eq_zero_or_pos F with h0 | h0
    · rw [h0] at d1; simp at d1
    · exact h0
  have hdecomp : dstPos x n 0 dim k = dstPos x n 0 dim k / F * F + dstPos x n 0 dim k % F :=
    (Nat.div_add_mod' _ _).symm
  have hr : dstPos x n 0 dim k / F < ys.length := by
    rw [hys]; exact (Nat.div_lt_iff_lt_mul hFpos).mpr d1
  conv_lhs => rw [hdecomp]
  exact flatten_getD_uniform 0 F ys hrow _ _ hr (Nat.mod_lt _ hFpos)

theorem uncolumns_shape (x : Tensor) (n dim : Nat) (hn : x.shape.length = n) (hdim : dim < n)
    (ys : List (List Rat)) : (uncolumns x dim ys).shape = x.shape :=
  double_swap_shape x n dim hn hdim ys.flatten

theorem uncolumns_data_length (x : Tensor) (n dim : Nat) (hn : x.shape.length = n) (hdim : dim < n)
    (ys : List (List Rat)) : (uncolumns x dim ys).data.length = prod x.shape := by
  rw [← uncolumns_shape x n dim hn hdim ys]
  unfold uncolumns
  simp only []
  rw [transpose_eq_permute, permute_data_length]

/-- `mean_var_norm` on tensors is the documented formula entry by entry. -/
theorem meanVarNorm_layout (x : Tensor) (n dim : Nat) (hn : x.shape.length = n) (hdim : dim < n)
    (mean? std? : Option (List Rat)) (sq : List Rat) (eps : Rat)
    (hmu : (mean?.getD ((columns x dim).map mean)).length = x.shape.getD dim 1)
    (hsd : (std?.getD sq).length = x.shape.getD dim 1) :
    (meanVarNorm x dim mean? std? sq eps).2.2
      = mvnSpec x dim (mean?.getD ((columns x dim).map mean)) (std?.getD sq) eps := by
  obtain ⟨tl, hs, hnum⟩ := xt0_shape x n dim hn hdim
  have hcl := columns_length x dim
  have hyl : (meanVarNormCols (columns x dim) mean? std? sq eps).2.2.length = x.shape.getD dim 1 := by
    simp [meanVarNormCols, hcl, hmu, hsd]
  have hyi : ∀ i, i < x.shape.getD dim 1 →
      (meanVarNormCols (columns x dim) mean? std? sq eps).2.2.getD i []
        = normCol ((columns x dim).getD i []) ((mean?.getD ((columns x dim).map mean)).getD i 0)
            ((std?.getD sq).getD i 0) eps :=
    fun i hi => meanVarNormCols_ys _ _ _ _ _ i (by rw [hcl]; exact hi) (by rw [hmu]; exact hi)
      (by rw [hsd]; exact hi)
  have hcoli : ∀ i, i < x.shape.getD dim 1 → (columns x dim).getD i []
      = (List.range (prod tl)).map (fun f => x.data.getD (srcPos x n 0 dim (i * prod tl + f)) 0) := by
    intro i hi
    have hX : 0 < x.shape.getD dim 1 := by omega
    have := columns_getD x n dim hn hdim i hi
    rwa [show x.numel / x.shape.getD dim 1 = prod tl by rw [hnum, Nat.mul_div_cancel_left _ hX]] at this
  have hrowlen : ∀ l ∈ (meanVarNormCols (columns x dim) mean? std? sq eps).2.2, l.length = prod tl := by
    intro l hl
    obtain ⟨i, hi, rfl⟩ := List.mem_iff_getElem.mp hl
    have hi' : i < x.shape.getD dim 1 := by rw [← hyl]; exact hi
    have := hyi i hi'
    rw [List.getD_eq_getElem?_getD, List.getElem?_eq_getElem hi] at this
    simp only [Option.getD_some] at this
    rw [this, length_normCol, hcoli i hi']
    simp
  show uncolumns x dim (meanVarNormCols (columns x dim) mean? std? sq eps).2.2 = _
  generalize hys : (meanVarNormCols (columns x dim) mean? std? sq eps).2.2 = ys at hyl hyi hrowlen
  have hsh := uncolumns_shape x n dim hn hdim ys
  have hdl := uncolumns_data_length x n dim hn hdim ys
  have hpt : ∀ k, k < prod x.shape → (uncolumns x dim ys).data.getD k 0
      = (x.data.getD k 0 - (mean?.getD ((columns x dim).map mean)).getD ((unravel x.shape k).getD dim 0) 0)
          / max ((std?.getD sq).getD ((unravel x.shape k).getD dim 0) 0) eps := by
    intro k hk
    rw [uncolumns_getD x n dim hn hdim ys (prod tl) hyl hnum hrowlen k hk]
    obtain ⟨d1, d2, d3⟩ := dstPos_props x n hn 0 dim (by omega) hdim k hk
    have hprod : prod (x.transpose 0 dim).shape = x.shape.getD dim 1 * prod tl := by rw [hs]; rfl
    rw [hprod] at d1
    have hP : 0 < prod tl := by
      rcases Nat.eq_zero_or_pos (prod tl) with h0 | h0
      · rw [h0] at d1; simp at d1
      · exact h0
    have hhead : dstPos x n 0 dim k / prod tl = (unravel x.shape k).getD dim 0 := by
      have := congrArg (fun l => l.getD 0 0) d2
      rw [getD_map_range n _ 0 (by omega)] at this
      have hsw0 : swapF 0 dim 0 = dim := by unfold swapF; simp
      rw [hsw0, hs, unravel_head] at this
      exact this
    have hi : dstPos x n 0 dim k / prod tl < x.shape.getD dim 1 := (Nat.div_lt_iff_lt_mul hP).mpr d1
    have hf : dstPos x n 0 dim k % prod tl < prod tl := Nat.mod_lt _ hP
    rw [hyi _ hi, hcoli _ hi, ← hhead]
    have hsrc : dstPos x n 0 dim k / prod tl * prod tl + dstPos x n 0 dim k % prod tl
        = dstPos x n 0 dim k := Nat.div_add_mod' _ _
    simp [normCol, List.getD_eq_getElem?_getD, List.getElem?_range hf, hsrc, d3]
  cases hU : uncolumns x dim ys with
  | mk Us Ud =>
    rw [hU] at hsh hdl hpt
    simp only at hsh hdl hpt
    unfold mvnSpec Tensor.numel
    subst hsh
    congr 1
    rw [list_eq_map_range_getD Ud, hdl]
    apply List.map_congr_left
    intro k hk
    exact hpt k (List.mem_range.mp hk)

end PdtVerif.FeatStats
